#!/usr/bin/env python3
"""Development aid: relabels the class of candidate finding lines produced with
VERIF_EMIT_FINDINGS by family (regex on the message), so known_findings.txt
groups them readably. usage: label_findings.py <in> <rules.py-style spec>"""
import re, sys, collections
rules = []
for spec in sys.argv[2:]:
    name, rx = spec.split('=', 1)
    rules.append((name, re.compile(rx)))
cls = collections.Counter()
for l in open(sys.argv[1]):
    m = re.match(r'(finding: property=\S+ class=)(\S+)( key=.* what=)(.*)$', l.rstrip('\n'))
    what = m.group(4)
    c = 'other'
    for name, rx in rules:
        if rx.search(what):
            c = name
            break
    cls[c] += 1
    print(m.group(1) + c + m.group(3) + what)
print(cls, file=sys.stderr)
