//go:build verif

// Package vbridge exists only in the verification overlay (never in /repo):
// it re-exports internal helpers so the checker, which lives in another
// module, can drive them.
package vbridge

import (
	"mvdan.cc/sh/v3/internal"
	"mvdan.cc/sh/v3/pattern"
)

func ExtendedPatternMatcher(pat string, mode pattern.Mode) (func(string) bool, error) {
	return internal.ExtendedPatternMatcher(pat, mode)
}
