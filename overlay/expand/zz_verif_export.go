//go:build verif

package expand

// VerifListEnviron exposes the package's own test seam for the
// case-insensitive (Windows) behaviour of ListEnviron.
func VerifListEnviron(caseInsensitive bool, pairs ...string) Environ {
	return listEnviron_(caseInsensitive, pairs...)
}
