//go:build verif

package syntax

// VerifC07Poison overwrites the parser's read buffer and literal buffer with
// 0xAA bytes (a UTF-8 continuation byte that no shell syntax uses). Check C07
// calls it before every parse so that a lexer bug which looks at buffer bytes
// that the current input never filled reads something conspicuous rather than
// the (identical) bytes left behind by the previous parse of the same input,
// or the NUL bytes of a new parser, which the lexer skips.
func (p *Parser) VerifC07Poison() {
	for i := range p.readBuf {
		p.readBuf[i] = 0xAA
	}
	for i := range p.litBuf {
		p.litBuf[i] = 0xAA
	}
}
