#!/usr/bin/env python3
"""Regenerates MANIFEST.json from the table below (kept in one place so the
manifest is always schema-valid)."""
import json, sys
sys.path.insert(0, '/verif')
from manifest_table import CHECKS, NOT_APPLICABLE

m = {
 "version": 1,
 "setup_cmd": "/verif/setup.sh",
 "hooks": {
  "guard": "verif",
  "enable": "no hooks are committed to /repo; instrumentation (where needed) is generated at check time from the working tree into a temp dir and wired in with `go build -overlay` plus -tags verif",
  "baseline_off_cmd": "cd /repo && GOFLAGS=-mod=mod GOPROXY=off GOSUMDB=off GOTOOLCHAIN=local go1.26 test -json -vet=off -count=1 -timeout 25m ./... ; cd /repo/moreinterp && GOFLAGS=-mod=mod GOPROXY=off GOSUMDB=off GOTOOLCHAIN=local go1.26 test -json -vet=off -count=1 -timeout 25m ./...",
  "source_commits": [],
  "add_only": True,
 },
 "engines": [
  {"name": "vsc", "path": "mc/cmd/vsc", "serves_properties": [c["id"] for c in CHECKS if c.get("engine") == "vsc"],
   "kind_free_text": "stateless model checker for the interpreter: mc/instr rewrites interp's concurrency primitives (from the working tree, at check time) to go through the controlled scheduler mc/shim/vsched; DFS over schedules with iterative preemption bounding, every execution under the Go race detector"},
  {"name": "vcheck", "path": "mc/cmd/vcheck", "serves_properties": [c["id"] for c in CHECKS if c.get("engine", "vcheck") == "vcheck"],
   "kind_free_text": "bounded-exhaustive enumeration of inputs/configurations/histories/schedules run against the real code with a deterministic oracle on every element"},
 ],
 "checks": [],
 "not_applicable": NOT_APPLICABLE,
 "notes": "see DESIGN.md; known_findings.txt lists recorded findings and fixes",
}
for c in CHECKS:
    m["checks"].append({
        "property_id": c["id"],
        "quick_cmd": "/verif/run.sh %s --tier quick" % c["id"],
        "thorough_cmd": "/verif/run.sh %s --tier thorough" % c["id"],
        "evidence_file": "/verif/evidence/%s.json" % c["id"],
        "replay_cmd_template": "/verif/run.sh %s --replay {path}" % c["id"],
        "engine": c.get("engine", "vcheck"),
        "level_claimed": {"category": c["level"], "text": c["text"], "design_ref": c.get("ref", "DESIGN.md §3 " + c["id"])},
        "level_note": c["note"],
        "technique": c["technique"],
    })
json.dump(m, open('/verif/MANIFEST.json', 'w'), indent=1)
print("checks:", len(CHECKS), "not_applicable:", len(NOT_APPLICABLE))
