#!/bin/bash
# Offline setup: warm the Go build cache for the checker and /repo.
export GOFLAGS=-mod=mod GOPROXY=off GOSUMDB=off GOTOOLCHAIN=local
mkdir -p /verif/.build /verif/evidence
cd /verif/mc && go1.26 build -o /verif/.build/vcheck ./cmd/vcheck
