#!/bin/bash
# Offline setup: warm the Go build cache for the checker and /repo.
# The checker imports packages that exist only through the add-only overlay
# (/verif/overlay -> /repo), so it must be built the way run.sh builds it.
export GOFLAGS=-mod=mod GOPROXY=off GOSUMDB=off GOTOOLCHAIN=local
mkdir -p /verif/.build /verif/evidence /verif/replays
exec /verif/run.sh --warm
