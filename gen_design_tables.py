#!/usr/bin/env python3
"""Rewrites the generated blocks of DESIGN.md (between BEGIN/END markers) from
MANIFEST.json, known_findings.txt, seeded/*/meta.json and /repo's git log."""
import json, re, os, glob, subprocess, collections
D='/verif/DESIGN.md'
s=open(D).read()
m=json.load(open('/verif/MANIFEST.json'))
fixed=collections.defaultdict(list); finds=collections.defaultdict(list)
for l in open('/verif/known_findings.txt'):
    x=re.match(r'fixed: property=(C\d+) (\S+) (.*)',l)
    if x: fixed[x.group(1)].append((x.group(2),x.group(3)))
    x=re.match(r'finding: property=(C\d+) class=(\S+) key=(.)',l)
    if x: finds[x.group(1)].append(x.group(2))
rows=['| id | level | engine | recorded findings (classes / exact inputs) | defects repaired (`fixed:` lines) |','|---|---|---|---|---|']
for c in sorted(m['checks'],key=lambda c:c['property_id']):
    p=c['property_id']
    cl=sorted(set(finds[p])); n=len(finds[p])
    rows.append('| %s | %s | %s | %d classes / %d lines | %d |'%(p,c['level_claimed']['category'],c['engine'],len(cl),n,len(fixed[p])))
state='\n'.join(rows)
seeds=['| seeded change | property | needs | result when first tried | after strengthening (only where the first try missed) |','|---|---|---|---|---|']
for d in sorted(glob.glob('/verif/seeded/*/meta.json')):
    j=json.load(open(d)); name=os.path.basename(os.path.dirname(d))
    def one(x): return re.sub(r'\s+',' ',str(x or '')).replace('|','\\|')[:260]
    seeds.append('| %s | %s | %s | %s | %s |'%(name,j.get('property'),one(j.get('needs')),one(j.get('detection')),one(j.get('after_strengthening'))))
stale=[]
for d in sorted(glob.glob('/verif/seeded/*/patch.diff')):
    if subprocess.run(['git','-C','/repo','apply','--check',d],capture_output=True).returncode!=0:
        stale.append(os.path.basename(os.path.dirname(d)))
seedt='\n'.join(seeds)
seedt+='\n\nEach patch applies to the /repo HEAD named in its meta.json (`confirmed_by`). Later repairs rewrote some of the patched lines; at the /repo HEAD of this table %d of %d patches still apply with `git apply`, these do not: %s.'%(len(seeds)-2-len(stale),len(seeds)-2,', '.join(stale) or 'none')
log=subprocess.run(['git','-C','/repo','log','--format=%h %s'],capture_output=True,text=True).stdout.splitlines()
fixes=[l for l in log if ' fix:' in l]
fixt='\n'.join('* `%s`'%l.replace('`',"'") for l in reversed(fixes))
def put(s,tag,body):
    b='<!-- BEGIN %s -->'%tag; e='<!-- END %s -->'%tag
    if b not in s: return s
    i=s.index(b)+len(b); j=s.index(e)
    return s[:i]+'\n'+body+'\n'+s[j:]
s=put(s,'STATE TABLE',state); s=put(s,'SEED TABLE',seedt); s=put(s,'FIX LIST',fixt)
open(D,'w').write(s)
print(len(rows)-2,'checks;',len(seeds)-2,'seeds;',len(fixes),'fix commits')
