package main

import (
	"go/ast"
	"reflect"
)

var exprType = reflect.TypeOf((*ast.Expr)(nil)).Elem()

// rewriteExprs applies f bottom-up to every ast.Expr slot (fields of type
// ast.Expr and elements of []ast.Expr) reachable from root.
func rewriteExprs(root ast.Node, f func(ast.Expr) ast.Expr) {
	seen := map[uintptr]bool{}
	var visit func(v reflect.Value)
	visit = func(v reflect.Value) {
		switch v.Kind() {
		case reflect.Interface:
			if v.IsNil() {
				return
			}
			visit(v.Elem())
			if v.CanSet() && v.Type() == exprType {
				if e, ok := v.Interface().(ast.Expr); ok {
					v.Set(reflect.ValueOf(f(e)))
				}
			}
		case reflect.Ptr:
			if v.IsNil() {
				return
			}
			if v.Type() == reflect.TypeOf((*ast.Object)(nil)) || v.Type() == reflect.TypeOf((*ast.Scope)(nil)) {
				return
			}
			if seen[v.Pointer()] {
				return
			}
			seen[v.Pointer()] = true
			visit(v.Elem())
		case reflect.Struct:
			for i := 0; i < v.NumField(); i++ {
				visit(v.Field(i))
			}
		case reflect.Slice:
			for i := 0; i < v.Len(); i++ {
				visit(v.Index(i))
			}
		}
	}
	visit(reflect.ValueOf(root))
}
