// Package enum holds the bounded enumerators.
package enum

// Strings calls f with every sequence of at most maxLen items of alphabet
// (including the empty one), concatenated, in length-then-lexicographic order.
func Strings(alphabet []string, maxLen int, f func(string)) {
	for n := 0; n <= maxLen; n++ {
		stringsN(alphabet, n, "", f)
	}
}

func stringsN(alphabet []string, n int, prefix string, f func(string)) {
	if n == 0 {
		f(prefix)
		return
	}
	for _, a := range alphabet {
		stringsN(alphabet, n-1, prefix+a, f)
	}
}

// Seqs calls f with every sequence of at most maxLen items of alphabet. The
// slice passed to f is reused; copy it to keep it.
func Seqs[T any](alphabet []T, maxLen int, f func([]T)) {
	buf := make([]T, 0, maxLen)
	for n := 0; n <= maxLen; n++ {
		seqsN(alphabet, n, buf, f)
	}
}

func seqsN[T any](alphabet []T, n int, buf []T, f func([]T)) {
	if n == 0 {
		f(buf)
		return
	}
	for _, a := range alphabet {
		seqsN(alphabet, n-1, append(buf, a), f)
	}
}

// Count returns the number of sequences Seqs/Strings produce.
func Count(alphabet, maxLen int) int {
	t, p := 0, 1
	for n := 0; n <= maxLen; n++ {
		t += p
		p *= alphabet
	}
	return t
}

// Product calls f with every element of the cartesian product of dims
// (indices). The slice is reused.
func Product(dims []int, f func([]int)) {
	idx := make([]int, len(dims))
	for _, d := range dims {
		if d == 0 {
			return
		}
	}
	for {
		f(idx)
		i := len(idx) - 1
		for ; i >= 0; i-- {
			idx[i]++
			if idx[i] < dims[i] {
				break
			}
			idx[i] = 0
		}
		if i < 0 {
			return
		}
	}
}
