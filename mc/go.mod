module verif/mc

go 1.26.0

require mvdan.cc/sh/v3 v3.0.0

require (
	golang.org/x/sys v0.47.0 // indirect
	golang.org/x/term v0.45.0 // indirect
)

replace mvdan.cc/sh/v3 => /repo
