// Package vc is the small framework shared by all checks: case distribution
// over workers, violation handling (re-execution, replay files, known
// findings), and the evidence writer.
package vc

import (
	"bufio"
	"crypto/sha256"
	"encoding/hex"
	"encoding/json"
	"fmt"
	"hash/maphash"
	"os"
	"path/filepath"
	"runtime"
	"runtime/debug"
	"sort"
	"strings"
	"sync"
	"sync/atomic"
	"time"
)

const Root = "/verif"

// OutRoot is where evidence and replay files are written: Root, unless
// VERIF_OUT_DIR names another directory (used by seeded/try_seed.sh so that a
// run against a seeded tree does not overwrite the evidence of the real one).
func OutRoot() string {
	if d := os.Getenv("VERIF_OUT_DIR"); d != "" {
		return d
	}
	return Root
}

// Fail describes one violated case.
type Fail struct {
	// Key identifies the witness for the known-findings file. It must be
	// deterministic and specific to the failing input and observed behaviour.
	Key string `json:"key"`
	// Msg is a one-line human description.
	Msg string `json:"msg"`
	// Detail is free-form (expected/observed).
	Detail any `json:"detail,omitempty"`
	// Class optionally names a narrow, code-defined family this failure
	// belongs to (syntactic shape of the input plus observed behaviour). A
	// known finding may be recorded for a whole class with key "class:<Class>".
	Class string `json:"class,omitempty"`
}

func Failf(key, format string, args ...any) *Fail {
	return &Fail{Key: key, Msg: fmt.Sprintf(format, args...)}
}

type finding struct {
	Property string
	Class    string
	Key      string
	What     string
	hits     int64
}

// Ctx carries one check run.
type Ctx struct {
	// BatchSize overrides the number of cases Run hands to a worker at a
	// time (default 64); the time budget is checked between batches.
	BatchSize int
	ID    string
	Tier  string
	Seed  int64
	Level string // evidence level
	Rule  string
	// Replay, when non-empty, is the path of a replay file to re-execute.
	Replay string
	// Reruns is how many extra times a failing case is re-executed before it
	// is believed (default 4).
	Reruns int

	Assumptions []string
	Extra       map[string]any

	start      time.Time
	deadline   time.Time
	evals      atomic.Int64
	expired    atomic.Bool
	capNotes   []string
	mu         sync.Mutex
	distinct   [64]map[uint64]struct{}
	dmu        [64]sync.Mutex
	seed       maphash.Seed
	samples    []any
	sampleSeen int64
	violations []violation
	nviol      int64
	known      map[string]*finding // by key
	knownHits  map[string]int      // class -> hits
	knownFirst map[string]string   // class -> first key hit
	nondet     []string
	Workers    int
	counters   map[string]*atomic.Int64
	dumpf      *os.File
	allFails   []*Fail
	batchPanics atomic.Int64
	reported    atomic.Int64
}

type violation struct {
	Fail   *Fail
	Case   json.RawMessage
	Replay string
}

func NewCtx(id, tier string) *Ctx {
	c := &Ctx{ID: id, Tier: tier, Level: "exploration", start: time.Now(), Extra: map[string]any{}, Reruns: 4}
	c.seed = maphash.MakeSeed()
	for i := range c.distinct {
		c.distinct[i] = map[uint64]struct{}{}
	}
	c.known = map[string]*finding{}
	c.knownHits = map[string]int{}
	c.knownFirst = map[string]string{}
	c.counters = map[string]*atomic.Int64{}
	c.Workers = runtime.NumCPU()
	if s := os.Getenv("VERIF_WORKERS"); s != "" {
		fmt.Sscan(s, &c.Workers)
	}
	if s := os.Getenv("VERIF_SEED"); s != "" {
		fmt.Sscan(s, &c.Seed)
	}
	budget := 75 * time.Second
	if tier == "thorough" {
		budget = 14 * time.Minute
	}
	if s := os.Getenv("VERIF_BUDGET_S"); s != "" {
		var n int
		fmt.Sscan(s, &n)
		budget = time.Duration(n) * time.Second
	}
	c.deadline = c.start.Add(budget)
	c.loadKnown()
	return c
}

func (c *Ctx) Quick() bool { return c.Tier != "thorough" }

// Pick returns q in the quick tier and t in the thorough tier.
func Pick[T any](c *Ctx, q, t T) T {
	if c.Quick() {
		return q
	}
	return t
}

// Expired reports whether the internal time budget ran out. A check that
// stops because of it must not claim exhaustive coverage; Finish takes care
// of that.
func (c *Ctx) Expired() bool {
	if c.expired.Load() {
		return true
	}
	if time.Now().After(c.deadline) {
		c.expired.Store(true)
		return true
	}
	return false
}

// CapNote records that some part of the enumeration was capped.
func (c *Ctx) CapNote(format string, args ...any) {
	c.mu.Lock()
	c.capNotes = append(c.capNotes, fmt.Sprintf(format, args...))
	c.mu.Unlock()
}

func (c *Ctx) Eval(n int) { c.evals.Add(int64(n)) }

// Count bumps a named counter reported in the evidence.
func (c *Ctx) Count(name string, n int) {
	c.mu.Lock()
	ctr := c.counters[name]
	if ctr == nil {
		ctr = new(atomic.Int64)
		c.counters[name] = ctr
	}
	c.mu.Unlock()
	ctr.Add(int64(n))
}

// Distinct records a non-trivial case/outcome key; the evidence reports the
// number of distinct keys seen.
func (c *Ctx) Distinct(key string) {
	h := maphash.String(c.seed, key)
	i := h & 63
	c.dmu[i].Lock()
	c.distinct[i][h] = struct{}{}
	c.dmu[i].Unlock()
}

func (c *Ctx) NDistinct() int {
	n := 0
	for i := range c.distinct {
		c.dmu[i].Lock()
		n += len(c.distinct[i])
		c.dmu[i].Unlock()
	}
	return n
}

// Sample keeps a few cases for the evidence file: the first 4 and then a
// deterministic thinning of later ones.
func (c *Ctx) Sample(v any) {
	n := atomic.AddInt64(&c.sampleSeen, 1)
	if n > 4 && (n&(n-1)) != 0 { // keep powers of two afterwards
		return
	}
	c.mu.Lock()
	if len(c.samples) < 24 {
		c.samples = append(c.samples, v)
	}
	c.mu.Unlock()
}

func (c *Ctx) knownPath() string { return filepath.Join(Root, "known_findings.txt") }

// known_findings.txt format, one entry per line:
//
//	finding: property=C22 class=<word> key=<json string> what=<free text>
//	fixed: property=C28 <commit> <what failed>
//
// "fixed:" lines are documentation only and suppress nothing.
func (c *Ctx) loadKnown() {
	c.loadKnownFile(c.knownPath())
	// development aid for check authors who may not edit the committed file
	if extra := os.Getenv("VERIF_KNOWN_EXTRA"); extra != "" {
		c.loadKnownFile(extra)
	}
}

func (c *Ctx) loadKnownFile(path string) {
	f, err := os.Open(path)
	if err != nil {
		return
	}
	defer f.Close()
	sc := bufio.NewScanner(f)
	sc.Buffer(make([]byte, 1<<20), 1<<26)
	for sc.Scan() {
		line := sc.Text()
		rest, ok := strings.CutPrefix(line, "finding: property="+c.ID+" class=")
		if !ok {
			continue
		}
		class, rest, ok := strings.Cut(rest, " key=")
		if !ok {
			continue
		}
		dec := json.NewDecoder(strings.NewReader(rest))
		var key string
		if err := dec.Decode(&key); err != nil {
			continue
		}
		what := strings.TrimSpace(rest[dec.InputOffset():])
		what = strings.TrimPrefix(what, "what=")
		c.known[key] = &finding{Property: c.ID, Class: class, Key: key, What: what}
	}
}

// Report handles one failure: it is re-executed (rerun must return non-nil
// with the same key each time) before being believed, then matched against
// the known findings, and otherwise recorded as a violation.
func (c *Ctx) Report(f *Fail, cs any, rerun func() *Fail) {
	if f == nil {
		return
	}
	if rerun != nil && c.reported.Add(1) <= 300 {
		// beyond 300 reports the failures are systematic; re-executing each
		// (often through an external shell) would only burn the budget
		for i := 0; i < c.Reruns; i++ {
			g := rerun()
			if g == nil || g.Key != f.Key {
				c.mu.Lock()
				c.nondet = append(c.nondet, f.Key+": "+f.Msg)
				c.mu.Unlock()
				return
			}
		}
	}
	c.mu.Lock()
	defer c.mu.Unlock()
	k := c.known[f.Key]
	if k == nil && f.Class != "" {
		k = c.known["class:"+f.Class]
	}
	if dump := os.Getenv("VERIF_DUMP"); dump != "" {
		if c.dumpf == nil {
			c.dumpf, _ = os.Create(dump)
		}
		kn := "NEW"
		if k != nil {
			kn = "known"
		}
		fmt.Fprintf(c.dumpf, "%s\t%s\t%s\t%s\n", kn, f.Class, oneLine(f.Key), oneLine(f.Msg))
	}
	if k != nil {
		k.hits++
		if c.knownHits[k.Class] == 0 {
			c.knownFirst[k.Class] = f.Key + " — " + k.What
		}
		c.knownHits[k.Class]++
		return
	}
	c.nviol++
	if os.Getenv("VERIF_EMIT_FINDINGS") != "" {
		c.allFails = append(c.allFails, f)
	}
	if len(c.violations) >= 200 {
		return
	}
	raw, _ := json.Marshal(cs)
	c.violations = append(c.violations, violation{Fail: f, Case: raw})
}

// EmitFindings, when VERIF_EMIT_FINDINGS=<class> is set, prints candidate
// known-finding lines for the violations of this run (a development aid; the
// committed file is never written at run time).
func (c *Ctx) emitFindings() {
	class := os.Getenv("VERIF_EMIT_FINDINGS")
	if class == "" {
		return
	}
	out, err := os.Create(filepath.Join(os.TempDir(), "findings-"+c.ID+".txt"))
	if err != nil {
		return
	}
	defer out.Close()
	sort.Slice(c.allFails, func(i, j int) bool { return c.allFails[i].Key < c.allFails[j].Key })
	for _, f := range c.allFails {
		k, _ := json.Marshal(f.Key)
		cl := class
		if f.Class != "" {
			cl = strings.ReplaceAll(f.Class, " ", "-")
		}
		fmt.Fprintf(out, "finding: property=%s class=%s key=%s what=%s\n", c.ID, cl, k, oneLine(f.Msg))
	}
}

// AtExit, if set, runs at the start of Finish (profiling aid).
var AtExit func()

// Finish writes the evidence file, prints the verdict lines and exits.
func (c *Ctx) Finish(exhaustive bool) {
	if AtExit != nil {
		AtExit()
	}
	if c.Replay != "" {
		if c.nviol > 0 {
			for _, v := range c.violations {
				fmt.Printf("replay: still failing: %s\n", v.Fail.Msg)
			}
			fmt.Printf("VIOLATION property=%s replay=%s\n", c.ID, c.Replay)
			os.Exit(1)
		}
		fmt.Printf("replay: case passes (or is a known finding)\n")
		os.Exit(0)
	}
	if c.expired.Load() {
		exhaustive = false
	}
	if n := len(c.nondet); n > 0 {
		// A failure that does not repeat when its case is re-executed alone is
		// not reported as a violation, but it must not disappear either: it
		// usually means the failure depends on what the worker ran before
		// (state left in a cached object), which the case alone cannot replay.
		first := c.nondet[0]
		if len(first) > 300 {
			first = first[:300] + "…"
		}
		c.capNotes = append(c.capNotes, fmt.Sprintf("%d cases failed once but passed when re-executed alone (history-dependent or nondeterministic; listed in the evidence under nondeterministic_not_reported), first: %s", n, first))
	}
	if len(c.capNotes) > 0 {
		exhaustive = false
	}
	wall := time.Since(c.start).Seconds()
	// replay files
	dir := filepath.Join(OutRoot(), "replays", c.ID)
	sort.SliceStable(c.violations, func(i, j int) bool {
		return len(c.violations[i].Case) < len(c.violations[j].Case)
	})
	for i := range c.violations {
		v := &c.violations[i]
		if i >= 25 {
			break
		}
		os.MkdirAll(dir, 0o755)
		sum := sha256.Sum256([]byte(v.Fail.Key))
		p := filepath.Join(dir, hex.EncodeToString(sum[:6])+".json")
		data, _ := json.MarshalIndent(map[string]any{
			"property": c.ID, "case": v.Case, "key": v.Fail.Key, "msg": v.Fail.Msg, "detail": v.Fail.Detail,
		}, "", " ")
		os.WriteFile(p, data, 0o644)
		v.Replay = p
	}
	c.emitFindings()

	cov := map[string]any{}
	for k, v := range c.Extra {
		cov[k] = v
	}
	cov["evaluations"] = c.evals.Load()
	cov["distinct_nontrivial"] = c.NDistinct()
	cov["rule"] = c.Rule
	if len(c.samples) == 0 {
		c.samples = []any{"(no sample recorded)"}
	}
	cov["samples"] = c.samples
	cov["exhaustive"] = exhaustive
	if len(c.capNotes) > 0 {
		cov["caps_hit"] = c.capNotes
	}
	if c.expired.Load() {
		cov["time_budget_hit"] = true
	}
	for k, v := range c.counters {
		cov[k] = v.Load()
	}
	if len(c.nondet) > 0 {
		cov["nondeterministic_not_reported"] = c.nondet
	}
	if len(c.knownHits) > 0 {
		kh := map[string]int{}
		for k, v := range c.knownHits {
			kh[k] = v
		}
		cov["known_findings_hit"] = kh
	}
	ev := map[string]any{
		"property_id": c.ID,
		"tier":        c.Tier,
		"seed":        c.Seed,
		"level":       c.Level,
		"coverage":    cov,
		"assumptions": c.Assumptions,
		"wall_s":      wall,
		"violations":  c.nviol,
	}
	if c.Assumptions == nil {
		ev["assumptions"] = []string{}
	}
	os.MkdirAll(filepath.Join(OutRoot(), "evidence"), 0o755)
	data, _ := json.MarshalIndent(ev, "", " ")
	if err := os.WriteFile(filepath.Join(OutRoot(), "evidence", c.ID+".json"), append(data, '\n'), 0o644); err != nil {
		fmt.Fprintln(os.Stderr, "cannot write evidence:", err)
		os.Exit(2)
	}

	fmt.Printf("%s tier=%s evaluations=%d distinct=%d exhaustive=%v wall=%.1fs violations=%d\n",
		c.ID, c.Tier, c.evals.Load(), c.NDistinct(), exhaustive, wall, c.nviol)
	for _, n := range c.capNotes {
		fmt.Printf("cap: %s\n", n)
	}
	var classes []string
	for k := range c.knownHits {
		classes = append(classes, k)
	}
	sort.Strings(classes)
	for _, k := range classes {
		fmt.Printf("KNOWN-FINDING: property=%s class=%s witnesses=%d first=%s\n", c.ID, k, c.knownHits[k], oneLine(c.knownFirst[k]))
	}
	if c.nviol > 0 {
		for i, v := range c.violations {
			if i >= 25 {
				break
			}
			fmt.Printf("  %s\n", oneLine(v.Fail.Msg))
			fmt.Printf("VIOLATION property=%s replay=%s\n", c.ID, v.Replay)
		}
		os.Exit(1)
	}
	os.Exit(0)
}

func oneLine(s string) string {
	s = strings.ReplaceAll(s, "\n", "\\n")
	if len(s) > 300 {
		s = s[:300] + "…"
	}
	return s
}

// Run distributes cases produced by gen over the workers; run is called for
// each case and returns nil or a failure. It returns true when gen completed
// without the time budget expiring.
func Run[T any](c *Ctx, gen func(emit func(T)), run func(T) *Fail) bool {
	size := 64
	if c.BatchSize > 0 {
		size = c.BatchSize // checks whose cases take seconds (external processes) use 1
	}
	return RunBatch(c, size, gen, func(ts []T) []*Fail {
		out := make([]*Fail, len(ts))
		for i, t := range ts {
			out[i] = safeRun(run, t)
		}
		return out
	})
}

// RunBatch is like Run but hands the cases to run in batches of up to size
// (useful when one external process judges many cases). run returns one
// entry per case, nil meaning the case passed. A failing case is re-executed
// alone before it is believed.
func RunBatch[T any](c *Ctx, size int, gen func(emit func(T)), run func([]T) []*Fail) bool {
	one := func(t T) *Fail {
		r := safeRun(func(t T) *Fail {
			fs := run([]T{t})
			if len(fs) == 0 {
				return nil
			}
			return fs[0]
		}, t)
		return r
	}
	if c.Replay != "" {
		data, err := os.ReadFile(c.Replay)
		if err != nil {
			fmt.Fprintln(os.Stderr, err)
			os.Exit(2)
		}
		var r struct {
			Case json.RawMessage `json:"case"`
		}
		var t T
		if err := json.Unmarshal(data, &r); err != nil || json.Unmarshal(r.Case, &t) != nil {
			fmt.Fprintln(os.Stderr, "bad replay file")
			os.Exit(2)
		}
		f := one(t)
		if f != nil {
			fmt.Printf("replay: %s\n", f.Msg)
			if d, err := json.MarshalIndent(f.Detail, "", " "); err == nil && f.Detail != nil {
				fmt.Printf("%s\n", d)
			}
		}
		c.Report(f, t, nil)
		return true
	}
	ch := make(chan []T, c.Workers*4)
	var wg sync.WaitGroup
	var dropped atomic.Bool
	for w := 0; w < c.Workers; w++ {
		wg.Add(1)
		go func() {
			defer wg.Done()
			for batch := range ch {
				if c.Expired() {
					// the budget ran out with batches still queued: they are
					// not run (and not counted); the run is reported as capped
					dropped.Store(true)
					continue
				}
				c.evals.Add(int64(len(batch)))
				var fs []*Fail
				func() {
					defer func() {
						if r := recover(); r != nil {
							// a panic in a batch: fall back to one by one
							if os.Getenv("VERIF_DEBUG") != "" {
								fmt.Fprintf(os.Stderr, "batch panic: %v\n%s\n", r, debug.Stack())
							}
							c.Count("batch_panics", 1)
							if c.batchPanics.Add(1) > 20 {
								fmt.Fprintf(os.Stderr, "harness failure: too many batches panicked, last: %v\n", r)
								os.Exit(2)
							}
							fs = make([]*Fail, len(batch))
							for i, t := range batch {
								fs[i] = one(t)
							}
						}
					}()
					fs = run(batch)
				}()
				for i, f := range fs {
					if f != nil {
						t := batch[i]
						c.Report(f, t, func() *Fail { return one(t) })
					}
				}
			}
		}()
	}
	complete := true
	var buf []T
	n := 0
	type stop struct{}
	func() {
		defer func() {
			if r := recover(); r != nil {
				if _, ok := r.(stop); !ok {
					panic(r)
				}
			}
		}()
		gen(func(t T) {
			buf = append(buf, t)
			if len(buf) >= size {
				ch <- buf
				buf = nil
				n++
				if n%8 == 0 && c.Expired() {
					complete = false
					panic(stop{})
				}
			}
		})
	}()
	if len(buf) > 0 {
		ch <- buf
	}
	close(ch)
	wg.Wait()
	return complete && !dropped.Load()
}

func safeRun[T any](run func(T) *Fail, t T) (f *Fail) {
	defer func() {
		if r := recover(); r != nil {
			st := string(debug.Stack())
			f = &Fail{Key: fmt.Sprintf("harness-or-target panic: %v", r), Msg: fmt.Sprintf("panic: %v", r), Detail: st}
			if pk := PanicKey; pk != nil {
				k, _ := json.Marshal(t)
				f.Key = pk(string(k), r)
			}
		}
	}()
	return run(t)
}

// PanicKey, when set by a check, builds the finding key for a panic in case k.
var PanicKey func(caseJSON string, r any) string
