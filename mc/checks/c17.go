package checks

import (
	"errors"
	"fmt"
	"os"
	"regexp"
	"strconv"
	"strings"
	"time"

	"mvdan.cc/sh/v3/pattern"
	"mvdan.cc/sh/v3/vbridge"

	"verif/mc/enum"
	"verif/mc/oracle"
	"verif/mc/vc"
)

func init() { Registry["C17"] = c17 }

type patCase struct {
	Pat  string `json:"pattern"`
	Mode uint   `json:"mode"`
}

func modeString(m pattern.Mode) string {
	names := []string{"Shortest", "Filenames", "EntireString", "NoGlobCase", "NoGlobStar", "GlobLeadingDot", "ExtendedOperators"}
	var out []string
	for i, n := range names {
		if m&(1<<uint(i)) != 0 {
			out = append(out, n)
		}
	}
	if len(out) == 0 {
		return "0"
	}
	return strings.Join(out, "|")
}

// baseSubjects is the subject universe shared by all patterns; per-pattern
// subjects (substrings of the pattern, the pattern with escapes removed) are
// added so that every literal use of a metacharacter is observable.
var c17SubjAlphabet = []string{"a", "b", "B", "/", ".", "[", "]", "-", `\`, "*", "é", "\n"}

func c17Subjects(maxLen int) []string {
	var s []string
	enum.Strings(c17SubjAlphabet, maxLen, func(x string) { s = append(s, x) })
	return s
}

func patExtras(p string) []string {
	seen := map[string]bool{}
	var out []string
	add := func(s string) {
		if !seen[s] && !strings.ContainsRune(s, 0) {
			seen[s] = true
			out = append(out, s)
		}
	}
	rs := []rune(p)
	for i := 0; i <= len(rs); i++ {
		for j := i + 1; j <= len(rs); j++ {
			add(string(rs[i:j]))
		}
	}
	// pattern with one level of backslashes removed
	var sb strings.Builder
	for i := 0; i < len(rs); i++ {
		if rs[i] == '\\' && i+1 < len(rs) {
			i++
		}
		sb.WriteRune(rs[i])
	}
	add(sb.String())
	// for extglob forms: a, aa, empty are in the base universe already;
	// add doubled pattern chars
	add(p + p)
	add("x" + p)
	add(strings.ToUpper(p))
	return out
}

// looseMalformed is the (deliberately generous) class of patterns for which a
// syntax error from Regexp is acceptable: a trailing backslash, a POSIX
// class/collating/equivalence element, or a reversed range inside a bracket.
func looseMalformed(p string) bool {
	if strings.HasSuffix(p, `\`) {
		return true
	}
	if strings.Contains(p, "[:") || strings.Contains(p, "[.") || strings.Contains(p, "[=") {
		return true
	}
	if i := strings.IndexByte(p, '['); i >= 0 {
		rs := []rune(p[i:])
		for k := 1; k+1 < len(rs); k++ {
			if rs[k] == '-' && rs[k-1] > rs[k+1] {
				return true
			}
		}
	}
	return false
}

func c17(c *vc.Ctx) {
	full := []string{"a", "b", "*", "?", "[", "]", "!", "^", "-", `\`, "/", ".", "(", ")", "|", "@", "+", "[:alpha:]", "[:x:]", "é"}
	reduced := []string{"a", "*", "?", "[", "]", "!", "-", `\`, "(", ")", "|", "@"}
	fullLen := vc.Pick(c, 3, 4)
	redLen := vc.Pick(c, 4, 5)
	subjLen := 3
	subjects := c17Subjects(subjLen)
	fnAlpha := []string{"a", "*", "?", "[", "]", "!", `\`, "/", "."}
	fnLen := vc.Pick(c, 4, 5)
	fnMore := vc.Pick(c, false, true)
	brInner := []string{"a", "!", "/", `\/`, "]", "-", "."}
	brPre, brSuf := []string{"", "a", "*"}, []string{"", "a"}
	brLen := vc.Pick(c, 2, 3)
	c.Rule = fmt.Sprintf("all patterns of <=%d symbols over %q plus all of exactly %d..%d symbols over %q; modes EntireString x {plain, ExtendedOperators (patterns with '('), NoGlobCase (patterns with letters or '[')}; every pattern's regexp is run on all %d subjects (strings <=%d over %q) plus pattern-derived subjects, and the set of matching subjects is compared with bash 5.2 `case $s in $p)` (extglob/nocasematch set accordingly). !(...) patterns go through internal.ExtendedPatternMatcher. Unanchored mode 0 and Shortest are checked for consistency with the anchored language. Filenames dimension: the patterns of <=%d symbols over the first alphabet plus all of exactly %d..%d symbols over %q, plus the bracket family {empty, a, *} + '[' + 1..%d symbols over %q + ']' + {empty, a} (patterns starting with '/' or holding an empty path component excepted), in modes Filenames|EntireString|NoGlobStar x {plain, GlobLeadingDot, NoGlobCase (letters or '['), ExtendedOperators ('(')%s} and Filenames|EntireString x {plain, GlobLeadingDot} for patterns holding '**'; the set of paths accepted by the regexp is compared with what bash 5.2 pathname expansion of the unquoted pattern returns (dotglob/nocaseglob/extglob/globstar as per mode, nullglob) in a directory tree holding %d subject paths (one- and two-level paths with component names of <=2 characters over %q / %q, each also with a trailing slash) and in a private tree holding the pattern-derived paths; every path bash returns must be accepted as well. distinct = distinct (mode, match-set) outcomes", fullLen, full, fullLen+1, redLen, reduced, len(subjects), subjLen, c17SubjAlphabet,
		fullLen, fullLen+1, fnLen, fnAlpha, brLen, brInner, map[bool]string{false: "", true: ", NoGlobCase|GlobLeadingDot, ExtendedOperators|GlobLeadingDot"}[fnMore], c17FnSubjectCount(), c17FnAlpha1, c17FnAlpha2)
	c.Assumptions = []string{"bash 5.2.15 in LC_ALL=C.utf8 is the oracle for pattern semantics", "a syntax error is accepted only for patterns in a loose malformed class (trailing backslash, [: [. [= elements, reversed range)", "Filenames modes: bash 5.2.15 pathname expansion in a scratch directory tree is the oracle (not a model of it); a pattern that bash hands back verbatim without treating it as a pattern (no unquoted *, ?, or [..] as bash sees it) is judged by the documented rule instead: it matches exactly its own text with the backslash escapes removed (case-insensitively with NoGlobCase)",
		"Filenames without EntireString is not enumerated (documented as meaningless); the behaviour of expand's own pathname expansion built on these expressions is C19's subject"}
	defer c17FnCleanup()

	var subjDecl strings.Builder
	subjDecl.WriteString("S=(")
	for _, s := range subjects {
		subjDecl.WriteString(oracle.ShQuote(s))
		subjDecl.WriteByte(' ')
	}
	subjDecl.WriteString(")\n")
	prelude := subjDecl.String() + `
chk() { # id flag expected pattern extras...
  local id=$1 flag=$2 exp=$3 p=$4 r= s i=0
  shift 4
  if [[ $flag == m ]]; then
    for s in "${S[@]}" "$@"; do case $s in $p) r+=" $i";; esac; i=$((i+1)); done
  else
    for s in "${S[@]}" "$@"; do case $s in $p) ;; *) r+=" $i";; esac; i=$((i+1)); done
  fi
  [[ $r == "$exp" ]] || echo "D $id $flag$r"
}
`
	c.Reruns = 1
	complete := vc.RunBatch(c, 400, func(emit func(patCase)) {
		gen := func(p string) {
			emit(patCase{p, uint(pattern.EntireString)})
			if strings.Contains(p, "(") {
				emit(patCase{p, uint(pattern.EntireString | pattern.ExtendedOperators)})
			}
			if strings.ContainsAny(p, "ab[") {
				emit(patCase{p, uint(pattern.EntireString | pattern.NoGlobCase)})
				if strings.Contains(p, "(") {
					emit(patCase{p, uint(pattern.EntireString | pattern.ExtendedOperators | pattern.NoGlobCase)})
				}
			}
		}
		// the Filenames dimension first
		genFn := func(p string) {
			for _, m := range c17FnModes(p, fnMore) {
				emit(patCase{p, uint(m)})
			}
		}
		// bracket expressions with plain and escaped slashes, in context
		for _, pre := range brPre {
			for _, suf := range brSuf {
				enum.Seqs(brInner, brLen, func(in []string) {
					if len(in) > 0 {
						genFn(pre + "[" + strings.Join(in, "") + "]" + suf)
					}
				})
			}
		}
		enum.Strings(full, fullLen, genFn)
		for n := fullLen + 1; n <= fnLen; n++ {
			enum.Seqs(fnAlpha, n, func(s []string) {
				if len(s) == n {
					genFn(strings.Join(s, ""))
				}
			})
		}
		enum.Strings(full, fullLen, gen)
		for n := fullLen + 1; n <= redLen; n++ {
			enum.Seqs(reduced, n, func(s []string) {
				if len(s) == n {
					gen(strings.Join(s, ""))
				}
			})
		}
	}, func(batch []patCase) []*vc.Fail {
		fails := make([]*vc.Fail, len(batch))
		tg := time.Now()
		defer func() { c.Count("ms_total", int(time.Since(tg).Milliseconds())) }()
		var script strings.Builder
		script.WriteString(prelude)
		type pending struct {
			idx     int
			all     []string
			matched []bool
		}
		var pend []pending
		curOpts := ""
		var fnIdx []int
		for i, pc := range batch {
			if pattern.Mode(pc.Mode)&pattern.Filenames != 0 {
				fnIdx = append(fnIdx, i)
			}
		}
		if len(fnIdx) > 0 {
			c17FilenamesBatch(c, batch, fnIdx, fails)
			if len(fnIdx) == len(batch) {
				return fails
			}
		}
		for i, pc := range batch {
			mode := pattern.Mode(pc.Mode)
			if mode&pattern.Filenames != 0 {
				continue
			}
			key := fmt.Sprintf("%q mode=%s", pc.Pat, modeString(mode))
			var match func(string) bool
			var expr string
			var err error
			if f := guard(key, func() { expr, err = pattern.Regexp(pc.Pat, mode) }); f != nil {
				fails[i] = f
				continue
			}
			var neg *pattern.NegExtGlobError
			switch {
			case errors.As(err, &neg):
				if mode&pattern.ExtendedOperators == 0 || !strings.Contains(pc.Pat, "!(") {
					fails[i] = vc.Failf(key+" negerr", "Regexp(%q, %s) returned NegExtGlobError without a !( group in extended mode", pc.Pat, modeString(mode))
					continue
				}
				var m func(string) bool
				if f := guard(key, func() { m, err = vbridge.ExtendedPatternMatcher(pc.Pat, mode) }); f != nil {
					fails[i] = f
					continue
				}
				if err != nil {
					c.Count("negated_extglob_unsupported", 1)
					continue // documented: supported "where possible"
				}
				match = m
			case err != nil:
				var se *pattern.SyntaxError
				if !errors.As(err, &se) {
					// SyntaxError has value receivers in this codebase
					var sv pattern.SyntaxError
					if !errors.As(err, &sv) {
						fails[i] = vc.Failf(key+" errtype", "Regexp(%q, %s) returned a non-syntax error: %v", pc.Pat, modeString(mode), err)
						continue
					}
				}
				if !looseMalformed(pc.Pat) {
					fails[i] = vc.Failf(key+" err", "Regexp(%q, %s) reports %q for a pattern that is not malformed", pc.Pat, modeString(mode), err)
				}
				c.Count("syntax_errors", 1)
				continue
			default:
				rx, err := regexp.Compile(expr)
				if err != nil {
					fails[i] = vc.Failf(key+" compile", "Regexp(%q, %s) = %q does not compile: %v", pc.Pat, modeString(mode), expr, err)
					continue
				}
				match = rx.MatchString
				// unanchored / shortest consistency with the anchored language
				if f := c17Unanchored(pc.Pat, mode, rx, subjects); f != nil {
					fails[i] = f
					continue
				}
			}
			extras := patExtras(pc.Pat)
			all := append(append([]string(nil), subjects...), extras...)
			matched := make([]bool, len(all))
			nm := 0
			for k, s := range all {
				if match(s) {
					matched[k] = true
					nm++
				}
			}
			flag := "m"
			want := true
			if nm > len(all)/2 {
				flag, want = "n", false
			}
			var exp strings.Builder
			for k := range all {
				if matched[k] == want {
					exp.WriteByte(' ')
					exp.WriteString(strconv.Itoa(k))
				}
			}
			opts := "shopt -u extglob nocasematch\n"
			if mode&pattern.ExtendedOperators != 0 && mode&pattern.NoGlobCase != 0 {
				opts = "shopt -s extglob nocasematch\n"
			} else if mode&pattern.ExtendedOperators != 0 {
				opts = "shopt -s extglob; shopt -u nocasematch\n"
			} else if mode&pattern.NoGlobCase != 0 {
				opts = "shopt -u extglob; shopt -s nocasematch\n"
			}
			if opts != curOpts {
				script.WriteString(opts)
				curOpts = opts
			}
			fmt.Fprintf(&script, "chk %d %s %s %s", len(pend), flag, oracle.ShQuote(exp.String()), oracle.ShQuote(pc.Pat))
			for _, e := range extras {
				script.WriteByte(' ')
				script.WriteString(oracle.ShQuote(e))
			}
			script.WriteByte('\n')
			pend = append(pend, pending{i, all, matched})
			c.Distinct(modeString(mode) + flag + exp.String())
			if len(pc.Pat) > 3 {
				c.Sample(map[string]any{"pattern": pc.Pat, "mode": modeString(mode), "regexp": expr, "subjects_matched": nm})
			}
		}
		script.WriteString("echo END\n")
		if os.Getenv("VERIF_KEEP") != "" && len(batch) > 100 {
			os.WriteFile("/tmp/c17batch.sh", []byte(script.String()), 0o644)
		}
		t0 := time.Now()
		out, _, err := oracle.ShellFile("bash", script.String(), "")
		c.Count("ms_bash", int(time.Since(t0).Milliseconds()))
		if os.Getenv("VERIF_KEEP") != "" && time.Since(t0) > 5*time.Second {
			os.WriteFile(fmt.Sprintf("/tmp/c17slow-%d.sh", time.Since(t0).Milliseconds()), []byte(script.String()), 0o644)
		}
		lines := strings.Split(strings.TrimSuffix(string(out), "\n"), "\n")
		if err != nil || len(lines) == 0 || lines[len(lines)-1] != "END" {
			panic(fmt.Sprintf("bash batch did not complete: %v", err))
		}
		for _, ln := range lines[:len(lines)-1] {
			f := strings.SplitN(ln, " ", 3)
			if len(f) < 3 || f[0] != "D" {
				panic("unexpected bash output: " + ln)
			}
			id, _ := strconv.Atoi(f[1])
			p := pend[id]
			pc := batch[p.idx]
			bm := make([]bool, len(p.all))
			isM := strings.HasPrefix(f[2], "m")
			if !isM {
				for k := range bm {
					bm[k] = true
				}
			}
			for _, x := range strings.Fields(f[2][1:]) {
				k, _ := strconv.Atoi(x)
				bm[k] = isM
			}
			var diffs []string
			first := ""
			for k := range p.all {
				if bm[k] != p.matched[k] {
					if first == "" {
						first = fmt.Sprintf("%q", p.all[k])
					}
					if len(diffs) < 6 {
						diffs = append(diffs, fmt.Sprintf("%q: sh=%v bash=%v", p.all[k], p.matched[k], bm[k]))
					}
				}
			}
			mode := pattern.Mode(pc.Mode)
			fails[p.idx] = &vc.Fail{
				Class:  c17Class(pc.Pat, mode, p.all, p.matched, bm),
				Key:    fmt.Sprintf("%q mode=%s subj=%s", pc.Pat, modeString(mode), first),
				Msg:    fmt.Sprintf("pattern %q mode %s: match set differs from bash: %s", pc.Pat, modeString(mode), strings.Join(diffs, "; ")),
				Detail: diffs,
			}
		}
		return fails
	})
	c17FnCleanup()
	c.Finish(complete)
}

// c17Unanchored checks that dropping EntireString accepts exactly the strings
// with a substring in the anchored language, and that Shortest does not
// change the language.
func c17Unanchored(pat string, mode pattern.Mode, anchored *regexp.Regexp, subjects []string) *vc.Fail {
	if mode != pattern.EntireString {
		return nil
	}
	for _, m := range []pattern.Mode{0, pattern.Shortest} {
		expr, err := pattern.Regexp(pat, m)
		if err != nil {
			return vc.Failf(fmt.Sprintf("%q unanchored err", pat), "Regexp(%q, %s) fails (%v) but EntireString succeeds", pat, modeString(m), err)
		}
		rx, err := regexp.Compile(expr)
		if err != nil {
			return vc.Failf(fmt.Sprintf("%q unanchored compile", pat), "Regexp(%q, %s) = %q does not compile", pat, modeString(m), expr)
		}
		for _, s := range subjects {
			if len([]rune(s)) > 2 {
				continue
			}
			want := false
			rs := []rune(s)
		outer:
			for i := 0; i <= len(rs); i++ {
				for j := i; j <= len(rs); j++ {
					if anchored.MatchString(string(rs[i:j])) {
						want = true
						break outer
					}
				}
			}
			if rx.MatchString(s) != want {
				return vc.Failf(fmt.Sprintf("%q mode=%s unanchored subj=%q", pat, modeString(m), s), "Regexp(%q, %s) matches %q = %v, but a substring in the anchored language exists = %v", pat, modeString(m), s, !want, want)
			}
		}
	}
	return nil
}

// c17Class names the narrow families of divergence that are recorded as
// known findings (see known_findings.txt); anything else has no class.
func c17Class(p string, mode pattern.Mode, all []string, sh, bash []bool) string {
	rs := []rune(p)
	unclosedExt, bracketInGroup, emptyGroup := false, false, false
	bracketSwallowsParen, plainParenInGroup, starThenEmptyAlt := false, false, false
	for i := 0; i < len(rs); i++ {
		if rs[i] == '\\' {
			i++
			continue
		}
		if strings.ContainsRune("!?*+@", rs[i]) && i+1 < len(rs) && rs[i+1] == '(' {
			depth, j := 1, i+2
			if j < len(rs) && rs[j] == ')' {
				emptyGroup = true
			}
			var brackets []int // positions of "[" inside the group
			altStart := j      // start of the current top-level alternative
			emptyAlt := false  // some top-level alternative is empty or only "*"
			endAlt := func(end int) {
				if alt := string(rs[altStart:end]); alt == "" || strings.Trim(alt, "*") == "" {
					emptyAlt = true
				}
			}
			for j < len(rs) && depth > 0 {
				switch rs[j] {
				case '\\':
					j++
				case '(':
					depth++
					if !strings.ContainsRune("!?*+@", rs[j-1]) {
						plainParenInGroup = true
					}
				case ')':
					depth--
					if depth == 0 {
						endAlt(j)
					}
				case '|':
					if depth == 1 {
						endAlt(j)
						altStart = j + 1
					}
				case '[':
					bracketInGroup = true
					brackets = append(brackets, j)
				}
				j++
			}
			if depth > 0 {
				unclosedExt = true
			} else {
				// j-1 is the ")" this package takes as the end of the group.
				// In bash a bracket expression binds tighter: one that opens
				// inside the group and is unterminated, or closes only after
				// that ")", swallows it.
				for _, b := range brackets {
					if cl := c17BracketClose(rs, b); cl < 0 || cl > j-1 {
						bracketSwallowsParen = true
					}
				}
				if emptyAlt && i > 0 && rs[i-1] == '*' && (i < 2 || rs[i-2] != '\\') {
					starThenEmptyAlt = true
				}
			}
		}
	}
	if mode&pattern.ExtendedOperators != 0 {
		if unclosedExt {
			return "unterminated-extglob-group"
		}
		if bracketInGroup && (!strings.Contains(p, "]") || bracketSwallowsParen) {
			return "unterminated-bracket-inside-extglob-group"
		}
		if emptyGroup {
			return "empty-extglob-group"
		}
		if plainParenInGroup {
			return "plain-parens-nested-in-extglob-group"
		}
		if starThenEmptyAlt {
			// bash 5.2 never takes the empty match of the group after "*"
			onlyShMatches := true
			for k := range all {
				if bash[k] && !sh[k] {
					onlyShMatches = false
				}
			}
			if onlyShMatches {
				return "star-then-group-matching-empty"
			}
		}
	}
	if mode&pattern.NoGlobCase != 0 && c17RangeWithNonLetterEnd(rs) {
		onlyLetterSubjects := true
		for k := range all {
			if sh[k] != bash[k] && !strings.ContainsFunc(all[k], func(r rune) bool { return r >= 'a' && r <= 'z' || r >= 'A' && r <= 'Z' }) {
				onlyLetterSubjects = false
			}
		}
		if onlyLetterSubjects {
			return "nocase-range-with-non-letter-endpoint"
		}
	}
	// an unterminated bracket expression that ends in "x-": bash matches nothing
	for i := 0; i < len(p) && strings.HasSuffix(p, "-"); i++ {
		if p[i] != '[' || len(p) < i+3 {
			continue
		}
		rest := p[i+1:]
		rest = strings.TrimPrefix(strings.TrimPrefix(rest, "!"), "^")
		rest = strings.ReplaceAll(strings.ReplaceAll(rest, `\\`, ""), `\]`, "")
		rest = c17PosixClassRx.ReplaceAllString(rest, "") // the "]" of [:alpha:] closes nothing
		if strings.Contains(strings.TrimPrefix(rest, "]"), "]") {
			continue
		}
		onlyShMatches := true
		for k := range all {
			if bash[k] && !sh[k] {
				onlyShMatches = false
			}
		}
		if onlyShMatches {
			return "unterminated-bracket-with-trailing-range"
		}
	}
	if i := strings.Index(p, "-[:"); i > 0 && strings.Contains(p[:i], "[") {
		// "[x-[:alpha:]": bash reads a range ending in "[" followed by the
		// ordinary characters ":alpha:" and the closing "]"; sh takes
		// "[:alpha:]" for a class, finds the bracket unterminated and matches
		// the text literally
		tail := p[i+3:]
		if j := strings.Index(tail, ":]"); j >= 0 && !strings.Contains(tail[j+2:], "]") && !strings.Contains(tail[:j], "]") {
			onlyBashMatches := true
			for k := range all {
				// sh's literal reading may still hold a wildcard before the
				// "-" ("[*-[:alpha:]"), so it matches texts ending in the
				// literal tail; anything else it alone matches is not this family
				if sh[k] && !bash[k] && !strings.HasSuffix(all[k], p[i:]) {
					onlyBashMatches = false
				}
			}
			if onlyBashMatches {
				return "range-ending-in-bracket-before-class-like-text"
			}
		}
	}
	if strings.Contains(p, "[:") {
		// POSIX classes are ASCII-only here but locale-aware in bash
		onlyNonASCII := true
		for k := range all {
			// (bash[k] && !sh[k] for [[:alpha:]], the reverse for [^[:alpha:]])
			if sh[k] != bash[k] && !strings.ContainsFunc(all[k], func(r rune) bool { return r > 127 }) {
				onlyNonASCII = false
			}
		}
		if onlyNonASCII {
			return "posix-class-non-ascii"
		}
	}
	return ""
}

// c17BracketClose returns the index of the "]" closing the bracket expression
// that opens at rs[open] under the POSIX rule (a "]" directly after "[", "[!"
// or "[^" is an ordinary member), or -1 when there is none.
var c17PosixClassRx = regexp.MustCompile(`\[:[a-z]*:\]`)

func c17BracketClose(rs []rune, open int) int {
	j := open + 1
	if j < len(rs) && (rs[j] == '!' || rs[j] == '^') {
		j++
	}
	if j < len(rs) && rs[j] == ']' {
		j++
	}
	for ; j < len(rs); j++ {
		switch rs[j] {
		case '\\':
			j++
		case ']':
			return j
		}
	}
	return -1
}

// c17RangeWithNonLetterEnd: some terminated bracket expression holds a range
// lo-hi that contains an ASCII letter while lo or hi is not a letter (for
// example [*-a] or [(-[]). With nocasematch bash folds the subject character
// and the range ends and compares those; this package matches if any case
// variant of the character lies in the range.
func c17RangeWithNonLetterEnd(rs []rune) bool {
	isLetter := func(r rune) bool { return r >= 'a' && r <= 'z' || r >= 'A' && r <= 'Z' }
	for i := 0; i < len(rs); i++ {
		if rs[i] == '\\' {
			i++
			continue
		}
		if rs[i] != '[' {
			continue
		}
		cl := c17BracketClose(rs, i)
		if cl < 0 {
			continue
		}
		j := i + 1
		if rs[j] == '!' || rs[j] == '^' {
			j++
		}
		for ; j+2 < cl; j++ {
			lo, hi := rs[j], rs[j+2]
			if rs[j+1] != '-' || lo == '\\' || hi == '\\' || lo > hi {
				continue
			}
			if isLetter(lo) && isLetter(hi) {
				continue
			}
			if lo <= 'z' && hi >= 'A' && !(lo > 'Z' && hi < 'a') {
				return true
			}
		}
		i = cl
	}
	return false
}
