package checks

import (
	"regexp"
	"strings"

	"mvdan.cc/sh/v3/syntax"
)

// c26OutsideSubset reports why a corpus program or mutant is outside the
// language the property talks about (or cannot be compared at all): state
// listings whose text is bash's own (bare `set`, `set -o`, `shopt`, `help`,
// `type`, `declare -p`, `trap -p`, `alias`), the script name $0, paths of the
// scratch directory ($PWD, pwd, dirs), process/job features (&, wait, process
// substitution, coproc, exec), nounset, and variables that differ by nature.
// "" means the program is inside.
var c26VolatileRx = regexp.MustCompile(`\$\{?(RANDOM|SECONDS|BASHPID|PPID|UID|EUID|HOSTNAME|OSTYPE|MACHTYPE|HOSTTYPE|BASH_VERSION|BASH_VERSINFO|BASH|SHLVL|LINENO|PWD|OLDPWD|HOME|PATH|DIRSTACK|GROUPS|EPOCHSECONDS|EPOCHREALTIME|SRANDOM|FUNCNAME|BASH_SOURCE|_)\b|\$\$|\$!|\$-|\$\{?0\b|\$\{[@*]:0|~`)

func c26OutsideSubset(f *syntax.File, src string) string {
	if c26VolatileRx.MatchString(src) {
		return "volatile-variable-or-script-name"
	}
	reason := ""
	set := func(r string) {
		if reason == "" {
			reason = r
		}
	}
	syntax.Walk(f, func(n syntax.Node) bool {
		switch n := n.(type) {
		case *syntax.ProcSubst:
			set("process-substitution")
		case *syntax.CoprocClause:
			set("coproc")
		case *syntax.TimeClause:
			set("time")
		case *syntax.Stmt:
			if n.Background || n.Disown {
				set("background-job")
			}
		case *syntax.DeclClause:
			named := false
			for _, a := range n.Args {
				if a.Name != nil {
					named = true
				} else if a.Value != nil {
					if l := a.Value.Lit(); strings.HasPrefix(l, "-") && strings.ContainsAny(l, "pfF") {
						set("declare-listing")
					} else if !strings.HasPrefix(l, "-") {
						named = true
					}
				}
			}
			if !named {
				set("declare-listing")
			}
		case *syntax.CallExpr:
			if len(n.Args) == 0 {
				return true
			}
			name := n.Args[0].Lit()
			var args []string
			for _, a := range n.Args[1:] {
				args = append(args, c26Print(a))
			}
			flagsOnly := true
			for _, a := range args {
				if !strings.HasPrefix(a, "-") && !strings.HasPrefix(a, "+") {
					flagsOnly = false
				}
			}
			switch name {
			case "help", "type", "hash", "times", "ulimit", "umask", "jobs", "wait", "kill", "fg", "bg", "disown",
				"dirs", "pushd", "popd", "pwd", "exec", "command", "builtin", "enable", "caller", "bind", "compgen", "complete", "history", "fc", "suspend", "logout", "mapfile", "readarray":
				set("builtin-" + name)
			case "set":
				if len(args) == 0 {
					set("set-listing")
				}
				for i, a := range args {
					if (a == "-o" || a == "+o") && i == len(args)-1 {
						set("set-listing")
					}
					if strings.HasPrefix(a, "-") && !strings.HasPrefix(a, "--") && strings.Contains(a, "u") || a == "nounset" {
						set("nounset")
					}
				}
			case "shopt":
				hasSU := false
				for _, a := range args {
					if strings.HasPrefix(a, "-") && strings.ContainsAny(a, "su") {
						hasSU = true
					}
					if strings.HasPrefix(a, "-") && strings.ContainsAny(a, "pq") {
						set("shopt-listing")
					}
				}
				if !hasSU || flagsOnly {
					set("shopt-listing")
				}
			case "trap", "alias", "export", "readonly", "unalias":
				if flagsOnly {
					set(name + "-listing")
				}
			case "cd":
				if len(args) == 0 || args[0] == "-" {
					set("cd-home-or-oldpwd")
				}
			}
		}
		return true
	})
	return reason
}
