package checks

import (
	"regexp"
	"strings"
)

// A scalar append `name+=value` (no subscript, not `+=( )`) to one of the
// Env-supplied indexed arrays that have no element 0.
var (
	c29AppendSparse = regexp.MustCompile(`(^|[^A-Za-z0-9_])envsparse\+=[^(]`)
	c29AppendEmpty  = regexp.MustCompile(`(^|[^A-Za-z0-9_])envempty\+=[^(]`)
)

// c29Classify names the narrow family of a failure (what: "tree", "env",
// "behaviour"; detail: the recorder's description of the write); "" leaves
// it an unclassified violation.
//
// Both classes have one cause: Runner.assignVal, for `name+=value` on an
// indexed array without an element 0, hands the slices it got from the
// variable's previous value to internal.SetIndexedElem, which inserts or
// appends in place when the capacity allows; the previous value may belong to
// the Env (or to a parent shell).
func c29Classify(src, what, detail string) string {
	if what != "env" || strings.Contains(detail, "Set calls") {
		return ""
	}
	switch {
	case c29AppendSparse.MatchString(src) && strings.HasPrefix(detail, "variable envsparse changed from "):
		// the visible elements of the Env's array are shifted
		return "env-sparse-array-scalar-append-inserts-in-place"
	case c29AppendEmpty.MatchString(src) && strings.HasPrefix(detail, "backing array of envempty (beyond its length) changed"):
		// only the spare capacity of the Env's slice is written
		return "env-empty-array-scalar-append-writes-spare-capacity"
	}
	return ""
}
