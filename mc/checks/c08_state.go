package checks

import (
	"fmt"
	"reflect"
	"strings"
)

// c08StateKey is a read-only reflection dump of the private fields of a
// *syntax.Parser or *syntax.Printer (nothing in /repo is touched: reflect may
// read unexported fields, it only refuses Interface/Set on them). It is the
// canonical "state" of the explicit-state search: two histories that leave the
// same dump are the same state.
//
// Included: every scalar field, strings, error values (concrete type and
// fields), slice lengths, the elements of scalar slices and of [][]byte, the
// nil-ness of pointers, the dynamic type of interface fields, and (to depth 4)
// the fields of nested structs / pointed-to helper structs (bufio.Writer,
// tabwriter.Writer, colCounter, the nested tabs Printer).
//
// Excluded on purpose: the contents of byte buffers (readBuf, litBuf, bs,
// bufio's buf: stale input/output bytes, different for almost every history)
// and the syntax trees still referenced from the previous call (f, heredocs,
// litBatch, wordBatch, pendingComments: only their length is recorded).
func c08StateKey(obj any) string {
	var sb strings.Builder
	d := c08StateDumper{sb: &sb, seen: map[uintptr]bool{}}
	d.val(reflect.ValueOf(obj), 0, "")
	return sb.String()
}

type c08StateDumper struct {
	sb   *strings.Builder
	seen map[uintptr]bool
}

func c08IsIO(t reflect.Type) bool {
	if t.Kind() != reflect.Interface {
		return false
	}
	n := t.String()
	return n == "io.Reader" || n == "io.Writer"
}

func (d *c08StateDumper) val(v reflect.Value, depth int, field string) {
	const maxDepth = 5
	switch v.Kind() {
	case reflect.Bool:
		fmt.Fprintf(d.sb, "%v", v.Bool())
	case reflect.Int, reflect.Int8, reflect.Int16, reflect.Int32, reflect.Int64:
		fmt.Fprintf(d.sb, "%d", v.Int())
	case reflect.Uint, reflect.Uint8, reflect.Uint16, reflect.Uint32, reflect.Uint64, reflect.Uintptr:
		fmt.Fprintf(d.sb, "%d", v.Uint())
	case reflect.Float32, reflect.Float64:
		fmt.Fprintf(d.sb, "%v", v.Float())
	case reflect.String:
		fmt.Fprintf(d.sb, "%q", v.String())
	case reflect.Func, reflect.Chan, reflect.Map, reflect.UnsafePointer:
		if v.IsNil() {
			d.sb.WriteString("nil")
		} else {
			d.sb.WriteString("set")
		}
	case reflect.Array:
		if v.Type().Elem().Kind() == reflect.Uint8 {
			fmt.Fprintf(d.sb, "bytes[%d]", v.Len())
			return
		}
		d.sb.WriteByte('[')
		for i := 0; i < v.Len(); i++ {
			if i > 0 {
				d.sb.WriteByte(' ')
			}
			d.val(v.Index(i), depth+1, field)
		}
		d.sb.WriteByte(']')
	case reflect.Slice:
		if v.IsNil() {
			d.sb.WriteString("nil")
			return
		}
		fmt.Fprintf(d.sb, "len=%d", v.Len())
		ek := v.Type().Elem().Kind()
		switch {
		case ek == reflect.Uint8:
			// contents of byte buffers are not part of the state key
		case ek == reflect.Bool || ek == reflect.Int || ek == reflect.Uint:
			d.sb.WriteByte('[')
			for i := 0; i < v.Len(); i++ {
				d.val(v.Index(i), depth+1, field)
				d.sb.WriteByte(' ')
			}
			d.sb.WriteByte(']')
		case ek == reflect.Slice && v.Type().Elem().Elem().Kind() == reflect.Uint8:
			d.sb.WriteByte('[')
			for i := 0; i < v.Len(); i++ {
				fmt.Fprintf(d.sb, "%q ", string(v.Index(i).Bytes()))
			}
			d.sb.WriteByte(']')
		}
	case reflect.Pointer:
		if v.IsNil() {
			d.sb.WriteString("nil")
			return
		}
		et := v.Type().Elem()
		// helper structs are followed; syntax tree nodes and slices are not
		follow := et.Kind() == reflect.Struct && depth < maxDepth
		if follow {
			switch et.String() {
			case "syntax.File", "syntax.Redirect", "syntax.Stmt", "syntax.Word", "syntax.Lit":
				follow = false
			}
		}
		if !follow || d.seen[v.Pointer()] {
			d.sb.WriteString("set")
			return
		}
		d.seen[v.Pointer()] = true
		d.sb.WriteByte('&')
		d.val(v.Elem(), depth+1, field)
	case reflect.Interface:
		if v.IsNil() {
			d.sb.WriteString("nil")
			return
		}
		e := v.Elem()
		d.sb.WriteString(e.Type().String())
		if c08IsIO(v.Type()) {
			return // the previous call's reader/writer: type only
		}
		d.sb.WriteByte(':')
		d.val(e, depth+1, field)
	case reflect.Struct:
		t := v.Type()
		d.sb.WriteString(t.Name())
		d.sb.WriteByte('{')
		for i := 0; i < t.NumField(); i++ {
			f := t.Field(i)
			if c08IsIO(f.Type) {
				fv := v.Field(i)
				if fv.IsNil() {
					fmt.Fprintf(d.sb, "%s:nil ", f.Name)
				} else {
					fmt.Fprintf(d.sb, "%s:%s ", f.Name, fv.Elem().Type())
				}
				continue
			}
			d.sb.WriteString(f.Name)
			d.sb.WriteByte(':')
			d.val(v.Field(i), depth+1, f.Name)
			d.sb.WriteByte(' ')
		}
		d.sb.WriteByte('}')
	default:
		fmt.Fprintf(d.sb, "?%s", v.Kind())
	}
}
