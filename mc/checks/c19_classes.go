package checks

import (
	"errors"
	"sort"
	"strings"

	"mvdan.cc/sh/v3/pattern"
)

// c19Classify names the narrow divergence families recorded as known
// findings. A class is returned only when the whole difference between the
// interpreter's and bash's lists is accounted for:
//
//   - "error" families: the interpreter refuses the command with one specific
//     message (documented limitations of its !(...) support);
//   - the backslash family is confirmed by re-running the interpreter with
//     the star quoted as '*' instead of \*: the class is given only if that
//     variant produces exactly bash's list. If it does not, the remaining
//     difference is classified on its own (two causes in one word);
//   - "shape" families: the interpreter does not treat the word as the
//     pattern bash sees (no matches at all, or a subset of bash's);
//   - "path set" families: every path the interpreter lists and bash does
//     not must be explained by an applicable cause (hidden name matched by a
//     wildcard, path below a symlinked directory under **, zero-depth match
//     of **//x), nothing bash lists may be missing, and the only other
//     differences allowed are the spelling of slashes (runs of "/" from the
//     word, trailing "/" of a zero-depth ** match) and duplicates from
//     several ** components. Both lists must be sorted.
//
// Anything else stays unclassified and is reported as a VIOLATION.
func c19Classify(t c19Case, tree string, sh c19ShResult, bash string) string {
	if t.Opts&c19NoGlob != 0 {
		return "" // nothing is known to diverge with globbing off
	}
	w := t.Word
	extOn := t.Opts&c19ExtGlob != 0
	switch {
	case extOn && strings.Contains(w, "!(") && sh.Res == "0:" && strings.Contains(sh.Stderr, "only supported with a fixed prefix and suffix"):
		// documented limitation: the command is not run at all (and the
		// status stays 0)
		return "negated-extglob-needs-fixed-prefix-and-suffix"
	case extOn && strings.Count(w, "!(") > 1 && sh.Res == "0:" && strings.Contains(sh.Stderr, "multiple extglob !(...) groups are not supported yet"):
		return "multiple-negated-extglob-groups"
	}
	literal := c19Unescape(c19Show(t))
	if strings.Contains(w, `\*`) && sh.Res == c19Sh(tree, t, strings.ReplaceAll(w, `\*`, "*")).Res {
		// The backslash-escaped "*" globs exactly like an unquoted one.
		// With the star in single quotes the interpreter quotes it properly;
		// if that gives bash's list, the backslash is the whole story.
		quoted := c19Sh(tree, t, strings.ReplaceAll(w, `\*`, `'*'`))
		if quoted.Panic != "" || quoted.ParseErr != "" {
			return ""
		}
		if quoted.Res == bash {
			return "escaped-star-still-globs"
		}
		// A second cause: classify what remains, looking at the word with
		// the escaped star standing for an ordinary character.
		return c19ClassifyRest(t, tree, strings.ReplaceAll(w, `\*`, "S"), literal, quoted, bash)
	}
	return c19ClassifyRest(t, tree, w, literal, sh, bash)
}

// c19ClassifyRest classifies every family but the backslash one. shape is
// the word as far as pattern syntax goes (an escaped star replaced by an
// ordinary character), literal the word after quote removal (what a shell
// prints when nothing matches).
func c19ClassifyRest(t c19Case, tree, shape, literal string, sh c19ShResult, bash string) string {
	shStatus, _, _ := strings.Cut(sh.Res, ":")
	baStatus, _, _ := strings.Cut(bash, ":")
	if shStatus != "0" || baStatus != "0" {
		return ""
	}
	shL, baL := c19Lines(sh.Res), c19Lines(bash)
	nullglob := t.Opts&c19NullGlob != 0
	globstar := t.Opts&c19GlobStar != 0
	extOn := t.Opts&c19ExtGlob != 0
	shown := shape
	if t.Abs {
		shown = `"$T"/` + shape
	}
	// A list consisting of the unexpanded word means "no matches".
	shNone := len(shL) == 0 && nullglob || !nullglob && len(shL) == 1 && shL[0] == literal
	baNone := len(baL) == 0 && nullglob || !nullglob && len(baL) == 1 && baL[0] == literal
	shKept := len(shL) == 1 && shL[0] == literal
	baKept := len(baL) == 1 && baL[0] == literal

	switch {
	case extOn && c19HasExtOnlyComponent(shape) && (shKept || nullglob && len(shL) == 0):
		// a path component whose only pattern characters are extglob
		// operators is not treated as a pattern: the word is kept verbatim
		// (even under nullglob) or the component is looked up literally, so
		// the interpreter finds nothing; bash globs (its result differs)
		return "extglob-only-component-not-globbed"
	case extOn && strings.Contains(shape, "**(") && !baNone && !baKept && c19Subset(c19Matches(shL, shNone), baL) && len(c19Matches(shL, shNone)) < len(baL):
		// "*" followed by a "*(...)" group: the two stars are read as "**"
		// and the group's parentheses become literal characters, so the
		// interpreter finds fewer names (usually none)
		return "star-before-star-group"
	case c19EscapedStarInLiteralComponent(t.Word) && (shKept || nullglob && len(shL) == 0) && !baNone && !baKept:
		// (reached with the star quoted as '*') a path component without
		// pattern syntax but with a quoted metacharacter, next to components
		// that are patterns: the component is looked up with the quoting
		// backslash still in it ("a\*"), so nothing is found
		return "quoted-metacharacter-in-literal-component"
	case nullglob && c19BracketSpansSlash(shape) && len(shL) == 0 && baKept:
		// "[" ... "/" ... "]": for bash not a pattern at all (kept even with
		// nullglob); sh treats it as a pattern without matches
		return "nullglob-removes-bracket-spanning-slash"
	case shKept && !baKept && c19PatternSyntaxError(shape, extOn):
		// pattern.Regexp rejects a component (an unterminated "[." or "[="
		// inside a bracket expression), which leaves the whole word
		// unexpanded even with nullglob; bash takes the "[" literally and
		// globs the rest
		return "unterminated-collating-symbol-disables-globbing"
	}

	// path set families
	if shNone && !baNone || !sort.StringsAreSorted(shL) || !sort.StringsAreSorted(baL) {
		return ""
	}
	var used struct{ slashes, trailing, dups, hidden, symlink, zeroDepth bool }
	doubled := strings.Contains(shown, "//")
	ba := map[string]bool{}
	for _, p := range c19Matches(baL, baNone) {
		if doubled {
			if q := c19CollapseSlashes(p); q != p {
				// bash keeps the runs of slashes of the word in its results
				used.slashes = true
				p = q
			}
		}
		if ba[p] {
			return "" // bash never lists a path twice
		}
		ba[p] = true
	}
	stars := c19GlobStarComponents(shape)
	var zero map[string]bool // the zero-depth matches of **//x, computed lazily
	seen := map[string]bool{}
	for _, p := range c19Matches(shL, shNone) {
		if !ba[p] && strings.HasSuffix(p, "/") && ba[strings.TrimSuffix(p, "/")] && globstar && strings.Contains(shape, "/**") {
			// <pattern>/**: for the zero-depth match bash prints "d" when
			// the directory part is itself a pattern, sh prints "d/" (as
			// both do for a literal directory part)
			used.trailing = true
			p = strings.TrimSuffix(p, "/")
		}
		if seen[p] {
			if !(globstar && stars > 1) {
				return ""
			}
			// **/**: sh lists a path once per way of splitting it between
			// the two **
			used.dups = true
			continue
		}
		seen[p] = true
		if ba[p] {
			continue
		}
		switch {
		case globstar && strings.Contains(shape, "**//") && stars > 0 && c19ZeroDepth(&zero, t, tree, shape, p):
			// **//x: bash does not list the matches of x in the starting
			// directory itself (and spells the others with one slash)
			used.zeroDepth = true
		case t.Opts&c19DotGlob == 0 && c19Hidden(p) && c19HasWildcardStart(shape, globstar):
			// a name with a leading dot matched by "?", "[...]" or a "*"
			// that is not the whole component
			used.hidden = true
		case globstar && stars > 0 && c19BelowSymlink(p):
			// bash's ** does not descend into symlinked directories
			used.symlink = true
		default:
			return ""
		}
	}
	for p := range ba {
		if !seen[p] {
			return "" // the interpreter misses a path: no known family
		}
	}
	switch {
	case used.zeroDepth:
		return "globstar-then-empty-component"
	case used.dups:
		return "repeated-globstar-duplicates"
	case used.hidden:
		return "wildcard-matches-leading-dot"
	case used.symlink:
		return "globstar-descends-into-symlinked-directories"
	case used.trailing:
		return "globstar-zero-depth-trailing-slash"
	case used.slashes:
		return "consecutive-slashes-collapsed"
	}
	return ""
}

// c19Matches is the list of matched paths: empty when the list only holds
// the unexpanded word.
func c19Matches(l []string, none bool) []string {
	if none {
		return nil
	}
	return l
}

func c19Subset(a, b []string) bool {
	in := map[string]bool{}
	for _, p := range b {
		in[p] = true
	}
	for _, p := range a {
		if !in[p] {
			return false
		}
	}
	return true
}

func c19CollapseSlashes(p string) string {
	for strings.Contains(p, "//") {
		p = strings.ReplaceAll(p, "//", "/")
	}
	return p
}

// c19ZeroDepth: p is one of the paths the interpreter lists for the word
// with its first "**//" removed, i.e. a match in the starting directory.
func c19ZeroDepth(cache *map[string]bool, t c19Case, tree, shape, p string) bool {
	if *cache == nil {
		*cache = map[string]bool{}
		i := strings.Index(t.Word, "**//")
		if i < 0 || i > 0 && t.Word[i-1] != '/' {
			return false
		}
		rest := t.Word[:i] + t.Word[i+len("**//"):]
		if rest == "" || strings.HasPrefix(rest, "/") && !t.Abs {
			return false
		}
		res := c19Sh(tree, t, strings.ReplaceAll(rest, `\*`, `'*'`))
		if res.Panic != "" || res.ParseErr != "" {
			return false
		}
		for _, q := range c19Lines(res.Res) {
			(*cache)[q] = true
		}
	}
	return (*cache)[p]
}

// c19PatternSyntaxError: pattern.Regexp, as called by expand's globbing,
// rejects one of the word's path components with a syntax error.
func c19PatternSyntaxError(shape string, ext bool) bool {
	mode := pattern.Filenames | pattern.EntireString | pattern.NoGlobStar
	if ext {
		mode |= pattern.ExtendedOperators
	}
	for _, comp := range strings.Split(shape, "/") {
		_, err := pattern.Regexp(comp, mode)
		var serr *pattern.SyntaxError
		if err != nil && errors.As(err, &serr) {
			return true
		}
	}
	return false
}

// c19Unescape removes the quoting of a word as written in the alphabet
// (backslash escapes and the "$T" prefix's quotes).
func c19Unescape(w string) string {
	w = strings.ReplaceAll(w, `"$T"`, "$T")
	var sb strings.Builder
	for i := 0; i < len(w); i++ {
		if w[i] == '\\' && i+1 < len(w) {
			i++
		}
		sb.WriteByte(w[i])
	}
	return sb.String()
}

// c19StripExt removes the extglob groups of the alphabet from w.
func c19StripExt(w string) string {
	for _, g := range []string{"@(a|b)", "!(a)", "*(a)"} {
		w = strings.ReplaceAll(w, g, "")
	}
	return w
}

// c19PlainMeta: w has "*", "?" or a "[" that is closed by a later "]"
// (backslash escapes are skipped).
func c19PlainMeta(w string) bool {
	for i := 0; i < len(w); i++ {
		switch w[i] {
		case '\\':
			i++
		case '*', '?':
			return true
		case '[':
			if strings.Contains(w[i+1:], "]") {
				return true
			}
		}
	}
	return false
}

// c19HasExtOnlyComponent: some "/"-separated component of w has an extglob
// group but, apart from the groups, no pattern character.
func c19HasExtOnlyComponent(w string) bool {
	for _, comp := range strings.Split(w, "/") {
		if c19HasExtSyntax(comp) && !c19PlainMeta(c19StripExt(comp)) {
			return true
		}
	}
	return false
}

// c19HasWildcardStart: some component of w begins with pattern syntax that
// is not a plain dot-excluding star: "?", "[", an extglob group, or "*"
// followed by anything else (the whole-component "*", and "**" under
// globstar, are matched correctly against hidden names).
func c19HasWildcardStart(w string, globstar bool) bool {
	for _, comp := range strings.Split(w, "/") {
		switch {
		case comp == "", comp == "*", comp == "**" && globstar:
		case comp[0] == '?', comp[0] == '[', comp[0] == '*':
			return true
		case len(comp) > 1 && comp[1] == '(' && strings.IndexByte("@!+", comp[0]) >= 0:
			return true
		}
	}
	return false
}

// c19EscapedStarInLiteralComponent: some component of w has an escaped star
// and no pattern syntax of its own.
func c19EscapedStarInLiteralComponent(w string) bool {
	for _, comp := range strings.Split(w, "/") {
		if strings.Contains(comp, `\*`) && !c19PlainMeta(comp) && !c19HasExtSyntax(comp) {
			return true
		}
	}
	return false
}

// c19BracketSpansSlash: a "[" whose closing "]" lies beyond a "/".
func c19BracketSpansSlash(w string) bool {
	for i := 0; i < len(w); i++ {
		if w[i] == '[' {
			if j := strings.IndexByte(w[i+1:], ']'); j >= 0 && strings.Contains(w[i+1:i+1+j], "/") {
				return true
			}
		}
	}
	return false
}

func c19GlobStarComponents(w string) int {
	n := 0
	for _, comp := range strings.Split(w, "/") {
		if comp == "**" {
			n++
		}
	}
	return n
}

// c19BelowSymlink: the path continues below "ld", the trees' symlink to a
// directory.
func c19BelowSymlink(p string) bool {
	comps := strings.Split(strings.TrimSuffix(p, "/"), "/")
	for _, comp := range comps[:len(comps)-1] {
		if comp == "ld" {
			return true
		}
	}
	return false
}

func c19Hidden(path string) bool {
	for _, comp := range strings.Split(path, "/") {
		if strings.HasPrefix(comp, ".") && comp != "." && comp != ".." {
			return true
		}
	}
	return false
}
