package checks

import (
	"sort"
	"strings"
)

// c19Classify names the narrow divergence families recorded as known
// findings. Every predicate combines the syntactic shape of the word/options
// with the direction of the divergence; several of them re-run the
// interpreter on a variant of the word to confirm the suspected cause.
func c19Classify(t c19Case, tree string, sh c19ShResult, bash string) string {
	w := t.Word
	shL, baL := c19Lines(sh.Res), c19Lines(bash)
	literal := c19Unescape(c19Show(t))
	shLiteral := len(shL) == 1 && shL[0] == literal
	extOn := t.Opts&c19ExtGlob != 0
	switch {
	case t.Opts&c19NoGlob != 0:
		return "" // nothing is known to diverge with globbing off
	case extOn && strings.Contains(w, "!(") && len(shL) == 0 && strings.Contains(sh.Stderr, "only supported with a fixed prefix and suffix"):
		// documented limitation: the command is not run at all
		return "negated-extglob-needs-fixed-prefix-and-suffix"
	case extOn && strings.Count(w, "!(") > 1 && len(shL) == 0 && strings.Contains(sh.Stderr, "multiple extglob !(...) groups are not supported yet"):
		return "multiple-negated-extglob-groups"
	case strings.Contains(w, `\*`) && sh.Res == c19Sh(tree, t, strings.ReplaceAll(w, `\*`, "*")).Res:
		// a backslash-escaped "*" globs exactly like an unquoted one
		return "escaped-star-still-globs"
	case extOn && c19HasExtOnlyComponent(w) && (shLiteral || len(shL) == 0 && t.Opts&c19NullGlob != 0):
		// a path component whose only pattern characters are extglob
		// operators is not treated as a pattern: the word is kept verbatim
		// (even with nullglob) or the component is looked up literally
		return "extglob-only-component-not-globbed"
	case extOn && strings.Contains(w, "**(") && len(shL) <= len(baL):
		// "*" followed by a "*(...)" group: the two stars are read as "**"
		// and the group's parentheses become literal characters
		return "star-before-star-group"
	case strings.Contains(c19Show(t), "//") && strings.ReplaceAll(bash, "//", "/") == sh.Res:
		// bash keeps consecutive slashes of the word in its results
		return "consecutive-slashes-collapsed"
	case strings.Contains(c19Show(t), "//") && strings.Contains(bash, "//") && t.Opts&c19GlobStar != 0 && c19HasGlobStarComponent(w) && c19OnlyExtraBelowSymlink(shL, c19Lines(strings.ReplaceAll(bash, "//", "/"))):
		// both of the above at once
		return "globstar-descends-into-symlinked-directories"
	case t.Opts&c19GlobStar != 0 && c19GlobStarComponents(w) > 1 && c19RepeatedGlobStar(shL, baL):
		// **/**: bash lists every path once; sh lists a path once per way
		// of splitting it between the two **, with "d/" variants (and it
		// descends into symlinked directories, see above)
		return "repeated-globstar-duplicates"
	case t.Opts&c19NullGlob != 0 && c19BracketSpansSlash(w) && len(shL) == 0 && len(baL) == 1 && baL[0] == literal:
		// "[" ... "/" ... "]": for bash not a pattern at all (kept even with
		// nullglob); sh treats it as a pattern without matches
		return "nullglob-removes-bracket-spanning-slash"
	case t.Opts&c19GlobStar != 0 && c19HasGlobStarComponent(w) && c19OnlyExtraBelowSymlink(shL, baL):
		// sh = bash's matches plus paths below a symlink to a directory:
		// bash's ** does not descend into symlinked directories
		return "globstar-descends-into-symlinked-directories"
	case t.Opts&c19GlobStar != 0 && strings.Contains(w, "/**") && c19SameButTrailingSlash(shL, baL):
		// <pattern>/**: for the zero-depth match bash prints "d" when the
		// directory part is itself a pattern, sh prints "d/" (as both do
		// for a literal directory part)
		return "globstar-zero-depth-trailing-slash"
	case t.Opts&c19DotGlob == 0 && c19OnlyExtraHidden(shL, baL, literal):
		// sh = bash's matches plus names with a leading dot that no literal
		// "." in the pattern asked for
		return "wildcard-matches-leading-dot"
	}
	return ""
}

// c19Unescape removes the quoting of a word as written in the alphabet
// (backslash escapes and the "$T" prefix's quotes).
func c19Unescape(w string) string {
	w = strings.ReplaceAll(w, `"$T"`, "$T")
	var sb strings.Builder
	for i := 0; i < len(w); i++ {
		if w[i] == '\\' && i+1 < len(w) {
			i++
		}
		sb.WriteByte(w[i])
	}
	return sb.String()
}

// c19StripExt removes the extglob groups of the alphabet from w.
func c19StripExt(w string) string {
	for _, g := range []string{"@(a|b)", "!(a)", "*(a)"} {
		w = strings.ReplaceAll(w, g, "")
	}
	return w
}

// c19PlainMeta: w has "*", "?" or a "[" that is closed by a later "]"
// (backslash escapes are skipped).
func c19PlainMeta(w string) bool {
	for i := 0; i < len(w); i++ {
		switch w[i] {
		case '\\':
			i++
		case '*', '?':
			return true
		case '[':
			if strings.Contains(w[i+1:], "]") {
				return true
			}
		}
	}
	return false
}

// c19HasExtOnlyComponent: some "/"-separated component of w has an extglob
// group but, apart from the groups, no pattern character.
func c19HasExtOnlyComponent(w string) bool {
	for _, comp := range strings.Split(w, "/") {
		if c19HasExtSyntax(comp) && !c19PlainMeta(c19StripExt(comp)) {
			return true
		}
	}
	return false
}

// c19BracketSpansSlash: a "[" whose closing "]" lies beyond a "/".
func c19BracketSpansSlash(w string) bool {
	for i := 0; i < len(w); i++ {
		if w[i] == '[' {
			if j := strings.IndexByte(w[i+1:], ']'); j >= 0 && strings.Contains(w[i+1:i+1+j], "/") {
				return true
			}
		}
	}
	return false
}

func c19HasGlobStarComponent(w string) bool { return c19GlobStarComponents(w) > 0 }

func c19GlobStarComponents(w string) int {
	n := 0
	for _, comp := range strings.Split(w, "/") {
		if comp == "**" {
			n++
		}
	}
	return n
}

// c19RepeatedGlobStar: after dropping trailing slashes, duplicates and paths
// below the symlinked directory, sh's list is bash's list.
func c19RepeatedGlobStar(shL, baL []string) bool {
	set := map[string]bool{}
	for _, p := range shL {
		p = strings.TrimSuffix(p, "/")
		comps := strings.Split(p, "/")
		below := false
		for _, comp := range comps[:len(comps)-1] {
			if comp == "ld" {
				below = true
			}
		}
		if !below {
			set[p] = true
		}
	}
	if len(set) != len(baL) || len(shL) <= len(baL) {
		return false
	}
	for _, p := range baL {
		if !set[p] {
			return false
		}
	}
	return true
}

// c19OnlyExtraBelowSymlink: sh's list is bash's list plus at least one path
// that continues below "ld", the trees' symlink to a directory.
func c19OnlyExtraBelowSymlink(shL, baL []string) bool {
	ba := map[string]bool{}
	for _, p := range baL {
		ba[p] = true
	}
	sh := map[string]bool{}
	extra := 0
	for _, p := range shL {
		sh[p] = true
		if ba[p] {
			continue
		}
		comps := strings.Split(strings.TrimSuffix(p, "/"), "/")
		below := false
		for _, comp := range comps[:len(comps)-1] {
			if comp == "ld" {
				below = true
			}
		}
		if !below {
			return false
		}
		extra++
	}
	for p := range ba {
		if !sh[p] {
			return false
		}
	}
	return extra > 0
}

// c19SameButTrailingSlash: the lists differ only in that some of sh's paths
// carry a trailing slash that bash's do not.
func c19SameButTrailingSlash(shL, baL []string) bool {
	if len(shL) != len(baL) {
		return false
	}
	a, b := c19Sorted(shL), c19Sorted(baL)
	diff := false
	for i := range a {
		a[i] = strings.TrimSuffix(a[i], "/")
	}
	a = c19Sorted(a)
	for i := range a {
		if a[i] != b[i] {
			return false
		}
	}
	for i, p := range c19Sorted(shL) {
		_ = i
		if strings.HasSuffix(p, "/") {
			diff = true
		}
	}
	return diff
}

func c19Hidden(path string) bool {
	for _, comp := range strings.Split(path, "/") {
		if strings.HasPrefix(comp, ".") && comp != "." && comp != ".." {
			return true
		}
	}
	return false
}

// c19OnlyExtraHidden: sh's list is bash's list (an unmatched literal word
// counting as no match) plus at least one path with a hidden component.
func c19OnlyExtraHidden(shL, baL []string, literal string) bool {
	ba := map[string]bool{}
	for _, p := range baL {
		if !(len(baL) == 1 && p == literal) {
			ba[p] = true
		}
	}
	sh := map[string]bool{}
	extra := 0
	for _, p := range shL {
		if len(shL) == 1 && p == literal {
			continue
		}
		sh[p] = true
		if !ba[p] {
			if !c19Hidden(p) {
				return false
			}
			extra++
		}
	}
	for p := range ba {
		if !sh[p] {
			return false
		}
	}
	return extra > 0
}

func c19Sorted(l []string) []string {
	l = append([]string(nil), l...)
	sort.Strings(l)
	return l
}
