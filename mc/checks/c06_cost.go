package checks

import (
	"bufio"
	"bytes"
	"encoding/json"
	"fmt"
	"os"
	"os/exec"
	"runtime"
	"strings"
	"sync"
	"sync/atomic"
	"syscall"
	"time"
	"unsafe"

	"mvdan.cc/sh/v3/syntax"

	"verif/mc/synt"
	"verif/mc/vc"
)

// "Time roughly linear in the input" is decided on pumped families
// u v^k x: the cost of parsing at k=4n must stay below 8x the cost at k=n
// (a linear parser gives 4x, a quadratic one 16x). Cost measures:
//
//   - heap objects and heap bytes allocated by the call (runtime.MemStats
//     deltas). These are exact and repeatable only when nothing else
//     allocates, so the probes run in child processes of this binary with a
//     single working goroutine each;
//   - CPU time of the calling thread (CLOCK_THREAD_CPUTIME_ID, not wall
//     time): consulted only when the larger parse takes at least 2 ms
//     (normal: tens of microseconds), best of 3.
//
// A suspect is re-measured 5 times in the child and must exceed the bound
// every time before it is reported.

const (
	c06CostFactor   = 8
	c06CostSlackObj = 256
	c06CostSlackB   = 64 << 10
	c06CostMinCPU   = 2 * time.Millisecond
)

// cost configurations: every variant and entry point, comments kept.
func c06CostCfgs() []c06Cfg {
	var out []c06Cfg
	for l := range synt.Variants {
		for e := range c06Entries {
			out = append(out, c06Cfg{Lang: l, Keep: true, Entry: e})
		}
	}
	return out
}

// c06Fam is a pumped family U V^k M W^k X (M, W empty for the one-part ones).
type c06Fam struct{ U, V, M, W, X []byte }

func (fm c06Fam) String() string {
	if len(fm.M) == 0 && len(fm.W) == 0 {
		return fmt.Sprintf("%q+%q*k+%q", fm.U, fm.V, fm.X)
	}
	return fmt.Sprintf("%q+%q*k+%q+%q*k+%q", fm.U, fm.V, fm.M, fm.W, fm.X)
}

func (fm c06Fam) pump(b []byte, k int) []byte {
	b = append(b, fm.U...)
	for i := 0; i < k; i++ {
		b = append(b, fm.V...)
	}
	b = append(b, fm.M...)
	if len(fm.W) > 0 {
		for i := 0; i < k; i++ {
			b = append(b, fm.W...)
		}
	}
	return append(b, fm.X...)
}

// c06CostFamilies enumerates the families in a fixed order: the two-part and
// two-token ones of c06_cost2.go first (wlen -1), then the one-part ones.
func c06CostFamilies(n int, closers bool, f func(wlen int, fm c06Fam)) {
	c06UnitFamilies(closers, func(fm c06Fam) { f(-1, fm) })
	c06PumpFamilies(n, closers, func(wlen int, u, v, x []byte) { f(wlen, c06Fam{U: u, V: v, X: x}) })
}

func c06ThreadCPU() time.Duration {
	var ts syscall.Timespec
	syscall.Syscall(syscall.SYS_CLOCK_GETTIME, 3 /* CLOCK_THREAD_CPUTIME_ID */, uintptr(unsafe.Pointer(&ts)), 0)
	return time.Duration(ts.Nano())
}

type c06CostM struct {
	objs, bytes uint64
	cpu         time.Duration
}

// c06ParseOnly runs the entry point to completion, consuming iterators,
// without touching the trees.
func c06ParseOnly(p *syntax.Parser, entry int, rd *bytes.Reader) {
	switch entry {
	case 0:
		p.Parse(rd, "")
	case 1:
		for range p.StmtsSeq(rd) {
		}
	case 2:
		for range p.WordsSeq(rd) {
		}
	case 3:
		for range p.InteractiveSeq(rd) {
		}
	case 4:
		p.Document(rd)
	case 5:
		p.Arithmetic(rd)
	}
}

type c06Coster struct {
	parsers map[int64]*syntax.Parser
	rd      bytes.Reader
	m0, m1  runtime.MemStats
	buf     []byte
	step    *atomic.Int64
}

func (cs *c06Coster) measure(g c06Cfg, src []byte) (m c06CostM, panicked any) {
	pk := c06Pack(0, g)
	p := cs.parsers[pk]
	if p == nil {
		p = g.parser()
		cs.parsers[pk] = p
	}
	cs.rd.Reset(src)
	defer func() {
		if r := recover(); r != nil {
			panicked = r
			delete(cs.parsers, pk)
		}
	}()
	if cs.step != nil {
		cs.step.Add(1) // progress for the watchdog: one measurement = one call
	}
	runtime.ReadMemStats(&cs.m0)
	t0 := c06ThreadCPU()
	c06ParseOnly(p, g.Entry, &cs.rd)
	m.cpu = c06ThreadCPU() - t0
	runtime.ReadMemStats(&cs.m1)
	m.objs = cs.m1.Mallocs - cs.m0.Mallocs
	m.bytes = cs.m1.TotalAlloc - cs.m0.TotalAlloc
	return m, nil
}

func (cs *c06Coster) pump(fm c06Fam, k int) []byte {
	cs.buf = fm.pump(cs.buf[:0], k)
	return cs.buf
}

// probe judges one family under one configuration once. It returns a
// description of the excess, or "".
func (cs *c06Coster) probe(g c06Cfg, fm c06Fam, k int) (string, any) {
	small, pn := cs.measure(g, cs.pump(fm, k))
	if pn != nil {
		return "", pn
	}
	big, pn := cs.measure(g, cs.pump(fm, 4*k))
	if pn != nil {
		return "", pn
	}
	if big.objs > c06CostFactor*small.objs+c06CostSlackObj {
		return fmt.Sprintf("heap objects allocated grow %d -> %d (x%.1f) when the input grows 4x (k=%d -> %d)", small.objs, big.objs, float64(big.objs)/float64(small.objs+1), k, 4*k), nil
	}
	if big.bytes > c06CostFactor*small.bytes+c06CostSlackB {
		return fmt.Sprintf("heap bytes allocated grow %d -> %d (x%.1f) when the input grows 4x (k=%d -> %d)", small.bytes, big.bytes, float64(big.bytes)/float64(small.bytes+1), k, 4*k), nil
	}
	if big.cpu >= c06CostMinCPU {
		bs, bb := small.cpu, big.cpu
		for i := 0; i < 2; i++ {
			s2, _ := cs.measure(g, cs.pump(fm, k))
			b2, _ := cs.measure(g, cs.pump(fm, 4*k))
			// best of 3 for the large input, worst of 3 for the small one:
			// both choices can only hide noise, not create a suspect
			bs, bb = max(bs, s2.cpu), min(bb, b2.cpu)
		}
		if bb >= c06CostMinCPU && bb > c06CostFactor*bs {
			return fmt.Sprintf("thread CPU time grows %v -> %v (x%.1f) when the input grows 4x (k=%d -> %d)", bs, bb, float64(bb)/float64(bs+1), k, 4*k), nil
		}
	}
	return "", nil
}

// confirmed re-measures a suspect 5 times.
func (cs *c06Coster) confirmed(g c06Cfg, fm c06Fam, k int) bool {
	for i := 0; i < 5; i++ {
		if why, pn := cs.probe(g, fm, k); why == "" && pn == nil {
			return false
		}
	}
	return true
}

func (fm c06Fam) key() string {
	if len(fm.M) == 0 && len(fm.W) == 0 {
		return fmt.Sprintf("%q (%q)^k %q", fm.U, fm.V, fm.X)
	}
	return fmt.Sprintf("%q (%q)^k %q (%q)^k %q", fm.U, fm.V, fm.M, fm.W, fm.X)
}

func c06CostKey(g c06Cfg, fm c06Fam) string {
	return fmt.Sprintf("superlinear [%s] %s", g, fm.key())
}

func c06CostFail(g c06Cfg, fm c06Fam, why string) *vc.Fail {
	return &vc.Fail{
		Key:   c06CostKey(g, fm),
		Msg:   fmt.Sprintf("%s of %s with %s: %s", c06Entries[g.Entry], fm, g, why),
		Class: c06CostClass(g, fm.U, fm.V, fm.X),
	}
}

func c06FamCase(fm c06Fam, ci int) *c06Case {
	return &c06Case{Kind: "cost", U: fm.U, V: fm.V, M: fm.M, W: fm.W, X: fm.X, Cfg: ci, Text: fm.key()}
}

// c06CostCase is the replay entry for a cost case (single goroutine there).
func c06CostCase(t c06Case) *vc.Fail {
	cs := &c06Coster{parsers: map[int64]*syntax.Parser{}}
	g := c06CostCfgs()[t.Cfg]
	fm := c06Fam{U: t.U, V: t.V, M: t.M, W: t.W, X: t.X}
	for _, k := range []int{256, 1024} {
		why, pn := cs.probe(g, fm, k)
		if pn != nil {
			return c06CostPanic(g, fm, k, pn)
		}
		if why != "" && cs.confirmed(g, fm, k) {
			return c06CostFail(g, fm, why)
		}
	}
	return nil
}

func c06CostPanic(g c06Cfg, fm c06Fam, k int, pn any) *vc.Fail {
	key := fmt.Sprintf("panic pumped [%s] %q (%q)^%d %q", g, fm.U, fm.V, 4*k, fm.X)
	if len(fm.M) > 0 || len(fm.W) > 0 {
		key = fmt.Sprintf("panic pumped [%s] %s k=%d", g, fm.key(), 4*k)
	}
	return &vc.Fail{Key: key, Msg: fmt.Sprintf("%s of %s (k<=%d) with %s panics: %v", c06Entries[g.Entry], fm, 4*k, g, pn)}
}

type c06CostLine struct {
	Case   *c06Case `json:"case,omitempty"`
	Key    string   `json:"key,omitempty"`
	Msg    string   `json:"msg,omitempty"`
	Class  string   `json:"class,omitempty"`
	Hang   bool     `json:"hang,omitempty"`
	Index  int      `json:"index,omitempty"` // family index the child was at
	Done   bool     `json:"done,omitempty"`
	Probes int      `json:"probes,omitempty"`
}

// c06CostChild: when started as a cost shard, do the shard's probes, print
// suspects as JSON lines, and exit.
func c06CostChild(c *vc.Ctx) bool {
	spec := os.Getenv("VERIF_C06_COST_SHARD")
	if spec == "" {
		return false
	}
	var shard, nshards, from, n int
	var deep bool
	fmt.Sscanf(spec, "%d/%d/%d/%d/%t", &shard, &nshards, &from, &n, &deep)
	runtime.LockOSThread()
	out := bufio.NewWriter(os.Stdout)
	enc := json.NewEncoder(out)
	cfgs := c06CostCfgs()
	cs := &c06Coster{parsers: map[int64]*syntax.Parser{}}
	// watchdog: a probe that makes no progress for the hang limit
	var cur, step atomic.Int64
	cs.step = &step
	var curCase atomic.Pointer[c06Case]
	limit := 3 * c06HangLimit // inputs here are up to ~40 KiB and deeply nested
	go func() {
		last, since := int64(-1), time.Now()
		for {
			time.Sleep(time.Second)
			v := cur.Load()
			if st := step.Load(); st != last {
				last, since = st, time.Now()
				continue
			}
			if time.Since(since) > limit {
				t := curCase.Load()
				g := cfgs[t.Cfg]
				enc.Encode(c06CostLine{Case: t, Hang: true, Index: int(v >> 8),
					Key: fmt.Sprintf("hang pumped [%s] %s", g, t.Text),
					Msg: fmt.Sprintf("%s of %s (k<=4096) with %s does not return within %s", c06Entries[g.Entry], c06Fam{U: t.U, V: t.V, M: t.M, W: t.W, X: t.X}, g, limit)})
				out.Flush()
				os.Exit(3)
			}
		}
	}()
	idx, probes := 0, 0
	c06CostFamilies(n, deep, func(wlen int, fm c06Fam) {
		ks := []int{256}
		if deep && (wlen > 0 || (wlen == 0 && len(fm.X) == 0)) {
			ks = []int{256, 1024}
		}
		i := idx
		idx++
		if i%nshards != shard || i < from {
			return
		}
		for ci, g := range cfgs {
			t := c06FamCase(fm, ci)
			curCase.Store(t)
			cur.Store(int64(i)<<8 | int64(ci))
			for _, k := range ks {
				probes++
				if probes%1000 == 0 {
					enc.Encode(c06CostLine{Probes: probes})
					out.Flush()
				}
				why, pn := cs.probe(g, fm, k)
				if pn != nil {
					fl := c06CostPanic(g, fm, k, pn)
					enc.Encode(c06CostLine{Case: t, Key: fl.Key, Msg: fl.Msg})
					break
				}
				if why != "" && cs.confirmed(g, fm, k) {
					fl := c06CostFail(g, fm, why)
					enc.Encode(c06CostLine{Case: t, Key: fl.Key, Msg: fl.Msg, Class: fl.Class})
					break
				}
			}
		}
	})
	enc.Encode(c06CostLine{Done: true, Probes: probes})
	out.Flush()
	os.Exit(0)
	return true
}

// c06CostPhase runs the shards and reports their suspects.
func c06CostPhase(c *vc.Ctx, s *c06SpaceT) bool {
	exe, err := os.Executable()
	if err != nil {
		c.CapNote("cost phase not run: %v", err)
		return false
	}
	nshards := c.Workers
	budget := 75 * time.Second
	if !c.Quick() {
		budget = 14 * time.Minute
	}
	if v := os.Getenv("VERIF_BUDGET_S"); v != "" {
		var n int
		fmt.Sscan(v, &n)
		budget = time.Duration(n) * time.Second
	}
	deadline := time.Now().Add(budget / 2)
	deep := !c.Quick()
	var wg sync.WaitGroup
	var mu sync.Mutex
	complete := true
	totalProbes := 0
	for sh := 0; sh < nshards; sh++ {
		wg.Add(1)
		go func(sh int) {
			defer wg.Done()
			from := 0
			for {
				cmd := exec.Command(exe, "C06", "--tier", c.Tier)
				cmd.Env = append(os.Environ(), fmt.Sprintf("VERIF_C06_COST_SHARD=%d/%d/%d/%d/%t", sh, nshards, from, s.CostLen, deep), "GOMAXPROCS=2", "VERIF_CPUPROFILE=")
				var stderr bytes.Buffer
				cmd.Stderr = &stderr
				stdout, _ := cmd.StdoutPipe()
				if err := cmd.Start(); err != nil {
					mu.Lock()
					complete = false
					c.CapNote("cost shard %d not started: %v", sh, err)
					mu.Unlock()
					return
				}
				stop := make(chan struct{})
				go func() { // budget: the cost phase may use half of the run's time budget
					for {
						select {
						case <-stop:
							return
						case <-time.After(time.Second):
							if c.Expired() || time.Now().After(deadline) {
								cmd.Process.Kill()
								return
							}
						}
					}
				}()
				sc := bufio.NewScanner(stdout)
				sc.Buffer(make([]byte, 1<<20), 1<<24)
				done, hang, shardProbes := false, -1, 0
				for sc.Scan() {
					var l c06CostLine
					if json.Unmarshal(sc.Bytes(), &l) != nil {
						continue
					}
					if l.Done || (l.Case == nil && l.Probes > 0) {
						done = l.Done
						mu.Lock()
						totalProbes += l.Probes - shardProbes
						mu.Unlock()
						shardProbes = l.Probes
						continue
					}
					if l.Hang {
						hang = l.Index
					}
					if l.Case != nil {
						cl := l.Class
						if l.Hang {
							cl = c06HangClass(l.Msg, l.Case.V)
						}
						c.Report(&vc.Fail{Key: l.Key, Msg: l.Msg, Class: cl}, *l.Case, nil)
					}
				}
				werr := cmd.Wait()
				close(stop)
				if done {
					return
				}
				if hang >= 0 {
					from = hang + 1 // next family; the remaining configurations of the hung family are not probed
					mu.Lock()
					c.Count("cost_families_cut_short_by_a_hang", 1)
					mu.Unlock()
					continue
				}
				mu.Lock()
				complete = false
				if c.Expired() || time.Now().After(deadline) {
					c.CapNote("cost shard %d stopped by the time budget (half of the run's budget)", sh)
				} else {
					// a fatal runtime error (stack exhaustion, out of memory) in the code under test
					tail := stderr.String()
					if len(tail) > 1500 {
						tail = tail[:1500]
					}
					first, _, _ := strings.Cut(tail, "\n")
					c.Report(&vc.Fail{Key: fmt.Sprintf("cost shard %d/%d died: %s", sh, nshards, first), Msg: fmt.Sprintf("a pumped input killed the process (%v): %s", werr, first), Detail: tail}, c06Case{Kind: "cost-shard"}, nil)
				}
				mu.Unlock()
				return
			}
		}(sh)
	}
	wg.Wait()
	c.Eval(totalProbes)
	c.Count("cost_probes", totalProbes)
	return complete
}
