package checks

// C28: the families of panics found on the current tree. A class is the
// conjunction of the panic site (innermost mvdan/sh function + kind of
// runtime error) and a syntactic predicate on the input; anything else stays
// an unclassified violation.

import (
	"regexp"
	"strings"
)

var (
	c28ShiftNegRe     = regexp.MustCompile(`\bshift '?-[0-9]*[1-9]`)
	c28SubscriptRe    = regexp.MustCompile(`[A-Za-z_][A-Za-z0-9_]*\[[^\]]`)
	c28AssocLitRe     = regexp.MustCompile(`-[a-zA-Z]*A[a-zA-Z]*\b[^;\n]*=\(`)
	c28EmptyArgRe     = regexp.MustCompile(`(''|""|[A-Za-z_]=['"]?([ ;\n]|$))`)
	c28ParamAtOpRe    = regexp.MustCompile(`\$\{[^}]*@`)
	c28TestMatchRe    = regexp.MustCompile(`(?m)(^|[ ;])(\[|test) .*(=|!=)`)
	c28IndexBeyondRe  = regexp.MustCompile(`index out of range \[\d+\] with length \d+`)
	c28NamerefEmptyRe = regexp.MustCompile(`(?s)-n\b.*[A-Za-z_]=['"]?([ ;\n]|$).*\+=\(|\+=\(.*-n\b.*[A-Za-z_]=['"]?([ ;\n]|$)`)
	c28BareOptionRe   = regexp.MustCompile(`Params\(("[^"]*",)*"[-+]o"(\)|,"")`)
)

func init() {
	src := func(t c28Case) string {
		if t.Part == "opts" || t.Part == "params" {
			return c28Tiny
		}
		return t.Src
	}
	c28Classes = []c28ClassDef{
		{"shift-negative-count", func(t c28Case, msg, frame string) bool {
			// shift -1: r.Params[n:] with n < 0
			return frame == "interp.(*Runner).builtin" && strings.Contains(msg, "slice bounds out of range [-") && c28ShiftNegRe.MatchString(src(t))
		}},
		{"getopts-stale-char-index", func(t c28Case, msg, frame string) bool {
			// the position inside a group of option letters survives a change of the arguments
			return frame == "interp.(*getopts).next" && c28IndexBeyondRe.MatchString(msg) && strings.Contains(src(t), "getopts")
		}},
		{"assoc-subscript-not-a-word", func(t c28Case, msg, frame string) bool {
			// ${x[-1]}, ${x[1+2]}, ${x[i]:=v}, $((x[-y])), x[x[-y]]=v on an associative array: a
			// subscripted name whose subscript was parsed as arithmetic
			return (frame == "expand.(*Config).varInd" || frame == "expand.(*Config).assignElem") &&
				strings.HasPrefix(msg, "interface conversion: syntax.ArithmExpr is *syntax.") && strings.HasSuffix(msg, "not *syntax.Word") &&
				c28SubscriptRe.MatchString(src(t))
		}},
		{"assoc-literal-element-without-key", func(t c28Case, msg, frame string) bool {
			// declare -A a=(1 2), declare -A a=([1+1]=v): an element of an associative array literal whose subscript is missing or not a word
			return frame == "interp.(*Runner).assignVal" && strings.HasPrefix(msg, "interface conversion: syntax.ArithmExpr is ") && strings.HasSuffix(msg, "not *syntax.Word") && c28AssocLitRe.MatchString(src(t))
		}},
		{"empty-variable-name", func(t c28Case, msg, frame string) bool {
			// unset '', test -v '', a nameref with an empty target (declare -n r=; echo $r)
			return frame == "interp.(*Runner).lookupVar" && msg == "variable name must not be empty" && c28EmptyArgRe.MatchString(src(t))
		}},
		{"nameref-empty-target-array-append", func(t c28Case, msg, frame string) bool {
			// declare -n r=; r+=(1): appending an array to a nameref that has no target
			return frame == "interp.(*Runner).assignVal" && msg == "unexpected conversion of kind 2" && c28NamerefEmptyRe.MatchString(src(t))
		}},
		{"param-at-operator-unknown", func(t c28Case, msg, frame string) bool {
			// ${x@#} and friends reach the default case of the @ operators
			return frame == "expand.(*Config).paramExp" && strings.HasPrefix(msg, "unexpected @") && c28ParamAtOpRe.MatchString(src(t))
		}},
		{"test-match-operand-not-word", func(t c28Case, msg, frame string) bool {
			// [ -z a = a ]: the classic test parser makes a unary test the left operand of = or !=
			return frame == "interp.(*Runner).bashTest" && strings.HasPrefix(msg, "interface conversion: syntax.TestExpr is *syntax.") && strings.HasSuffix(msg, "not *syntax.Word") &&
				c28TestMatchRe.MatchString(src(t))
		}},
		{"params-o-listing-before-stdio", func(t c28Case, msg, frame string) bool {
			// New(Params("-o")) prints the option table to a nil writer
			if t.Part != "opts" && t.Part != "params" {
				return false
			}
			return (frame == "interp.(*Runner).outf" || frame == "interp.(*Runner).printOptLine") && strings.Contains(msg, "nil pointer dereference") &&
				c28BareOptionRe.MatchString(c28Describe(t))
		}},
		{"exechandler-mixed-with-exechandlers", func(t c28Case, msg, frame string) bool {
			d := c28Describe(t)
			return t.Part == "opts" && frame == "interp.(*Runner).Reset" && strings.HasPrefix(msg, "interp.ExecHandler should be replaced") &&
				strings.Contains(d, "ExecHandler(stub)") && strings.Contains(d, "ExecHandlers(")
		}},
	}
}
