package checks

import (
	"fmt"
	"io"
	"reflect"
	"strconv"
	"strings"
	"sync"

	"mvdan.cc/sh/v3/syntax"

	"verif/mc/synt"
	"verif/mc/vc"
)

// C07: Parse returns the same tree (with positions) or the same error however
// the io.Reader cuts the input into reads. The environment's answers (how many
// bytes each Read returns, empty reads, where io.EOF is reported) are
// enumerated exhaustively for every input of a finite input set.

func init() { Registry["C07"] = c07 }

// c07BufSize mirrors syntax.bufSize (syntax/parser.go); c07 verifies the value
// at start-up by observing the size of the first Read request.
const c07BufSize = 1 << 10

// c07Case is one (input, variant, schedule family) triple; all schedules of
// the family are run inside the case.
type c07Case struct {
	Src     string `json:"src"`
	Variant string `json:"variant"`
	// Fam: "chunk" (all chunkings / <=2 split points / 1-byte reader),
	// "zero" ((0,nil) reads), "eof" (data together with io.EOF), "pad"
	// (input moved across the parser's internal buffer boundary).
	Fam string `json:"fam"`
	// Origin of the input: "syn" (genSyn program), "meta" (metacharacter
	// string), "seed" (hand-written lookahead shapes), "esc" (escape-dense
	// inputs, c07_esc.go).
	Origin string `json:"origin"`
	// Kind is genSyn's tier of the program (3 = grammar depth 2).
	Kind int `json:"kind,omitempty"`
	// Full selects the larger schedule set of the "pad" family.
	Full bool `json:"full,omitempty"`
}

// c07Sched is one behaviour of the reader. Chunks lists the sizes of the
// successive non-error reads: k>0 hands out exactly k bytes (in several reads
// if the caller's buffer is smaller), 0 is a (0, nil) read, -1 hands out as
// much as the caller's buffer takes. Once the list is exhausted every read
// hands out Tail bytes (Tail<=0: as much as the buffer takes). EOFWith makes
// the read that delivers the last byte return io.EOF at the same time;
// otherwise io.EOF comes alone in the following read.
type c07Sched struct {
	Chunks  []int
	Tail    int
	EOFWith bool
}

func (s c07Sched) String() string {
	var b strings.Builder
	b.WriteString("reads=[")
	for i, k := range s.Chunks {
		if i > 0 {
			b.WriteByte(',')
		}
		b.WriteString(strconv.Itoa(k))
	}
	b.WriteString("]")
	if s.Tail > 0 {
		fmt.Fprintf(&b, " then=%d-byte", s.Tail)
	} else {
		b.WriteString(" then=all")
	}
	if s.EOFWith {
		b.WriteString(" eof=with-data")
	}
	return b.String()
}

type c07Reader struct {
	data   string
	pos    int
	s      *c07Sched
	ci     int
	rem    int // bytes left of the current chunk; 0 = take the next chunk
	reads  int
	maxAsk int
	cuts   []int // input offset reached after each non-empty read
}

type c07TooManyReads struct{ n int }

func (r *c07Reader) Read(p []byte) (int, error) {
	r.reads++
	if r.reads > 8*len(r.data)+256 {
		// the parser keeps calling Read without making progress
		panic(c07TooManyReads{r.reads})
	}
	if len(p) > r.maxAsk {
		r.maxAsk = len(p)
	}
	if r.pos >= len(r.data) {
		return 0, io.EOF
	}
	if r.rem == 0 {
		k := r.s.Tail
		if r.ci < len(r.s.Chunks) {
			k = r.s.Chunks[r.ci]
			r.ci++
			if k == 0 {
				return 0, nil
			}
		}
		if k <= 0 {
			k = len(p) // as much as the caller's buffer takes, in one read
		}
		r.rem = k
	}
	want := min(len(r.data)-r.pos, r.rem)
	n := copy(p, r.data[r.pos:r.pos+want])
	r.pos += n
	r.rem -= n
	if n > 0 {
		r.cuts = append(r.cuts, r.pos)
	}
	if want == 0 {
		r.rem = 0
	}
	if r.pos == len(r.data) {
		r.rem = 0
		if r.s.EOFWith {
			return n, io.EOF
		}
	}
	return n, nil
}

type c07Result struct {
	f    *syntax.File
	err  string // "" = no error
	pan  string // "" = no panic
	cuts []int  // input offsets at which a read ended
	dump string // lazily computed dump with positions
	lang syntax.LangVariant
	// for a reference result: the tree with end-of-input offsets moved back
	// by one (c07OnlyEndOffset), and its dump
	adj     *syntax.File
	adjDump string
}

func (r *c07Result) getDump() string {
	if r.dump == "" && r.f != nil {
		r.dump = synt.Dump(r.f, c07DumpOpts)
	}
	return r.dump
}

// c07RefReader is strings.Reader plus a record of where its reads ended.
type c07RefReader struct {
	r    *strings.Reader
	pos  int
	cuts []int
}

func (r *c07RefReader) Read(p []byte) (int, error) {
	n, err := r.r.Read(p)
	if n > 0 {
		r.pos += n
		r.cuts = append(r.cuts, r.pos)
	}
	return n, err
}

// c07WS caches one parser per variant for a worker. Reuse is only an
// optimisation: every divergence is re-established with new parsers before it
// is reported (c07Confirm).
type c07WS struct {
	parsers map[syntax.LangVariant]*syntax.Parser
}

var c07Pool = sync.Pool{New: func() any { return &c07WS{parsers: map[syntax.LangVariant]*syntax.Parser{}} }}

func (w *c07WS) parser(lang syntax.LangVariant) *syntax.Parser {
	if w == nil {
		return syntax.NewParser(syntax.Variant(lang), syntax.KeepComments(true))
	}
	p := w.parsers[lang]
	if p == nil {
		p = syntax.NewParser(syntax.Variant(lang), syntax.KeepComments(true))
		w.parsers[lang] = p
	}
	return p
}

// c07Parse parses src under schedule s (nil: the reference, strings.Reader).
// ws == nil uses a new parser.
func c07Parse(ws *c07WS, src string, lang syntax.LangVariant, s *c07Sched) (res c07Result) {
	res.lang = lang
	defer func() {
		if r := recover(); r != nil {
			if ws != nil {
				delete(ws.parsers, lang) // unknown state after a panic
			}
			if t, ok := r.(c07TooManyReads); ok {
				res.pan = fmt.Sprintf("parser does not terminate: %d reads for %d bytes", t.n, len(src))
			} else {
				res.pan = fmt.Sprint(r)
			}
		}
	}()
	p := ws.parser(lang)
	p.VerifC07Poison()
	var f *syntax.File
	var err error
	if s == nil {
		// the reference: everything the buffer takes, io.EOF alone
		rd := &c07RefReader{r: strings.NewReader(src)}
		defer func() { res.cuts = rd.cuts }()
		f, err = p.Parse(rd, "")
	} else {
		rd := &c07Reader{data: src, s: s}
		defer func() { res.cuts = rd.cuts }()
		f, err = p.Parse(rd, "")
	}
	res.f = f
	if err != nil {
		res.err = err.Error()
		if res.err == "" {
			res.err = "(empty error string)"
		}
	}
	return res
}

var c07DumpOpts = synt.DumpOpts{Positions: true, Comments: true}

// c07Diff compares a result with the reference. It returns "" when they
// agree, else a short description of the kind of difference.
func c07Diff(c *vc.Ctx, full string, s *c07Sched, ref, got *c07Result) (kind, detail string) {
	if got.pan != "" {
		return "panic", got.pan
	}
	if ref.err != got.err {
		switch {
		case ref.err == "":
			return "ok->err", fmt.Sprintf("all-at-once parses, this schedule gives error %q", got.err)
		case got.err == "":
			return "err->ok", fmt.Sprintf("all-at-once gives error %q, this schedule parses", ref.err)
		}
		return "err->err", fmt.Sprintf("error %q, all-at-once gives %q", got.err, ref.err)
	}
	if ref.err != "" {
		return "", "" // same error: the property does not speak about partial trees
	}
	if reflect.DeepEqual(ref.f, got.f) {
		return "", ""
	}
	if ok, who := c07OnlyEndOffset(full, s, ref, got); ok {
		// the most frequent divergence (see c07Class), decided without dumps
		if who == "ref" {
			return "pos-end", "every position at the end of the input has offset len-1 instead of len in the all-at-once parse"
		}
		return "pos-end", "every position at the end of the input has offset len-1 instead of len under this schedule"
	}
	rd, d := ref.getDump(), got.getDump()
	if d == rd {
		c.Count("deepequal_differs_dump_equal", 1)
		return "", ""
	}
	// tell a position-only difference from a structural one
	np := synt.DumpOpts{Comments: true}
	if synt.Dump(got.f, np) == synt.Dump(ref.f, np) {
		return "pos", c07FirstDiff(rd, d)
	}
	return "tree", c07FirstDiff(rd, d)
}

func c07FirstDiff(a, b string) string {
	i := 0
	for i < len(a) && i < len(b) && a[i] == b[i] {
		i++
	}
	lo := max(0, i-60)
	cut := func(s string) string {
		hi := min(len(s), i+60)
		if lo > len(s) {
			return ""
		}
		return s[lo:hi]
	}
	return fmt.Sprintf("dumps differ at byte %d: all-at-once …%s… vs …%s…", i, cut(a), cut(b))
}

// c07Metas is the alphabet of the short byte strings: every byte the lexer
// looks ahead at (peek/peekTwo/zshNumRange/UTF-8 refill/backquote escapes),
// plus a letter, a digit and a two-byte rune.
var c07MetaFull = []string{"a", "1", " ", "\n", "\r", "\\", "`", "\"", "'", "$", "(", ")", "{", "}", "[", "]", "<", ">", "-", "=", "+", "!", "#", "&", "|", ";", "*", "é", "\xc3", "\x00"}

// the smaller alphabet for longer strings: the bytes that take part in
// multi-byte lookahead
var c07MetaCore = []string{"a", "1", "\n", "\r", "\\", "`", "\"", "$", "(", ")", "<", ">", "-", "é"}

// hand-written seeds: shapes around every lookahead site, longer than the
// exhaustive strings reach
var c07Seeds = []string{
	"echo <1-2>", "echo <->", "echo <10-200>x", "ls <1-", "a <12-34> b", "<1-2>", "x=<3-4>",
	"a \\\r\nb", "a\\\r\n", "\"a\\\r\nb\"", "a \\\nb", "'a\\\r\nb'", "a\r\nb\r\n", "a\rb",
	"`echo \\`a\\``", "`a \\\\\\`b`", "\"`a \\\"b\\\"`\"", "`\\\\\\\\`", "`\\$a`", "\"`\\\\\"`\"",
	"$((a))", "$( (a))", "$((a); (b))", "((a))", "( (a))", "((a); b)", "$((1+2))", "$(((a)))", "(((a)))",
	"a=(b c)", "a+=(b)", "f() { a; }", "f () a", "a <(b)", "a >(b)", "a=<(b)", "a 2>&1", "a {fd}>b", "a 10>b", "a <<<b",
	"${#a}", "${#}", "${!a}", "${a:-b}", "${a//b/c}", "${a[1]}", "$[1+2]", "${#a[@]}", "${!a[@]}", "${a:1:2}", "${a^^}", "${a@Q}",
	"a <<E\nb\nE\n", "a <<-E\n\tb\n\tE\n", "a <<E\n$b\\\nc\nE\n", "a <<'E'\n\\\nE\n", "a <<E\r\nb\r\nE\r\n",
	"é", "aé", "éa", "\"é\"", "'é'", "$é", "a é # é\n", "€", "a€b", "𝒳", "a𝒳b", "\xe2\x82", "\xf0\x9d\x92", "a\xc3", "\xff",
	"a # b\n", "#!/bin/sh\na\n", "a; b", "a & b", "a && b", "a || b", "a | b", "a |& b", "a;;", "case a in b) c;; esac", "case a in b) c;& d) e;;& esac",
	"[[ a =~ b ]]", "[[ a == b ]]", "[[ a < b ]]", "[[ (a) ]]", "[[ ! a ]]", "a=b c", "a[1]=b", "a[1+2]=b", "let a++", "let 'a' b=1",
	"$'a\\nb'", "$\"a\"", "\"$a\"", "\"${a}\"", "\"$(a)\"", "\"`a`\"", "a\\ b", "a\\\\b", "\\a", "\\", "a\\",
	"if a; then b; fi", "while a; do b; done", "for a in b; do c; done", "for ((a;b;c)); do d; done", "select a in b; do c; done", "function f { a; }", "function f() { a; }",
	"a\x00b", "\x00", "a\\\x00\nb",
	"@test \"a\" {\n}\n", "a;}", "{ a; }", "! a", "time a", "coproc a", "a >| b", "a <> b", "a &> b", "a &>> b", "a >& b", "a <& b",
	"=(a)", "a =(b)", "${(f)a}", "${a:#b}", "$a[1]", "a=(b=c)", "${+a}", "${^a}", "${=a}", "${~a}", "a() b", "() a", "function { a }", "repeat 2 a",
}
