package checks

// Reference model of bash 5.2's printf and echo builtins for the C24 subset,
// with one switch per known deviation ("quirk") of mvdan/sh. The model is NOT
// the oracle (real bash is); it is used only to classify a divergence: a
// failing case gets a class only if (a) the model without quirks reproduces
// bash's bytes and status for that case, (b) the model with some set of
// quirks reproduces the interpreter's; the class is the first quirk of the
// smallest such set. Everything else stays an unclassified VIOLATION.

import (
	"fmt"
	"strconv"
	"strings"
	"unicode/utf8"
)

type c24Q uint32

const (
	c24qErrDrops     c24Q = 1 << iota // a format error discards the output of the current pass
	c24qPctWidthPct                   // "%5%" / "%-%" print % instead of failing
	c24qEscInSpec                     // an escape between % and the conversion is written out instead of failing
	c24qCBWidth                       // %c and %b ignore flags and width
	c24qSGoPad                        // %s padded by Go's fmt (zero padding, width in runes)
	c24qUnsignedSign                  // %u %o %x print a sign for the + and space flags
	c24qNumStatus                     // an invalid number does not make the status 1
	c24qNumParse                      // numeric arguments are read with strconv.ParseInt(arg, 0, 64), error ignored
	c24qOctParse                      // octal escapes take 8/9 as digits and go through ParseUint(.., 8, 8)
	c24qBackslashPct                  // "\%" swallows the % instead of starting a directive
	c24qBQuoteEsc                     // %b / echo -e turn \' \" \? into the bare character
	c24qBOct0                         // %b / echo -e read \0NNN as three digits in total
	c24qSlashC                        // %b / echo -e ignore \c
	c24qEchoOct                       // echo -e decodes \NNN (N != 0)
	c24qEchoCombined                  // echo does not take combined options (-ne)
	c24qEchoENoReset                  // echo -E does not switch -e off again
	c24qDashDash                      // printf does not skip a leading "--"
	c24qAll          c24Q = 1<<iota - 1
)

var c24QuirkNames = []string{
	"error-drops-output", "pct-after-width", "escape-inside-spec", "c-b-ignore-width", "s-go-padding",
	"unsigned-sign-flag", "invalid-number-status", "number-parse", "octal-escape-parse", "backslash-percent",
	"b-quote-escapes", "b-octal-0nnn", "backslash-c", "echo-octal-nnn", "echo-combined-options",
	"echo-E-no-reset", "printf-dashdash",
}

type c24Out struct {
	Out         []byte
	Status      int
	Unsupported bool // a directive bash accepts but the interpreter's grammar does not
}

const (
	c24ModeFormat = iota
	c24ModeB
	c24ModeEcho
)

type c24Model struct {
	q       c24Q
	out     []byte
	convErr bool
}

func (m *c24Model) has(q c24Q) bool { return m.q&q != 0 }

func isOct(c byte) bool { return c >= '0' && c <= '7' }
func isHex(c byte) bool {
	return c >= '0' && c <= '9' || c >= 'a' && c <= 'f' || c >= 'A' && c <= 'F'
}

// escape handles the backslash at s[i]; it appends to m.out and returns the
// index of the last byte it consumed, and whether \c asked to stop.
func (m *c24Model) escape(s string, i int, mode int) (last int, stop bool) {
	if i+1 >= len(s) {
		m.out = append(m.out, '\\')
		return i, false
	}
	c := s[i+1]
	if k := strings.IndexByte("abeEfnrtv\\", c); k >= 0 {
		m.out = append(m.out, "\a\b\x1b\x1b\f\n\r\t\v\\"[k])
		return i + 1, false
	}
	switch {
	case c == '\'' || c == '"' || c == '?':
		if mode == c24ModeFormat || m.has(c24qBQuoteEsc) {
			m.out = append(m.out, c)
			return i + 1, false
		}
		m.out = append(m.out, '\\')
		return i, false // the character itself is then an ordinary one
	case isOct(c):
		max := 3 // digits including the first
		if mode != c24ModeFormat && c == '0' && !m.has(c24qBOct0) {
			max = 4
		}
		if mode == c24ModeEcho && c != '0' && !m.has(c24qEchoOct) {
			m.out = append(m.out, '\\')
			return i, false
		}
		j := i + 1
		for j < len(s) && j-(i+1) < max && (isOct(s[j]) || (m.has(c24qOctParse) && (s[j] == '8' || s[j] == '9'))) {
			j++
		}
		digits := s[i+1 : j]
		if m.has(c24qOctParse) {
			n, _ := strconv.ParseUint(digits, 8, 8)
			m.out = append(m.out, byte(n))
		} else {
			n, _ := strconv.ParseUint(digits, 8, 32)
			m.out = append(m.out, byte(n&0xff))
		}
		return j - 1, false
	case c == 'x' || c == 'u' || c == 'U':
		max := 2
		if c == 'u' {
			max = 4
		} else if c == 'U' {
			max = 8
		}
		j := i + 2
		for j < len(s) && j-(i+2) < max && isHex(s[j]) {
			j++
		}
		if j == i+2 {
			m.out = append(m.out, '\\')
			return i, false
		}
		n, _ := strconv.ParseUint(s[i+2:j], 16, 32)
		if c == 'x' {
			m.out = append(m.out, byte(n))
		} else {
			m.out = utf8.AppendRune(m.out, rune(n))
		}
		return j - 1, false
	case c == 'c' && mode != c24ModeFormat && !m.has(c24qSlashC):
		return i + 1, true
	}
	// not an escape sequence: the backslash is kept and the character is
	// processed as an ordinary one
	m.out = append(m.out, '\\')
	if c == '%' && mode == c24ModeFormat && m.has(c24qBackslashPct) {
		m.out = append(m.out, '%')
		return i + 1, false
	}
	return i, false
}

// expandEsc expands the escapes of a %b argument or an echo -e operand.
func (m *c24Model) expandEsc(s string, mode int) (stop bool) {
	for i := 0; i < len(s); i++ {
		if s[i] == '\\' {
			var st bool
			i, st = m.escape(s, i, mode)
			if st {
				return true
			}
			continue
		}
		m.out = append(m.out, s[i])
	}
	return false
}

// c24InterpPre reports whether the text between % and the conversion fits the
// interpreter's grammar: at most one of + - space, then digits.
func c24InterpPre(pre string) bool {
	if pre != "" && strings.IndexByte("-+ ", pre[0]) >= 0 {
		pre = pre[1:]
	}
	for i := 0; i < len(pre); i++ {
		if pre[i] < '0' || pre[i] > '9' {
			return false
		}
	}
	return true
}

// cNumber parses arg the way bash's getintmax/getuintmax do. bits is the
// two's complement value.
func c24CNumber(arg string, unsigned bool) (bits uint64, invalid bool) {
	if arg == "" {
		return 0, false
	}
	if arg[0] == '\'' || arg[0] == '"' {
		if len(arg) == 1 {
			return 0, false
		}
		r, _ := utf8.DecodeRuneInString(arg[1:])
		if r == utf8.RuneError {
			return uint64(arg[1]), false
		}
		return uint64(r), false
	}
	i := 0
	for i < len(arg) && strings.IndexByte(" \t\n\v\f\r", arg[i]) >= 0 {
		i++
	}
	neg := false
	if i < len(arg) && (arg[i] == '+' || arg[i] == '-') {
		neg = arg[i] == '-'
		i++
	}
	base := 10
	if i+2 < len(arg) && arg[i] == '0' && (arg[i+1] == 'x' || arg[i+1] == 'X') && isHex(arg[i+2]) {
		base = 16
		i += 2
	} else if i < len(arg) && arg[i] == '0' {
		base = 8
	}
	start := i
	var v uint64
	overflow := false
	for i < len(arg) {
		var d int
		ch := arg[i]
		switch {
		case ch >= '0' && ch <= '9':
			d = int(ch - '0')
		case ch >= 'a' && ch <= 'f':
			d = int(ch-'a') + 10
		case ch >= 'A' && ch <= 'F':
			d = int(ch-'A') + 10
		default:
			d = 99
		}
		if d >= base {
			break
		}
		nv := v*uint64(base) + uint64(d)
		if v > (^uint64(0)-uint64(d))/uint64(base) {
			overflow = true
		}
		v = nv
		i++
	}
	if i == start {
		return 0, true // no digits at all: nothing converted
	}
	invalid = i < len(arg)
	if unsigned {
		if overflow {
			return ^uint64(0), invalid
		}
		if neg {
			return -v, invalid
		}
		return v, invalid
	}
	if neg {
		if overflow || v > 1<<63 {
			return 1 << 63, invalid
		}
		return -v, invalid
	}
	if overflow || v > 1<<63-1 {
		return 1<<63 - 1, invalid
	}
	return v, invalid
}

func c24Pad(s []byte, pre string, zeroOK bool) []byte {
	minus := strings.HasPrefix(pre, "-")
	digits := strings.TrimLeft(pre, "-+ ")
	w, _ := strconv.Atoi(strings.TrimLeft(digits, "0"))
	_ = zeroOK
	if len(s) >= w {
		return s
	}
	pad := []byte(strings.Repeat(" ", w-len(s)))
	if minus {
		return append(s, pad...)
	}
	return append(pad, s...)
}

const c24BashConvs = "csbqQdiouxXeEfFgGaAnSC"

// round processes the format once. res: 0 = ran to the end, 1 = format error
// (status 1), 2 = unsupported directive, 3 = stopped by \c.
func (m *c24Model) round(format string, args *[]string) int {
	next := func() string {
		if len(*args) == 0 {
			return ""
		}
		a := (*args)[0]
		*args = (*args)[1:]
		return a
	}
	for i := 0; i < len(format); i++ {
		c := format[i]
		if c == '\\' {
			i, _ = m.escape(format, i, c24ModeFormat)
			continue
		}
		if c != '%' {
			m.out = append(m.out, c)
			continue
		}
		if i+1 < len(format) && format[i+1] == '%' {
			m.out = append(m.out, '%')
			i++
			continue
		}
		// parse the directive with bash's grammar
		j := i + 1
		pre := ""
		phase := 0
		for j < len(format) {
			ch := format[j]
			if ch == '\\' && m.has(c24qEscInSpec) && c24InterpPre(pre) {
				last, _ := m.escape(format, j, c24ModeFormat)
				if last == j && j+1 < len(format) {
					// the interpreter writes an unknown escape out whole
					m.out = append(m.out, format[j+1])
					last = j + 1
				}
				j = last + 1
				continue
			}
			ok := false
			switch {
			case phase == 0 && strings.IndexByte("#'-+ 0", ch) >= 0:
				ok = true
			case phase <= 1 && (ch >= '0' && ch <= '9' || (ch == '*' && phase == 0)):
				phase, ok = 1, true
			case phase <= 1 && ch == '.':
				phase, ok = 2, true
			case phase == 2 && (ch >= '0' && ch <= '9' || ch == '*'):
				ok = true
			case phase <= 3 && strings.IndexByte("hjlLtz", ch) >= 0:
				phase, ok = 3, true
			}
			if !ok {
				break
			}
			pre += string(ch)
			j++
		}
		if j >= len(format) {
			return 1 // missing format character
		}
		conv := format[j]
		interpPre := c24InterpPre(pre)
		if conv == '%' && m.has(c24qPctWidthPct) && interpPre {
			m.out = append(m.out, '%')
			i = j
			continue
		}
		if strings.IndexByte(c24BashConvs, conv) < 0 {
			return 1 // invalid format character
		}
		if !interpPre || strings.IndexByte("sbcdiuox", conv) < 0 {
			return 2
		}
		i = j
		switch conv {
		case 's':
			arg := next()
			if m.has(c24qSGoPad) {
				m.out = append(m.out, fmt.Sprintf("%"+pre+"s", arg)...)
			} else {
				m.out = append(m.out, c24Pad([]byte(arg), pre, false)...)
			}
		case 'c':
			arg := next()
			var b byte
			if arg != "" {
				b = arg[0]
			}
			if m.has(c24qCBWidth) {
				m.out = append(m.out, b)
			} else {
				m.out = append(m.out, c24Pad([]byte{b}, pre, false)...)
			}
		case 'b':
			arg := next()
			sub := &c24Model{q: m.q}
			stop := sub.expandEsc(arg, c24ModeB)
			if m.has(c24qCBWidth) {
				m.out = append(m.out, sub.out...)
			} else {
				m.out = append(m.out, c24Pad(sub.out, pre, false)...)
			}
			if stop {
				return 3
			}
		default:
			arg := next()
			unsigned := conv != 'd' && conv != 'i'
			bits, invalid := c24CNumber(arg, unsigned)
			if invalid {
				m.convErr = true
			}
			if m.has(c24qNumParse) {
				n, _ := strconv.ParseInt(arg, 0, 64)
				bits = uint64(n)
			}
			p := pre
			if unsigned {
				if !m.has(c24qUnsignedSign) {
					p = strings.TrimLeft(p, "+ ")
				}
				v := conv
				if v == 'u' {
					v = 'd'
				}
				m.out = append(m.out, fmt.Sprintf("%"+p+string(v), bits)...)
			} else {
				m.out = append(m.out, fmt.Sprintf("%"+p+"d", int64(bits))...)
			}
		}
	}
	return 0
}

func c24RefPrintf(argv []string, q c24Q) c24Out {
	m := &c24Model{q: q}
	args := argv[1:]
	if len(args) == 0 {
		return c24Out{Status: 2}
	}
	if args[0] == "--" && !m.has(c24qDashDash) {
		args = args[1:]
		if len(args) == 0 {
			return c24Out{Status: 2}
		}
	}
	format := args[0]
	args = args[1:]
	if format == "" {
		return c24Out{}
	}
	for {
		n0 := len(args)
		mark := len(m.out)
		switch m.round(format, &args) {
		case 1:
			if m.has(c24qErrDrops) {
				m.out = m.out[:mark]
			}
			return c24Out{Out: m.out, Status: 1}
		case 2:
			// Out is what was written before the directive was met
			return c24Out{Unsupported: true, Out: m.out}
		case 3:
			return c24Out{Out: m.out, Status: 0}
		}
		if n0 == len(args) || len(args) == 0 {
			break
		}
	}
	st := 0
	if m.convErr && !m.has(c24qNumStatus) {
		st = 1
	}
	return c24Out{Out: m.out, Status: st}
}

func c24RefEcho(argv []string, q c24Q) c24Out {
	m := &c24Model{q: q}
	args := argv[1:]
	newline, esc := true, false
	for len(args) > 0 {
		a := args[0]
		if len(a) < 2 || a[0] != '-' || strings.Trim(a[1:], "neE") != "" {
			break
		}
		if m.has(c24qEchoCombined) && len(a) != 2 {
			break
		}
		for _, o := range a[1:] {
			switch o {
			case 'n':
				newline = false
			case 'e':
				esc = true
			case 'E':
				if !m.has(c24qEchoENoReset) {
					esc = false
				}
			}
		}
		args = args[1:]
	}
	for i, a := range args {
		if i > 0 {
			m.out = append(m.out, ' ')
		}
		if esc {
			if m.expandEsc(a, c24ModeEcho) {
				return c24Out{Out: m.out}
			}
		} else {
			m.out = append(m.out, a...)
		}
	}
	if newline {
		m.out = append(m.out, '\n')
	}
	return c24Out{Out: m.out}
}

func c24Ref(argv []string, q c24Q) c24Out {
	if argv[0] == "echo" {
		return c24RefEcho(argv, q)
	}
	return c24RefPrintf(argv, q)
}
