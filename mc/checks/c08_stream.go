package checks

import (
	"fmt"
	"io"
	"strings"

	"mvdan.cc/sh/v3/syntax"

	"verif/mc/synt"
	"verif/mc/vc"
)

// c08LineReader serves the program one line per Read, synchronously: the
// parser sees exactly what it would see from a blocking pipe into which the
// user types one line at a time (a Read never returns more than the line that
// is available, and the next line only "arrives" when the parser asks again).
type c08LineReader struct {
	lines []string
	k     int // lines delivered so far
	eofs  int
}

func (r *c08LineReader) Read(p []byte) (int, error) {
	if r.k >= len(r.lines) {
		r.eofs++
		return 0, io.EOF
	}
	l := r.lines[r.k]
	if len(l) > len(p) {
		// the parser always offers >= 1 KiB minus pending bytes; lines here
		// are far shorter. Deliver what fits, keep the rest as the same line.
		n := copy(p, l)
		r.lines[r.k] = l[n:]
		return n, nil
	}
	r.k++
	return copy(p, l), nil
}

func c08Lines(src string) []string {
	lines := strings.SplitAfter(src, "\n")
	if lines[len(lines)-1] == "" {
		lines = lines[:len(lines)-1]
	}
	return lines
}

var c08DumpOpts = synt.DumpOpts{Positions: true, Comments: true}

// c08StreamOpt is one value of the parser-option dimension of the streaming
// part: every (program, variant) is streamed through parsers built with each
// option set, and compared with a Parse by a parser with the same options.
// The reference for Incomplete (c08Unfinished) always keeps comments: it needs
// them to judge continuations, and it is independent of the object under test.
type c08StreamOpt struct {
	Name      string
	KeySuffix string
	New       func(lang syntax.LangVariant) *syntax.Parser
}

var c08StreamOpts = []c08StreamOpt{
	{"KeepComments", "", func(lang syntax.LangVariant) *syntax.Parser {
		return syntax.NewParser(syntax.Variant(lang), syntax.KeepComments(true))
	}},
	// the default parser: what cmd/gosh's interactive loop and most users build
	{"default", "+default-options", func(lang syntax.LangVariant) *syntax.Parser {
		return syntax.NewParser(syntax.Variant(lang))
	}},
}

func c08StmtDumps(stmts []*syntax.Stmt) []string {
	out := make([]string, len(stmts))
	for i, s := range stmts {
		out[i] = synt.Dump(s, c08DumpOpts)
	}
	return out
}

type c08Callback struct {
	K     int      // lines delivered when the callback ran
	Inc   bool     // Parser.Incomplete() inside the callback
	Stmts []string // dumps of the statements passed
	EOF   bool     // the reader had already reported EOF to the parser
	Err   string
}

// c08RunInteractive drives InteractiveSeq over the lines; stopAt >= 0 breaks
// out of the loop at that callback index.
func c08RunInteractive(p *syntax.Parser, lines []string, stopAt int, quiet bool) (cbs []c08Callback) {
	r := &c08LineReader{lines: append([]string(nil), lines...)}
	i := 0
	for stmts, err := range p.InteractiveSeq(r) {
		cb := c08Callback{K: r.k, Inc: p.Incomplete(), EOF: r.eofs > 0}
		if !quiet {
			cb.Stmts = c08StmtDumps(stmts)
		}
		if err != nil {
			cb.Err = err.Error()
		}
		cbs = append(cbs, cb)
		if i == stopAt {
			break
		}
		i++
	}
	return cbs
}

// c08Unfinished is the reference for "a statement is unfinished after the
// consumed prefix", computed with a fresh parser only:
//
//   - the prefix parses to an error that IsIncomplete reports (an open quote,
//     here-document, compound command, operator waiting for its operand...), or
//   - the prefix parses and ends in a line continuation (backslash-newline)
//     that directly follows a statement which has no terminator yet: no
//     unescaped newline and no comment lie between the end of the last
//     statement and the final backslash-newline, and the statement has no
//     ';' or '&' (`a \<newline>`, `{ a; } \<newline>`).
//
// Otherwise the statement is finished, except that judged=false (either
// answer accepted) when the prefix fails with an error that is not incomplete
// (C10 covers that), or when it ends in a line continuation with no open
// statement (`a; \<newline>`, `# c \<newline>`): the line is unfinished, a
// statement is not, and real shells prompt with PS2 there.
func c08Unfinished(prefix string, lang syntax.LangVariant) (unfinished, judged bool) {
	const either = false // (false,false): both answers accepted
	f, err := syntax.NewParser(syntax.Variant(lang), syntax.KeepComments(true)).Parse(strings.NewReader(prefix), "")
	if err != nil {
		if syntax.IsIncomplete(err) {
			return true, true
		}
		return false, false
	}
	if !c08EndsInContinuation(prefix) {
		return false, true
	}
	// The prefix ends in a line continuation, so the lexer had to ask for
	// the next line whatever the grammar state; bash shows PS2 for any
	// continued line. Incomplete()=true is therefore always accepted here.
	// It is demanded only when a statement is visibly open.
	if len(f.Stmts) == 0 {
		return either, false
	}
	last := f.Stmts[len(f.Stmts)-1]
	if last.Semicolon.IsValid() {
		return either, false
	}
	end := int(last.End().Offset())
	if end > len(prefix) {
		return either, false
	}
	// a comment after the statement ends it (the backslash is comment text)
	commentAfter := false
	syntax.Walk(f, func(n syntax.Node) bool {
		if cm, ok := n.(*syntax.Comment); ok && int(cm.Hash.Offset()) >= end {
			commentAfter = true
		}
		return true
	})
	if commentAfter {
		return either, false
	}
	// an unescaped newline after the statement ends it as well
	between := strings.ReplaceAll(strings.ReplaceAll(prefix[end:], "\\\r\n", ""), "\\\n", "")
	if strings.Contains(between, "\n") {
		return either, false
	}
	return true, true
}

// c08EndsInContinuation: the text ends in backslash-newline (or
// backslash-CR-LF) with an odd number of backslashes, i.e. the newline is
// escaped unless a quote or comment says otherwise.
func c08EndsInContinuation(s string) bool {
	if strings.HasSuffix(s, "\r\n") {
		s = s[:len(s)-2]
	} else if strings.HasSuffix(s, "\n") {
		s = s[:len(s)-1]
	} else {
		return false
	}
	n := len(s) - len(strings.TrimRight(s, "\\"))
	return n%2 == 1
}

// c08Stream checks one (program, variant): StmtsSeq and InteractiveSeq against
// Parse, and stopping InteractiveSeq early at every callback.
func c08Stream(c *vc.Ctx, t c08Case) *vc.Fail {
	lang := synt.LangByName(t.Variant)
	if t.Opt < 0 || t.Opt >= len(c08StreamOpts) {
		return vc.Failf("bad case", "unknown stream option set %d", t.Opt)
	}
	so := c08StreamOpts[t.Opt]
	// option set 0 keeps the keys of the rounds before the option dimension existed
	vtag := t.Variant + so.KeySuffix
	key := vtag + " " + fmt.Sprintf("%q", t.Src)
	newp := func() *syntax.Parser { return so.New(lang) }
	f, err := newp().Parse(strings.NewReader(t.Src), "")
	if err != nil {
		c.Count("stream_pairs_not_parsing", 1)
		return nil
	}
	c.Count("stream_pairs_parsing", 1)
	c.Count("stream_pairs_parsing_opts_"+so.Name, 1)
	want := c08StmtDumps(f.Stmts)

	// (1) StmtsSeq
	var got []string
	var yielded []*syntax.Stmt
	var serr string
	if fl := guard(key+" StmtsSeq", func() {
		for s, err := range newp().StmtsSeq(strings.NewReader(t.Src)) {
			if err != nil {
				serr = err.Error()
				continue
			}
			got = append(got, synt.Dump(s, c08DumpOpts)) // as the consumer sees it when it is handed over
			yielded = append(yielded, s)
		}
	}); fl != nil {
		return fl
	}
	if serr != "" {
		return &vc.Fail{Key: key + " stmtsseq-error", Msg: fmt.Sprintf("[%s] %s parses, but StmtsSeq yields error %q", vtag, shortSrc(t.Src), serr)}
	}
	if d := c08FirstDiff(got, want); d != "" {
		class := ""
		if c08FirstDiff(c08StmtDumps(yielded), want) == "" {
			// The same statements, once the iteration is over, do equal
			// Parse's: they were handed over before the parser filled in
			// here-document bodies. Family: every differing statement holds
			// a here-document and only its Hdoc differs.
			all := true
			for i := range got {
				if got[i] != want[i] && !c08HasHeredoc(f.Stmts[i]) {
					all = false
				}
			}
			if all {
				class = "stmtsseq-yields-statement-before-its-heredoc-body"
			}
		}
		return &vc.Fail{Key: key + " stmtsseq-differs", Class: class, Msg: fmt.Sprintf("[%s] %s: StmtsSeq statements differ from Parse: %s", vtag, shortSrc(t.Src), d),
			Detail: map[string]any{"stmtsseq": got, "parse": want}}
	}

	// (2) InteractiveSeq, one line per Read
	lines := c08Lines(t.Src)
	if len(lines) > 1 {
		c.Count("stream_multiline_programs", 1)
		c.Distinct("prog " + key)
	}
	var cbs []c08Callback
	if fl := guard(key+" InteractiveSeq", func() { cbs = c08RunInteractive(newp(), lines, -1, false) }); fl != nil {
		return fl
	}
	c.Count("interactive_callbacks", len(cbs))
	var run []string // statements of the callbacks at which Incomplete() is false: what the documented shell loop runs
	seenK := map[int]bool{}
	for i, cb := range cbs {
		seenK[cb.K] = true
		if cb.Err != "" {
			return &vc.Fail{Key: key + " interactive-error", Msg: fmt.Sprintf("[%s] %s parses, but InteractiveSeq callback %d reports error %q", vtag, shortSrc(t.Src), i, cb.Err)}
		}
		prefix := strings.Join(lines[:cb.K], "")
		unf, judged := c08Unfinished(prefix, lang)
		if cb.EOF {
			// the parser has seen the end of the input: what it consumed is
			// the whole program, which parses, so nothing is unfinished
			unf, judged = false, true
		}
		if !judged {
			c.Count("skipped_prefix_not_judgeable", 1)
		} else if cb.Inc != unf {
			c.Distinct(fmt.Sprintf("inc %v %s", cb.Inc, prefix))
			dir := "incomplete-but-finished"
			if unf {
				dir = "complete-but-unfinished"
			}
			return &vc.Fail{Key: fmt.Sprintf("%s %s cb=%d", key, dir, i), Class: c08IncClass(dir, prefix, lines, cb.K),
				Msg: fmt.Sprintf("[%s] %s: at callback %d (after %d line(s), consumed %q) Incomplete()=%v but the reference says unfinished=%v", vtag, shortSrc(t.Src), i, cb.K, prefix, cb.Inc, unf)}
		}
		if cb.Inc {
			c.Count("interactive_incomplete_callbacks", 1)
			// "called with any fully parsed statements": they must be the
			// next statements Parse returns, not yet handed out for running
			if len(run)+len(cb.Stmts) > len(want) || c08FirstDiff(cb.Stmts, want[len(run):len(run)+len(cb.Stmts)]) != "" {
				return &vc.Fail{Key: fmt.Sprintf("%s incomplete-callback-stmts cb=%d", key, i),
					Msg:    fmt.Sprintf("[%s] %s: statements passed to the Incomplete callback %d are not the next statements of Parse", vtag, shortSrc(t.Src), i),
					Detail: map[string]any{"callback": cb.Stmts, "parse": want, "already_run": len(run)}}
			}
			continue
		}
		run = append(run, cb.Stmts...)
	}
	for k := 1; k < len(lines); k++ {
		if seenK[k] {
			continue
		}
		c.Count("interactive_lines_without_callback", 1)
		// "If a line ending in an incomplete statement is parsed, the
		// function will be called [...] and Incomplete will return true"
		if unf, judged := c08Unfinished(strings.Join(lines[:k], ""), lang); judged && unf {
			// Family: the boundary lies inside the body of a <<- here-document,
			// after its first line (the lexer peeks for leading tabs there
			// before it has counted the finished line).
			class := ""
			b := uint(len(strings.Join(lines[:k], "")))
			syntax.Walk(f, func(n syntax.Node) bool {
				if r, ok := n.(*syntax.Redirect); ok && r.Op == syntax.DashHdoc && r.Hdoc != nil &&
					r.Hdoc.Pos().Offset() < b && b <= r.Hdoc.End().Offset() {
					class = "interactive-no-callback-inside-dash-heredoc-body"
				}
				return true
			})
			return &vc.Fail{Key: fmt.Sprintf("%s no-callback-for-incomplete-line=%d", key, k), Class: class,
				Msg: fmt.Sprintf("[%s] %s: line %d ends inside an unfinished statement (consumed %q) but no callback was made before the next line was read", vtag, shortSrc(t.Src), k, strings.Join(lines[:k], ""))}
		}
	}
	if d := c08FirstDiff(run, want); d != "" {
		class := ""
		if (!strings.HasSuffix(t.Src, "\n") || c08EndsInContinuation(t.Src)) && len(run) < len(want) && c08FirstDiff(run, want[:len(run)]) == "" {
			// Everything handed out is right, only trailing statements are
			// missing. Family: the input does not end in a newline token
			// (no final newline, or an escaped one) and all missing
			// statements sit on that final logical line: from the first
			// missing statement to the end of the input there is no
			// unescaped newline outside the statements themselves (their
			// here-document bodies included).
			if c08OnUnterminatedTail(t.Src, f.Stmts[len(run):]) {
				class = "interactive-drops-statements-of-unterminated-last-line"
			}
		}
		return &vc.Fail{Key: key + " interactive-differs", Class: class,
			Msg:    fmt.Sprintf("[%s] %s fed line by line: statements handed out by InteractiveSeq (callbacks with Incomplete()=false) differ from Parse: %s", vtag, shortSrc(t.Src), d),
			Detail: map[string]any{"interactive": run, "parse": want, "callbacks": cbs}}
	}

	// (2c) stopping at callback j: "parsing is stopped and the function is
	// not called again" (a second call is a runtime panic with range-over-func)
	for j := range cbs {
		var fl *vc.Fail
		func() {
			defer func() {
				if r := recover(); r != nil {
					class := ""
					if cbs[j].Inc && strings.Contains(fmt.Sprint(r), "range function continued iteration") {
						class = "interactiveseq-early-stop-calls-yield-again"
					}
					fl = &vc.Fail{Key: fmt.Sprintf("%s stop-at-callback=%d panic", key, j), Class: class,
						Msg: fmt.Sprintf("[%s] %s: leaving the InteractiveSeq loop at callback %d (Incomplete()=%v): panic: %v", vtag, shortSrc(t.Src), j, cbs[j].Inc, r)}
				}
			}()
			c08RunInteractive(newp(), lines, j, true)
		}()
		c.Count("interactive_early_stops", 1)
		if fl != nil {
			return fl
		}
	}
	return nil
}

// c08MaxEnd is the largest end offset of any node under s (a statement's End
// does not cover its here-document bodies).
func c08MaxEnd(s *syntax.Stmt) int {
	m := 0
	syntax.Walk(s, func(n syntax.Node) bool {
		if n != nil {
			if e := n.End(); e.IsValid() && int(e.Offset()) > m {
				m = int(e.Offset())
			}
		}
		return true
	})
	return m
}

// c08OnUnterminatedTail: no unescaped newline lies between / after the given
// (consecutive, last) top-level statements of src.
func c08OnUnterminatedTail(src string, stmts []*syntax.Stmt) bool {
	cur := 0
	for j, s := range stmts {
		if e := c08MaxEnd(s); e > cur {
			cur = e
		}
		next := len(src)
		if j+1 < len(stmts) {
			next = int(stmts[j+1].Pos().Offset())
		}
		if cur < next && cur <= len(src) && c08HasUnescapedNewline(src[cur:next]) {
			return false
		}
	}
	return true
}

func c08HasUnescapedNewline(s string) bool {
	for i := 0; i < len(s); i++ {
		if s[i] != '\n' {
			continue
		}
		j := i
		if j > 0 && s[j-1] == '\r' {
			j--
		}
		n := 0
		for j > 0 && s[j-1] == '\\' {
			n++
			j--
		}
		if n%2 == 0 {
			return true
		}
	}
	return false
}

func c08HasHeredoc(s *syntax.Stmt) bool {
	found := false
	syntax.Walk(s, func(n syntax.Node) bool {
		if r, ok := n.(*syntax.Redirect); ok && (r.Op == syntax.Hdoc || r.Op == syntax.DashHdoc) {
			found = true
		}
		return true
	})
	return found
}

// c08IncClass names the family of an Incomplete() mismatch; "" = unclassified.
func c08IncClass(dir, prefix string, lines []string, k int) string {
	return ""
}

func c08FirstDiff(got, want []string) string {
	for i := 0; i < len(got) && i < len(want); i++ {
		if got[i] != want[i] {
			return fmt.Sprintf("statement %d: got %s, want %s", i, c08Short(got[i]), c08Short(want[i]))
		}
	}
	if len(got) != len(want) {
		return fmt.Sprintf("got %d statements, want %d", len(got), len(want))
	}
	return ""
}

func c08Short(s string) string {
	if len(s) > 160 {
		return s[:160] + "…"
	}
	return s
}

// c08Statements are the building blocks of the multi-statement programs:
// single- and multi-line statements of every kind that keeps the lexer in a
// special state across a line boundary.
var c08Statements = []string{
	"a",
	"a b; c",
	"a &",
	"# only a comment",
	"a # trailing",
	"",
	"a 'x\ny'",
	"a \"x\n$y z\"",
	"a \\\nb",
	"a $'x\ny'",
	"a <<E\nbody $x\nE",
	"a <<-E\n\tbody\n\tE",
	"a <<E b <<F\none\nE\ntwo\nF",
	"a <<'E' | b\n'$x\nE",
	"a &&\nb",
	"a |\n\nb",
	"if a\nthen b\nfi",
	"if a; then b; fi",
	"while a; do\nb\ndone",
	"for i in 1 2\ndo a; done",
	"case x in\na) b ;;\nesac",
	"f() {\na\n}",
	"{ a\nb; }",
	"(a\nb)",
	"a $(b\nc)",
	"a `b\nc`",
	"a \"$(b 'c\nd')\"",
	"a $((1 +\n2))",
	"a ${x:-y\nz}",
	"a=(1\n2)",
	"[[ a &&\nb ]]",
	"((a +\nb))",
	"a; b 'x\ny'; c",
	"a $(b <<E\nbody\nE\n)",
	"a <<E; b\nbody\nE",
	// --- round 3: blank lines that are not empty, and a line ending in a
	// backslash in every lexer context that looks at escaped newlines
	"  ",
	"\t",
	"# c \\",
	"a # c \\",
	"\\",
	"a 'x \\\ny'",
	"a \"x \\\ny\"",
	"a <<E\nbody \\\nmore\nE",
	"a <<'E'\nbody \\\nE",
	"a $((1 + \\\n2))",
	"[[ a && \\\nb ]]",
	"a `b \\\nc`",
	"a ${x:-y \\\nz}",
}

// c08GenStream emits the (program, variant) pairs of parts 1 and 2.
func c08GenStream(c *vc.Ctx, emit func(c08Case)) {
	seen := map[string]bool{}
	one := func(src string, kind int, variants []string) {
		if seen[src] {
			return
		}
		seen[src] = true
		for _, v := range variants {
			for oi := range c08StreamOpts {
				emit(c08Case{Part: "stream", Src: src, Variant: v, Kind: kind, Opt: oi})
			}
		}
	}
	all := []string{"bash", "posix", "mksh", "bats", "zsh"}
	bash := []string{"bash"}
	// the shared space of the syntax checks, as is and newline-terminated
	space := synSpace{Depth: vc.Pick(c, 1, 2), CoreOnly: true, LayoutDepth: vc.Pick(c, 0, 1), Corpus: true, AllVariantsDeep: true, Variants: bash}
	genSyn(c, space, func(t synCase) {
		vs := all
		switch {
		case t.Kind == 3:
			vs = bash
		case t.Kind == 2:
			// layout deviations matter here only when they add a line
			if !strings.Contains(strings.TrimSuffix(t.Src, "\n"), "\n") {
				return
			}
		case t.Kind == 1 && c.Quick() && !strings.Contains(strings.TrimSuffix(t.Src, "\n"), "\n"):
			vs = []string{"bash", "posix"} // single-line programs: two variants in the quick tier
		}
		if t.Kind < 2 || strings.HasSuffix(t.Src, "\n") {
			one(t.Src, t.Kind, vs) // unterminated only for the corpus and the depth<=1 default layout
		}
		if !strings.HasSuffix(t.Src, "\n") {
			one(t.Src+"\n", t.Kind, vs)
		}
	})
	// every depth<=1 template with ALL statement/opening gaps on their own line
	for _, t := range synt.Templates("S", 1, false) {
		for _, nl := range []string{"\n", "\n\n", " # c\n", "\n\t\n", " # c \\\n"} {
			tt := strings.NewReplacer("¶", nl, "¤", nl).Replace(t)
			src, _ := synt.Render(tt, -1, 0)
			if nl == "\n" || !c.Quick() {
				one(src+"\n", 5, all)
			} else {
				one(src+"\n", 5, bash)
			}
		}
	}
	// multi-statement programs: every sequence of 2 (thorough: 3) building
	// blocks, each on its own line(s), terminated and unterminated
	n := len(c08Statements)
	for i := 0; i < n; i++ {
		for j := 0; j < n; j++ {
			src := c08Statements[i] + "\n" + c08Statements[j]
			one(src+"\n", 6, all)
			one(src, 6, bash)
			if c.Quick() {
				continue
			}
			for k := 0; k < n; k++ {
				one(src+"\n"+c08Statements[k]+"\n", 7, bash)
			}
		}
	}
}
