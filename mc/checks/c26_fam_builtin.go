package checks

import (
	"regexp"
	"strconv"
	"strings"
)

// Family group "Builtin" of C26 (see C26_FAMILY_BRIEF.md): the command-level
// behaviour of test / [ / [[ ]], arithmetic commands, arrays as ordinary
// programs use them, and the common builtins. Families (the text before the
// first dash of a description): btest, barith, barray, bcmd.
//
// Every observation is one line `command; echo "N:$?"` (or an echo of the
// state the command left); a program is a column of such lines over one
// dimension, the programs range over the other dimensions. No printf, no
// echo argument starting with a dash or containing a backslash or percent.
func c26GenBuiltin(thorough bool, emit c26EmitFn) {
	c26BuiltinTestUnary(thorough, emit)
	c26BuiltinTestBinary(thorough, emit)
	c26BuiltinTestArgc(thorough, emit)
	c26BuiltinTestWords(thorough, emit)
	c26BuiltinArith(thorough, emit)
	c26BuiltinArrays(thorough, emit)
	c26BuiltinShiftSet(thorough, emit)
	c26BuiltinNounset(thorough, emit)
	c26BuiltinUnsetReadonly(thorough, emit)
	c26BuiltinEval(thorough, emit)
	c26BuiltinGetopts(thorough, emit)
	c26BuiltinTypeCd(thorough, emit)
	c26BuiltinExit(thorough, emit)
}

// c26BuiltinCol numbers the commands and prints the status of each.
func c26BuiltinCol(pre string, cmds []string) string {
	var sb strings.Builder
	sb.WriteString(pre)
	for i, c := range cmds {
		sb.WriteString(c + "; echo \"" + strconv.Itoa(i+1) + ":$?\"\n")
	}
	return sb.String()
}

// c26BuiltinPacked runs every program text in a subshell of its own, numbered:
// the quick tier's way of keeping a dimension without one program per value.
func c26BuiltinPacked(srcs []string) string {
	var sb strings.Builder
	for i, c := range srcs {
		n := strconv.Itoa(i + 1)
		sb.WriteString("echo \"== " + n + "\"\n(\n" + strings.TrimSuffix(c, "\n") + "\n)\necho \"== " + n + " status $?\"\n")
	}
	return sb.String()
}

const c26BuiltinFilePre = "echo hi > f; : > e; v=1; w=; a=(1 2); declare -n ref=v; set -f\n"

// ---- test / [ / [[ ]]: unary operators ------------------------------------

func c26BuiltinTestUnary(thorough bool, emit c26EmitFn) {
	ops := []string{"-z", "-n", "-e", "-a", "-f", "-d", "-s", "-r", "-w", "-x", "-L", "-h", "-p", "-S", "-b", "-c", "-t", "-v", "-o", "-R", "-N", "-O", "-G", "-k", "-g", "-u"}
	generic := []string{"''", "f", "e", ".", "..", "nx", "/dev/null", "/tmp", "0", "1", "v", "w", "u", "a", "ref", "noglob", "errexit", "'-n'", "'f '"}
	for _, op := range ops {
		operands := generic
		switch op {
		case "-N":
			// access and modification times of a file that was written to, of
			// a directory and of a device depend on timing: fresh empty file only
			operands = []string{"''", "e", "nx"}
		case "-L", "-h":
			operands = append(append([]string{}, generic...), "/dev/stdin", "/bin")
		}
		var cmds []string
		if op != "-a" && op != "-o" {
			// `[ -a ]` `[ -o ]` are one-argument tests as well, but `[ ! -a ]`
			// is a binary-operator question of the argc family
			cmds = append(cmds, "test "+op, "[ "+op+" ]", "[ ! "+op+" ]")
		}
		for _, x := range operands {
			cmds = append(cmds,
				"test "+op+" "+x,
				"[ "+op+" "+x+" ]",
				"[[ "+op+" "+x+" ]]",
				"[ ! "+op+" "+x+" ]",
				"[[ ! "+op+" "+x+" ]]")
		}
		emit("btest-unary["+op+"]", c26BuiltinCol(c26BuiltinFilePre, cmds))
	}
}

// ---- binary operators ------------------------------------------------------

var c26BuiltinIntRx = regexp.MustCompile(`^'?[-+]?[1-9][0-9]*'?$|^0$`)

func c26BuiltinTestBinary(thorough bool, emit c26EmitFn) {
	ops := []string{"=", "==", "!=", "<", ">", "-eq", "-ne", "-lt", "-le", "-gt", "-ge", "-nt", "-ot", "-ef"}
	type pair struct{ x, y string }
	pairs := []pair{
		// strings
		{"a", "a"}, {"a", "b"}, {"b", "a"}, {"''", "a"}, {"a", "''"}, {"''", "''"}, {"'a b'", "'a b'"}, {"A", "a"}, {"10", "9"},
		{"ab", "'a*'"}, {"'a*'", "'a*'"}, {"'-n'", "'-n'"}, {"'!'", "'!'"}, {"'('", "'('"}, {"'-a'", "'-a'"},
		// integers
		{"1", "1"}, {"1", "2"}, {"2", "1"}, {"-1", "1"}, {"+1", "1"}, {"' 1'", "1"}, {"'1 '", "1"}, {"01", "1"}, {"010", "8"}, {"010", "10"},
		{"''", "0"}, {"1", "''"}, {"x", "1"}, {"1", "x"}, {"1.5", "1"}, {"0x10", "16"},
		{"9223372036854775807", "9223372036854775806"}, {"9223372036854775808", "0"},
		// files
		{"f", "f"}, {"f", "nx"}, {"nx", "f"}, {"nx", "nx"}, {"f", "/"}, {"/", "f"}, {"f", "./f"}, {".", "./."}, {"f", "e"},
	}
	numeric := map[string]bool{"-eq": true, "-ne": true, "-lt": true, "-le": true, "-gt": true, "-ge": true}
	for _, op := range ops {
		var all []string
		for _, sp := range []string{"test", "[", "[["} {
			var cmds []string
			for _, p := range pairs {
				if (op == "-nt" || op == "-ot") && p.x == "f" && p.y == "e" {
					continue // two fresh files: their order in time is a race with the clock tick
				}
				o := op
				if sp != "[[" && (op == "<" || op == ">") {
					o = "\\" + op
				}
				switch sp {
				case "test":
					cmds = append(cmds, "test "+p.x+" "+o+" "+p.y)
				case "[":
					cmds = append(cmds, "[ "+p.x+" "+o+" "+p.y+" ]", "[ ! "+p.x+" "+o+" "+p.y+" ]")
				case "[[":
					if numeric[op] && (!(c26BuiltinIntRx.MatchString(p.x) && c26BuiltinIntRx.MatchString(p.y)) || len(p.x) > 18) {
						// [[ ]] evaluates these operands as arithmetic expressions:
						// known class dbr-arithmetic-operands-not-evaluated, and C20's subject
						continue
					}
					if op == "=" || op == "==" || op == "!=" {
						// the right side is a pattern unless quoted: keep it a string
						y := p.y
						if !strings.HasPrefix(y, "'") {
							y = "'" + y + "'"
						}
						cmds = append(cmds, "[[ "+p.x+" "+o+" "+y+" ]]", "[[ ! "+p.x+" "+o+" "+y+" ]]")
						continue
					}
					cmds = append(cmds, "[[ "+p.x+" "+o+" "+p.y+" ]]", "[[ ! "+p.x+" "+o+" "+p.y+" ]]")
				}
			}
			if thorough {
				emit("btest-binary["+op+" "+sp+"]", c26BuiltinCol(c26BuiltinFilePre, cmds))
			} else {
				all = append(all, cmds...)
			}
		}
		if !thorough {
			emit("btest-binary["+op+"]", c26BuiltinCol(c26BuiltinFilePre, all))
		}
	}
	// =~ exists in [[ ]] only
	emit("btest-regex[status]", c26BuiltinCol("bad='['; star='*'\n", []string{
		"[[ abc =~ b ]]", "[[ abc =~ ^b ]]", "[[ abc =~ ^a.c$ ]]", "[[ abc =~ a+ ]]", "[[ '' =~ .* ]]", "[[ abc =~ $bad ]]", "[[ abc =~ $star ]]",
		"[[ ! abc =~ b ]]", "[[ abc =~ b && abc =~ d ]]", "[[ abc =~ d || abc =~ c$ ]]", "[[ 'a b' =~ a.b ]]", "[[ abc =~ (a)(b) ]]",
	})+"echo \"m=${BASH_REMATCH[0]} ${BASH_REMATCH[1]} ${BASH_REMATCH[2]} n=${#BASH_REMATCH[@]}\"\n"+
		"[[ abc =~ x ]]; echo \"n=${#BASH_REMATCH[@]}\"\n")
	// && || ! ( ) inside [[ ]] and the -a -o ( ) of [ over all truth vectors
	var cmds []string
	tv := map[bool]string{true: "-n a", false: "-z a"}
	for _, p := range []bool{true, false} {
		for _, q := range []bool{true, false} {
			P, Q := tv[p], tv[q]
			cmds = append(cmds,
				"[[ "+P+" && "+Q+" ]]", "[[ "+P+" || "+Q+" ]]", "[[ ! "+P+" && "+Q+" ]]", "[[ ! ( "+P+" || "+Q+" ) ]]", "[[ ( "+P+" ) ]]",
				"[ "+P+" -a "+Q+" ]", "[ "+P+" -o "+Q+" ]", "[ ! "+P+" -a "+Q+" ]", "[ ! '(' "+P+" -o "+Q+" ')' ]", "[ '(' "+P+" ')' ]",
				"test "+P+" -a "+Q, "test "+P+" -o "+Q, "[ "+P+" ] && [ "+Q+" ]", "[ "+P+" ] || [ "+Q+" ]", "! [ "+P+" ]", "! [[ "+P+" ]]")
			for _, r := range []bool{true, false} {
				R := tv[r]
				cmds = append(cmds, "[[ "+P+" || "+Q+" && "+R+" ]]", "[ "+P+" -o "+Q+" -a "+R+" ]", "[[ "+P+" && "+Q+" || "+R+" ]]", "[ "+P+" -a "+Q+" -o "+R+" ]")
			}
		}
	}
	emit("btest-logic[truth vectors]", c26BuiltinCol("", cmds))
}

// ---- the POSIX argument-count rules of [ -----------------------------------

func c26BuiltinTestArgc(thorough bool, emit c26EmitFn) {
	toks := []string{"!", "-n", "a", "''", "=", "'('", "')'", "-a", "-o"}
	maxLen, chunk := 3, 82
	if thorough {
		maxLen, chunk = 4, 81
	}
	var seqs []string
	// breadth first: all sequences of length 0, then 1, ...
	for l := 0; l <= maxLen; l++ {
		var level []string
		var gen func(prefix string, n int)
		gen = func(prefix string, n int) {
			if n == l {
				level = append(level, prefix)
				return
			}
			for _, t := range toks {
				gen(prefix+t+" ", n+1)
			}
		}
		gen("", 0)
		seqs = append(seqs, level...)
	}
	for i := 0; i < len(seqs); i += chunk {
		j := min(i+chunk, len(seqs))
		var cmds []string
		for _, s := range seqs[i:j] {
			cmds = append(cmds, "[ "+s+"]")
		}
		emit("btest-argc["+strconv.Itoa(i)+".."+strconv.Itoa(j-1)+" from `[ "+seqs[i]+"]`]", c26BuiltinCol("", cmds))
	}
	// missing ] and the same through `test`
	emit("btest-argc[no closing bracket]", c26BuiltinCol("", []string{"[", "[ a", "[ a = a", "[ ]", "test", "test a ]", "test ]", "[ ] ]", "[ a ] ]", "[ ']' ]", "[ ']' = ']' ]"}))
}

// ---- unquoted variables in [ ] (split: too many arguments) and [[ ]] (not split)

func c26BuiltinTestWords(thorough bool, emit c26EmitFn) {
	vals := []string{"", "a b", "*", "a*", "-n", "!", "(", "=", "-f f", "a = a", "a = b", "f", " "}
	for _, v := range vals {
		pre := "echo hi > f; : > a1; : > a2\nv=" + c26QSingle(v) + "\n"
		cmds := []string{
			"[ $v ]", "[ -n $v ]", "[ -z $v ]", "[ $v = $v ]", "[ $v = x ]", "[ x = $v ]", "[ ! $v ]", "[ $v != x ]", "[ -f $v ]", "[ \"$v\" ]", "[ -n \"$v\" ]", "[ \"$v\" = \"$v\" ]", "test $v", "test -n $v",
			"[[ $v ]]", "[[ -n $v ]]", "[[ -z $v ]]", "[[ $v == \"$v\" ]]", "[[ $v == x ]]", "[[ x == \"$v\" ]]", "[[ ! $v ]]", "[[ $v != x ]]", "[[ -f $v ]]", "[[ \"$v\" ]]", "[[ $v == $v ]]", "[[ a1 == $v ]]", "[[ $v < b ]]",
		}
		emit("btest-words[v="+c26QSingle(v)+"]", c26BuiltinCol(pre, cmds))
	}
}

// ---- (( )) and let ----------------------------------------------------------

func c26BuiltinArith(thorough bool, emit c26EmitFn) {
	type ex struct{ name, e, init string }
	exprs := []ex{
		{"zero", "0", "0"}, {"one", "1", "0"}, {"neg", "-1", "0"}, {"assign0", "i=0", "5"}, {"assign5", "i=5", "0"},
		{"postinc-from-0", "i++", "0"}, {"postinc-from--1", "i++", "-1"}, {"preinc-from--1", "++i", "-1"}, {"postdec-from-1", "i--", "1"}, {"predec-from-1", "--i", "1"},
		{"less", "i<3", "0"}, {"less-false", "i<3", "3"}, {"equal", "i==0", "0"}, {"undefined", "u", "0"}, {"indirect", "s", "0"}, {"indirect-empty", "w", "0"},
		{"comma-10", "1,0", "0"}, {"comma-01", "0,1", "0"}, {"addassign0", "i+=0", "0"}, {"not", "!i", "0"}, {"ternary", "i?0:1", "0"}, {"andor", "i&&1||0", "0"},
		{"mul0", "i*=0", "4"}, {"zero-var", "z", "0"},
	}
	for _, x := range exprs {
		var sb strings.Builder
		sb.WriteString("s=t; t=7; w=; z=0\n")
		forms := []struct{ name, cmd string }{{"arith", "(( " + x.e + " ))"}}
		if !strings.ContainsAny(x.e, "<>!?&|*") {
			// a quoted let argument is the known class
			// let-expression-with-spaces-does-not-assign (the interpreter does
			// not parse a quoted word again): unquoted arguments only
			forms = append(forms, []struct{ name, cmd string }{
				{"let", "let " + x.e},
				{"let2", "let 0 " + x.e},
				{"let3", "let " + x.e + " 0"},
			}...)
		}
		n := 0
		for _, f := range forms {
			ctxs := []string{
				f.cmd + "; echo \"N:$? i=$i\"",
				"if " + f.cmd + "; then echo \"N:T i=$i\"; else echo \"N:F i=$i\"; fi",
				f.cmd + " && echo \"N:and i=$i\"",
				f.cmd + " || echo \"N:or i=$i\"",
				"! " + f.cmd + "; echo \"N:$? i=$i\"",
				"k=0; while " + f.cmd + "; do echo \"N:W i=$i\"; k=$((k+1)); [[ $k -ge 2 ]] && break; done; echo \"N:$? i=$i\"",
				"k=0; until " + f.cmd + "; do echo \"N:U i=$i\"; k=$((k+1)); [[ $k -ge 2 ]] && break; done; echo \"N:$? i=$i\"",
			}
			for _, c := range ctxs {
				n++
				sb.WriteString("i=" + x.init + "; " + strings.ReplaceAll(c, "N:", strconv.Itoa(n)+":") + "\n")
			}
		}
		emit("barith-status["+x.name+" "+x.e+"]", sb.String())
	}
	emit("barith-let[argument forms]", c26BuiltinCol("i=0\n", []string{"let i=3 i+=1", "let i==4", "let i=i-4", "(( i = 0 ))", "(( i = 2, i - 2 ))", "let i=2,i-2"})+"echo \"i=$i\"\n")
}

// ---- arrays as programs use them --------------------------------------------

func c26BuiltinArrays(thorough bool, emit c26EmitFn) {
	states := []struct{ name, init string }{
		{"empty", "a=()"},
		{"one-empty", "a=('')"},
		{"spaces", "a=('x y' z '')"},
		{"sparse", "a=(p q r s); unset 'a[1]'"},
		{"sparse-assigned", "a=([2]=m [5]='n o')"},
		{"assoc1", "declare -A a=([k]='v w')"},
		{"scalar", "unset a; a=sc"},
		{"unset", "unset a"},
	}
	iters := []struct{ name, head string }{
		{"at-quoted", "for x in \"${a[@]}\""},
		{"star-quoted", "for x in \"${a[*]}\""},
		{"at-unquoted", "for x in ${a[@]}"},
		{"star-unquoted", "for x in ${a[*]}"},
		{"keys-quoted", "for x in \"${!a[@]}\""},
		{"keys-unquoted", "for x in ${!a[*]}"},
		{"cstyle", "for ((x=0; x<6; x++))"},
		{"func-args", "f() { echo \"argc=$#\"; for x in \"$@\"; do echo \"<$x>\"; done; }; f \"${a[@]}\"; for x in"},
	}
	bodies := []struct{ name, src string }{
		{"none", ""},
		{"append", "a+=(new); "},
		{"unset-first", "unset 'a[0]'; "},
		{"unset-elem-x", "unset \"a[$x]\"; "},
		{"reassign", "a=(R S); "},
		{"unset-all", "unset a; "},
		{"assign-elem", "a[1]=E; "},
	}
	for _, st := range states {
		for _, b := range bodies {
			if !thorough && (b.name == "unset-all" || b.name == "assign-elem") {
				continue
			}
			var sb strings.Builder
			for i, it := range iters {
				body := b.src
				if b.name == "unset-elem-x" && !strings.HasPrefix(it.name, "keys") && it.name != "cstyle" {
					continue // x is not a subscript
				}
				if strings.HasPrefix(st.name, "assoc") && (it.name == "cstyle" || b.name == "append" || b.name == "reassign" || b.name == "unset-first" || b.name == "assign-elem") {
					continue // not meaningful for an associative array (a+=(new) needs a key)
				}
				if (st.name == "unset" || st.name == "scalar" || b.name == "unset-all") && strings.HasPrefix(it.name, "keys") {
					continue // known classes keys-of-unset-variable-is-fatal-see-C33 and C21's keys-of-scalar
				}
				n := strconv.Itoa(i + 1)
				show := "echo \"" + n + ":<$x> n=${#a[@]}\"; "
				if it.name == "cstyle" {
					show = "echo \"" + n + ":$x<${a[x]}> n=${#a[@]}\"; "
				}
				sb.WriteString("unset a; " + st.init + "; " + it.head + "; do " + show + body + "done; echo \"" + n + ":end rc=$? n=${#a[@]} all=<${a[*]}> first=<$a>\"\n")
			}
			emit("barray-iter["+st.name+" body="+b.name+"]", sb.String())
		}
	}
	// an associative array that is declared first and filled later
	emit("barray-assoc[declared, then assigned]", "declare -A m; m=([k]=v [j]=w); echo \"1:${m[k]} ${m[j]} n=${#m[@]}\"\ndeclare -A e=(); e=([k]=v); echo \"2:${e[k]}\"\ndeclare -A d; d[k]=v; d=([j]=w); echo \"3:${d[j]} ${d[k]-U}\"\nf() { declare -A l; l=([k]=v); echo \"4:${l[k]}\"; }; f\n")
	// whole-array operations and what they leave
	ops := []string{"unset a", "unset 'a[1]'", "unset 'a[0]'", "unset 'a[9]'", "unset 'a[-1]'", "a=()", "a=", "a=new", "a+=(t)", "a+=t", "a[7]=h", "a=(\"${a[@]}\")", "a=(\"${a[@]:1}\")", "a=(${a[*]})", "b=(\"${a[@]}\"); a=(\"${b[@]}\" \"${b[@]}\")", "a[${#a[@]}]=len", "set -- \"${a[@]}\"; shift; a=(\"$@\")", "unset a[1]", "unset a b", "unset -v 'a[0]' 'a[1]'", "IFS=:; x=\"${a[*]}\"; unset IFS; a=($x)"}
	for _, st := range states {
		if st.name == "unset" || st.name == "scalar" {
			continue
		}
		var sb strings.Builder
		for i, op := range ops {
			if strings.HasPrefix(st.name, "assoc") && (strings.Contains(op, "+=(t)") || op == "a[${#a[@]}]=len" || op == "a=" || op == "a=new" || op == "a+=t" || strings.Contains(op, "a=(")) {
				continue // assignments without a key to an associative array: bash's own corner, left out
			}
			n := strconv.Itoa(i + 1)
			// each line in a subshell: readonly and the like must not leak
			keys := " keys=<${!a[*]}>"
			if op == "unset a" || op == "unset a b" {
				keys = "" // known class keys-of-unset-variable-is-fatal-see-C33
			}
			sb.WriteString("( unset a; " + st.init + "; " + op + "; echo \"" + n + ":$? n=${#a[@]} all=<${a[*]}>" + keys + " first=<$a>\" )\n")
		}
		emit("barray-ops["+st.name+"]", sb.String())
	}
}

// ---- shift, set -- -----------------------------------------------------------

func c26BuiltinShiftSet(thorough bool, emit c26EmitFn) {
	ns := []string{"", "0", "1", "2", "3", "4", "-1", "x", "''", "+1", "01", "' 1'"}
	for _, argv := range []string{"", "a b c"} {
		for _, where := range []string{"top", "function"} {
			var sb strings.Builder
			for i, n := range ns {
				k := strconv.Itoa(i + 1)
				line := "shift " + n + "; echo \"" + k + ":$? $# <$*>\""
				if n == "x" || n == "''" {
					// a count which is not a number is a usage error with status 2
					// where bash returns 1, and the repository's own tests pin that
					// (recorded as a finding through the program below)
					line = strings.ReplaceAll(line, "$?", "${?/[12]/E}")
				}
				if where == "function" {
					sb.WriteString("f() { " + line + "; }; set -- " + argv + "; f " + argv + "; echo \"" + k + ":outer $# <$*>\"\n")
				} else {
					sb.WriteString("set -- " + argv + "; " + line + "\n")
				}
			}
			emit("bcmd-shift[argv=("+argv+") "+where+"]", sb.String())
		}
	}
	emit("bcmd-shift[non-numeric count status]", "set -- a b; shift x; echo \"$? $#\"\n")
	show := "echo \"N:$? $# <$1> <$2> <$3> <$*>\""
	sets := []string{"set --", "set -- \"$@\" x", "set -- x \"$@\"", "set -- \"$@\" \"$@\"", "set a", "set -- -x", "set -- --", "set -", "set - a b", "set -- ''", "set -- 'p q' r", "set -- $*", "set -- \"$*\"", "set +", "set -- -", "set x -y", "set -- \"${@:2}\"", "set -f -- m n", "set +f o"}
	for _, argv := range []string{"", "'1 2' 3"} {
		var sb strings.Builder
		for i, s := range sets {
			sb.WriteString("set -- " + argv + "; " + s + "; " + strings.ReplaceAll(show, "N:", strconv.Itoa(i+1)+":") + "\n")
		}
		emit("bcmd-set[positional argv=("+argv+")]", sb.String())
	}
	emit("bcmd-set[options]", c26BuiltinCol("", []string{"set -e +e", "set -o errexit; set +o errexit", "set -o nosuchoption", "set -Z", "set -o >/dev/null", "set +o >/dev/null", "set -u; set +u", "set -f; echo *", "set +f", "set -ef; set +ef", "set -o noglob -o nounset; set +o noglob +o nounset", "set -x 2>/dev/null; set +x 2>/dev/null"})+
		"echo \"flags=${-//[^efuC]/}\"\n")
	emit("bcmd-set[pipefail]", c26BuiltinCol("", []string{"false | true", "set -o pipefail; false | true", "true | false | true", "(exit 3) | (exit 4) | true", "set +o pipefail; false | true", "set -o pipefail; ! false | true", "true | true"}))
	emit("bcmd-simple[true false colon]", c26BuiltinCol("", []string{"true", "false", ":", "true x y", "false x y", ": ${q:=set}", ": > made", "[[ -e made ]]", "! true", "! false", "! :", "true && false", "false || :", "x=1 true", "x=2 false", "y=$(false)", "y=$(true)", "y=$(false) true", "z=1 y=$(false)", "echo", "echo a b", "echo ''", "echo a > o", ":"})+"echo \"q=$q x=$x\"\n")
}

// ---- set -u ------------------------------------------------------------------

func c26BuiltinNounset(thorough bool, emit c26EmitFn) {
	uses := []struct{ name, src string }{
		{"plain", "echo $u"}, {"dq", "echo \"$u\""}, {"braces", "echo ${u}"}, {"default", "echo ${u:-d}"}, {"dash", "echo \"${u-}\""}, {"plus", "echo \"${u+s}\""},
		{"length", "echo ${#u}"}, {"suffix", "echo ${u#y}"}, {"subst", "echo ${u/a/b}"}, {"arith-exp", "echo $((u))"}, {"arith-exp-dollar", "echo $(($u + 1))"}, {"arith-cmd", "(( u )); echo \"st=$?\""},
		{"elem", "echo ${arr[0]}"}, {"elem-of-set", "arr=(1); echo \"${arr[5]}\""}, {"at-of-unset", "echo \"${arr[@]}\""}, {"at-of-empty", "arr=(); echo \"n=${#arr[@]} ${arr[@]}\""}, {"count-of-unset", "echo ${#arr[@]}"},
		{"pos1", "echo $1"}, {"pos-at", "echo \"$@\""}, {"pos-star", "echo \"$*\""}, {"pos-count", "echo $#"}, {"pos-slice", "echo \"${@:2}\""},
		{"error-if-unset", "echo ${u:?}"}, {"assign", "y=$u"}, {"assign-default", "echo ${u:=d}$u"}, {"for-list", "for i in $u; do echo i; done"}, {"case-subject", "case $u in *) echo m;; esac"},
		{"dbr", "[[ -n $u ]]"}, {"test", "[ -n \"$u\" ]"}, {"test-v", "[[ -v u ]]; echo \"st=$?\""}, {"heredoc", "read l <<EOF\n$u\nEOF\n"}, {"herestring", "read l <<< $u"}, {"redir-target", "echo a > $u"},
		{"prefix-assign", "y=$u true"}, {"local", "f() { local l=$u; echo in; }; f"}, {"export", "export e=$u"}, {"after-unset", "u=1; unset u; echo $u"}, {"empty-is-set", "u=; echo \"[$u]\""},
		{"special-bang", "echo \"[$!]\""}, {"indirect", "n=u; echo \"${!n}\""}, {"cond-and", "false && echo $u"}, {"in-or", "echo $u || echo alt"},
	}
	places := []struct{ name, open, close string }{
		{"top", "", ""},
		{"subshell", "( ", " ); echo \"sub=$?\""},
		{"function", "g() { ", "; echo \"g-after=$?\"; }; g; echo \"fn=$?\""},
		{"cmdsubst", "c=$( ", " ); echo \"cs=$? [$c]\""},
		{"if-cond", "if ", "; then echo T; else echo F; fi"},
	}
	quickTop := map[string]bool{"plain": true, "dq": true, "elem": true, "pos1": true, "arith-exp": true, "dbr": true, "assign": true, "length": true, "for-list": true, "herestring": true, "local": true, "at-of-unset": true}
	for _, p := range places {
		var packed []string
		for _, u := range uses {
			if strings.Contains(u.src, "<<EOF") && p.name != "top" {
				continue
			}
			src := "set -u\necho before\n" + p.open + u.src + p.close + "\necho \"after=$?\"\n"
			if thorough || (p.name == "top" && quickTop[u.name]) {
				emit("bcmd-nounset["+u.name+" in "+p.name+"]", src)
			} else {
				packed = append(packed, src)
			}
		}
		if len(packed) > 0 {
			emit("bcmd-nounset[packed: every other use in "+p.name+"]", c26BuiltinPacked(packed))
		}
	}
}

// ---- unset, readonly, export ---------------------------------------------------

func c26BuiltinUnsetReadonly(thorough bool, emit c26EmitFn) {
	state := "echo \"N:$? x=${x-U} f=$(f 2>/dev/null || echo nofn) n=${n-U} nfn=$(n 2>/dev/null || echo nofn) r=${r-U}\""
	pre := "x=1; f() { echo fn; }; n=var; n() { echo nfn; }; readonly r=ro; rf() { echo rf; }"
	ops := []string{"unset x", "unset -v x", "unset -f x", "unset f", "unset -v f", "unset -f f", "unset n", "unset -v n", "unset -f n", "unset n n", "unset r", "unset -v r", "unset x r", "unset r x", "unset nosuch", "unset -f nosuch", "unset -v nosuch", "unset", "unset -f", "unset ''", "unset 1x", "unset -z x", "unset -- x", "unset x f n", "unset -fv x"}
	var sb strings.Builder
	for i, op := range ops {
		sb.WriteString("( " + pre + "; " + op + "; " + strings.ReplaceAll(state, "N:", strconv.Itoa(i+1)+":") + " )\n")
	}
	emit("bcmd-unset[forms]", sb.String())
	// readonly variable x ways to (try to) change it; does the script go on?
	changes := []struct{ name, src string }{
		{"assign", "r=2"}, {"append", "r+=2"}, {"prefix-builtin", "r=2 echo pb"}, {"prefix-function", "h() { echo \"h:$r\"; }; r=2 h"}, {"prefix-special", "r=2 :"},
		{"export-assign", "export r=2"}, {"declare-assign", "declare r=2"}, {"readonly-again", "readonly r=2"}, {"local-assign", "h() { local r=2; echo \"h:$? $r\"; }; h"},
		{"for-var", "for r in 2 3; do echo \"loop:$r\"; done"}, {"read", "read r <<< 2"}, {"arith", "(( r = 2 ))"}, {"arith-exp", "y=$(( r = 2 ))"}, {"default-assign", ": ${r:=2}"},
		{"unset", "unset r"}, {"array-assign", "r=(2 3)"}, {"elem-assign", "r[1]=2"}, {"getopts-var", "builtin getopts a r -a"}, {"assign-in-subshell", "( r=2; echo \"sub:$r\" )"}, {"assign-in-cmdsubst", "y=$( r=2; echo \"cs:$r\" ); echo \"y=$y\""},
		{"assign-two", "q=1 r=2"}, {"assign-in-function", "h() { r=2; echo \"h-after:$?\"; }; h"}, {"assign-and", "r=2 && echo yes"}, {"assign-or", "r=2 || echo alt"}, {"assign-if", "if r=2; then echo T; else echo F; fi"},
		{"let", "let r=2"}, {"readonly-function", "readonly -f rf; rf() { echo new; }; rf"}, {"export-n", "export -n r"}, {"printf-free-eval", "eval r=2"},
	}
	quickOwn := map[string]bool{"assign": true, "for-var": true, "assign-in-function": true}
	for _, ro := range []string{"readonly r=1", "r=1; readonly r", "declare -r r=1"} {
		if !thorough && ro != "readonly r=1" {
			continue
		}
		var packed []string
		for _, c := range changes {
			src := "rf() { echo rf; }\n" + ro + "; echo \"ro:$?\"\n" + c.src + "\necho \"st=$? r=$r q=${q-U}\"\necho end\n"
			if thorough || (quickOwn[c.name] && ro == "readonly r=1") {
				emit("bcmd-readonly["+c.name+" after "+ro+"]", src)
			} else {
				packed = append(packed, src)
			}
		}
		if len(packed) > 0 {
			emit("bcmd-readonly[packed: every other change after "+ro+"]", c26BuiltinPacked(packed))
		}
	}
	emit("bcmd-export[forms]", c26BuiltinCol("", []string{"export x=1", "export y", "export x=2 z=3", "export -n x", "export -n nosuch", "export x+=5", "export a=(1 2) 2>/dev/null", "export -f nosuchfn", "f() { :; }; export -f f", "export -- w=6", "readonly >/dev/null", "readonly -p >/dev/null", "export -p >/dev/null", "export >/dev/null"})+"echo \"x=$x y=${y-U} z=$z w=$w\"\n")
}

// ---- eval ----------------------------------------------------------------------

func c26BuiltinEval(thorough bool, emit c26EmitFn) {
	args := []struct{ name, src string }{
		{"none", "eval"}, {"empty", "eval ''"}, {"blank", "eval ' '"}, {"one", "eval 'echo a'"}, {"two-joined", "eval echo 'a   b'"}, {"three", "eval 'echo a;' 'echo b;' echo c"},
		{"false", "eval false"}, {"status", "eval '(exit 3)'"}, {"syntax-error", "eval 'if'"}, {"syntax-error-paren", "eval 'echo ('"}, {"unterminated-quote", "eval \"echo 'a\""},
		{"assign", "eval 'ev=1'; echo \"ev=$ev\""}, {"expand-twice", "p='$q'; q=deep; eval echo \"$p\""}, {"dashdash", "eval -- 'echo dd'"}, {"nested", "eval \"eval 'echo n; (exit 4)'\""},
		{"comment", "eval '# nothing'"}, {"newline", "eval 'echo l1\necho l2; (exit 5)'"}, {"function-def", "eval 'ef() { echo ef; }'; ef"}, {"last-status-kept", "(exit 6); eval ''"}, {"status-visible", "(exit 7); eval 'echo \"in:$?\"'"},
		{"empty-after-false", "false; eval"}, {"set-positional", "eval 'set -- u v'; echo \"$#\""}, {"heredoc", "eval 'read l <<EOF\nhd\nEOF\n'; echo \"$l\""}, {"exit-in-eval", "eval 'exit 8'; echo not"}, {"option", "eval -x 'echo o'"},
	}
	ctxs := []struct{ name, open, close string }{
		{"plain", "", "; echo \"st=$?\""},
		{"or", "", " || echo \"or=$?\""},
		{"if", "if ", "; then echo T; else echo \"F=$?\"; fi"},
		{"errexit", "set -e; ", "; echo \"survived=$?\""},
		{"not", "! ", "; echo \"not=$?\""},
		{"function-return", "h() { ", "; }; h; echo \"h=$?\""},
		{"subshell", "( ", " ); echo \"sub=$?\""},
		{"cmdsubst", "o=$( ", " ); echo \"cs=$? [$o]\""},
	}
	for _, a := range args {
		var packed []string
		for _, c := range ctxs {
			if strings.Contains(a.src, "; echo") && c.name != "plain" {
				continue
			}
			src := c.open + a.src + c.close + "\necho \"end=$?\"\n"
			if (a.name == "syntax-error" || a.name == "syntax-error-paren" || a.name == "unterminated-quote") && !(a.name == "syntax-error" && c.name == "plain") {
				// eval returns 1 for a syntax error where bash returns 2, and the
				// repository's own tests pin that (recorded as a finding through the
				// plain context): elsewhere only "failed or not" is compared
				src = strings.ReplaceAll(src, "$?", "${?/[12]/E}")
			}
			if thorough || c.name == "plain" && (a.name == "syntax-error" || a.name == "exit-in-eval") || c.name == "errexit" && (a.name == "status" || a.name == "false" || a.name == "syntax-error" || a.name == "exit-in-eval") {
				emit("bcmd-eval["+a.name+" "+c.name+"]", src)
			} else if c.name == "errexit" {
				// not packed: set -e next to a negation in one program text is the
				// trigger of the known class errexit-not-ignored-inside-negated-command
				continue
			} else {
				packed = append(packed, src)
			}
		}
		if len(packed) > 0 {
			emit("bcmd-eval["+a.name+" packed: contexts]", c26BuiltinPacked(packed))
		}
	}
	// control flow through eval and return/break from inside
	emit("bcmd-eval[control flow]", "for i in 1 2 3; do eval 'if [[ $i == 2 ]]; then continue; fi'; echo \"i=$i\"; done; echo \"1:$?\"\n"+
		"for i in 1 2 3; do eval break; echo \"i=$i\"; done; echo \"2:$?\"\n"+
		"h() { eval 'return 9'; echo not; }; h; echo \"3:$?\"\n"+
		"h() { eval 'local lv=1'; echo \"lv=$lv\"; }; h; echo \"4:$? ${lv-U}\"\n"+
		"eval 'for j in a b; do echo $j; done'; echo \"5:$?\"\n")
}

// ---- getopts ---------------------------------------------------------------------

func c26BuiltinGetopts(thorough bool, emit c26EmitFn) {
	// spelled `builtin getopts`: the known class
	// getopts-missing-argument-reported-as-colon has any call named getopts as
	// its trigger and would absorb every program of this family
	optstrings := []string{"ab:c", ":ab:c"}
	argvs := []string{"", "-a", "-ab val", "-a -b val", "-bval", "-b", "-x", "-a -- -c", "-a x -c", "-abc", "-", "--", "-a -b", "-ax", "-ca -b v rest", "-b -a", "-b -- -a", "x -a", "-a '' -c", "-:", "-a -b ''", "-b=1", "--long"}
	loop := "while builtin getopts \"$os\" opt; do echo \"opt=<$opt> arg=<${OPTARG-U}> ind=$OPTIND\"; done; echo \"rc=$? opt=<$opt> arg=<${OPTARG-U}> ind=$OPTIND\"\n"
	for _, os := range optstrings {
		var packed [3][]string
		for _, av := range argvs {
			srcs := [3]string{
				"os='" + os + "'\nset -- " + av + "\n" + loop + "shift $((OPTIND-1)); echo \"rest=$# <$*>\"\n",
				"os='" + os + "'\n" + strings.ReplaceAll(loop, " opt;", " opt "+av+";"),
				"os='" + os + "'\nh() { local OPTIND=1; " + strings.TrimSuffix(loop, "\n") + "; }\nh " + av + "\necho \"outer ind=$OPTIND\"\n",
			}
			for k, form := range []string{"positional", "explicit", "function"} {
				if !thorough && k > 0 {
					continue // quick: the positional form only, all argument vectors in one program
				}
				if thorough {
					emit("bcmd-getopts["+form+" optstring="+os+" argv=("+av+")]", srcs[k])
				} else {
					packed[k] = append(packed[k], srcs[k])
				}
			}
		}
		for k, form := range []string{"positional", "explicit", "function"} {
			if len(packed[k]) > 0 {
				emit("bcmd-getopts["+form+" optstring="+os+" packed: argument vectors]", c26BuiltinPacked(packed[k]))
			}
		}
		// OPTIND reset between two parses, and no reset
		emit("bcmd-getopts[reset optstring="+os+"]", "os='"+os+"'\nset -- -a -b v\n"+loop+"OPTIND=1\nset -- -c -a\n"+loop+"set -- -a -c\n"+loop+"OPTIND=2\n"+loop)
	}
	emit("bcmd-getopts[usage]", c26BuiltinCol("", []string{"builtin getopts", "builtin getopts a", "builtin getopts a 1x -a", "builtin getopts a o -a; echo \"$o\"", "OPTIND=1; builtin getopts '' o -a; echo \"$o\"", "OPTIND=1; builtin getopts a o; echo \"[$o]\"", "OPTIND=x; builtin getopts a o -a; echo \"$o\"", "OPTIND=0; builtin getopts a o -a; echo \"$o\"", "OPTIND=5; builtin getopts a o -a; echo \"[$o]\""}))
}

// ---- type, command -v, cd, pwd, break/continue outside loops -----------------------

func c26BuiltinTypeCd(thorough bool, emit c26EmitFn) {
	names := []string{"fn", "echo", "set", "if", "[[", "{", "!", "nosuch", "''", "al", "[", "test", "cd", "time", "function", ".", ":", "/dev/null", "fn nosuch", "nosuch fn"}
	pre := "fn() { echo infn; }\n"
	forms := []string{"type NAME >/dev/null", "type -t NAME", "command -v NAME", "command -V NAME >/dev/null", "type -p NAME", "type -P NAME", "hash NAME 2>/dev/null", "type -a NAME >/dev/null", "builtin NAME >/dev/null", "command NAME >/dev/null"}
	runnable := func(nm string) bool {
		// running these without arguments is another subject
		return !(nm == "if" || nm == "[[" || nm == "{" || nm == "!" || nm == "time" || nm == "function" || nm == "." || nm == "''" || nm == "set" || nm == "[" || nm == "/dev/null")
	}
	if thorough {
		for _, nm := range names {
			var cmds []string
			for k, f := range forms {
				if k < 8 || runnable(nm) {
					cmds = append(cmds, strings.ReplaceAll(f, "NAME", nm))
				}
			}
			emit("bcmd-type[name "+nm+"]", c26BuiltinCol(pre, cmds))
		}
	} else {
		for k, f := range forms {
			var cmds []string
			for _, nm := range names {
				if k < 8 || runnable(nm) {
					cmds = append(cmds, strings.ReplaceAll(f, "NAME", nm))
				}
			}
			emit("bcmd-type[form "+f+"]", c26BuiltinCol(pre, cmds))
		}
	}
	// cd and pwd: the scratch directory has a different name on each side,
	// so compare with the start directory instead of printing it
	show := "echo \"N:$? here=$(where \"$PWD\") pwd=$([[ $(pwd) == \"$PWD\" ]] && echo same || echo differs) old=$(where \"$OLDPWD\")\""
	cds := []string{"cd .", "cd ..", "cd nosuch", "cd ''", "cd - >/dev/null", "cd", "cd /", "cd /dev", "cd /dev/..", "cd //", "cd /dev/../dev/.", "cd . .", "cd f", "cd ./", "cd /dev; cd ..", "cd /dev; cd - >/dev/null", "cd /dev; cd \"$start\"", "cd /; cd dev", "cd -- /dev", "cd -L /dev", "cd -P /dev", "cd /dev/null", "HOME=/dev; cd", "HOME=/dev; cd ~", "CDPATH=/; cd dev >/dev/null", "cd /dev; cd ../..", "cd /dev/./../dev"}
	var sb strings.Builder
	sb.WriteString("start=$PWD; : > f\nwhere() { case $1 in \"$start\") echo start;; \"${start%/*}\") echo parent;; \"${start%/*/*}\") echo grandparent;; *) echo \"[$1]\";; esac; }\n")
	for i, c := range cds {
		sb.WriteString("( " + c + "; " + strings.ReplaceAll(show, "N:", strconv.Itoa(i+1)+":") + " )\n")
	}
	emit("bcmd-cd[forms]", sb.String())
	emit("bcmd-cd[pwd and variables]", "start=$PWD\n"+c26BuiltinCol("", []string{"pwd >/dev/null", "pwd -L >/dev/null", "pwd -P >/dev/null", "pwd -x >/dev/null", "pwd extra >/dev/null", "[[ $(pwd) == \"$start\" ]]", "[[ -z ${OLDPWD-} ]]", "cd /dev", "[[ $OLDPWD == \"$start\" ]]", "[[ $PWD == /dev ]]", "PWD=/fake; [[ $(pwd) == /dev ]]", "cd .; [[ $PWD == /dev ]]", "unset OLDPWD; cd - >/dev/null", "OLDPWD=/; cd - >/dev/null; [[ $PWD == / ]]", "cd /bin; [[ $(pwd) == /bin ]]", "[[ $(pwd -P) == /usr/bin ]]", "cd ..; [[ $PWD == / ]]", "cd -P /bin; [[ $PWD == /usr/bin ]]", "cd ..; [[ $PWD == /usr ]]"}))
	// break / continue where there is no loop
	for _, w := range []string{"break", "continue"} {
		emit("bcmd-noloop["+w+"]", c26BuiltinCol("", []string{w, w + " 1", w + " 2", "{ " + w + "; echo \"after:$?\"; }", "( " + w + "; echo \"after:$?\" )", "x=$( " + w + "; echo \"after:$?\" ); echo \"$x\"", "if true; then " + w + "; echo \"after:$?\"; fi", "case a in a) " + w + "; echo \"after:$?\";; esac", "eval " + w, w + " 1 2", "for i in 1 2; do ( " + w + "; echo \"sub:$?\" ); echo \"i=$i\"; done", "for i in 1 2; do x=$( " + w + "; echo \"cs:$?\" ); echo \"i=$i $x\"; done"}))
	}
}

// ---- exit --------------------------------------------------------------------------

func c26BuiltinExit(thorough bool, emit c26EmitFn) {
	args := []string{"", "0", "1", "255", "256", "257", "-1", "x", "''", "1 2", "x 2", "+3", "03", "' 4'", "9223372036854775807", "1.5"}
	places := []struct{ name, open, close string }{
		{"top", "", "; echo not"},
		{"subshell", "( ", "; echo not ); echo \"sub=$?\""},
		{"function", "h() { ", "; echo not; }; h; echo \"notreached=$?\""},
		{"cmdsubst", "o=$( ", "; echo not ); echo \"cs=$? [$o]\""},
		{"group", "{ ", "; echo not; }; echo not2"},
		{"eval", "eval '", "; echo not'; echo not2"},
		{"pipe-first", "{ ", "; echo not; } | { read l; echo \"got=[$l]\"; }; echo \"pipe=$?\""},
		{"and-list", "true && ", " || echo not; echo not2"},
		{"if-cond", "if ", "; then echo T; else echo F; fi; echo not2"},
		{"loop", "for i in 1 2; do ", "; echo not; done; echo not2"},
		{"exit-trap", "trap 'echo \"trap:$?\"' EXIT; ", "; echo not"},
		{"function-in-subshell", "h() { ", "; }; ( h; echo not ); echo \"sub=$?\""},
	}
	for _, p := range places {
		var packed []string
		for _, a := range args {
			for _, before := range []string{"true", "false", "(exit 5)"} {
				if a != "" && a != "x" && a != "1 2" && before != "false" {
					continue // the status on entry matters without a usable argument only
				}
				if a == "1 2" && before == "(exit 5)" && p.name == "cmdsubst" {
					continue
				}
				if !thorough && p.name == "exit-trap" && !(before == "false" && (a == "" || a == "3" || a == "256" || a == "x")) {
					continue // an EXIT trap in a subshell is the known class exit-trap-set-in-subshell-never-runs: own programs only
				}
				src := "echo start\n" + p.open + before + "; exit " + a + p.close + "\n"
				if thorough || (p.name == "top" && before != "(exit 5)") || p.name == "exit-trap" {
					emit("bcmd-exit[arg=("+a+") in "+p.name+" after "+before+"]", src)
				} else {
					packed = append(packed, src)
				}
			}
		}
		if len(packed) > 0 {
			emit("bcmd-exit[packed: arguments in "+p.name+"]", c26BuiltinPacked(packed))
		}
	}
}
