package checks

import "strings"

// Generator of arithmetic expression texts for C20.
//
// The space is defined on the *text* level so that every text is produced
// exactly once, and so that it contains every rendering of every expression
// tree with and without redundant or grouping parentheses:
//
//	E  := O | O binop E | O ? E : E
//	O  := pre* A post?          pre ∈ {! ~ - + ++ --}, post ∈ {++ --}
//	A  := leaf | ( E )          E with >= 1 operator and not itself a bare ( E )
//
// cost(E) = number of binary/assignment operators + number of `?:` + number
// of unary/increment operators; parentheses are free. Since a text such as
// `a + b * c` does not say how it is grouped (the two shells under comparison
// decide that, which is the point), all trees that print to the same text
// are the same case.
type arGen struct {
	leaves []string
	binops []string
	pre    []string
	post   []string
	// memo of operand and expression texts by cost
	memoE  map[int][]string
	memoO  map[int][]string
	memoNB map[int][]string
}

var (
	c20Binops = []string{
		"+", "-", "*", "/", "%", "**", "<<", ">>", "&", "|", "^", "&&", "||",
		"<", "<=", ">", ">=", "==", "!=", ",",
		"=", "+=", "-=", "*=", "/=", "%=", "<<=", ">>=", "&=", "|=", "^=",
	}
	c20PreOps  = []string{"!", "~", "-", "+", "++", "--"}
	c20PostOps = []string{"++", "--"}
)

func newArGen(leaves []string) *arGen {
	return &arGen{leaves: leaves, binops: c20Binops, pre: c20PreOps, post: c20PostOps,
		memoE: map[int][]string{}, memoO: map[int][]string{}, memoNB: map[int][]string{}}
}

// joinPre renders prefix operator op applied to text x; a space is inserted
// when gluing them would form a different token (`- -x`, `+ ++x`).
func joinPre(op, x string) string {
	if (op[len(op)-1] == '+' || op[len(op)-1] == '-') && (x[0] == '+' || x[0] == '-') {
		return op + " " + x
	}
	return op + x
}

// operands returns all operand texts O of exactly cost k (memoised; only
// used for small k).
func (g *arGen) operands(k int) []string {
	if r, ok := g.memoO[k]; ok {
		return r
	}
	out := g.operandsUpTo(k, k)
	g.memoO[k] = out
	return out
}

// operandsNoFullParen is operands(k) without the atoms "( E )" whose E has
// the whole cost k.
func (g *arGen) operandsNoFullParen(k int) []string { return g.operandsUpTo(k, k-1) }

func (g *arGen) operandsUpTo(k, maxAtom int) []string {
	var out []string
	// atoms of cost m, then q postfix (0/1), then p prefix operators
	for m := 0; m <= maxAtom; m++ {
		var atoms []string
		if m == 0 {
			atoms = g.leaves
		} else {
			for _, e := range g.exprsNB(m) {
				atoms = append(atoms, "("+e+")")
			}
		}
		for q := 0; q <= 1 && m+q <= k; q++ {
			p := k - m - q
			var withPost []string
			if q == 0 {
				withPost = atoms
			} else {
				for _, a := range atoms {
					for _, po := range g.post {
						withPost = append(withPost, a+po)
					}
				}
			}
			cur := withPost
			for i := 0; i < p; i++ {
				var next []string
				for _, x := range cur {
					for _, pr := range g.pre {
						next = append(next, joinPre(pr, x))
					}
				}
				cur = next
			}
			out = append(out, cur...)
		}
	}
	return out
}

// exprs returns all expression texts of exactly cost k (memoised).
func (g *arGen) exprs(k int) []string {
	if r, ok := g.memoE[k]; ok {
		return r
	}
	var out []string
	g.each(k, false, func(s string) { out = append(out, s) })
	g.memoE[k] = out
	return out
}

// exprsNB is exprs(k) without the texts that are one bare "( E )" atom.
func (g *arGen) exprsNB(k int) []string {
	if r, ok := g.memoNB[k]; ok {
		return r
	}
	var out []string
	g.each(k, true, func(s string) { out = append(out, s) })
	g.memoNB[k] = out
	return out
}

// each streams all expression texts of exactly cost k without storing them
// (sub-expressions of lower cost are memoised). With root set, texts that
// are one parenthesised atom "( E )" are left out (a redundant outermost pair
// of parentheses around a cost-k expression; operands of lower cost still
// come parenthesised).
func (g *arGen) each(k int, root bool, f func(string)) {
	if root && k > 0 {
		for _, o := range g.operandsNoFullParen(k) {
			f(o)
		}
	} else {
		for _, o := range g.operands(k) {
			f(o)
		}
	}
	// O(i) binop E(k-1-i)
	for i := 0; i <= k-1; i++ {
		rest := g.exprs(k - 1 - i)
		for _, o := range g.operands(i) {
			for _, op := range g.binops {
				pre := o + " " + op + " "
				for _, e := range rest {
					f(pre + e)
				}
			}
		}
	}
	// O(i) ? E(j) : E(k-1-i-j)
	for i := 0; i <= k-1; i++ {
		for j := 0; i+j <= k-1; j++ {
			mid := g.exprs(j)
			last := g.exprs(k - 1 - i - j)
			for _, o := range g.operands(i) {
				for _, m := range mid {
					pre := o + " ? " + m + " : "
					for _, e := range last {
						f(pre + e)
					}
				}
			}
		}
	}
}

// compactArith removes the blanks of a generated text (for `let` words).
func compactArith(s string) string { return strings.ReplaceAll(s, " ", "") }
