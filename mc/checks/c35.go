//go:build linux && amd64

package checks

import (
	"bytes"
	"fmt"
	"io/fs"
	"os"
	"os/exec"
	"path/filepath"
	"sort"
	"strings"
	"sync"
	"sync/atomic"
	"syscall"
	"time"
	"unsafe"

	"verif/mc/crash"
	"verif/mc/vc"
)

func init() { Registry["C35"] = c35 }

// C35: shfmt -w replaces files atomically. Every file-system-relevant
// system-call boundary of a `shfmt -w` run is a crash point; the process is
// SIGKILLed at the entry stop of that call (the call does not execute) by the
// ptrace supervisor in mc/crash.

type c35Scenario struct {
	Content string `json:"content"` // empty (shfmt prints an empty file as "\n", so it is rewritten) | line | big | formatted
	Mode    uint32 `json:"mode"`    // permission bits of the target
	Kind    string `json:"kind"`    // regular | symlink | fifo | walk
	Tmp     string `json:"tmp"`     // same: $TMPDIR on the target's file system; missing: $TMPDIR does not exist; otherfs: $TMPDIR on another file system
	// Umask is the file mode creation mask shfmt starts with. The bits a newly
	// created (temporary) file loses are Mode&Umask: when that is non-zero the
	// replacement can only get the target's permission bits through an explicit
	// chmod, and the order of that chmod and the rename is observable.
	Umask uint32 `json:"umask"`
}

func (s c35Scenario) key() string {
	return fmt.Sprintf("%s/%04o/%s/tmp-%s/umask-%03o", s.Content, s.Mode, s.Kind, s.Tmp, s.Umask)
}

// The mode and umask values. c35OldModes are the four common modes (none of
// them has a bit in common with umask 022); c35WideModes add group/other write
// bits, so that under every non-zero umask some enumerated mode loses bits at
// file creation and some does not.
var (
	c35OldModes  = []uint32{0o644, 0o600, 0o755, 0o444}
	c35WideModes = []uint32{0o664, 0o666, 0o775, 0o777}
	c35Umasks    = []uint32{0o022, 0o077, 0o000}
)

// c35Scenarios lists the scenario space of a tier, as a union of products, in
// the order they are run. When the time budget expires the tail is what is
// lost, so the order is breadth first: one scenario of every target kind and
// one where the umask clears mode bits, then the quick tier's mode x umask
// grid, then the quick subset of the base product; the thorough tier goes on
// with the full grid and the full base product.
func c35Scenarios(quick bool, tmps []string) []c35Scenario {
	var out []c35Scenario
	seen := map[string]bool{}
	add := func(sc c35Scenario) {
		if !seen[sc.key()] {
			seen[sc.key()] = true
			out = append(out, sc)
		}
	}
	allModes := append(append([]uint32{}, c35OldModes...), c35WideModes...)
	allContents := []string{"empty", "line", "big", "formatted"}
	allKinds := []string{"regular", "symlink", "fifo", "walk"}
	{
		add(c35Scenario{"line", 0o664, "regular", "same", 0o022})
		for _, k := range []string{"symlink", "fifo", "walk"} {
			add(c35Scenario{"line", 0o644, k, "same", 0o022})
		}
		// G (quick): a one-line file named directly, $TMPDIR on the same file
		// system: umask 022 x the four modes with group/other write bits (bits
		// 020 or 022 are lost at creation), umask 077 x three common modes and
		// 0777 (044, 055, 077 lost) and 0600 (nothing lost), umask 000 x 0666
		// (nothing lost although the mode is the widest a create can ask for)
		for _, mu := range [][2]uint32{
			{0o664, 0o022}, {0o666, 0o022}, {0o775, 0o022}, {0o777, 0o022},
			{0o644, 0o077}, {0o755, 0o077}, {0o444, 0o077}, {0o777, 0o077}, {0o600, 0o077},
			{0o666, 0o000},
		} {
			add(c35Scenario{"line", mu[0], "regular", "same", mu[1]})
		}
		// and through a directory walk for one pair per umask
		add(c35Scenario{"line", 0o775, "walk", "same", 0o022})
		add(c35Scenario{"line", 0o644, "walk", "same", 0o077})
		// A (quick): the subset of the base product below
		for _, ct := range allContents {
			for _, m := range c35OldModes {
				for _, k := range allKinds {
					for _, t := range tmps {
						if sc := (c35Scenario{ct, m, k, t, 0o022}); c35QuickSubset(sc) {
							add(sc)
						}
					}
				}
			}
		}
	}
	if quick {
		return out
	}
	// G: the full mode x umask grid on both write paths (file named directly,
	// file found by a directory walk), one-line content, $TMPDIR usable
	for _, u := range c35Umasks {
		for _, m := range allModes {
			for _, k := range []string{"regular", "walk"} {
				add(c35Scenario{"line", m, k, "same", u})
			}
		}
	}
	// G2: masked and unmasked modes where the temporary file is created next
	// to the target ($TMPDIR missing or on another file system), and for the
	// other rewritten contents
	for _, u := range []uint32{0o022, 0o077} {
		for _, m := range []uint32{0o664, 0o777, 0o600} {
			for _, t := range tmps {
				add(c35Scenario{"line", m, "regular", t, u})
			}
			for _, ct := range []string{"empty", "big"} {
				add(c35Scenario{ct, m, "regular", "same", u})
			}
		}
	}
	// refusals must not depend on the mask either
	for _, k := range []string{"symlink", "fifo"} {
		add(c35Scenario{"line", 0o666, k, "same", 0o077})
	}
	// A: the base product under the usual umask 022
	for _, ct := range allContents {
		for _, m := range c35OldModes {
			for _, k := range allKinds {
				for _, t := range tmps {
					add(c35Scenario{ct, m, k, t, 0o022})
				}
			}
		}
	}
	return out
}

type c35Case struct {
	Sc c35Scenario `json:"scenario"`
	// K is the crash point: the process is killed before the K-th relevant
	// system call; 0 means the run completes.
	K int `json:"k"`
}

// c35BuildShfmt builds cmd/shfmt from /repo's working tree into dir.
func c35BuildShfmt(dir string) (string, error) {
	bin := filepath.Join(dir, "shfmt")
	args := []string{"build", "-o", bin}
	if ov := os.Getenv("VERIF_EXTRA_OVERLAY"); ov != "" {
		args = append(args, "-overlay", ov)
	}
	args = append(args, "mvdan.cc/sh/v3/cmd/shfmt")
	cmd := exec.Command("go1.26", args...)
	cmd.Dir = "/repo"
	// -mod=readonly instead of HACKING.md's -mod=mod: with -mod=mod the go
	// command may rewrite /repo/go.sum, and /repo must never be modified
	cmd.Env = append(os.Environ(), "GOFLAGS=-mod=readonly", "GOPROXY=off", "GOSUMDB=off", "GOTOOLCHAIN=local")
	if out, err := cmd.CombinedOutput(); err != nil {
		return "", fmt.Errorf("building shfmt: %v\n%s", err, out)
	}
	return bin, nil
}

type c35Entry struct {
	Type fs.FileMode // type bits only
	Perm fs.FileMode
	Data string // file bytes or link target
}

// c35Snapshot lists everything below the roots; keys are "<root index>:<rel path>".
func c35Snapshot(roots []string) (map[string]c35Entry, error) {
	m := map[string]c35Entry{}
	for i, root := range roots {
		err := filepath.WalkDir(root, func(p string, d fs.DirEntry, err error) error {
			if err != nil {
				if os.IsNotExist(err) && p == root {
					return filepath.SkipDir
				}
				return err
			}
			info, err := os.Lstat(p)
			if err != nil {
				return err
			}
			rel, _ := filepath.Rel(root, p)
			e := c35Entry{Type: info.Mode().Type(), Perm: info.Mode().Perm()}
			switch {
			case e.Type.IsRegular():
				b, err := os.ReadFile(p)
				if err != nil {
					return err
				}
				e.Data = string(b)
			case e.Type&fs.ModeSymlink != 0:
				e.Data, _ = os.Readlink(p)
				e.Perm = 0
			}
			m[fmt.Sprintf("%d:%s", i, rel)] = e
			return nil
		})
		if err != nil && !os.IsNotExist(err) {
			return nil, err
		}
	}
	return m, nil
}

type c35Env struct {
	roots    []string
	argv     []string
	env      []string
	target   string   // snapshot key of the file whose bytes may become the formatted ones
	fifos    []string // absolute paths of FIFOs in the scenario
	keep     []*os.File
	before   map[string]c35Entry
	cleanups []string
}

func (e *c35Env) close() {
	for _, f := range e.keep {
		if f != nil {
			f.Close()
		}
	}
	e.keep = nil
	for _, d := range e.cleanups {
		os.RemoveAll(d)
	}
}

var c35Seq atomic.Int64

// c35Setup creates a fresh copy of the scenario below base (and below shm for
// the otherfs variant).
func c35Setup(bin, base, shm string, sc c35Scenario, contents map[string]string) (*c35Env, error) {
	id := c35Seq.Add(1)
	root := filepath.Join(base, fmt.Sprintf("s%d", id))
	work := filepath.Join(root, "work")
	e := &c35Env{roots: []string{root}, cleanups: []string{root}}
	if err := os.MkdirAll(work, 0o755); err != nil {
		return nil, err
	}
	// stops the EditorConfig search at the scenario root
	if err := os.WriteFile(filepath.Join(root, ".editorconfig"), []byte("root = true\n"), 0o644); err != nil {
		return nil, err
	}
	tmpdir := filepath.Join(root, "tmp")
	switch sc.Tmp {
	case "same":
		if err := os.Mkdir(tmpdir, 0o755); err != nil {
			return nil, err
		}
	case "missing":
		tmpdir = filepath.Join(root, "no-such-dir")
	case "otherfs":
		tmpdir = filepath.Join(shm, fmt.Sprintf("s%d", id))
		if err := os.Mkdir(tmpdir, 0o755); err != nil {
			return nil, err
		}
		e.roots = append(e.roots, tmpdir)
		e.cleanups = append(e.cleanups, tmpdir)
	default:
		return nil, fmt.Errorf("bad tmp kind %q", sc.Tmp)
	}
	content, ok := contents[sc.Content]
	if !ok {
		return nil, fmt.Errorf("bad content kind %q", sc.Content)
	}
	mode := fs.FileMode(sc.Mode)
	writeFile := func(p, data string, mode fs.FileMode) error {
		if err := os.WriteFile(p, []byte(data), 0o600); err != nil {
			return err
		}
		return os.Chmod(p, mode)
	}
	mkfifo := func(p string, mode fs.FileMode) error {
		if err := syscall.Mkfifo(p, 0o600); err != nil {
			return err
		}
		if err := os.Chmod(p, mode); err != nil {
			return err
		}
		// A writer that never blocks the child: the FIFO is held open
		// read-write by the harness with the scenario's content queued, so an
		// open by shfmt succeeds at once; c35OnRelevant closes this descriptor
		// when shfmt is about to read from the drained FIFO, which then
		// reports end of file.
		f, err := os.OpenFile(p, os.O_RDWR|syscall.O_NONBLOCK, 0)
		if err != nil {
			return err
		}
		if len(content) > 0 {
			if _, err := f.Write([]byte(content)); err != nil {
				f.Close()
				return err
			}
		}
		e.keep = append(e.keep, f)
		e.fifos = append(e.fifos, p)
		return nil
	}
	arg := filepath.Join(work, "t.sh")
	var err error
	switch sc.Kind {
	case "regular":
		err = writeFile(arg, content, mode)
		e.target = "0:work/t.sh"
	case "symlink":
		if err = writeFile(filepath.Join(work, "real.sh"), content, mode); err == nil {
			err = os.Symlink("real.sh", arg)
		}
		e.target = "0:work/real.sh"
	case "fifo":
		err = mkfifo(arg, mode)
	case "walk":
		sub := filepath.Join(work, "sub")
		arg = work
		e.target = "0:work/sub/t.sh"
		if err = os.Mkdir(sub, 0o755); err != nil {
			break
		}
		if err = writeFile(filepath.Join(sub, "t.sh"), content, mode); err != nil {
			break
		}
		// bystanders that a walk must leave alone
		if err = writeFile(filepath.Join(sub, "notes.txt"), "echo   'not a shell file'\n", 0o644); err != nil {
			break
		}
		if err = os.Symlink("t.sh", filepath.Join(sub, "lnk.sh")); err != nil {
			break
		}
		err = mkfifo(filepath.Join(sub, "pipe.sh"), 0o644)
	default:
		err = fmt.Errorf("bad kind %q", sc.Kind)
	}
	if err != nil {
		e.close()
		return nil, err
	}
	e.argv = []string{bin, "-w", arg}
	e.env = []string{"GOMAXPROCS=1", "TMPDIR=" + tmpdir, "PATH=/usr/bin:/bin", "HOME=" + root, "NO_COLOR=1"}
	e.before, err = c35Snapshot(e.roots)
	if err != nil {
		e.close()
		return nil, err
	}
	return e, nil
}

// onRelevant lets a read of a drained scenario FIFO see end of file instead
// of blocking (see mkfifo above).
func (e *c35Env) onRelevant(ev *crash.Event) {
	if ev.Name != "read" && ev.Name != "readv" && ev.Name != "pread64" {
		return
	}
	for _, p := range ev.Paths {
		for i, fp := range e.fifos {
			if p != fp || e.keep[i] == nil {
				continue
			}
			n, err := c35Fionread(e.keep[i])
			if err == nil && n == 0 {
				e.keep[i].Close()
				e.keep[i] = nil
			}
		}
	}
}

func c35Fionread(f *os.File) (int, error) {
	var n int32
	_, _, errno := syscall.Syscall(syscall.SYS_IOCTL, f.Fd(), 0x541B, uintptr(unsafe.Pointer(&n)))
	if errno != 0 {
		return 0, errno
	}
	return int(n), nil
}

// sigs renders the relevant events with the scenario's directories replaced
// by $R (scenario root) and $T (other-file-system temp dir).
func (e *c35Env) sigs(evs []crash.Event) []string {
	out := make([]string, len(evs))
	for i := range evs {
		s := evs[i].Sig()
		// longest first; normalise the roots the same way Sig does
		for j := len(e.roots) - 1; j >= 0; j-- {
			s = strings.ReplaceAll(s, c35Norm(e.roots[j]), []string{"$R", "$T"}[j])
		}
		out[i] = s
	}
	return out
}

func c35Norm(p string) string { return crash.NormPath(p) }

// c35QuickSubset: the part of the base product (umask 022, the four common
// modes) whose every crash point the quick tier runs.
func c35QuickSubset(sc c35Scenario) bool {
	line := sc.Content == "line"
	switch sc.Kind {
	case "regular":
		// all contents x all modes with $TMPDIR on the same file system; the
		// other $TMPDIR variants for two (content, mode) pairs
		return sc.Tmp == "same" || (line && sc.Mode == 0o644) || (sc.Content == "big" && sc.Mode == 0o755)
	case "walk":
		return sc.Tmp == "same" && (line || sc.Content == "formatted") && (sc.Mode == 0o644 || sc.Mode == 0o444)
	case "symlink":
		return sc.Tmp == "same" && line && (sc.Mode == 0o644 || sc.Mode == 0o444)
	case "fifo":
		return sc.Tmp == "same" && line && (sc.Mode == 0o644 || sc.Mode == 0o600)
	}
	return false
}

type c35Ref struct {
	sigs   []string
	total  int
	status string
	err    error
}

func c35(c *vc.Ctx) {
	c.Level = "fault_enumeration"
	c.Reruns = 1
	c.BatchSize = 1 // every case runs several processes
	tmp, err := os.MkdirTemp("", "c35-")
	if err != nil {
		fmt.Fprintln(os.Stderr, err)
		os.Exit(2)
	}
	tmp, _ = filepath.EvalSymlinks(tmp)
	shm, shmErr := os.MkdirTemp("/dev/shm", "c35-")
	cleanup := func() {
		os.RemoveAll(tmp)
		if shmErr == nil {
			os.RemoveAll(shm)
		}
	}
	die := func(err error) {
		cleanup()
		fmt.Fprintln(os.Stderr, "C35:", err)
		os.Exit(2)
	}
	bin, err := c35BuildShfmt(tmp)
	if err != nil {
		die(err)
	}
	otherfs := false
	if shmErr == nil {
		var a, b syscall.Stat_t
		if syscall.Stat(tmp, &a) == nil && syscall.Stat(shm, &b) == nil && a.Dev != b.Dev {
			otherfs = true
		}
	}

	// contents and their formatted form (separate, uninterrupted shfmt runs)
	var big strings.Builder
	for i := 0; big.Len() < 40<<10; i++ {
		fmt.Fprintf(&big, "if [ \"$x\" = %d ];then echo   'line %d'  ;fi\n", i, i)
	}
	contents := map[string]string{
		"empty":     "",
		"line":      "echo   foo  >out\n",
		"big":       big.String(),
		"formatted": "#!/bin/sh\nif true; then\n\techo foo >out\nfi\n",
	}
	formatted := map[string]string{}
	for name, src := range contents {
		d := filepath.Join(tmp, "fmt-"+name)
		os.MkdirAll(d, 0o755)
		os.WriteFile(filepath.Join(d, ".editorconfig"), []byte("root = true\n"), 0o644)
		p := filepath.Join(d, "t.sh")
		os.WriteFile(p, []byte(src), 0o644)
		cmd := exec.Command(bin, p)
		cmd.Env = []string{"PATH=/usr/bin:/bin", "NO_COLOR=1"}
		var stderr bytes.Buffer
		cmd.Stderr = &stderr
		out, err := cmd.Output()
		if err != nil {
			die(fmt.Errorf("shfmt %s: %v: %s", name, err, stderr.String()))
		}
		formatted[name] = string(out)
		os.RemoveAll(d)
	}
	if formatted["formatted"] != contents["formatted"] || formatted["line"] == contents["line"] || formatted["big"] == contents["big"] {
		die(fmt.Errorf("content kinds are not what their names say"))
	}

	// scenario space
	tmps := []string{"same", "missing"}
	if otherfs {
		tmps = append(tmps, "otherfs")
	} else {
		c.Count("skipped_otherfs_tmpdir_variant", 1)
	}
	scenarios := c35Scenarios(c.Quick(), tmps)
	masked := 0
	for _, sc := range scenarios {
		if sc.Mode&sc.Umask != 0 {
			masked++
		}
	}
	c.Count("scenarios_where_the_umask_clears_bits_of_the_target_mode", masked)
	c.Rule = fmt.Sprintf("scenario = (content, mode, target kind, $TMPDIR, umask of the shfmt process). Thorough space = G: content line x modes %04o x kinds regular/walk x $TMPDIR same x umasks %03o (every relation between the target's mode and the mask: no bit, group/other write bits, or all group/other bits cleared at file creation); G2: modes 0664/0777/0600 x umasks 022/077 x regular x (content line x $TMPDIR %v, contents empty/big x $TMPDIR same); symlink and fifo targets of mode 0666 under umask 077; A: contents [empty line big formatted] x modes %04o x kinds [regular symlink fifo walk] x $TMPDIR %v under umask 022. Quick tier: 12 scenarios of G (10 (mode, umask) pairs on a directly named one-line file, 2 through a walk) and a subset of A; this run: %d scenarios, see c35Scenarios in c35.go. The umask is set in the traced child only (private fs_struct of the tracer thread). For each scenario a ptrace-supervised reference run of `shfmt -w <target>` (GOMAXPROCS=1) records the K system-call entries that name a path below the scenario directory/$TMPDIR or a descriptor open on such a file (all calls of the classification table in mc/crash/c35_syscalls.go; a call in no table would be reported as a cap); crash point k in 1..K = SIGKILL of the whole process at the entry stop of the k-th such call from a fresh copy, plus the completed run. Killing at any other system-call boundary leaves the same file-system state as killing at the next relevant one, so every boundary is represented. distinct = (scenario, syscall at the kill point, outcome old/new/same)",
		append(append([]uint32{}, c35OldModes...), c35WideModes...), c35Umasks, tmps, c35OldModes, tmps, len(scenarios))
	c.Assumptions = []string{
		"process kill only (no power loss): the page cache survives, so fsync ordering is not judged",
		"the process runs as root on Linux/amd64; ptrace syscall-entry stops abort the call when SIGKILL is pending",
		"a system call can change a named file only if it names it by path or by descriptor (classification table c35_syscalls.go)",
	}

	var refs sync.Map // scenario key -> *c35Ref
	var totalBoundaries atomic.Int64
	var unclassified sync.Map
	var divergedScenarios sync.Map
	run := func(sc c35Scenario, k int) (*c35Env, *crash.Result, error) {
		e, err := c35Setup(bin, tmp, shm, sc, contents)
		if err != nil {
			return nil, nil, err
		}
		umask := int(sc.Umask)
		r, err := crash.Run(crash.Options{Argv: e.argv, Env: e.env, Dir: e.roots[0], Roots: append([]string(nil), e.roots...), KillAt: k, Timeout: 30 * time.Second, OnRelevant: e.onRelevant, Umask: &umask})
		if err != nil {
			e.close()
			return nil, nil, err
		}
		for name, n := range r.Unclassified {
			v, _ := unclassified.LoadOrStore(name, new(atomic.Int64))
			v.(*atomic.Int64).Add(int64(n))
		}
		return e, r, nil
	}
	status := func(r *crash.Result) string {
		switch {
		case r.TimedOut:
			return "timeout"
		case r.Killed:
			return "killed"
		case r.Signal != 0:
			return "signal " + r.Signal.String()
		}
		return fmt.Sprintf("exit %d: %s", r.ExitCode, strings.TrimSpace(crash.NormPath(string(r.Stderr))))
	}
	reference := func(sc c35Scenario) *c35Ref {
		if v, ok := refs.Load(sc.key()); ok {
			return v.(*c35Ref)
		}
		// The sequence of relevant calls is not perfectly reproducible (the
		// kernel may hand out a directory listing in two or three getdents64
		// calls): the reference is the first sequence seen twice in up to
		// five uninterrupted runs, so that an outlier run does not become
		// the reference.
		ref := &c35Ref{}
		seen := map[string]bool{}
		for attempt := 0; attempt < 5; attempt++ {
			e, r, err := run(sc, 0)
			if err != nil {
				ref.err = err
				break
			}
			ref.sigs = e.sigs(r.Relevant)
			ref.total = r.TotalSyscalls
			ref.status = strings.ReplaceAll(status(r), crash.NormPath(e.roots[0]), "$R")
			e.close()
			j := strings.Join(ref.sigs, "\n")
			if seen[j] {
				break
			}
			seen[j] = true
			if attempt > 0 {
				c.Count("reference_run_disagreements", 1)
			}
		}
		v, loaded := refs.LoadOrStore(sc.key(), ref)
		if !loaded && ref.err == nil {
			totalBoundaries.Add(int64(ref.total))
		}
		return v.(*c35Ref)
	}

	// reference runs, in parallel, before the enumeration
	if c.Replay == "" {
		var wg sync.WaitGroup
		ch := make(chan c35Scenario)
		for w := 0; w < c.Workers; w++ {
			wg.Add(1)
			go func() {
				defer wg.Done()
				for sc := range ch {
					reference(sc)
				}
			}()
		}
		for _, sc := range scenarios {
			ch <- sc
		}
		close(ch)
		wg.Wait()
	}

	judge := func(t c35Case) *vc.Fail {
		sc := t.Sc
		key := fmt.Sprintf("%s k=%d", sc.key(), t.K)
		ref := reference(sc)
		if ref.err != nil {
			return &vc.Fail{Key: key + " harness", Msg: fmt.Sprintf("%s: reference run failed: %v", key, ref.err), Class: "harness-error"}
		}
		if t.K > len(ref.sigs) {
			return &vc.Fail{Key: key + " harness", Msg: fmt.Sprintf("%s: crash point beyond the %d relevant calls of the reference run", key, len(ref.sigs)), Class: "harness-error"}
		}
		var e *c35Env
		var r *crash.Result
		var got []string
		diverged := false
		for attempt := 0; ; attempt++ {
			var err error
			e, r, err = run(sc, t.K)
			if err != nil {
				return &vc.Fail{Key: key + " harness", Msg: fmt.Sprintf("%s: supervised run failed: %v", key, err), Class: "harness-error"}
			}
			got = e.sigs(r.Relevant)
			want := ref.sigs
			if t.K > 0 {
				want = ref.sigs[:t.K]
			}
			if strings.Join(got, "\n") == strings.Join(want, "\n") || r.TimedOut {
				break
			}
			if attempt == 2 {
				// Not a property violation: the run is still a real run
				// killed at a real system-call boundary, so its outcome is
				// judged below like any other; what is lost is the guarantee
				// that index k addresses the k-th boundary of the reference
				// run, which is reported as a cap (exhaustive=false).
				diverged = true
				if _, dup := divergedScenarios.LoadOrStore(sc.key(), true); !dup {
					c.CapNote("scenario %s: a run's relevant system calls were not the reference sequence in 3 attempts; its crash points are real but not addressed by reference index", sc.key())
				}
				c.Count("runs_judged_despite_trace_divergence", 1)
				break
			}
			c.Count("trace_divergence_retries", 1)
			e.close()
		}
		defer e.close()
		at := "completed"
		if t.K > 0 {
			at = "before " + ref.sigs[t.K-1]
		}
		if diverged {
			at = "completed"
			if r.Killed && len(got) > 0 {
				at = "before " + got[len(got)-1]
			}
		}
		fail := func(what, format string, args ...any) *vc.Fail {
			return &vc.Fail{Key: key + " " + what, Msg: fmt.Sprintf("shfmt -w, scenario %s, %s (crash point %d of %d): ", sc.key(), at, t.K, len(ref.sigs)) + fmt.Sprintf(format, args...),
				Detail: map[string]any{"reference": ref.sigs, "status": status(r)}}
		}
		if r.TimedOut {
			return fail("timeout", "the process blocked and was stopped by the timeout guard")
		}
		if diverged && !r.Killed && !r.TimedOut {
			// fewer relevant calls than k in this run: it ran to completion
			t.K = 0
		}
		if t.K > 0 && (!r.Killed || r.Signal != syscall.SIGKILL) {
			return &vc.Fail{Key: key + " harness", Msg: fmt.Sprintf("%s: the process was not killed at the crash point (%s)", key, status(r)), Class: "harness-error"}
		}
		if t.K == 0 {
			if st := strings.ReplaceAll(status(r), crash.NormPath(e.roots[0]), "$R"); st != ref.status {
				return fail("status", "completed run ended with %q, reference run with %q", st, ref.status)
			}
		}
		after, err := c35Snapshot(e.roots)
		if err != nil {
			return fail("unreadable", "cannot read the scenario back: %v", err)
		}
		orig := contents[sc.Content]
		want := formatted[sc.Content]
		var names []string
		for name := range e.before {
			names = append(names, name)
		}
		sort.Strings(names)
		outcome := "same"
		for _, name := range names {
			b, a := e.before[name], after[name]
			if _, ok := after[name]; !ok {
				return fail("missing "+name, "%s no longer exists", name)
			}
			if a.Type != b.Type {
				return fail("type "+name, "%s changed type from %v to %v", name, b.Type, a.Type)
			}
			if a.Perm != b.Perm {
				return fail(fmt.Sprintf("perm %s %04o", name, a.Perm), "%s changed permission bits from %04o to %04o", name, b.Perm, a.Perm)
			}
			if a.Data == b.Data {
				continue
			}
			switch {
			case b.Type&fs.ModeSymlink != 0:
				return fail("symlink "+name, "symlink %s now points to %q instead of %q", name, a.Data, b.Data)
			case name != e.target:
				return fail("bystander "+name, "%s is not the file being formatted but its bytes changed (%d -> %d bytes)", name, len(b.Data), len(a.Data))
			case a.Data == want:
				outcome = "new"
			default:
				return fail(fmt.Sprintf("torn %d", len(a.Data)), "%s holds neither its original %d bytes nor the %d formatted bytes: %d bytes %.60q", name, len(orig), len(want), len(a.Data), a.Data)
			}
		}
		var extra []string
		for name := range after {
			if _, ok := e.before[name]; !ok {
				extra = append(extra, crash.NormPath(name))
			}
		}
		sort.Strings(extra)
		if t.K == 0 {
			if len(extra) > 0 {
				return fail("leftover "+strings.Join(extra, ","), "completed run left files behind: %v", extra)
			}
			if (sc.Kind == "regular" || sc.Kind == "walk") && orig != want && outcome != "new" {
				return fail("not-formatted", "completed run did not format the file")
			}
			c.Distinct(sc.Kind + " completes with " + ref.status)
		} else if len(extra) > 0 {
			c.Count("killed_runs_leaving_a_temp_file", 1)
		}
		name, _, _ := strings.Cut(at, " $")
		c.Distinct(sc.key() + " " + name + " " + outcome)
		c.Count("outcome_"+outcome, 1)
		return nil
	}

	complete := vc.Run(c, func(emit func(c35Case)) {
		for _, sc := range scenarios {
			ref := reference(sc)
			for k := 0; k <= len(ref.sigs); k++ {
				emit(c35Case{sc, k})
			}
			if ref.err == nil && sc.Content == "line" && sc.Tmp == "same" && ((sc.Mode == 0o644 && sc.Umask == 0o022) || (sc.Mode == 0o777 && sc.Umask == 0o077 && sc.Kind == "regular")) {
				c.Sample(map[string]any{"scenario": sc.key(), "completed_run": ref.status, "relevant_syscalls_in_order": ref.sigs, "all_syscall_entries": ref.total})
			}
		}
	}, judge)

	c.Count("scenarios", len(scenarios))
	c.Count("syscall_boundaries_in_reference_runs", int(totalBoundaries.Load()))
	unclassified.Range(func(k, v any) bool {
		c.CapNote("system call %v seen %d times is in neither classification table", k, v.(*atomic.Int64).Load())
		return true
	})
	cleanup()
	c.Finish(complete)
}
