package checks

import (
	"fmt"
	"sort"
	"strings"
)

// The precedence matrix (round 3): the part of C20 that decides how two
// operators in one expression group, small enough to run first so that a
// budget-limited quick run always completes it.
//
// For EVERY ordered pair (op1, op2) of the 31 binary/assignment operators the
// text `a op1 b op2 c`; for every binary operator with the conditional
// operator `a op b ? c : d` and `a ? b : c op d`; the conditional operator
// with itself; every prefix operator before every binary operator
// `pre a op b`. That is every pair of precedence levels in both orders, and
// every pair of operators of one level (associativity).
//
// The leaves are not enumerated blindly (the full cube is what parts (2) and
// (3) of the rule do): for each text shape the first c20PrecPerPair leaf
// tuples, in the fixed order of c20PrecLeaves, are taken for which the two
// possible groupings `(a op1 b) op2 c` and `a op1 (b op2 c)` are both inside
// the property's quantifier (no overflow, no out-of-range shift) and give
// different observations (value or variable state), preferring tuples where
// both groupings are values over tuples where one of them is an error. If no
// tuple tells the groupings apart (e.g. `a + b + c`) the first tuple is
// taken. The big-integer reference evaluator is used for this choice of
// INPUTS only; what the interpreter must print is decided by bash as for
// every other case.
var c20PrecLeaves = []string{"2", "1", "3", "0", "7", "x", "y"}

const c20PrecPerPair = 2

// c20PrecObs is the observation the reference predicts for text: "" when the
// text is outside the quantifier, "E" for an error, else value and variables.
func c20PrecObs(text string) (obs string, isValue bool) {
	st := newArRefState()
	v, o, _ := arRefEval(st, text)
	switch o {
	case arRefExcluded:
		return "", false
	case arRefError:
		return "E", false
	}
	if st.unpredicted {
		return "", false
	}
	keys := make([]string, 0, len(st.vars))
	for k := range st.vars {
		keys = append(keys, k)
	}
	sort.Strings(keys)
	var sb strings.Builder
	fmt.Fprintf(&sb, "%d", v)
	for _, k := range keys {
		fmt.Fprintf(&sb, "|%s=%s", k, st.vars[k])
	}
	return sb.String(), true
}

// c20PrecPick enumerates the leaf tuples of length n in order and returns
// the texts chosen as described above. text renders the case, g1 and g2 the
// two explicit groupings.
func c20PrecPick(n int, text, g1, g2 func(l []string) string) []string {
	var best, second []string
	first := ""
	idx := make([]int, n)
	l := make([]string, n)
	for {
		for i, j := range idx {
			l[i] = c20PrecLeaves[j]
		}
		t := text(l)
		if first == "" {
			first = t
		}
		o1, v1 := c20PrecObs(g1(l))
		o2, v2 := c20PrecObs(g2(l))
		if o1 != "" && o2 != "" && o1 != o2 {
			if v1 && v2 {
				best = append(best, t)
				if len(best) >= c20PrecPerPair {
					return best
				}
			} else if len(second) < c20PrecPerPair {
				second = append(second, t)
			}
		}
		// next tuple
		k := n - 1
		for k >= 0 {
			idx[k]++
			if idx[k] < len(c20PrecLeaves) {
				break
			}
			idx[k] = 0
			k--
		}
		if k < 0 {
			break
		}
	}
	out := append(best, second...)
	if len(out) > c20PrecPerPair {
		out = out[:c20PrecPerPair]
	}
	if len(out) == 0 {
		out = []string{first}
	}
	return out
}

// c20PrecMatrix calls f with every text of the precedence matrix, each once.
func c20PrecMatrix(f func(string)) {
	seen := map[string]bool{}
	put := func(ts []string) {
		for _, t := range ts {
			if !seen[t] {
				seen[t] = true
				f(t)
			}
		}
	}
	for _, op1 := range c20Binops {
		for _, op2 := range c20Binops {
			put(c20PrecPick(3,
				func(l []string) string { return l[0] + " " + op1 + " " + l[1] + " " + op2 + " " + l[2] },
				func(l []string) string { return "(" + l[0] + " " + op1 + " " + l[1] + ") " + op2 + " " + l[2] },
				func(l []string) string { return l[0] + " " + op1 + " (" + l[1] + " " + op2 + " " + l[2] + ")" }))
		}
	}
	for _, op := range c20Binops {
		put(c20PrecPick(4,
			func(l []string) string { return l[0] + " " + op + " " + l[1] + " ? " + l[2] + " : " + l[3] },
			func(l []string) string { return "(" + l[0] + " " + op + " " + l[1] + ") ? " + l[2] + " : " + l[3] },
			func(l []string) string { return l[0] + " " + op + " (" + l[1] + " ? " + l[2] + " : " + l[3] + ")" }))
		put(c20PrecPick(4,
			func(l []string) string { return l[0] + " ? " + l[1] + " : " + l[2] + " " + op + " " + l[3] },
			func(l []string) string { return "(" + l[0] + " ? " + l[1] + " : " + l[2] + ") " + op + " " + l[3] },
			func(l []string) string { return l[0] + " ? " + l[1] + " : (" + l[2] + " " + op + " " + l[3] + ")" }))
	}
	put(c20PrecPick(5,
		func(l []string) string { return l[0] + " ? " + l[1] + " : " + l[2] + " ? " + l[3] + " : " + l[4] },
		func(l []string) string {
			return "(" + l[0] + " ? " + l[1] + " : " + l[2] + ") ? " + l[3] + " : " + l[4]
		},
		func(l []string) string {
			return l[0] + " ? " + l[1] + " : (" + l[2] + " ? " + l[3] + " : " + l[4] + ")"
		}))
	for _, pre := range c20PreOps {
		for _, op := range c20Binops {
			put(c20PrecPick(2,
				func(l []string) string { return joinPre(pre, l[0]) + " " + op + " " + l[1] },
				func(l []string) string { return "(" + joinPre(pre, l[0]) + ") " + op + " " + l[1] },
				func(l []string) string { return joinPre(pre, "("+l[0]+" "+op+" "+l[1]+")") }))
		}
	}
}
