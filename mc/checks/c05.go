package checks

import (
	"fmt"
	"os"
	"strconv"
	"strings"

	"mvdan.cc/sh/v3/syntax"

	"verif/mc/synt"
	"verif/mc/vc"
)

func init() { Registry["C05"] = c05 }

func commentTexts(f *syntax.File) []string {
	type pc struct {
		off  uint
		text string
	}
	var all []pc
	syntax.Walk(f, func(n syntax.Node) bool {
		if cm, ok := n.(*syntax.Comment); ok {
			all = append(all, pc{cm.Hash.Offset(), strings.TrimRight(cm.Text, " \t\r")})
		}
		return true
	})
	// Walk order is not position order for all comment lists; sort by offset
	for i := 1; i < len(all); i++ {
		for j := i; j > 0 && all[j].off < all[j-1].off; j-- {
			all[j], all[j-1] = all[j-1], all[j]
		}
	}
	out := make([]string, len(all))
	for i, c := range all {
		out[i] = c.text
	}
	return out
}

func c05(c *vc.Ctx) {
	space := synSpace{Depth: 1, LayoutDepth: 1, Corpus: true, AllVariantsDeep: true}
	cfgs := reducedConfigs()
	pairDepth := vc.Pick(c, 0, 1)
	c.Rule = space.describe() + fmt.Sprintf("; plus every PAIR of comment deviations (trailing comment / comment line at two different gaps) of the depth<=%d templates of the grammar (depth 1 limited to templates with <=8 gaps); " + c05DescribeSets(c.Quick()) + "; %d printer configurations; oracle: with Minify off the sequence of comment texts (right-trimmed, in source order) of Parse(Print(src)) equals that of Parse(src); with Minify only a '#!' comment at 1:1 survives; distinct = distinct non-empty comment sequences", pairDepth, len(cfgs))
	gen := func(emit0 func(synCase)) {
		// the programs of the first generator; the second one skips them so
		// that every (program, variant) is one case with one key
		first := map[string]bool{}
		emit := func(t synCase) { first[t.Src] = true; emit0(t) }
		if part := os.Getenv("VERIF_C05_PART"); strings.HasPrefix(part, "keys:") {
			// development aid: re-run the second-generator cases whose
			// keys (column 3 of a VERIF_DUMP file) are listed in a file
			c.CapNote("VERIF_C05_PART=keys: only the listed cases")
			data, _ := os.ReadFile(strings.TrimPrefix(part, "keys:"))
			for _, line := range strings.Split(string(data), "\n") {
				line = strings.TrimPrefix(line, "w:")
				v, rest, ok := strings.Cut(line, " ")
				if i := strings.LastIndex(rest, "\" "); ok && i > 0 {
					if src, err := strconv.Unquote(rest[:i+1]); err == nil {
						emit0(synCase{src, v, 5})
					}
				}
			}
			return
		}
		if os.Getenv("VERIF_C05_PART") == "w" { // development aid: second generator only
			c.CapNote("VERIF_C05_PART=w: first generator skipped")
			c05GenSets(c, first, emit0)
			return
		}
		genSyn(c, space, emit)
		// pairs of comments
		seen := map[string]bool{}
		for _, t := range synt.Templates("S", pairDepth, false) {
			alts := synt.GapAlts(t)
			if pairDepth > 0 && len(alts) > 8 {
				continue
			}
			for g1 := 0; g1 < len(alts); g1++ {
				for g2 := g1 + 1; g2 < len(alts); g2++ {
					for _, a1 := range synt.CommentAlts(t, g1) {
						for _, a2 := range synt.CommentAlts(t, g2) {
							src := synt.Render2(t, g1, a1, g2, a2)
							if seen[src] {
								continue
							}
							seen[src] = true
							for _, v := range synt.Variants {
								emit(synCase{src, v.Name, 4})
							}
						}
					}
				}
			}
		}
		// shebang cases
		for _, src := range []string{"#!/bin/sh\na\n", "#!/bin/sh\n# c\na # d\n", " #!/bin/sh\na\n", "# c\n#!/bin/sh\na\n", "#!/bin/sh", "#!\n", "#\n!a\n", "a\n#!/bin/sh\n"} {
			for _, v := range synt.Variants {
				emit(synCase{src, v.Name, 0})
			}
		}
		// second generator: sets of comment insertions in composed programs
		c05GenSets(c, first, emit0)
	}
	complete := vc.Run(c, gen, func(t synCase) *vc.Fail {
		ws := synt.GetWorkspace()
		defer synt.PutWorkspace(ws)
		lang := synt.LangByName(t.Variant)
		key := t.Variant + " " + fmt.Sprintf("%q", t.Src)
		if t.Kind == 5 {
			key = "w:" + key // cases of the second generator (c05_gen.go)
			c.Count("w_cases", 1)
		}
		f, err := ws.Parse(t.Src, lang)
		if err != nil {
			c.Count("pairs_not_parsing", 1)
			return nil
		}
		want := commentTexts(f)
		if len(want) == 0 {
			c.Count("pairs_without_comments", 1)
			return nil
		}
		c.Count("pairs_with_comments", 1)
		c.Distinct(strings.Join(want, "\x00") + t.Src)
		var shebang []string
		if len(f.Stmts) > 0 || len(f.Last) > 0 {
			// first comment of the file at 1:1 starting with "!"
			var first *syntax.Comment
			syntax.Walk(f, func(n syntax.Node) bool {
				if cm, ok := n.(*syntax.Comment); ok && (first == nil || cm.Hash.Offset() < first.Hash.Offset()) {
					first = cm
				}
				return true
			})
			if first != nil && first.Hash.Line() == 1 && first.Hash.Col() == 1 && strings.HasPrefix(first.Text, "!") {
				shebang = []string{strings.TrimRight(first.Text, " \t\r")}
			}
		}
		done := map[string]bool{}
		var classFail *vc.Fail
		for _, cfg := range cfgs {
			if cfg.Minify && cfg.Single {
				continue
			}
			var out string
			var perr error
			if fl := guard(key+" "+cfg.String(), func() { out, perr = ws.Print(cfg, f) }); fl != nil {
				ws.Drop()
				return fl
			}
			if perr != nil || done[fmt.Sprint(cfg.Minify)+out] {
				continue
			}
			done[fmt.Sprint(cfg.Minify)+out] = true
			f2, err := ws.Parse(out, lang)
			if err != nil {
				continue // C01's business
			}
			got := commentTexts(f2)
			exp := want
			if cfg.Minify {
				exp = shebang
			}
			if strings.Join(got, "\x00") != strings.Join(exp, "\x00") {
				kind := "comments"
				if cfg.Minify {
					kind = "minify-comments"
				}
				class := c05Class(f, cfg, out, got, exp)
				if class == "singleline-drops-comments" {
					kind = "singleline-comments"
				}
				fl := &vc.Fail{Class: class, Key: key + " " + kind, Msg: fmt.Sprintf("[%s] %s with %s gives %s: comments %q, want %q", t.Variant, shortSrc(t.Src), cfg, shortSrc(out), got, exp)}
				if class == "" {
					return fl
				}
				if classFail == nil {
					classFail = fl // keep looking for an unclassified failure
				}
			}
		}
		if classFail != nil {
			return classFail
		}
		if t.Kind == 4 {
			c.Sample(map[string]any{"src": t.Src, "variant": t.Variant, "comments": want})
		}
		return nil
	})
	c.Finish(complete)
}
