package checks

import (
	"fmt"
	"os"
	"strings"

	"mvdan.cc/sh/v3/syntax"

	"verif/mc/synt"
	"verif/mc/vc"
)

func init() { Registry["C01"] = c01 }

const minifySingleLineMsg = "Minify and SingleLine together are not supported yet"

// reducedConfigs is used for the larger program sets: default, each option
// alone, all layout options together, and the Minify combinations.
func reducedConfigs() []synt.Config {
	return []synt.Config{
		{}, {Indent: 4}, {Indent: 2, CaseInd: true, BinNext: true},
		{BinNext: true}, {CaseInd: true}, {SpaceRed: true}, {KeepPad: true}, {FuncNext: true}, {Minify: true}, {Single: true},
		{Indent: 2, BinNext: true, CaseInd: true, SpaceRed: true, FuncNext: true},
		{BinNext: true, CaseInd: true, SpaceRed: true, FuncNext: true, Single: true},
		{Minify: true, BinNext: true, SpaceRed: true}, {Minify: true, Indent: 4, CaseInd: true, FuncNext: true},
		{Single: true, Indent: 3, SpaceRed: true}, {Minify: true, Single: true},
	}
}

// c01SubConfigs are the configurations used when a statement, command or
// argument word is printed on its own.
var c01SubConfigs = []synt.Config{{}, {Minify: true}, {Single: true}}

func c01(c *vc.Ctx) {
	space := synSpace{Depth: 2, CoreOnly: true, LayoutDepth: 1, Corpus: true, AllVariantsDeep: !c.Quick()}
	fullConfigs := synt.Configs(vc.Pick(c, []uint{0, 4}, []uint{0, 1, 2, 3, 4, 8}), true)
	reduced := reducedConfigs()
	c.Rule = space.describe() + fmt.Sprintf(" + %d hand-written boundary programs of the anchored printer mechanisms (c01_extra.go) in every variant; configurations: all %d option subsets x indents for corpus and depth<=1 programs, %d representative configurations for layout-deviation and depth-2 programs; each parsed program is taken as parsed and, when syntax.Simplify changes it, also simplified; per (program, variant, simplify, configuration): Print succeeds (error iff Minify+SingleLine), output reparses in the variant, canonical dump (no positions/comments, documented cosmetic rewrites normalised) equals the original's; plus each Stmt, Command and call-argument Word of the tree printed alone (default, Minify, SingleLine) must reparse to itself; every divergence of a case is classified, an unclassified one wins; distinct = distinct canonical trees; %s (pairs are printed as files only)", len(c01Extra)+len(synPairSignAtoms()), len(fullConfigs), len(reduced), synPairRule(c.Quick(), len(fullConfigs), len(reduced), len(c01SubConfigs)))
	c.Assumptions = []string{
		"the cosmetic normaliser implements exactly the rewrites named in the property (backquotes, $[ ], brace loops, ${x}->$x under Minify, literals split by escaped newlines, <<- tabs, doubled trailing backslash); the shared dump also treats the deprecated mksh brace form of case (printed as in/esac, like brace loops) and an absent versus empty here-document body as equal",
		"a word printed alone is judged as the sole argument of a dummy command `cmd`",
		"class predicates that use a counterfactual (same tree with the trigger removed, or same text plus a newline) run the real printer and parser again",
	}
	// statement pairs (c01c02_pairs.go): core x core pairs get the larger
	// configuration set of the tier, all pairs the smaller one
	pairCore, pairAll := vc.Pick(c, reduced, fullConfigs), vc.Pick(c, c01SubConfigs, reduced)
	gen := func(emit func(synCase)) {
		if os.Getenv("VERIF_C01_PAIRS_ONLY") == "" {
			genSyn(c, space, emit)
			c01Extras(emit)
		} else {
			c.CapNote("VERIF_C01_PAIRS_ONLY set: only the statement-pair family was run (development aid)")
		}
		genSynPairs(c.Quick(), emit)
	}
	complete := vc.Run(c, gen, func(t synCase) *vc.Fail {
		cfgs := fullConfigs
		switch {
		case t.Kind == synKindPairCore:
			cfgs = pairCore
		case t.Kind == synKindPair:
			cfgs = pairAll
		case t.Kind == synKindPairCtx:
			cfgs = c01SubConfigs
		case t.Kind >= 2:
			cfgs = reduced
		}
		return c01One(c, t, cfgs)
	})
	c.Finish(complete)
}

// c01Div is one observed divergence from the property.
type c01Div struct {
	// Kind: refusal (Minify+SingleLine not refused as documented),
	// print-error, reparse (output does not parse), tree (output parses to a
	// different tree), panic.
	Kind string
	// What was printed: File, Stmt, Command or Word.
	What       string
	Simplified bool
	Cfg        synt.Config
	// Root is the tree that Node belongs to, Index the position of Node in
	// the syntax.Walk order of Root (0 = Root itself).
	Root  *syntax.File
	Node  syntax.Node
	Index int
	Out   string // the text that was reparsed (a word is wrapped as "cmd <word>")
	Err   string
	Orig  string // canonical dump of Node
	Re    string // canonical dump of what came back
}

type c01Ctx struct {
	c    *vc.Ctx
	t    synCase
	lang syntax.LangVariant
	ws   *synt.Workspace
	key  string
	// first unclassified and first classified divergence
	unclassified, classified *vc.Fail
	classes                  map[string]bool
}

func (x *c01Ctx) report(d *c01Div) {
	class := c01Classify(x, d)
	if class == "" && x.unclassified != nil || class != "" && x.classified != nil && x.classes[class] {
		return
	}
	simp := ""
	if d.Simplified {
		simp = " simplified"
	}
	key := fmt.Sprintf("%s %s(%s)%s cfg=%s", x.key, d.Kind, d.What, simp, d.Cfg)
	var msg string
	subject := shortSrc(x.t.Src)
	if d.Simplified {
		subject += " (after Simplify)"
	}
	if d.What != "File" {
		subject = "a " + d.What + " of " + subject + " printed alone"
	}
	switch d.Kind {
	case "refusal":
		msg = fmt.Sprintf("[%s] %s: Minify+SingleLine must be refused, got err=%s", x.t.Variant, subject, d.Err)
	case "print-error":
		msg = fmt.Sprintf("[%s] %s with %s fails: %s", x.t.Variant, subject, d.Cfg, d.Err)
	case "reparse":
		msg = fmt.Sprintf("[%s] %s with %s gives %s which does not parse: %s", x.t.Variant, subject, d.Cfg, shortSrc(d.Out), d.Err)
	case "tree":
		msg = fmt.Sprintf("[%s] %s with %s gives %s which parses to a different tree", x.t.Variant, subject, d.Cfg, shortSrc(d.Out))
	default:
		msg = fmt.Sprintf("[%s] %s with %s: %s: %s", x.t.Variant, subject, d.Cfg, d.Kind, d.Err)
	}
	f := &vc.Fail{Key: key, Msg: msg, Class: class}
	if d.Kind == "tree" {
		f.Detail = map[string]string{"orig": d.Orig, "reparsed": d.Re}
	}
	if class == "" {
		x.unclassified = f
		return
	}
	if x.classes == nil {
		x.classes = map[string]bool{}
	}
	if !x.classes[class] {
		x.classes[class] = true
		x.c.Count("class_"+class, 1)
	}
	if x.classified == nil {
		x.classified = f
	}
}

// c01Pick extracts from the reparsed file the node that corresponds to the
// node that was printed.
func c01Pick(what string, f2 *syntax.File) (any, bool) {
	switch what {
	case "File":
		return f2, true
	case "Stmt":
		if len(f2.Stmts) != 1 {
			return f2.Stmts, false
		}
		return f2.Stmts[0], true
	case "Command":
		if len(f2.Stmts) != 1 {
			return f2.Stmts, false
		}
		st := f2.Stmts[0]
		if st.Negated || st.Background || st.Coprocess || st.Disown || len(st.Redirs) > 0 {
			return st, false
		}
		return st.Cmd, true
	case "Word":
		if len(f2.Stmts) != 1 {
			return f2.Stmts, false
		}
		ce, ok := f2.Stmts[0].Cmd.(*syntax.CallExpr)
		if !ok || len(ce.Args) != 2 || len(ce.Assigns) != 0 || len(f2.Stmts[0].Redirs) != 0 {
			return f2.Stmts[0], false
		}
		return ce.Args[1], true
	}
	return nil, false
}

func c01Wrap(what, out string) string {
	if what == "Word" {
		return "cmd " + out
	}
	return out
}

// roundTrip prints n with cfg, reparses and compares. It returns nil when
// the property holds for this (node, configuration).
func (x *c01Ctx) roundTrip(n syntax.Node, what string, cfg synt.Config, verified map[string]bool) *c01Div {
	d := &c01Div{What: what, Cfg: cfg, Node: n}
	var out string
	var perr error
	if fl := guard("print", func() { out, perr = x.ws.Print(cfg, n) }); fl != nil {
		x.ws.Drop()
		d.Kind, d.Err = "panic", fl.Msg
		return d
	}
	if cfg.Minify && cfg.Single {
		if perr == nil || !strings.Contains(perr.Error(), minifySingleLineMsg) {
			d.Kind, d.Err = "refusal", fmt.Sprint(perr)
			return d
		}
		return nil
	}
	if perr != nil {
		d.Kind, d.Err = "print-error", perr.Error()
		return d
	}
	if verified != nil {
		vk := out
		if cfg.Minify {
			vk = "M" + out
		}
		if verified[vk] {
			return nil
		}
		verified[vk] = true
	}
	d.Out = c01Wrap(what, out)
	var f2 *syntax.File
	var err error
	if fl := guard("reparse", func() { f2, err = x.ws.Parse(d.Out, x.lang) }); fl != nil {
		x.ws.Drop()
		d.Kind, d.Err = "panic", fl.Msg
		return d
	}
	if err != nil {
		d.Kind, d.Err = "reparse", err.Error()
		return d
	}
	o := synt.DumpOpts{Cosmetic: true, Minify: cfg.Minify}
	got, ok := c01Pick(what, f2)
	d.Orig = synt.Dump(n, o)
	if d.Re = synt.Dump(got, o); !ok || d.Re != d.Orig {
		d.Kind = "tree"
		return d
	}
	return nil
}

// c01SubNodes calls f for every node of the tree that the property's last
// sentence covers: each statement, each command and each word used as a
// command argument, with its index in the Walk order.
func c01SubNodes(root *syntax.File, f func(n syntax.Node, what string, index int)) {
	elses := map[*syntax.IfClause]bool{} // else/elif branches are not commands of their own
	idx := -1
	syntax.Walk(root, func(n syntax.Node) bool {
		if n == nil {
			return true
		}
		idx++
		if ic, ok := n.(*syntax.IfClause); ok {
			if ic.Else != nil {
				elses[ic.Else] = true
			}
			if elses[ic] {
				return true
			}
		}
		switch n := n.(type) {
		case *syntax.Stmt:
			f(n, "Stmt", idx)
		case syntax.Command:
			f(n, "Command", idx)
		}
		return true
	})
	// argument words: a second pass keeps the index bookkeeping simple
	idx = -1
	args := map[*syntax.Word]bool{}
	syntax.Walk(root, func(n syntax.Node) bool {
		if n == nil {
			return true
		}
		idx++
		switch n := n.(type) {
		case *syntax.CallExpr:
			for i, w := range n.Args {
				if i > 0 {
					args[w] = true
				}
			}
		case *syntax.Word:
			if args[n] {
				f(n, "Word", idx)
			}
		}
		return true
	})
}

// c01NodeAt returns the node at the given Walk index.
func c01NodeAt(root *syntax.File, index int) syntax.Node {
	idx := -1
	var found syntax.Node
	syntax.Walk(root, func(n syntax.Node) bool {
		if n == nil || found != nil {
			return found == nil
		}
		idx++
		if idx == index {
			found = n
			return false
		}
		return true
	})
	return found
}

// c01Tree parses the case's source again (a fresh, mutable tree) and applies
// Simplify when asked.
func (x *c01Ctx) tree(simplified bool) *syntax.File {
	f, err := x.ws.Parse(x.t.Src, x.lang)
	if err != nil {
		return nil
	}
	if simplified {
		syntax.Simplify(f)
	}
	return f
}

func c01One(c *vc.Ctx, t synCase, cfgs []synt.Config) *vc.Fail {
	ws := synt.GetWorkspace()
	defer synt.PutWorkspace(ws)
	x := &c01Ctx{c: c, t: t, lang: synt.LangByName(t.Variant), ws: ws, key: fmt.Sprintf("[%s] %q", t.Variant, t.Src)}
	f, err := ws.Parse(t.Src, x.lang)
	if err != nil {
		c.Count("pairs_not_parsing", 1)
		return nil // not in the property's domain
	}
	c.Count("pairs_parsing", 1)
	c.Distinct(synt.Dump(f, synt.DumpOpts{Cosmetic: true}))
	trees := []*syntax.File{f}
	if fs := x.tree(false); fs != nil {
		var changed bool
		if fl := guard(x.key+" simplify", func() { changed = syntax.Simplify(fs) }); fl != nil {
			return fl
		}
		if changed {
			c.Count("pairs_changed_by_simplify", 1)
			trees = append(trees, fs)
		}
	}
	// statement pairs are printed as files only: each of their statements is
	// also a program of its own (kind 1) and printed alone there
	subs := !(t.Kind >= 2 && c.Quick()) && t.Kind < synKindPair
	nsub := map[string]int{}
	defer func() {
		for what, n := range nsub {
			c.Count("printed_alone_"+what, n)
		}
	}()
	for ti, root := range trees {
		verified := map[string]bool{}
		for _, cfg := range cfgs {
			c.Eval(1)
			if d := x.roundTrip(root, "File", cfg, verified); d != nil {
				d.Root, d.Simplified = root, ti == 1
				x.report(d)
			}
		}
		if !subs {
			continue
		}
		c01SubNodes(root, func(n syntax.Node, what string, index int) {
			nsub[what]++
			for _, cfg := range c01SubConfigs {
				c.Eval(1)
				if d := x.roundTrip(n, what, cfg, nil); d != nil {
					d.Root, d.Index, d.Simplified = root, index, ti == 1
					x.report(d)
				}
			}
		})
	}
	if x.unclassified != nil {
		return x.unclassified
	}
	if x.classified != nil {
		return x.classified
	}
	if t.Kind >= 2 && t.Kind < synKindPair || t.Kind == synKindPairCore {
		c.Sample(map[string]any{"src": t.Src, "variant": t.Variant})
	}
	return nil
}
