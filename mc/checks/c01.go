package checks

import (
	"fmt"
	"strings"

	"mvdan.cc/sh/v3/syntax"

	"verif/mc/synt"
	"verif/mc/vc"
)

func init() { Registry["C01"] = c01 }

const minifySingleLineMsg = "Minify and SingleLine together are not supported yet"

// reducedConfigs is used for the larger program sets: default, each option
// alone, all layout options together, and the Minify combinations.
func reducedConfigs() []synt.Config {
	return []synt.Config{
		{}, {Indent: 4}, {Indent: 2, CaseInd: true, BinNext: true},
		{BinNext: true}, {CaseInd: true}, {SpaceRed: true}, {KeepPad: true}, {FuncNext: true}, {Minify: true}, {Single: true},
		{Indent: 2, BinNext: true, CaseInd: true, SpaceRed: true, FuncNext: true},
		{BinNext: true, CaseInd: true, SpaceRed: true, FuncNext: true, Single: true},
		{Minify: true, BinNext: true, SpaceRed: true}, {Minify: true, Indent: 4, CaseInd: true, FuncNext: true},
		{Single: true, Indent: 3, SpaceRed: true}, {Minify: true, Single: true},
	}
}

func c01(c *vc.Ctx) {
	space := synSpace{Depth: 2, CoreOnly: true, LayoutDepth: 1, Corpus: true, AllVariantsDeep: !c.Quick()}
	fullConfigs := synt.Configs(vc.Pick(c, []uint{0, 4}, []uint{0, 1, 2, 3, 4, 8}), true)
	reduced := reducedConfigs()
	c.Rule = space.describe() + fmt.Sprintf("; configurations: all %d option subsets x indents for corpus and depth<=1 programs, %d representative configurations for layout-deviation and depth-2 programs; per (program, variant, configuration): Print succeeds (error iff Minify+SingleLine), output reparses in the variant, canonical dump (no positions/comments, documented cosmetic rewrites normalised) equals the original's; plus each Stmt, Command and call-argument Word printed alone must reparse to itself; distinct = distinct canonical trees", len(fullConfigs), len(reduced))
	c.Assumptions = []string{"the cosmetic normaliser implements exactly the rewrites named in the property (backquotes, $[ ], brace loops, ${x}->$x under Minify, literals split by escaped newlines, <<- tabs)"}
	complete := vc.Run(c, func(emit func(synCase)) { genSyn(c, space, emit) }, func(t synCase) *vc.Fail {
		cfgs := fullConfigs
		if t.Kind >= 2 {
			cfgs = reduced
		}
		return c01One(c, t, cfgs)
	})
	c.Finish(complete)
}

func c01One(c *vc.Ctx, t synCase, cfgs []synt.Config) *vc.Fail {
	key := t.Variant + " " + fmt.Sprintf("%q", t.Src)
	ws := synt.GetWorkspace()
	defer synt.PutWorkspace(ws)
	lang := synt.LangByName(t.Variant)
	f, err := ws.Parse(t.Src, lang)
	if err != nil {
		c.Count("pairs_not_parsing", 1)
		return nil // not in the property's domain
	}
	c.Count("pairs_parsing", 1)
	dumps := map[bool]string{}
	dumpOf := func(minify bool) string {
		if d, ok := dumps[minify]; ok {
			return d
		}
		d := synt.Dump(f, synt.DumpOpts{Cosmetic: true, Minify: minify})
		dumps[minify] = d
		return d
	}
	c.Distinct(dumpOf(false))
	verified := map[string]bool{}
	for _, cfg := range cfgs {
		var out string
		var perr error
		if fl := guard(key+" cfg="+cfg.String(), func() { out, perr = ws.Print(cfg, f) }); fl != nil {
			ws.Drop()
			return fl
		}
		if cfg.Minify && cfg.Single {
			if perr == nil || !strings.Contains(perr.Error(), minifySingleLineMsg) {
				return vc.Failf(key+" minify+singleline", "Minify+SingleLine must be refused, got err=%v", perr)
			}
			continue
		}
		if perr != nil {
			return vc.Failf(key+" print-error", "Print(%s) of %s [%s] fails: %v", cfg, shortSrc(t.Src), t.Variant, perr)
		}
		vk := out
		if cfg.Minify {
			vk = "M" + out
		}
		if verified[vk] {
			continue
		}
		verified[vk] = true
		f2, err := ws.Parse(out, lang)
		if err != nil {
			return &vc.Fail{Key: key + " reparse", Msg: fmt.Sprintf("[%s] %s printed with %s gives %s which does not parse: %v", t.Variant, shortSrc(t.Src), cfg, shortSrc(out), err)}
		}
		if d2 := synt.Dump(f2, synt.DumpOpts{Cosmetic: true, Minify: cfg.Minify}); d2 != dumpOf(cfg.Minify) {
			return &vc.Fail{Key: key + " tree", Msg: fmt.Sprintf("[%s] %s printed with %s gives %s which parses to a different tree", t.Variant, shortSrc(t.Src), cfg, shortSrc(out)),
				Detail: map[string]string{"orig": dumpOf(cfg.Minify), "reparsed": d2}}
		}
	}
	// sub-node printing, with the default and a Minify configuration
	if t.Kind >= 2 && c.Quick() {
		return nil
	}
	var fail *vc.Fail
	sub := func(n syntax.Node, what string, wrap func(string) string, pick func(*syntax.File) (any, bool)) {
		if fail != nil {
			return
		}
		for _, cfg := range []synt.Config{{}, {Minify: true}} {
			var out string
			var perr error
			if fl := guard(key+" sub", func() { out, perr = ws.Print(cfg, n) }); fl != nil {
				ws.Drop()
				fail = fl
				return
			}
			if perr != nil {
				fail = vc.Failf(key+" sub-print-error "+what, "printing a %s of %s alone fails: %v", what, shortSrc(t.Src), perr)
				return
			}
			src := wrap(out)
			f2, err := ws.Parse(src, lang)
			if err != nil {
				fail = &vc.Fail{Key: key + " sub-reparse " + what, Msg: fmt.Sprintf("[%s] a %s of %s printed alone (%s) gives %s which does not parse: %v", t.Variant, what, shortSrc(t.Src), cfg, shortSrc(src), err)}
				return
			}
			got, ok := pick(f2)
			o := synt.DumpOpts{Cosmetic: true, Minify: cfg.Minify}
			if !ok || synt.Dump(got, o) != synt.Dump(n, o) {
				fail = &vc.Fail{Key: key + " sub-tree " + what, Msg: fmt.Sprintf("[%s] a %s of %s printed alone (%s) gives %s which parses to a different node", t.Variant, what, shortSrc(t.Src), cfg, shortSrc(src)),
					Detail: map[string]string{"orig": synt.Dump(n, o), "reparsed": synt.Dump(got, o)}}
				return
			}
		}
	}
	ident := func(s string) string { return s }
	oneStmt := func(f2 *syntax.File) (any, bool) {
		if len(f2.Stmts) != 1 {
			return f2.Stmts, false
		}
		return f2.Stmts[0], true
	}
	elses := map[*syntax.IfClause]bool{} // else/elif branches are not commands of their own
	syntax.Walk(f, func(n syntax.Node) bool {
		if ic, ok := n.(*syntax.IfClause); ok && ic.Else != nil {
			elses[ic.Else] = true
		}
		return true
	})
	syntax.Walk(f, func(n syntax.Node) bool {
		if ic, ok := n.(*syntax.IfClause); ok && elses[ic] {
			return true
		}
		switch n := n.(type) {
		case *syntax.Stmt:
			sub(n, "Stmt", ident, oneStmt)
		case *syntax.CallExpr:
			for i, w := range n.Args {
				if i == 0 {
					continue
				}
				sub(w, "Word", func(s string) string { return "cmd " + s }, func(f2 *syntax.File) (any, bool) {
					if len(f2.Stmts) != 1 {
						return nil, false
					}
					ce, ok := f2.Stmts[0].Cmd.(*syntax.CallExpr)
					if !ok || len(ce.Args) != 2 {
						return f2.Stmts[0].Cmd, false
					}
					return ce.Args[1], true
				})
			}
		}
		if cmd, ok := n.(syntax.Command); ok {
			sub(cmd, "Command", ident, func(f2 *syntax.File) (any, bool) {
				if len(f2.Stmts) != 1 {
					return f2.Stmts, false
				}
				st := f2.Stmts[0]
				if st.Negated || st.Background || st.Coprocess || st.Disown || len(st.Redirs) > 0 {
					return st, false
				}
				return st.Cmd, true
			})
		}
		return fail == nil
	})
	if fail != nil {
		return fail
	}
	if t.Kind >= 2 {
		c.Sample(map[string]any{"src": t.Src, "variant": t.Variant})
	}
	return nil
}
