package checks

import (
	"bytes"
	"context"
	"fmt"
	"runtime/debug"
	"strings"
	"sync"
	"time"

	"mvdan.cc/sh/v3/expand"
	"mvdan.cc/sh/v3/interp"
	"mvdan.cc/sh/v3/syntax"
)

var c2xParsers = sync.Pool{New: func() any { return syntax.NewParser(syntax.Variant(syntax.LangBash)) }}

// c2xParse parses fixed harness text (preludes, epilogues) once; the
// resulting file is only read afterwards and shared by all workers.
func c2xParse(src string) *syntax.File {
	f, err := syntax.NewParser(syntax.Variant(syntax.LangBash)).Parse(strings.NewReader(src), "")
	if err != nil {
		panic("harness text does not parse: " + err.Error())
	}
	return f
}

// c2xRun runs, in one fresh interp.Runner (bash language, empty
// environment, no stdin, external commands disabled), the pre-parsed file
// pre (may be nil), then src, then the pre-parsed file post (may be nil), as
// one program (the statement lists are concatenated). The outcome is rendered as
// "<status>:<stdout>" — the format oracle.BashEvalBatch compares with — or
// as a text starting with an upper-case word for parse errors, panics and
// non-exit errors (which can never equal a bash result).
//
// It does what oracle.RunInterp(pre+src+post, InterpOpts{NoExec: true}) does,
// minus the stdin pipe and its goroutine and minus re-parsing the fixed
// harness text, which together cost ~300 µs per case; C21–C23 run millions of
// programs and none of them reads stdin (C23 feeds `read` through
// here-strings).
func c2xRun(pre *syntax.File, src string, post *syntax.File, params ...string) (out string) {
	defer func() {
		if r := recover(); r != nil {
			out = fmt.Sprintf("PANIC %v | %s", r, c2xPanicSite(string(debug.Stack())))
		}
	}()
	parser := c2xParsers.Get().(*syntax.Parser)
	f, err := parser.Parse(strings.NewReader(src), "")
	c2xParsers.Put(parser)
	if err != nil {
		return "PARSE-ERROR " + err.Error()
	}
	var stdout, stderr bytes.Buffer
	opts := []interp.RunnerOption{
		interp.Env(expand.ListEnviron()),
		interp.Dir("/"),
		interp.StdIO(nil, &stdout, &stderr),
		interp.ExecHandlers(func(next interp.ExecHandlerFunc) interp.ExecHandlerFunc {
			return func(ctx context.Context, args []string) error {
				return interp.ExitStatus(127)
			}
		}),
	}
	if params != nil {
		opts = append(opts, interp.Params(append([]string{"--"}, params...)...))
	}
	r, err := interp.New(opts...)
	if err != nil {
		return "FATAL interp.New: " + err.Error()
	}
	// a hang guard, not an oracle
	ctx, cancel := context.WithTimeout(context.Background(), 20*time.Second)
	defer cancel()
	// one file made of the shared statements and the case's own
	all := &syntax.File{}
	if pre != nil {
		all.Stmts = append(all.Stmts, pre.Stmts...)
	}
	all.Stmts = append(all.Stmts, f.Stmts...)
	if post != nil {
		all.Stmts = append(all.Stmts, post.Stmts...)
	}
	status := 0
	if err := r.Run(ctx, all); err != nil {
		st, ok := interp.IsExitStatus(err)
		if !ok {
			return "FATAL " + err.Error()
		}
		status = int(st)
	}
	return fmt.Sprintf("%d:%s", status, stdout.String())
}

// c2xPanicSite extracts the first /repo frame of a stack trace.
func c2xPanicSite(stack string) string {
	for _, ln := range strings.Split(stack, "\n") {
		ln = strings.TrimSpace(ln)
		if strings.HasPrefix(ln, "/repo/") {
			if i := strings.IndexByte(ln, ' '); i > 0 {
				ln = ln[:i]
			}
			return ln
		}
	}
	return "?"
}
