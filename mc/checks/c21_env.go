package checks

import (
	"errors"
	"fmt"
	"sort"
	"strconv"
	"strings"

	"mvdan.cc/sh/v3/expand"
	"mvdan.cc/sh/v3/syntax"

	"verif/mc/vc"
)

// c21Env is an expand.WriteEnviron holding a C21 state: named variables
// plus the positional parameters, served the way interp.Runner serves them
// ("@" and "*" as an indexed list, "#", "0", "1".."9").
type c21Env struct {
	vars   map[string]expand.Variable
	params []string
}

func (e *c21Env) Get(name string) expand.Variable {
	switch name {
	case "@", "*":
		return expand.Variable{Set: true, Kind: expand.Indexed, List: e.params}
	case "#":
		return expand.Variable{Set: true, Kind: expand.String, Str: strconv.Itoa(len(e.params))}
	case "0":
		return expand.Variable{Set: true, Kind: expand.String, Str: "gosh"}
	case "1", "2", "3", "4", "5", "6", "7", "8", "9":
		if i := int(name[0] - '1'); i < len(e.params) {
			return expand.Variable{Set: true, Kind: expand.String, Str: e.params[i]}
		}
		return expand.Variable{}
	}
	return e.vars[name]
}

func (e *c21Env) Each(f func(name string, vr expand.Variable) bool) {
	names := make([]string, 0, len(e.vars))
	for n := range e.vars {
		names = append(names, n)
	}
	sort.Strings(names)
	for _, n := range names {
		if !f(n, e.vars[n]) {
			return
		}
	}
}

func (e *c21Env) Set(name string, vr expand.Variable) error {
	if name == "" {
		return fmt.Errorf("empty name")
	}
	if !vr.IsSet() {
		delete(e.vars, name)
		return nil
	}
	e.vars[name] = vr
	return nil
}

func c21NewEnv(st *c21State) *c21Env {
	e := &c21Env{vars: map[string]expand.Variable{}}
	for _, kv := range c21IndirVars {
		e.vars[kv[0]] = expand.Variable{Set: true, Kind: expand.String, Str: kv[1]}
	}
	e.vars[c21WordVar[0]] = expand.Variable{Set: true, Kind: expand.String, Str: c21WordVar[1]}
	switch st.Kind {
	case "scalar":
		if st.Scalar != nil {
			e.vars["x"] = expand.Variable{Set: true, Kind: expand.String, Str: *st.Scalar}
		}
	case "indexed":
		e.vars["a"] = expand.Variable{Set: true, Kind: expand.Indexed, List: append([]string{}, st.List...), Indexes: append([]int(nil), st.Indexes...)}
	case "assoc":
		m := map[string]string{}
		for k, v := range st.Map {
			m[k] = v
		}
		e.vars["A"] = expand.Variable{Set: true, Kind: expand.Associative, Map: m}
	case "pos":
		e.params = append([]string{}, st.List...)
	}
	return e
}

func c21ParseWords(src string) ([]*syntax.Word, error) {
	p := syntax.NewParser(syntax.Variant(syntax.LangBash))
	var words []*syntax.Word
	for w, err := range p.WordsSeq(strings.NewReader(src)) {
		if err != nil {
			return nil, err
		}
		words = append(words, w)
	}
	return words, nil
}

// c21ExpandFields evaluates the case's words with expand.Fields over an
// Environ holding the same state, rendered like the interpreter's result
// (an error the Runner treats as fatal is "1:", any other error "0:", which
// is what a Runner prints when it abandons the command). ok is false when the
// words cannot be parsed on their own.
func c21ExpandFields(c *vc.Ctx, t c21Case) (res string, ok bool) {
	words, err := c21ParseWords(t.words())
	if err != nil {
		return "", false
	}
	c.Count("expand_fields_cases", 1)
	defer func() {
		if r := recover(); r != nil {
			res, ok = fmt.Sprintf("PANIC %v", r), true
		}
	}()
	cfg := &expand.Config{Env: c21NewEnv(c21StateByID[t.State])} // nil ReadDir: no globbing
	fields, err := expand.Fields(cfg, words...)
	if err != nil {
		var up expand.UnsetParameterError
		if errors.As(err, &up) || err.Error() == "invalid indirect expansion" {
			return "1:", true
		}
		return "0:", true
	}
	return "0:" + c21Render(fields), true
}

func c21Render(fields []string) string {
	s := strconv.Itoa(len(fields))
	if len(fields) > 0 {
		s += "<" + strings.Join(fields, "><") + ">"
	}
	return s
}
