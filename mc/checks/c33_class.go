package checks

// Classes of C33. Op-level defects of the interpreter are described as
// switches of a "defect model": the reference model with one known wrong
// behaviour built in. A failure gets the class of a defect (or pair of
// defects) only if the interpreter's observations equal that defect model's
// exactly; anything else stays unclassified.

const (
	// a[i]+=v on an existing array stores "" in a[i] (on a scalar: the whole
	// scalar plus v) instead of appending to a[i]
	c33BugAppset = 1 << iota
	// an array created by a[i]=v / a[i]+=v on a variable without a value, or
	// by mapfile, is not marked as set: `unset a` leaves it alone
	c33BugNotSet
	// `declare -a a` (like `local a`) inside a function keeps the value of
	// the outer variable instead of starting a new, empty one
	c33BugLocal
)

func c33BugApply(s c33State, op c33Op, bugs int) (c33State, bool) {
	if bugs&c33BugAppset != 0 && op.K == "appset" && s.Kind != c33Unset {
		base := map[int]string{}
		for k, v := range s.view() {
			base[k] = v
		}
		k, ok := c33Resolve(base, op.I)
		if !ok {
			return s.clone(), true
		}
		base[k] = ""
		if s.Kind == c33Scalar {
			base[k] = s.S + op.V
		}
		return c33State{Kind: c33Array, M: base, NotSet: s.NotSet || (bugs&c33BugNotSet != 0 && s.Kind == c33Declared)}, false
	}
	if bugs&c33BugNotSet == 0 {
		return s.apply(op)
	}
	if op.K == "unset" && s.NotSet {
		return s.clone(), false
	}
	t, failed := s.apply(op)
	switch op.K {
	case "set", "appset":
		t.NotSet = !failed && (s.NotSet || s.Kind == c33Unset || s.Kind == c33Declared)
		if failed {
			t.NotSet = s.NotSet
		}
	case "unsetelem", "declare", "str":
		t.NotSet = s.NotSet
	default:
		t.NotSet = false
	}
	if len(op.Text) > 7 && op.Text[:7] == "mapfile" {
		t.NotSet = true
	}
	return t, failed
}

func c33FatalClass(fatal string) string { return "" }

func c33Same(want, got []string) bool {
	for i := range want {
		// "~": not compared, or (in got) a step that was not executed
		if want[i] != c33DontCare && c33At(got, i) != c33DontCare && c33At(got, i) != want[i] {
			return false
		}
	}
	return true
}

func c33Class(ops []c33Op, ctx string, pts []c33State, want, got []string, diffs []int) string {
	nops := len(ops)
	items := c33ItemsFor(ctx)
	ptOf := func(pos int) int { return (pos - nops) / len(items) } // observation point of a token
	all := func(pred func(pos int) bool) bool {
		for _, d := range diffs {
			if !pred(d) {
				return false
			}
		}
		return true
	}
	obsOnly := all(func(pos int) bool { return pos >= nops })
	var last c33Op
	if nops > 0 {
		last = ops[nops-1]
	}

	// the variable is a scalar wherever the observations differ: the array
	// syntax applied to a scalar ("${!a[@]}" = 0, string slicing, ...)
	if obsOnly && all(func(pos int) bool { return pts[ptOf(pos)].Kind == c33Scalar }) {
		return "scalar-observed-with-array-syntax"
	}
	switch ctx {
	case "neglen":
		// bash: "substring expression < 0"; sh: some elements
		if obsOnly && all(func(pos int) bool { return want[pos] == c33Err && got[pos] != c33Err && got[pos] != "X" }) {
			return "slice-negative-length-accepted"
		}
		return ""
	case "isset":
		if obsOnly && all(func(pos int) bool { return want[pos] == "0" && got[pos] == "1" }) {
			return "isset-elem-always-false"
		}
		return ""
	case "keys":
		if k := pts[0].Kind; obsOnly && (k == c33Unset || k == c33Declared) && got[nops] == c33Err {
			return "keys-of-valueless-var-is-fatal"
		}
		return ""
	case "local":
		if c33Same(c33Global.observe(items, ctx), got) {
			return "local-keeps-outer-value"
		}
		return ""
	}
	if nops == 0 {
		return ""
	}
	// `declare -a a` gives an unset variable no array type, so a later
	// a=s / a+=V makes a scalar
	if last.K == "appstr" || last.K == "str" {
		st := c33Initial(ctx)
		for _, op := range ops[:nops-1] {
			st, _ = st.apply(op)
		}
		if st.Kind == c33Declared && obsOnly {
			return "declared-array-assigned-as-scalar"
		}
	}
	switch last.K {
	case "unsetelem":
		// unset 'a[-9]' with a bad subscript: diagnostic but status 0
		if len(diffs) == 1 && diffs[0] == nops-1 && want[nops-1] == "s1" && got[nops-1] == "s0" {
			return "unset-bad-subscript-status-0"
		}
	case "appstr":
		// a+=v inside a subshell, array without element 0: the parent's
		// array is modified through the shared backing store
		if ctx == "sub" && all(func(pos int) bool { return pos >= nops && ptOf(pos) == 1 }) {
			if b := pts[1]; b.Kind == c33Array {
				if _, has0 := b.M[0]; !has0 {
					return "subshell-append-corrupts-parent-array"
				}
			}
		}
	}
	for _, d := range []struct {
		bugs int
		name string
	}{
		{c33BugAppset, "elem-append-stores-empty-string"},
		{c33BugNotSet, "unset-ignores-array-not-marked-set"},
		{c33BugLocal, "local-keeps-outer-value"},
		{c33BugAppset | c33BugNotSet, "elem-append-stores-empty-string+unset-ignores-array-not-marked-set"},
		{c33BugAppset | c33BugLocal, "elem-append-stores-empty-string+local-keeps-outer-value"},
	} {
		if alt, _ := c33ExpectWith(ops, ctx, d.bugs); c33Same(alt, got) {
			return d.name
		}
	}
	if last.K == "appset" {
		// a[i]+=v first inserts v as element 0 into the array's own backing
		// store (see subshell-append-corrupts-parent-array), then overwrites
		// a[i] in a copy taken with the old length: elements are lost
		st := c33Initial(ctx)
		for _, op := range ops[:nops-1] {
			st, _ = st.apply(op)
		}
		if _, has0 := st.M[0]; st.Kind == c33Array && len(st.M) > 0 && !has0 {
			return "elem-append-corrupts-array-without-element-0"
		}
	}
	return ""
}
