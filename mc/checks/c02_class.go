package checks

import (
	"slices"
	"strings"

	"mvdan.cc/sh/v3/syntax"

	"verif/mc/synt"
)

// Classification of non-idempotent formattings (property C02).
//
// Every class is the conjunction of
//   - a syntactic shape of the INPUT (a predicate on Parse(src)),
//   - a condition on the configuration, and
//   - what changes between the first (P1) and the second (P2) formatting.
//
// A failure matching no class stays an unclassified VIOLATION.
type c02Class struct {
	name string
	// cfg restricts the configurations (nil = any).
	cfg func(cfg synt.Config, simplify bool) bool
	// shape is evaluated on the parsed input.
	shape func(x *c02Input) bool
	// change is evaluated on the two outputs.
	change func(x *c02Input, p1, p2 string) bool
}

type c02Input struct {
	src  string
	lang syntax.LangVariant
	f    *syntax.File
	cfg  synt.Config
}

var c02Classes = []c02Class{
	{
		// Parser: selectClause (unlike forClause) does not move the comments
		// seen before `do` to the select statement, so they become leading
		// comments of the first body statement with a position before `do`.
		// The printer emits them after that statement ("do a # c"); on the
		// second pass they are ordinary trailing comments, which force the
		// body onto its own lines.
		name:  "select-comment-before-do",
		cfg:   func(cfg synt.Config, _ bool) bool { return !cfg.Minify },
		shape: func(x *c02Input) bool { return c02SelectCommentBeforeDo(x.f, false) },
		change: func(_ *c02Input, p1, p2 string) bool {
			// only the layout changes (whitespace, escaped newlines)
			return slices.Equal(c02Tokens(p1), c02Tokens(p2))
		},
	},
	{
		// Same parser defect, body statement is a bare `time`: the first
		// formatting prints "time # c", and the parser drops a comment that
		// follows a bare `time` (C05 class comment-after-time-lost), so the
		// second formatting additionally loses the comment.
		name:  "select-comment-before-do-lost-after-bare-time",
		cfg:   func(cfg synt.Config, _ bool) bool { return !cfg.Minify },
		shape: func(x *c02Input) bool { return c02SelectCommentBeforeDo(x.f, true) },
		change: func(x *c02Input, p1, p2 string) bool {
			t1, t2 := c02Tokens(c02DropComments(p1)), c02Tokens(p2)
			if x.cfg.Single {
				// "do time # c\ndone" becomes "do time; done"
				t2 = c02Tokens(strings.ReplaceAll(p2, "time; done", "time done"))
			}
			return strings.Contains(p1, "time #") && !strings.Contains(p2, "#") && slices.Equal(t1, t2)
		},
	},
	{
		// Parser: `coproc a=1 b=2 c` takes `a=1` for the coproc name, then
		// prepends it to the ARGUMENTS of the call `b=2 c`; the printer prints
		// assignments before arguments, giving "coproc b=2 a=1 c", which then
		// parses differently again (b=2 the "name", a=1 the assignment).
		name:  "coproc-leading-assignment-taken-as-name",
		shape: func(x *c02Input) bool { return c02CoprocAssignAsArg(x.f) },
		change: func(_ *c02Input, p1, p2 string) bool {
			l1, l2 := strings.Split(p1, "\n"), strings.Split(p2, "\n")
			if len(l1) != len(l2) {
				return false
			}
			for i := range l1 {
				if l1[i] == l2[i] {
					continue
				}
				// the words after coproc are permuted, nothing else
				a, b := strings.Fields(l1[i]), strings.Fields(l2[i])
				if !strings.Contains(l1[i], "coproc") || slices.Equal(a, b) {
					return false
				}
				slices.Sort(a)
				slices.Sort(b)
				if !slices.Equal(a, b) {
					return false
				}
			}
			return true
		},
	},
	{
		// Printer.closingParen chooses between "))" and ") )" from the SOURCE
		// lines of the two parentheses of a subshell / command substitution
		// whose only statement ends with ")" (openPos.Line == closePos.Line),
		// not from the printed layout. When the printed layout differs from
		// the source's (the inner statement is broken over several lines by
		// the printer, or joined onto one line by Minify), the second pass
		// decides differently.
		name:  "nested-closing-parens-space-from-source-lines",
		shape: func(x *c02Input) bool { return c02NestedCloseParen(x.f) },
		change: func(_ *c02Input, p1, p2 string) bool {
			return c02JoinCloseParens(p1) == c02JoinCloseParens(p2)
		},
	},
	{
		// Printer.command (Subshell) writes the space of "( (" as soon as the
		// inner statement starts with "(" on the line of the outer "(", even
		// when nestedStmts then decides to break the line: "( " + newline. The
		// second pass sees the inner statement on the next line and writes no
		// space.
		name:  "nested-opening-parens-trailing-space",
		cfg:   func(cfg synt.Config, _ bool) bool { return !cfg.Single },
		shape: func(x *c02Input) bool { return c02NestedOpenParenSameLine(x.f) },
		change: func(_ *c02Input, p1, p2 string) bool {
			return strings.Contains(p1, "( \n") && strings.ReplaceAll(p1, "( \n", "(\n") == p2
		},
	},
	{
		// Simplify: removeNegateTest knows == and != but not the short form =
		// (the walk rewrites = into == only after the enclosing negation was
		// inspected), and after removing a double negation it does not look
		// at what is left: `[[ ! a = b ]]` and `[[ ! ! ! -n a ]]` need two
		// runs of shfmt -s.
		name: "simplify-negated-test-two-steps",
		cfg:  func(_ synt.Config, simplify bool) bool { return simplify },
		shape: func(x *c02Input) bool {
			return c02Negation(x.f, func(t syntax.TestExpr) bool {
				if b, ok := t.(*syntax.BinaryTest); ok && b.Op == syntax.TsMatchShort {
					return true // ! a = b
				}
				// ! ! <something a negation merges with>
				u, ok := t.(*syntax.UnaryTest)
				return ok && u.Op == syntax.TsNot && c02MergeableNegation(u.X)
			})
		},
		change: func(x *c02Input, p1, p2 string) bool {
			// P1 still holds a negation that Simplify merges; P2 no longer
			f1, err1 := synt.Parse(p1, x.lang)
			f2, err2 := synt.Parse(p2, x.lang)
			return err1 == nil && err2 == nil && c02Negation(f1, c02MergeableNegand) && !c02Negation(f2, c02MergeableNegand)
		},
	},
	{
		// A command substitution (in practice: backquotes) whose closing
		// delimiter is on the line where the here-document of its last
		// statement ends, or on the line of a trailing comment: nestedStmts
		// sees no line break before the closing delimiter and keeps
		// "$(cmd <<EOF" / "$(cmd # c" on one line, but the pending
		// here-document or comment forces ")" onto its own line, so the second
		// pass does see the break and moves the statement to its own line too.
		name:  "cmdsubst-closed-on-line-of-heredoc-end-or-comment",
		cfg:   func(cfg synt.Config, _ bool) bool { return !cfg.Single && !cfg.Minify },
		shape: func(x *c02Input) bool { return c02ClosedOnForcedNewlineLine(x.f) },
		change: func(_ *c02Input, p1, p2 string) bool {
			// only white space is added (a line break and indentation after "$(")
			return strings.Count(p2, "\n") > strings.Count(p1, "\n") &&
				strings.Join(strings.Fields(p1), "") == strings.Join(strings.Fields(p2), "")
		},
	},
	{
		// SwitchCaseIndent: comments between the last case item and esac that
		// are aligned with esac (CaseClause.Last) are printed at the items'
		// level, one deeper than esac. The parser assigns trailing comments by
		// column: not aligned with esac any more, they now belong to the last
		// item and are printed yet another level deeper.
		name:  "case-indent-comment-before-esac-changes-owner",
		cfg:   func(cfg synt.Config, _ bool) bool { return cfg.CaseInd && !cfg.Minify },
		shape: func(x *c02Input) bool { return c02CaseLastComments(x.f) },
		change: func(_ *c02Input, p1, p2 string) bool {
			// only the indentation of comment lines changes
			norm := func(p string) string {
				lines := strings.Split(p, "\n")
				for i, l := range lines {
					if t := strings.TrimLeft(l, " \t"); strings.HasPrefix(t, "#") {
						lines[i] = t
					}
				}
				return strings.Join(lines, "\n")
			}
			return norm(p1) == norm(p2)
		},
	},
	{
		// SingleLine: a here-document inside a command substitution inside a
		// here-document BODY. The closing ")" does not flush the pending inner
		// here-document in single-line mode, and the rest of the outer body is
		// written raw, so the inner body lands after the outer delimiter: P1
		// is already a different program (also a C01 failure), and printing it
		// again moves the text once more.
		name:  "singleline-heredoc-in-cmdsubst-in-heredoc-body",
		cfg:   func(cfg synt.Config, _ bool) bool { return cfg.Single },
		shape: func(x *c02Input) bool { return c02HeredocInHeredocBody(x.f) },
		change: func(x *c02Input, p1, p2 string) bool {
			f1, err := synt.Parse(p1, x.lang)
			if err != nil {
				return false
			}
			o := synt.DumpOpts{Cosmetic: true}
			return synt.Dump(f1, o) != synt.Dump(x.f, o)
		},
	},
	{
		// SingleLine: `cmd <<EOF # comment` followed by another statement,
		// with a command substitution in the body. P1 is "cmd <<EOF; # comment";
		// on the second pass the comment, now pending for the NEXT statement,
		// is flushed at the first newline printed, which is inside the command
		// substitution of the here-document body.
		name:  "singleline-heredoc-trailing-comment-moves-into-body",
		cfg:   func(cfg synt.Config, _ bool) bool { return cfg.Single },
		shape: func(x *c02Input) bool { return c02HeredocTrailingComment(x.f) != "" },
		change: func(x *c02Input, p1, p2 string) bool {
			com := c02HeredocTrailingComment(x.f)
			on := func(p string) bool {
				for _, l := range strings.Split(p, "\n") {
					if strings.Contains(l, "<<") && strings.Contains(l, com) {
						return true
					}
				}
				return false
			}
			return on(p1) && !on(p2) && strings.Contains(p2, com)
		},
	},
}

// c02Classify names the family of a non-idempotent formatting, or "".
func c02Classify(src string, lang syntax.LangVariant, cfg synt.Config, simplify bool, p1, p2 string) string {
	f, err := synt.Parse(src, lang)
	if err != nil {
		return ""
	}
	x := &c02Input{src: src, lang: lang, f: f, cfg: cfg}
	for _, cl := range c02Classes {
		if cl.cfg != nil && !cl.cfg(cfg, simplify) {
			continue
		}
		if cl.shape(x) && cl.change(x, p1, p2) {
			return cl.name
		}
	}
	return ""
}

// c02Tokens is the text split at whitespace, with escaped newlines removed.
func c02Tokens(s string) []string {
	return strings.Fields(strings.ReplaceAll(s, "\\\n", " "))
}

// c02DropComments removes " # ..." / "\t# ..." trailing comments (good enough
// for the outputs of the one class that uses it).
func c02DropComments(s string) string {
	lines := strings.Split(s, "\n")
	for i, l := range lines {
		if j := strings.Index(l, " #"); j >= 0 {
			lines[i] = l[:j]
		} else if j := strings.Index(l, "\t#"); j >= 0 {
			lines[i] = l[:j]
		}
	}
	return strings.Join(lines, "\n")
}

func c02JoinCloseParens(s string) string {
	for strings.Contains(s, ") )") {
		s = strings.ReplaceAll(s, ") )", "))")
	}
	return s
}

func c02IsHeredoc(r *syntax.Redirect) bool {
	return r.Op == syntax.Hdoc || r.Op == syntax.DashHdoc
}

func c02HasHeredoc(n syntax.Node) bool {
	found := false
	syntax.Walk(n, func(n syntax.Node) bool {
		if r, ok := n.(*syntax.Redirect); ok && c02IsHeredoc(r) {
			found = true
		}
		return !found
	})
	return found
}

// c02SelectCommentBeforeDo: a select clause whose first body statement carries
// a comment located before the `do` keyword. bareTime additionally requires
// that statement to be a `time` without a command.
func c02SelectCommentBeforeDo(f *syntax.File, bareTime bool) bool {
	found := false
	syntax.Walk(f, func(n syntax.Node) bool {
		fc, ok := n.(*syntax.ForClause)
		if !ok || !fc.Select || len(fc.Do) == 0 {
			return !found
		}
		st := fc.Do[0]
		tc, isTime := st.Cmd.(*syntax.TimeClause)
		if bareTime != (isTime && tc.Stmt == nil) {
			return !found
		}
		for _, c := range st.Comments {
			if c.Pos().Offset() < fc.DoPos.Offset() {
				found = true
			}
		}
		return !found
	})
	return found
}

// c02CoprocAssignAsArg: a coproc clause without name whose call has an
// argument located before its first assignment.
func c02CoprocAssignAsArg(f *syntax.File) bool {
	found := false
	syntax.Walk(f, func(n syntax.Node) bool {
		cc, ok := n.(*syntax.CoprocClause)
		if !ok || cc.Name != nil || cc.Stmt == nil {
			return !found
		}
		var call *syntax.CallExpr
		syntax.Walk(cc.Stmt, func(n syntax.Node) bool { // first call of the pipeline
			if ce, ok := n.(*syntax.CallExpr); ok && call == nil {
				call = ce
			}
			return call == nil
		})
		if call != nil && len(call.Assigns) > 0 && len(call.Args) > 0 &&
			call.Args[0].Pos().Offset() < call.Assigns[0].Pos().Offset() {
			found = true
		}
		return !found
	})
	return found
}

func c02StartsWithLparen(n syntax.Node) bool {
	switch n := n.(type) {
	case *syntax.Stmt:
		if n.Negated || n.Cmd == nil {
			return false
		}
		return c02StartsWithLparen(n.Cmd)
	case *syntax.BinaryCmd:
		return c02StartsWithLparen(n.X)
	case *syntax.Subshell, *syntax.ArithmCmd:
		return true
	}
	return false
}

func c02EndsWithRparen(n syntax.Node) bool {
	switch n := n.(type) {
	case *syntax.Stmt:
		if n.Background || n.Coprocess || n.Disown || len(n.Redirs) > 0 || n.Cmd == nil {
			return false
		}
		return c02EndsWithRparen(n.Cmd)
	case *syntax.BinaryCmd:
		return c02EndsWithRparen(n.Y)
	case *syntax.Subshell, *syntax.ArithmCmd:
		return true
	}
	return false
}

// c02NestedCloseParen: a subshell or $( ) with exactly one statement, which
// ends with ")" and no trailing comments (the inputs of closingParen's rule).
func c02NestedCloseParen(f *syntax.File) bool {
	found := false
	syntax.Walk(f, func(n syntax.Node) bool {
		var stmts []*syntax.Stmt
		var last []syntax.Comment
		switch n := n.(type) {
		case *syntax.Subshell:
			stmts, last = n.Stmts, n.Last
		case *syntax.CmdSubst:
			if n.TempFile || n.ReplyVar {
				return !found
			}
			stmts, last = n.Stmts, n.Last
		default:
			return !found
		}
		if len(stmts) == 1 && len(last) == 0 && c02EndsWithRparen(stmts[0]) {
			found = true
		}
		return !found
	})
	return found
}

// c02NestedOpenParenSameLine: a subshell whose first statement starts with "("
// on the line of the subshell's own "(".
func c02NestedOpenParenSameLine(f *syntax.File) bool {
	found := false
	syntax.Walk(f, func(n syntax.Node) bool {
		if sub, ok := n.(*syntax.Subshell); ok && len(sub.Stmts) > 0 &&
			c02StartsWithLparen(sub.Stmts[0]) && sub.Lparen.Line() == sub.Stmts[0].Pos().Line() {
			found = true
		}
		return !found
	})
	return found
}

// c02Negation: some [[ ]] negation whose operand satisfies f.
func c02Negation(f *syntax.File, pred func(syntax.TestExpr) bool) bool {
	found := false
	syntax.Walk(f, func(n syntax.Node) bool {
		if u, ok := n.(*syntax.UnaryTest); ok && u.Op == syntax.TsNot && pred(u.X) {
			found = true
		}
		return !found
	})
	return found
}

// c02MergeableNegand: Simplify merges a negation with this operand.
func c02MergeableNegand(t syntax.TestExpr) bool {
	switch t := t.(type) {
	case *syntax.UnaryTest:
		return t.Op == syntax.TsNot || t.Op == syntax.TsEmpStr || t.Op == syntax.TsNempStr
	case *syntax.BinaryTest:
		return t.Op == syntax.TsMatch || t.Op == syntax.TsNoMatch
	}
	return false
}

// c02MergeableNegation: a negation that Simplify merges with its operand
// (also after = became ==).
func c02MergeableNegation(t syntax.TestExpr) bool {
	u, ok := t.(*syntax.UnaryTest)
	if !ok || u.Op != syntax.TsNot {
		return false
	}
	if b, ok := u.X.(*syntax.BinaryTest); ok && b.Op == syntax.TsMatchShort {
		return true
	}
	return c02MergeableNegand(u.X)
}

// c02ClosedOnForcedNewlineLine: a command substitution whose closing
// delimiter is on the line where its last statement ends, that statement
// holding a here-document (then the substitution spans several lines) or
// being followed by a comment.
func c02ClosedOnForcedNewlineLine(f *syntax.File) bool {
	found := false
	syntax.Walk(f, func(n syntax.Node) bool {
		cs, ok := n.(*syntax.CmdSubst)
		if !ok || len(cs.Stmts) == 0 || cs.TempFile || cs.ReplyVar {
			return !found
		}
		st := cs.Stmts[len(cs.Stmts)-1]
		var com *syntax.Comment
		if len(cs.Last) > 0 {
			com = &cs.Last[len(cs.Last)-1]
		} else if k := len(st.Comments); k > 0 && st.Comments[k-1].End().After(st.End()) {
			com = &st.Comments[k-1]
		}
		switch {
		case com != nil:
			found = found || com.End().Line() == cs.Right.Line()
		case c02HasHeredoc(st):
			found = found || cs.Right.Line() > cs.Left.Line() && st.End().Line() == cs.Right.Line()
		}
		return !found
	})
	return found
}

// c02CaseLastComments: a case clause with items and comments before esac
// that the parser left to the clause (CaseClause.Last).
func c02CaseLastComments(f *syntax.File) bool {
	found := false
	syntax.Walk(f, func(n syntax.Node) bool {
		if cc, ok := n.(*syntax.CaseClause); ok && len(cc.Items) > 0 && len(cc.Last) > 0 {
			found = true
		}
		return !found
	})
	return found
}

// c02HeredocInHeredocBody: a here-document whose body holds a command
// substitution that itself contains a here-document.
func c02HeredocInHeredocBody(f *syntax.File) bool {
	found := false
	syntax.Walk(f, func(n syntax.Node) bool {
		r, ok := n.(*syntax.Redirect)
		if !ok || !c02IsHeredoc(r) || r.Hdoc == nil {
			return !found
		}
		syntax.Walk(r.Hdoc, func(n syntax.Node) bool {
			if cs, ok := n.(*syntax.CmdSubst); ok && c02HasHeredoc(cs) {
				found = true
			}
			return !found
		})
		return !found
	})
	return found
}

// c02HeredocTrailingComment returns "#text" of a comment that follows a
// here-document operator on its line, when the statement holding the
// here-document is not the last of its list and the here-document body
// contains a command substitution; "" otherwise.
func c02HeredocTrailingComment(f *syntax.File) string {
	res := ""
	check := func(stmts []*syntax.Stmt) {
		for i, st := range stmts {
			if i == len(stmts)-1 || res != "" {
				break
			}
			for _, r := range st.Redirs {
				if !c02IsHeredoc(r) || r.Hdoc == nil {
					continue
				}
				hasSubst := false
				syntax.Walk(r.Hdoc, func(n syntax.Node) bool {
					if _, ok := n.(*syntax.CmdSubst); ok {
						hasSubst = true
					}
					return !hasSubst
				})
				if !hasSubst {
					continue
				}
				for _, c := range st.Comments {
					if c.Hash.Line() == r.OpPos.Line() && c.Hash.Offset() > r.OpPos.Offset() {
						res = "#" + strings.TrimRight(c.Text, " \t")
					}
				}
			}
		}
	}
	check(f.Stmts)
	syntax.Walk(f, func(n syntax.Node) bool {
		switch n := n.(type) {
		case *syntax.Block:
			check(n.Stmts)
		case *syntax.Subshell:
			check(n.Stmts)
		case *syntax.CmdSubst:
			check(n.Stmts)
		case *syntax.IfClause:
			check(n.Cond)
			check(n.Then)
		case *syntax.WhileClause:
			check(n.Cond)
			check(n.Do)
		case *syntax.ForClause:
			check(n.Do)
		case *syntax.CaseItem:
			check(n.Stmts)
		}
		return res == ""
	})
	return res
}
