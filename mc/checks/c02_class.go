package checks

import (
	"mvdan.cc/sh/v3/syntax"

	"verif/mc/synt"
)

// c02Classify names the family of a non-idempotent formatting, or "".
func c02Classify(src string, lang syntax.LangVariant, cfg synt.Config, simplify bool, p1, p2 string) string {
	return ""
}
