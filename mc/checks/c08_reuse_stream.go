package checks

import (
	"fmt"
	"strings"
	"sync"
	"sync/atomic"

	"mvdan.cc/sh/v3/syntax"

	"verif/mc/vc"
)

// Round 3: the line structure of the NEXT input is a dimension of the reuse
// search, not a handful of probe strings. Some residue of an earlier input is
// only observable between the start of the next input and its first word, and
// only through Incomplete() in an InteractiveSeq callback (a stale literal
// buffer, an open-node count, a pending here-document): the next input must
// begin with blank, whitespace-only or comment-only lines for a callback to
// fall into that window.
//
// For every distinct parser state reached by the history search (per option
// set; the state is c08StateKey), the first history in enumeration order that
// reaches it is replayed, and then every program of the streaming part's
// multi-statement space (every ordered pair of c08Statements blocks, each on
// its own line(s), newline-terminated) is fed line by line through
// InteractiveSeq on the REUSED parser. The complete callback trace (lines
// consumed, Incomplete(), statement dumps with positions, EOF seen, error text)
// must equal the trace of a fresh parser with the same options. The history is
// replayed afresh before each program, so each program meets the state the
// history left and nothing else.
//
// This is the only place of C08 that prunes on the state key; the 50+
// operations of c08ParserReuse.run still run after every history, unpruned.

type c08ReuseStream struct {
	blocks []string
	fresh  [][]c08FreshRow // [option set][first block]
}

type c08FreshRow struct {
	once   sync.Once
	traces []string // per second block
}

func c08NewReuseStream(nopts int) *c08ReuseStream {
	rs := &c08ReuseStream{blocks: c08Statements}
	rs.fresh = make([][]c08FreshRow, nopts)
	for i := range rs.fresh {
		rs.fresh[i] = make([]c08FreshRow, len(rs.blocks))
	}
	return rs
}

func (rs *c08ReuseStream) program(i, j int) string {
	return rs.blocks[i] + "\n" + rs.blocks[j] + "\n"
}

// c08InteractiveTrace is the comparable result of one InteractiveSeq session.
func c08InteractiveTrace(p *syntax.Parser, src string) (res string) {
	defer c08Recover(&res)
	return fmt.Sprintf("%+v", c08RunInteractive(p, c08Lines(src), -1, false))
}

func (rs *c08ReuseStream) freshRow(opt c08POpt, oi, i int) []string {
	row := &rs.fresh[oi][i]
	row.once.Do(func() {
		row.traces = make([]string, len(rs.blocks))
		for j := range rs.blocks {
			row.traces[j] = c08InteractiveTrace(opt.New(), rs.program(i, j))
		}
	})
	return row.traces
}

type c08HistRef struct {
	opt  int
	hist []int
}

// genStream emits one "parserstream" case per (state representative, first
// block). The representatives are found by replaying every history of gen
// (in parallel; the choice "first in gen's order" does not depend on timing).
func (r *c08ParserReuse) genStream(c *vc.Ctx, depth int, emit func(c08Case)) {
	var hs []c08HistRef
	r.gen(depth, func(t c08Case) {
		if t.Part == "parser" {
			hs = append(hs, c08HistRef{t.Opt, t.Hist})
		}
	})
	keys := make([]string, len(hs))
	var next atomic.Int64
	var stopped atomic.Bool
	var wg sync.WaitGroup
	workers := c.Workers
	if workers < 1 {
		workers = 1
	}
	for w := 0; w < workers; w++ {
		wg.Add(1)
		go func() {
			defer wg.Done()
			for {
				k := int(next.Add(1)) - 1
				if k >= len(hs) {
					return
				}
				if k%256 == 0 && c.Expired() {
					stopped.Store(true)
				}
				if stopped.Load() {
					return
				}
				if p := r.replay(hs[k].opt, hs[k].hist); p != nil {
					keys[k] = c08StateKey(p)
				}
			}
		}()
	}
	wg.Wait()
	if stopped.Load() {
		c.CapNote("time budget expired while computing the state representatives of the reused-parser streaming part")
		return
	}
	seen := map[string]bool{}
	for k, h := range hs {
		if keys[k] == "" {
			continue // the history cannot be completed (an operation panics)
		}
		sk := fmt.Sprintf("%d %s", h.opt, keys[k])
		if seen[sk] {
			continue
		}
		seen[sk] = true
		c.Count("parserstream_state_representatives", 1)
		for i := range r.stream.blocks {
			emit(c08Case{Part: "parserstream", Opt: h.opt, Hist: h.hist, Kind: i})
		}
	}
}

// replay builds a parser with option set oi and applies the history to it;
// nil when an operation of the history panics.
func (r *c08ParserReuse) replay(oi int, hist []int) *syntax.Parser {
	p := r.opts[oi].New()
	for _, h := range hist {
		if res := r.ops[r.hist[h]].Run(p, true); strings.HasPrefix(res, "PANIC") {
			return nil
		}
	}
	return p
}

func (r *c08ParserReuse) runStream(c *vc.Ctx, st *c08States, t c08Case) *vc.Fail {
	rs := r.stream
	if t.Opt < 0 || t.Opt >= len(r.opts) || t.Kind < 0 || t.Kind >= len(rs.blocks) {
		return vc.Failf("bad case", "parserstream case out of range")
	}
	opt := r.opts[t.Opt]
	var names []string
	for _, h := range t.Hist {
		names = append(names, r.ops[r.hist[h]].Name)
	}
	want := rs.freshRow(opt, t.Opt, t.Kind)
	var fail *vc.Fail
	n := 0
	for j := range rs.blocks {
		src := rs.program(t.Kind, j)
		if strings.HasPrefix(want[j], "PANIC") {
			return &vc.Fail{Key: fmt.Sprintf("parser[%s] fresh: InteractiveSeq(%q by lines): %s", opt.Name, src, want[j]),
				Msg: fmt.Sprintf("fresh Parser(%s): InteractiveSeq(%q by lines): %s", opt.Name, src, want[j])}
		}
		p := r.replay(t.Opt, t.Hist)
		if p == nil {
			c.Count("parser_histories_skipped_operation_panics", 1)
			return nil
		}
		got := c08InteractiveTrace(p, src)
		n++
		if got != want[j] && fail == nil {
			fail = &vc.Fail{Key: fmt.Sprintf("parser[%s] after %q: InteractiveSeq(%q by lines)", opt.Name, names, src),
				Msg:    fmt.Sprintf("Parser(%s) used for %q then InteractiveSeq(%q fed line by line) gives a callback trace different from a fresh Parser: %s", opt.Name, names, src, c08TraceDiff(got, want[j])),
				Detail: map[string]string{"reused": got, "fresh": want[j]}}
		}
	}
	c.Count("parserstream_sessions_on_reused_parsers", n)
	atomic.AddInt64(&st.streamTrans, int64(n))
	atomic.AddInt64(&st.execs, int64(n*(len(t.Hist)+1)))
	return fail
}

// c08TraceDiff points at the first differing callback of two traces.
func c08TraceDiff(got, want string) string {
	i := 0
	for i < len(got) && i < len(want) && got[i] == want[i] {
		i++
	}
	from := strings.LastIndex(got[:i], "{K:")
	if from < 0 {
		from = 0
	}
	cut := func(s string) string {
		if from > len(s) {
			return ""
		}
		s = s[from:]
		if len(s) > 60 {
			s = s[:60] + "…"
		}
		return s
	}
	return fmt.Sprintf("reused %q vs fresh %q", cut(got), cut(want))
}
