package checks

import (
	"fmt"
	"strings"
)

// A reference model of bash 5.2's read builtin (read.def, get_word_from_string
// and list_string in subst.c), used only to *classify* differences between
// mvdan/sh and bash: it is validated against bash on every reported
// difference, and a difference is given a class only when mvdan/sh's result
// equals the model's with one or both of the rules below replaced.
type c23Toggles struct {
	// bash: a non-whitespace IFS character delimits a field even when the
	// field is empty (":a" -> "", "a"; "a::b" -> "a", "", "b").
	// Replaced: any run of IFS characters is one delimiter and leading IFS
	// characters of any kind are skipped, so no field is ever empty.
	noEmptyFields bool
	// bash: the last variable gets the rest of the line minus trailing IFS
	// whitespace, except that when the rest is a single field its closing
	// delimiter is dropped too ("a:" -> "a" but "a::" and "a:b:" stay).
	// Replaced: with one name, the line minus leading and trailing IFS
	// whitespace (empty if it holds no field); with more, from the next
	// non-IFS character to the last non-IFS character of the line.
	lastVarFieldSpan bool
}

type c23Char struct {
	r   rune
	esc bool
}

// c23Chars gathers the characters read consumes from text+"\n": see
// c23LogicalLine; here a backslash-protected character is flagged instead of
// keeping the backslash.
func c23Chars(text string, raw bool) (chars []c23Char, eof bool) {
	in := []rune(text + "\n")
	for i := 0; i < len(in); i++ {
		switch r := in[i]; {
		case !raw && r == '\\' && i+1 < len(in) && in[i+1] == '\n':
			i++
		case !raw && r == '\\' && i+1 < len(in):
			chars = append(chars, c23Char{in[i+1], true})
			i++
		case r == '\n':
			return chars, false
		default:
			chars = append(chars, c23Char{r, false})
		}
	}
	return chars, true
}

func c23String(cs []c23Char) string {
	var sb strings.Builder
	for _, c := range cs {
		sb.WriteRune(c.r)
	}
	return sb.String()
}

// c23Model renders what bash's read does for t ("0:<status>|<values>"), with
// the rules in tog replaced.
func c23Model(t c23Case, tog c23Toggles) string {
	ifs := c23IFS[t.IFS].Val
	if c23IFS[t.IFS].Unset {
		ifs = " \t\n"
	}
	chars, eof := c23Chars(t.Line, t.Raw)
	status := 0
	if eof {
		status = 1
	}
	n := len(chars)
	isSep := func(i int) bool { return !chars[i].esc && strings.ContainsRune(ifs, chars[i].r) }
	isWS := func(i int) bool {
		return isSep(i) && (chars[i].r == ' ' || chars[i].r == '\t' || chars[i].r == '\n')
	}
	pos := 0
	skipWS := func() {
		for pos < n && isWS(pos) {
			pos++
		}
	}
	// word scans a field from pos and the delimiter after it.
	word := func() (w string, any bool) {
		if tog.noEmptyFields {
			for pos < n && isSep(pos) {
				pos++
			}
			start := pos
			for pos < n && !isSep(pos) {
				pos++
			}
			w = c23String(chars[start:pos])
			for pos < n && isSep(pos) {
				pos++
			}
			return w, pos > start
		}
		skipWS()
		if pos >= n {
			return "", false
		}
		start := pos
		for pos < n && !isSep(pos) {
			pos++
		}
		w = c23String(chars[start:pos])
		if pos < n {
			white := isWS(pos)
			pos++
			skipWS()
			if white && pos < n && isSep(pos) && !isWS(pos) {
				pos++
				skipWS()
			}
		}
		return w, true
	}
	if t.Array {
		var vals []string
		skipWS()
		for pos < n {
			start := pos
			w, any := word()
			if !any {
				break
			}
			if w != "" || (!tog.noEmptyFields && start < n && isSep(start) && !isWS(start)) {
				vals = append(vals, w)
			}
		}
		return c23RenderValues(status, t, vals)
	}
	if t.Names == 0 {
		return fmt.Sprintf("0:%d|<%s>", status, c23String(chars))
	}
	vals := make([]string, t.Names)
	skipWS()
	for k := 0; k < t.Names-1; k++ {
		vals[k], _ = word()
	}
	last := ""
	switch {
	case tog.lastVarFieldSpan && t.Names == 1:
		lo, hi := 0, n
		for lo < hi && isWS(lo) {
			lo++
		}
		for hi > lo && isWS(hi-1) {
			hi--
		}
		hasField := false
		for i := lo; i < hi; i++ {
			if !isSep(i) {
				hasField = true
			}
		}
		if hasField {
			last = c23String(chars[lo:hi])
		}
	case tog.lastVarFieldSpan:
		lo, hi := pos, n
		for lo < hi && isSep(lo) {
			lo++
		}
		for hi > lo && isSep(hi-1) {
			hi--
		}
		last = c23String(chars[lo:hi])
	case pos < n:
		t1 := pos
		w, _ := word()
		if pos >= n {
			last = w
		} else {
			hi := n
			for hi > t1 && isWS(hi-1) {
				hi--
			}
			last = c23String(chars[t1:hi])
		}
	}
	vals[t.Names-1] = last
	return c23RenderValues(status, t, vals)
}

// c23Class names the narrow divergence families recorded as known findings.
// sh is what mvdan/sh (the builtin or expand.ReadFields) produced, bash what
// the oracle produced.
//
// Round 3, late: expand.ReadFields was rewritten after bash's algorithm (the
// three classes of rounds 2-3 -- no empty fields, last-variable span, both --
// are repaired and recorded as fixed), so what is left is on bash's side: when
// the rest of the line given to the last variable consists of escaped IFS
// whitespace only, bash 5.2 strips it but leaves its internal CTLESC byte
// (0x01) in the value. The class holds iff the oracle's value contains 0x01
// and equals mvdan/sh's once that byte is removed.
func c23Class(t c23Case, sh, bash string) string {
	if strings.Contains(bash, "\x01") && strings.ReplaceAll(bash, "\x01", "") == sh {
		return "bash-leaks-ctlesc-in-escaped-whitespace-only-rest"
	}
	return ""
}
