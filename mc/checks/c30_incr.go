package checks

import (
	"context"
	"fmt"
	"reflect"
	"sort"
	"strings"
	"sync"
	"time"

	"mvdan.cc/sh/v3/interp"
	"mvdan.cc/sh/v3/syntax"

	"verif/mc/synt"
	"verif/mc/vc"
)

// c30IncrAtoms is the alphabet of the generated family of clause 2: short
// statement groups around everything that ends, aborts or alters the flow of
// a top-level statement list.
var c30IncrAtoms = []string{
	"echo a",
	"false",
	"echo \"st=$?\"",
	"x=$((x+1)); echo \"x=$x\"",
	"exit 3",
	"exit",
	"(exit 4)",
	"f() { echo f; return 5; }; f",
	"g() { echo g; exit 6; echo no; }; g",
	"return 2",
	"break",
	"set -e",
	"set +e",
	"set -u; echo \"$undefined\"",
	"echo ${undef:?msg}",
	"trap 'echo T:$?' EXIT",
	"trap 'tv=1' EXIT",
	"trap - EXIT",
	"trap 'echo E:$?' ERR",
	"! true",
	"false || echo or",
	"false && echo and",
	"if false; then :; fi",
	"while :; do break 3; done",
	"for i in 1 2; do echo $i; done",
	"{ echo blk; false; }",
	"{ bgv=1; exit 2; } &",
	"wait; echo \"w=$?\"",
	"wait $!; echo \"wp=$?\"",
	"y=$(echo sub; exit 7)",
	"eval 'echo ev; exit 8'",
	"eval false",
	"failfatal",
	"exit7",
	"shopt -s expand_aliases; alias al='echo aliased'",
	"al",
	"set -n",
	"exec >out.txt",
	"exec echo replaced",
	"cd /",
	"set -- p q; shift",
	"echo \"$# $1 $0\"",
	"local z=1",
	"readonly ro=1",
	"ro=2",
	"read line",
	"cat <<EOF\nhd $x\nEOF",
	"set -o pipefail; false | true",
	"echo $LINENO",
	"nosuchcmd",
	". ./nonexistent",
	"exit 300",
	"exit x",
	"unset x; echo \"x=${x-unset}\"",
	"arr2=(1 2); arr2+=(3); echo ${#arr2[@]}",
	"echo data >f.txt; read fv <f.txt; echo \"$fv\"",
	"pushd / >/dev/null; dirs",
	"getopts ab o -a -b; echo \"$o $OPTIND\"",
	"echo \"$_ ${PIPESTATUS[*]} $!\"",
}

// c30IncrPrograms enumerates the clause 2 cases (emit may be nil to only
// count them) and returns the description of the space.
func c30IncrPrograms(c *vc.Ctx, emit func(c30Case)) string {
	if emit == nil {
		emit = func(c30Case) {}
	}
	seen := map[string]bool{}
	ncorpus := 0
	for _, src := range synt.InterpCorpus() {
		f, err := c30Parse(src)
		if err != nil || len(f.Stmts) < 2 || seen[src] {
			continue
		}
		seen[src] = true
		ncorpus++
		emit(c30Case{Part: "incr", Src: src, Origin: "corpus"})
	}
	atoms := c30IncrAtoms
	full := vc.Pick(c, 2, 3) // every sequence of 2..full statement groups over the whole alphabet
	long := full + 1         // and of this length over the first core groups
	core := vc.Pick(c, 30, c30IncrCore)
	ngen := 0
	add := func(cur []int) {
		parts := make([]string, len(cur))
		for i, a := range cur {
			parts[i] = atoms[a]
		}
		src := strings.Join(parts, "\n")
		ngen++
		emit(c30Case{Part: "incr", Src: src, Origin: "gen"})
	}
	for l := 2; l <= full; l++ {
		c30SeqsLen(len(atoms), l, add)
	}
	c30SeqsLen(core, long, add)
	c.Extra["incr_corpus_programs"] = ncorpus
	c.Extra["incr_generated_programs"] = ngen
	note := fmt.Sprintf("%d multi-statement programs of interp_test.go's string literals that parse as bash, plus every sequence of 2..%d of %d statement groups", ncorpus, full, len(atoms))
	note += fmt.Sprintf(" and every sequence of %d of the first %d", long, core)
	return note
}

// c30IncrCore is the number of leading atoms used for sequences longer than 3.
const c30IncrCore = 20

// c30IncrRun runs file on a new Runner in a fresh work directory, whole or
// statement by statement. trapSet reports whether an EXIT trap is installed
// once the run is over.
func c30IncrRun(s *c30Scratch, file *syntax.File, whole, watchdog bool) (res c30Res, trapSet bool, timedOut bool) {
	work := s.resetWork()
	x := s.newRunner(c30Cfgs[0], work)
	defer x.close()
	ctx, cancel := context.WithTimeout(context.Background(), 10*time.Second)
	defer cancel()
	done := make(chan struct{})
	body := func() {
		defer close(done)
		var errText, pn string
		if whole {
			errText, pn = x.runNode(ctx, file)
		} else {
			for _, st := range file.Stmts {
				errText, pn = x.runNode(ctx, st)
				if pn != "" || x.r.Exited() {
					break
				}
			}
		}
		res = x.result(errText, pn)
		if pn == "" {
			trapSet = c30ExitTrap(x.r) != ""
			if trapSet && !whole && !res.Exited {
				// What the variables become once the pending EXIT trap has
				// run (an empty whole-file Run triggers it): used only to
				// tell whether a Vars difference is the trap's doing.
				if _, pn2 := x.runNode(ctx, &syntax.File{}); pn2 == "" {
					res.varsAfterTrap = x.s.norm(c30DumpVars(x.r.Vars))
				}
				x.out.take()
				x.err.take()
			}
		}
	}
	if !watchdog {
		body()
	} else {
		// corpus programs may block outside the reach of the context
		go body()
		tm := time.NewTimer(30 * time.Second)
		defer tm.Stop()
		select {
		case <-done:
		case <-tm.C:
			return c30Res{}, false, true
		}
	}
	if ctx.Err() != nil {
		return res, trapSet, true
	}
	return res, trapSet, false
}

// c30Incr executes one clause-2 case.
func c30Incr(c *vc.Ctx, t c30Case) *vc.Fail {
	file, err := c30Parse(t.Src)
	if err != nil || len(file.Stmts) < 2 {
		return vc.Failf("bad case", "clause 2 program does not parse or is not multi-statement: %v", err)
	}
	s := c30GetScratch()
	wd := t.Origin != "gen"
	w1, trapW, to1 := c30IncrRun(s, file, true, wd)
	if to1 {
		c.Count("incr_skipped_timeout", 1)
		c30NoteSkipped(c, "timeout", t.Src)
		return nil // the scratch is not returned: a stuck goroutine may still use it
	}
	w2, _, to2 := c30IncrRun(s, file, true, wd)
	if to2 {
		c.Count("incr_skipped_timeout", 1)
		return nil
	}
	if d := c30DiffFields(w1, w2); len(d) > 0 {
		c.Count("incr_skipped_nondeterministic", 1)
		c30NoteSkipped(c, "nondeterministic", t.Src)
		c30PutScratch(s)
		return nil
	}
	inc, trapI, to3 := c30IncrRun(s, file, false, wd)
	if to3 {
		c.Count("incr_skipped_timeout", 1)
		return nil
	}
	c30PutScratch(s)
	c.Distinct("incr " + c30Hash(fmt.Sprint(w1)))
	if inc.Exited != w1.Exited {
		c.Count("incr_exited_flag_differs", 1)
	}
	if t.Origin == "corpus" || len(t.Src) < 40 {
		c.Sample(map[string]any{"incr": t.Src})
	}
	// The exception of the property: the EXIT trap runs at the end of a
	// whole-file run only. It applies when the statement-wise run ended
	// without exiting and a trap is installed at that point.
	exception := trapI && !inc.Exited && inc.Panic == ""
	var d []string
	if exception {
		c.Count("incr_exit_trap_exception", 1)
		if w1.Panic != inc.Panic {
			d = append(d, "panic")
		}
		if !strings.HasPrefix(w1.Stdout, inc.Stdout) {
			d = append(d, "stdout")
		}
		if !strings.HasPrefix(w1.Stderr, inc.Stderr) {
			d = append(d, "stderr")
		}
		if w1.Err != inc.Err {
			d = append(d, "status")
		}
		if w1.Vars != inc.Vars {
			// tolerated only when running the pending trap accounts for it
			if w1.Vars == inc.varsAfterTrap {
				c.Count("incr_vars_differ_by_exit_trap", 1)
			} else {
				d = append(d, "vars")
			}
		}
	} else {
		d = c30DiffFields(inc, w1)
	}
	_ = trapW
	if len(d) == 0 {
		return nil
	}
	f := &vc.Fail{
		Key: fmt.Sprintf("incr src=%q diff=%s %s", t.Src, strings.Join(d, ","), c30Hash(fmt.Sprint(inc, w1))),
		Msg: fmt.Sprintf("program %q run statement by statement differs from the whole-file run in %s (exit-trap exception=%v)", t.Src, strings.Join(d, ","), exception),
		Detail: map[string]any{
			"whole": w1, "stmtwise": inc, "vars_diff": c30VarsDiff(w1.Vars, inc.Vars),
		},
	}
	f.Class = c30IncrClass(t, file, d, inc, w1)
	return f
}

// c30IncrClass assigns a narrow family to a clause-2 divergence.
func c30IncrClass(t c30Case, file *syntax.File, diff []string, inc, whole c30Res) string {
	return ""
}

// c08SeqsLen-like helper private to C30: every sequence of exactly l symbols.
func c30SeqsLen(n, l int, f func([]int)) {
	cur := make([]int, l)
	var rec func(i int)
	rec = func(i int) {
		if i == l {
			f(cur)
			return
		}
		for a := 0; a < n; a++ {
			cur[i] = a
			rec(i + 1)
		}
	}
	rec(0)
}

// c30ExitTrap reads the installed EXIT trap from the Runner. (The "trap"
// builtin cannot be used for this: the program may have redirected the
// shell's stdout and stderr with exec.)
func c30ExitTrap(r *interp.Runner) string {
	f := reflect.ValueOf(r).Elem().FieldByName("callbackExit")
	if !f.IsValid() || f.Kind() != reflect.String {
		panic("c30: interp.Runner has no string field callbackExit; the harness must be adapted")
	}
	return f.String()
}

var c30SkipMu sync.Mutex

// c30NoteSkipped lists the skipped clause-2 programs in the evidence.
func c30NoteSkipped(c *vc.Ctx, why, src string) {
	c30SkipMu.Lock()
	defer c30SkipMu.Unlock()
	l, _ := c.Extra["incr_skipped_programs"].([]string)
	if len(l) < 40 {
		l = append(l, why+": "+src)
		sort.Strings(l)
		c.Extra["incr_skipped_programs"] = l
	}
}
