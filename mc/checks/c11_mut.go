package checks

import "strings"

// c11Ops are the multi-character tokens recognised by the mutation tokenizer
// (longest match first within each length group).
var c11Ops = []string{
	"@test",
	";;&", "&>>", "<<<", "<<-", "$((", "&>|", ">>|",
	";;", ";&", ";|", "&&", "||", "|&", "&>", "&|", "&!", "<<", ">>", ">&", "<&", "<>", ">|", ">!",
	"((", "))", "[[", "]]", "$(", "${", "$[", "$'", "$\"", "<(", ">(", "=(", "+=",
	"@(", "?(", "*(", "+(", "!(", "++", "--", "**", "^^", ",,", "##", "%%", "//", ":-", ":=", ":?", ":+",
}

func c11WordByte(b byte) bool {
	return b == '_' || b >= '0' && b <= '9' || b >= 'a' && b <= 'z' || b >= 'A' && b <= 'Z' || b >= 0x80
}

// c11Tokens splits src into tokens for the 1-token-edit mutation: runs of
// word bytes, runs of blanks, the operators of c11Ops, and single other
// bytes. Concatenating the tokens gives src back.
func c11Tokens(src string) []string {
	var out []string
	for i := 0; i < len(src); {
		b := src[i]
		j := i + 1
		switch {
		case c11WordByte(b):
			for j < len(src) && c11WordByte(src[j]) {
				j++
			}
		case b == ' ' || b == '\t':
			for j < len(src) && (src[j] == ' ' || src[j] == '\t') {
				j++
			}
		default:
			for _, op := range c11Ops {
				if strings.HasPrefix(src[i:], op) {
					j = i + len(op)
					break
				}
			}
		}
		out = append(out, src[i:j])
		i = j
	}
	return out
}

// c11Alphabet is the replacement/insertion alphabet: every token that some
// variant treats differently from POSIX (the lexer/parser gates), the
// structural tokens needed to complete or break a construct, and a few
// neutral words.
var c11Alphabet = []string{
	// variant-gated operators
	"[[", "]]", "((", "))", "|&", "&>", "&>>", "<<<", ";&", ";;&", ";|", "&|", "&!", ">|", ">>|", "&>|", ">!",
	"<(", ">(", "=(", "@(", "!(", "$'", "$\"", "$[", "${", "$(", "$((", "+=", "{fd}", "[1]", "^", "^^", ",", "@Q", "/", ":1", "!", "%", "+", "=", "~", "**", "++",
	// variant-gated keywords
	"function", "select", "time", "coproc", "declare", "let", "local", "export", "typeset", "@test", "repeat", "-p",
	// structure
	"(", ")", "{", "}", ";", "&", "|", "\n", " ", "\"", "'", "`", "#", "[", "]", "<", ">", "<<", ";;",
	"if", "then", "fi", "do", "done", "in", "esac", "for", "case", "while",
	// neutral
	"x", "1", "$x", "*", "?",
}

// c11Mutants calls f with every source at 1-token edit distance from src:
// deletion of one token, replacement of one token by an alphabet token, and
// (when insert is set) insertion of an alphabet token at every boundary.
// Mutants equal to src are skipped; duplicates are the caller's business.
func c11Mutants(src string, insert bool, f func(string)) {
	toks := c11Tokens(src)
	offs := make([]int, len(toks)+1)
	for i, t := range toks {
		offs[i+1] = offs[i] + len(t)
	}
	for i, t := range toks {
		pre, post := src[:offs[i]], src[offs[i+1]:]
		f(pre + post)
		for _, a := range c11Alphabet {
			if a != t {
				f(pre + a + post)
			}
		}
	}
	if insert {
		for i := 0; i <= len(toks); i++ {
			pre, post := src[:offs[i]], src[offs[i]:]
			for _, a := range c11Alphabet {
				f(pre + a + post)
			}
		}
	}
}
