package checks

import (
	"go/ast"
	"go/parser"
	"go/token"
	"path/filepath"
	"sort"
	"strings"

	"verif/mc/synt"
)

// c14Decls is what syntax/nodes.go of the working tree declares: every
// (struct, exported field) pair whose type can hold a node, and for
// interface-typed fields every (pair, implementing type) triple.
type c14Decls struct {
	pairs   []string
	hasPair map[string]bool
	triples []string // "Struct.Field=DynType"
}

// c14OnlyFromAPI lists declared fields that no parser run can populate, with
// the reason. Everything else that stays unpopulated is reported as a gap.
var c14OnlyFromAPI = map[string]string{
	"BraceExp.Elems": "BraceExp only results from syntax.SplitBraces",
}

func c14TripleNotFromParser(tr string) bool {
	return strings.HasSuffix(tr, "=BraceExp") || strings.HasPrefix(tr, "BraceExp.")
}

func c14ReadDecls() (*c14Decls, error) {
	fset := token.NewFileSet()
	af, err := parser.ParseFile(fset, filepath.Join(synt.RepoRoot, "syntax", "nodes.go"), nil, parser.SkipObjectResolution)
	if err != nil {
		return nil, err
	}
	structs := map[string]*ast.StructType{}
	ifaces := map[string]*ast.InterfaceType{}
	methods := map[string]map[string]bool{} // receiver type -> method names
	var order []string
	for _, d := range af.Decls {
		switch d := d.(type) {
		case *ast.GenDecl:
			for _, sp := range d.Specs {
				ts, ok := sp.(*ast.TypeSpec)
				if !ok {
					continue
				}
				switch tt := ts.Type.(type) {
				case *ast.StructType:
					structs[ts.Name.Name] = tt
					order = append(order, ts.Name.Name)
				case *ast.InterfaceType:
					ifaces[ts.Name.Name] = tt
				}
			}
		case *ast.FuncDecl:
			if d.Recv == nil || len(d.Recv.List) != 1 {
				continue
			}
			rt := d.Recv.List[0].Type
			if st, ok := rt.(*ast.StarExpr); ok {
				rt = st.X
			}
			if id, ok := rt.(*ast.Ident); ok {
				if methods[id.Name] == nil {
					methods[id.Name] = map[string]bool{}
				}
				methods[id.Name][d.Name.Name] = true
			}
		}
	}
	isNode := func(name string) bool { return methods[name]["Pos"] && methods[name]["End"] }
	base := func(e ast.Expr) string {
		for {
			switch x := e.(type) {
			case *ast.StarExpr:
				e = x.X
			case *ast.ArrayType:
				e = x.Elt
			case *ast.Ident:
				return x.Name
			default:
				return ""
			}
		}
	}
	var bearing func(name string, depth int) bool
	bearing = func(name string, depth int) bool {
		if _, ok := ifaces[name]; ok {
			return true
		}
		st, ok := structs[name]
		if !ok || depth > 4 {
			return false
		}
		if isNode(name) {
			return true
		}
		for _, f := range st.Fields.List {
			for _, n := range f.Names {
				if n.IsExported() && bearing(base(f.Type), depth+1) {
					return true
				}
			}
		}
		return false
	}
	// marker method of each interface -> implementing types
	implementers := func(iface string) []string {
		it := ifaces[iface]
		var marker string
		for _, m := range it.Methods.List {
			for _, n := range m.Names {
				if !n.IsExported() {
					marker = n.Name
				}
			}
		}
		if marker == "" {
			return nil
		}
		var out []string
		for t, ms := range methods {
			if ms[marker] && isNode(t) {
				out = append(out, t)
			}
		}
		sort.Strings(out)
		return out
	}
	d := &c14Decls{hasPair: map[string]bool{}}
	for _, sname := range order {
		for _, f := range structs[sname].Fields.List {
			b := base(f.Type)
			if !bearing(b, 0) {
				continue
			}
			for _, n := range f.Names {
				if !n.IsExported() {
					continue
				}
				p := sname + "." + n.Name
				d.pairs = append(d.pairs, p)
				d.hasPair[p] = true
				if _, ok := ifaces[b]; ok {
					for _, impl := range implementers(b) {
						d.triples = append(d.triples, p+"="+impl)
					}
				}
			}
		}
	}
	return d, nil
}
