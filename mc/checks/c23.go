package checks

import (
	"fmt"
	"strings"

	"mvdan.cc/sh/v3/expand"

	"verif/mc/oracle"
	"verif/mc/vc"
)

func init() { Registry["C23"] = c23 }

// c23Case is one `read` invocation: the text fed through a here-string, the
// IFS (index into c23IFS), how many names are given (0 = REPLY), -r, and -a.
type c23Case struct {
	Line  string `json:"line"`
	IFS   int    `json:"ifs"`
	Names int    `json:"names"`
	Raw   bool   `json:"raw"`
	Array bool   `json:"array"`
}

// c23IFS: the first c23NMainIFS values (all ASCII) are crossed with the main
// line enumeration; the wide enumeration uses the values listed in c23WideIFS.
var c23IFS = []c22IFSVal{{Unset: true}, {Val: ""}, {Val: " "}, {Val: ":"}, {Val: ": "}, {Val: " \t\n"},
	{Val: "é"}, {Val: "é "}, {Val: "Ġ:"}}

const c23NMainIFS = 6

var c23Symbols = []string{"a", "b", " ", "\t", ":", `\`, "\\\n"}

// The wide enumeration: byte/rune confusion in the IFS membership test. Next
// to a small ASCII core the line alphabet holds non-ASCII characters of every
// UTF-8 length whose code point, cut to its low byte (or low 16 bits),
// collides with an IFS byte, and characters related to the multi-byte IFS
// values:
//
//	† U+2020  (3 bytes) low byte 0x20 = space
//	Ġ U+0120  (2 bytes) low byte 0x20 = space; itself a member of IFS="Ġ:"
//	ĉ U+0109  (2 bytes) low byte 0x09 = tab
//	Ċ U+010A  (2 bytes) low byte 0x0A = newline
//	ĺ U+013A  (2 bytes) low byte 0x3A = ':'
//	é U+00E9  (2 bytes, C3 A9) a member of IFS="é" and IFS="é "
//	Ã U+00C3  (2 bytes, C3 83) code point = first UTF-8 byte of é, shares that byte
//	𐀠 U+10020 (4 bytes) low byte and low 16 bits 0x20 = space
//
// and the IFS values are the ASCII ones the low bytes collide with (unset =
// space/tab/newline, ":", ": ") plus three holding a multi-byte character
// (alone, next to IFS whitespace, and one whose low byte is a space next to
// an ASCII delimiter).
var c23WideSymbols = []string{"a", " ", ":", `\`, "†", "Ġ", "ĉ", "Ċ", "ĺ", "é", "Ã", "𐀠"}

var c23WideIFS = []int{0, 3, 4, 6, 7, 8}

// c23ImageChars are ASCII characters that occur in no line alphabet and mean
// nothing to read; see c23Image.
const c23ImageChars = ";%"

// c23Image returns, for an IFS value holding non-ASCII characters, the
// bijective renaming of those characters to unused ASCII characters (fwd) and
// its inverse (back); nil, nil for an ASCII IFS. bash 5.2 is not
// self-consistent for multi-byte IFS characters (see c.Assumptions), so such
// cases are judged against bash run on the renamed case.
func c23Image(ifs string) (fwd, back *strings.Replacer) {
	var f, b []string
	for _, r := range ifs {
		if r < 0x80 || strings.ContainsRune(strings.Join(f, ""), r) {
			continue
		}
		img := string(c23ImageChars[len(f)/2])
		f = append(f, string(r), img)
		b = append(b, img, string(r))
	}
	if f == nil {
		return nil, nil
	}
	return strings.NewReplacer(f...), strings.NewReplacer(b...)
}

// c23StringsN calls f with every concatenation of exactly n items of alphabet.
func c23StringsN(alphabet []string, n int, prefix string, f func(string)) {
	if n == 0 {
		f(prefix)
		return
	}
	for _, a := range alphabet {
		c23StringsN(alphabet, n-1, prefix+a, f)
	}
}

func c23IsASCII(s string) bool {
	for i := 0; i < len(s); i++ {
		if s[i] >= 0x80 {
			return false
		}
	}
	return true
}

var c23Names = []string{"a", "b", "c"}

func (t c23Case) ifsString() string {
	if c23IFS[t.IFS].Unset {
		return "unset"
	}
	return fmt.Sprintf("%q", c23IFS[t.IFS].Val)
}

// readCmd is the `read` command line (without the here-string).
func (t c23Case) readCmd() string {
	s := "read"
	if t.Raw {
		s += " -r"
	}
	if t.Array {
		return s + " -a arr"
	}
	for _, n := range c23Names[:t.Names] {
		s += " " + n
	}
	return s
}

// code is the shell text run by both shells, except for the final rendering.
func (t c23Case) code() string {
	return c22IFSSetup(c23IFS[t.IFS]) + "; line=" + oracle.ShQuote(t.Line) + "; " + t.readCmd() + ` <<< "$line"; s=$?; `
}

// render is the shell text that renders status and variables: printf into R
// for bash, to stdout for the interpreter.
func (t c23Case) render(bash bool) string {
	pf := "printf "
	if bash {
		pf = "printf -v R "
	}
	switch {
	case t.Array:
		if bash {
			return `printf -v R '<%s>' "${arr[@]}"; R="$s|${#arr[@]}$R"`
		}
		return `printf '%s|%s' "$s" "${#arr[@]}"; printf '<%s>' "${arr[@]}"`
	case t.Names == 0:
		return pf + `'%s|<%s>' "$s" "${REPLY-UNSET}"`
	}
	f := "'%s|"
	args := ` "$s"`
	for _, n := range c23Names[:t.Names] {
		f += "<%s>"
		args += ` "${` + n + `-UNSET}"`
	}
	return pf + f + "'" + args
}

// c23LogicalLine models how `read` gathers its input from text+"\n" (what
// the here-string supplies): with -r up to the first newline; without,
// backslash-newline pairs are removed, a backslash protects the next
// character, and an unprotected newline ends the line. eof reports that the
// input ended before such a newline (read then returns 1). Backslashes
// other than continuations stay in the line for expand.ReadFields.
func c23LogicalLine(text string, raw bool) (line string, eof bool) {
	in := text + "\n"
	if raw {
		i := strings.IndexByte(in, '\n')
		return in[:i], false
	}
	var sb strings.Builder
	for i := 0; i < len(in); i++ {
		switch b := in[i]; {
		case b == '\\' && i+1 < len(in) && in[i+1] == '\n':
			i++
		case b == '\\' && i+1 < len(in):
			sb.WriteByte(b)
			sb.WriteByte(in[i+1])
			i++
		case b == '\n':
			return sb.String(), false
		default: // includes a backslash that is the very last byte (impossible here: input ends in a newline)
			sb.WriteByte(b)
		}
	}
	return sb.String(), true
}

func c23RenderValues(status int, t c23Case, vals []string) string {
	if t.Array {
		return fmt.Sprintf("0:%d|%d<%s>", status, len(vals), strings.Join(vals, "><"))
	}
	out := make([]string, t.Names)
	for i := range out {
		if i < len(vals) {
			out[i] = vals[i]
		}
	}
	return fmt.Sprintf("0:%d|<%s>", status, strings.Join(out, "><"))
}

func c23(c *vc.Ctx) {
	maxLen := vc.Pick(c, 5, 6)
	wideLen := vc.Pick(c, 3, 4)
	var wideIFS []string
	for _, i := range c23WideIFS {
		wideIFS = append(wideIFS, c23Case{IFS: i}.ifsString())
	}
	c.Rule = fmt.Sprintf("(main) every text of <=%d symbols over %q (the last one, backslash-newline, is one symbol) x IFS in {unset,\"\",\" \",\":\",\": \",\" \\t\\n\"}; (wide: byte/rune confusion) every text of <=%d symbols over %q (non-ASCII characters of 2, 3 and 4 UTF-8 bytes whose code point cut to 8 or 16 bits is space, tab, newline or ':', members of the multi-byte IFS values, and U+00C3 = first UTF-8 byte of é) x IFS in {%s}, minus the cases already in (main). Each text is fed with `<<< \"$line\"` (which appends a newline) x {read, read a, read a b, read a b c, read -a arr} x {-r, no -r}. Compared: exit status of read and the value (or unset-ness) of every named variable / REPLY / all array elements, interpreter (fresh Runner) vs bash 5.2 (no-fork eval); for >=1 name and for -a also expand.ReadFields(cfg{IFS}, logical line, n or -1, raw) padded with empty strings vs bash. For the IFS values holding a non-ASCII character bash is run on the image of the case under the bijective renaming of that character to an unused ASCII character (é->';', Ġ->';') and its result renamed back. distinct = distinct (status, values) outcomes", maxLen, c23Symbols, wideLen, c23WideSymbols, strings.Join(wideIFS, ","))
	c.Assumptions = []string{
		"bash 5.2.15 (LC_ALL=C.utf8) is the oracle for read",
		"expand.ReadFields is given the logical line computed by a 15-line model of read's line gathering (continuations removed, stop at the first unprotected newline); the builtin itself is compared end-to-end without that model",
		"bash's read depends on an IFS character only through its class (IFS whitespace / other IFS character / not in IFS). bash 5.2.15 itself breaks this for multi-byte IFS characters (IFS='é ' read -a arr <<< ' a é b ' gives 3 fields where IFS='; ' with ' a ; b ' gives 2; IFS='é ' read a b <<< 'a\\éb' stores the invalid byte sequence 'a\\303'), so for those IFS values the expected result is bash's on the ASCII image of the case; how often bash on the original case differs from that is counted (multibyte_ifs_bash_differs_from_its_ascii_image) and never decides a verdict",
	}
	c.Reruns = 1

	emitLine := func(emit func(c23Case), line string, ifs int) {
		for _, raw := range []bool{false, true} {
			for n := 0; n <= 3; n++ {
				emit(c23Case{Line: line, IFS: ifs, Names: n, Raw: raw})
			}
			emit(c23Case{Line: line, IFS: ifs, Raw: raw, Array: true})
		}
	}
	complete := vc.RunBatch(c, 3000, func(emit func(c23Case)) {
		// by line length, so that a budget-limited run covers the short
		// lines of both parts
		for n := 0; n <= maxLen; n++ {
			c23StringsN(c23Symbols, n, "", func(line string) {
				for ifs := 0; ifs < c23NMainIFS; ifs++ {
					emitLine(emit, line, ifs)
				}
			})
			if n > wideLen {
				continue
			}
			c23StringsN(c23WideSymbols, n, "", func(line string) {
				ascii := c23IsASCII(line)
				for _, ifs := range c23WideIFS {
					if ascii && ifs < c23NMainIFS {
						continue // in the main part (core symbols and wideLen are within its bounds)
					}
					emitLine(emit, line, ifs)
				}
			})
		}
	}, func(batch []c23Case) []*vc.Fail {
		fails := make([]*vc.Fail, len(batch))
		type src struct {
			i    int
			what string
			back *strings.Replacer // non-nil: the case was run on its ASCII image
			real bool              // bash on the original of an imaged case: informational
		}
		var cases []oracle.EvalCase
		var srcs []src
		// add queues one comparison of want (what mvdan/sh produced) with bash
		add := func(i int, what, bcode, want string, fwd, back *strings.Replacer) {
			if fwd != nil {
				bcode, want = fwd.Replace(bcode), fwd.Replace(want)
			}
			cases = append(cases, oracle.EvalCase{Code: bcode, Want: want})
			srcs = append(srcs, src{i: i, what: what, back: back})
		}
		for i, t := range batch {
			code := t.code()
			want := c2xRun(nil, code+t.render(false)+"\n", nil)
			c.Distinct(want)
			bcode := code + t.render(true)
			fwd, back := c23Image(c23IFS[t.IFS].Val)
			wide := !c23IsASCII(t.Line) || fwd != nil
			if wide {
				c.Count("wide_cases", 1)
			}
			add(i, "interp", bcode, want, fwd, back)
			if fwd != nil {
				c.Count("multibyte_ifs_cases_judged_by_bash_on_ascii_image", 1)
				cases = append(cases, oracle.EvalCase{Code: bcode, Want: want})
				srcs = append(srcs, src{i: i, what: "interp", real: true})
			}
			if len(t.Line) >= maxLen && t.IFS == 4 && t.Names == 2 && !wide {
				c.Sample(map[string]any{"line": t.Line, "ifs": t.ifsString(), "cmd": t.readCmd(), "interp": want})
			}
			if wide && len([]rune(t.Line)) >= wideLen && t.Names == 2 && !t.Raw && strings.HasPrefix(t.Line, "a") && strings.HasSuffix(t.Line, "a") {
				c.Sample(map[string]any{"line": t.Line, "ifs": t.ifsString(), "cmd": t.readCmd(), "interp": want})
			}
			if t.Names >= 1 || t.Array {
				c.Count("readfields_cases", 1)
				var env []string
				if !c23IFS[t.IFS].Unset {
					env = append(env, "IFS="+c23IFS[t.IFS].Val)
				}
				line, eof := c23LogicalLine(t.Line, t.Raw)
				n := t.Names
				if t.Array {
					n = -1
				}
				var vals []string
				if f := guard(fmt.Sprintf("ReadFields IFS=%s line=%q n=%d raw=%v", t.ifsString(), line, n, t.Raw), func() {
					vals = expand.ReadFields(&expand.Config{Env: expand.ListEnviron(env...)}, line, n, t.Raw)
				}); f != nil {
					fails[i] = f
					continue
				}
				status := 0
				if eof {
					status = 1
				}
				if !t.Array && len(vals) > t.Names {
					fails[i] = &vc.Fail{Key: fmt.Sprintf("ReadFields IFS=%s line=%q n=%d raw=%v returned %d fields", t.ifsString(), line, n, t.Raw, len(vals)),
						Msg: fmt.Sprintf("expand.ReadFields(IFS=%s, %q, %d, raw=%v) returned %d fields %q, more than n", t.ifsString(), line, n, t.Raw, len(vals), vals), Class: "readfields-more-than-n"}
					continue
				}
				fw := c23RenderValues(status, t, vals)
				if fw != want {
					add(i, "expand.ReadFields", bcode, fw, fwd, back)
				}
			}
		}
		diffs, err := oracle.BashEvalBatch("", "unset IFS a b c REPLY arr line s", cases, "")
		if err != nil {
			panic(err)
		}
		// what bash says about the original of an imaged case, when that is
		// not what the interpreter gave
		realGot := map[int]string{}
		imageGot := map[int]string{}
		for _, d := range diffs {
			s := srcs[d.Index]
			switch {
			case s.real:
				realGot[s.i] = d.Got
			case s.back != nil && s.what == "interp":
				imageGot[s.i] = s.back.Replace(d.Got)
			}
		}
		for i, t := range batch {
			if fwd, _ := c23Image(c23IFS[t.IFS].Val); fwd == nil {
				continue
			}
			// both absent = both equal to the interpreter's result
			if r, rok := realGot[i]; rok != (imageGot[i] != "") || r != imageGot[i] {
				c.Count("multibyte_ifs_bash_differs_from_its_ascii_image", 1)
			}
		}
		for _, d := range diffs {
			s := srcs[d.Index]
			if s.real {
				continue
			}
			t := batch[s.i]
			sh, got, oracleName := cases[d.Index].Want, d.Got, "bash"
			if s.back != nil {
				sh, got = s.back.Replace(sh), s.back.Replace(got)
				oracleName = "bash on the ASCII image"
			}
			f := &vc.Fail{
				Key:   fmt.Sprintf("IFS=%s line=%q %s: %s=%q bash=%q", t.ifsString(), t.Line, t.readCmd(), s.what, sh, got),
				Msg:   fmt.Sprintf("IFS=%s; %s <<< %q: %s gives status|values %q, %s %q", t.ifsString(), t.readCmd(), t.Line, s.what, sh, oracleName, got),
				Class: c23Class(t, sh, got),
			}
			switch {
			case fails[s.i] == nil:
				fails[s.i] = f
			case fails[s.i].Class != f.Class:
				c.Count("interp_and_readfields_differ_differently", 1)
				if f.Class == "" {
					fails[s.i] = f
				}
			}
		}
		return fails
	})
	c.Finish(complete)
}
