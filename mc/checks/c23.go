package checks

import (
	"fmt"
	"strings"

	"mvdan.cc/sh/v3/expand"

	"verif/mc/enum"
	"verif/mc/oracle"
	"verif/mc/vc"
)

func init() { Registry["C23"] = c23 }

// c23Case is one `read` invocation: the text fed through a here-string, the
// IFS (index into c23IFS), how many names are given (0 = REPLY), -r, and -a.
type c23Case struct {
	Line  string `json:"line"`
	IFS   int    `json:"ifs"`
	Names int    `json:"names"`
	Raw   bool   `json:"raw"`
	Array bool   `json:"array"`
}

var c23IFS = []c22IFSVal{{Unset: true}, {Val: ""}, {Val: " "}, {Val: ":"}, {Val: ": "}, {Val: " \t\n"}}

var c23Symbols = []string{"a", "b", " ", "\t", ":", `\`, "\\\n"}

var c23Names = []string{"a", "b", "c"}

func (t c23Case) ifsString() string {
	if c23IFS[t.IFS].Unset {
		return "unset"
	}
	return fmt.Sprintf("%q", c23IFS[t.IFS].Val)
}

// readCmd is the `read` command line (without the here-string).
func (t c23Case) readCmd() string {
	s := "read"
	if t.Raw {
		s += " -r"
	}
	if t.Array {
		return s + " -a arr"
	}
	for _, n := range c23Names[:t.Names] {
		s += " " + n
	}
	return s
}

// code is the shell text run by both shells, except for the final rendering.
func (t c23Case) code() string {
	return c22IFSSetup(c23IFS[t.IFS]) + "; line=" + oracle.ShQuote(t.Line) + "; " + t.readCmd() + ` <<< "$line"; s=$?; `
}

// render is the shell text that renders status and variables: printf into R
// for bash, to stdout for the interpreter.
func (t c23Case) render(bash bool) string {
	pf := "printf "
	if bash {
		pf = "printf -v R "
	}
	switch {
	case t.Array:
		if bash {
			return `printf -v R '<%s>' "${arr[@]}"; R="$s|${#arr[@]}$R"`
		}
		return `printf '%s|%s' "$s" "${#arr[@]}"; printf '<%s>' "${arr[@]}"`
	case t.Names == 0:
		return pf + `'%s|<%s>' "$s" "${REPLY-UNSET}"`
	}
	f := "'%s|"
	args := ` "$s"`
	for _, n := range c23Names[:t.Names] {
		f += "<%s>"
		args += ` "${` + n + `-UNSET}"`
	}
	return pf + f + "'" + args
}

// c23LogicalLine models how `read` gathers its input from text+"\n" (what
// the here-string supplies): with -r up to the first newline; without,
// backslash-newline pairs are removed, a backslash protects the next
// character, and an unprotected newline ends the line. eof reports that the
// input ended before such a newline (read then returns 1). Backslashes
// other than continuations stay in the line for expand.ReadFields.
func c23LogicalLine(text string, raw bool) (line string, eof bool) {
	in := text + "\n"
	if raw {
		i := strings.IndexByte(in, '\n')
		return in[:i], false
	}
	var sb strings.Builder
	for i := 0; i < len(in); i++ {
		switch b := in[i]; {
		case b == '\\' && i+1 < len(in) && in[i+1] == '\n':
			i++
		case b == '\\' && i+1 < len(in):
			sb.WriteByte(b)
			sb.WriteByte(in[i+1])
			i++
		case b == '\n':
			return sb.String(), false
		default: // includes a backslash that is the very last byte (impossible here: input ends in a newline)
			sb.WriteByte(b)
		}
	}
	return sb.String(), true
}

func c23RenderValues(status int, t c23Case, vals []string) string {
	if t.Array {
		return fmt.Sprintf("0:%d|%d<%s>", status, len(vals), strings.Join(vals, "><"))
	}
	out := make([]string, t.Names)
	for i := range out {
		if i < len(vals) {
			out[i] = vals[i]
		}
	}
	return fmt.Sprintf("0:%d|<%s>", status, strings.Join(out, "><"))
}

func c23(c *vc.Ctx) {
	maxLen := vc.Pick(c, 5, 6)
	c.Rule = fmt.Sprintf("every text of <=%d symbols over %q (the last one, backslash-newline, is one symbol) fed with `<<< \"$line\"` (which appends a newline) x IFS in {unset,\"\",\" \",\":\",\": \",\" \\t\\n\"} x {read, read a, read a b, read a b c, read -a arr} x {-r, no -r}. Compared: exit status of read and the value (or unset-ness) of every named variable / REPLY / all array elements, interpreter (fresh Runner) vs bash 5.2 (no-fork eval); for >=1 name and for -a also expand.ReadFields(cfg{IFS}, logical line, n or -1, raw) padded with empty strings vs bash. distinct = distinct (status, values) outcomes", maxLen, c23Symbols)
	c.Assumptions = []string{
		"bash 5.2.15 (LC_ALL=C.utf8) is the oracle for read",
		"expand.ReadFields is given the logical line computed by a 15-line model of read's line gathering (continuations removed, stop at the first unprotected newline); the builtin itself is compared end-to-end without that model",
	}
	c.Reruns = 1

	complete := vc.RunBatch(c, 3000, func(emit func(c23Case)) {
		enum.Strings(c23Symbols, maxLen, func(line string) {
			for ifs := range c23IFS {
				for _, raw := range []bool{false, true} {
					for n := 0; n <= 3; n++ {
						emit(c23Case{Line: line, IFS: ifs, Names: n, Raw: raw})
					}
					emit(c23Case{Line: line, IFS: ifs, Raw: raw, Array: true})
				}
			}
		})
	}, func(batch []c23Case) []*vc.Fail {
		fails := make([]*vc.Fail, len(batch))
		type src struct {
			i    int
			what string
		}
		var cases []oracle.EvalCase
		var srcs []src
		for i, t := range batch {
			code := t.code()
			want := c2xRun(nil, code+t.render(false)+"\n", nil)
			c.Distinct(want)
			bcode := code + t.render(true)
			cases = append(cases, oracle.EvalCase{Code: bcode, Want: want})
			srcs = append(srcs, src{i, "interp"})
			if len(t.Line) >= maxLen && t.IFS == 4 && t.Names == 2 {
				c.Sample(map[string]any{"line": t.Line, "ifs": t.ifsString(), "cmd": t.readCmd(), "interp": want})
			}
			if t.Names >= 1 || t.Array {
				c.Count("readfields_cases", 1)
				var env []string
				if !c23IFS[t.IFS].Unset {
					env = append(env, "IFS="+c23IFS[t.IFS].Val)
				}
				line, eof := c23LogicalLine(t.Line, t.Raw)
				n := t.Names
				if t.Array {
					n = -1
				}
				var vals []string
				if f := guard(fmt.Sprintf("ReadFields IFS=%s line=%q n=%d raw=%v", t.ifsString(), line, n, t.Raw), func() {
					vals = expand.ReadFields(&expand.Config{Env: expand.ListEnviron(env...)}, line, n, t.Raw)
				}); f != nil {
					fails[i] = f
					continue
				}
				status := 0
				if eof {
					status = 1
				}
				if !t.Array && len(vals) > t.Names {
					fails[i] = &vc.Fail{Key: fmt.Sprintf("ReadFields IFS=%s line=%q n=%d raw=%v returned %d fields", t.ifsString(), line, n, t.Raw, len(vals)),
						Msg: fmt.Sprintf("expand.ReadFields(IFS=%s, %q, %d, raw=%v) returned %d fields %q, more than n", t.ifsString(), line, n, t.Raw, len(vals), vals), Class: "readfields-more-than-n"}
					continue
				}
				fw := c23RenderValues(status, t, vals)
				if fw != want {
					cases = append(cases, oracle.EvalCase{Code: bcode, Want: fw})
					srcs = append(srcs, src{i, "expand.ReadFields"})
				}
			}
		}
		diffs, err := oracle.BashEvalBatch("", "unset IFS a b c REPLY arr line s", cases, "")
		if err != nil {
			panic(err)
		}
		for _, d := range diffs {
			s := srcs[d.Index]
			t := batch[s.i]
			sh := cases[d.Index].Want
			f := &vc.Fail{
				Key:   fmt.Sprintf("IFS=%s line=%q %s: %s=%q bash=%q", t.ifsString(), t.Line, t.readCmd(), s.what, sh, d.Got),
				Msg:   fmt.Sprintf("IFS=%s; %s <<< %q: %s gives status|values %q, bash %q", t.ifsString(), t.readCmd(), t.Line, s.what, sh, d.Got),
				Class: c23Class(t, sh),
			}
			switch {
			case fails[s.i] == nil:
				fails[s.i] = f
			case fails[s.i].Class != f.Class:
				c.Count("interp_and_readfields_differ_differently", 1)
				if f.Class == "" {
					fails[s.i] = f
				}
			}
		}
		return fails
	})
	c.Finish(complete)
}
