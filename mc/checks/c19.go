package checks

import (
	"fmt"
	"os"
	"path/filepath"
	"strings"

	"verif/mc/enum"
	"verif/mc/oracle"
	"verif/mc/vc"
)

func init() { Registry["C19"] = c19 }

// c19Case is one (tree, word, option set) triple. Abs: the word is prefixed
// with the quoted absolute path of the tree ("$T"/word).
type c19Case struct {
	Tree int    `json:"tree"`
	Word string `json:"word"`
	Opts int    `json:"opts"`
	Abs  bool   `json:"abs,omitempty"`
}

var c19OptNames = []string{"dotglob", "nullglob", "globstar", "nocaseglob", "extglob", "noglob"}

const (
	c19DotGlob = 1 << iota
	c19NullGlob
	c19GlobStar
	c19NoCaseGlob
	c19ExtGlob
	c19NoGlob
)

func c19OptString(o int) string {
	var out []string
	for i, n := range c19OptNames {
		if o&(1<<i) != 0 {
			out = append(out, n)
		}
	}
	if len(out) == 0 {
		return "-"
	}
	return strings.Join(out, "+")
}

// c19Setup is the shell text that enables an option set (valid for both
// bash and the interpreter). It ends in a newline so that bash parses the
// following word with extglob already in effect.
func c19Setup(o int) string {
	var sb strings.Builder
	var on []string
	for i, n := range c19OptNames[:5] {
		if o&(1<<i) != 0 {
			on = append(on, n)
		}
	}
	if len(on) > 0 {
		sb.WriteString("shopt -s " + strings.Join(on, " ") + "\n")
	}
	if o&c19NoGlob != 0 {
		sb.WriteString("set -f\n")
	}
	return sb.String()
}

var c19Alphabet = []string{"a", "b", "d", "*", "?", "[ab]", "[!a]", "/", ".", "**", `\*`, "@(a|b)", "!(a)", "*(a)", "[", "]"}

func c19HasExtSyntax(w string) bool {
	return strings.Contains(w, "@(") || strings.Contains(w, "!(") || strings.Contains(w, "*(") || strings.Contains(w, "?(") || strings.Contains(w, "+(")
}

// c19Entry describes one directory entry of a tree: a path ending in "/" is
// a directory, "name -> target" a symbolic link, anything else an empty file.
var c19Trees = [][]string{
	// 0: flat, names with metacharacters, case pairs, a dotfile
	{"a", "b", "ab", "B", ".h", "[x]", "a*", "a b"},
	// 1: depth, dot entries at depth, symlinks to a file, to a directory, dangling
	{"a", "d/", "d/a", "d/.h", "d/sub/", "d/sub/a", ".hd/", ".hd/a", ".hd/.h", "l -> a", "ld -> d", "dl -> missing"},
	// 2: everything together
	{"a", "b", "ab", "B", ".h", ".hd/", ".hd/a", "d/", "d/a", "d/b", "d/.h", "d/sub/", "d/sub/a", "[x]", "a*", "a b", "l -> a", "ld -> d", "dl -> missing"},
}

func c19Build(root string) ([]string, error) {
	var dirs []string
	for i, entries := range c19Trees {
		// two extra levels so that "../.." stays inside the scratch directory
		dir := filepath.Join(root, "x", "y", fmt.Sprintf("t%d", i))
		if err := os.MkdirAll(dir, 0o755); err != nil {
			return nil, err
		}
		for _, e := range entries {
			switch {
			case strings.Contains(e, " -> "):
				name, target, _ := strings.Cut(e, " -> ")
				if err := os.Symlink(target, filepath.Join(dir, name)); err != nil {
					return nil, err
				}
			case strings.HasSuffix(e, "/"):
				if err := os.MkdirAll(filepath.Join(dir, e), 0o755); err != nil {
					return nil, err
				}
			default:
				if err := os.WriteFile(filepath.Join(dir, e), nil, 0o644); err != nil {
					return nil, err
				}
			}
		}
		dirs = append(dirs, dir)
	}
	return dirs, nil
}

func c19(c *vc.Ctx) {
	fullLen := vc.Pick(c, 2, 3) // words up to this many symbols get all 64 option sets
	maxLen := fullLen + 1       // words of exactly this many symbols get the reduced sets
	reduced := []int{0, c19DotGlob, c19NullGlob, c19GlobStar, c19NoCaseGlob, c19ExtGlob, c19NoGlob, c19DotGlob | c19NullGlob | c19GlobStar | c19NoCaseGlob | c19ExtGlob}
	c.Rule = fmt.Sprintf("3 fixed trees %q (built per run in a scratch directory; \"x/\" directory, \"x -> y\" symlink) x all words of <=%d symbols over %q x all 64 subsets of %v, plus all words of exactly %d symbols x the 8 option sets {none, each single option, all five shopt options} (for words with extglob syntax extglob is added to each), plus for every word of <=%d symbols the absolute form \"$T\"/word (T = the tree) x those 8 sets. One evaluation = interpreter `<setup>; printf '%%s\\n' word` in the tree vs bash 5.2 `printf -v R '%%s\\n' word` (eval, same setup, same tree). Excluded and counted: words with extglob syntax while extglob is off (bash syntax error at parse time); words starting with '/' (they would glob the real root directory; the absolute form covers absolute paths). distinct = distinct (tree, result list)", c19Trees, fullLen, c19Alphabet, c19OptNames, maxLen, fullLen)
	c.Assumptions = []string{
		"bash 5.2.15 with LC_ALL=C.utf8 (code point collation, identical to LC_ALL=C for the ASCII-only names used) is the oracle; globskipdots is at its 5.2 default (on)",
		"the scratch trees live under os.TempDir on a case-sensitive file system",
		"a failure is a known finding only if c19Classify accounts for the whole difference between the two lists (see c19_classes.go); the backslash family is confirmed by re-running the interpreter with the star in single quotes",
	}
	c.Reruns = 1
	root, err := os.MkdirTemp("", "c19-")
	if err != nil {
		panic(err)
	}
	trees, err := c19Build(root)
	if err != nil {
		os.RemoveAll(root)
		panic(err)
	}
	complete := vc.RunBatch(c, 1500, func(emit func(c19Case)) {
		for tree := range c19Trees {
			// different symbol sequences can spell the same word ("*"+"**" and "**"+"*")
			seenWord := map[string]bool{}
			enum.Seqs(c19Alphabet, maxLen, func(seq []string) {
				w := strings.Join(seq, "")
				if seenWord[w] {
					return
				}
				seenWord[w] = true
				sets := reduced
				if len(seq) <= fullLen {
					sets = nil
					for o := 0; o < 64; o++ {
						sets = append(sets, o)
					}
				}
				ext := c19HasExtSyntax(w)
				seen := map[int]bool{}
				for _, o := range sets {
					if ext && len(seq) > fullLen {
						o |= c19ExtGlob
					}
					if seen[o] {
						continue
					}
					seen[o] = true
					emit(c19Case{Tree: tree, Word: w, Opts: o})
				}
				if len(seq) <= fullLen {
					seenAbs := map[int]bool{}
					for _, o := range reduced {
						if ext {
							o |= c19ExtGlob
						}
						if seenAbs[o] {
							continue
						}
						seenAbs[o] = true
						emit(c19Case{Tree: tree, Word: w, Opts: o, Abs: true})
					}
				}
			})
		}
	}, func(batch []c19Case) []*vc.Fail {
		fails := make([]*vc.Fail, len(batch))
		type pend struct {
			idx int
			sh  c19ShResult
		}
		cases := make([][]oracle.EvalCase, len(trees))
		pends := make([][]pend, len(trees))
		for i, t := range batch {
			if c19HasExtSyntax(t.Word) && t.Opts&c19ExtGlob == 0 {
				c.Count("excluded_extglob_syntax_while_off", 1)
				continue
			}
			if strings.HasPrefix(t.Word, "/") && !t.Abs {
				c.Count("excluded_root_relative", 1)
				continue
			}
			key := c19Key(t)
			sh := c19Sh(trees[t.Tree], t, t.Word)
			if sh.Panic != "" {
				fails[i] = &vc.Fail{Key: key + " panic", Msg: key + ": the interpreter panicked: " + c19FirstLine(sh.Panic), Detail: sh.Panic, Class: "panic"}
				continue
			}
			if sh.ParseErr != "" {
				fails[i] = &vc.Fail{Key: key + " parse", Msg: fmt.Sprintf("%s: the interpreter's parser rejects the program: %s", key, sh.ParseErr)}
				continue
			}
			c.Distinct(fmt.Sprintf("t%d %s", t.Tree, sh.Res))
			if len(t.Word) > 3 && strings.Count(sh.Res, "\n") > 2 {
				c.Sample(map[string]any{"tree": t.Tree, "word": t.Word, "opts": c19OptString(t.Opts), "result": c19Lines(sh.Res)})
			}
			code := c19Setup(t.Opts) + "printf -v R '%s\\n' " + c19Show(t) + "\nR=${R//\"$T\"/\\$T}"
			cases[t.Tree] = append(cases[t.Tree], oracle.EvalCase{Code: code, Want: sh.Res})
			pends[t.Tree] = append(pends[t.Tree], pend{i, sh})
		}
		for ti := range trees {
			if len(cases[ti]) == 0 {
				continue
			}
			diffs, err := oracle.BashEvalBatch("T=$PWD", "shopt -u dotglob nullglob globstar nocaseglob extglob; set +f", cases[ti], trees[ti])
			if err != nil {
				panic(err)
			}
			for _, d := range diffs {
				p := pends[ti][d.Index]
				t := batch[p.idx]
				fails[p.idx] = &vc.Fail{
					Key:    c19Key(t) + " -> " + c19Short(p.sh.Res),
					Class:  c19Classify(t, trees[ti], p.sh, d.Got),
					Msg:    fmt.Sprintf("tree %d, word %s, options %s: sh %q, bash %q", t.Tree, c19Show(t), c19OptString(t.Opts), p.sh.Res, d.Got),
					Detail: map[string]any{"tree": c19Trees[t.Tree], "sh": p.sh.Res, "sh_stderr": p.sh.Stderr, "bash": d.Got},
				}
			}
		}
		return fails
	})
	os.RemoveAll(root)
	c.Finish(complete)
}

func c19Key(t c19Case) string {
	return fmt.Sprintf("t%d %q opts=%s abs=%v", t.Tree, t.Word, c19OptString(t.Opts), t.Abs)
}

// c19ShResult is what the interpreter produced for one case.
type c19ShResult struct {
	Res      string // "status:stdout" with the tree path replaced by $T
	Stderr   string
	ParseErr string
	Panic    string
}

// c19Sh runs the interpreter for case t but with the given word (the
// classifier re-evaluates variants of the word).
func c19Sh(tree string, t c19Case, word string) c19ShResult {
	if t.Abs {
		word = `"$T"/` + word
	}
	res := oracle.RunInterp(c19Setup(t.Opts)+"printf '%s\\n' "+word+"\n", oracle.InterpOpts{Dir: tree, Env: []string{"T=" + tree}})
	if res.Panicked {
		return c19ShResult{Panic: res.Fatal}
	}
	if res.ParseErr != "" {
		return c19ShResult{ParseErr: res.ParseErr}
	}
	out := c19ShResult{Res: fmt.Sprintf("%d:%s", res.Status, strings.ReplaceAll(res.Stdout, tree, "$T")), Stderr: strings.ReplaceAll(res.Stderr, tree, "$T")}
	if res.Fatal != "" {
		out.Res = "fatal:" + res.Fatal
	}
	return out
}

// c19Lines splits a "status:stdout" result into its lines.
func c19Lines(r string) []string {
	_, body, _ := strings.Cut(r, ":")
	if body == "" || body == "\n" {
		return nil // nothing printed, or printf without arguments
	}
	return strings.Split(strings.TrimSuffix(body, "\n"), "\n")
}

func c19Show(t c19Case) string {
	if t.Abs {
		return `"$T"/` + t.Word
	}
	return t.Word
}

func c19Short(s string) string {
	if len(s) > 80 {
		return s[:80] + "..."
	}
	return s
}

func c19FirstLine(s string) string {
	if i := strings.IndexByte(s, '\n'); i >= 0 {
		return s[:i]
	}
	return s
}
