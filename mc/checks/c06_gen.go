package checks

import (
	"bytes"
	"fmt"
	"os"
	"strings"

	"verif/mc/enum"
	"verif/mc/synt"
	"verif/mc/vc"
)

// c06Bytes is the byte-level alphabet: every shell metacharacter, a letter,
// a digit, blanks, line ends, NUL, a UTF-8 continuation byte alone, a UTF-8
// lead byte alone, 0xFF, and one well-formed two-byte rune.
var c06Bytes = []string{
	"$", "`", "\"", "'", "\\", "(", ")", "{", "}", "[", "]", "<", ">", "|", "&", ";", "#", "=", "!", "*", "?", "~",
	"+", "-", "/", ":", ",", "%", "@", "^", ".",
	"a", "1", " ", "\t", "\n", "\r", "\x00", "\x80", "\xc3", "\xff", "é",
}

// c06BytesLong is the alphabet of the longest byte strings of the thorough
// tier (length 4): c06Bytes without ten items that need a longer context to
// mean anything.
var c06BytesLong = func() []string {
	drop := map[string]bool{"+": true, ",": true, "%": true, "^": true, ".": true, "/": true, "\r": true, "\x80": true, "\t": true, "~": true}
	var out []string
	for _, b := range c06Bytes {
		if !drop[b] {
			out = append(out, b)
		}
	}
	return out
}()

// c06Tokens is the token-level alphabet: reserved words, operators, and the
// openers/closers of every variant.
var c06Tokens = []string{
	"if", "then", "elif", "else", "fi", "for", "select", "while", "until", "do", "done", "case", "esac", "in",
	"function", "time", "coproc", "let", "declare", "[[", "]]", "!", "{", "}", "(", ")", "((", "))",
	";", ";;", ";&", ";|", "&", "&&", "|", "||", "|&", "<", ">", "<<", "<<-", "<<<", "<(", ">&", "&>",
	"$(", "$((", "${", "`", "\"", "'", "$'", "$[", "${|", "=", "=(", "a", "1", "$a", "#", "\\", "\n",
	"[", "]", "@(", "*", "~", "-", ":-", "/", "EOF", "=~", "foreach", "always", "@test", "${(",
}

// c06MutBytes are the bytes inserted/substituted into corpus programs in the
// quick tier (the thorough tier uses all of c06Bytes).
var c06MutBytes = []string{"$", "`", "\"", "'", "\\", "(", ")", "{", "}", ";", "\n", "<", "#", " ", "\x00", "\xc3"}

type c06SpaceT struct {
	// byte strings / token sequences up to these lengths under the full,
	// reduced and minimal configuration sets
	Bytes        [3]int
	Tokens       [3]int
	CorpusSet    int
	MutAlphabet  []string
	MutDelMaxLen int  // programs up to this length get every single-byte deletion
	MutMaxLen    int  // corpus programs up to this length are mutated (minimal set)
	PumpLen      int  // |w| for the pumped families w = u v x of the crash oracle
	PumpK        int  // repetitions in the crash oracle
	CostLen      int  // |w| for the cost-growth families
	Closers      bool // token-level pumps also with every closer as suffix
	counts       map[string]int
}

func c06Space(c *vc.Ctx) *c06SpaceT {
	return &c06SpaceT{
		Bytes:        vc.Pick(c, [3]int{3, 2, 1}, [3]int{4, 3, 2}),
		Tokens:       vc.Pick(c, [3]int{2, 1, 1}, [3]int{3, 2, 1}),
		CorpusSet:    vc.Pick(c, 0, 2),
		MutAlphabet:  vc.Pick(c, c06MutBytes, c06Bytes),
		MutMaxLen:    vc.Pick(c, 3, 10),
		MutDelMaxLen: vc.Pick(c, 20, 400),
		PumpLen:      2, PumpK: 64,
		CostLen: 2, Closers: !c.Quick(),
		counts: map[string]int{},
	}
}

func (s *c06SpaceT) setFor(lens [3]int, n int) int {
	switch {
	case n <= lens[2]:
		return 2
	case n <= lens[1]:
		return 1
	}
	return 0
}

func (s *c06SpaceT) describe() string {
	return fmt.Sprintf("inputs: (a) every byte string over the %d-item alphabet %q of length <=%d under the full configuration set, <=%d under the reduced set, <=%d under the minimal set (length 4 over the %d items %q); "+
		"(b) every sequence over the %d-token alphabet %q, joined both with single spaces and with nothing, of <=%d tokens (full set), <=%d (reduced), <=%d (minimal); "+
		"(c) every program of the syntax test corpus (%d string literals of syntax/*_test.go; set %d) and its 1-edit mutants: every program of <=%d bytes with each byte deleted, and for programs of <=%d bytes also each byte replaced by and each gap filled with each of %d bytes (minimal set); "+
		"(d) pumped inputs u v^%d x for every split w=u.v.x (v non-empty) of every byte string w of length <=%d, and for every token v (followed by nothing, a space or a newline) after each of %d opening contexts u (quick: the first 10; closers x: %v) (minimal set); balanced nests o^k core c^k for %d opener/closer pairs, k in {2,8,%d} (full set). "+
		"Full configuration set = 5 variants x KeepComments{off,on} x StopAt{none,\"$$\"} x RecoverErrors{0,1,3} x {Parse, StmtsSeq, WordsSeq, InteractiveSeq, Document, Arithmetic} = 360; reduced = 5 variants x 6 entry points x 4 option triples = 120; minimal = x 2 option triples = 60 (every option value with every variant and entry point); an iterator entry point that yields anything is run again with a consumer that stops after the first item. "+
		"Oracle per (input, configuration): the call returns without panic and within the hang limit; every non-nil tree it returns or yields with a nil error (including trees with recovered positions) goes through Walk (Pos/End of every node), Print under %d printer configurations (default; all layout options on with KeepPadding; Minify; SingleLine), typedjson.Encode and Simplify without panic; within one input, trees with equal (node types, positions, literal values, default printed text) are consumed once. "+
		"(e) cost growth: for every split of every byte string of length <=%d and the token families of (d), under 5 variants x 6 entry points, the parse cost of u v^k x (heap objects, heap bytes, thread CPU time if >= 2 ms) at k=1024 must be below 8x the cost at k=256 (linear: 4x, quadratic: 16x); thorough also every closer as suffix of the token families, and k=4096 vs 1024 for the byte-string families and the token families without closer. (d2/e2) both the crash oracle (64-fold) and the cost oracle also get the multi-token families of c06_cost2.go: units pre+t1+j+t2+term for token pairs (t1,t2) (quick: t1 or t2 in %q; thorough: also every ordered pair, pre \"\"), j in {\"\",\" \"}, (term,pre) in {(\" \",\"\"),(\"; \",\"\"),(\"; \",\"a \"),(\"\\n\",\"\")}, each unit with operand t2 also in the two-part form unit^k LF (t2 LF)^k (k here-documents opened on one line, then their k bodies); cost only: the %d balanced nests o^k core c^k with core in {a, empty}, k=256 vs 1024. "+
		"(f) parser reuse: the main enumeration keeps one Parser per worker and option set together with the calls made on it for the last %d inputs; a failure that does not repeat on a new Parser is re-run as that call sequence on ONE new Parser, reduced to a pair (earlier call, failing call) when possible, and reported/replayed as such (kind reuse). Dedicated family: candidate = prefix + construct + tail, prefixes %q (thorough: %q), constructs %q (thorough: also every token), tails %q; for each of 60 option sets (5 variants x KeepComments x StopAt x RecoverErrors{0,1,3}) and 9 ways to run the candidate (6 entry points, iterators also stopping after the first item): one new Parser on which candidate and probe alternate over %d probes (3 inputs x 6 entry points), every call judged like any other. "+
		"distinct = distinct (entry point, items, node count, error message) outcomes",
		len(c06Bytes), c06Bytes, s.Bytes[2], s.Bytes[1], s.Bytes[0], len(c06BytesLong), c06BytesLong, len(c06Tokens), c06Tokens, s.Tokens[2], s.Tokens[1], s.Tokens[0],
		len(synt.SyntaxCorpus()), s.CorpusSet, s.MutDelMaxLen, s.MutMaxLen, len(s.MutAlphabet), s.PumpK, s.PumpLen, len(c06PumpCtx), s.Closers, len(c06Nests), s.PumpK, len(c06PrintCfgs), s.CostLen,
		c06UnitOperands, len(c06Nests), c06HistInputs, c06ReusePrefixesQuick, c06ReusePrefixes, c06ReuseOpeners, c06ReuseTails, len(c06ReuseProbes))
}

// c06Openers/closers are the tokens used as context of token-level pumps.
var c06PumpCtx = []string{"", "(", "$(", "$((", "((", "${", "${a:-", "\"", "`", "{ ", "[[ ", "a=(", "<<EOF\n", "a[", "$'", "'", "case a in ", "if ", "<(", "@(", "$[", "#", "a=", "${a/", "\"$(", "\"${"}
var c06PumpClose = []string{"", ")", "))", "}", "\"", "`", "]]", "\nEOF\n", "]", "'", ";; esac", "; fi", "; }"}

// pumpFamilies calls f with every (u, v, x) of the pumped families: splits
// of byte strings of length <= n, plus token-level ones.
func c06PumpFamilies(n int, closers bool, f func(wlen int, u, v, x []byte)) {
	ctx := c06PumpCtx
	if !closers {
		ctx = ctx[:10] // quick tier
	}
	seen := map[string]bool{}
	wlen := 0
	emit := func(u, v, x string) {
		k := u + "\x01\x02" + v + "\x01\x02" + x
		if seen[k] {
			return
		}
		seen[k] = true
		f(wlen, []byte(u), []byte(v), []byte(x))
	}
	enum.Seqs(c06Bytes, n, func(w []string) {
		wlen = len(w)
		for i := 0; i < len(w); i++ {
			for j := i + 1; j <= len(w); j++ {
				u, v, x := "", "", ""
				for _, s := range w[:i] {
					u += s
				}
				for _, s := range w[i:j] {
					v += s
				}
				for _, s := range w[j:] {
					x += s
				}
				emit(u, v, x)
			}
		}
	})
	wlen = 0
	for _, v := range c06Tokens {
		for _, sep := range []string{"", " ", "\n"} {
			for _, u := range ctx {
				for _, x := range c06PumpClose {
					if x == "" || closers {
						emit(u, v+sep, x)
					}
				}
			}
		}
	}
}

// c06Nests are opener/closer pairs for balanced deep nesting o^k core c^k.
var c06Nests = [][2]string{
	{"(", ")"}, {"$(", ")"}, {"{ ", "; }"}, {"\"$(", ")\""}, {"${a:-", "}"}, {"$((", "))"}, {"((", "))"}, {"a[", "]"}, {"`", "`"},
	{"if ", "; then a; fi"}, {"while ", "; do a; done"}, {"! ", ""}, {"a | ", ""}, {"a && ", ""}, {"f() ", ""}, {"[[ ! ", " ]]"}, {"[[ ( ", " ) ]]"},
	{"case a in a) ", ";; esac"}, {"<(", ")"}, {"a=(", ")"}, {"${a/", "}"}, {"@(", ")"}, {"$((1+", "))"}, {"$((-", "))"}, {"(", "+1)"}, {"a ? ", " : a"}, {"a=", ""},
	{"time ", ""}, {"coproc ", ""}, {"function f ", ""}, {"a <<EOF\n", "\nEOF\n"}, {"${a:", "}"}, {"${a[", "]}"}, {"$[", "]"}, {"for a in a; do ", "; done"}, {"{", "}"}, {"a{", "}"},
}

func c06Pump(u, v, x []byte, k int) []byte {
	out := make([]byte, 0, len(u)+k*len(v)+len(x))
	out = append(out, u...)
	for i := 0; i < k; i++ {
		out = append(out, v...)
	}
	return append(out, x...)
}

func (s *c06SpaceT) gen(emit func(c06Case)) {
	kinds := os.Getenv("VERIF_C06_KINDS") // development aid: only these input kinds
	put := func(kind string, src []byte, set int) {
		if kinds != "" && !strings.Contains(kinds, kind) {
			return
		}
		s.counts[kind]++
		emit(c06Case{Kind: kind, Src: src, Text: fmt.Sprintf("%q", src), Set: set})
	}
	// The longest byte strings and token sequences are by far the largest
	// sets; they go last so that a time budget cut leaves the other sets whole.
	last := false
	// (f) parser-reuse family: small, goes first
	if kinds == "" || strings.Contains(kinds, "reusefam") {
		c06ReuseInputs(s.Closers, func(src []byte) {
			s.counts["reusefam"]++
			emit(c06Case{Kind: "reusefam", Src: src, Text: fmt.Sprintf("%q", src)})
		})
	}
	// (a)
	enum.Seqs(c06Bytes, s.Bytes[0], func(w []string) {
		if (len(w) == s.Bytes[0]) != last {
			return
		}
		var b []byte
		for _, x := range w {
			b = append(b, x...)
		}
		put("bytes", b, s.setFor(s.Bytes, len(w)))
	})
	// (b)
	enum.Seqs(c06Tokens, s.Tokens[0], func(w []string) {
		if len(w) == 0 || (len(w) == s.Tokens[0]) != last {
			return
		}
		for _, sep := range []string{" ", ""} {
			var b []byte
			for i, x := range w {
				if i > 0 {
					b = append(b, sep...)
				}
				b = append(b, x...)
			}
			put("tokens", b, s.setFor(s.Tokens, len(w)))
			if len(w) == 1 {
				break
			}
		}
	})
	// (c)
	corpus := synt.SyntaxCorpus()
	for _, src := range corpus {
		put("corpus", []byte(src), s.CorpusSet)
	}
	seen := map[string]bool{}
	mut := func(b []byte) {
		if seen[string(b)] {
			return
		}
		seen[string(b)] = true
		put("mutant", b, 0)
	}
	for _, src := range corpus {
		if len(src) > s.MutDelMaxLen {
			continue
		}
		clear(seen)
		seen[src] = true
		b := []byte(src)
		for i := 0; i <= len(b); i++ {
			if i < len(b) {
				mut(append(bytes.Clone(b[:i]), b[i+1:]...))
			}
			if len(src) > s.MutMaxLen {
				continue
			}
			for _, a := range s.MutAlphabet {
				ins := append(append(bytes.Clone(b[:i]), a...), b[i:]...)
				mut(ins)
				if i < len(b) && string(b[i]) != a {
					mut(append(append(bytes.Clone(b[:i]), a...), b[i+1:]...))
				}
			}
		}
	}
	// (d)
	c06PumpFamilies(s.PumpLen, s.Closers, func(_ int, u, v, x []byte) {
		put("pump", c06Pump(u, v, x, s.PumpK), 0)
	})
	c06UnitFamilies(s.Closers, func(fm c06Fam) {
		if len(fm.M) == 0 && len(fm.W) == 0 || string(fm.M) == "\n" { // the nests are below
			put("pump", fm.pump(nil, s.PumpK), 0)
		}
	})
	for _, n := range c06Nests {
		for _, core := range []string{"a", "", "1", "\"a\""} {
			for _, k := range []int{2, 8, s.PumpK} {
				var b []byte
				for i := 0; i < k; i++ {
					b = append(b, n[0]...)
				}
				b = append(b, core...)
				for i := 0; i < k; i++ {
					b = append(b, n[1]...)
				}
				put("nest", b, 2)
			}
		}
	}
	last = true
	// (b), longest
	enum.Seqs(c06Tokens, s.Tokens[0], func(w []string) {
		if len(w) != s.Tokens[0] {
			return
		}
		for _, sep := range []string{" ", ""} {
			var b []byte
			for i, x := range w {
				if i > 0 {
					b = append(b, sep...)
				}
				b = append(b, x...)
			}
			put("tokens", b, s.setFor(s.Tokens, len(w)))
			if len(w) == 1 {
				break
			}
		}
	})
	// (a), longest
	alpha := c06Bytes
	if s.Bytes[0] >= 4 {
		alpha = c06BytesLong
	}
	enum.Seqs(alpha, s.Bytes[0], func(w []string) {
		if len(w) != s.Bytes[0] {
			return
		}
		var b []byte
		for _, x := range w {
			b = append(b, x...)
		}
		put("bytes", b, s.setFor(s.Bytes, len(w)))
	})
}
