package checks

// c02Extra are hand-written programs whose ORIGINAL layout deviates from the
// canonical one in ways the shared grammar's single-gap layout deviations do
// not produce (two deviations at once, comments next to operators, nested
// parentheses split over lines, here-documents closed by a backquote, chains
// of [[ ]] negations for Simplify). They are formatted with the full
// configuration set, in every variant in which they parse.
var c02Extra = []string{
	// Simplify needing more than one pass
	"[[ ! ! ! -n a ]]", "[[ ! ! ! a = b ]]", "[[ ! ( ! a = b ) ]]", "[[ ! ! a ]]", "[[ ! ( a = b ) ]]", "[[ ! a == b && ! -z c ]]",
	"echo $(( $x + ${y} ))", "(( $x )); a[$i]=1", "( ( a ) )", "$( ( a ) )", "\"a\\$b\"", "[[ \"$a\" == \"b\" ]]",
	// nested parentheses over several lines
	"( (\nfoo\n)\n)", "( ( foo )\n)", "(\n( foo ) )", "$( (\nfoo\n)\n)", "$( ( foo )\n)", "( ( a ); ( b ) )", "( a; ( b ) )", "( a\n( b ) )",
	"( ( a ) | ( b ) )", "( ( a ) && ( b )\n)", "( ((x)) )", "( ((x))\n)", "(\n((x)) )", "$( ((x))\n)", "f() ( (a) )", "f() ( (a)\n)", "<( (a) )", "<( (a)\n)",
	"( ( a ) # c\n)", "( # c\n( a ) )", "((x)) && ( (a) )",
	// here-documents and closing delimiters
	"a `foo <<EOF\nbar\nEOF` b", "`a; foo <<-EOF\n\tbar\n\tEOF`", "`foo <<EOF | b\nbar\nEOF`", "a $(foo <<EOF\nbar\nEOF\n) b", "echo \"$(cat <<EOF\nx\nEOF\n)\" y",
	"echo \"`cat <<EOF\nx\nEOF`\"", "( foo <<EOF\nbar\nEOF\n)", "{ foo <<EOF\nbar\nEOF\n}", "a <<E && b\nx\nE", "a <<E; b <<F\nx\nE\ny\nF", "a <<E |\nx\nE\nb", "a <<E &\nx\nE\nb",
	"if a <<E; then b; fi\nx\nE", "while a <<E\nx\nE\ndo b; done", "f() { a <<E; }\nx\nE", "a <<E # c\nx\nE", "f <<EOF # inline\n$(a)\nEOF\nbar", "f <<EOF # c\nbody\nEOF\nbar",
	"{ f <<EOF # c\n$(a)\nEOF\nbar; }", "a <<E\n$(b <<F\ny\nF\n)\nE", "a <<E\n`b <<F\ny\nF`\nE", "a <<-E\n\t$(b)\n\tE\nc",
	// comments next to operators and keywords
	"a | # c\nb", "a && # c\nb", "a || b # c\n", "if a # c\nthen b # d\nfi # e", "if a; then # c\nb\nelse # d\ne\nfi", "case x in # c\na) b ;; # d\n# e\nesac", "case x in\n# c\na) # d\nb ;;\nesac",
	"a=( # c\n1 # d\n2\n)", "a=(\n# c\n1\n)", "f() { # c\na\n}", "f() # c\n{ a; }", "while a # c\ndo b; done", "while a; do # c\nb; done", "for i # c\ndo a; done", "for i in a b # c\ndo a; done # d",
	"select i # c\ndo a; done", "select i in a b; do # c\na; done", "{ a; } # c\nb", "a # c1\n# c2\n\n# c3\nb", "( # c\na )", "$( # c\na )", "$(a # c\n)", "a; # c\nb", "a & # c\nb", "# c\n\n\na", "a\n\n\n# c",
	"{ # c\n}", "{ a # c\n}", "( a # c\n)", "a | b # c\n| d", "a && b || # c\nd", "! a # c\n", "time a # c\n", "[[ a && # c\nb ]]", "[[ a # c\n]]", "(( x )) # c\n", "a >f # c\n", ">f # c\n", "a=1 # c\n", "a=1 b # c\n",
	"`# c`", "`a # c`", "$(# c\n)", "echo `# c` a", "a \\\n# c\nb",
	// escaped newlines and separators
	"a && \\\nb", "a |\\\n b", "a; \\\nb", "foo \\\n>f", "a=1 \\\nb=2 \\\nc", "a \\\n\\\nb", "a \\\n\n", "a \\\n&& b", "a \\\n| b", "a \\\n; b", "a &&\n\nb", "a |\n\n\nb", "a;b;c", "a &\nb &", "a;\n\n\n\nb",
	"if a; then b; fi; c", "{ a; }; b", "{ a; } && b", "{ a\n} | b", "a && {\nb\n}", "a | {\nb\n} | c", "a && b |\nc", "a |\nb && c", "a &&\nb |\nc ||\nd", "a && b &&\nc", "a &&\nb && c",
	"foo \\\n\tbar \\\n\t\tbaz", "foo bar \\\nbaz >f \\\n2>g", "a=b \\\nfoo", "[[ a &&\nb ]]", "[[ a \\\n&& b ]]", "(( a +\nb ))", "echo $(( a +\nb ))", "a=(1\n2 3\n\n4)", "a=(\n1 2\n)", "for i in a \\\nb; do c; done",
	// case and function layouts
	"case x in a) b ;; esac", "case x in\na)\nb\n;;\nesac", "case x in a) ;; b) ;& c) ;;& esac", "case x in (a) b;; esac", "case x in a) b\nesac", "case x in a) b;;\n\nc) d;; esac", "case x in a|\nb) c;; esac",
	"case x in a) b; c;; esac", "case x in a) b ;;\nc)\n;; esac", "case x\nin a) b;; esac", "f() { a; }", "function f { a; }", "f()\n{\na\n}", "f() (a)", "f() { a; b; }", "f() {\n\na\n\n}", "f()\n\n{ a; }", "function f()\n{ a; }",
	"if a; then\nb; fi", "if a\nthen b\nelse c\nfi", "if a; then b; elif c; then d; else e; fi", "if a; then b\nelif c; then\nd; fi", "while a; do\nb; done", "until a\ndo b\ndone", "for ((;;)); do a; done", "for ((i=0;\ni<1;\ni++)); do a; done",
	"a() { b; }; c", "{ a; b; }", "{\na; b\n}", "( a; b )", "(a\nb)", "(a;b) | c", "! a | b", "! { a; }", "coproc a { b; }", "coproc a=1 b=2 c | d", "coproc a=1 c", "time -p a | b", "time { a; }",
}
