package checks

import (
	"os"
	"strings"

	"verif/mc/enum"
	"verif/mc/synt"
)

// G_simp: runnable programs built around every shape syntax.Simplify can
// rewrite. Every program is prelude + one snippet + epilogue; prelude and
// epilogue contain nothing Simplify touches. The variables that occur in
// arithmetic hold plain integers (x=3 y=4 n=-2 i=1 j=2, arr=(5 6 7), the
// values of the associative array m).

const c04PreBash = `echo start
ret() { return $1; }
x=3 y=4 n=-2 i=1 j=2 s=abcdefg e= p='*' w='a b' r=
arr=(5 6 7)
declare -A m=([1]=11 [i]=12 [2]=13 ["i+1"]=14 ["1+1"]=15 [3]=16 [x]=17 ["i + 1"]=18)
set -- 1 2 3
`

const c04EpiBash = `
st=$?
echo "x=$x y=$y i=$i j=$j r=$r arr=${arr[*]} m=${m[1]},${m[i]},${m[2]},${m["i+1"]},${m["1+1"]},${m[3]},${m[x]},${m["i + 1"]},${m[4]},${m[9]},${#m[@]}"
ret $st
`

const c04PrePosix = `echo start
ret() { return $1; }
x=3 y=4 n=-2 i=1 j=2 s=abcdefg e= p='*' w='a b' r=
set -- 1 2 3
`

const c04EpiPosix = `
st=$?
echo "x=$x y=$y i=$i j=$j r=$r"
ret $st
`

type c04Snip struct {
	Fam  string
	Text string
}

// c04Arith enumerates the arithmetic family.
func c04Arith(thorough bool, emit func(c04Snip)) {
	atomsSmall := []string{"$x", "${y}", "x", "2", "$n", "arr[$i]", "$((x+1))", "($x)"}
	atomsFull := append(append([]string{}, atomsSmall...), "${arr[$i]}", "${m[$i]}")
	ops := []string{"+", "-", "*", "/", "%", "**", "<", "==", "&&", "||", ",", "=", "+=", "<<", "&"}
	pureOps := []string{"+", "-", "*", "<", "==", "&&", ","}
	atoms := atomsSmall
	if thorough {
		atoms = atomsFull
	} else {
		// the quick tier is a smoke subset sized for a heavily loaded machine
		atoms = []string{"$x", "${y}", "2", "($x)", "arr[$i]"}
		ops = []string{"+", "-", "*", "<", ",", "="}
	}
	// expression shapes
	type expr struct {
		s    string
		pure bool // no assignment / increment: safe in loop conditions
		lvl  int  // 1 = single atom, 2 = unary, 3 = binary, 4 = deeper
	}
	var exprs []expr
	isPureAtom := func(a string) bool { return true }
	for _, a := range atoms {
		exprs = append(exprs, expr{a, isPureAtom(a), 1})
	}
	for _, a := range atoms {
		for _, u := range []string{"-", "!", "~", "+", "++", "--", "- "} {
			exprs = append(exprs, expr{u + a, u != "++" && u != "--", 2})
		}
		exprs = append(exprs, expr{a + "++", false, 2}, expr{a + "--", false, 2}, expr{"(" + a + ")", true, 2}, expr{"((" + a + "))", true, 2})
	}
	isPureOp := func(op string) bool {
		for _, p := range pureOps {
			if p == op {
				return true
			}
		}
		return false
	}
	for _, a := range atoms {
		for _, op := range ops {
			for _, b := range atoms {
				exprs = append(exprs, expr{a + " " + op + " " + b, isPureOp(op), 3})
			}
		}
	}
	// compact binary forms and ternaries over a small set
	small := []string{"$x", "${y}", "x", "2", "($x)", "arr[$i]"}
	if !thorough {
		small = []string{"$x", "${y}", "x", "2"}
	}
	for _, a := range small {
		for _, op := range []string{"+", "-", "*", "=", ","} {
			for _, b := range small {
				exprs = append(exprs, expr{a + op + b, isPureOp(op), 3})
			}
		}
		for _, b := range small {
			for _, cc := range small[:4] {
				exprs = append(exprs, expr{a + " ? " + b + " : " + cc, true, 4})
			}
		}
	}
	// depth 2
	deepAtoms := []string{"$x", "($y)"}
	deepOps := []string{"+", "="}
	if thorough {
		deepAtoms = []string{"$x", "2", "($y)"}
		deepOps = []string{"+", "*", "=", ","}
	}
	for _, a := range deepAtoms {
		for _, o1 := range deepOps {
			for _, b := range deepAtoms {
				for _, o2 := range deepOps {
					for _, cc := range deepAtoms {
						p := isPureOp(o1) && isPureOp(o2)
						exprs = append(exprs,
							expr{a + " " + o1 + " " + b + " " + o2 + " " + cc, p, 4},
							expr{"(" + a + " " + o1 + " " + b + ") " + o2 + " " + cc, p, 4},
							expr{a + " " + o1 + " (" + b + " " + o2 + " " + cc + ")", p, 4},
							expr{"((" + a + " " + o1 + " " + b + ")) " + o2 + " (" + cc + ")", p, 4},
						)
					}
				}
			}
		}
	}
	seen := map[string]bool{}
	for _, e := range exprs {
		if seen[e.s] {
			continue
		}
		seen[e.s] = true
		E := e.s
		out := func(fam, text string) { emit(c04Snip{fam, text}) }
		out("arith-exp", "echo $(( "+E+" ))")
		out("arith-cmd", "(( "+E+" )); echo $?")
		out("arith-slice", "echo ${s:"+E+"}")
		out("arith-index", "echo ${arr["+E+"]}")
		out("arith-assign-index", "arr["+E+"]=9")
		out("arith-assoc-index", "echo ${m["+E+"]}")
		if e.lvl <= 3 {
			out("arith-slice", "echo ${s:$i:"+E+"}")
			out("arith-slice", "echo ${s:("+E+"):($j)}")
			out("arith-assoc-assign", "m["+E+"]=9")
			out("arith-nested", "echo $(( $(( "+E+" )) * $x ))")
		}
		if e.lvl <= 3 && thorough {
			out("arith-let", "let \"r = "+E+"\"; echo $?")
			out("arith-nested", "echo $(( arr["+E+"] + ${arr[("+E+")]} ))")
			out("arith-compact", "echo $(("+E+"))")
			out("arith-bracket", "echo $[ "+E+" ]")
			out("arith-slice", "echo ${s:"+E+":$j}")
			out("arith-slice", "echo \"${arr[@]:"+E+":2}\"") // not ${@:E}: offset 0 includes $0, the name of the script
			out("arith-assign", "r=$(( ("+E+") )); echo $r")
			out("arith-if", "if (( ("+E+") )); then echo t; else echo f; fi")
			out("arith-elem", "arr+=(["+E+"]=8)")
			if !strings.Contains(E, " ") {
				out("arith-let", "let r="+E+"; echo $?")
			}
		}
		if e.pure && e.lvl <= 3 {
			out("arith-for", "for ((k = "+E+"; k < $y; k++)); do echo $k; done")
			out("arith-for", "for ((k = 0; k < ("+E+") && k < 6; k += $i)); do echo $k; done")
		}
	}
	// hand-written shapes around the edges of each rewrite
	for _, t := range []string{
		"echo ${s:(-2)}", "echo ${s:(-3):(-1)}", "echo ${s:1:(-1)}", "echo ${s:((-2))}", "echo ${s: -2}", "echo ${s:( -$i )}", "echo ${s:(-$i)}", "echo ${s:-$i}", "echo ${s:(+$i)}",
		"echo ${u:(-2)}", "echo ${e:(-2)}", "echo ${arr[(-1)]}", "echo ${arr[((-1))]}", "arr[(-1)]=4", "echo ${arr[@]:(-2)}", "echo ${@:(-2)}", "echo ${@:($i)}",
		"echo $(( (x) ))", "echo $(( ((x)) ))", "echo $(((x)))", "echo $(( ( x ) + 1 ))", "echo $(( (x)++ ))", "echo $(( ($x)++ ))", "(( (x) )); echo $?", "(((x))); echo $?",
		"echo $(( $x++ ))", "echo $(( ++$x ))", "echo $(( $x = 5 ))", "(( $x = 5 )); echo $?", 
		"echo $(( $# + $? + $1 ))", "echo $(( ${#x} + ${x:-1} + ${!x} ))", "echo $(( ${x+1} ))", "echo $(( ${x#3} + 1 ))", "echo $(( ${x/3/4} ))", "echo $(( ${x^^} ))", "echo $(( ${x@Q} ))",
		"echo $(( $arr ))", "echo $(( ${arr} ))", "echo $(( ${arr[0]} ))", "echo $(( ${arr[@]} ))", "echo $(( ${#arr[@]} ))", "echo $(( ${arr[*]:1:1} ))", "echo $(( ${!arr[@]} ))",
		"echo $(( $x$y ))", "echo $(( $x 5 ))", "echo $(( 1 + $x$y ))", "echo $(( $x\n+ 1 ))", "echo $(( $x + \\\n 1 ))",
		"q=x; echo $(( ${!q} + 1 ))",
		"declare -i d; d=$x+1; echo $d", "declare -a b; b[$x]=1 b[($y)]=2; echo ${!b[@]}", "declare -A h; h[$x]=1 h[($y)]=2 h[$x+1]=3 h[(y)]=4; echo ${h[3]},${h[4]},${h[(4)]},${h[($y)]},${h[3+1]},${h[x+1]},${h[y]},${h[(y)]}",
		"echo ${m[(1)]} ${m[($i)]} ${m[((1))]} ${m[$i+1]} ${m[(i+1)]} ${m[$x]} ${m[(x)]}", "m[(1)]=7", "m[($i)]=7", "m[$i+1]=7", "m[(i+1)]=7", "m[(x)]=7",
		"echo ${arr[($i)]} ${arr[((i))]} ${arr[$i+1]} ${arr[$(( $i ))]} ${arr[$((i+1))]} ${arr[$(( (i) ))]}", "arr[$((i+1))]=1", "arr[$(( ($i) ))]=1",
		"echo ${s:$i:$((j))} ${s:$(( $i )):$(( ($j) ))} ${s:${i}:${j}} ${s:i:j}", "echo ${s:$i+1:$j*2} ${s:($i+1):($j)*2}",
		"let $x+1; echo $?", "let r=$x r+=$y; echo $r", "let 'r=($x)' \"r+=($y)\"; echo $r", "let r=($x); echo $r", "let (r=$x); echo $r",
		"for ((k=$i; k<$y; k+=$i)); do echo $k; done", "for (( (k=$i); (k<$y); (k++) )); do echo $k; done", "for ((;;)); do echo $x; break; done",
		"while (( $i < $x )); do (( i++ )); done", "until (( ($i) >= ($x) )); do (( i += 1 )); done",
		"echo $(( $((  $(( $x )) )) ))", "echo $(( ( $(( ($x) )) ) ))", "echo $[ ($x) ] $[ $[ $x ] + 1 ]", "echo \"$(( ($x) ))\" \"${s:($i)}\"",
		"echo $(( x = $y, $x ))", "echo $(( $x ? $y : $n ))", "echo $(( ($x) ? ($y) : ($n) ))", "echo $(( 1 ? $x = 1 : 2 ))",
		"echo $(( $x - -$n ))", "echo $(( $x - $n ))", "echo $(( $x-$n ))", "echo $(( $x- -1 ))", "echo $(( 1 - ($n) ))", "echo $(( 2 ** $n ))", "echo $(( $n ** 2 ))", "echo $(( -$n ** 2 ))", "echo $(( - $n ))", "echo $(( $x--$n ))", "echo $(( $x++$y ))",
		"echo $(( $LINENO + $OPTIND ))", "echo $(( $_ ))", "echo $(( $BASH_SUBSHELL + 1 ))",
		"echo $(( \"$x\" + '1' ))", "echo $(( \"($x)\" ))", "echo $(( $(echo $x) + `echo $y` ))", "echo $(( $(( $x )) ))",
		"f() { local x=8; echo $(( $x + 1 )) $(( ($x) )); }; f", "f() { echo $(( $1 + $2 )) $(( ($1) )); }; f 4 5",
		"x=010; echo $(( $x + 1 )) $(( x + 1 ))", "x=0x10; echo $(( $x + 1 ))", "x=' 3 '; echo $(( $x + 1 ))", "x=2#11; echo $(( $x ))",
		"( readonly c=5; echo $(( $c = 6 )) )", "echo $(( $x == 3 && $y == 4 )) $(( ($x == 3) && ($y == 4) ))",
	} {
		emit(c04Snip{"arith-hand", t})
	}
}

// c04Subshell enumerates the nested-subshell family.
func c04Subshell(thorough bool, emit func(c04Snip)) {
	bodies := []string{"echo a", "exit 3", "x=9; echo $x", "echo a; echo b", "false", "(echo c)", "(echo c); echo d", "! false", "echo a >&2", "echo a | read l", "echo a & wait", "{ echo a; }", "(exit 4) || echo f", "exit 5 & wait $!"}
	wraps := []string{
		"( @ )", "( ( @ ) )", "( ( ( @ ) ) )", "((( @ )))", "( ( (@);) )", "( ! ( @ ) )", "( ( @ ) & wait )", "( ( @ ) >/dev/null )", "( ( @ ) 2>&1 )", "( ( @ ) </dev/null )",
		"( ( @ ); echo z )", "( ( @ ) && echo t )", "( ( @ ) || echo f )", "( ( @ ) | while read l; do echo \"[$l]\"; done )", "( ( @ ) ) >/dev/null", "! ( ( @ ) )", "( ( @ ) ) &\nwait", "( ( @ ) ) | while read l; do echo \"[$l]\"; done",
		"( (\n@\n) )", "(\n(\n@\n)\n)", "( # c\n( @ ) )", "( ( @ ) # c\n)", "( ( @ ) ) # c", "( { ( @ ); } )", "{ ( ( @ ) ); }",
		"echo $( ( @ ) )", "echo $( ( ( @ ) ) )", "echo \"$( ( @ ) )\"", "echo `( @ )`", "echo `( ( @ ) )`", "echo $( ! ( @ ) )", "echo $( ( @ ) 2>&1 )", "echo $( ( @ ) >/dev/null )", "echo $( ( @ ) & wait )", "echo $( ( @ ); echo z )", "echo $( ( @ ) || echo f )",
		"echo $( ( @ ) | while read l; do echo \"[$l]\"; done )", "echo $(\n( @ )\n)", "echo $( # c\n( @ ) )", "echo $( ( $( ( @ ) ) ) )", "r=$( ( @ ) ); echo \"$?\"", "echo ${u:-$( ( @ ) )}", "echo $(( $( ( echo 2 ) ) + 1 )); ( ( @ ) )",
		"read l < <( ( @ ) ); echo \"$l\"", "( ( @ ) ) <<EOF\nhi\nEOF", "( ( @ ) <<EOF\nhi\nEOF\n)", "if ( ( @ ) ); then echo t; else echo f; fi", "f() ( ( @ ) ); f", "f() { ( ( @ ) ); }; f",
		"( ( @ ) ); ( ( @ ) )", "( ( ( @ ) ); ( ( @ ) ) )", "( ( ( @ ) ) & wait )", "( ( ! ( @ ) ) )", "( ( ( @ ) >/dev/null ) )", "( ( ( @ ) ) 2>&1 )", "( ( ( @ ); echo z ) )",
	}
	if !thorough {
		// every subshell is a fork in bash (100+ ms each on the loaded machine)
		bodies = []string{"exit 3", "x=9; echo $x"}
	}
	for _, w := range wraps {
		for _, b := range bodies {
			emit(c04Snip{"subshell", strings.ReplaceAll(w, "@", b)})
		}
	}
}

// c04Tests enumerates the [[ ]] family.
func c04Tests(thorough bool, emit func(c04Snip)) {
	opsSmall := []string{`"$x"`, `$x`, `"$e"`, `"$w"`, `"$p"`, `3`, `a*`}
	opsFull := append(append([]string{}, opsSmall...), `"${arr[1]}"`, `"\$x"`, `"${arr[@]}"`)
	operands := []string{`"$x"`, `$x`, `"$e"`, `"$p"`, `a*`}
	wraps := []string{"@", "! @", "( @ )", "! ( @ )", "! ! @", "( ( @ ) )"}
	combos := []string{"@1 && @2", "! @1 || ! @2"}
	binOps := []string{"==", "!=", "=", "=~", "-eq", "&&"}
	if thorough {
		operands = opsFull
		wraps = []string{"@", "! @", "( @ )", "! ( @ )", "! ! @", "( ( @ ) )", "( ! @ )", "! ( ! @ )", "! ! ! @", "(( @ ))", "!( @ )"}
		combos = []string{"@1 && @2", "@1 || @2", "! @1 && @2", "@1 && ! @2", "! ( @1 && @2 )", "( @1 ) && ( @2 )", "! @1 || ! @2", "( ! @1 ) || ( ( @2 ) )", "@1 &&\n! @2"}
		binOps = []string{"==", "!=", "=", "=~", "<", "-eq", "&&", "||", ">", "-lt", "-nt"}
	}
	unOps := []string{"-n", "-z", "-e", "!"}
	var us []string
	var usSmall []string
	for _, a := range operands {
		us = append(us, a)
		for _, u := range unOps {
			us = append(us, u+" "+a)
		}
	}
	for _, a := range operands {
		for _, op := range binOps {
			for _, b := range operands {
				us = append(us, a+" "+op+" "+b)
			}
		}
	}
	cA, cOp, cB := []string{`"$x"`, `"$e"`}, []string{"==", "="}, []string{`"$p"`, `3`}
	for _, a := range cA {
		usSmall = append(usSmall, a, "-n "+a, "-z "+a, "! -n "+a)
		for _, op := range cOp {
			for _, b := range cB {
				usSmall = append(usSmall, a+" "+op+" "+b)
			}
		}
	}
	for _, u := range us {
		for _, w := range wraps {
			emit(c04Snip{"test", "[[ " + strings.ReplaceAll(w, "@", u) + " ]]; echo $?"})
		}
	}
	for _, a := range usSmall {
		for _, b := range usSmall {
			for _, cb := range combos {
				emit(c04Snip{"test-combo", "[[ " + strings.ReplaceAll(strings.ReplaceAll(cb, "@1", a), "@2", b) + " ]]; echo $?"})
			}
		}
	}
	for _, t := range []string{
		"if [[ ! -n \"$e\" ]]; then echo t; fi", "while [[ ! -z \"$x\" ]]; do x=; done", "[[ ! -n $e && ! -z $x ]] && echo t", "[[ ! $x == 3 ]] || echo f", "[[ ! ( $x == 3 ) ]] || echo f",
		"[[ \"$x\" = \"$x\" ]]; echo $?", "[[ \"$w\" = \"$w\" ]]; echo $?", "[[ a = \"$p\" ]]; echo $?", "[[ a == \"$p\" ]]; echo $?", "[[ \"$p\" = a ]]; echo $?", "[[ ab =~ \"$p\" ]]; echo $?", "[[ ab =~ \"a$p\" ]]; echo $?",
		"[[ -v \"x\" ]]; echo $?", "q=x; [[ -v \"$q\" ]]; echo $?", "q=x; [[ ! -v \"$q\" ]]; echo $?", "[[ -o \"errexit\" ]]; echo $?", "[[ ! -o \"$e\" ]]; echo $?",
		"[[ \"$x\" -eq \"$y\" || \"$x\" -lt \"$y\" ]]; echo $?", "[[ ( \"$x\" ) ]]; echo $?", "[[ ( ( \"$x\" ) ) ]]; echo $?", "[[ \"$e\" ]]; echo $?", "[[ ! \"$e\" ]]; echo $?", "[[ ! ! \"$e\" ]]; echo $?",
		"[[ ! a = b ]]; echo $?", "[[ ! a = a ]]; echo $?", "[[ ! ! a = a ]]; echo $?", "[[ ! a =~ a ]]; echo $?", "[[ ! a < b ]]; echo $?", "[[ ! a -nt b ]]; echo $?", "[[ ! -e / ]]; echo $?", "[[ ! -d \"$e\" ]]; echo $?",
		"IFS=:; [[ \"$*\" == 1:2:3 ]]; echo $?", "IFS=:; [[ -n \"$*\" ]]; echo $?", "IFS=; [[ \"${arr[*]}\" == 567 ]]; echo $?", "set --; [[ -z \"$@\" ]]; echo $?", "set --; [[ -n \"$*\" ]]; echo $?", "set -- '' ''; [[ -n \"$@\" ]]; echo $?",
		"[[ \"$w\" == a\\ b ]]; echo $?", "[[ -n \"$w\" && \"$w\" == \"$w\" ]]; echo $?", "[[ \"${w}\" < \"${x}\" ]]; echo $?", "[[ \"$x\"\"$y\" == 34 ]]; echo $?", "[[ x\"$x\" == x3 ]]; echo $?", "[[ $\"$x\" == 3 ]]; echo $?",
		"[[ \"${x:-\"a b\"}\" == 3 ]]; echo $?", "[[ -n \"${e:-\"\\$x\"}\" ]]; echo $?", "[[ \"\\$x\" == \"\\$x\" ]]; echo $?", "[[ \"$x\" == \"\\*\" ]]; echo $?", "[[ '*' == \"\\*\" ]]; echo $?", "[[ ab =~ \"\\$\" ]]; echo $?", "[[ 'a$' =~ a\"\\$\" ]]; echo $?",
		"[[ \"$x\" -eq 3 ]] && [[ ! -z \"$x\" ]] && echo t", "[[ \"$(echo 3)\" == \"$x\" ]]; echo $?", "[[ ! -n \"$(echo 3)\" ]]; echo $?", "[[ \"$x\" == \"$(echo \"$p\")\" ]]; echo $?", "[[ ! -n \"$e\" ]] && echo $(( $x + 1 )) \"\\$x\"",
	} {
		emit(c04Snip{"test-hand", t})
	}
}

// c04Strings enumerates double-quoted and $"..." literals.
func c04Strings(thorough bool, emit func(c04Snip)) {
	alphabet := []string{`\\`, `\$`, "\\`", `\"`, `'`, `\n`, `a`, `n`, `$`, ` `, `x`}
	ctxAll := []struct{ fam, pat string }{
		{"dq", `echo "@"`},
		{"dollar-dq", `echo $"@"`},
		{"dq-in-word", `echo a"@"b`},
		{"dq-twice", `echo "@""@"`},
		{"dq-after-dq", `echo "a""@"`},
		{"dq-assign", `v="@"; echo "$v"`},
		{"dq-in-param", `echo ${u:-"@"}`},
		{"dq-in-dq-param", `echo "${u:-"@"}"`},
		{"dq-in-heredoc-param", "read -r l <<EOF\n${u:-\"@\"}\nEOF\necho \"$l\""},
		{"dq-case", `case "@" in "@") echo m ;; *) echo no ;; esac`},
		{"dq-test", `[[ "@" == "@" ]]; echo $?`},
		{"dq-assoc-key", `m["@"]=1; echo "${m["@"]}"`},
		{"dq-cmdsubst", `echo "$(echo "@")"`},
		{"dq-array", `b=("@" $"@"); echo "${b[@]}"`},
		{"dollar-dq-in-dq-param", `echo "${u:-$"@"}"`},
		{"dq-in-arith", `echo $(( "@" + 1 ))`},
		{"dq-redirect", `echo hi >"o@"`},
		{"dq-for", `for v in "@" $"@"; do echo "$v"; done`},
	}
	// tokens: <=2 in every context; 3 in the first 9 (quick: first 4, reordered below); thorough: 4 in the two plain contexts
	longLen := 3
	if thorough {
		longLen = 4
	}
	reduced := map[string]bool{`\\`: true, `\$`: true, `\"`: true, `'`: true, `\n`: true, `a`: true, `$`: true} // tokens of the 4-token strings
	enum.Strings(alphabet, longLen, func(s string) {
		if s == "" || strings.Contains(s, "$$") {
			return
		}
		// number of alphabet tokens used (tokens are 1 or 2 bytes; `\\` etc. count once)
		toks := c04TokCount(s)
		if toks > 3 && !c04AllIn(s, reduced) {
			return
		}
		for i, cx := range ctxAll {
			if toks > 3 && i >= 2 {
				break
			}
			if toks > 2 && i >= 9 {
				break
			}
			if !thorough && (toks > 2 || toks == 2 && i >= 10) {
				continue
			}
			if toks > 2 && cx.fam == "dq-cmdsubst" {
				continue // a command substitution forks in bash
			}
			emit(c04Snip{cx.fam, strings.ReplaceAll(cx.pat, "@", s)})
		}
	})
	for _, t := range []string{
		`echo $'a\nb' $'\$x' $'\\' $'a\'b'`, `echo '$x' '\$x' 'a\\b'`, `echo \$x \\ \" \a "\a" "\x"`, `echo "a\` + "\n" + `b" "a\\` + "\n" + `b"`, `echo "\$` + "\n" + `x"`,
		`echo "$x\$" "\$$x" "\$"$x`, `echo "" $"" "\\" $"\\"`, `echo "é\$" $"é\\n"`, `echo "\$x" "\$y" a"\$z"`, `echo x "\$x"`, `"echo" "\$x"`, `e"ch"o "\$"`, `"\$x"=1 true`,
		`v=$"a\\nb\\tc"; echo "$v"`, `echo $"\\x41" $"\\101" $"\\u00e9" $"\\cA" $"\\e[0m"`, `echo $"a\\'b" $"\\\\" $"\$\\"`, `echo $"\\\$x" $"\\\"" ` + "$\"\\\\\\`\"",
		`echo "${x:-"\$"}" "${e:-"\\"}" "${e:-"\""}"`, "cat() { while IFS= read -r l; do echo \"$l\"; done; }; cat <<EOF\n${e:-\"\\$x\"} \"\\$x\" $\"\\\\n\"\nEOF", "read -r l <<<\"\\$x\"; echo \"$l\"", "read -r l <<<$\"\\\\n\"; echo \"$l\"",
		`echo "$(echo "\$x")" "` + "`echo \"\\$x\"`" + `"`, "echo `echo \"\\\\$x\"` `echo \"\\$x\"`", `eval "echo \"\\\$x\""`, `echo "${s/"\$"/b}" "${s/a/"\$"}" ${s/a/"\$"} "${s#"\\"}"`, `echo "${s:"\$i"}"`,
		`printf '%s\n' "\$x" $"\\n"`, `echo -e "\\n" $"\\n"`, `alias a="\$x" 2>/dev/null; echo $?`, `f"\$"() { echo hi; }; echo $?`, `echo "\$x" >/dev/null 2>"o\$"; echo $?`,
	} {
		emit(c04Snip{"string-hand", t})
	}
}

func c04TokCount(s string) int {
	n := 0
	for i := 0; i < len(s); i++ {
		if s[i] == '\\' && i+1 < len(s) {
			i++
		}
		n++
	}
	return n
}

// c04Mixed are programs combining several rewrites.
func c04Mixed(emit func(c04Snip)) {
	for _, t := range []string{
		"( ( [[ ! -n \"$e\" ]] && echo $(( ($x) + $y )) \"\\$x\" ) )",
		"echo $( ( [[ \"$x\" = 3 ]]; echo $? ${s:($i):$j} ) )",
		"if [[ ! \"$x\" == \"$y\" ]]; then ( ( echo \"\\\\ \\$\" $(( ((x)) )) ) ); fi",
		"for ((k = ($i); k < $x; k++)); do [[ ! -z \"$k\" ]] && echo \"\\$k=$k\" \"\\$k\"; done",
		"case $(( ($x) )) in \"\\$\") echo d ;; 3) ( ( echo three ) ) ;; esac",
		"f() ( ( echo $(( $1 + ($2) )) ) ); f $x \"$y\"",
		"arr[($i)]=$(( $x * $y )); [[ \"${arr[1]}\" -eq 12 ]]; echo $? \"\\`\"",
		"echo \"$( ( echo \"\\$x\" ) )\" $\"\\$x\" \"$(( ($x) ))\"",
		"while [[ ! \"$i\" -ge \"$x\" ]]; do (( i = $i + 1 )); done",
		"[[ ! -n \"$e\" ]] && ( ( exit $(( $x + ($y) )) ) )",
	} {
		emit(c04Snip{"mixed", t})
	}
}

// c04Gen emits every case of the check.
func c04Gen(thorough bool, emit func(c04Case)) {
	seen := map[string]bool{}
	only := os.Getenv("C04_ONLY") // development aid: restrict to families with one of these comma-separated prefixes
	wanted := func(fam string) bool {
		for _, p := range strings.Split(only, ",") {
			if strings.HasPrefix(fam, p) {
				return true
			}
		}
		return false
	}
	snip := func(s c04Snip) {
		if seen[s.Text] || !wanted(s.Fam) {
			return
		}
		seen[s.Text] = true
		b := c04PreBash + s.Text + c04EpiBash
		emit(c04Case{Src: b, Variant: "bash", Kind: 1, Fam: s.Fam})
		emit(c04Case{Src: c04PrePosix + s.Text + c04EpiPosix, Variant: "posix", Kind: 1, Fam: s.Fam})
		// the other variants: clauses (1) and (2) only, on the bare snippet
		others := []string{"zsh"}
		if strings.HasSuffix(s.Fam, "hand") || s.Fam == "mixed" || s.Fam == "subshell" {
			others = []string{"zsh", "mksh", "bats"}
		}
		for _, v := range others {
			emit(c04Case{Src: s.Text + "\n", Variant: v, Kind: 0, Fam: s.Fam})
		}
	}
	if one := os.Getenv("C04_SNIP"); one != "" { // development aid: a single snippet
		snip(c04Snip{"snip", one})
		return
	}
	c04Mixed(snip)
	c04Subshell(thorough, snip)
	c04Arith(thorough, snip)
	c04Tests(thorough, snip)
	c04Strings(thorough, snip)
	// corpora
	cseen := map[string]bool{}
	if only != "" && only != "corpus" {
		return
	}
	for _, src := range synt.SyntaxCorpus() {
		if cseen[src] {
			continue
		}
		cseen[src] = true
		for _, v := range synt.Variants {
			if !thorough && (v.Name == "mksh" || v.Name == "bats") {
				continue // quick tier: bash, posix, zsh
			}
			emit(c04Case{Src: src, Variant: v.Name, Kind: 0, Fam: "syntax-corpus"})
		}
	}
	for _, src := range synt.InterpCorpus() {
		if cseen[src] {
			continue
		}
		cseen[src] = true
		emit(c04Case{Src: src, Variant: "bash", Kind: 2, Fam: "interp-corpus"})
		emit(c04Case{Src: src, Variant: "posix", Kind: 0, Fam: "interp-corpus"})
	}
}

// c04AllIn reports whether every token of s (backslash pairs count as one
// token) is in set.
func c04AllIn(s string, set map[string]bool) bool {
	for i := 0; i < len(s); i++ {
		tok := s[i : i+1]
		if s[i] == '\\' && i+1 < len(s) {
			tok = s[i : i+2]
			i++
		}
		if !set[tok] {
			return false
		}
	}
	return true
}
