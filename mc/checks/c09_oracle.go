package checks

import (
	"fmt"
	"reflect"
	"strings"

	"mvdan.cc/sh/v3/syntax"
)

// This file holds the oracle of C09: an independent reflective tree walker
// (it does not use syntax.Walk), an independent line/column calculator and a
// small source-to-lexeme matcher.

// c09Problem is one violated clause for one node of one parsed input.
type c09Problem struct {
	Clause string // order | bounds | linecol | token | literal | literal-end | stmt-order | containment | invalid | panic
	Node   string // Go type of the node
	Field  string // position field or "Pos()"/"End()"
	Msg    string
	Class  string
	// for bounds/linecol problems: the offending position
	Off               int  `json:"off,omitempty"`
	GotLine, GotCol   uint `json:"-"`
	WantLine, WantCol uint `json:"-"`
	fr                *c09Frame
	stored            bool // a stored field rather than a computed Pos()/End()
}

// c09Frame is one node on the walker's stack.
type c09Frame struct {
	node   syntax.Node
	typ    string
	field  string
	depth  int
	parent *c09Frame
	pos    syntax.Pos
	end    syntax.Pos
	// lexical context of the node's own tokens
	cx c09Ctx
}

// c09Ctx is the lexical context that decides which source bytes the lexer
// drops before they reach a token or literal value.
type c09Ctx struct {
	Bq       int  // number of enclosing backquote command substitutions
	DashHdoc bool // inside the body of a <<- here-document (leading tabs dropped)
	HdocBody bool // inside a here-document body
	// hdocLast is the literal that ends the enclosing here-document body; the
	// parser extends it over the terminator line (see the Rule text).
	hdocLast    *syntax.Lit
	hdocDelim   string
	hdocDelimOK bool
	lang        string
}

const (
	c09LineMax = 1<<18 - 1 // documented: larger line numbers are reported as 0
	c09ColMax  = 1<<14 - 1 // documented: larger column numbers are reported as 0
)

// c09LineCol is the independent calculator: lines are separated by '\n',
// columns count bytes, both start at 1, overflowing values are 0.
type c09LineCol struct {
	nl []int // offsets of '\n'
}

func newC09LineCol(src string) *c09LineCol {
	lc := &c09LineCol{}
	for i := 0; i < len(src); i++ {
		if src[i] == '\n' {
			lc.nl = append(lc.nl, i)
		}
	}
	return lc
}

func (lc *c09LineCol) at(off int) (line, col uint) {
	// number of newlines strictly before off
	lo, hi := 0, len(lc.nl)
	for lo < hi {
		m := (lo + hi) / 2
		if lc.nl[m] < off {
			lo = m + 1
		} else {
			hi = m
		}
	}
	l := lo + 1
	c := off + 1
	if lo > 0 {
		c = off - lc.nl[lo-1]
	}
	if l > c09LineMax {
		l = 0
	}
	if c > c09ColMax {
		c = 0
	}
	return uint(l), uint(c)
}

// c09Deletable lists the lengths of byte sequences at src[i:] that the lexer
// may drop in context cx without producing a character.
func c09Deletable(src string, i int, cx c09Ctx, buf []int) []int {
	buf = buf[:0]
	b := src[i]
	switch b {
	case 0:
		buf = append(buf, 1)
	case '\r':
		if i+1 < len(src) && src[i+1] == '\n' {
			buf = append(buf, 1)
		}
	case '\\':
		if i+1 < len(src) && src[i+1] == '\n' {
			buf = append(buf, 2)
		} else if i+2 < len(src) && src[i+1] == '\r' && src[i+2] == '\n' {
			buf = append(buf, 3)
		}
		if cx.Bq > 0 && i+1 < len(src) {
			switch src[i+1] {
			case '$', '`', '\\', '"':
				buf = append(buf, 1)
			}
		}
	case '\t':
		if cx.DashHdoc {
			// leading tabs of a line
			k := i
			for k > 0 && (src[k-1] == '\t' || src[k-1] == 0) {
				k--
			}
			if k == 0 || src[k-1] == '\n' {
				buf = append(buf, 1)
			}
		}
	}
	return buf
}

// c09Match reports whether want can be read from src starting at off when the
// lexer's droppable sequences (c09Deletable) are each either dropped or kept.
// With end < 0 want only has to be a prefix of the lexeme stream; otherwise
// the stream of src[off:end] has to spell want exactly. skipped reports
// whether the match had to drop bytes before the first character of want.
func c09Match(src string, off int, want string, cx c09Ctx, end int) (ok, skipped bool) {
	limit := len(src)
	if end >= 0 {
		limit = end
	}
	if off > limit {
		return false, false
	}
	// fast path: literal text
	if end < 0 && strings.HasPrefix(src[off:], want) {
		return true, false
	}
	if end >= 0 && src[off:limit] == want {
		return true, false
	}
	type st struct{ i, j int }
	seen := map[st]bool{}
	var del [4]int
	var rec func(i, j int) bool
	rec = func(i, j int) bool {
		if end < 0 && j == len(want) {
			return true
		}
		if i >= limit {
			return end >= 0 && i == limit && j == len(want)
		}
		k := st{i, j}
		if seen[k] {
			return false
		}
		seen[k] = true
		if j < len(want) && src[i] == want[j] && rec(i+1, j+1) {
			return true
		}
		for _, n := range c09Deletable(src, i, cx, del[:0]) {
			n := n
			if i+n <= limit && rec(i+n, j) {
				if j == 0 && len(want) > 0 {
					skipped = true
				}
				return true
			}
		}
		return false
	}
	ok = rec(off, 0)
	if !ok {
		skipped = false
	}
	return ok, skipped
}

var (
	c09NodeType = reflect.TypeOf((*syntax.Node)(nil)).Elem()
	c09PosType  = reflect.TypeOf(syntax.Pos{})
)

// c09Checker checks one parsed file.
type c09Checker struct {
	lang     string
	src      string
	lc       *c09LineCol
	problems []c09Problem
	// counters
	nodes, positions, tokens, literals, stmtLists, contained int
	endTokens                                                int
	skippedPrefix                                            int
	degradedHdocLit, hdocLastLits, hdocEndExempt             int
	hdocs                                                    []c09Hdoc
	commentExempt                                            int
	hdocExempt                                               int
}

func (k *c09Checker) add(clause string, fr *c09Frame, field, format string, args ...any) {
	typ := "?"
	if fr != nil {
		typ = fr.typ
	}
	k.problems = append(k.problems, c09Problem{Clause: clause, Node: typ, Field: field, Msg: fmt.Sprintf(format, args...), fr: fr})
}

// checkPos checks the bounds and line/column clauses for one valid position.
func (k *c09Checker) checkPos(fr *c09Frame, field string, p syntax.Pos) bool {
	k.positions++
	off := int(p.Offset())
	if off > len(k.src) {
		k.add("bounds", fr, field, "%s.%s has offset %d beyond the input length %d", fr.typ, field, off, len(k.src))
		return false
	}
	wl, wc := k.lc.at(off)
	if p.Line() != wl || p.Col() != wc {
		k.add("linecol", fr, field, "%s.%s = %d:%d at offset %d, but that offset is line %d column %d", fr.typ, field, p.Line(), p.Col(), off, wl, wc)
		pr := &k.problems[len(k.problems)-1]
		pr.Off, pr.GotLine, pr.GotCol, pr.WantLine, pr.WantCol = off, p.Line(), p.Col(), wl, wc
		pr.stored = !strings.HasSuffix(field, "()")
		return false
	}
	return true
}

// token checks that one of the alternatives can be read at position p.
func (k *c09Checker) token(fr *c09Frame, field string, p syntax.Pos, alts ...string) {
	if !p.IsValid() || int(p.Offset()) > len(k.src) {
		return // reported by the generic clauses
	}
	k.tokens++
	off := int(p.Offset())
	for _, a := range alts {
		if ok, skipped := c09Match(k.src, off, a, fr.cx, -1); ok {
			if skipped {
				k.skippedPrefix++
			}
			return
		}
	}
	k.add("token", fr, field, "%s.%s at offset %d (%s) should point at %q, the source there is %q", fr.typ, field, off, p, alts, c09Excerpt(k.src, off))
}

// literal checks that src[from:to] spells val.
func (k *c09Checker) literal(fr *c09Frame, field string, from, to syntax.Pos, val string) {
	if !from.IsValid() || !to.IsValid() || int(from.Offset()) > len(k.src) || int(to.Offset()) > len(k.src) || from.Offset() > to.Offset() {
		return // reported by the generic clauses
	}
	k.literals++
	a, b := int(from.Offset()), int(to.Offset())
	if l, ok := fr.node.(*syntax.Lit); ok && l == fr.cx.hdocLast {
		// The literal that ends a here-document body extends over the
		// terminator line (upstream's own position checker knows this): the
		// range has to spell the value followed by the delimiter.
		k.hdocLastLits++
		if fr.cx.hdocDelimOK {
			if ok, _ := c09Match(k.src, a, val+fr.cx.hdocDelim, fr.cx, b); ok {
				return
			}
		} else {
			// delimiter not computable (not made of literals and quotes):
			// the rest of the range has to be a single (terminator) line
			for m := b; m >= a; m-- {
				if m < b && k.src[m] == '\n' {
					break
				}
				if ok, _ := c09Match(k.src, a, val, fr.cx, m); ok {
					k.degradedHdocLit++
					return
				}
			}
		}
		if ok, _ := c09Match(k.src, a, val, fr.cx, b); ok {
			return // body ended by the end of input, no terminator line
		}
	} else if ok, _ := c09Match(k.src, a, val, fr.cx, b); ok {
		return
	}
	if okp, _ := c09Match(k.src, a, val, fr.cx, -1); okp {
		k.add("literal-end", fr, field, "%s %s: value %q starts at offset %d but the range [%d,%d) holding %q does not spell exactly that value", fr.typ, field, val, a, a, b, k.src[a:b])
	} else {
		k.add("literal", fr, field, "%s %s: value %q is not what the source has at offset %d (%s): %q", fr.typ, field, val, a, from, c09Excerpt(k.src, a))
	}
	k.problems[len(k.problems)-1].Off = a
}

func c09Excerpt(src string, off int) string {
	e := off + 12
	if e > len(src) {
		e = len(src)
	}
	return src[off:e]
}

func (k *c09Checker) file(f *syntax.File) {
	syntax.Walk(f, func(n syntax.Node) bool {
		if r, ok := n.(*syntax.Redirect); ok && r.Hdoc != nil && r.Hdoc.End().IsValid() {
			k.hdocs = append(k.hdocs, c09Hdoc{r.OpPos.Offset(), r.Hdoc.End().Offset()})
		}
		return true
	})
	k.walk(reflect.ValueOf(f), nil, "", c09Ctx{lang: k.lang})
	k.dedupe()
}

// dedupe keeps, for every distinct bad position value, only the report of the
// deepest node holding it (a bad Lit.ValueEnd is also the End() of the Word,
// the CallExpr, the Stmt and the File around it).
func (k *c09Checker) dedupe() {
	type pv struct {
		off       int
		line, col uint
	}
	best := map[pv]int{}
	for i, p := range k.problems {
		if p.Clause != "linecol" {
			continue
		}
		v := pv{p.Off, p.GotLine, p.GotCol}
		j, ok := best[v]
		if !ok {
			best[v] = i
			continue
		}
		q := k.problems[j]
		if p.fr.depth > q.fr.depth || (p.fr.depth == q.fr.depth && p.stored && !q.stored) {
			best[v] = i
		}
	}
	out := k.problems[:0]
	for i, p := range k.problems {
		if p.Clause == "linecol" && best[pv{p.Off, p.GotLine, p.GotCol}] != i {
			continue
		}
		out = append(out, p)
	}
	k.problems = out
}

// walk visits every value reachable from v; nodes get a frame.
func (k *c09Checker) walk(v reflect.Value, parent *c09Frame, field string, cx c09Ctx) {
	switch v.Kind() {
	case reflect.Interface:
		if !v.IsNil() {
			k.walk(v.Elem(), parent, field, cx)
		}
	case reflect.Pointer:
		if v.IsNil() {
			return
		}
		if v.Type().Implements(c09NodeType) && v.Elem().Kind() == reflect.Struct {
			k.node(v, parent, field, cx)
			return
		}
		k.walk(v.Elem(), parent, field, cx)
	case reflect.Slice:
		if v.Type().Elem() == reflect.TypeOf((*syntax.Stmt)(nil)) {
			k.stmtList(v, parent, field)
		}
		for i := 0; i < v.Len(); i++ {
			e := v.Index(i)
			if e.Kind() == reflect.Struct && e.CanAddr() {
				e = e.Addr()
			}
			k.walk(e, parent, fmt.Sprintf("%s[%d]", field, i), cx)
		}
	case reflect.Struct:
		if v.Type() == c09PosType {
			return // handled by the owning node
		}
		for i := 0; i < v.NumField(); i++ {
			if v.Type().Field(i).IsExported() {
				k.walk(v.Field(i), parent, field+"."+v.Type().Field(i).Name, cx)
			}
		}
	}
}

// stmtList checks the source-order clause for one list of statements.
func (k *c09Checker) stmtList(v reflect.Value, parent *c09Frame, field string) {
	if v.Len() < 2 {
		return
	}
	k.stmtLists++
	var prev syntax.Pos
	for i := 0; i < v.Len(); i++ {
		s := v.Index(i).Interface().(*syntax.Stmt)
		if s == nil {
			continue
		}
		p := s.Pos()
		if i > 0 && p.IsValid() && prev.IsValid() && p.Offset() <= prev.Offset() {
			k.add("stmt-order", parent, field, "statement %d of %s starts at offset %d, not after statement %d at offset %d", i, field, p.Offset(), i-1, prev.Offset())
		}
		prev = p
	}
}

func (k *c09Checker) node(v reflect.Value, parent *c09Frame, field string, cx c09Ctx) {
	n := v.Interface().(syntax.Node)
	fr := &c09Frame{node: n, typ: strings.TrimPrefix(v.Type().String(), "*syntax."), parent: parent, cx: cx, field: field}
	if parent != nil {
		fr.depth = parent.depth + 1
	}
	k.nodes++
	func() {
		defer func() {
			if r := recover(); r != nil {
				k.add("panic", fr, "Pos()/End()", "%s.Pos()/End() panics: %v", fr.typ, r)
			}
		}()
		fr.pos, fr.end = n.Pos(), n.End()
	}()
	emptyFile := false
	if f, ok := n.(*syntax.File); ok && len(f.Stmts) == 0 && len(f.Last) == 0 {
		emptyFile = true // documented: no position
	}
	if !emptyFile {
		if !fr.pos.IsValid() {
			k.add("invalid", fr, "Pos()", "%s (%s) has an invalid Pos()", fr.typ, field)
		} else {
			k.checkPos(fr, "Pos()", fr.pos)
		}
		if !fr.end.IsValid() {
			k.add("invalid", fr, "End()", "%s (%s) has an invalid End()", fr.typ, field)
		} else {
			k.checkPos(fr, "End()", fr.end)
		}
		if fr.pos.IsValid() && fr.end.IsValid() && fr.pos.Offset() > fr.end.Offset() {
			k.add("order", fr, "Pos()", "%s (%s) starts at offset %d after its end %d", fr.typ, field, fr.pos.Offset(), fr.end.Offset())
		}
	}
	// every stored position
	sv := v.Elem()
	for i := 0; i < sv.NumField(); i++ {
		if sv.Type().Field(i).Type == c09PosType {
			p := sv.Field(i).Interface().(syntax.Pos)
			if p.IsRecovered() {
				k.add("invalid", fr, sv.Type().Field(i).Name, "%s.%s is a recovered position without RecoverErrors", fr.typ, sv.Type().Field(i).Name)
			} else if p.IsValid() {
				k.checkPos(fr, sv.Type().Field(i).Name, p)
			}
		}
	}
	k.containment(fr, field)
	k.tokensOf(fr)
	k.endToken(fr)
	// children
	for i := 0; i < sv.NumField(); i++ {
		sf := sv.Type().Field(i)
		if !sf.IsExported() || sf.Type == c09PosType {
			continue
		}
		ccx := cx
		switch x := n.(type) {
		case *syntax.CmdSubst:
			if x.Backquotes {
				ccx.Bq++
			}
			// code inside a substitution is not here-document text
			ccx.HdocBody, ccx.DashHdoc, ccx.hdocLast = false, false, nil
		case *syntax.Redirect:
			if sf.Name == "Hdoc" && x.Hdoc != nil {
				ccx.HdocBody = true
				ccx.DashHdoc = x.Op == syntax.DashHdoc
				ccx.hdocLast = nil
				if n := len(x.Hdoc.Parts); n > 0 {
					ccx.hdocLast, _ = x.Hdoc.Parts[n-1].(*syntax.Lit)
				}
				ccx.hdocDelim, ccx.hdocDelimOK = c09HdocDelim(x.Word)
			}
		}
		k.walk(sv.Field(i), fr, sf.Name, ccx)
	}
}

// containment checks that the node lies within its parent.
func (k *c09Checker) containment(fr *c09Frame, field string) {
	par := fr.parent
	if par == nil {
		return
	}
	if _, ok := fr.node.(*syntax.Comment); ok {
		// Node.Pos/End are documented to ignore comments except for a File,
		// so a comment is only required to lie within the nearest ancestor
		// whose extent is given by its own delimiters, and within the file.
		for par != nil && !c09Delimited(par.node) {
			par = par.parent
		}
		if par == nil {
			return
		}
		if par != fr.parent {
			k.commentExempt++
		}
	}
	if field == "Hdoc" {
		// A here-document body is out of line: it follows the line of its
		// redirection. It is required to lie after the delimiter word and
		// within the file; see c09 Rule.
		k.hdocExempt++
		if r, ok := par.node.(*syntax.Redirect); ok && r.Word != nil && fr.pos.IsValid() && r.Word.End().IsValid() && fr.pos.Offset() < r.Word.End().Offset() {
			k.add("containment", fr, "Pos()", "here-document body at offset %d starts before the end of its delimiter word %d", fr.pos.Offset(), r.Word.End().Offset())
		}
		return
	}
	if !fr.pos.IsValid() || !fr.end.IsValid() || !par.pos.IsValid() || !par.end.IsValid() {
		return
	}
	k.contained++
	if fr.end.Offset() > par.end.Offset() && fr.pos.Offset() >= par.pos.Offset() && k.endsWithHdoc(fr) {
		// Redirect.End() is the end of the out-of-line here-document body, so
		// a node whose End() comes from such a redirection overlaps whatever
		// follows the redirection on its line; that is inherent to
		// here-documents and not a position defect.
		k.hdocEndExempt++
		return
	}
	if fr.pos.Offset() < par.pos.Offset() || fr.end.Offset() > par.end.Offset() {
		k.add("containment", fr, "Pos()", "%s [%d,%d) (field %s) is not within its parent %s [%d,%d)", fr.typ, fr.pos.Offset(), fr.end.Offset(), field, par.typ, par.pos.Offset(), par.end.Offset())
	}
}

// c09Hdoc records one here-document redirection of the file.
type c09Hdoc struct{ opOff, endOff uint }

// endsWithHdoc reports whether the node's End() is the end of a here-document
// body whose redirection operator lies inside the node.
func (k *c09Checker) endsWithHdoc(fr *c09Frame) bool {
	for _, h := range k.hdocs {
		if h.endOff == fr.end.Offset() && fr.pos.Offset() <= h.opOff && h.opOff < fr.end.Offset() {
			return true
		}
	}
	return false
}

func c09Delimited(n syntax.Node) bool {
	switch n.(type) {
	case *syntax.File, *syntax.Subshell, *syntax.Block, *syntax.CmdSubst, *syntax.ProcSubst, *syntax.ArrayExpr,
		*syntax.IfClause, *syntax.WhileClause, *syntax.ForClause, *syntax.CaseClause:
		return true
	}
	return false
}

// tokensOf checks the keyword/operator/quote/literal positions of one node.
func (k *c09Checker) tokensOf(fr *c09Frame) {
	switch x := fr.node.(type) {
	case *syntax.Comment:
		k.token(fr, "Hash", x.Hash, "#"+x.Text)
	case *syntax.Stmt:
		if x.Negated {
			k.token(fr, "Position", x.Position, "!")
		}
		if x.Semicolon.IsValid() {
			switch {
			case x.Coprocess:
				k.token(fr, "Semicolon", x.Semicolon, "|&")
			case x.Disown:
				k.token(fr, "Semicolon", x.Semicolon, "&|", "&!")
			case x.Background:
				k.token(fr, "Semicolon", x.Semicolon, "&")
			default:
				k.token(fr, "Semicolon", x.Semicolon, ";")
			}
		}
	case *syntax.Redirect:
		alts := []string{x.Op.String()}
		switch x.Op { // zsh spellings
		case syntax.RdrClob:
			alts = append(alts, ">!")
		case syntax.AppClob:
			alts = append(alts, ">>!")
		case syntax.RdrAllClob:
			alts = append(alts, "&>!", ">&|", ">&!")
		case syntax.AppAll:
			alts = append(alts, ">>&")
		case syntax.AppAllClob:
			alts = append(alts, "&>>!", ">>&|", ">>&!")
		case syntax.RdrAll:
			alts = append(alts, ">&")
		}
		k.token(fr, "OpPos", x.OpPos, alts...)
	case *syntax.Lit:
		k.literal(fr, "ValuePos..ValueEnd", x.ValuePos, x.ValueEnd, x.Value)
	case *syntax.Subshell:
		k.token(fr, "Lparen", x.Lparen, "(")
		k.token(fr, "Rparen", x.Rparen, ")")
	case *syntax.Block:
		k.token(fr, "Lbrace", x.Lbrace, "{")
		k.token(fr, "Rbrace", x.Rbrace, "}")
	case *syntax.IfClause:
		isElse := false
		if fr.parent != nil {
			if pi, ok := fr.parent.node.(*syntax.IfClause); ok && pi.Else == x {
				isElse = true
			}
		}
		switch {
		case !isElse:
			k.token(fr, "Position", x.Position, "if")
		case x.ThenPos.IsValid():
			k.token(fr, "Position", x.Position, "elif")
		default:
			k.token(fr, "Position", x.Position, "else")
		}
		if x.ThenPos.IsValid() {
			k.token(fr, "ThenPos", x.ThenPos, "then", "{")
		}
		k.token(fr, "FiPos", x.FiPos, "fi", "}")
	case *syntax.WhileClause:
		if x.Until {
			k.token(fr, "WhilePos", x.WhilePos, "until")
		} else {
			k.token(fr, "WhilePos", x.WhilePos, "while")
		}
		k.token(fr, "DoPos", x.DoPos, "do", "{")
		k.token(fr, "DonePos", x.DonePos, "done", "}")
	case *syntax.ForClause:
		if x.Select {
			k.token(fr, "ForPos", x.ForPos, "select")
		} else {
			k.token(fr, "ForPos", x.ForPos, "for", "repeat")
		}
		if x.Braces {
			k.token(fr, "DoPos", x.DoPos, "{")
			k.token(fr, "DonePos", x.DonePos, "}")
		} else {
			k.token(fr, "DoPos", x.DoPos, "do")
			k.token(fr, "DonePos", x.DonePos, "done")
		}
	case *syntax.WordIter:
		if x.InPos.IsValid() {
			k.token(fr, "InPos", x.InPos, "in", "(")
		}
	case *syntax.CStyleLoop:
		k.token(fr, "Lparen", x.Lparen, "((")
		k.token(fr, "Rparen", x.Rparen, "))")
	case *syntax.BinaryCmd:
		k.token(fr, "OpPos", x.OpPos, x.Op.String())
	case *syntax.FuncDecl:
		if x.RsrvWord {
			k.token(fr, "Position", x.Position, "function")
		}
	case *syntax.SglQuoted:
		open := "'"
		if x.Dollar {
			open = "$'"
		}
		k.token(fr, "Left", x.Left, open)
		k.token(fr, "Right", x.Right, "'")
		k.sglValue(fr, x, open)
	case *syntax.DblQuoted:
		if x.Dollar {
			k.token(fr, "Left", x.Left, `$"`)
		} else {
			k.token(fr, "Left", x.Left, `"`)
		}
		k.token(fr, "Right", x.Right, `"`)
	case *syntax.CmdSubst:
		switch {
		case x.TempFile:
			k.token(fr, "Left", x.Left, "${ ", "${\t", "${\n")
			k.token(fr, "Right", x.Right, "}")
		case x.ReplyVar:
			k.token(fr, "Left", x.Left, "${|")
			k.token(fr, "Right", x.Right, "}")
		case x.Backquotes:
			k.token(fr, "Left", x.Left, "`")
			k.token(fr, "Right", x.Right, "`")
		default:
			k.token(fr, "Left", x.Left, "$(")
			k.token(fr, "Right", x.Right, ")")
		}
	case *syntax.ParamExp:
		if x.Dollar.IsValid() {
			if x.Short {
				k.token(fr, "Dollar", x.Dollar, "$")
			} else {
				k.token(fr, "Dollar", x.Dollar, "${")
			}
		}
		if !x.Short {
			k.token(fr, "Rbrace", x.Rbrace, "}")
		}
	case *syntax.ArithmExp:
		if x.Bracket {
			k.token(fr, "Left", x.Left, "$[")
			k.token(fr, "Right", x.Right, "]")
		} else {
			k.token(fr, "Left", x.Left, "$((")
			k.token(fr, "Right", x.Right, "))")
		}
	case *syntax.ArithmCmd:
		k.token(fr, "Left", x.Left, "((")
		k.token(fr, "Right", x.Right, "))")
	case *syntax.UnaryArithm:
		k.token(fr, "OpPos", x.OpPos, x.Op.String())
	case *syntax.BinaryArithm:
		k.token(fr, "OpPos", x.OpPos, x.Op.String())
	case *syntax.ParenArithm:
		k.token(fr, "Lparen", x.Lparen, "(")
		k.token(fr, "Rparen", x.Rparen, ")")
	case *syntax.ParenTest:
		k.token(fr, "Lparen", x.Lparen, "(")
		k.token(fr, "Rparen", x.Rparen, ")")
	case *syntax.UnaryTest:
		alts := []string{x.Op.String()}
		switch x.Op {
		case syntax.TsExists:
			alts = append(alts, "-a")
		case syntax.TsSmbLink:
			alts = append(alts, "-h")
		}
		k.token(fr, "OpPos", x.OpPos, alts...)
	case *syntax.BinaryTest:
		alts := []string{x.Op.String()}
		if x.Op == syntax.TsMatch {
			alts = append(alts, "=")
		}
		k.token(fr, "OpPos", x.OpPos, alts...)
	case *syntax.CaseClause:
		k.token(fr, "Case", x.Case, "case")
		if x.Braces {
			k.token(fr, "In", x.In, "{")
			k.token(fr, "Esac", x.Esac, "}")
		} else {
			k.token(fr, "In", x.In, "in")
			k.token(fr, "Esac", x.Esac, "esac")
		}
	case *syntax.CaseItem:
		if x.OpPos.IsValid() {
			k.token(fr, "OpPos", x.OpPos, x.Op.String())
		}
	case *syntax.TestClause:
		k.token(fr, "Left", x.Left, "[[")
		k.token(fr, "Right", x.Right, "]]")
	case *syntax.TimeClause:
		k.token(fr, "Time", x.Time, "time")
	case *syntax.CoprocClause:
		k.token(fr, "Coproc", x.Coproc, "coproc")
	case *syntax.LetClause:
		k.token(fr, "Let", x.Let, "let")
	case *syntax.TestDecl:
		k.token(fr, "Position", x.Position, "@test")
	case *syntax.ArrayExpr:
		k.token(fr, "Lparen", x.Lparen, "(")
		k.token(fr, "Rparen", x.Rparen, ")")
	case *syntax.ExtGlob:
		k.token(fr, "OpPos", x.OpPos, x.Op.String())
		if x.Pattern != nil && x.Pattern.ValueEnd.IsValid() {
			k.token(fr, "Pattern.ValueEnd", x.Pattern.ValueEnd, ")")
		}
	case *syntax.ProcSubst:
		k.token(fr, "OpPos", x.OpPos, x.Op.String())
		k.token(fr, "Rparen", x.Rparen, ")")
	case *syntax.FlagsArithm:
		if x.Flags != nil && fr.pos.IsValid() {
			k.token(fr, "Pos()", fr.pos, "(")
		}
	}
}

// endToken checks, for nodes that are closed by a token of their own, that
// End() is the position right after that token: the range from the stored
// closing position to End() spells the token (Node.End is documented as "the
// position of the character immediately after the node"; upstream's checker
// asserts this for quotes, extended globs and naked indexes).
func (k *c09Checker) endToken(fr *c09Frame) {
	closePos, toks := c09ClosingToken(fr.node)
	if len(toks) == 0 || !closePos.IsValid() || !fr.end.IsValid() {
		return
	}
	a, b := int(closePos.Offset()), int(fr.end.Offset())
	if a > b || b > len(k.src) {
		return // reported by the generic clauses
	}
	k.endTokens++
	for _, t := range toks {
		if ok, _ := c09Match(k.src, a, t, fr.cx, b); ok {
			return
		}
	}
	k.add("end-token", fr, "End()", "%s.End() at offset %d should be right after the closing %q that starts at offset %d, but that range holds %q", fr.typ, b, toks, a, k.src[a:b])
	k.problems[len(k.problems)-1].Off = a
}

// c09ClosingToken returns the stored position of the node's closing token and
// the spellings that token may have.
func c09ClosingToken(n syntax.Node) (syntax.Pos, []string) {
	switch x := n.(type) {
	case *syntax.Subshell:
		return x.Rparen, []string{")"}
	case *syntax.Block:
		return x.Rbrace, []string{"}"}
	case *syntax.IfClause:
		return x.FiPos, []string{"fi", "}"}
	case *syntax.WhileClause:
		return x.DonePos, []string{"done", "}"}
	case *syntax.ForClause:
		if x.Braces {
			return x.DonePos, []string{"}"}
		}
		return x.DonePos, []string{"done"}
	case *syntax.CaseClause:
		if x.Braces {
			return x.Esac, []string{"}"}
		}
		return x.Esac, []string{"esac"}
	case *syntax.CaseItem:
		if x.OpPos.IsValid() {
			return x.OpPos, []string{x.Op.String()}
		}
	case *syntax.CStyleLoop:
		return x.Rparen, []string{"))"}
	case *syntax.SglQuoted:
		return x.Right, []string{"'"}
	case *syntax.DblQuoted:
		return x.Right, []string{"\""}
	case *syntax.CmdSubst:
		switch {
		case x.TempFile, x.ReplyVar:
			return x.Right, []string{"}"}
		case x.Backquotes:
			return x.Right, []string{"`"}
		}
		return x.Right, []string{")"}
	case *syntax.ParamExp:
		if !x.Short {
			return x.Rbrace, []string{"}"}
		}
	case *syntax.ArithmExp:
		if x.Bracket {
			return x.Right, []string{"]"}
		}
		return x.Right, []string{"))"}
	case *syntax.ArithmCmd:
		return x.Right, []string{"))"}
	case *syntax.ParenArithm:
		return x.Rparen, []string{")"}
	case *syntax.ParenTest:
		return x.Rparen, []string{")"}
	case *syntax.TestClause:
		return x.Right, []string{"]]"}
	case *syntax.ArrayExpr:
		return x.Rparen, []string{")"}
	case *syntax.ProcSubst:
		return x.Rparen, []string{")"}
	case *syntax.ExtGlob:
		if x.Pattern != nil {
			return x.Pattern.ValueEnd, []string{")"}
		}
	case *syntax.TimeClause:
		if x.Stmt == nil {
			return x.Time, []string{"time"}
		}
	case *syntax.Stmt:
		if x.Semicolon.IsValid() {
			switch {
			case x.Coprocess:
				return x.Semicolon, []string{"|&"}
			case x.Disown:
				return x.Semicolon, []string{"&|", "&!"}
			case x.Background:
				return x.Semicolon, []string{"&"}
			}
			return x.Semicolon, []string{";"}
		}
	}
	return syntax.Pos{}, nil
}

// sglValue checks that the text between the quotes spells Value.
func (k *c09Checker) sglValue(fr *c09Frame, x *syntax.SglQuoted, open string) {
	if !x.Left.IsValid() || !x.Right.IsValid() {
		return
	}
	a, b := int(x.Left.Offset()), int(x.Right.Offset())
	if a > b || b > len(k.src) {
		return
	}
	// skip the opening quote (with any dropped bytes in it)
	for _, c := range []byte(open) {
		for a < b && k.src[a] != c {
			a++
		}
		if a < b {
			a++
		}
	}
	k.literals++
	if ok, _ := c09Match(k.src, a, x.Value, fr.cx, b); !ok {
		k.add("literal", fr, "Value", "SglQuoted value %q is not what the source has between the quotes [%d,%d): %q", x.Value, a, b, k.src[a:b])
	}
}

// c09HdocDelim computes the here-document delimiter after quote removal; ok is
// false when the word is not made of literals and quotes only.
func c09HdocDelim(w *syntax.Word) (string, bool) {
	if w == nil {
		return "", false
	}
	var sb strings.Builder
	unbs := func(s string, only string) {
		for i := 0; i < len(s); i++ {
			if s[i] == '\\' && i+1 < len(s) && (only == "" || strings.IndexByte(only, s[i+1]) >= 0) {
				i++
			}
			sb.WriteByte(s[i])
		}
	}
	for _, p := range w.Parts {
		switch x := p.(type) {
		case *syntax.Lit:
			unbs(x.Value, "")
		case *syntax.SglQuoted:
			if x.Dollar {
				return "", false
			}
			sb.WriteString(x.Value)
		case *syntax.DblQuoted:
			for _, q := range x.Parts {
				l, ok := q.(*syntax.Lit)
				if !ok {
					return "", false
				}
				unbs(l.Value, "\"$`\\")
			}
		default:
			return "", false
		}
	}
	return sb.String(), true
}
