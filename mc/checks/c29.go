package checks

import (
	"context"
	"fmt"
	"os"
	"path/filepath"
	"regexp"
	"sort"
	"strings"
	"sync"
	"sync/atomic"
	"time"

	"mvdan.cc/sh/v3/expand"
	"mvdan.cc/sh/v3/interp"
	"mvdan.cc/sh/v3/syntax"

	"verif/mc/synt"
	"verif/mc/vc"
)

func init() { Registry["C29"] = c29 }

// c29Case is one program. Kind: "corpus" (string literal of
// interp/interp_test.go), "syncorpus"/"gram" (genSyn), "own" (c29_progs.go).
type c29Case struct {
	Src  string `json:"src"`
	Kind string `json:"kind"`
	// Light (depth-2 grammar programs): only the recorder runs (first,
	// second, after Reset) and the control run
	Light bool `json:"light,omitempty"`
}

// C29: Running a program leaves the tree and Env untouched.
//
// Per program (parsed ONCE as bash, comments kept): canonical dump with
// positions + printed form are taken; then the same tree is run
//
//	A: fresh Runner, Env = recording WriteEnviron
//	B: another fresh Runner (fresh recorder), then Reset and run again (C)
//	E: fresh Runner, Env = expand.ListEnviron, then Reset and run again (E2)
//	F: fresh Runner, Env = expand.FuncEnviron
//
// and a control run D of a freshly parsed tree. After every run the dump and
// the printed form must equal the originals; the recorder's Set must never
// have been called and its variables (including the whole backing arrays of
// array values and the maps) must be unchanged; the ListEnviron's Each must
// yield what it yielded before. When the control says the program is
// deterministic (D == A), B and C must reproduce A and E2 must reproduce E.
func c29(c *vc.Ctx) {
	depth := vc.Pick(c, 1, 2)
	space := synSpace{Depth: depth, CoreOnly: true, LayoutDepth: -1, Corpus: true, Variants: []string{"bash"}}
	own := c29OwnPrograms(!c.Quick())
	runTimeout := vc.Pick(c, 1500*time.Millisecond, 2*time.Second)
	c.Rule = fmt.Sprintf("programs (bash variant, parsed once, comments kept) = every string literal of interp/interp_test.go and of the syntax test tables that parses + every expansion of the union grammar (mc/synt/gram.go) to nesting depth %d (core contexts below the top level) + %d own programs (c29_progs.go: %d tree-rewriting-prone and Env-writing statements alone, in %d wrappers (function called twice, loop, subshell, command substitution, eval, EXIT trap, pipeline, ...), and ordered pairs (quick: second statement from the Env list; thorough: every ordered pair, also inside a function called twice and inside a loop)); not run: programs outside the own list containing a process substitution (unread FIFOs), programs with `exit`/`return` and a C-style for loop (uncancellable spin). Each program: 6 runs of the same tree (fresh Runner with a recording WriteEnviron; second fresh Runner; same Runner after Reset; ListEnviron twice with Reset; FuncEnviron; the depth-2 grammar programs only get the first three) + 1 control run of a re-parsed tree; oracle: canonical dump with positions and printed form identical after every run, recorder.Set never called, recorder/ListEnviron contents identical (arrays compared over their full capacity), and for deterministic programs (control run equal, no background job outside the own list; for programs outside the own list containing a pipeline the lines of each stream are compared as a sorted list, the stages write concurrently) stdout/stderr/status of the repeated runs equal those of the first. External commands are an in-process stub (cat, env, sleep; everything else 127), a call handler aborts after %d simple commands, context deadline %v; distinct = distinct (program, first-run outcome)",
		depth, len(own), len(c29Stmts()), len(c29Wrappers), c29CallBudget, runTimeout)
	c.Assumptions = []string{
		"tree equality is judged on exported fields (mc/synt Dump with positions and comments) and on syntax.Printer output; a mutation that is undone before Run returns is not seen",
		"behaviour clause only for programs whose control run (fresh tree, fresh Runner) reproduces the first run; the others are counted as skipped_behaviour_*",
		"the stub exec handler, the sandboxing open handler (writes only below the per-case directory) and the call-budget call handler are part of the harness",
	}
	// scratch directories: tmpfs when there is one (metadata operations on
	// the disk file system dominate the run time otherwise); a directory is
	// reused by later cases and emptied before every run
	tmp := os.TempDir()
	if st, err := os.Stat("/dev/shm"); err == nil && st.IsDir() {
		tmp = "/dev/shm"
	}
	base := filepath.Join(tmp, fmt.Sprintf("c29.%d", os.Getpid()))
	os.MkdirAll(base, 0o755)
	var seq atomic.Int64
	var pool sync.Pool

	singles := c29Stmts()
	isSingle := map[string]bool{}
	for _, p := range singles {
		isSingle[p] = true
	}
	run := func(t c29Case) *vc.Fail {
		dir, _ := pool.Get().(string)
		if dir == "" {
			dir = filepath.Join(base, fmt.Sprint(seq.Add(1)))
			if err := os.Mkdir(dir, 0o755); err != nil {
				panic(err)
			}
		}
		fail, reusable := c29One(c, t, dir, runTimeout)
		if reusable {
			pool.Put(dir)
		}
		return fail
	}
	// phase 1: every statement alone. A tree that is rewritten by Run can make
	// a later evaluation of the same node panic inside a goroutine of the
	// Runner (pipeline stage, background job), which no harness can recover
	// from; so the wrapped and paired programs only run when the single
	// statements left their trees alone.
	complete := vc.Run(c, func(emit func(c29Case)) {
		for _, p := range singles {
			emit(c29Case{Src: p, Kind: "own"})
		}
	}, run)
	if n := c29TreeFailures.Load(); n > 0 {
		c.CapNote("%d single statements had their tree modified; wrapped/paired/corpus/grammar programs not run", n)
		os.RemoveAll(base)
		c.Finish(false)
	}
	gen := func(emit func(c29Case)) {
		seen := map[string]bool{}
		for _, p := range own {
			if !isSingle[p] {
				emit(c29Case{Src: p, Kind: "own"})
			}
			seen[p] = true
		}
		for _, src := range synt.InterpCorpus() {
			if !seen[src] {
				seen[src] = true
				emit(c29Case{Src: src, Kind: "corpus"})
			}
		}
		genSyn(c, space, func(sc synCase) {
			if seen[sc.Src] {
				return
			}
			seen[sc.Src] = true
			kind := "gram"
			if sc.Kind == 0 {
				kind = "syncorpus"
			}
			emit(c29Case{Src: sc.Src, Kind: kind, Light: sc.Kind == 3})
		})
	}
	complete = vc.Run(c, gen, run) && complete
	os.RemoveAll(base)
	c.Finish(complete)
}

const c29CallBudget = 2000

// c29TreeFailures counts the tree-modification failures seen so far.
var c29TreeFailures atomic.Int64

var c29TimeRe = regexp.MustCompile(`(?m)^(real|user|sys)([\t ])\S+$`)

// c29Outcome is what one Run produced, normalised (directory name, `time`
// figures).
type c29Outcome struct {
	Text      string // status + fatal + stdout + stderr
	TimedOut  bool
	Abandoned bool
	Panic     string
}

// c29Runner builds a Runner for one run in dir.
type c29Run struct {
	r    *interp.Runner
	out  *c29Buf
	errb *c29Buf
	dir  string
	// calls counts the simple commands of the current run
	calls atomic.Int64
	// unordered: the stages of a pipeline write concurrently, so the order of
	// the lines of a stream is not determined; the outcome holds them sorted
	unordered bool
}

func c29SortLines(s string) string {
	lines := strings.SplitAfter(s, "\n")
	sort.Strings(lines)
	return strings.Join(lines, "")
}

func c29Pairs(dir string) []string {
	return []string{"HOME=" + dir, "TMPDIR=" + dir, "PATH=/usr/bin:/bin", "one=1", "two=2", "foo=envfoo", "empty="}
}

func c29NewRun(dir string, env expand.Environ, unordered ...bool) (*c29Run, error) {
	if err := c29Empty(dir); err != nil {
		return nil, err
	}
	run := &c29Run{out: &c29Buf{}, errb: &c29Buf{}, dir: dir, unordered: len(unordered) > 0 && unordered[0]}
	r, err := interp.New(
		interp.Env(env),
		interp.Dir(dir),
		interp.Params("--", "p1", "p 2"),
		interp.StdIO(nil, run.out, run.errb),
		interp.ExecHandlers(c29Exec(dir)),
		interp.OpenHandler(c29Open(dir)),
		interp.CallHandler(func(ctx context.Context, args []string) ([]string, error) {
			if run.calls.Add(1) > c29CallBudget {
				return nil, fmt.Errorf("c29: call budget exhausted")
			}
			return args, nil
		}),
	)
	if err != nil {
		return nil, err
	}
	run.r = r
	return run, nil
}

// exec runs node on the Runner (after Reset when reset is set) with a
// deadline; a Run that does not come back is abandoned.
func (run *c29Run) exec(f *syntax.File, reset bool, timeout time.Duration) c29Outcome {
	if reset {
		// the previous run's files must not influence this one
		c29Empty(run.dir)
		run.r.Reset()
		run.out.Reset()
		run.errb.Reset()
	}
	run.calls.Store(0)
	ctx, cancel := context.WithTimeout(context.Background(), timeout)
	defer cancel()
	type res struct {
		err error
		pan string
	}
	done := make(chan res, 1)
	go func() {
		var rs res
		defer func() {
			if p := recover(); p != nil {
				rs.pan = fmt.Sprint(p)
			}
			done <- rs
		}()
		rs.err = run.r.Run(ctx, f)
	}()
	var rs res
	select {
	case rs = <-done:
	case <-time.After(timeout + 4*time.Second):
		return c29Outcome{Abandoned: true}
	}
	o := c29Outcome{Panic: rs.pan}
	status, fatal := 0, ""
	if rs.err != nil {
		if st, ok := interp.IsExitStatus(rs.err); ok {
			status = int(st)
		} else {
			status, fatal = 1, rs.err.Error()
		}
	}
	if ctx.Err() != nil {
		o.TimedOut = true
	}
	if run.unordered && run.calls.Load() > c29CallBudget {
		// concurrent stages share the call budget: where each of them is cut
		// off is not determined, so this counts as a timeout
		o.TimedOut = true
	}
	norm := func(s string) string {
		s = strings.ReplaceAll(s, run.dir, "<DIR>")
		return c29TimeRe.ReplaceAllString(s, "$1$2<T>")
	}
	stdout, stderr := norm(run.out.String()), norm(run.errb.String())
	if run.unordered {
		stdout, stderr = c29SortLines(stdout), c29SortLines(stderr)
	}
	o.Text = fmt.Sprintf("status=%d fatal=%q stdout=%q stderr=%q", status, norm(fatal), stdout, stderr)
	return o
}

// c29Empty removes whatever a previous run left in dir.
func c29Empty(dir string) error {
	ents, err := os.ReadDir(dir)
	if err != nil {
		return err
	}
	for _, e := range ents {
		if err := os.RemoveAll(filepath.Join(dir, e.Name())); err != nil {
			return err
		}
	}
	return nil
}

// c29Spins: a C-style for loop keeps iterating after `exit 0`/`return 0` in
// its body without ever looking at the context (a hang of the interpreter that
// is the subject of C31, not of this property); such a run can only be
// abandoned, leaving a goroutine that burns a core, so these are not run.
func c29Spins(f *syntax.File, src string) bool {
	if !strings.Contains(src, "exit") && !strings.Contains(src, "return") {
		return false
	}
	found := false
	syntax.Walk(f, func(n syntax.Node) bool {
		if fc, ok := n.(*syntax.ForClause); ok {
			if _, ok := fc.Loop.(*syntax.CStyleLoop); ok {
				found = true
			}
		}
		return !found
	})
	return found || strings.Contains(src, "for ((") || strings.Contains(src, "for((")
}

// c29EndlessFor: a C-style for loop without condition in a program without
// `break`.
func c29EndlessFor(f *syntax.File, src string) bool {
	if strings.Contains(src, "break") {
		return false
	}
	found := false
	syntax.Walk(f, func(n syntax.Node) bool {
		if fc, ok := n.(*syntax.ForClause); ok {
			if cl, ok := fc.Loop.(*syntax.CStyleLoop); ok && cl.Cond == nil {
				found = true
			}
		}
		return !found
	})
	return found
}

// c29HasBackground: the program may start jobs it does not wait for (own
// programs always wait).
func c29HasBackground(f *syntax.File, t c29Case) bool {
	if t.Kind == "own" {
		return false
	}
	found := strings.Contains(t.Src, "coproc")
	syntax.Walk(f, func(n syntax.Node) bool {
		if st, ok := n.(*syntax.Stmt); ok && (st.Background || st.Coprocess || st.Disown) {
			found = true
		}
		return !found
	})
	return found
}

func c29HasProcSubst(src string) bool {
	return strings.Contains(src, "<(") || strings.Contains(src, ">(")
}

// c29One judges one program; reusable is false when a run was abandoned (a
// leaked goroutine may still use the directory).
func c29One(c *vc.Ctx, t c29Case, dir string, timeout time.Duration) (fail *vc.Fail, reusable bool) {
	abandoned := false
	fail = c29Judge(c, t, dir, timeout, &abandoned)
	return fail, !abandoned
}

func c29Judge(c *vc.Ctx, t c29Case, dir string, timeout time.Duration, abandoned *bool) *vc.Fail {
	key := t.Src
	parse := func() (*syntax.File, error) {
		return syntax.NewParser(syntax.Variant(syntax.LangBash), syntax.KeepComments(true)).Parse(strings.NewReader(t.Src), "")
	}
	f, err := parse()
	if err != nil || len(f.Stmts) == 0 {
		c.Count("skipped_does_not_parse_or_empty", 1)
		return nil
	}
	if t.Kind != "own" && c29HasProcSubst(t.Src) {
		c.Count("skipped_process_substitution", 1)
		return nil
	}
	if c29Spins(f, t.Src) {
		c.Count("skipped_uncancellable_loop", 1)
		return nil
	}
	if c29EndlessFor(f, t.Src) {
		// `for ((;;))` without break: only the context ends it (or the call
		// budget); a short deadline is enough to check the tree afterwards
		timeout = 200 * time.Millisecond
		c.Count("endless_for_short_deadline", 1)
	}
	background := c29HasBackground(f, t)
	unordered := (t.Kind != "own" && strings.Contains(t.Src, "|")) || c29HasProcSubst(t.Src)
	c.Count("programs_run_"+t.Kind, 1)
	dopts := synt.DumpOpts{Positions: true, Comments: true}
	printer := syntax.NewPrinter()
	print := func(f *syntax.File) string {
		var sb strings.Builder
		if err := printer.Print(&sb, f); err != nil {
			return "PRINT-ERROR " + err.Error()
		}
		return sb.String()
	}
	dump0, print0 := synt.Dump(f, dopts), print(f)

	var fail *vc.Fail
	treeCheck := func(runName string) bool {
		if d := synt.Dump(f, dopts); d != dump0 {
			c29TreeFailures.Add(1)
			fail = &vc.Fail{Key: key + " | tree-dump " + runName, Msg: fmt.Sprintf("Run (%s) modified the syntax tree of %s: %s", runName, shortSrc(t.Src), c29FirstDiff(dump0, d)),
				Detail: map[string]string{"before": dump0, "after": d}, Class: c29Class(t, "tree")}
			return false
		}
		if p := print(f); p != print0 {
			fail = &vc.Fail{Key: key + " | tree-print " + runName, Msg: fmt.Sprintf("Run (%s) changed the printed form of %s: before %q after %q", runName, shortSrc(t.Src), print0, p), Class: c29Class(t, "tree")}
			return false
		}
		return true
	}
	bad := func(o c29Outcome, runName string) bool {
		if o.Abandoned {
			c.Count("abandoned_runs", 1)
			*abandoned = true
			c29Debug("abandoned "+runName, t.Src)
			return true
		}
		if o.Panic != "" {
			// a panic of the interpreter is not this property's subject, but
			// it leaves nothing to compare
			c.Count("skipped_run_panicked", 1)
			return true
		}
		return false
	}

	// ---- run A: recording environment
	recA := c29NewRecorder(dir)
	runA, err := c29NewRun(dir, recA, unordered)
	if err != nil {
		c.Count("skipped_harness_error", 1)
		return nil
	}
	oA := runA.exec(f, false, timeout)
	if oA.Abandoned {
		c.Count("abandoned_runs", 1)
		*abandoned = true
		c29Debug("abandoned", t.Src)
		return nil // the tree may still be in use
	}
	if !treeCheck("first run") {
		return fail
	}
	// a failure of a recorded (classified) family does not end the case: the
	// remaining clauses are still judged and it is reported at the end
	var pending *vc.Fail
	if m := recA.verify(); m != "" {
		fl := &vc.Fail{Key: key + " | env " + m, Msg: fmt.Sprintf("Run of %s wrote to the supplied Env: %s", shortSrc(t.Src), m), Class: c29Class(t, "env", m)}
		if fl.Class == "" {
			return fl
		}
		pending = fl
	}
	if oA.Panic != "" {
		c.Count("skipped_run_panicked", 1)
		return pending
	}
	if oA.TimedOut {
		c29Debug("timeout", t.Src)
		c.Count("skipped_behaviour_timeout", 1)
		return pending
	}
	c.Distinct(t.Src + "\x00" + oA.Text)

	// ---- control run D: fresh tree
	fD, err := parse()
	if err != nil {
		return vc.Failf(key+" | reparse", "second parse of %s fails: %v", shortSrc(t.Src), err)
	}
	runD, err := c29NewRun(dir, c29NewRecorder(dir), unordered)
	if err != nil {
		c.Count("skipped_harness_error", 1)
		return pending
	}
	oD := runD.exec(fD, false, timeout)
	if bad(oD, "control") {
		return pending
	}
	det := !oD.TimedOut && oD.Text == oA.Text
	if background {
		// jobs nobody waits for may outlive Run and write later
		det = false
		c.Count("skipped_behaviour_background_job", 1)
	} else if !det {
		c29Debug("nondeterministic", t.Src+" :: "+oA.Text+" :: "+oD.Text)
		c.Count("skipped_behaviour_nondeterministic", 1)
	}

	// ---- run B: second fresh Runner, same tree; then Reset and again
	recB := c29NewRecorder(dir)
	runB, err := c29NewRun(dir, recB, unordered)
	if err != nil {
		c.Count("skipped_harness_error", 1)
		return pending
	}
	detB := det
	for i, name := range []string{"second run, fresh Runner", "third run, same Runner after Reset"} {
		dirty := false
		oB := runB.exec(f, i == 1, timeout)
		if bad(oB, name) {
			return pending
		}
		if !treeCheck(name) {
			return fail
		}
		if m := recB.verify(); m != "" {
			fl := &vc.Fail{Key: key + " | env " + name + " " + m, Msg: fmt.Sprintf("%s of %s wrote to the supplied Env: %s", name, shortSrc(t.Src), m), Class: c29Class(t, "env", m)}
			if fl.Class == "" {
				return fl
			}
			if pending == nil {
				pending = fl
			}
			dirty = true
		}
		if detB && !oB.TimedOut && oB.Text != oA.Text {
			return &vc.Fail{Key: key + " | behaviour " + name, Msg: fmt.Sprintf("%s of the same tree of %s behaves differently from the first run: first %s, now %s", name, shortSrc(t.Src), oA.Text, oB.Text), Class: c29Class(t, "behaviour")}
		}
		if dirty {
			// the next run on this Runner starts from a changed Env: its
			// behaviour says nothing more
			detB = false
		}
	}

	if t.Light {
		return pending
	}

	// ---- run E: plain read-only ListEnviron, twice with Reset
	lenv := expand.ListEnviron(c29Pairs(dir)...)
	snap0 := c29EachSnapshot(lenv)
	runE, err := c29NewRun(dir, lenv, unordered)
	if err != nil {
		c.Count("skipped_harness_error", 1)
		return pending
	}
	var oE c29Outcome
	for i, name := range []string{"run with ListEnviron", "run with ListEnviron after Reset"} {
		o := runE.exec(f, i == 1, timeout)
		if bad(o, name) {
			return pending
		}
		if !treeCheck(name) {
			return fail
		}
		if s := c29EachSnapshot(lenv); s != snap0 {
			return &vc.Fail{Key: key + " | listenv " + name, Msg: fmt.Sprintf("%s of %s changed what ListEnviron.Each yields: before %q after %q", name, shortSrc(t.Src), snap0, s), Class: c29Class(t, "env")}
		}
		if i == 0 {
			oE = o
		} else if det && !o.TimedOut && !oE.TimedOut && o.Text != oE.Text {
			return &vc.Fail{Key: key + " | behaviour " + name, Msg: fmt.Sprintf("%s of %s behaves differently from the run before the Reset: first %s, now %s", name, shortSrc(t.Src), oE.Text, o.Text), Class: c29Class(t, "behaviour")}
		}
	}

	// ---- run F: FuncEnviron
	pairs := c29Pairs(dir)
	fenv := expand.FuncEnviron(func(name string) string {
		for _, p := range pairs {
			if n, v, _ := strings.Cut(p, "="); n == name {
				return v
			}
		}
		return ""
	})
	runF, err := c29NewRun(dir, fenv, unordered)
	if err != nil {
		c.Count("skipped_harness_error", 1)
		return pending
	}
	oF := runF.exec(f, false, timeout)
	if bad(oF, "FuncEnviron") {
		return pending
	}
	if !treeCheck("run with FuncEnviron") {
		return fail
	}
	if t.Kind == "own" {
		c.Sample(map[string]any{"src": t.Src, "first_run": oA.Text})
	}
	return pending
}

func c29EachSnapshot(env expand.Environ) string {
	var sb strings.Builder
	env.Each(func(name string, vr expand.Variable) bool {
		fmt.Fprintf(&sb, "%s=%s;", name, c29VarString(vr, false))
		return true
	})
	return sb.String()
}

// c29FirstDiff shows the surroundings of the first differing byte.
func c29FirstDiff(a, b string) string {
	i := 0
	for i < len(a) && i < len(b) && a[i] == b[i] {
		i++
	}
	lo := max(i-60, 0)
	return fmt.Sprintf("before …%s… after …%s…", a[lo:min(i+60, len(a))], b[lo:min(i+60, len(b))])
}

// c29Class names the family of a failure; see c29_class.go.
func c29Class(t c29Case, what string, detail ...string) string {
	return c29Classify(t.Src, what, strings.Join(detail, ""))
}

// c29Debug prints harness events when VERIF_C29_DEBUG is set.
func c29Debug(what, s string) {
	if os.Getenv("VERIF_C29_DEBUG") != "" || strings.HasPrefix(what, "abandoned") {
		fmt.Fprintf(os.Stderr, "c29 %s: %q\n", what, s)
	}
}
