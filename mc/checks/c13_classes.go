package checks

import (
	"strings"

	"mvdan.cc/sh/v3/syntax"
)

// c13Classify names the narrow divergence families recorded as known
// findings. stage is where the case failed: "refused" (Quote returned an
// error), "parse", "parts", "literal" or "shell".
func c13Classify(s string, lang syntax.LangVariant, stage string) string {
	switch {
	case stage == "parse" && s == "elif":
		// IsKeyword's list lacks "elif", so Quote returns it bare and it is a
		// reserved word in command position
		return "elif-not-quoted"
	case stage == "parse" && (s == "let" && lang != syntax.LangPOSIX || s == "@test" && lang == syntax.LangBats):
		// not reserved words in bash, but this parser starts a clause on
		// them and rejects the bare word standing alone
		return "clause-word-not-quoted"
	case stage == "refused" && lang == syntax.LangPOSIX && strings.ContainsRune(s, '�') && c13Printable(s):
		// a correctly encoded U+FFFD is taken for a decoding error
		return "posix-refuses-valid-replacement-char"
	}
	return ""
}
