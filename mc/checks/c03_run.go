package checks

import (
	"bytes"
	"context"
	"errors"
	"fmt"
	"os"
	"os/exec"
	"path/filepath"
	"sync"
	"syscall"
	"time"

	"verif/mc/oracle"
)

// c03Res is the observable behaviour of one run: standard output and exit
// status. Flag is non-empty when the run cannot be judged (timeout, spawn
// error, interpreter fatal error).
type c03Res struct {
	Out    string
	Status int
	Flag   string
	errOut string // stderr, for reports only (never compared)
}

func (r c03Res) same(o c03Res) bool {
	return r.Flag == o.Flag && r.Status == o.Status && r.Out == o.Out
}

func (r c03Res) String() string {
	if r.Flag != "" {
		return fmt.Sprintf("[%s] status=%d stdout=%q", r.Flag, r.Status, clip(r.Out, 200))
	}
	return fmt.Sprintf("status=%d stdout=%q", r.Status, clip(r.Out, 200))
}

func clip(s string, n int) string {
	if len(s) > n {
		return s[:n] + "…"
	}
	return s
}

// c03ToolDir holds symbolic links to a few read-only/harmless utilities that
// the interpreter's test programs use all the time (cat above all). The
// generated family runs with no external command at all.
const c03ToolDir = "/tmp/c03-tools"

var c03Tools = []string{"cat", "sed", "grep", "tr", "sort", "wc", "head", "tail", "seq", "mkdir", "touch", "ls"}

const c03NoPath = "/nonexistent/c03-bin"

func c03SetupTools() {
	os.MkdirAll(c03ToolDir, 0o755)
	for _, t := range c03Tools {
		for _, d := range []string{"/usr/bin", "/bin"} {
			if _, err := os.Stat(filepath.Join(d, t)); err == nil {
				os.Symlink(filepath.Join(d, t), filepath.Join(c03ToolDir, t)) // EEXIST is fine
				break
			}
		}
	}
}

// c03Slots is a pool of scratch locations. A slot is <root>/wNN holding the
// script file s.sh and the working directory d (recreated empty for every
// run, always under the same path).
type c03Slots struct {
	root string
	ch   chan string
}

var (
	c03SlotsOnce sync.Once
	c03SlotPool  *c03Slots
)

func c03GetSlots() *c03Slots {
	c03SlotsOnce.Do(func() {
		root := fmt.Sprintf("/tmp/c03-%07d", os.Getpid())
		os.RemoveAll(root)
		n := 64
		s := &c03Slots{root: root, ch: make(chan string, n)}
		for i := 0; i < n; i++ {
			d := filepath.Join(root, fmt.Sprintf("w%02d", i))
			os.MkdirAll(d, 0o755)
			s.ch <- d
		}
		c03SlotPool = s
	})
	return c03SlotPool
}

func (s *c03Slots) get() string   { return <-s.ch }
func (s *c03Slots) put(d string)  { s.ch <- d }
func (s *c03Slots) cleanup()      { os.RemoveAll(s.root) }
func c03Fresh(slot string) string {
	d := filepath.Join(slot, "d")
	// files created by a program may be unreadable/unwritable
	filepath.Walk(d, func(p string, fi os.FileInfo, err error) error {
		if err == nil && fi.IsDir() {
			os.Chmod(p, 0o755)
		}
		return nil
	})
	os.RemoveAll(d)
	os.Mkdir(d, 0o755)
	return d
}

func c03Env(tools bool) []string {
	path := c03NoPath
	if tools {
		path = c03ToolDir
	}
	return []string{"PATH=" + path, "HOME=/nonexistent", "LC_ALL=C.utf8", "TZ=UTC"}
}

// c03RunBash runs text as a script file with bash in a fresh directory of the
// slot. Standard input is empty, standard error is kept for reports only.
func c03RunBash(text, slot string, tools bool) c03Res {
	r := c03RunBashT(text, slot, tools, 20*time.Second)
	if r.Flag == "timeout" {
		// an overloaded machine, or a real hang: decide with a long limit
		r = c03RunBashT(text, slot, tools, 120*time.Second)
	}
	return r
}

func c03RunBashT(text, slot string, tools bool, limit time.Duration) c03Res {
	dir := c03Fresh(slot)
	script := filepath.Join(slot, "s.sh")
	if err := os.WriteFile(script, []byte(text), 0o644); err != nil {
		return c03Res{Flag: "harness: " + err.Error()}
	}
	ctx, cancel := context.WithTimeout(context.Background(), limit)
	defer cancel()
	cmd := exec.CommandContext(ctx, "/bin/bash", "--norc", "--noprofile", "../s.sh")
	cmd.Env = c03Env(tools)
	cmd.Dir = dir
	cmd.SysProcAttr = &syscall.SysProcAttr{Setpgid: true}
	cmd.Cancel = func() error { return syscall.Kill(-cmd.Process.Pid, syscall.SIGKILL) }
	cmd.WaitDelay = 2 * time.Second
	var out, errb bytes.Buffer
	cmd.Stdout = &out
	cmd.Stderr = &errb
	err := cmd.Run()
	if cmd.Process != nil {
		syscall.Kill(-cmd.Process.Pid, syscall.SIGKILL) // stray background jobs
	}
	res := c03Res{Out: out.String(), errOut: clip(errb.String(), 400)}
	if ctx.Err() != nil {
		res.Flag = "timeout"
		return res
	}
	if ee, ok := err.(*exec.ExitError); ok {
		res.Status = ee.ExitCode()
		return res
	}
	if errors.Is(err, exec.ErrWaitDelay) && cmd.ProcessState != nil {
		// bash itself has exited; a stray child (e.g. a process substitution
		// nobody reads) still held our pipes and has been killed
		res.Status = cmd.ProcessState.ExitCode()
		return res
	}
	if err != nil {
		res.Flag = "harness: " + err.Error()
	}
	return res
}

// c03RunInterp runs text with a fresh interp.Runner in a fresh directory of
// the slot.
func c03RunInterp(text, slot string, tools bool) c03Res {
	dir := c03Fresh(slot)
	r := oracle.RunInterp(text, oracle.InterpOpts{Dir: dir, Env: c03Env(tools), NoExec: !tools, Timeout: 10 * time.Second})
	res := c03Res{Out: r.Stdout, Status: r.Status, errOut: clip(r.Stderr, 400)}
	switch {
	case r.ParseErr != "":
		res.Flag = "parse: " + r.ParseErr
	case r.Panicked:
		res.Flag = "panic: " + clip(r.Fatal, 300)
	case r.Fatal != "":
		res.Flag = "fatal: " + r.Fatal
	}
	return res
}
