package checks

import (
	"bytes"
	"fmt"
	"os"
	"reflect"
	"regexp"
	"strings"
	"sync"

	"mvdan.cc/sh/v3/syntax"
	"mvdan.cc/sh/v3/syntax/typedjson"

	"verif/mc/synt"
	"verif/mc/vc"
)

func init() { Registry["C15"] = c15 }

// c15Case is one case of C15. Mode selects the clause of the property:
//
//	rt    round trip of every node of the tree parsed from Src in Variant
//	mut   every single-point mutation of the encoded documents of Src's nodes
//	mut2  every ordered pair of (reduced-menu) mutations of those documents
//	doc   one synthetic JSON document (Doc) given to Decode
type c15Case struct {
	Mode    string `json:"mode"`
	Src     string `json:"src,omitempty"`
	// Variants: the language variants the program is taken in. Trees that are
	// identical (reflect.DeepEqual, positions included) to the tree of an
	// earlier variant of the same case are not checked again.
	Variants []string `json:"variants,omitempty"`
	// Kind: 0 corpus, 1 grammar depth<=1, 2 layout deviation, 3 depth 2,
	// 5 proper prefix of a kind 0/1 program, 6 byte-string program,
	// 7 generated program with extreme positions (BigLines/BigCols).
	Kind     int    `json:"kind,omitempty"`
	BigLines int    `json:"big_lines,omitempty"`
	BigCols  int    `json:"big_cols,omitempty"`
	Docs     []string `json:"docs,omitempty"`
}

func (t c15Case) source() string {
	if t.Kind == 7 {
		return strings.Repeat("\n", t.BigLines) + strings.Repeat(" ", t.BigCols) + "a b"
	}
	return t.Src
}

func (t c15Case) label(variant string) string {
	if t.Kind == 7 {
		return fmt.Sprintf("%s <%d newlines, %d spaces, \"a b\">", variant, t.BigLines, t.BigCols)
	}
	return variant + " " + fmt.Sprintf("%q", t.Src)
}

const c15RecoverMax = 8

var c15U = c15BuildUniverse()

// c15Claimed maps an encoded document (prefixed by the mode) to the program
// of the case that mutates it.
var c15Claimed sync.Map

// c15Dry (development aid) only counts the mutants.
var c15Dry = os.Getenv("VERIF_C15_DRY") != ""

var c15AllVariants = []string{"bash", "posix", "mksh", "bats", "zsh"}

// c15MutVariants are the variants whose parses provide documents to mutate
// (bats and zsh add TestDecl and FlagsArithm; posix and mksh trees use no
// further node types).
var c15MutVariants = []string{"bash", "zsh", "bats"}

func c15(c *vc.Ctx) {
	space := synSpace{Depth: vc.Pick(c, 1, 2), CoreOnly: true, LayoutDepth: vc.Pick(c, 0, 1), Corpus: true, AllVariantsDeep: !c.Quick()}
	prefixMaxLen := vc.Pick(c, 16, 64) // longest kind 0/1 program whose proper prefixes are taken
	mutDepth := vc.Pick(c, 0, 1)          // grammar depth of the programs whose documents are mutated
	mutMaxSingles := vc.Pick(c, 6000, 6000)
	pairMaxSingles := vc.Pick(c, 720, 800)
	fullMenu := &c15Menu{Values: c15ValueMenu(), Renames: []string{"Type", "Pos", "End", "Offset", "Line", "Col", "Nope"}, DocKeys: true, Types: append(append([]string{}, c15U.TypeNames...), "Nope", "")}
	pairMenu := &c15Menu{Values: c15ValueMenu(), Renames: []string{"Type", "Pos", "Value", "Parts", "Op", "Nope"}, Types: c15U.TypeNames}
	c.Rule = space.describe() + fmt.Sprintf("; PLUS every proper prefix of the corpus and depth<=1 programs of <=%d bytes, PLUS byte-string programs (every string of <=2 bytes over 12 bytes incl. invalid UTF-8, C0 controls, quotes, plus U+2028/U+2029/U+FFFD/surrogate/out-of-range encodings, in 6 lexical contexts), PLUS 9 generated programs whose positions reach and overflow the line (18 bit) and column (14 bit) fields; each program is parsed in all 5 variants with comments kept, and when that fails again with RecoverErrors(%d) (so recovered positions occur); programs containing '{' are additionally taken with every word split by SplitBraces (BraceExp nodes); a tree identical (reflect.DeepEqual) to that of an earlier variant of the same program is checked once. ROUND TRIP, for the root and EVERY sub-node (found by reflection, incl. comments) as the encoded node: Decode(Encode(n)) must succeed and be equal to n field by field (own reflective comparison: same dynamic types, pointer nil-ness, slices element-wise with nil==empty, strings/bools/integers/operators equal, every Pos identical except a recovered Pos which must decode to the zero Pos), Encode(Decode(Encode(n))) byte-identical; the same with Indent for the root. DECODE ROBUSTNESS: (1) for the documents of every node of the depth<=%d default-layout programs (parses in bash, zsh, bats; documents with <=%d single mutations; larger ones counted as skipped) EVERY single-point mutation: each JSON value replaced by each of %d menu values, each member deleted, each key renamed to each key occurring anywhere in the document and to Type/Pos/End/Offset/Line/Col/Nope, each array element deleted, each object's Type set to each of %d names; (2) for documents with <=%d reduced-menu mutations every ORDERED PAIR of mutations (the second enumerated on the mutated document); (3) the full matrix {Type:T, F:v} for every reachable struct type T (%d, non-node structs wrapped in a parent) x every field name F of any struct (%d names + Type/Pos/End/Nope) x every menu value v, [v], {Type:T2}, [{Type:T2}] for all %d node types T2; oracle: Decode returns without panicking; distinct = distinct root documents + distinct decode outcomes of matrix documents",
		prefixMaxLen, c15RecoverMax, mutDepth, mutMaxSingles, len(fullMenu.Values), len(fullMenu.Types), pairMaxSingles, len(c15U.Contexts), len(c15U.FieldNames), len(c15U.TypeNames))
	c.BatchSize = 4 // mutation cases take seconds; the budget is checked between batches
	c.Assumptions = []string{
		"the comparison treats a nil and an empty slice as equal (the encoder omits empty slices by design)",
		"trees after syntax.SplitBraces are included although the statement says 'parsed tree' (BraceExp is a registered node type the parser never produces)",
		"encoding/json (parsing and rendering of JSON text) is trusted",
	}

	if c15Dry {
		c.CapNote("VERIF_C15_DRY: mutants are counted, not decoded")
	}
	gen := func(emit0 func(c15Case)) {
		emit := emit0
		if only := os.Getenv("VERIF_C15_ONLY"); only != "" { // development aid: e.g. "rt0 rt5 mut1 doc0"
			c.CapNote("VERIF_C15_ONLY=%s restricts the enumeration", only)
			emit = func(t c15Case) {
				if strings.Contains(" "+only+" ", fmt.Sprintf(" %s%d ", t.Mode, t.Kind)) {
					emit0(t)
				}
			}
		}
		// 1. round trips over the shared syntax space; genSyn emits the
		// variants of one program consecutively
		seenSrc := map[string]bool{}
		var small []string // kind 0/1 programs, for prefixes
		var cur *c15Case
		flush := func() {
			if cur != nil {
				emit(*cur)
				cur = nil
			}
		}
		genSyn(c, space, func(s synCase) {
			if cur != nil && cur.Src == s.Src && cur.Kind == s.Kind {
				cur.Variants = append(cur.Variants, s.Variant)
				return
			}
			flush()
			cur = &c15Case{Mode: "rt", Src: s.Src, Variants: []string{s.Variant}, Kind: s.Kind}
			if !seenSrc[s.Src] {
				seenSrc[s.Src] = true
				if s.Kind <= 1 {
					small = append(small, s.Src)
				}
			}
		})
		flush()
		// 2. proper prefixes (mostly programs with errors; RecoverErrors
		// produces recovered positions for many of them)
		for _, src := range small {
			if len(src) > prefixMaxLen {
				continue
			}
			for i := 1; i < len(src); i++ {
				p := src[:i]
				if seenSrc[p] {
					continue
				}
				seenSrc[p] = true
				emit(c15Case{Mode: "rt", Src: p, Variants: c15AllVariants, Kind: 5})
			}
		}
		// 3. byte strings in lexical contexts
		alphabet := []string{"a", "\x01", "\x7f", "\x80", "\xc3", "\xa9", "\xff", "\xe2", "\xa8", "\"", "\\", "<"}
		ctxs := []func(string) string{
			func(s string) string { return "echo x" + s + "y" },
			func(s string) string { return "echo 'x" + s + "y'" },
			func(s string) string { return "echo \"x" + s + "y\"" },
			func(s string) string { return "a # x" + s + "y" },
			func(s string) string { return "cat <<E\nx" + s + "y\nE\n" },
			func(s string) string { return "echo $'x" + s + "y'" },
		}
		var strs []string
		for _, a := range alphabet {
			strs = append(strs, a)
			for _, b := range alphabet {
				strs = append(strs, a+b)
			}
		}
		strs = append(strs, "\xe2\x80\xa8", "\xe2\x80\xa9", "\xef\xbf\xbd", "\xed\xa0\x80", "\xf4\x90\x80\x80", "&", ">")
		for _, s := range strs {
			for _, cx := range ctxs {
				src := cx(s)
				if seenSrc[src] {
					continue
				}
				seenSrc[src] = true
				emit(c15Case{Mode: "rt", Src: src, Variants: c15AllVariants, Kind: 6})
			}
		}
		// 4. positions at the limits of the line (18 bits) and column (14 bits) fields
		for _, lc := range [][2]int{{1<<18 - 3, 0}, {1<<18 - 2, 0}, {1<<18 - 1, 0}, {0, 1<<14 - 3}, {0, 1<<14 - 2}, {0, 1<<14 - 1}, {1<<18 - 2, 1<<14 - 2}, {1<<18 - 1, 1<<14 - 1}, {1 << 18, 1 << 14}} {
			emit(c15Case{Mode: "rt", Variants: []string{"bash"}, Kind: 7, BigLines: lc[0], BigCols: lc[1]})
		}
		// 5. mutations of small encoded documents
		extra := []string{"(a |", "# c\na", "echo ${a[(r)foo]}", "{a,b}", "$((1+2))", "[[ a && b ]]", "${x:-d}", "${x/p/r}", "${x:1:2}", "@(a)", "<(a)"}
		var mutSrcs []string
		synt.Sources(mutDepth, false, -1, func(x synt.Source) { mutSrcs = append(mutSrcs, x.Text) })
		mutSrcs = append(mutSrcs, extra...)
		seenMut := map[string]bool{}
		for _, src := range mutSrcs {
			if !seenMut[src] {
				seenMut[src] = true
				emit(c15Case{Mode: "mut", Src: src, Variants: c15MutVariants, Kind: 1})
			}
		}
		// 6. pairs of mutations of the smallest documents
		var pairSrcs []string
		synt.Sources(0, false, -1, func(x synt.Source) { pairSrcs = append(pairSrcs, x.Text) })
		pairSrcs = append(pairSrcs, extra...)
		seenMut = map[string]bool{}
		for _, src := range pairSrcs {
			if !seenMut[src] {
				seenMut[src] = true
				emit(c15Case{Mode: "mut2", Src: src, Variants: c15MutVariants, Kind: 1})
			}
		}
		// 7. the (struct type, field, value) matrix
		c15Matrix(func(docs []string) { emit(c15Case{Mode: "doc", Docs: docs}) })
	}

	complete := vc.Run(c, gen, func(t c15Case) *vc.Fail {
		switch t.Mode {
		case "rt":
			return c15RoundTrip(c, t)
		case "mut":
			return c15Mutate(c, t, fullMenu, nil, mutMaxSingles)
		case "mut2":
			return c15Mutate(c, t, pairMenu, pairMenu, pairMaxSingles)
		case "doc":
			c.Count("matrix_docs", len(t.Docs))
			c.Eval(len(t.Docs) - 1)
			var first *vc.Fail
			for _, doc := range t.Docs {
				out, fl := c15Decode(c, []byte(doc))
				if fl == nil {
					c.Distinct("m:" + out)
				} else if first == nil || (first.Class != "" && fl.Class == "") {
					first = fl
				}
			}
			return first
		}
		return vc.Failf("bad case", "unknown mode %q", t.Mode)
	})
	c.Finish(complete)
}

// c15Matrix emits {Type:T, F:v} documents for every reachable struct type,
// one group per (struct type, field name).
func c15Matrix(emit func(docs []string)) {
	var vals []*c15jv
	for _, v := range c15ValueMenu() {
		vals = append(vals, v, c15Arr(v))
	}
	for _, tn := range c15U.TypeNames {
		vals = append(vals, c15Obj("Type", c15Str(tn)), c15Arr(c15Obj("Type", c15Str(tn))))
	}
	names := append(append([]string{}, c15U.FieldNames...), "Type", "Pos", "End", "Nope")
	var typeVals []*c15jv
	for _, tn := range c15U.TypeNames {
		typeVals = append(typeVals, c15Str(tn))
	}
	var b bytes.Buffer
	for _, cx := range c15U.Contexts {
		for _, f := range names {
			vs := vals
			if f == "Type" {
				vs = append(append([]*c15jv{}, vals...), typeVals...)
			}
			var docs []string
			for _, v := range vs {
				var obj *c15jv
				if cx.Node && f != "Type" {
					obj = c15Obj("Type", c15Str(cx.Name), f, v)
				} else {
					obj = c15Obj(f, v)
				}
				b.Reset()
				cx.Wrap(obj).render(&b)
				docs = append(docs, b.String())
			}
			emit(docs)
		}
	}
}

// c15Decode runs Decode on doc; a panic is the only failure. The returned
// string summarises the outcome (error text or root node type).
func c15Decode(c *vc.Ctx, doc []byte) (outcome string, fail *vc.Fail) {
	defer func() {
		if r := recover(); r != nil {
			shape := c15PanicShape(r)
			c.Count("decode_panics", 1)
			fail = &vc.Fail{Key: "decode-panic " + shape + " doc=" + string(doc), Msg: fmt.Sprintf("Decode panics (%s) on %s", shape, shortSrc(string(doc))), Class: c15PanicClass(shape, doc)}
		}
	}()
	node, err := typedjson.Decode(bytes.NewReader(doc))
	if err != nil {
		return "E:" + err.Error(), nil
	}
	return fmt.Sprintf("T:%T", node), nil
}

// c15PanicClass names the family of a Decode panic (none recorded so far).
func c15PanicClass(shape string, doc []byte) string { return "" }

// ---- trees ------------------------------------------------------------------

type c15Tree struct {
	variant string
	label   string // plain | recovered | braces
	file    *syntax.File
}

// c15Trees parses the case's program in each of its variants: plainly, and
// when that fails with RecoverErrors; a program containing '{' is also
// returned with all its words brace-split when that changes anything. Trees
// identical to an earlier one of the same label are dropped.
func c15Trees(c *vc.Ctx, t c15Case) []c15Tree {
	src := t.source()
	var out []c15Tree
	add := func(tr c15Tree) {
		for _, o := range out {
			if o.label == tr.label && reflect.DeepEqual(o.file, tr.file) {
				c.Count("trees_identical_to_an_earlier_variant", 1)
				return
			}
		}
		out = append(out, tr)
	}
	for _, variant := range t.Variants {
		lang := synt.LangByName(variant)
		parse := func(opts ...syntax.ParserOption) (*syntax.File, error) {
			o := append([]syntax.ParserOption{syntax.Variant(lang), syntax.KeepComments(true)}, opts...)
			return syntax.NewParser(o...).Parse(strings.NewReader(src), "")
		}
		f, err := parse()
		if err != nil {
			f, err = parse(syntax.RecoverErrors(c15RecoverMax))
			if err != nil || f == nil {
				c.Count("pairs_not_parsing", 1)
				continue
			}
			c.Count("pairs_parsing_recovered", 1)
			add(c15Tree{variant, "recovered", f})
			continue
		}
		c.Count("pairs_parsing", 1)
		add(c15Tree{variant, "plain", f})
		if strings.Contains(src, "{") {
			f2, err := parse()
			if err == nil {
				split := false
				for _, n := range c15AllNodes(f2) { // collected before any word is changed
					if w, ok := n.(*syntax.Word); ok && syntax.SplitBraces(w) {
						split = true
					}
				}
				if split {
					c.Count("trees_with_braceexp", 1)
					add(c15Tree{variant, "braces", f2})
				}
			}
		}
	}
	return out
}

var c15NodeIface = reflect.TypeFor[syntax.Node]()

// c15AllNodes returns every syntax.Node reachable from root by reflection
// (pointers to node structs and addressable Comment values), root first.
func c15AllNodes(root syntax.Node) []syntax.Node {
	var out []syntax.Node
	var rec func(v reflect.Value)
	rec = func(v reflect.Value) {
		switch v.Kind() {
		case reflect.Pointer:
			if v.IsNil() {
				return
			}
			if v.Type().Implements(c15NodeIface) {
				out = append(out, v.Interface().(syntax.Node))
			}
			rec(v.Elem())
		case reflect.Interface:
			if !v.IsNil() {
				rec(v.Elem())
			}
		case reflect.Struct:
			if v.Type() == c15PosType {
				return
			}
			for i := 0; i < v.NumField(); i++ {
				fv := v.Field(i)
				// a struct stored by value (Comment in []Comment) is a node through its address
				rec(fv)
			}
		case reflect.Slice:
			for i := 0; i < v.Len(); i++ {
				e := v.Index(i)
				if e.Kind() == reflect.Struct && e.CanAddr() && e.Addr().Type().Implements(c15NodeIface) {
					out = append(out, e.Addr().Interface().(syntax.Node))
				}
				rec(e)
			}
		}
	}
	rec(reflect.ValueOf(root))
	return out
}

// c15Compare returns "" when dec equals orig under the property's relation,
// else a description of the first difference.
func c15Compare(c *vc.Ctx, orig, dec reflect.Value, path string) string {
	if orig.Type() != dec.Type() {
		return fmt.Sprintf("%s: type %s became %s", path, orig.Type(), dec.Type())
	}
	switch orig.Kind() {
	case reflect.Pointer, reflect.Interface:
		if orig.IsNil() != dec.IsNil() {
			return fmt.Sprintf("%s: nil=%v became nil=%v", path, orig.IsNil(), dec.IsNil())
		}
		if orig.IsNil() {
			return ""
		}
		if orig.Kind() == reflect.Interface && orig.Elem().Type() != dec.Elem().Type() {
			return fmt.Sprintf("%s: dynamic type %s became %s", path, orig.Elem().Type(), dec.Elem().Type())
		}
		return c15Compare(c, orig.Elem(), dec.Elem(), path)
	case reflect.Struct:
		if orig.Type() == c15PosType {
			po, pd := orig.Interface().(syntax.Pos), dec.Interface().(syntax.Pos)
			if po.IsRecovered() {
				if pd != (syntax.Pos{}) {
					return fmt.Sprintf("%s: recovered position became %#v, want the unset position", path, pd)
				}
				return ""
			}
			if po != pd {
				return fmt.Sprintf("%s: position %s (offset %d, valid=%v) became %s (offset %d, valid=%v)", path, po, po.Offset(), po.IsValid(), pd, pd.Offset(), pd.IsValid())
			}
			return ""
		}
		for i := 0; i < orig.NumField(); i++ {
			if d := c15Compare(c, orig.Field(i), dec.Field(i), path+"."+orig.Type().Field(i).Name); d != "" {
				return d
			}
		}
		return ""
	case reflect.Slice:
		if orig.Len() != dec.Len() {
			return fmt.Sprintf("%s: length %d became %d", path, orig.Len(), dec.Len())
		}
		if orig.Len() == 0 && orig.IsNil() != dec.IsNil() {
			c.Count("empty_vs_nil_slices_tolerated", 1)
		}
		for i := 0; i < orig.Len(); i++ {
			if d := c15Compare(c, orig.Index(i), dec.Index(i), fmt.Sprintf("%s[%d]", path, i)); d != "" {
				return d
			}
		}
		return ""
	case reflect.String:
		if orig.String() != dec.String() {
			return fmt.Sprintf("%s: %q became %q", path, orig.String(), dec.String())
		}
		return ""
	case reflect.Bool:
		if orig.Bool() != dec.Bool() {
			return fmt.Sprintf("%s: %v became %v", path, orig.Bool(), dec.Bool())
		}
		return ""
	case reflect.Uint8, reflect.Uint16, reflect.Uint32, reflect.Uint64, reflect.Uint:
		if orig.Uint() != dec.Uint() {
			return fmt.Sprintf("%s: %s %d (%v) became %d (%v)", path, orig.Type(), orig.Uint(), orig.Interface(), dec.Uint(), dec.Interface())
		}
		return ""
	case reflect.Int, reflect.Int8, reflect.Int16, reflect.Int32, reflect.Int64:
		if orig.Int() != dec.Int() {
			return fmt.Sprintf("%s: %d became %d", path, orig.Int(), dec.Int())
		}
		return ""
	}
	return fmt.Sprintf("%s: kind %s is not handled by the comparison", path, orig.Kind())
}

func c15HasRecovered(v reflect.Value) bool {
	switch v.Kind() {
	case reflect.Pointer, reflect.Interface:
		return !v.IsNil() && c15HasRecovered(v.Elem())
	case reflect.Struct:
		if v.Type() == c15PosType {
			return v.Interface().(syntax.Pos).IsRecovered()
		}
		for i := 0; i < v.NumField(); i++ {
			if c15HasRecovered(v.Field(i)) {
				return true
			}
		}
	case reflect.Slice:
		for i := 0; i < v.Len(); i++ {
			if c15HasRecovered(v.Index(i)) {
				return true
			}
		}
	}
	return false
}

func c15Encode(n syntax.Node, indent string) (out []byte, err error, pan any) {
	defer func() {
		if r := recover(); r != nil {
			pan = r
		}
	}()
	var b bytes.Buffer
	err = typedjson.EncodeOptions{Indent: indent}.Encode(&b, n)
	return b.Bytes(), err, nil
}

func c15DecodeNode(doc []byte) (n syntax.Node, err error, pan any) {
	defer func() {
		if r := recover(); r != nil {
			pan = r
		}
	}()
	n, err = typedjson.Decode(bytes.NewReader(doc))
	return n, err, nil
}

type c15Result struct {
	what, msg  string // what is "" when the node round-trips
	enc1, enc2 []byte
	err        error
}

// c15RoundTripNode checks one node; what names the failing clause.
func c15RoundTripNode(c *vc.Ctx, n syntax.Node, indent string) (r c15Result) {
	var pan any
	r.enc1, r.err, pan = c15Encode(n, indent)
	if pan != nil {
		r.what, r.msg = "encode-panic", fmt.Sprintf("Encode panics: %s", c15PanicShape(pan))
		return r
	}
	if r.err != nil {
		r.what, r.msg = "encode-error", fmt.Sprintf("Encode fails: %v", r.err)
		return r
	}
	var dec syntax.Node
	dec, r.err, pan = c15DecodeNode(r.enc1)
	if pan != nil {
		r.what, r.msg = "decode-panic", fmt.Sprintf("Decode of the encoding panics: %s", c15PanicShape(pan))
		return r
	}
	if r.err != nil {
		r.what, r.msg = "decode-error", fmt.Sprintf("Decode of its encoding fails: %v", r.err)
		return r
	}
	if d := c15Compare(c, reflect.ValueOf(n), reflect.ValueOf(dec), fmt.Sprintf("%T", n)); d != "" {
		r.what, r.msg = "tree-differs", d
		return r
	}
	r.enc2, r.err, pan = c15Encode(dec, indent)
	if pan != nil || r.err != nil {
		r.what, r.msg = "reencode-fails", fmt.Sprintf("Encode of the decoded tree fails: %v %v", r.err, pan)
		return r
	}
	if !bytes.Equal(r.enc1, r.enc2) {
		i := 0
		for i < len(r.enc1) && i < len(r.enc2) && r.enc1[i] == r.enc2[i] {
			i++
		}
		lo := max(0, i-30)
		r.what, r.msg = "reencode-differs", fmt.Sprintf("re-encoding differs at byte %d: ...%s vs ...%s", i, r.enc1[lo:min(len(r.enc1), i+50)], r.enc2[lo:min(len(r.enc2), i+50)])
	}
	return r
}

// c15StripDerived removes the derived "Pos" and "End" members (results of the
// Pos() and End() methods; no node struct has fields of these names) from
// every object of the document.
func c15StripDerived(doc []byte) string {
	root, err := c15ParseJSON(doc)
	if err != nil {
		return "unparsable: " + string(doc)
	}
	var rec func(v *c15jv)
	rec = func(v *c15jv) {
		if v.k == 'o' {
			var keys []string
			var elems []*c15jv
			for i, k := range v.keys {
				if k != "Pos" && k != "End" {
					keys = append(keys, k)
					elems = append(elems, v.elems[i])
				}
			}
			v.keys, v.elems = keys, elems
		}
		for _, e := range v.elems {
			rec(e)
		}
	}
	rec(root)
	return root.String()
}

// c15ExclStar matches ${!name*X with X other than '}' (the shape the parser
// accepts while storing the '*' token as a ParExpOperator).
var c15ExclStar = regexp.MustCompile(`\$\{![A-Za-z_][A-Za-z0-9_]*\*([^}]|$)`)

// c15RTClass names the family of a round-trip failure. Families found on the
// current tree:
//
//   - recovered-derived-pos-end: the tree holds recovered positions, it decodes
//     to an equal tree, but the re-encoding differs from the first encoding
//     ONLY in derived Pos/End members (Pos()/End() computed over a recovered
//     position give an invalid position that is omitted, computed over the
//     unset position they give a valid one, or vice versa).
//   - paramexp-excl-star-op: the program contains ${!name*X (X != '}'), for
//     which the parser stores the '*' token as Expansion.Op although it is no
//     ParExpOperator; Encode writes "*", Decode rejects it.
//   - position-line-and-column-overflow: a generated program whose last line
//     number exceeds 2^18-1 and whose column there exceeds 2^14-1: positions
//     have an offset but line 0 and column 0; IsValid is false for them, so the
//     encoder drops them and the offset is lost.
//   - recovered-caseitem-without-patterns: with RecoverErrors the parser
//     accepts "case x in (" at the end of the input and builds a CaseItem with
//     no patterns; CaseItem.Pos indexes Patterns[0], so Encode (which calls
//     Pos on every node) panics.
func c15RTClass(t c15Case, tr c15Tree, recovered bool, n syntax.Node, r c15Result) string {
	switch r.what {
	case "encode-panic":
		if tr.label == "recovered" && strings.Contains(r.msg, "index out of range [0] with length 0") {
			for _, sub := range c15AllNodes(n) {
				if ci, ok := sub.(*syntax.CaseItem); ok && len(ci.Patterns) == 0 {
					return "recovered-caseitem-without-patterns"
				}
			}
		}
	case "reencode-differs":
		if recovered && c15StripDerived(r.enc1) == c15StripDerived(r.enc2) {
			return "recovered-derived-pos-end"
		}
	case "decode-error":
		if r.err != nil && r.err.Error() == `invalid ParExpOperator: "*"` && c15ExclStar.MatchString(t.Src) {
			return "paramexp-excl-star-op"
		}
	case "tree-differs":
		if t.Kind == 7 && t.BigLines+1 > 1<<18-1 && t.BigCols+1 > 1<<14-1 && strings.Contains(r.msg, "position ?:? (offset") && strings.Contains(r.msg, "valid=false) became ?:? (offset 0,") {
			return "position-line-and-column-overflow"
		}
	}
	return ""
}

func c15RoundTrip(c *vc.Ctx, t c15Case) *vc.Fail {
	var classFail *vc.Fail
	for _, tr := range c15Trees(c, t) {
		recovered := c15HasRecovered(reflect.ValueOf(tr.file))
		if recovered {
			c.Count("trees_with_recovered_positions", 1)
		}
		nodes := c15AllNodes(tr.file)
		c.Count("trees_checked", 1)
		c.Count("nodes_round_tripped", len(nodes))
		for i, n := range nodes {
			indents := []string{""}
			if i == 0 {
				if !c.Quick() || t.Kind == 1 {
					indents = []string{"", "\t"}
				}
				if enc, _, _ := c15Encode(n, ""); enc != nil {
					c.Distinct(string(enc))
				}
			}
			for _, ind := range indents {
				r := c15RoundTripNode(c, n, ind)
				if r.what == "" {
					continue
				}
				fl := &vc.Fail{
					Key:   fmt.Sprintf("%s %s node#%d(%T) %s", t.label(tr.variant), tr.label, i, n, r.what),
					Msg:   fmt.Sprintf("[%s] %s (%s tree), node %T as root: %s", tr.variant, shortSrc(t.Src), tr.label, n, r.msg),
					Class: c15RTClass(t, tr, recovered, n, r),
				}
				if fl.Class == "" {
					return fl
				}
				if classFail == nil {
					classFail = fl
				}
			}
		}
		if t.Kind == 5 && tr.label == "recovered" || t.Kind == 7 {
			c.Sample(map[string]any{"src": shortSrc(t.source()), "variant": tr.variant, "tree": tr.label, "nodes": len(nodes)})
		}
	}
	return classFail
}

// ---- mutation cases -----------------------------------------------------------

func c15Mutate(c *vc.Ctx, t c15Case, menu0, second *c15Menu, maxSingles int) *vc.Fail {
	seen := map[string]bool{}
	var first *vc.Fail
	var buf bytes.Buffer
	toTree, dup := 0, 0
	defer func() { c.Count("documents_already_mutated_in_another_case", dup) }()
	for _, tr := range c15Trees(c, t) {
		for _, n := range c15AllNodes(tr.file) {
			enc, err, pan := c15Encode(n, "")
			if err != nil || pan != nil {
				continue // the round-trip cases report this
			}
			if seen[string(enc)] {
				continue
			}
			seen[string(enc)] = true
			// A document reached from several programs is mutated once: by
			// the case that claims it first (a re-execution of that case
			// mutates it again).
			if owner, loaded := c15Claimed.LoadOrStore(t.Mode+string(enc), t.Src); loaded && owner.(string) != t.Src {
				dup++
				continue
			}
			root, err := c15ParseJSON(enc)
			if err != nil {
				return vc.Failf(t.label(tr.variant)+" harness", "cannot re-read the encoding: %v", err)
			}
			menu := menu0
			if menu0.DocKeys {
				m := *menu0
				m.Renames = c15DocKeys(root, menu0.Renames)
				menu = &m
			}
			singles := c15CountMutations(root, menu)
			if singles > maxSingles {
				c.Count("documents_too_large_for_"+t.Mode, 1)
				continue
			}
			c.Count("documents_"+t.Mode, 1)
			visitDoc := func() bool {
				if c15Dry {
					return true
				}
				buf.Reset()
				root.render(&buf)
				out, fl := c15Decode(c, buf.Bytes())
				if fl != nil {
					if first == nil || (first.Class != "" && fl.Class == "") {
						fl.Key = t.Mode + " " + fl.Key
						first = fl
					}
					return true
				}
				if len(out) > 0 && out[0] == 'T' {
					toTree++
				}
				return true
			}
			n1 := 0
			c15EachMutation(&root, menu, func() bool {
				n1++
				if second == nil {
					return visitDoc() && (n1%4096 != 0 || !c.Expired())
				}
				n2 := 0
				c15EachMutation(&root, second, func() bool { n2++; return visitDoc() })
				c.Eval(n2)
				c.Count("mutant_pairs", n2)
				return !c.Expired()
			})
			if second == nil {
				c.Eval(n1)
				c.Count("mutants_single", n1)
			}
		}
	}
	c.Count("mutants_decoding_to_a_tree", toTree)
	if first == nil {
		c.Sample(map[string]any{"mode": t.Mode, "src": t.Src, "documents": len(seen)})
	}
	return first
}

// c15DocKeys returns base plus every member name occurring in the document.
func c15DocKeys(root *c15jv, base []string) []string {
	out := append([]string{}, base...)
	have := map[string]bool{}
	for _, k := range out {
		have[k] = true
	}
	var rec func(v *c15jv)
	rec = func(v *c15jv) {
		for i, e := range v.elems {
			if v.k == 'o' && !have[v.keys[i]] {
				have[v.keys[i]] = true
				out = append(out, v.keys[i])
			}
			rec(e)
		}
	}
	rec(root)
	return out
}
