package checks

// C28 part 0b ("zoo"): state-establishing preludes x state-consulting calls.
//
// The per-builtin argument-vector part runs every builtin in nearly empty
// shells; the builtins that READ BACK shell state (type, command -v/-V, alias,
// unalias, declare -p/-f, unset, local, readonly, export, trap, popd/dirs,
// getopts, shift, eval, source, plain invocation and parameter expansion) have
// as their interesting inputs the ENTITIES other builtins created, with
// boundary values. This family enumerates
//
//	prelude (one kind of entity, each with boundary values, under a New option
//	vector) x NAME (every entity the prelude defines + a few generic names)
//	x call template (every way a builtin or an expansion consults NAME),
//
// each followed by inspectors of the same NAME (so that a template that
// changes the entity is followed by the calls that read it back) and the
// common epilogue.

import (
	"regexp"
	"sort"
	"strconv"
	"strings"

	"mvdan.cc/sh/v3/syntax"
)

// kinds of names
const (
	c28KIdent = iota // an identifier: usable in $NAME, NAME=, NAME() and as an argument
	c28KArg          // any word: quoted, usable as an argument only
	c28KRaw          // shell text substituted verbatim as an argument ("$@", $#)
)

type c28ZooName struct {
	Text string
	Kind int
}

type c28ZooPrelude struct {
	ID    string
	Inter bool // the runner is built with interp.Interactive(true)
	Code  string
	Names []c28ZooName
}

func c28Names(kind int, texts ...string) []c28ZooName {
	out := make([]c28ZooName, len(texts))
	for i, t := range texts {
		out[i] = c28ZooName{t, kind}
	}
	return out
}

func c28Cat(lists ...[]c28ZooName) []c28ZooName {
	var out []c28ZooName
	for _, l := range lists {
		out = append(out, l...)
	}
	return out
}

// alias values: empty, blank, ending in a blank, several words,
// self-referential (with and without the trailing blank), not a single
// command, a chain, a builtin's name, a keyword's name.
const c28AliasDefs = `alias e= b=' ' t='echo ' w='echo a b' r=r s='s ' k='a;b' c=cd cd=' ' if=e`

var c28AliasNames = c28Cat(c28Names(c28KIdent, "e", "b", "t", "w", "r", "s", "k", "c", "cd"), c28Names(c28KArg, "if"))

var c28ZooSingles = []c28ZooPrelude{
	{ID: "plain", Code: "x=s",
		Names: c28Cat(c28Names(c28KIdent, "x", "nosuch", "cd", "f", "true"), c28Names(c28KArg, "if", "", "a[1]", "-n", "--", "d"))},
	{ID: "alias-on", Code: "shopt -s expand_aliases; " + c28AliasDefs, Names: c28AliasNames},
	{ID: "alias-off", Code: c28AliasDefs, Names: c28AliasNames},
	{ID: "alias-inter", Inter: true, Code: c28AliasDefs, Names: c28AliasNames},
	{ID: "func", Code: `fe() { :; }; fr() { return 3; }; function fk { echo "$@"; }; fs() { shift 9; local l=1; unset l; }; cd() { builtin cd "$@"; }; fu() { unset -f fu; fu; }; fd() { fd() { echo 2; }; }`,
		Names: c28Names(c28KIdent, "fe", "fr", "fk", "fs", "cd", "fu", "fd")},
	{ID: "nameref", Code: `x=s; a=(1 2 3); declare -A h=([k]=v); declare -n nr=x na='a[1]' nh='h[k]' nu=nosuch ns=ns nc=nd nd=nc; declare -n nn=`,
		Names: c28Names(c28KIdent, "nr", "na", "nh", "nu", "ns", "nc", "nn")},
	{ID: "readonly", Code: `readonly ro=1 re=; readonly -a ra=(1 2); declare -rA rh=([k]=v); readonly ru; rf() { :; }; readonly -f rf`,
		Names: c28Names(c28KIdent, "ro", "re", "ra", "rh", "ru", "rf")},
	{ID: "integer", Code: `declare -i iv=3 ie= is=iv+1 ir=ir; declare -ia ia=(1 iv 2+2)`,
		Names: c28Names(c28KIdent, "iv", "ie", "is", "ir", "ia")},
	{ID: "export", Code: `export xs=v xe=; export xa=(1 2); declare -xA xh=([k]=v); export xu; xf() { :; }; export -f xf`,
		Names: c28Names(c28KIdent, "xs", "xe", "xa", "xh", "xu", "xf")},
	{ID: "trap", Code: `trap 'echo t' EXIT; trap '' ERR; trap 'shift 9' INT; trap 'trap - EXIT' USR1; trap 'echo d' DEBUG RETURN`,
		Names: c28Names(c28KArg, "EXIT", "ERR", "INT", "0", "2", "SIGINT", "USR1", "DEBUG", "nosuchsig", "-1", "99")},
	{ID: "dirstack", Code: `pushd d; pushd /; pushd -n "$HOME"`,
		Names: c28Names(c28KArg, "+0", "+1", "+2", "+3", "+4", "-0", "-1", "-3", "-4", "+99999999999999999999", "-n")},
	{ID: "getopts", Code: `set -- -ab -c v -- x; getopts abc: o`,
		Names: c28Cat(c28Names(c28KIdent, "o", "OPTIND", "OPTARG"), c28Names(c28KArg, "ab", "abc:", ":", ""))},
	{ID: "nounset", Code: `set -u; x=s`,
		Names: c28Cat(c28Names(c28KIdent, "u", "x"), c28Names(c28KRaw, "$u", `"${u[@]}"`, "$9", `"$@"`))},
	{ID: "params-odd", Code: `set -- '' -n -- '*' 'a b' 99999999999999999999 -1`,
		Names: c28Names(c28KRaw, `"$@"`, `"$*"`, "$@", "$#", `"$1"`, `"$4"`, `"$6"`, `"$7"`, `"${@:2}"`, `"${@: -1}"`)},
}

// c28ZooAll returns the preludes of a tier: the single-kind preludes, and in
// the thorough tier also the union of all of them (every name, so that a
// builtin meets entities of every kind at once), each also under
// Interactive(true).
func c28ZooAll(full bool) []c28ZooPrelude {
	out := append([]c28ZooPrelude{}, c28ZooSingles...)
	if !full {
		return out
	}
	var code []string
	var names []c28ZooName
	seen := map[string]bool{}
	for _, p := range c28ZooSingles {
		if p.ID == "alias-off" || p.ID == "alias-inter" || p.ID == "nounset" || p.ID == "params-odd" {
			continue
		}
		code = append(code, p.Code)
		for _, n := range p.Names {
			if !seen[n.Text] {
				seen[n.Text] = true
				names = append(names, n)
			}
		}
	}
	out = append(out, c28ZooPrelude{ID: "all", Code: strings.Join(code, "\n"), Names: names})
	for _, p := range append([]c28ZooPrelude{}, out...) {
		if !p.Inter {
			p.ID += "+inter"
			p.Inter = true
			out = append(out, p)
		}
	}
	return out
}

// c28ZooArgT: NAME stands as a whole argument.
var c28ZooArgT = []string{
	"type NAME", "type -t NAME", "type -p NAME", "type -P NAME", "type -a NAME", "type -f NAME", "type NAME nosuch NAME",
	"command -v NAME", "command -V NAME", "command -pv NAME", "command NAME", "builtin NAME", "command -v NAME NAME",
	"alias NAME", "alias NAME NAME", "unalias NAME", "unalias NAME NAME", "unalias -a NAME",
	"declare -p NAME", "declare -f NAME", "declare -F NAME", "declare -n NAME", "declare -r NAME", "declare -i NAME", "declare -x NAME", "declare +x NAME",
	"declare -a NAME", "declare -A NAME", "declare -g NAME", "declare NAME", "declare -u NAME", "declare +n NAME", "declare +r NAME", "declare +i NAME", "typeset -p NAME",
	"unset NAME", "unset -v NAME", "unset -f NAME", "unset -n NAME", "unset NAME NAME",
	"readonly NAME", "readonly -f NAME", "readonly -a NAME", "readonly -p NAME",
	"export NAME", "export -n NAME", "export -f NAME", "export -p NAME",
	"g() { local NAME; local; }; g", "g() { local -n NAME; }; g", "g() { local -r NAME; NAME; }; g", "local NAME",
	"trap -p NAME", "trap NAME", "trap - NAME", "trap '' NAME", "trap 'echo x' NAME", "trap NAME NAME", "trap -- NAME", "trap -l NAME",
	"popd NAME", "pushd NAME", "dirs NAME", "pushd -n NAME", "popd -n NAME", "cd NAME", "popd NAME; popd NAME",
	"getopts NAME o", "getopts ab NAME", "getopts ab: o NAME", "getopts NAME NAME NAME", "getopts abc: o; getopts NAME o",
	"shift NAME", "g() { return NAME; }; g", "for i in 1 2; do break NAME; done", "for i in 1 2; do continue NAME; done", "(exit NAME)",
	"eval NAME", "eval NAME NAME", "eval type NAME", "source NAME", ". NAME", "source NAME NAME",
	"hash NAME", "shopt NAME", "shopt -s NAME", "shopt -u NAME", "shopt -q NAME", "shopt -o NAME", "set -o NAME", "set +o NAME", "set -- NAME NAME; shift",
	"read NAME", "read -a NAME", "read -r NAME NAME", "mapfile NAME", "mapfile -t NAME", "printf -v NAME x", "getopts a NAME -a",
	"wait NAME", "test -v NAME", "[[ -v NAME ]]", "test -R NAME", "[ -n NAME ]", "test -o NAME", "[[ -o NAME ]]",
	"let NAME", "NAME", "NAME 1 2", "NAME NAME", "echo x | NAME", "NAME | cat", "NAME & wait", "echo $(NAME)", "(NAME)", "{ NAME; }", "! NAME", "NAME && NAME", "(exec NAME)",
	"shopt -u expand_aliases; NAME; type NAME", "shopt -s expand_aliases; NAME; type NAME", "set -u; NAME; type NAME",
}

// c28ZooIdentT: NAME stands where an identifier must.
var c28ZooIdentT = []string{
	`echo "$NAME"`, `echo "${!NAME}"`, `echo "${NAME[@]}"`, `echo "${#NAME[@]}"`, `echo "${!NAME[@]}"`, `echo "${NAME[0]}"`, `echo "${NAME[-1]}"`,
	`echo "${NAME:-d}"`, `echo "${NAME:=d}"`, `echo "${NAME:?m}"`, `echo "${NAME@Q}"`, `echo "${NAME@a}"`, `echo "${NAME@A}"`, `echo "${NAME[@]@A}"`, `echo "${!NAME@}"`, `echo "${!NAME*}"`,
	`echo "${#NAME}"`, `echo "${NAME:1:2}"`, `echo "${NAME/a/b}"`, `echo "${NAME^^}"`, `echo "${NAME[@]:1}"`, `echo "${NAME[*]@Q}"`,
	`echo $((NAME))`, `echo $((NAME++))`, `echo $((NAME[0]))`, `((NAME=1))`, `((NAME+=1))`, `let NAME=1`, `let NAME++`,
	`NAME=1`, `NAME+=1`, `NAME+=(1)`, `NAME[1]=2`, `NAME=()`, `NAME=(1 2)`, `NAME[k]=v`, `NAME=`, `NAME=1 NAME`, `NAME=1 type NAME`, `NAME=1 eval 'echo $NAME'`,
	`NAME() { :; }`, `function NAME { echo f; }`, `NAME() { command NAME; }`, `NAME() { unset -f NAME; }; NAME`,
	`for NAME in 1 2; do :; done`, `for ((NAME = 0; NAME < 2; NAME++)); do :; done`,
	`declare -n NAME=x`, `declare -n NAME=NAME`, `declare -n r=NAME; echo "$r ${!r}"; r=1`, `declare NAME=1`, `declare -i NAME=1+1`, `declare -a NAME=(1)`, `declare -A NAME=([k]=v)`,
	`declare -r NAME=1`, `declare -x NAME=1`, `declare -g NAME=1`, `declare -n NAME=`, `declare -n NAME='a[1]'`,
	`g() { local NAME=2; echo "$NAME"; unset NAME; echo "${NAME-}"; }; g`, `g() { local -n NAME=x; NAME=3; }; g`, `g() { local -a NAME; NAME+=(1); }; g`, `g() { local NAME; declare -p NAME; NAME; type NAME; }; g`,
	`readonly NAME=1`, `export NAME=1`, `export NAME=(1 2)`, `read NAME <<<"1 2"`, `IFS=: read NAME`,
	`unset 'NAME[0]'`, `unset 'NAME[@]'`, `unset 'NAME[k]'`, `[[ -v NAME[0] ]]`, `[[ -v NAME[@] ]]`,
	`alias NAME=`, `alias NAME=' '`, `alias NAME=NAME`, `alias NAME='NAME '`, `alias NAME='echo '`, `alias NAME='('`, `alias NAME='a b' NAME=`,
	`\NAME`, `"NAME"`, `command NAME x`, `NAME NAME NAME`,
}

// c28ZooNoNameT are run once per prelude.
var c28ZooNoNameT = []string{
	"alias", "alias -p", "unalias -a", "declare -p", "declare -f", "declare -F", "declare", "typeset", "readonly", "readonly -p", "export", "export -p", "local",
	"trap", "trap -p", "trap -l", "dirs", "dirs -v", "dirs -c", "dirs -p", "dirs -l", "popd", "pushd", "popd -n", "cd -", "popd; popd; popd; popd",
	"getopts abc: o", "getopts abc: o; getopts abc: o; getopts abc: o; getopts abc: o", "shift", "shift $#", `shift "$#" 1`, "set", "set -o", "set +o", "shopt", "shopt -p", "shopt -o",
	"hash", "hash -r", `"$@"`, `eval "$@"`, `eval "$*"`, `type "$@"`, `unset "$@"`, `g() { local "$@"; }; g "$@"`, `for i; do type "$i"; done`,
}

// c28ZooCoreT is the menu of the thorough tier's ordered pairs of calls on the
// same name (mutators and inspectors).
var c28ZooCoreArgT = []string{
	"type NAME", "command -V NAME", "alias NAME", "unalias NAME", "unalias -a", "declare -p NAME", "declare -f NAME", "declare -n NAME", "declare -r NAME", "declare -i NAME", "declare -x NAME",
	"unset NAME", "unset -f NAME", "unset -n NAME", "export -n NAME", "trap - NAME", "trap '' NAME", "popd NAME", "pushd NAME", "shift", "getopts ab NAME", "eval NAME", "NAME",
	"shopt -u expand_aliases", "shopt -s expand_aliases",
}

var c28ZooCoreIdentT = []string{
	"NAME=1", "NAME=()", "NAME() { :; }", `echo "${NAME[@]}"`, "declare -n NAME=x", "alias NAME=", "g() { local NAME; NAME; }; g",
}

var c28IdentRe = regexp.MustCompile(`^[A-Za-z_][A-Za-z0-9_]*$`)

func (n c28ZooName) arg() string {
	if n.Kind == c28KRaw {
		return n.Text
	}
	return c28Q(n.Text, 0)
}

func (n c28ZooName) ident() bool {
	return n.Kind == c28KIdent && c28IdentRe.MatchString(n.Text) && !syntax.IsKeyword(n.Text)
}

// c28ZooInspect reads the entity NAME back after the call.
func c28ZooInspect(n c28ZooName) string {
	s := strings.ReplaceAll("type NAME; type -t NAME; command -v NAME; command -V NAME; alias NAME; alias; declare -p NAME; declare -f NAME; declare -F NAME; trap -p; dirs -v; export -p; readonly -p", "NAME", n.arg())
	if n.ident() {
		s += strings.ReplaceAll(`; NAME; echo "${NAME-}" "${NAME[@]-}" "${!NAME-}"`, "NAME", n.Text)
	}
	return s
}

func c28ZooProg(p c28ZooPrelude, body string, n *c28ZooName) string {
	s := p.Code + "\n" + body + "\n"
	if n != nil {
		s += c28ZooInspect(*n) + "\n"
	}
	return s + c28Epilogue
}

// c28ZooGen emits the family: (source, interactive).
func c28ZooGen(full bool, emit func(src string, inter bool)) {
	for _, p := range c28ZooAll(full) {
		for _, t := range c28ZooNoNameT {
			emit(c28ZooProg(p, t, nil), p.Inter)
		}
		for _, n := range p.Names {
			n := n
			for _, t := range c28ZooArgT {
				emit(c28ZooProg(p, strings.ReplaceAll(t, "NAME", n.arg()), &n), p.Inter)
			}
			if !n.ident() {
				continue
			}
			for _, t := range c28ZooIdentT {
				emit(c28ZooProg(p, strings.ReplaceAll(t, "NAME", n.Text), &n), p.Inter)
			}
		}
	}
	if !full {
		return
	}
	// ordered pairs of core calls on the same name
	for _, p := range c28ZooAll(false) {
		for _, n := range p.Names {
			n := n
			var menu []string
			for _, t := range c28ZooCoreArgT {
				menu = append(menu, strings.ReplaceAll(t, "NAME", n.arg()))
			}
			if n.ident() {
				for _, t := range c28ZooCoreIdentT {
					menu = append(menu, strings.ReplaceAll(t, "NAME", n.Text))
				}
			}
			for _, x := range menu {
				for _, y := range menu {
					emit(c28ZooProg(p, x+"\n"+y, &n), p.Inter)
				}
			}
		}
	}
}

// c28SortLines makes an output independent of the order in which the
// interpreter ranges over its maps (alias, declare -p, export -p).
func c28SortLines(s string) string {
	lines := strings.Split(s, "\n")
	sort.Strings(lines)
	return strings.Join(lines, "\n")
}

func c28ZooDescribe(full bool) string {
	var ids []string
	nn := 0
	for _, p := range c28ZooAll(full) {
		ids = append(ids, p.ID)
		nn += len(p.Names)
	}
	return strings.Join(ids, ", ") + " (" + strconv.Itoa(nn) + " (prelude, name) pairs)"
}
