package checks

// c14ExtraPrograms are C14's own programs, aimed at (struct, field) pairs and
// comment placements that the shared grammar (mc/synt/gram.go) and the
// repository's test tables do not populate. Each is tried in all variants.
var c14ExtraPrograms = []string{
	// zsh-only fields
	"echo ${(U)x}", "echo ${(s.:.)x}", "echo ${x:h}", "echo ${x:h2}", "echo ${x:t:r}", "echo ${x:h:t}", "echo ${${x}:h}",
	"echo ${${x}}", "echo ${$(a)}", "echo ${\"${x}\"}", "echo ${${(f)x}[1]}", "echo ${(U)${x}:h}",
	"echo ${x[(r)p]}", "echo ${x[(i)p,2]}", "echo ${x[(r)]}", "echo $x[(r)p]", "echo ${x[1,2]}", "x[(r)a]=b",
	"function a b c { d; }", "function a b { d; }", "a b () { c; }", "a b c() { d; }", "() { a; }", "function { a; }", "function () { a; }", "() { a; } b",
	"echo ${+x}", "echo ${=x}", "echo ${==x}", "echo ${~x}", "echo ${~~x}", "echo ${^x}", "echo ${^^x}", "echo ${=~^x}", "echo ${#${x}}",
	// two or more comments around one statement / case item / array element
	"a # c1\n# c2\n", "# c0\na # c1\n", "# c0\n# c00\na # c1\n# c2\n", "a | # c1\n# c2\nb # c3\n", "a && # c1\n# c2\nb\n", "a | # c1\nb | # c2\nc # c3\n",
	"{ a # c1\n# c2\n}", "( a # c1\n# c2\n)", "a & # c1\n# c2\n", "a; # c1\n# c2\n", "a >f # c1\n", "a <<E # c1\nb\nE\n# c2\n", "a <<E | b # c1\nx\nE\n",
	"case x in\n# c0\na) # c1\n# c2\nb # c3\n;; # c4\n# c5\nc) # c6\nd ;;\n# c7\nesac # c8\n",
	"case x in # c0\na) # c1\nb ;; # c2\nesac",
	"case x in\na) b ;; # c1\n# c2\n# c3\nc) d ;;\nesac",
	"case x in\n# c1\n# c2\na) b ;;\nesac",
	"case x in\n# c1\na | # c2\nb) c ;;\nesac",
	"case x in\n( # c1\na) # c2\n# c3\nb ;;\nesac",
	// comments after ;; whose column differs from the next pattern's belong to the item before
	"case x in\na) b ;;\n  # c1\n  # c2\nc) d ;;\nesac", "case x in\na) b ;;\n  # c1\nc) d ;;\nesac", "case x in\na) b ;;\n  # c1\n  # c2\n  # c3\nc) d ;;\nesac",
	"case x in\n# c0\na) b ;; # c1\n  # c2\n# c3\nc) d ;;\nesac", "case x in\na) b ;;\n  # c1\n  # c2\nesac", "case x in\na) ;;\n  # c1\n  # c2\nb) ;;\n  # c3\n  # c4\nc) ;;\nesac",
	"case x in\na) b\n  # c1\n  # c2\n;;\n  # c3\n  # c4\nc) d ;;\nesac", "case x in\na)\n  # c1\n  # c2\n  b ;;\n  # c3\n  # c4\nc) d ;;\nesac", "case x in a) b ;;\n # c1\n # c2\n (c) d ;;\nesac",
	// prefixes ending right after "(" give, with RecoverErrors, an item without patterns
	"case x in\n# c0\n(a) b ;;\n# c1\n(c) d ;;\nesac", "case x in # c0\n(a) b ;;\n  # c1\n  # c2\n(c) d ;;\nesac",
	"a=(\n# c0\nb # c1\n# c2\nc # c3\n# c4\n)",
	"a=(b # c1\n# c2\n)", "a=( # c0\n[1]=b # c1\n# c2\n[2]=c # c3\n)", "a=(\n# c1\n# c2\nb\n)", "declare a=(\n# c1\nb # c2\n# c3\n)",
	"if a # c1\n# c2\nthen # c3\n# c4\nb # c5\n# c6\nelif c # c7\n# c8\nthen d # c9\n# c10\nelse # c11\ne # c12\n# c13\nfi # c14\n",
	"if a; then b\n# c1\nelif c; then d\n# c2\nelse e\n# c3\nfi",
	"while a # c1\n# c2\ndo # c3\nb # c4\n# c5\ndone # c6\n",
	"for i in a b # c1\n# c2\ndo # c3\nb # c4\n# c5\ndone # c6\n", "for ((;;)) # c1\ndo a # c2\n# c3\ndone",
	"f() # c1\n# c2\n{ a # c3\n# c4\n} # c5\n", "function f # c1\n{ a; } # c2\n",
	"$( a # c1\n# c2\n)", "echo $(\n# c1\na # c2\n# c3\n) # c4\n", "`# c1\na # c2\n`", "echo <( a # c1\n# c2\n)", "echo ${ a # c1\n# c2\n}",
	"! a # c1\n# c2\n", "time a # c1\n# c2\n", "time # c1\n", "coproc a # c1\n# c2\n", "[[ a ]] # c1\n# c2\n", "[[ a && # c1\nb ]]", "(( 1 )) # c1\n# c2\n",
	"@test \"d\" { # c1\na # c2\n# c3\n} # c4\n", "select i in a # c1\ndo b # c2\n# c3\ndone",
	"a # c1\n\n# c2\n\nb # c3\n# c4\n", "#!/bin/sh\n# c1\na # c2\n# c3\n", "# only\n", "# c1\n# c2\n",
	"a |& # c1\n# c2\nb", "a || # c1\n\n# c2\nb # c3\n# c4\n",
	"a <<E # c1\nE\n# c2\nb # c3\n", "{ a <<E # c1\nx\nE\n# c2\n}",
	// assorted fields
	"{fd}>f a", "a {fd}<&-", "3<<E a\nx\nE", "a <<-E\n\tx $y `z` $(w) $((1)) ${v}\n\tE", "a <<<\"$x\" 2>&1 >f",
	"a[1+2]=b", "a[x]+=b", "a=([1+1]=b [c]=d e)", "declare -A a=([x]=1 [y]=) b[2]=c", "a[1]=(b)", "export a[1]=x", "local -r a=b c", "readonly a=(b c)", "typeset a", "nameref a=b",
	"echo ${a[1+2]} ${a[@]:1:2} ${a[x]/b/c} ${a[x]:-d} ${!a[@]} ${#a[1]} ${a[$i]}", "echo ${a::} ${a: : } ${a:1+2:3*4} ${a:(-1)}",
	"echo ${a/b} ${a//b/} ${a/#b/c} ${a/%b/$c} ${a/\"b\"/'c'}", "echo ${a@Q} ${a^^b} ${a,,} ${a:?msg} ${a:+$b} ${a-} ${!a*} ${!a@} ${!a}",
	"echo $((a[1]++)) $((a[b[2]]=3)) $((a ? b : c)) $((a, b)) $((-a)) $((!(a))) $(((a)))", "echo $[a+1] $((# 1)) $((#a))", "((# 1))", "((a[1]=2, b++))", "let a[1]=2 b++ 'c+d' e,f",
	"for ((i=0; i<3; i++)); do a; done", "for ((i=0;;)); do a; done", "for ((;i<3;)); do a; done", "for ((;;i++)); do a; done", "for ((;;)) { a; }", "for i; do a; done", "for i in; do a; done", "select i; do a; done",
	"[[ -n a && ( b == c || ! -z d ) ]]", "[[ a =~ b ]]", "[[ ! ( a ) ]]", "[[ a -nt b || c < d ]]", "[[ $a == \"$b\"* ]]", "[[ -v a[1] ]]",
	"echo @(a|b) !(c) ?(d)*(e)+(f)", "echo <(a) >(b) <(c; d)", "cat < <(a)", "a=<(b)",
	"time -p a | b", "time { a; }", "time", "time;", "! time a", "coproc a", "coproc n { a; }", "coproc n while a; do b; done", "coproc { a; } >f",
	"f() { a; }", "function f { a; }", "function f() ( a )", "f() if a; then b; fi", "f() { a; } >f 2>&1", "function f() { a; } &",
	"@test \"d e\" { a; }", "@test 'd' { a; }", "@test d { a; }", "@test \"d $x\" {\na\n}",
	"echo ${|a;} ${ b;} $(<f) ${ c; d;}", "echo ${%a}", "a |& b", "a &| b", "a &! b", "case x { a) b ;; }", "for i (a b) c", "for i (a b) { c; }", "repeat 3 a", "if [[ a ]] { b; } else { c; }",
	"echo \"a $b ${c} $(d) `e` $((f)) $'g' \\$h\" $\"i $j\" $'k'", "echo 'a'\"b\"c$d", "echo \"\" '' $'' $\"\"",
	"a && b || c | d |& e; f & g", "a | b && c | d", "! a && ! b", "(a; b) | { c; d; } &", "((1)) && [[ a ]] || let b",
	"if a; then b; elif c; then d; elif e; then f; else g; fi", "if a; then b; else c; fi", "until a; do b; done", "while a; b; do c; d; done",
	"case $a in b|c) d ;& e) f ;;& g) ;; *) h ;| i) j ;; esac", "case a in (b) c ;; (d|e) f; g;; esac", "case a in b) ;; esac", "case a in esac",
	"a=b c=d e f", "a=b", "a= b", "a+=b", "a=b c+=(d) e", ">f", ">f <g", "a >f b <g c", "a 2>&1 >/dev/null <&3 3>&- &>x &>>y <>z >|w",
	"echo $a$b ${a}${b} $1$2 $@$* $#$? $$$! $-$_", "echo ~ ~a/b a~b", "echo a\\ b a\\\nb", "echo {a,b} {1..3} a{b,c}d {a,{b,c}}", "echo *.go ?x [a-z] [!a] [[:alpha:]]",
}
