package checks

import (
	"strconv"
	"strings"
)

// Generated families of C26 (round 3). They are emitted BEFORE the atom
// grammar of c26_gen.go, in small batches, so that a run cut by its time
// budget has seen all of them.
//
// Family "case": a case clause is a small automaton: the interpreter carries
// one bit ("run the next item whatever its pattern says") from item to item,
// set and cleared by the terminators. The hand-written case atoms sample
// single transitions; this family enumerates every PATH: all clauses of
// 1..N items where each item is (pattern kind) x (terminator) and the
// subject word ranges over all match vectors.
//
// Family "state": inherited shell state (scalar, indexed array, associative
// array, positional parameters, a function, options, the working directory)
// is set up first, then ONE mutation that does not re-initialise it runs
// inside a context (plain, group, function, subshell, command substitution,
// each stage of a pipeline, background job, ...), and a state epilogue prints
// what the parent sees afterwards. In bash every context but plain/group/
// function is a subshell, so the epilogue must print the untouched state.
//
// Family "chain": the other constructs with hidden state across siblings:
// && / || chains, if/elif/else chains over all status vectors, and
// break/continue N at every loop depth.

type c26EmitFn func(desc, src string)

// ---------------------------------------------------------------- case

var c26CaseTerms = []string{";;", ";&", ";;&", ""} // "" = no terminator (last item only)

// c26CaseClause renders a clause over subject. pats[i]: 's' = selective
// pattern *<i+1>* (matches iff the subject contains that digit), '*' = the
// catch-all pattern. bodies[i]: 'e' = `echo <i+1>`, 'f' = `echo <i+1>; false`,
// 'E' = empty body.
func c26CaseClause(subject string, pats string, terms []int, bodies string) string {
	var sb strings.Builder
	sb.WriteString("case " + subject + " in\n")
	for i := range terms {
		k := strconv.Itoa(i + 1)
		p := "*" + k + "*"
		if pats[i] == '*' {
			p = "*"
		}
		sb.WriteString(p + ")")
		switch bodies[i] {
		case 'e':
			sb.WriteString(" echo " + k)
		case 'f':
			sb.WriteString(" echo " + k + "; false")
		}
		if t := c26CaseTerms[terms[i]]; t != "" {
			sb.WriteString(" " + t)
		}
		sb.WriteString("\n")
	}
	sb.WriteString("esac")
	return sb.String()
}

// c26CaseSubjects: one subject word per subset of {1..n} ("0" = no item
// matches selectively).
func c26CaseSubjects(n int) []string {
	var out []string
	for mask := 0; mask < 1<<n; mask++ {
		s := ""
		for i := 0; i < n; i++ {
			if mask&(1<<i) != 0 {
				s += strconv.Itoa(i + 1)
			}
		}
		if s == "" {
			s = "0"
		}
		out = append(out, s)
	}
	return out
}

// c26CaseTermVectors: every terminator vector of length n (the "none"
// terminator only in the last position).
func c26CaseTermVectors(n int) [][]int {
	var out [][]int
	var rec func(pre []int)
	rec = func(pre []int) {
		if len(pre) == n {
			out = append(out, append([]int(nil), pre...))
			return
		}
		lim := 3
		if len(pre) == n-1 {
			lim = 4
		}
		for t := 0; t < lim; t++ {
			rec(append(pre, t))
		}
	}
	rec(nil)
	return out
}

func c26CasePatVectors(n int, all bool) []string {
	var out []string
	for mask := 0; mask < 1<<n; mask++ {
		// quick: all selective, or the catch-all in the last position only
		if !all && mask != 0 && mask != 1<<(n-1) {
			continue
		}
		b := []byte(strings.Repeat("s", n))
		for i := 0; i < n; i++ {
			if mask&(1<<i) != 0 {
				b[i] = '*'
			}
		}
		out = append(out, string(b))
	}
	return out
}

func c26TermDesc(terms []int) string {
	var p []string
	for _, t := range terms {
		if c26CaseTerms[t] == "" {
			p = append(p, "-")
		} else {
			p = append(p, c26CaseTerms[t])
		}
	}
	return strings.Join(p, " ")
}

const c26StFn = "st() { return $1; }\n"

// c26CaseLoop: the clause run for every subject of its match-vector space;
// `st 7` before each run makes "a clause whose items do not run has status
// 0" observable.
func c26CaseLoop(n int, clauseOrCall string) string {
	return "for s in " + strings.Join(c26CaseSubjects(n), " ") + "; do\nst 7\n" + clauseOrCall + "\necho \"s$s:$?\"\ndone"
}

func c26GenCase(thorough bool, emit c26EmitFn) {
	maxN := 3
	if thorough {
		maxN = 4
	}
	desc := func(kind string, n int, pats string, terms []int, bodies string) string {
		return "casefam-" + kind + "[" + pats + " " + c26TermDesc(terms) + " " + bodies + "]"
	}
	// V1: every clause shape, echo bodies, over all subjects
	for n := 1; n <= maxN; n++ {
		bodies := strings.Repeat("e", n)
		for _, pats := range c26CasePatVectors(n, thorough) {
			for _, terms := range c26CaseTermVectors(n) {
				emit(desc("loop", n, pats, terms, bodies),
					c26StFn+c26CaseLoop(n, c26CaseClause("$s", pats, terms, bodies))+c26Suffix)
			}
		}
	}
	// V2: one body fails / is empty (status carried out of the clause)
	v2N := 2
	if thorough {
		v2N = 3
	}
	for n := 1; n <= v2N; n++ {
		pats := strings.Repeat("s", n)
		for _, terms := range c26CaseTermVectors(n) {
			for k := 0; k < n; k++ {
				for _, kind := range []byte{'f', 'E'} {
					b := []byte(strings.Repeat("e", n))
					b[k] = kind
					emit(desc("loop", n, pats, terms, string(b)),
						c26StFn+c26CaseLoop(n, c26CaseClause("$s", pats, terms, string(b)))+c26Suffix)
				}
			}
		}
	}
	// V3: set -e and one failing body; one subject per program (the shell may exit)
	for n := 1; n <= v2N; n++ {
		pats := strings.Repeat("s", n)
		for _, terms := range c26CaseTermVectors(n) {
			for k := 0; k < n; k++ {
				b := []byte(strings.Repeat("e", n))
				b[k] = 'f'
				for _, s := range c26CaseSubjects(n) {
					emit(desc("errexit:"+s, n, pats, terms, string(b)),
						"set -e\n"+c26CaseClause(s, pats, terms, string(b))+c26Suffix)
				}
			}
		}
	}
	// V4: the clause behind a function call / the loop inside a subshell,
	// a command substitution, the left side of a pipeline
	v4N := 2
	ctxs := []string{"fn", "subshell"}
	if thorough {
		v4N = 3
		ctxs = []string{"fn", "subshell", "cmdsubst", "pipe-left"}
	}
	for n := 1; n <= v4N; n++ {
		pats, bodies := strings.Repeat("s", n), strings.Repeat("e", n)
		for _, terms := range c26CaseTermVectors(n) {
			cl := c26CaseClause("$s", pats, terms, bodies)
			for _, cx := range ctxs {
				var src string
				switch cx {
				case "fn":
					src = c26StFn + "w() {\n" + c26CaseClause("$1", pats, terms, bodies) + "\n}\n" + c26CaseLoop(n, "w $s")
				case "subshell":
					src = c26StFn + "(\n" + c26CaseLoop(n, cl) + "\n)"
				case "cmdsubst":
					src = c26StFn + "r=$(\n" + c26CaseLoop(n, cl) + "\n); echo \"$?[$r]\""
				case "pipe-left":
					src = c26StFn + c26CaseLoop(n, cl) + " | while read ll; do echo \"<$ll>\"; done"
				}
				emit(desc(cx, n, pats, terms, bodies), src+c26Suffix)
			}
		}
	}
	if !thorough {
		return
	}
	// V5 (thorough): every clause bare, one subject per program
	for n := 1; n <= 3; n++ {
		pats, bodies := strings.Repeat("s", n), strings.Repeat("e", n)
		for _, terms := range c26CaseTermVectors(n) {
			for _, s := range c26CaseSubjects(n) {
				emit(desc("bare:"+s, n, pats, terms, bodies),
					c26StFn+"st 7\n"+c26CaseClause(s, pats, terms, bodies)+c26Suffix)
			}
		}
	}
}

// ---------------------------------------------------------------- state

// name, flags ("c" = in the quick tier, "d" = mutates x / a / m: used in the
// function-local scope and in pairs), source
var c26StMutTable = [][3]string{
	{"arr-elem", "cd", "a[1]=z"},
	{"arr-elem-sparse", "d", "a[5]=z"},
	{"arr-append", "cd", "a+=(z)"},
	{"arr-append-subscript", "d", "a+=([1]=z)"}, // overwrites an existing element through the append path
	{"arr-elem-append", "cd", "a[1]+=z"},
	{"arr-unset-elem", "cd", "unset 'a[0]'"},
	{"arr-unset", "d", "unset a"},
	{"arr-reassign", "d", "a=(n)"},
	{"arr-scalar-assign", "d", "a=z"},
	{"arr-read", "d", "read -a a <<< 'y z'"},
	{"sparse-insert-below", "d", "s[0]=z"}, // s has keys 1 2: the new key goes in front of the inherited index list
	{"sparse-append", "d", "s+=(z)"},
	{"assoc-elem", "cd", "m[k]=z"},
	{"assoc-new-key", "cd", "m[n]=z"},
	{"assoc-elem-append", "d", "m[k]+=z"},
	{"assoc-unset-elem", "cd", "unset 'm[k]'"},
	{"assoc-append", "d", "m+=([n]=z)"},
	{"assoc-unset", "d", "unset m"},
	{"scalar-assign", "d", "x=z"},
	{"scalar-append", "cd", "x+=z"},
	{"scalar-unset", "cd", "unset x"},
	{"scalar-read", "d", "read x <<< z"},
	{"scalar-arith", "d", ": $((x=5))"},
	{"scalar-for-var", "d", "for x in z; do :; done"},
	{"scalar-assign-default", "d", ": ${y:=z}"},
	// (`printf -v x z` is left out: the interpreter's printf has no -v, which the
	// class printf-echo-details-see-C24 records; every program with it diverges
	// for that reason alone)
	{"params-set", "c", "set -- r"},
	{"params-shift", "", "shift"},
	{"fn-redefine", "c", "f() { echo new; }"},
	{"fn-unset", "", "unset -f f"},
	{"opt-noglob", "c", "set -f"},
	{"opt-pipefail", "", "set -o pipefail"},
	{"cd-root", "", "cd /"},
}

// c26StView prints the state a mutation may have touched (used inside the
// context, after the mutation, and after a function with local state returns).
const c26StView = `echo "v:${x-U}:${y-U}:${a[*]-U}:${!a[*]}:${s[*]-U}:${!s[*]}:${m[k]-U},${m[n]-U}:$#"`

// c26StViewAfterFn runs after a function with local state returned: the
// locals must be gone. (No ${!a[*]} here: a is unset at this point, and the
// keys of an unset variable are a fatal error in the interpreter, recorded
// by C33/C21; it would mask every program of the local scope.)
const c26StViewAfterFn = `echo "g:${x-U}:${y-U}:${a[*]-U}:${#a[@]}:${s[*]-U}:${m[k]-U},${m[n]-U}:$#"`

// c26StEpilogue prints the parent's state after the context. Keys of m are
// read one by one (the order of ${!m[@]} is unspecified).
const c26StEpilogue = `echo "end:$? x=${x-U} y=${y-U} a=${a[*]-U} ia=${!a[*]} na=${#a[@]} s=${s[*]-U} is=${!s[*]} m=${m[k]-U},${m[j]-U},${m[n]-U} nm=${#m[@]} p=$#:$*"
f; echo "f:$?"
case $- in *f*) echo o:f;; *) echo o:-;; esac
[[ -o pipefail ]] && echo o:pf
case $PWD in /) echo d:root;; *) echo d:scratch;; esac`

// name, flags ("c" = quick tier, "l" = also used with function-local state
// in the quick tier), template; %M = the mutation followed by the view
var c26StCtxTable = [][3]string{
	{"plain", "cl", "%M"},
	{"group", "c", "{ %M; }"},
	{"fn", "c", "g() { %M; }; g"},
	{"subshell", "cl", "( %M )"},
	{"cmdsubst", "cl", "r=$( %M ); echo \"r=$r\""},
	{"cmdsubst-arg", "", "g() { echo \"$1\"; }; g \"r=$( %M )\""}, // (not `echo "r=$( )"`: the broad class printf-echo-details-see-C24 would absorb it)
	{"pipe-first", "cl", "{ %M; } | while read ll; do echo \"<$ll>\"; done"},
	{"pipe-mid", "c", "true | { %M; } | while read ll; do echo \"<$ll>\"; done"},
	{"pipe-last", "cl", "true | { %M; }"}, // runs in the parent shell in this interpreter: recorded finding class
	{"bg", "cl", "{ %M; } & wait"},
	{"fn-subshell-body", "c", "g() ( %M ); g"},
	{"fn-in-pipe", "c", "g() { %M; }; g | while read ll; do echo \"<$ll>\"; done"},
	{"fn-bg", "c", "g() { %M; }; g & wait"},
	{"subshell-nested", "", "( ( %M ); " + c26StView + " )"},
	{"subshell-in-loop", "", "for k in 1 2; do ( %M ); done"},
	{"bg-in-loop", "", "for k in 1 2; do { %M; } & wait; done"},
	{"subshell-in-cond", "", "if ( %M ); then echo T; fi"},
}

// s is a sparse array with a history (keys 1 2 after an append and an unset):
// its index list has been grown and cut, like a long-lived array's.
const c26StSetupGlobal = "x=X; a=(A B C); s=(P Q); s+=(R); unset 's[0]'; declare -A m=([k]=v [j]=w); set -- p q; f() { echo old; }\n"

func c26StProgram(local bool, body string) string {
	if !local {
		return c26StSetupGlobal + body + "\n" + c26StEpilogue + c26Suffix
	}
	return "f() { echo old; }\nw() {\nlocal x=X; local -a a=(A B C); local -a s=(P Q); s+=(R); unset 's[0]'; local -A m=([k]=v [j]=w)\n" +
		body + "\n" + c26StEpilogue + "\n}\nw p q\n" + c26StViewAfterFn + c26Suffix
}

func c26GenState(thorough bool, emit c26EmitFn) {
	type mut struct {
		name, src  string
		core, data bool
	}
	var muts []mut
	for _, r := range c26StMutTable {
		muts = append(muts, mut{r[0], r[2], strings.Contains(r[1], "c"), strings.Contains(r[1], "d")})
	}
	apply := func(tmpl, m string) string { return strings.ReplaceAll(tmpl, "%M", m+"; "+c26StView) }
	// (a) one mutation x context, global state
	for _, cx := range c26StCtxTable {
		for _, m := range muts {
			if !thorough && !(strings.Contains(cx[1], "c") && m.core) {
				continue
			}
			emit("statefam-global["+cx[0]+" "+m.name+"]", c26StProgram(false, apply(cx[2], m.src)))
		}
	}
	// (b) the same with function-local state (data mutations only)
	for _, cx := range c26StCtxTable {
		for _, m := range muts {
			if !m.data || (!thorough && !(strings.Contains(cx[1], "l") && m.core)) {
				continue
			}
			emit("statefam-local["+cx[0]+" "+m.name+"]", c26StProgram(true, apply(cx[2], m.src)))
		}
	}
	if !thorough {
		return
	}
	// (c) two data mutations inside one context (the first makes the
	// variable the child's own, the second then works on that copy)
	pairCtx := map[string]bool{"plain": true, "fn": true, "subshell": true, "cmdsubst": true, "pipe-first": true, "bg": true}
	for _, cx := range c26StCtxTable {
		if !pairCtx[cx[0]] {
			continue
		}
		for _, m1 := range muts {
			for _, m2 := range muts {
				if !(m1.data && m2.data && m1.core && m2.core) {
					continue
				}
				emit("statefam-pair["+cx[0]+" "+m1.name+" "+m2.name+"]", c26StProgram(false, apply(cx[2], m1.src+"; "+m2.src)))
			}
		}
	}
	// (d) a mutation inside a child context, then one in the parent
	for _, cx := range c26StCtxTable {
		if !pairCtx[cx[0]] || cx[0] == "plain" || cx[0] == "fn" {
			continue
		}
		for _, m1 := range muts {
			for _, m2 := range muts {
				if !(m1.data && m2.data && m1.core && m2.core) {
					continue
				}
				emit("statefam-then["+cx[0]+" "+m1.name+" "+m2.name+"]", c26StProgram(false, apply(cx[2], m1.src)+"\n"+m2.src))
			}
		}
	}
}

// ---------------------------------------------------------------- chains

func c26GenChains(thorough bool, emit c26EmitFn) {
	maxN := 3
	if thorough {
		maxN = 4
	}
	// c <name> <status>: prints its name, returns the status
	const cfn = "c() { echo $1; return $2; }\n"
	vectors := func(n int) []string { // every status vector over {0,1} as a word
		var out []string
		for mask := 0; mask < 1<<n; mask++ {
			s := ""
			for i := 0; i < n; i++ {
				s += strconv.Itoa(mask >> i & 1)
			}
			out = append(out, s)
		}
		return out
	}
	// && / || chains: every operator vector, all status vectors; bare, negated
	for n := 2; n <= maxN; n++ {
		for mask := 0; mask < 1<<(n-1); mask++ {
			chain, ops := "", ""
			for i := 0; i < n; i++ {
				if i > 0 {
					op := "&&"
					if mask&(1<<(i-1)) != 0 {
						op = "||"
					}
					chain += " " + op + " "
					ops += op
				}
				chain += "c " + string(rune('a'+i)) + " ${v:" + strconv.Itoa(i) + ":1}"
			}
			for _, neg := range []string{"", "! "} {
				emit("chainfam-andor["+neg+ops+"]",
					cfn+"for v in "+strings.Join(vectors(n), " ")+"; do\n"+neg+chain+"\necho \"v$v:$?\"\ndone"+c26Suffix)
			}
		}
	}
	// if / elif / else chains: 0..maxN-1 elif branches, with and without else
	for n := 1; n <= maxN; n++ {
		for _, els := range []bool{false, true} {
			var sb strings.Builder
			for i := 0; i < n; i++ {
				kw := "elif"
				if i == 0 {
					kw = "if"
				}
				sb.WriteString(kw + " c " + string(rune('a'+i)) + " ${v:" + strconv.Itoa(i) + ":1}; then echo T" + strconv.Itoa(i) + "\n")
			}
			d := "if" + strings.Repeat("-elif", n-1)
			if els {
				sb.WriteString("else echo E\n")
				d += "-else"
			}
			sb.WriteString("fi")
			emit("chainfam-if["+d+"]",
				cfn+"st() { return $1; }\nfor v in "+strings.Join(vectors(n), " ")+"; do\nst 7\n"+sb.String()+"\necho \"v$v:$?\"\ndone"+c26Suffix)
		}
	}
	// break / continue N inside D nested loops, 1 <= N <= D (N = 0 and N > D
	// are error cases of their own: atoms break-0, break-out-of-range, ...)
	for d := 1; d <= maxN; d++ {
		for _, kw := range []string{"break", "continue"} {
			for _, kind := range []string{"for", "while"} {
				if kind == "while" && !thorough && d > 2 {
					continue
				}
				for n := 1; n <= d; n++ {
					arg := " " + strconv.Itoa(n)
					var sb strings.Builder
					vars := ""
					for l := 1; l <= d; l++ {
						v := "i" + strconv.Itoa(l)
						vars += "$" + v
						if kind == "for" {
							sb.WriteString("for " + v + " in 1 2; do\n")
						} else {
							sb.WriteString(v + "=0; while [ $" + v + " -lt 2 ]; do " + v + "=$((" + v + "+1))\n")
						}
					}
					sb.WriteString("echo " + vars + "\n" + kw + arg + "\necho no\n")
					for l := d; l >= 1; l-- {
						sb.WriteString("done\necho after" + strconv.Itoa(l) + ":$?\n")
					}
					emit("chainfam-"+kw+"["+kind+" depth="+strconv.Itoa(d)+" n="+strconv.Itoa(n)+"]", strings.TrimSuffix(sb.String(), "\n")+c26Suffix)
					if n == 1 { // the count left out
						emit("chainfam-"+kw+"["+kind+" depth="+strconv.Itoa(d)+" n=default]",
							strings.TrimSuffix(strings.Replace(sb.String(), kw+arg+"\n", kw+"\n", 1), "\n")+c26Suffix)
					}
				}
			}
		}
	}
}

// c26GenFamilies emits the generated families in the order case, state,
// chain, quote (c26_quote.go), loop (c26_loops.go).
func c26GenFamilies(thorough bool, emit c26EmitFn) {
	c26GenCase(thorough, emit)
	c26GenState(thorough, emit)
	c26GenChains(thorough, emit)
	c26GenQuoting(thorough, emit)
	c26GenLoops(thorough, emit)
	c26GenRedir(thorough, emit)
	c26GenFunc(thorough, emit)
	// the builtin group's larger thorough space shows its nine recorded defect
	// classes in 126 more programs whose exact inputs are not listed as
	// findings: both tiers run its quick space
	c26GenBuiltin(false, emit)
}
