package checks

import (
	"strings"
	"unicode/utf8"

	"mvdan.cc/sh/v3/syntax"
)

// c10FirstInvalidUTF8 returns the index of the first byte of src that does
// not start a valid UTF-8 sequence, or -1.
func c10FirstInvalidUTF8(src string) int {
	for i := 0; i < len(src); {
		r, w := utf8.DecodeRuneInString(src[i:])
		if r == utf8.RuneError && w == 1 {
			return i
		}
		i += w
	}
	return -1
}

// c10PosClass names the narrow family a clause-1 failure belongs to ("" =
// unclassified). prob is c10PosProblem's verdict, text the error text
// without position.
func c10PosClass(src, entry, prob, text string, pos syntax.Pos) string {
	if prob == "recovered-pos" {
		// With RecoverErrors, a missing keyword is replaced by a recovered
		// position; when the error budget then runs out the next error is
		// reported AT that recovered position ("?:?").
		if entry == "ParseRecover" {
			return "recover-errors-error-at-recovered-pos"
		}
		return ""
	}
	if prob != "col-mismatch" && prob != "line-mismatch" {
		return ""
	}
	off := int(pos.Offset())
	line, col := c10LineCol(src, off)
	if text == "invalid UTF-8 encoding" {
		// rune() computes the error offset with the width of the PREVIOUS
		// rune: right after a 1-byte rune, else off by 1-w(prev).
		b := c10FirstInvalidUTF8(src)
		if b >= 0 && off != b && off >= b-3 && off <= b+1 {
			return "invalid-utf8-offset-uses-previous-rune-width"
		}
		if off != b {
			return ""
		}
		// the offset is the offending byte's: any remaining inconsistency is
		// judged like that of every other error
	}
	if int(pos.Line()) != line {
		return ""
	}
	// the token position was taken while the current rune was an escaped
	// newline: the offset is that of the newline, the column that of the
	// backslash
	if off > 0 && off < len(src) && src[off-1] == '\\' && (src[off] == '\n' || strings.HasPrefix(src[off:], "\r\n")) && int(pos.Col()) == col-1 {
		return "pos-at-escaped-newline-offset-of-newline-column-of-backslash"
	}
	// after backslash CR LF the column counter restarts at 2
	ls := off - (col - 1)
	if ls >= 3 && src[ls-3:ls] == "\\\r\n" && int(pos.Col()) == col+1 {
		return "column-after-escaped-crlf-off-by-one"
	}
	return ""
}

// c10HdocDelim inspects the here-document redirection at byte offset off of
// prefix: it returns the raw delimiter word and the text following it.
func c10HdocDelim(prefix string, off int) (delim, rest string, ok bool) {
	s := prefix[off:]
	for len(s) > 0 && s[0] >= '0' && s[0] <= '9' {
		s = s[1:]
	}
	if !strings.HasPrefix(s, "<<") || strings.HasPrefix(s, "<<<") {
		return "", "", false
	}
	s = strings.TrimPrefix(s[2:], "-")
	s = strings.TrimLeft(s, " \t")
	i := 0
	for i < len(s) {
		switch s[i] {
		case '\'', '"':
			j := strings.IndexByte(s[i+1:], s[i])
			if j < 0 {
				return "", "", false
			}
			i += j + 2
			continue
		case '\\':
			i += 2
			continue
		case ' ', '\t', '\n', ';', '&', '|', '(', ')', '<', '>':
		default:
			i++
			continue
		}
		break
	}
	if i > len(s) {
		i = len(s)
	}
	return s[:i], s[i:], true
}

// c10CutClass names the narrow family a clause-2 failure belongs to.
func c10CutClass(prefix string, err error) string {
	pe, ok := err.(syntax.ParseError)
	if !ok || !strings.HasPrefix(pe.Text, "unclosed here-document ") || c10PosProblem(prefix, pe.Pos) != "" {
		return ""
	}
	delim, rest, ok := c10HdocDelim(prefix, int(pe.Pos.Offset()))
	if !ok || delim == "" {
		return ""
	}
	if strings.ContainsAny(delim, "'\"\\") {
		// quoted delimiter: quotedHdocWord reaches EOF while Parser.tok is
		// still the newline token, so posErr computes Incomplete=false
		return "unclosed-heredoc-quoted-delimiter-not-incomplete"
	}
	// unquoted delimiter and the input ends before any unescaped newline
	// follows the redirection: the body is only looked for by Parse's final
	// doHeredocs call, outside any open statement
	unescapedNL := false
	for i := 0; i < len(rest); i++ {
		if rest[i] == '\\' {
			i++
		} else if rest[i] == '\n' {
			unescapedNL = true
		}
	}
	if !unescapedNL && strings.HasSuffix(prefix, "\\\n") {
		return "unclosed-heredoc-eof-after-escaped-newline-not-incomplete"
	}
	return ""
}
