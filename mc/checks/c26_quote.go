package checks

import (
	"strings"
)

// Family "quote" of C26: quote removal in the places where a word becomes a
// STRING rather than a list of fields (assignment values in all their forms,
// array elements, case subjects, [[ ]] and test operands, here-strings,
// redirection targets, function arguments). The atom grammar spells its
// words without escapes, so an interpreter that keeps the backslash of an
// unquoted escape in these places (x=a\ b assigning `a\ b`) went unnoticed.
//
// Enumerated: every character of a small alphabet x every way of quoting it
// (backslash, single quotes, double quotes with and without a backslash,
// $'...') x position in the word (alone, in the middle, at the start) x three
// groups of contexts. bash decides what each program prints.

type c26QWord struct {
	desc string
	src  string // the spelling
	lit  string // the string it denotes
}

func c26QuoteWords(thorough bool) []c26QWord {
	chars := []string{" ", "$", "\\", "*", "'", "\"", "a", "~", "#", "."}
	if thorough {
		chars = append(chars, "?", "[", "]", ";", "&", "|", "(", "<", "`", "=", "{", ",", "-", "!", "\t", "é", "%", ":", "@", "^")
	}
	var out []c26QWord
	for _, c := range chars {
		type form struct{ name, src, lit string }
		var forms []form
		forms = append(forms, form{"esc", "\\" + c, c})
		if c != "'" {
			forms = append(forms, form{"sq", "'" + c + "'", c})
		}
		switch c {
		case "$", "\\", "\"", "`":
			forms = append(forms, form{"dqesc", "\"\\" + c + "\"", c})
		case "!":
			// "!" inside double quotes is left alone by a non-interactive bash;
			// "\!" keeps the backslash
			forms = append(forms, form{"dq", "\"" + c + "\"", c}, form{"dqkept", "\"\\" + c + "\"", "\\" + c})
		default:
			forms = append(forms, form{"dq", "\"" + c + "\"", c}, form{"dqkept", "\"\\" + c + "\"", "\\" + c})
		}
		switch c {
		case "'", "\\":
			forms = append(forms, form{"dsq", "$'\\" + c + "'", c})
		default:
			forms = append(forms, form{"dsq", "$'" + c + "'", c})
		}
		for _, f := range forms {
			out = append(out, c26QWord{f.name + "(" + c + ")/alone", f.src, f.lit})
			out = append(out, c26QWord{f.name + "(" + c + ")/mid", "x" + f.src + "y", "x" + f.lit + "y"})
			if thorough || c == "~" || c == "#" {
				out = append(out, c26QWord{f.name + "(" + c + ")/start", f.src + "y", f.lit + "y"})
				out = append(out, c26QWord{f.name + "(" + c + ")/end", "x" + f.src, "x" + f.lit})
			}
		}
	}
	// two escapes in a row, and an escape next to an expansion
	out = append(out,
		c26QWord{"esc2/mid", `x\ \ y`, "x  y"},
		c26QWord{"esc-bs-bs/mid", `x\\\\y`, `x\\y`},
		c26QWord{"esc-then-var", `\ $one`, " 1"},
		c26QWord{"var-then-esc", `$one\ `, "1 "},
		c26QWord{"esc-dollar-name", `\$one`, "$one"},
		c26QWord{"esc-in-braces-lit", `x\{a,b\}y`, "x{a,b}y"},
	)
	return out
}

func c26QSingle(s string) string {
	return "'" + strings.ReplaceAll(s, "'", `'\''`) + "'"
}

func c26GenQuoting(thorough bool, emit c26EmitFn) {
	// p prints its arguments one per line; no printf and no echo option or
	// backslash in the source of a call, which the broad known class
	// printf-echo-details-see-C24 would absorb
	const pre = "p() { for x in \"$@\"; do echo \"<$x>\"; done; }\none=1\n"
	for _, w := range c26QuoteWords(thorough) {
		W, L := w.src, c26QSingle(w.lit)
		// group A: assignments
		a := pre +
			"v=" + W + "; p 1 \"$v\"\n" +
			"v=pre; v+=" + W + "; p 2 \"$v\"\n" +
			"a=(" + W + " q); p 3 \"${a[0]}\" \"${#a[@]}\"\n" +
			"a=(); a[1]=" + W + "; p 4 \"${a[1]}\"\n" +
			"a+=(" + W + "); p 5 \"${a[@]}\"\n" +
			"declare -A m; m[k]=" + W + "; p 6 \"${m[k]}\"\n" +
			"m=([j]=" + W + "); p 7 \"${m[j]}\"\n" +
			"export e=" + W + "; p 8 \"$e\"\n" +
			"f() { local l=" + W + "; p 9 \"$l\"; }; f\n" +
			"readonly r=" + W + "; p 10 \"$r\"\n" +
			"declare d=" + W + "; p 11 \"$d\"\n" +
			"v=" + W + " w=" + W + "; p 12 \"$v$w\"\n" +
			"g() { p 13 \"$t\"; }; t=" + W + " g\n" +
			"p 14 \"${#v}\"\n"
		emit("quote-assign["+w.desc+"]", a)
		// group B: comparisons and other string contexts
		b := pre +
			"case " + W + " in " + L + ") echo 1m;; *) echo 1n;; esac\n" +
			"[[ " + W + " == " + L + " ]]; echo 2:$?\n" +
			"[[ " + L + " == " + W + " ]]; echo 3:$?\n" +
			"[[ " + W + " != " + L + " ]]; echo 4:$?\n" +
			"[ " + W + " = " + L + " ]; echo 5:$?\n" +
			"test " + W + " != " + L + "; echo 6:$?\n" +
			"[[ -n " + W + " ]]; echo 7:$?\n" +
			"case " + L + " in " + W + ") echo 9m;; *) echo 9n;; esac\n" +
			"IFS= read -r s <<< " + W + "; p 10 \"$s\"\n" +
			"p 11 " + W + "\n" +
			"for i in " + W + "; do p 12 \"$i\"; done\n" +
			"[[ x" + W + " < x" + L + " ]]; echo 14:$?\n" +
			// quoted and escaped parts of a regular expression match literally
			"[[ " + L + " =~ ^" + W + "$ ]]; echo 15:$?\n" +
			"[[ " + c26QSingle(strings.Map(func(r rune) rune {
				if r == 'x' || r == 'y' {
					return r
				}
				return '_'
			}, w.lit)) + " =~ ^" + W + "$ ]]; echo 16:$?\n"
		emit("quote-compare["+w.desc+"]", b)
		// group C: arguments, substitutions, redirection targets
		c := pre +
			"f() { p 1 \"$1\" \"$#\"; }; f " + W + "\n" +
			"set -- " + W + "; p 2 \"$1\" \"$#\"\n" +
			"p 3 \"$(p " + W + ")\"\n" +
			"p 4 $(p " + W + ")\n"
		if !strings.ContainsAny(w.lit, "/") {
			c += "echo hi > " + W + ".f; for f in *.f; do p 5 \"$f\"; done\n" +
				"read -r s < " + W + ".f; p 6 \"$s\"\n" +
				"[[ -f " + W + ".f ]]; echo 7:$?\n" +
				"[ -f " + W + ".f ]; echo 8:$?\n"
		}
		emit("quote-args["+w.desc+"]", c)
	}
}
