package checks

import (
	"fmt"
	"strings"

	"verif/mc/synt"
	"verif/mc/vc"
)

// History-dependent failures.
//
// The main enumeration caches one Parser per worker and option set, so a
// call can fail because of what an EARLIER call left in the parser (state
// that Parser.reset does not clear). Such a failure does not repeat when the
// input is run alone, so the case that is reported and replayed is the
// sequence of calls itself: kind "reuse", the calls of c06Case.Calls made one
// after the other on ONE new Parser built with the options of c06Case.Opt,
// the last call being the judged one. It is found (a) from the recorded
// history of a cached parser of the main enumeration (the calls made for the
// last c06HistInputs inputs), and (b) by the dedicated family "reusefam"
// below. In both cases the sequence is first re-run on a new Parser (it must
// fail with the same key) and then reduced to a pair (one earlier call, the
// failing call) when one such pair fails in the same way.

func c06OptString(o c06Cfg) string {
	s := o.String() // "<options> <entry>"
	if i := strings.IndexByte(s, ' '); i >= 0 {
		s = s[:i]
	}
	return s
}

// runCalls makes the calls on one new parser. It returns the failure of the
// first failing call (inner), the index of that call, and the failure as
// reported for the sequence up to and including that call.
func (w *c06Worker) runCalls(opt c06Cfg, calls []c06Call) (reported, inner *vc.Fail, idx int) {
	p := opt.parser()
	for i, cl := range calls {
		g := opt
		g.Entry, g.Early = cl.Entry, cl.Early
		clear(w.seen)
		_, _, fl := w.call(p, g, cl.Src, true)
		if fl != nil {
			return c06ReuseFail(opt, calls[:i+1], fl), fl, i
		}
	}
	return nil, nil, -1
}

// c06ReuseFail words the failure of the last call of calls. A sequence of
// one call is an ordinary failure of that input.
func c06ReuseFail(opt c06Cfg, calls []c06Call, fl *vc.Fail) *vc.Fail {
	if len(calls) <= 1 {
		return fl
	}
	var hs []string
	for _, cl := range calls[:len(calls)-1] {
		hs = append(hs, cl.String())
	}
	h := strings.Join(hs, ", ")
	return &vc.Fail{
		Key:    fmt.Sprintf("reused parser [%s] after %s: %s", c06OptString(opt), h, fl.Key),
		Msg:    fmt.Sprintf("on ONE Parser (%s), after %s: %s (the same call on a new Parser does not fail)", c06OptString(opt), h, fl.Msg),
		Detail: fl.Detail,
	}
}

func c06ReuseCase(opt c06Cfg, calls []c06Call) c06Case {
	o := c06Cfg{Lang: opt.Lang, Keep: opt.Keep, Stop: opt.Stop, Rec: opt.Rec}
	cs := make([]c06Call, len(calls))
	for i, cl := range calls {
		cl.Text = fmt.Sprintf("%q", cl.Src)
		cs[i] = cl
	}
	var ts []string
	for _, cl := range cs {
		ts = append(ts, cl.String())
	}
	return c06Case{Kind: "reuse", Opt: &o, Calls: cs, Text: c06OptString(o) + ": " + strings.Join(ts, "; ")}
}

// reuse is called when the call last (configuration g) failed with key on a
// parser on which hist had been called before, and does not fail on a new
// parser. It reports the shortest sequence it can confirm and returns true;
// false means that the recorded history does not reproduce the failure.
func (w *c06Worker) reuse(g c06Cfg, hist []c06Call, last c06Call, key string) bool {
	full := append(append([]c06Call(nil), hist...), last)
	_, inner, idx := w.runCalls(g, full)
	if inner == nil || idx != len(full)-1 || inner.Key != key {
		return false
	}
	seq := full
	for i := len(hist) - 1; i >= 0; i-- {
		pair := []c06Call{hist[i], last}
		if _, in2, idx2 := w.runCalls(g, pair); in2 != nil && idx2 == 1 && in2.Key == key {
			seq = pair
			break
		}
	}
	w.count("history_dependent_failures_confirmed_on_a_new_parser")
	rc := c06ReuseCase(g, seq)
	c := w.c
	c.Report(c06ReuseFail(g, seq, inner), rc, func() *vc.Fail { return c06RunBatch(c, []c06Case{rc})[0] })
	return true
}

// ---- the dedicated family ----

// c06ReusePrefixes: what is pending when the construct is met.
var c06ReusePrefixesQuick = []string{"", "a <<E ", "a <<E; b <<-F "}
var c06ReusePrefixes = []string{"", "a <<E ", "a <<E; b <<-F ", "$(a <<E ", "`a <<E ", "\"", "{ a <<E\n", "a <<E |"}

// c06ReuseOpeners: constructs left open (or empty).
var c06ReuseOpeners = []string{
	"'", "\"", "`", "$(", "$((", "((", "$[", "${", "${a:-", "[[ x =~ (", "(a |", "a=(", "a[", "<<E", "$'", "<(", "@(", "${a/", "case a in", "if", "{", "(", "[[", "#", "\\", "function",
}

// c06ReuseTails follow the construct: nothing, an operand, the end of the
// line (the here-document bodies are read), a line that closes here-document E.
var c06ReuseTails = []string{"", "1", "\n", "\nE\n"}

type c06Probe struct {
	Entry int
	Src   []byte
}

// c06ReuseProbes: the inputs parsed after the poisoning candidate on the
// same parser: nothing; a complete here-document; one line with a
// backquote, a quoted command substitution, an arithmetic expansion and a
// comment. Each under every entry point.
var c06ReuseProbes = func() []c06Probe {
	var out []c06Probe
	for _, s := range []string{"", "a <<E\nb\nE\n", "`a` \"$(b)\" $((1)) # c\n"} {
		for e := range c06Entries {
			out = append(out, c06Probe{e, []byte(s)})
		}
	}
	return out
}()

// c06ReuseFirst: how the candidate itself is run: every entry point, the
// iterators also with a consumer that stops after the first item.
var c06ReuseFirst = []c06Cfg{{Entry: 0}, {Entry: 1}, {Entry: 1, Early: true}, {Entry: 2}, {Entry: 2, Early: true}, {Entry: 3}, {Entry: 3, Early: true}, {Entry: 4}, {Entry: 5}}

// c06ReuseOpts: 5 variants x KeepComments x StopAt x RecoverErrors{0,1,3}.
var c06ReuseOpts = func() []c06Cfg {
	var out []c06Cfg
	for l := range synt.Variants {
		for _, keep := range []bool{false, true} {
			for _, stop := range []bool{false, true} {
				for _, rec := range []int{0, 1, 3} {
					out = append(out, c06Cfg{Lang: l, Keep: keep, Stop: stop, Rec: rec})
				}
			}
		}
	}
	return out
}()

// c06ReuseInputs enumerates the candidates: prefix + construct + tail.
func c06ReuseInputs(thorough bool, f func(src []byte)) {
	prefixes, openers := c06ReusePrefixesQuick, c06ReuseOpeners
	if thorough {
		prefixes = c06ReusePrefixes
		openers = append(append([]string(nil), c06ReuseOpeners...), c06Tokens...)
	}
	seen := map[string]bool{}
	for _, p := range prefixes {
		for _, o := range openers {
			for _, t := range c06ReuseTails {
				s := p + o + t
				if !seen[s] {
					seen[s] = true
					f([]byte(s))
				}
			}
		}
	}
}

// runReuseFam: for every option set and every way of running the candidate,
// one new parser on which candidate and probe alternate: candidate, probe 1,
// candidate, probe 2, ... so that every probe directly follows the
// candidate and later probes also see what earlier ones left. The first
// failing call per (option set, way) is re-run alone on a new parser: if it
// fails there too it is an ordinary failure of that input; otherwise it is a
// history-dependent one (reported by reuse with the calls made so far).
// One report per candidate and failure site is enough.
func (w *c06Worker) runReuseFam(t c06Case) *vc.Fail {
	defer w.flush()
	evals := 0
	defer func() { w.c.Eval(evals - 1) }()
	w.info = false
	reported := map[string]bool{}
	var calls []c06Call
	clear(w.seen) // equal trees are consumed once per candidate
	for _, opt := range c06ReuseOpts {
		for _, first := range c06ReuseFirst {
			p := opt.parser()
			calls = calls[:0]
			g0 := opt
			g0.Entry, g0.Early = first.Entry, first.Early
			c0 := c06Call{Entry: first.Entry, Early: first.Early, Src: t.Src}
			for pi, pb := range c06ReuseProbes {
				var fl *vc.Fail
				var failed c06Call
				var fg c06Cfg
				evals += 2
				if _, _, fl = w.call(p, g0, t.Src, pi == 0); fl != nil {
					failed, fg = c0, g0
				} else {
					calls = append(calls, c0)
					g1 := opt
					g1.Entry = pb.Entry
					c1 := c06Call{Entry: pb.Entry, Src: pb.Src}
					if _, _, fl = w.call(p, g1, pb.Src, true); fl != nil {
						failed, fg = c1, g1
					} else {
						calls = append(calls, c1)
					}
				}
				if w.pr != nil && w.pr.abandoned.Load() {
					return nil
				}
				if fl == nil {
					continue
				}
				// site = failure without the option set, so that the 60 option
				// sets do not produce 60 reports of one defect
				site := fmt.Sprintf("%d|%v|%q|%s", failed.Entry, failed.Early, failed.Src, fl.Class)
				if i := strings.Index(fl.Msg, " panics in "); i >= 0 {
					site += fl.Msg[i:]
				}
				if reported[site] {
					w.count("reuse_family_failures_beyond_first_per_candidate_and_site")
					break
				}
				reported[site] = true
				clear(w.seen)
				_, _, fl2 := w.call(fg.parser(), fg, failed.Src, true)
				if fl2 != nil && fl2.Key == fl.Key {
					// ordinary failure of that input
					rc := c06ReuseCase(opt, []c06Call{failed})
					c := w.c
					c.Report(fl, rc, func() *vc.Fail { return c06RunBatch(c, []c06Case{rc})[0] })
				} else if !w.reuse(fg, calls, failed, fl.Key) {
					return &vc.Fail{Key: "not reproduced: " + fl.Key, Msg: "failure in the reuse family that does not repeat on a new parser with the same calls: " + fl.Msg, Detail: fl.Detail}
				}
				break
			}
		}
	}
	return nil
}
