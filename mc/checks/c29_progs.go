package checks

import (
	"strings"

	"mvdan.cc/sh/v3/syntax"
)

// c29TreeStmts are statements exercising the constructs that plausibly make
// the interpreter rewrite nodes. Each is self-contained and prints something.
// `cat`, `env` and `sleep` are in-process stubs; one, two, foo, empty are
// environment strings; envarr/envsparse/envempty/envmap/envro/envref/envplain
// exist only in the recording environment; positional parameters: p1 "p 2".
var c29TreeStmts = []string{
	// aliases
	"shopt -s expand_aliases; alias x='echo a'\nx",
	"shopt -s expand_aliases; alias x='echo '; alias y='b c'\nx y z",
	"shopt -s expand_aliases; alias e='echo pre'\ne {1,2} $one \"q r\"",
	"shopt -s expand_aliases; alias ls='ls -l'; alias v='one=al'\nls\nv echo $one\nalias ls v",
	"shopt -s expand_aliases; alias al='echo $one {a,b}'\nal x\nal y; unalias al; al z",
	// brace expansion
	"echo {a,b}{1..3} x{,y}z",
	"echo pre{a,{b,c}}post \"${one}\"{1..2} {x}{} {a,b",
	"echo {1..5..2} {c..a} {01..3} {-1..1} {a..c..2}",
	"for i in {1..3} {a,b}; do echo $i; done",
	"v={a,b}; echo $v \"{c,d}\" '{e,f}' \\{g,h}",
	"echo $one{a,b}$two ${one}{1,2}$(echo cs){3,4}",
	// declare and friends with expansions and arrays
	"v='z=3'; declare $v \"w=$one\" q; echo $z $w",
	"declare -a arr=($one {a,b} \"$two\"); echo ${arr[@]}; declare -p arr",
	"args='-a lst'; declare $args; lst+=(1); echo ${lst[0]}",
	"export \"ex$one=5\" $foo=6; echo $ex1 $envfoo",
	"readonly ro=$one; echo $ro; ro=2; echo $ro",
	"f() { local l=$1 m=(a $1) $2; echo $l ${m[1]} $n; }; f x n=1; f y n=2",
	"declare -A m=([k]=$one [\"j j\"]={a,b}); echo ${m[k]} ${m[j j]}",
	"declare x{1,2}=v; echo $x1 $x2",
	"nm=dyn; declare \"$nm=val\" ${nm}2=val2; echo $dyn $dyn2",
	// here-documents
	"cat <<EOF\nv=$one $(echo sub) $((1+2)) {a,b} ~\nEOF",
	"cat <<-EOF\n\ttab $two\n\t\tEOF\n\tEOF",
	"cat <<'EOF'\nraw $one\nEOF",
	"cat <<EOF | cat\n${one:-d} \\$esc\nEOF",
	"cat <<A; cat <<-B\nfirst $one\nA\n\tsecond $two\n\tB",
	"while read -r l; do echo \"<$l>\"; done <<EOF\nl1 $one\nl2\nEOF",
	"cat <<< \"hs $one\" <<< {a,b}",
	// traps
	"trap 'echo bye $one' EXIT; echo hi",
	"trap 'echo err $?' ERR; false; echo after",
	"trap 'echo {a,b} ${two}' EXIT; trap -p; trap",
	"trap 'f() { echo intrap; }; f' EXIT",
	// eval, source
	"eval 'echo {1,2} $one'",
	"c='echo ev'; eval \"$c $two\" ';' echo two",
	"echo 'echo sourced $1 $one; one=src' > s.sh; . ./s.sh arg; source ./s.sh arg2; echo $one",
	"eval 'f() { echo evf $1; }'; f 1; f 2",
	// functions
	"f() { echo \"$@\" {x,y}; }; f 1; f 2; f 3",
	"f() { if (( $1 > 0 )); then echo $1; f $(($1-1)); fi; }; f 3",
	"f() { echo inredir $1; } > ff; f a; f b; cat ff",
	"f() { echo {a,b} $one; }; declare -f f; type f; f",
	"function g { return 3; }; g; echo $?; unset -f g; g",
	"f() { f() { echo second; }; echo first; }; f; f",
	// time
	"time echo t",
	"time -p :",
	// [[ ]]
	"[[ abc == a* ]] && echo m",
	"shopt -s extglob; [[ $one == @(1|2) ]] && echo ext",
	"[[ abc =~ ^a(b)c$ ]] && echo ${BASH_REMATCH[1]}",
	"[[ -n $one && ! -z $two || x < y ]]; echo $?",
	"p='a*'; [[ abc == $p ]]; echo $?; [[ abc == \"$p\" ]]; echo $?",
	"[[ -f nosuch || -d . ]] && echo dir; [[ $one -eq 1 && 2 -gt $one ]] && echo num",
	"[[ {a,b} == '{a,b}' ]] && echo nobrace",
	// case
	"case $one in [0-9]) echo digit;; a|b) echo ab;; *) echo other;; esac",
	"case abc in a*c) echo g;;& *b*) echo h;& zzz) echo ft;; esac",
	"case x{a,b} in 'x{a,b}') echo lit;; esac",
	"case \"$two\" in $one) echo no;; \"$two\"|$foo) echo yes;; esac",
	// arithmetic with side effects
	"n=1; echo $((n++ + ++n)) $n",
	"(( k = 5, k *= 2 )); echo $k",
	"arr=(1 2 3); (( arr[1] += 5 )); echo ${arr[@]}",
	"i=0; while (( i++ < 3 )); do echo $i; done",
	"let \"m = 2 ** 3\" m++; echo $m",
	"echo $[1+2] $((one + two)) $(( (one+1) * 3 ))",
	"for ((i=0; i<3; i++)); do echo $i; done",
	"declare -a sq; for i in 1 2; do sq[i*i]=$i; done; echo ${sq[@]} ${!sq[@]}",
	// loops
	"for w in $one \"$two\" *.none; do echo $w; done",
	"select s in a b; do echo $s; break; done",
	"for i; do echo $i; done; for i in \"$@\"; do echo \"[$i]\"; done",
	"until [ \"$n\" = 2 ]; do n=$((n+1)); echo $n; done",
	"for i in 1 2 3; do [ $i = 2 ] && continue; echo $i; [ $i = 3 ] && break; done",
	// process substitution, read in-process
	"cat <(echo ps $one)",
	"cat < <(echo $one {a,b})",
	// parameter expansion
	"s=hello; echo ${s/l/L} ${s//l/L} ${s^^} ${s:1:2} ${#s} ${s%l*} ${s#*l}",
	"echo ${unsetv:-def} ${unsetv:=assigned} $unsetv ${one:+alt}",
	"a=(x y z); echo ${a[@]:1} ${!a[@]} ${#a[@]} \"${a[*]}\"",
	"x=one; echo ${!x} ${!o*}",
	"echo ${unsetv:?boom}; echo not",
	"echo ${one:-{a,b}} \"${two:-$(echo d)}\" ${empty:-${one}x}",
	"echo pre\"$one\"'sq'$two$(echo cs)${two}{x,y}~ ~ ~/x",
	"echo $'a\\tb' $\"loc\" \"$@\" $* $# $?",
	// command substitution
	"echo $(echo $(echo nested)) `echo bq`",
	"v=$(false); echo $?; v=$(echo {a,b}); echo $v",
	// redirections
	"echo r > f; cat < f; echo a >> f; cat f",
	"{ echo o; echo e >&2; } 2>&1",
	"exec 3>f3; echo fd >&3; exec 3>&-; cat f3",
	"echo x >f{a,b} 2>/dev/null; echo $?; echo y > \"$one\"f; cat 1f",
	// pipelines and lists
	"echo p | cat | cat",
	"! true; echo $?; false || echo or; true && echo and",
	"{ echo bg; } & wait; echo done",
	"(exit 3); echo $?; ( one=sub; echo $one ); echo $one",
	// options
	"set -e; false; echo not",
	"set -u; echo $undefined; echo not",
	"set -x; echo traced $one; v=$two; arr=(a b); [[ a == a ]]; (( 1 ))",
	"set -- a b c; shift; echo $# $1",
	"set -o pipefail; false | true; echo $?",
	"set -f; echo *; shopt -s nullglob; set +f; echo *.none",
	"echo > ab; echo > ac; shopt -s extglob; echo a@(b|c) !(ab) a*",
	// builtins
	"printf '%s-%d\\n' a 1 b 2; printf -v pv '%03d' 7; echo $pv",
	"read a b <<< \"1 2 3\"; echo $b",
	"IFS=: read -a parts <<< \"a:b\"; echo ${parts[1]}",
	"while getopts ab: o -a -b v; do echo $o $OPTARG; done",
	"mapfile -t lines <<< $'x\\ny'; echo ${#lines[@]} ${lines[1]}",
	"[ -f f -o 1 -lt 2 ] && echo t; test ! -d nosuch; echo $?",
	"cd /; pwd; cd - >/dev/null; pushd / >/dev/null; dirs; popd >/dev/null",
	"c=echo; $c dyn; \"e\"'c'ho q; command echo c; builtin echo b",
	"command -v echo; type echo nosuch",
	"x=1 y=$one env",
	"IFS=,; v=\"a,b\"; echo $v; set -- $v; echo $#",
	"echo c # comment\n# another\necho d",
	"if false; then echo n; elif true; then echo elif; else echo e; fi",
	"a=(1 2); a+=(3); a[5]=6; unset 'a[0]'; echo ${a[@]} ${!a[@]}",
	"declare -A m=([k]=v [j]=w); m[z]=1; unset 'm[k]'; echo ${m[j]} ${#m[@]}",
	"declare -n ref=one; echo $ref; ref=changed; echo $one",
	"exit 5",
	"nosuchcmd arg; echo $?",
}

// c29EnvStmts write (or try to write) variables that come from the Env.
var c29EnvStmts = []string{
	"echo $one $two; one=x; unset two; echo $one ${two-unset}",
	"export one; export -n two; export newv=3; env",
	"readonly two; two=5; echo $two",
	"declare -x dx=1; declare -r one; declare -p one dx",
	"f() { local one=loc; echo $one; one=loc2; unset one; echo ${one-gone}; }; f; echo $one",
	"f() { one=fromfunc; newg=1; unset two; }; f; echo $one $newg ${two-unset}",
	"one=pre env; echo $one",
	"f() { echo $one; env; }; one=tmp two=tmp2 f; echo $one",
	"read one two <<< \"r1 r2\"; echo $one $two",
	"getopts ab: one -b val; echo $one $OPTARG $OPTIND",
	"for one in i1 i2; do :; done; echo $one",
	"(( one += 5 )); echo $((two++)) $one $two; let one=9; echo $one",
	": ${nv:=v} ${one:=w} ${empty:=e}; echo $nv $one $empty",
	"unset one; : ${one:=re}; echo $one",
	"echo ${envarr[@]}; envarr[0]=z; envarr[7]=far; echo ${envarr[@]}",
	"envarr+=(q r); echo ${envarr[@]} ${#envarr[@]}",
	"envarr+=s; echo ${envarr[0]}; envarr[1]+=t; echo ${envarr[1]}",
	"unset 'envarr[1]'; echo ${envarr[@]}; unset 'envarr[2]'; echo ${envarr[@]}",
	"unset 'envarr[-1]'; unset 'envarr[0]'; echo ${envarr[@]}",
	"unset envarr; echo ${envarr[@]-none}",
	"envarr=(new); echo ${envarr[@]}; envarr=str; echo $envarr",
	"echo ${envsparse[@]} ${!envsparse[@]}; envsparse+=s; echo ${envsparse[@]} ${!envsparse[@]}",
	"envsparse[3]=m; envsparse[0]=first; envsparse[2]=x; echo ${envsparse[@]} ${!envsparse[@]}",
	"envsparse+=(t); unset 'envsparse[2]'; echo ${envsparse[@]} ${!envsparse[@]}",
	"envempty+=s; echo ${envempty[@]}",
	"envempty+=(a b); envempty[0]=c; echo ${envempty[@]}",
	"echo ${envmap[k]}; envmap[k]=z; envmap[n]=m; echo ${envmap[k]} ${#envmap[@]}",
	"envmap+=([n]=m); echo ${#envmap[@]}",
	"unset 'envmap[k]'; echo ${#envmap[@]} ${envmap[j]}",
	"envmap=([only]=1); echo ${#envmap[@]}; unset envmap",
	"echo $envref; envref=viaref; echo $one",
	"unset envref; echo ${one-unset}; unset -n envref; echo ${envref-gone}",
	"envro=1; echo $? $envro; unset envro; echo $envro",
	"readarray -t envarr <<< $'a\\nb'; echo ${envarr[@]}",
	"read -a envarr <<< \"p q\"; echo ${envarr[@]}",
	"set -a; one=1; newa=2; env",
	"( one=sub; export two=subx; env ); echo $one $two",
	"one=bg & wait; echo $one",
	"echo $(one=cs; echo $one) $one",
	"one=pipe | cat; echo $one; echo x | read one; echo $one",
	": $((envarr[1]=3)) $((envarr[0]++)); echo ${envarr[@]}",
	"(( envarr[2] *= 2, envsparse[5] = 1 )); echo ${envarr[@]} ${envsparse[@]}",
	"printf -v one '%s' pv; echo $one",
	"IFS=:; HOME=/h; PATH=/p; PWD=/x; OPTIND=4; echo $HOME ~ $PATH",
	"declare -n r=one; r=9; echo $one; unset r; echo ${one-unset}",
	"one=(arr from str); echo ${one[1]}; one+=(app); one[5]=idx; echo ${one[@]}",
	"two+=tail; echo $two; two+=(more); echo ${two[@]}",
	"f() { declare one=d; declare -g two=g; echo $one; }; f; echo $one $two",
	"unset -v one two foo; env",
	"echo \"${envarr[@]/1/X}\" \"${envarr[@]:1}\" ${envarr[*]^^} ${envarr[@]#1} ${envarr[@]//1/}",
	"echo \"${envarr[@]@Q}\" ${!envarr[@]} ${envmap[@]} ${#envmap[@]} ${envsparse[@]:1} ${envplain^}",
	"envplain=w; envplain+=x; echo $envplain; export envplain; env",
	"export envarr envmap; declare -r envsparse; declare -p envsparse",
	"cd /; echo $PWD $OLDPWD; HOME=/ cd; echo $PWD",
	"one=1; one=$one$one; echo ${one}; two=${two/2/3}; echo $two",
}

func c29Stmts() []string {
	return append(append([]string(nil), c29TreeStmts...), c29EnvStmts...)
}

// c29Wrappers embed a statement text s; q is s quoted as one shell word.
var c29Wrappers = []func(s, q string) string{
	func(s, q string) string { return "w() {\n" + s + "\n}\nw; w" },
	func(s, q string) string { return "for it in 1 2; do\n" + s + "\ndone" },
	func(s, q string) string { return "(\n" + s + "\n)\necho $? $one" },
	func(s, q string) string { return "out=$(\n" + s + "\n)\necho \"$out\" $one" },
	func(s, q string) string { return "eval " + q + "\neval " + q },
	func(s, q string) string { return "trap " + q + " EXIT\necho main" },
	func(s, q string) string { return "{\n" + s + "\n} | cat\necho $one" },
	func(s, q string) string { return "if true; then\n" + s + "\nfi\ncase x in x)\n" + s + "\n;; esac" },
	func(s, q string) string { return "set -x\n" + s },
	func(s, q string) string { return "{\n" + s + "\n} & wait\necho $one" },
	func(s, q string) string { return "echo " + q + " > w.sh\n. ./w.sh\n. ./w.sh" },
	func(s, q string) string { return "time {\n" + s + "\n}" },
	func(s, q string) string { return "w() {\n" + s + "\n}\none=pre w\nw > wf\ncat wf" },
}

// c29OwnPrograms lists the own programs: each statement alone, in every
// wrapper, and ordered pairs (quick: second statement from the Env list;
// deep: every ordered pair, also inside a
// function called twice and inside a loop).
func c29OwnPrograms(deep bool) []string {
	stmts := c29Stmts()
	seen := map[string]bool{}
	var out []string
	add := func(p string) {
		if seen[p] {
			return
		}
		seen[p] = true
		// keep only what parses (a wrapper can break a here-document or exit)
		if _, err := syntax.NewParser(syntax.Variant(syntax.LangBash)).Parse(strings.NewReader(p), ""); err != nil {
			return
		}
		out = append(out, p)
	}
	for _, s := range stmts {
		add(s)
		q, err := syntax.Quote(s, syntax.LangBash)
		if err != nil {
			continue
		}
		for _, w := range c29Wrappers {
			add(w(s, q))
		}
	}
	for _, a := range stmts {
		for j, b := range stmts {
			// quick: the second statement is an Env statement
			if !deep && j < len(c29TreeStmts) {
				continue
			}
			add(a + "\n" + b)
		}
	}
	if deep {
		for _, a := range stmts {
			for _, b := range stmts {
				ab := a + "\n" + b
				add(c29Wrappers[0](ab, ""))
				add(c29Wrappers[1](ab, ""))
			}
		}
	}
	return out
}
