package checks

import "strconv"

// Family "loop" of C26: every kind of loop x the status of the last command
// of its body x a control command in the body x the status on entry. The
// chain family (c26_fam.go) enumerates break/continue levels, but only in
// `for x in` loops whose bodies succeed; a C-style loop that stopped after
// an iteration whose last command failed (`for ((i=0;i<3;i++)); do echo $i;
// false; done` printing one line) went unnoticed.
func c26GenLoops(thorough bool, emit c26EmitFn) {
	const pre = "st() { return $1; }\n"
	type kind struct{ name, head string }
	kinds := []kind{
		{"for-in", "for i in 0 1 2"},
		{"while", "i=-1; while i=$((i+1)); [[ $i -lt 3 ]]"},
		{"until", "i=-1; until i=$((i+1)); [[ $i -ge 3 ]]"},
		{"cstyle", "for ((i=0; i<3; i++))"},
		{"cstyle-nocond", "for ((i=0; ; i++))"}, // needs a break: only with the break controls
		{"cstyle-nopost", "for ((i=0; i<3; ))"}, // body increments
		{"while-arith", "i=-1; while ((++i < 3))"},
	}
	ctrls := []struct{ name, src string }{
		{"none", ""},
		{"continue-at-1", "[[ $i == 1 ]] && continue; "},
		{"break-at-1", "[[ $i == 1 ]] && break; "},
		{"break-at-2", "[[ $i == 2 ]] && break; "},
		{"failed-test", "[[ $i == 9 ]]; "},
		{"cond-chain", "[[ $i == 1 ]] || st 4; "},
	}
	statuses := []int{0, 1}
	if thorough {
		statuses = append(statuses, 3)
	}
	entries := []string{"", "st 1; "}
	for _, k := range kinds {
		for _, c := range ctrls {
			if k.name == "cstyle-nocond" && c.name != "break-at-1" && c.name != "break-at-2" {
				continue
			}
			for _, s := range statuses {
				for ei, e := range entries {
					body := "echo $i; " + c.src
					if k.name == "cstyle-nopost" {
						body = "echo $i; i=$((i+1)); " + c.src
					}
					body += "st " + strconv.Itoa(s)
					src := pre + e + k.head + "; do " + body + "; done; echo rc=$? i=$i\n"
					emit("loop-single["+k.name+" "+c.name+" last="+strconv.Itoa(s)+" entry="+strconv.Itoa(ei)+"]", src)
				}
			}
		}
	}
	// a loop with no iteration keeps no stale status
	for _, h := range []string{"for i in", "while st 1", "until st 0", "for ((i=0; i<0; i++))", "for ((; 0; ))"} {
		emit("loop-empty["+h+"]", pre+"st 5; "+h+"; do echo never; done; echo rc=$?\n")
	}
	// two levels: every pair of kinds, inner body failing or not
	two := kinds[:4]
	if thorough {
		two = kinds
	}
	for _, o := range two {
		for _, in := range two {
			if o.name == "cstyle-nocond" || in.name == "cstyle-nocond" || o.name == "cstyle-nopost" || in.name == "cstyle-nopost" {
				continue
			}
			for _, s := range statuses {
				for _, after := range []string{"", "; st 2"} {
					inner := in.head
					// the inner loop uses j
					inner = replaceVar(inner)
					src := pre + o.head + "; do " + inner + "; do echo $i$j; st " + strconv.Itoa(s) + "; done" + after + "; done; echo rc=$?\n"
					emit("loop-nested["+o.name+" "+in.name+" last="+strconv.Itoa(s)+" after="+strconv.Itoa(len(after))+"]", src)
				}
			}
		}
	}
}

// replaceVar renames the loop variable i to j in a loop head.
func replaceVar(head string) string {
	out := make([]byte, 0, len(head))
	for k := 0; k < len(head); k++ {
		c := head[k]
		if c == 'i' {
			prev := byte(' ')
			if k > 0 {
				prev = head[k-1]
			}
			next := byte(' ')
			if k+1 < len(head) {
				next = head[k+1]
			}
			isWord := func(b byte) bool { return b >= 'a' && b <= 'z' || b >= 'A' && b <= 'Z' || b == '_' }
			if !isWord(prev) && !isWord(next) {
				c = 'j'
			}
		}
		out = append(out, c)
	}
	return string(out)
}
