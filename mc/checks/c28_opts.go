package checks

// C28 part 3: option vectors passed to interp.New, and Params argument
// vectors, each followed by a tiny Run. Executed inside the child process.

import (
	"context"
	"io/fs"
	"os"
	"path/filepath"
	"strings"
	"time"

	"mvdan.cc/sh/v3/expand"
	"mvdan.cc/sh/v3/interp"
	"mvdan.cc/sh/v3/syntax"
)

type c28Opt struct {
	Name string
	Make func(e *c28Env, out, errb *c28Buf) interp.RunnerOption
}

func c28P(args ...string) c28Opt {
	return c28Opt{"Params(" + strings.Join(c28Quote(args), ",") + ")", func(*c28Env, *c28Buf, *c28Buf) interp.RunnerOption {
		return interp.Params(args...)
	}}
}

func c28Quote(args []string) []string {
	out := make([]string, len(args))
	for i, a := range args {
		out[i] = `"` + a + `"`
	}
	return out
}

// c28OptMenu is the menu of options of part 3. Handlers documented as "must
// not be nil" (open, readdir, stat, access) and a call handler that returns an
// empty argument list (documented as unsupported) are not in the menu.
var c28OptMenu = []c28Opt{
	c28P(),
	c28P("-e", "--", "x"),
	c28P("-"),
	c28P("-o"),
	c28P("+o"),
	c28P("+o", "nosuch"),
	c28P("-o", "errexit"),
	c28P("--"),
	c28P("-x"),
	c28P("-n"),
	c28P("-eu", "a", "b"),
	c28P("+"),
	c28P("-z"),
	c28P("-o", ""),
	c28P(""),
	c28P("a", "-e"),
	c28P("-", "q"),
	{`Dir("")`, func(*c28Env, *c28Buf, *c28Buf) interp.RunnerOption { return interp.Dir("") }},
	{`Dir("/nonexistent-dir")`, func(*c28Env, *c28Buf, *c28Buf) interp.RunnerOption { return interp.Dir("/nonexistent-dir") }},
	{`Dir(wd)`, func(e *c28Env, _, _ *c28Buf) interp.RunnerOption { return interp.Dir(e.wd) }},
	{`Dir("d")`, func(*c28Env, *c28Buf, *c28Buf) interp.RunnerOption { return interp.Dir("d") }},
	{`Dir(wd/f)`, func(e *c28Env, _, _ *c28Buf) interp.RunnerOption { return interp.Dir(filepath.Join(e.wd, "f")) }},
	{`Env(nil)`, func(*c28Env, *c28Buf, *c28Buf) interp.RunnerOption { return interp.Env(nil) }},
	{`Env(ListEnviron())`, func(*c28Env, *c28Buf, *c28Buf) interp.RunnerOption { return interp.Env(expand.ListEnviron()) }},
	{`Env(ListEnviron(odd values))`, func(*c28Env, *c28Buf, *c28Buf) interp.RunnerOption {
		return interp.Env(expand.ListEnviron("A=1", "TMPDIR=rel", "HOME=", "PWD=/x", "OPTIND=7", "IFS=x", "UID=abc", "PS3=", "OLDPWD=/nonexistent-dir"))
	}},
	{`Env(ListEnviron(malformed))`, func(*c28Env, *c28Buf, *c28Buf) interp.RunnerOption {
		return interp.Env(expand.ListEnviron("=x", "novalue", "a=1", "a=2", "", "1x=3", "a b=4"))
	}},
	{`Env(FuncEnviron(""))`, func(*c28Env, *c28Buf, *c28Buf) interp.RunnerOption {
		return interp.Env(expand.FuncEnviron(func(string) string { return "" }))
	}},
	{`Env(FuncEnviron("v"))`, func(*c28Env, *c28Buf, *c28Buf) interp.RunnerOption {
		return interp.Env(expand.FuncEnviron(func(string) string { return "v" }))
	}},
	{`StdIO(nil,nil,nil)`, func(*c28Env, *c28Buf, *c28Buf) interp.RunnerOption { return interp.StdIO(nil, nil, nil) }},
	{`StdIO(reader,out,err)`, func(_ *c28Env, out, errb *c28Buf) interp.RunnerOption {
		return interp.StdIO(strings.NewReader("l1\nl2\n"), out, errb)
	}},
	{`StdIO(nil,out,err)`, func(_ *c28Env, out, errb *c28Buf) interp.RunnerOption { return interp.StdIO(nil, out, errb) }},
	{`StdIO(file,nil,err)`, func(_ *c28Env, out, errb *c28Buf) interp.RunnerOption {
		f, _ := os.Open("/dev/null")
		return interp.StdIO(f, nil, errb)
	}},
	{`Interactive(true)`, func(*c28Env, *c28Buf, *c28Buf) interp.RunnerOption { return interp.Interactive(true) }},
	{`Interactive(false)`, func(*c28Env, *c28Buf, *c28Buf) interp.RunnerOption { return interp.Interactive(false) }},
	{`CallHandler(nil)`, func(*c28Env, *c28Buf, *c28Buf) interp.RunnerOption { return interp.CallHandler(nil) }},
	{`CallHandler(identity)`, func(*c28Env, *c28Buf, *c28Buf) interp.RunnerOption {
		return interp.CallHandler(func(ctx context.Context, args []string) ([]string, error) { return args, nil })
	}},
	{`CallHandler(error)`, func(*c28Env, *c28Buf, *c28Buf) interp.RunnerOption {
		return interp.CallHandler(func(ctx context.Context, args []string) ([]string, error) { return nil, os.ErrInvalid })
	}},
	{`ExecHandler(nil)`, func(*c28Env, *c28Buf, *c28Buf) interp.RunnerOption { return interp.ExecHandler(nil) }},
	{`ExecHandler(stub)`, func(*c28Env, *c28Buf, *c28Buf) interp.RunnerOption { return interp.ExecHandler(c28Exec(nil)) }},
	{`ExecHandlers()`, func(*c28Env, *c28Buf, *c28Buf) interp.RunnerOption { return interp.ExecHandlers() }},
	{`ExecHandlers(stub)`, func(*c28Env, *c28Buf, *c28Buf) interp.RunnerOption { return interp.ExecHandlers(c28Exec) }},
	{`ExecHandlers(passthrough)`, func(*c28Env, *c28Buf, *c28Buf) interp.RunnerOption {
		return interp.ExecHandlers(func(next interp.ExecHandlerFunc) interp.ExecHandlerFunc { return next })
	}},
	{`OpenHandler(confined)`, func(e *c28Env, _, _ *c28Buf) interp.RunnerOption { return interp.OpenHandler(e.openHandler) }},
	{`ReadDirHandler(empty)`, func(*c28Env, *c28Buf, *c28Buf) interp.RunnerOption {
		return interp.ReadDirHandler(func(ctx context.Context, path string) ([]fs.FileInfo, error) { return nil, nil })
	}},
	{`ReadDirHandler2(confined)`, func(e *c28Env, _, _ *c28Buf) interp.RunnerOption { return interp.ReadDirHandler2(e.readDirHandler) }},
	{`StatHandler(error)`, func(*c28Env, *c28Buf, *c28Buf) interp.RunnerOption {
		return interp.StatHandler(func(ctx context.Context, name string, follow bool) (fs.FileInfo, error) {
			return nil, &os.PathError{Op: "stat", Path: name, Err: fs.ErrNotExist}
		})
	}},
	{`AccessHandler(deny)`, func(*c28Env, *c28Buf, *c28Buf) interp.RunnerOption {
		return interp.AccessHandler(func(ctx context.Context, path string, mode interp.AccessMode) error {
			return &os.PathError{Op: "access", Path: path, Err: fs.ErrPermission}
		})
	}},
}

func c28OptNames(idx []int) string {
	names := make([]string, len(idx))
	for i, j := range idx {
		if j >= 0 && j < len(c28OptMenu) {
			names[i] = c28OptMenu[j].Name
		}
	}
	return "New(" + strings.Join(names, ", ") + ")"
}

// c28Tiny is the program run after New: it touches parameters, options,
// output, stdin, the directory stack, globbing, a redirection, a pipeline and
// an unknown command (which the default exec handler cannot find either, so
// no process is ever started).
const c28Tiny = `echo "$@" $- $#; set -o; set +o; shopt -o; pwd; dirs; read v; echo "$v" >/dev/null; echo *; cd .; true | false; [[ -d . ]]; nosuchcmd-c28 a; type nosuchcmd-c28; x=$(echo y); getopts a o; shift`

var c28TinyFile = func() *syntax.File {
	f, err := syntax.NewParser().Parse(strings.NewReader(c28Tiny), "")
	if err != nil {
		panic(err)
	}
	return f
}()

func (e *c28Env) runOpts(cs c28Case, rep *c28Reply) {
	var out, errb c28Buf
	var opts []interp.RunnerOption
	for _, i := range cs.Opts {
		opts = append(opts, c28OptMenu[i].Make(e, &out, &errb))
	}
	r, err := interp.New(opts...)
	if err != nil {
		rep.NewErr = err.Error()
		e.outcome(rep, nil, "new-error", err.Error())
		return
	}
	e.runTiny(r, rep, &out, &errb)
}

func (e *c28Env) runTiny(r *interp.Runner, rep *c28Reply, out, errb *c28Buf) {
	ctx, cancel := context.WithTimeout(context.Background(), 10*time.Second)
	defer cancel()
	err := r.Run(ctx, c28TinyFile)
	err2 := r.Run(ctx, c28TinyFile) // a second, incremental run
	r.Reset()
	r.Run(ctx, c28TinyFile)
	rep.Deadline = ctx.Err() != nil
	if err == nil {
		err = err2
	}
	e.outcome(rep, err, out.String(), errb.String())
}

func (e *c28Env) runParams(cs c28Case, rep *c28Reply) {
	var out, errb c28Buf
	var r *interp.Runner
	var err error
	switch cs.How {
	case 0:
		r, err = interp.New(interp.Params(cs.Args...))
	case 1:
		r, err = interp.New(interp.StdIO(nil, &out, &errb), interp.Params(cs.Args...))
	default:
		r, err = interp.New(interp.StdIO(nil, &out, &errb))
		if err == nil {
			err = interp.Params(cs.Args...)(r)
		}
	}
	if err != nil {
		rep.NewErr = err.Error()
		e.outcome(rep, nil, "new-error", err.Error())
		return
	}
	e.runTiny(r, rep, &out, &errb)
}
