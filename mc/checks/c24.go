package checks

import (
	"bytes"
	"fmt"
	"regexp"
	"runtime/debug"
	"strconv"
	"strings"

	"verif/mc/oracle"
	"verif/mc/vc"
)

func init() { Registry["C24"] = c24 }

// c24Case is one invocation of the printf or echo builtin.
type c24Case struct {
	Grp  string   `json:"group"`
	Argv []string `json:"argv"` // Argv[0] is "printf" or "echo"
}

func (cs c24Case) cmdline() string {
	var sb strings.Builder
	sb.WriteString(cs.Argv[0])
	for _, a := range cs.Argv[1:] {
		sb.WriteByte(' ')
		sb.WriteString(oracle.ShQuote(a))
	}
	return sb.String()
}

// The bash side frames every case with a marker that the case alphabets
// cannot produce (no '@' or '~' can come out of any format, escape or
// argument used here).
var c24Marker = regexp.MustCompile(`@~([0-9]+)~@`)

const c24Prelude = "c() { \"$@\"; builtin printf '@~%d~@' $?; }\n"

type c24Obs struct {
	Out    []byte
	Status int
}

// c24Bash runs all cases in one bash process; ok=false if the output could
// not be split into exactly one record per case.
func c24Bash(batch []c24Case) ([]c24Obs, bool) {
	var sb strings.Builder
	sb.WriteString(c24Prelude)
	for _, cs := range batch {
		sb.WriteString("c ")
		sb.WriteString(cs.cmdline())
		sb.WriteByte('\n')
	}
	out, _, err := oracle.ShellFile("bash", sb.String(), "/")
	if err != nil {
		return nil, false
	}
	locs := c24Marker.FindAllSubmatchIndex(out, -1)
	if len(locs) != len(batch) {
		return nil, false
	}
	res := make([]c24Obs, len(batch))
	prev := 0
	for i, l := range locs {
		st, _ := strconv.Atoi(string(out[l[2]:l[3]]))
		res[i] = c24Obs{Out: out[prev:l[0]], Status: st}
		prev = l[1]
	}
	if prev != len(out) {
		return nil, false
	}
	return res, true
}

// c24Classify names the family of a divergence, or "" if the quirk model does
// not explain both sides exactly: the model without quirks must reproduce
// bash, and some set of quirks must reproduce the interpreter. The quirks that
// can matter for this input are found by toggling each one alone (from no
// quirks and from all quirks); the smallest subset of those (ties: the one
// with the earlier quirks) that reproduces the interpreter is the
// explanation, and its first quirk is the class.
func c24Classify(argv []string, interp, bash c24Obs) (class string, note string) {
	same := func(o c24Out, b c24Obs) bool {
		return !o.Unsupported && o.Status == b.Status && bytes.Equal(o.Out, b.Out)
	}
	eq := func(a, b c24Out) bool {
		return a.Unsupported == b.Unsupported && a.Status == b.Status && bytes.Equal(a.Out, b.Out)
	}
	none := c24Ref(argv, 0)
	if !same(none, bash) {
		return "", "reference model disagrees with bash"
	}
	// a single quirk is the smallest possible explanation
	for i, n := range c24QuirkNames {
		if same(c24Ref(argv, c24Q(1)<<uint(i)), interp) {
			return n, n
		}
	}
	all := c24Ref(argv, c24qAll)
	var sens []int
	for i := range c24QuirkNames {
		q := c24Q(1) << uint(i)
		if !eq(c24Ref(argv, q), none) || !eq(c24Ref(argv, c24qAll&^q), all) {
			sens = append(sens, i)
		}
	}
	subsetOf := func(sens []int, m int) (set c24Q, n int) {
		for k, i := range sens {
			if m&(1<<uint(k)) != 0 {
				set |= c24Q(1) << uint(i)
				n++
			}
		}
		return
	}
	search := func(sens []int) (best c24Q) {
		bestN := 99
		for m := 1; m < 1<<uint(len(sens)); m++ {
			set, n := subsetOf(sens, m)
			if n < bestN && same(c24Ref(argv, set), interp) {
				best, bestN = set, n
			}
		}
		return best
	}
	if len(sens) > 10 {
		return "", "too many quirks apply"
	}
	best := search(sens)
	if best == 0 {
		// A quirk can be masked in both directions (for example everything
		// after a \c is invisible unless \c itself is ignored): close the
		// set under "toggling it changes the result on top of some subset of
		// the quirks found so far" and search again.
		for grew := true; grew && len(sens) <= 8; {
			grew = false
			for i := range c24QuirkNames {
				q := c24Q(1) << uint(i)
				known := false
				for _, k := range sens {
					known = known || k == i
				}
				if known {
					continue
				}
				for m := 0; m < 1<<uint(len(sens)); m++ {
					set, _ := subsetOf(sens, m)
					if !eq(c24Ref(argv, set|q), c24Ref(argv, set)) {
						sens = append(sens, i)
						grew = true
						break
					}
				}
			}
		}
		if len(sens) <= 10 {
			best = search(sens)
		}
	}
	if best == 0 && same(all, interp) {
		// last resort: shrink the full set greedily
		best = c24qAll
		for i := range c24QuirkNames {
			q := c24Q(1) << uint(i)
			if same(c24Ref(argv, best&^q), interp) {
				best &^= q
			}
		}
	}
	if best == 0 {
		return "", "no set of known quirks reproduces the interpreter"
	}
	var names []string
	for i, n := range c24QuirkNames {
		if best&(c24Q(1)<<uint(i)) != 0 {
			names = append(names, n)
		}
	}
	return names[0], strings.Join(names, "+")
}

func c24(c *vc.Ctx) {
	c.Reruns = 1
	thorough := !c.Quick()
	// the live heap is tiny, so the default GC pacing collects every few
	// hundred cases and the workers spend their time in GC handshakes
	debug.SetGCPercent(2000)

	sp := c24NewSpace(thorough)
	c.Rule = sp.rule()
	c.Assumptions = []string{
		"bash 5.2.15 with LC_ALL=C.utf8 is the oracle; stderr is ignored",
		"one interp.Runner per batch, Reset before every case (printf and echo keep no state)",
		"a Go model of bash's printf/echo with one switch per known deviation is used only to name the class of a divergence; a divergence it cannot reproduce exactly on both sides stays an unclassified violation",
		"the marker @~N~@ cannot be produced by any case of the enumerated alphabets; a batch whose output does not split into one record per case is re-run case by case and reported as a failure if it still does not",
	}
	gen := sp.gen

	run := func(batch []c24Case) []*vc.Fail {
		fails := make([]*vc.Fail, len(batch))
		sh, err := newC24Shell()
		if err != nil {
			panic(err)
		}
		bres, ok := c24Bash(batch)
		if !ok && len(batch) > 1 {
			// find the culprit case by case
			for i := range batch {
				fs := c24RunOne(c, batch[i])
				fails[i] = fs
			}
			return fails
		}
		for i, cs := range batch {
			if !ok {
				fails[i] = vc.Failf(cs.cmdline()+" harness", "bash output for %s could not be framed", cs.cmdline())
				continue
			}
			fails[i] = c24Judge(c, sh, cs, bres[i])
			if fails[i] != nil && strings.HasSuffix(fails[i].Key, " fatal") {
				if sh, err = newC24Shell(); err != nil {
					panic(err)
				}
			}
		}
		return fails
	}
	complete := vc.RunBatch(c, 3000, gen, run)
	c.Finish(complete)
}

func c24RunOne(c *vc.Ctx, cs c24Case) *vc.Fail {
	bres, ok := c24Bash([]c24Case{cs})
	if !ok {
		return vc.Failf(cs.cmdline()+" harness", "bash output for %s could not be framed", cs.cmdline())
	}
	sh, err := newC24Shell()
	if err != nil {
		panic(err)
	}
	return c24Judge(c, sh, cs, bres[0])
}

func c24Judge(c *vc.Ctx, sh *c24Shell, cs c24Case, bash c24Obs) *vc.Fail {
	cmd := cs.cmdline()
	iout, ist, fatal := sh.run(cmd)
	if fatal != "" {
		return &vc.Fail{Key: cmd + " fatal", Msg: fmt.Sprintf("%s: interpreter failed: %s", cmd, oneLineC24(fatal)), Detail: fatal}
	}
	in := c24Obs{Out: iout, Status: ist}
	c.Distinct(fmt.Sprintf("%d:%s", bash.Status, bash.Out))
	if in.Status == bash.Status && bytes.Equal(in.Out, bash.Out) {
		if o := c24Ref(cs.Argv, 0); !o.Unsupported && (o.Status != bash.Status || !bytes.Equal(o.Out, bash.Out)) {
			c.Count("refmodel_differs_from_bash_on_passing_case", 1)
		}
		return nil
	}
	// a directive outside the interpreter's grammar, cleanly rejected
	if in.Status == 1 {
		for _, q := range []c24Q{0, c24qAll} {
			if o := c24Ref(cs.Argv, q); o.Unsupported && (len(in.Out) == 0 || bytes.Equal(in.Out, o.Out)) {
				c.Count("skipped_unsupported_directive", 1)
				return nil
			}
		}
	}
	class, note := c24Classify(cs.Argv, in, bash)
	return &vc.Fail{
		Key:   fmt.Sprintf("%s => interp %d:%q", cmd, in.Status, in.Out),
		Msg:   fmt.Sprintf("%s: interp status=%d out=%q, bash status=%d out=%q [%s]", cmd, in.Status, in.Out, bash.Status, bash.Out, note),
		Class: class,
	}
}

func oneLineC24(s string) string {
	if i := strings.IndexByte(s, '\n'); i >= 0 {
		return s[:i]
	}
	return s
}
