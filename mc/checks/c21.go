package checks

import (
	"fmt"
	"regexp"
	"sort"
	"strings"
	"unicode"

	"verif/mc/oracle"
	"verif/mc/vc"
)

func init() { Registry["C21"] = c21 }

// c21Case is one (state, parameter expansion, quoting) triple. The word is
// ${Pre Tgt Op}, inside double quotes when Q. Then (assignment forms only)
// is a second word, expanded after the first, that reads the variable back.
type c21Case struct {
	State string `json:"state"`
	Pre   string `json:"pre"`
	Tgt   string `json:"tgt"`
	Op    string `json:"op"`
	Q     bool   `json:"quoted"`
	Then  string `json:"then,omitempty"`
}

func (t c21Case) exp() string { return "${" + t.Pre + t.Tgt + t.Op + "}" }

func (t c21Case) words() string {
	w := t.exp()
	if t.Q {
		w = `"` + w + `"`
	}
	if t.Then != "" {
		w += " " + t.Then
	}
	return w
}

func (t c21Case) setup() string {
	s := c21Reset
	if st := c21StateByID[t.State]; st.Setup != "" {
		s += "; " + st.Setup
	}
	return s + "; "
}

// c21ReadBack is the word that shows the variable after ${tgt:=w}.
func c21ReadBack(tgt string) string {
	switch name, _, _ := strings.Cut(tgt, "["); name {
	case "x":
		return `"${x-U}" "${x[@]-U}"`
	case "a":
		return `"${a[@]-U}" "${!a[@]}"`
	case "A":
		return `"${A[0]-U}" "${A[k]-U}" "${A[z]-U}"`
	case "y", "yu", "ye", "yn":
		return `"${x-U}" "${nonexistent-U}" "${` + name + `-U}"`
	case "ya", "yat", "y0":
		return `"${a[@]-U}" "${` + name + `-U}"`
	case "yA", "yAt":
		return `"${A[0]-U}" "${A[k]-U}" "${A[z]-U}" "${` + name + `-U}"`
	}
	return `"${@-U}"`
}

// bash prelude: __f leaves "<count><field>..." in R; __fp prints it (used in a
// command substitution for the forms that may end the shell).
const c21BashPrelude = `set -f
BASH_ARGV0=gosh
__f() { R=$#; local __t; if (($#)); then printf -v __t '<%s>' "$@"; R=$R$__t; fi; }
__fp() { printf '%s' "$#"; if (($#)); then printf '<%s>' "$@"; fi; }
`

var c21InterpPre = c2xParse(`set -f
__f() { printf '%s' "$#"; if [ "$#" -gt 0 ]; then printf '<%s>' "$@"; fi; }
`)

// c21NeedsNoQuoting: the strings for which ${x@Q} in the interpreter leaves
// the value as it is while bash wraps it in single quotes (the documented
// difference). Deliberately independent of syntax.Quote: non-empty, only
// letters, digits and a few punctuation characters that no shell treats
// specially.
func c21NeedsNoQuoting(s string) bool {
	if s == "" {
		return false
	}
	for _, r := range s {
		if unicode.IsLetter(r) || unicode.IsDigit(r) || strings.ContainsRune("_-./+:@%,^", r) {
			continue
		}
		return false
	}
	return true
}

var c21FieldRx = regexp.MustCompile(`<'([^<>']*)'>`)

// c21NormQ rewrites every field of a bash result that is exactly 'S' with S
// needing no quoting to S.
func c21NormQ(r string) string {
	return c21FieldRx.ReplaceAllStringFunc(r, func(f string) string {
		in := f[2 : len(f)-2]
		if c21NeedsNoQuoting(in) {
			return "<" + in + ">"
		}
		return f
	})
}

// c21SortKeys renders a key listing result with its keys sorted (keys hold
// no blanks): "0:1<k j>" and "0:2<j><k>" both become "0:j k".
func c21SortKeys(r string) string {
	st, rest, _ := strings.Cut(r, ":")
	i := strings.IndexByte(rest, '<')
	if i < 0 {
		return r
	}
	keys := strings.Fields(strings.NewReplacer("<", " ", ">", " ").Replace(rest[i:]))
	sort.Strings(keys)
	return st + ":" + strings.Join(keys, " ")
}

func c21Gen(c *vc.Ctx, b c21Bounds, emit func(c21Case)) {
	full := c21FullOps(b)
	basic := c21BasicOps()
	for _, st := range c21States {
		prim, sec := c21Targets(st.Kind)
		one := func(pre, tgt, op string) {
			if st.Kind == "assoc" && pre == "" && c21OpKind(pre, op) == "slice" && (strings.HasSuffix(tgt, "[@]") || strings.HasSuffix(tgt, "[*]")) {
				// bash manual: "Substring expansion applied to an
				// associative array produces undefined results"
				c.Count("skipped_assoc_list_slice_undefined_in_bash", 2)
				return
			}
			for _, q := range []bool{false, true} {
				t := c21Case{State: st.ID, Pre: pre, Tgt: tgt, Op: op, Q: q}
				emit(t)
				if c21AssignOp(op) {
					t.Then = c21ReadBack(tgt)
					emit(t)
				}
			}
		}
		for _, tgt := range prim {
			for _, op := range full {
				one(op.Pre, tgt, op.Op)
			}
		}
		for _, tgt := range sec {
			for _, op := range basic {
				one(op.Pre, tgt, op.Op)
			}
		}
		for _, tgt := range c21IndirTargets(st) {
			for _, op := range basic {
				if op.Pre != "" || tgt == "#" && op.Op != "" {
					// ${!#op} is only enumerated without an operator: "#"
					// followed by an operator character reads differently
					continue
				}
				one("!", tgt, op.Op)
			}
		}
		for _, form := range c21ListingForms(st.Kind) {
			one("", form, "")
		}
	}
}

func c21(c *vc.Ctx) {
	b := c21Bounds{
		RemPat:      vc.Pick(c, 1, 2),
		ReplPat:     vc.Pick(c, 1, 2),
		CasePat:     vc.Pick(c, 1, 2),
		DefaultArgs: vc.Pick(c, []string{"d", "", "a b", `"a b"`}, []string{"d", "", "a b", `"a b"`, `'a b'`, "$y", `"$y z"`, "*"}),
		// round 3: the argument words of the operators as a dimension
		WordDefaultOps: vc.Pick(c, []string{":-", "=", ":+"}, []string{":-", "-", ":=", "=", ":+", "+"}),
		WordReplOps:    vc.Pick(c, []string{"/", "//"}, []string{"/", "//", "/#", "/%"}),
		WordReplPats:   vc.Pick(c, []string{"a", "*"}, c21Patterns(1, false)),
		WordPatOps:     vc.Pick(c, []string{"#", "%%", "/"}, []string{"#", "##", "%", "%%", "/", "//", "/#", "/%", "^", "^^", ",", ",,"}),
		WordBoth:       vc.Pick(c, false, true),
		SliceFar:       vc.Pick(c, []int{-4, -3, 4}, []int{-6, -5, -4, -3, 4, 5, 6}),
	}
	var stateIDs []string
	for _, st := range c21States {
		stateIDs = append(stateIDs, st.ID+" ["+st.Setup+"]")
	}
	c.Rule = fmt.Sprintf("states %q (plus the fixed variables: %s) x targets (primary: x | a[@] a[*] | A[@] | @ *; secondary: x[0] x[@] x[*] x[1] | a[1] a a[-1] a[9] | A[*] A[k] A[z] A | 1 2; indirection ${!n..} through y yu ye yn | ya yat y0 | yA yAt | yp yq 1 #; listings ${!a[@]} ${!a[*]} ${!p*} ${!p@}) x operators (primary targets: none, ${#p}, {:- - := = :+ +} x args %q, :? ? with and without message, :o and :o:l for o,l in -2..3, {# ## %% %%%%} x patterns of <=%d symbols, {/ // /# /%%} x patterns of 1..%d symbols x replacement {\"\", Z, &} and without the second slash, {^ ^^ , ,,} x patterns of <=%d symbols, @Q @U @L @u @a @E @P; pattern symbols %q; argument words W=%q (w='?': one expansion, expansion and literal in both orders, two expansions, quoted escape, quoted expansion with a blank, empty quotes): %q x W as the default word, %q x patterns %q x W as the replacement, %q x W as the pattern (replace forms with replacement Z)%s; offsets beyond the values %v alone and with lengths -1 0 1 3; secondary targets and indirection: %d representative operators) x {unquoted, double-quoted}; assignment forms also followed by a read-back of the variable. noglob on, IFS default. For each: count and text of the fields (or failure of the expansion) in a fresh interp.Runner = bash 5.2 (eval in one process; :? and ? forms in a command substitution), and for the forms expand.Fields can evaluate without a Runner also expand.Fields over an Environ holding the same state. ${..@Q} compared after unquoting bash fields 'S' where S needs no quoting. distinct = distinct (fields) outcomes",
		stateIDs, c21Reset, b.DefaultArgs, b.RemPat, b.ReplPat, b.CasePat, c21PatAlphabet,
		c21ArgWordSrcs(), b.WordDefaultOps, b.WordReplOps, b.WordReplPats, b.WordPatOps, vc.Pick(c, "", ", / and // x W as the pattern x W as the replacement"), b.SliceFar, len(c21BasicOps()))
	c.Assumptions = []string{
		"bash 5.2.15 (LC_ALL=C.utf8) is the oracle",
		"functions, printf, set --, declare -A, array assignment and \"$@\" of the interpreter are trusted to set up the state and render the fields",
		"an expansion error is observed as status 1 with no output in both shells; the message text and whether the shell goes on are not compared",
		"the order in which bash lists the elements of a two-key associative array is taken as it is (see finding classes)",
	}
	c.Reruns = 1

	complete := vc.RunBatch(c, 1500, func(emit func(c21Case)) { c21Gen(c, b, emit) }, func(batch []c21Case) []*vc.Fail {
		return c21RunBatch(c, batch)
	})
	c.Finish(complete)
}

type c21Src struct {
	i    int
	what string // "interp" or "expand.Fields"
}

func c21RunBatch(c *vc.Ctx, batch []c21Case) []*vc.Fail {
	fails := make([]*vc.Fail, len(batch))
	var cases []oracle.EvalCase
	var srcs []c21Src
	for i, t := range batch {
		words := t.words()
		code := t.setup() + "__f " + words
		if c21ErrorOp(t.Op) {
			code = t.setup() + "R=$(__fp " + words + ")"
		}
		want := c2xRun(c21InterpPre, t.setup()+"__f "+words+"\n", nil)
		// the iteration order of a Go map must not decide the result
		reruns := 0
		if strings.Contains(t.Tgt+t.Then, "A[") {
			reruns = 3
			if strings.HasPrefix(t.Tgt, "!A[") && t.State == "A:two" {
				reruns = 24 // two keys: each run picks one of two orders
			}
		}
		for n := 0; n < reruns; n++ {
			if again := c2xRun(c21InterpPre, t.setup()+"__f "+words+"\n", nil); again != want {
				if again < want {
					again, want = want, again
				}
				fails[i] = &vc.Fail{
					Key:   fmt.Sprintf("state=%s words=%s nondeterministic", t.State, words),
					Msg:   fmt.Sprintf("%s; %s: the interpreter gives %s in one run and %s in another", t.setup(), words, want, again),
					Class: c21ClassNondet(t),
				}
				break
			}
		}
		if fails[i] != nil {
			continue
		}
		c.Distinct(want)
		cases = append(cases, oracle.EvalCase{Code: code, Want: want})
		srcs = append(srcs, c21Src{i, "interp"})
		if t.Pre == "" && t.Q && strings.HasPrefix(t.Op, "/#") && t.State == "x:aXbXc" {
			c.Sample(map[string]any{"state": t.State, "words": words, "interp": want})
		}
		if fw, ok := c21ExpandFields(c, t); ok && fw != want {
			cases = append(cases, oracle.EvalCase{Code: code, Want: fw})
			srcs = append(srcs, c21Src{i, "expand.Fields"})
		}
	}
	diffs, err := oracle.BashEvalBatch(c21BashPrelude, "", cases, "")
	if err != nil {
		panic(err)
	}
	for _, d := range diffs {
		s := srcs[d.Index]
		t := batch[s.i]
		sh := cases[d.Index].Want
		bash := d.Got
		if strings.HasPrefix(t.Op, "@Q") && c21NormQ(bash) == sh {
			c.Count("atQ_equal_modulo_documented_difference", 1)
			continue
		}
		if t.State == "A:two" && t.Pre == "" && strings.HasPrefix(t.Tgt, "!A[") && c21SortKeys(bash) == c21SortKeys(sh) {
			// bash lists the keys in hash order, the interpreter sorted;
			// no order is specified
			c.Count("assoc_key_order_ignored", 1)
			continue
		}
		f := &vc.Fail{
			Key:   fmt.Sprintf("state=%s words=%s %s=%s bash=%s", t.State, t.words(), s.what, sh, bash),
			Msg:   fmt.Sprintf("%s%s: fields of %s %s, bash %s", t.setup()[len(c21Reset)+2:], t.words(), s.what, sh, bash),
			Class: c21Class(t, sh, bash),
		}
		switch {
		case fails[s.i] == nil:
			fails[s.i] = f
		case fails[s.i].Class != f.Class:
			c.Count("interp_and_expand_fields_differ_differently", 1)
			if f.Class == "" {
				fails[s.i] = f
			}
		}
	}
	return fails
}
