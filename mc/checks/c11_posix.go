package checks

import (
	"reflect"
	"sort"
	"strings"

	"mvdan.cc/sh/v3/syntax"
)

// The explicit list of constructs that must not occur in a tree accepted with
// syntax.LangPOSIX. Every entry is derived from the code under test itself:
//
//   - a Parser.checkLang call site (parser.go, parser_arithm.go) whose language
//     set does not contain LangPOSIX,
//   - a `p.lang.in(...)` gate in parser.go / lexer.go whose set does not
//     contain LangPOSIX (keywords [[ let function declare local export
//     readonly typeset nameref time coproc select @test; tokens |& $' $" $[
//     (( ;& ;;& ;| <( >( &| &! and the zsh-only assignment operators of
//     arithmetic), or
//   - a node/field comment in nodes.go or tokens.go ("This node will only
//     appear with [LangBash]...", "mksh's", "with [LangZsh]", "non-posix").
//
// What is deliberately NOT on the list, because nothing in the code or its
// tests designates it as variant specific: arithmetic operators beyond the
// POSIX minimum (** ++ -- , ^^), which parser_arithm.go accepts for every
// variant and filetests_test.go expects for every variant ("$((2 ** 10))");
// brace expansion text (a plain Lit for the parser); backquotes; `>|`, `<>`,
// `>&word`, `<<-`. They are counted (posix_arith_extension_ops) but not judged.
//
// c11NonPOSIX returns the sorted, de-duplicated labels of the listed
// constructs found anywhere under f (reflection walk over every exported
// field, so it does not depend on syntax.Walk visiting a field).
func c11NonPOSIX(f *syntax.File) (labels []string, arithExt int) {
	seen := map[string]bool{}
	add := func(l string) {
		if !seen[l] {
			seen[l] = true
			labels = append(labels, l)
		}
	}
	var walk func(v reflect.Value)
	walk = func(v reflect.Value) {
		switch v.Kind() {
		case reflect.Interface:
			if !v.IsNil() {
				walk(v.Elem())
			}
		case reflect.Pointer:
			if v.IsNil() {
				return
			}
			if v.Elem().Kind() == reflect.Struct {
				arithExt += c11Node(v.Interface(), add)
			}
			walk(v.Elem())
		case reflect.Slice:
			for i := 0; i < v.Len(); i++ {
				walk(v.Index(i))
			}
		case reflect.Struct:
			t := v.Type()
			if t == c11PosType {
				return
			}
			for i := 0; i < t.NumField(); i++ {
				if t.Field(i).IsExported() {
					walk(v.Field(i))
				}
			}
		}
	}
	walk(reflect.ValueOf(f))
	sort.Strings(labels)
	return labels, arithExt
}

var c11PosType = reflect.TypeOf(syntax.Pos{})

// posixExpOps are the parameter expansion operators of POSIX (XCU 2.6.2):
// - = ? + with and without colon, % %% # ##. ${#x} is the Length flag.
var posixExpOps = map[syntax.ParExpOperator]bool{
	syntax.AlternateUnset: true, syntax.AlternateUnsetOrNull: true,
	syntax.DefaultUnset: true, syntax.DefaultUnsetOrNull: true,
	syntax.ErrorUnset: true, syntax.ErrorUnsetOrNull: true,
	syntax.AssignUnset: true, syntax.AssignUnsetOrNull: true,
	syntax.RemSmallSuffix: true, syntax.RemLargeSuffix: true,
	syntax.RemSmallPrefix: true, syntax.RemLargePrefix: true,
}

// c11Node judges one node; it returns the number of ungated arithmetic
// extension operators seen (informational).
func c11Node(n any, add func(string)) (arithExt int) {
	switch x := n.(type) {
	// node kinds that are documented as appearing only with other variants
	case *syntax.TestClause:
		add("TestClause") // [[ ]]: parser.go gotStmtPipe gate; "only ... LangBash and LangMirBSDKorn"
	case *syntax.BinaryTest, *syntax.UnaryTest, *syntax.ParenTest:
		add("TestClause")
	case *syntax.ArithmCmd:
		add("ArithmCmd") // (( )): lexer.go regToken gate
	case *syntax.ArrayExpr, *syntax.ArrayElem:
		add("ArrayExpr") // checkLang "arrays"
	case *syntax.ProcSubst:
		add("ProcSubst") // lexer.go <( >( gate, checkLang =(
	case *syntax.ExtGlob:
		add("ExtGlob") // checkLang "extended globs"
	case *syntax.DeclClause:
		add("DeclClause")
	case *syntax.LetClause:
		add("LetClause")
	case *syntax.TimeClause:
		add("TimeClause")
	case *syntax.CoprocClause:
		add("CoprocClause")
	case *syntax.TestDecl:
		add("TestDecl") // bats only
	case *syntax.CStyleLoop:
		add("CStyleLoop") // checkLang "c-style fors"
	case *syntax.FlagsArithm:
		add("FlagsArithm") // "only appear with LangZsh"
	case *syntax.Slice:
		add("ParamExp.Slice") // checkLang "slicing"
	case *syntax.Replace:
		add("ParamExp.Repl") // checkLang "search and replace"
	case *syntax.BraceExp:
		add("BraceExp") // only produced by SplitBraces, never by Parse

	// flags
	case *syntax.Stmt:
		if x.Coprocess {
			add("Stmt.Coprocess") // mksh's |&
		}
		if x.Disown {
			add("Stmt.Disown") // zsh's &| &!
		}
	case *syntax.BinaryCmd:
		if x.Op == syntax.PipeAll {
			add("BinaryCmd.PipeAll") // |&: lexer.go gate
		}
	case *syntax.Assign:
		if x.Append {
			add("Assign.Append") // a+=b: hasValidIdent/getAssign gate
		}
		if x.Index != nil {
			add("Assign.Index") // a[i]=b: lexer.go advanceLitOther gate on '['
		}
		if x.Array != nil {
			add("Assign.Array")
		}
		if x.Naked {
			add("Assign.Naked") // only in DeclClause or a[i] alone
		}
	case *syntax.Redirect:
		switch x.Op {
		case syntax.RdrAll, syntax.AppAll:
			add("Redirect." + x.Op.String()) // checkLang "%#q redirects"
		case syntax.AppClob, syntax.RdrAllClob, syntax.AppAllClob:
			add("Redirect." + x.Op.String()) // zsh
		case syntax.WordHdoc:
			add("Redirect.<<<") // checkLang "herestrings"
		}
		if x.N != nil && strings.HasPrefix(x.N.Value, "{") {
			add("Redirect.{varname}") // checkLang "`{varname}` redirects"
		}
	case *syntax.ForClause:
		if x.Select {
			add("ForClause.Select")
		}
		if x.Braces {
			add("ForClause.Braces") // checkLang "for loops with braces"
		}
	case *syntax.CaseClause:
		if x.Braces {
			add("CaseClause.Braces") // checkLang "`case i {`"
		}
	case *syntax.CaseItem:
		switch x.Op {
		case syntax.Fallthrough, syntax.Resume, syntax.ResumeKorn:
			add("CaseItem." + x.Op.String()) // lexer.go ;& ;;& ;| gates
		}
	case *syntax.FuncDecl:
		if x.RsrvWord {
			add("FuncDecl.RsrvWord") // "non-posix function f style"
		}
		if !x.Parens {
			add("FuncDecl.NoParens")
		}
		if len(x.Names) > 0 {
			add("FuncDecl.Names") // checkLang "multi-name functions"
		}
		if x.Name == nil {
			add("FuncDecl.Anonymous") // checkLang "anonymous functions"
		} else if !syntax.ValidName(x.Name.Value) {
			add("FuncDecl.InvalidName") // parser.go: LangPOSIX && !ValidName -> "invalid func name"
		}
	case *syntax.SglQuoted:
		if x.Dollar {
			add("SglQuoted.Dollar") // $'': lexer.go gate
		}
	case *syntax.DblQuoted:
		if x.Dollar {
			add("DblQuoted.Dollar") // $"": lexer.go gate
		}
	case *syntax.CmdSubst:
		if x.TempFile {
			add("CmdSubst.TempFile") // ${ stmts;}
		}
		if x.ReplyVar {
			add("CmdSubst.ReplyVar") // ${|stmts;}
		}
	case *syntax.ArithmExp:
		if x.Bracket {
			add("ArithmExp.Bracket") // $[ ]: lexer.go gate
		}
		if x.Unsigned {
			add("ArithmExp.Unsigned") // checkLang "unsigned expressions"
		}
	case *syntax.ParamExp:
		if x.Flags != nil {
			add("ParamExp.Flags")
		}
		if x.Excl {
			add("ParamExp.Excl") // ${!a}
		}
		if x.Width {
			add("ParamExp.Width") // ${%a}
		}
		if x.IsSet {
			add("ParamExp.IsSet") // ${+a}
		}
		if x.Split != syntax.OptUnset || x.GlobSubst != syntax.OptUnset || x.RcExpand != syntax.OptUnset {
			add("ParamExp.ZshPrefix")
		}
		if x.NestedParam != nil {
			add("ParamExp.NestedParam")
		}
		if x.Param == nil && x.NestedParam == nil {
			add("ParamExp.NoParam") // zsh ${:-word}
		}
		if x.Index != nil {
			if x.Short && !x.Dollar.IsValid() {
				// arr[i] without '$' inside an arithmetic expression
				// (ParamExp.nakedIndex in nodes.go); lexer.go gates the
				// '[' of arithmetic literals on bash/mksh/zsh
				add("ParamExp.NakedIndex")
			} else {
				add("ParamExp.Index") // ${a[i]}, $a[i]: checkLang "arrays"
			}
		}
		if len(x.Modifiers) > 0 {
			add("ParamExp.Modifiers")
		}
		if x.Names != 0 {
			add("ParamExp.Names") // ${!prefix*}
		}
		if x.Exp != nil && !posixExpOps[x.Exp.Op] {
			add("ParamExp.Exp." + x.Exp.Op.String())
		}
	case *syntax.BinaryArithm:
		switch x.Op {
		case syntax.AndBoolAssgn, syntax.OrBoolAssgn, syntax.XorBoolAssgn, syntax.PowAssgn:
			add("BinaryArithm." + x.Op.String()) // lexer.go arithmToken zsh gates
		case syntax.Pow, syntax.Comma, syntax.XorBool:
			arithExt++
		}
	case *syntax.UnaryArithm:
		if x.Op == syntax.Inc || x.Op == syntax.Dec {
			arithExt++
		}
	}
	return arithExt
}
