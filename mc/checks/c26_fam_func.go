package checks

import "strings"

// Family group "Func" of C26 (see C26_FAMILY_BRIEF.md). Emits programs through
// emit(desc, src); desc starts with the family name and a dash.
//
// Six families, each a cross product of small dimensions; bash decides what
// every program prints and exits with:
//
//	fxret      `return` status spelling x the construct it is executed in
//	             (inside a function) x how the caller consumes the status
//	fxscope    how the caller declares x  x  what the callee does to x,
//	             read from callee, callee's subshell and $( ), caller, top level
//	fxpos      argument lists x one operation on the positional parameters
//	             inside a function, the caller's parameters printed afterwards
//	fxerrexit  set -e x the position of a failing command x the wrapper the
//	             whole thing runs in, markers before and after
//	fxexittrap where/how the EXIT trap is set x handler body x how the shell ends
//	fxerrtrap  ERR trap x the position of a failing command x set -e / -E
//
// Spelling rules (see the brief): output with `echo "..."` only, never a first
// argument starting with `-` or holding `\` or `%`; no bare `local x`.

const c26FuncSt = "st() { return $1; }\n"

type c26FuncNS struct{ name, src string }

func c26FuncSub(tmpl, key, val string) string { return strings.ReplaceAll(tmpl, key, val) }

func c26GenFunc(thorough bool, emit c26EmitFn) {
	c26FuncRet(thorough, emit)
	c26FuncScope(thorough, emit)
	c26FuncPos(thorough, emit)
	c26FuncErrexit(thorough, emit)
	c26FuncExitTrap(thorough, emit)
	c26FuncErrTrap(thorough, emit)
}

// ---------------------------------------------------------------- return

func c26FuncRet(thorough bool, emit c26EmitFn) {
	// the return command; "%P" is a command that sets the status first
	rets := []c26FuncNS{
		{"none", "return"},
		{"0", "return 0"},
		{"3", "return 3"},
		{"$?", "return $?"},
	}
	if thorough {
		rets = append(rets,
			c26FuncNS{"256", "return 256"},
			c26FuncNS{"259", "return 259"},
			c26FuncNS{"var", "return $r"},
			c26FuncNS{"quoted", "return \"3\""},
			c26FuncNS{"arith", "return $((1+1))"},
		)
	}
	// the construct around it, inside f; %R = the return command
	places := []c26FuncNS{
		{"plain", "%R"},
		{"for", "for i in 1 2; do echo i$i; %R; echo no-for; done"},
		{"while", "while true; do %R; echo no-while; done"},
		{"if-cond", "if %R; then echo T; else echo F; fi"},
		{"if-body", "if true; then %R; fi"},
		{"group", "{ %R; echo no-group; }"},
		{"and", "st 0 && %R"},
		{"or", "st 2 || %R"},
		{"case", "case a in a) %R;; esac"},
		{"eval", "eval '%R; echo no-eval'"},
		{"nested-fn", "g() { %R; echo no-g; }; g; echo \"g:$?\""},
		{"subshell", "( %R; echo no-sub ); echo \"sub:$?\""},
		{"cmdsubst", "x=$( %R; echo no-cs ); echo \"cs:$? [$x]\""},
	}
	if thorough {
		places = append(places,
			c26FuncNS{"until-cond", "until %R; do echo body; break; done"},
			c26FuncNS{"while-cond", "while %R; do echo body; break; done"},
			c26FuncNS{"for-nested", "for i in 1 2; do for j in a b; do echo $i$j; %R; done; echo no-outer; done"},
			c26FuncNS{"elif-cond", "if st 1; then echo T1; elif %R; then echo T2; fi"},
			c26FuncNS{"else-body", "if st 1; then echo T1; else %R; fi"},
			c26FuncNS{"redir", "%R > r.txt"},
			c26FuncNS{"group-redir", "{ %R; } > r.txt"},
			c26FuncNS{"pipe-first", "%R | true; echo \"p:$?\""},
			c26FuncNS{"pipe-first-pf", "set -o pipefail; %R | true; echo \"p:$?\""},
			c26FuncNS{"bg", "%R & wait $!; echo \"bg:$?\""},
			c26FuncNS{"and-chain", "st 0 && %R && echo no-chain"},
			c26FuncNS{"or-chain", "st 2 || %R || echo no-chain"},
			c26FuncNS{"cstyle", "for ((i=0; i<2; i++)); do %R; done"},
			c26FuncNS{"dbl-eval", "eval \"eval '%R'\"; echo no-eval"},
			c26FuncNS{"nested-fn-twice", "g() { %R; }; g; g; echo \"g:$?\""},
			c26FuncNS{"negated", "! %R"},
			c26FuncNS{"pipe-last", "true | %R"},
		)
	}
	callers := []c26FuncNS{
		{"plain", "f; echo \"c1:$?\""},
		{"andor", "f && echo \"c2T:$?\" || echo \"c2F:$?\""},
		{"if", "if f; then echo \"c3T:$?\"; else echo \"c3F:$?\"; fi"},
		{"cmdsubst", "y=$(f); echo \"c4:$? [$y]\""},
		{"loop", "for k in 1 2; do f; echo \"c5.$k:$?\"; done"},
		{"negated", "! f; echo \"c6:$?\""},
		{"subshell", "( f; echo \"c7in:$?\" ); echo \"c7:$?\""},
		{"last", "f"}, // the program's status is f's
	}
	packed := ""
	for _, c := range callers {
		packed += c.src + "\n"
	}
	packed = strings.TrimSuffix(packed, "\n")
	for _, r := range rets {
		for _, p := range places {
			body := "echo in; st 4; " + c26FuncSub(p.src, "%R", r.src) + "; echo \"after:$?\""
			pre := c26FuncSt + "r=5\nf() { " + body + "; }\n"
			emit("fxret-place["+r.name+" "+p.name+" callers=all]", pre+packed+"\n")
			if thorough && (r.name == "none" || r.name == "3") {
				for _, c := range callers {
					emit("fxret-place["+r.name+" "+p.name+" caller="+c.name+"]", pre+c.src+"\n")
				}
			}
		}
	}
	// outside a function (bash: an error, status 2 in 5.2, the script goes on)
	tops := []c26FuncNS{
		{"plain", "%R"},
		{"subshell", "( %R; echo \"in:$?\" )"},
		{"group", "{ %R; echo \"in:$?\"; }"},
	}
	for _, t := range tops {
		rs := rets[2:3]
		if thorough {
			rs = rets
		}
		for _, r := range rs {
			emit("fxret-toplevel["+r.name+" "+t.name+"]", c26FuncSt+"r=5\nst 4; "+c26FuncSub(t.src, "%R", r.src)+"; echo \"after:$?\"\n")
		}
	}
}

// ---------------------------------------------------------------- scope

func c26FuncScope(thorough bool, emit c26EmitFn) {
	type decl struct{ name, src, call string }
	decls := []decl{
		{"none", ":", "callee"},
		{"local", "local x=C", "callee"},
		{"local-self", "local x=\"${x-U}c\"", "callee"},
		{"declare", "declare x=C", "callee"},
		{"declare-g", "declare -g x=C", "callee"},
		{"assign", "x=C", "callee"},
		{"local-unset", "local x=C; unset x", "callee"},
		{"tempenv", ":", "x=T callee"},
	}
	if thorough {
		decls = append(decls,
			decl{"export", "export x=C", "callee"},
			decl{"local-export", "local -x x=C", "callee"},
			decl{"local-tempenv", "local x=C", "x=T callee"},
			decl{"local-two", "local x=C x=D", "callee"},
			decl{"local-append", "local x=C; x+=c", "callee"},
			decl{"local-in-sub", "( local x=S; show rs ); :", "callee"},
			decl{"typeset", "typeset x=C", "callee"},
			decl{"local-readonly", "local -r x=C", "callee"},
		)
	}
	acts := []c26FuncNS{
		{"read", ":"},
		{"assign", "x=K"},
		{"append", "x+=K"},
		{"local", "local x=K"},
		{"local-self", "local x=\"${x-U}k\""},
		{"unset", "unset x"},
		{"local-unset", "local x=K; unset x"},
	}
	if thorough {
		acts = append(acts,
			c26FuncNS{"unset-twice", "unset x; unset x"},
			c26FuncNS{"unset-v", "unset -v x"},
			c26FuncNS{"unset-assign", "unset x; x=K"},
			c26FuncNS{"declare-g", "declare -g x=K"},
			c26FuncNS{"declare", "declare x=K"},
			c26FuncNS{"export", "export x=K"},
			c26FuncNS{"local-then-g", "local x=K; declare -g x=GG"},
			c26FuncNS{"third-fn-assign", "local x=K; h() { x=H; }; h"},
			c26FuncNS{"third-fn-unset", "local x=K; h() { unset x; }; h"},
			c26FuncNS{"third-fn-local", "h() { local x=H; show h; }; h"},
			c26FuncNS{"local-r", "local -r x=K"},
			c26FuncNS{"read-builtin", "read x <<< K"},
			c26FuncNS{"for-var", "for x in K; do :; done"},
			c26FuncNS{"sub-assign", "( x=K; show e-in )"},
			c26FuncNS{"tempenv-self", "x=K show e-t"},
			c26FuncNS{"local-empty", "local x="},
		)
	}
	inits := []c26FuncNS{{"set", "x=G\n"}}
	if thorough {
		inits = append(inits, c26FuncNS{"unset", ""})
	}
	for _, in := range inits {
		for _, d := range decls {
			for _, a := range acts {
				if !c26FuncScopeKeep(d.name, a.name) {
					continue
				}
				src := "show() { echo \"$1:${x-U}\"; }\n" + in.src +
					"callee() { show e0; " + a.src + "; show e1; ( show e-sub ); y=$(show e-cs); echo \"$y\"; }\n" +
					"caller() { " + d.src + "; show r0; " + d.call + "; show r1; }\n" +
					"caller; show top\n"
				emit("fxscope-var[global="+in.name+" caller="+d.name+" callee="+a.name+"]", src)
			}
		}
	}
}

// c26FuncScopeKeep leaves out combinations that only repeat a recorded defect
// or are error paths: `declare -g` while a function in the call chain has a
// local of that name assigns that local (recorded once: caller=local
// callee=declare-g, caller=none callee=local-then-g); a variable of the
// temporary environment of a function call (`x=T callee`) is not a scope of
// its own (recorded once: caller=tempenv callee=unset; bash also copies an
// export/readonly of such a variable to the global scope); assigning or
// shadowing a readonly local is an error that ends the script in bash.
func c26FuncScopeKeep(decl, act string) bool {
	switch act {
	case "declare-g":
		return decl == "none" || decl == "assign" || decl == "local"
	case "local-then-g":
		return decl == "none"
	}
	switch decl {
	case "tempenv":
		switch act {
		case "read", "assign", "append", "local", "local-self", "unset":
			return true
		}
		return false
	case "local-tempenv":
		switch act {
		case "read", "assign", "append", "local", "local-self":
			return true
		}
		return false
	case "local-readonly":
		return act == "read"
	}
	return true
}

// ---------------------------------------------------------------- positional parameters

func c26FuncPos(thorough bool, emit c26EmitFn) {
	args := []c26FuncNS{
		{"none", ""},
		{"one", "a"},
		{"three", "a b c"},
		{"spaced", "\"a b\" c"},
	}
	if thorough {
		args = append(args,
			c26FuncNS{"empty-first", "\"\" x"},
			c26FuncNS{"empty-mid", "a \"\" b"},
			c26FuncNS{"only-empty", "\"\""},
			c26FuncNS{"ten", "1 2 3 4 5 6 7 8 9 t e"},
		)
	}
	ops := []c26FuncNS{
		{"none", ":"},
		{"shift", "shift"},
		{"shift-2", "shift 2"},
		{"shift-5", "shift 5"},
		{"set-z", "set -- z"},
		{"set-empty", "set --"},
		{"pass-at", "g \"$@\""},
		{"pass-star", "g \"$*\""},
		{"pass-bare", "g $@"},
	}
	if thorough {
		ops = append(ops,
			c26FuncNS{"shift-0", "shift 0"},
			c26FuncNS{"shift-n", "shift $#"},
			c26FuncNS{"set-append", "set -- \"$@\" q"},
			c26FuncNS{"set-no-dashes", "set y z"},
			c26FuncNS{"pass-affix", "g \"x$@y\""},
			c26FuncNS{"pass-slice", "g \"${@:2}\""},
			c26FuncNS{"pass-slice-len", "g \"${@:1:1}\""},
			c26FuncNS{"pass-twice", "g \"$@\" \"$@\""},
			c26FuncNS{"pass-bare-star", "g $*"},
			c26FuncNS{"pass-ifs", "IFS=:; g \"$*\"; g $*; unset IFS"},
			c26FuncNS{"in-subshell", "( shift; echo \"sub:$#\" )"},
			c26FuncNS{"in-cmdsubst", "y=$(shift; echo \"cs:$#\"); echo \"$y\""},
			c26FuncNS{"nested-set", "h() { set -- hh; }; h r"},
			c26FuncNS{"count-10", "echo \"[${10-U}] [$10]\""},
			c26FuncNS{"last", "echo \"[${!#}]\""},
			c26FuncNS{"assign-at", "v=\"$@\"; echo \"[$v]\"; v=$*; echo \"[$v]\""},
			c26FuncNS{"for-default", "for a; do echo \"d<$a>\"; done"},
		)
	}
	const view = "echo \"n=$# 1=[${1-U}] 2=[${2-U}] *=[$*]\"; for a in \"$@\"; do echo \"<$a>\"; done"
	keep := func(a, o string) bool {
		switch o {
		case "pass-affix": // "x$@y" is joined into one field (recorded): one program
			return a == "one" || a == "three"
		case "pass-ifs": // empty fields under a non-default IFS: C22/C23
			return !strings.Contains(a, "empty")
		case "last": // ${!#} with no parameters is $0
			return a != "none"
		}
		return true
	}
	for _, a := range args {
		for _, o := range ops {
			if !keep(a.name, o.name) {
				continue
			}
			src := "g() { echo \"g:$#\"; for a in \"$@\"; do echo \"g<$a>\"; done; }\n" +
				"f() { " + view + "; " + o.src + "; echo \"op:$?\"; " + view + "; }\n" +
				"set -- P Q\nf " + a.src + "\necho \"top:$# [$*]\"\n"
			emit("fxpos-fn[args="+a.name+" op="+o.name+"]", src)
		}
	}
	if thorough {
		// the same operations at top level (no function)
		for _, a := range args {
			for _, o := range ops {
				if !keep(a.name, o.name) || o.name == "pass-affix" {
					continue
				}
				src := "g() { echo \"g:$#\"; for a in \"$@\"; do echo \"g<$a>\"; done; }\n" +
					"set -- " + a.src + "\n" + view + "\n" + o.src + "; echo \"op:$?\"\n" + view + "\n"
				emit("fxpos-top[args="+a.name+" op="+o.name+"]", src)
			}
		}
	}
}

// ---------------------------------------------------------------- errexit

// c26FuncFailPos: the positions of a failing command; %F = the failing command.
func c26FuncFailPos(thorough bool) []c26FuncNS {
	pos := []c26FuncNS{
		{"plain", "%F"},
		{"and-left", "%F && echo no-and"},
		{"or-left", "%F || echo alt"},
		{"and-last", "st 0 && %F"},
		{"or-last", "st 4 || %F"},
		{"if-cond", "if %F; then echo T; fi"},
		{"if-body", "if true; then %F; fi"},
		{"while-cond", "while %F; do echo no-while; done"},
		{"until-cond", "until %F; do echo body; break; done"},
		{"not", "! %F"},
		{"not-true", "! st 0"},
		{"group", "{ %F; echo ing; }"},
		{"group-or", "{ %F; echo ing; } || echo alt"},
		{"for-body", "for i in 1 2; do %F; echo i$i; done"},
		{"case-body", "case a in a) %F;; esac"},
		{"fn-plain", "f() { %F; echo inf; }; f"},
		{"fn-last", "f() { echo inf; %F; }; f"},
		{"fn-cond", "f() { %F; echo inf; }; if f; then echo T; fi"},
		{"fn-or", "f() { %F; echo inf; }; f || echo alt"},
		{"fn-and", "f() { %F; echo inf; }; f && echo T"},
		{"subshell", "( %F; echo insub )"},
		{"subshell-or", "( %F; echo insub ) || echo alt"},
		{"cs-assign", "x=$( %F; echo a); echo \"x=$x\""},
		{"cs-assign-last", "x=$(echo a; %F); echo \"x=$x\""},
		{"local-cs", "f() { local x=$( %F); echo \"inf:$?\"; }; f"},
		{"local-then-cs", "f() { local x=1; x=$( %F); echo \"inf:$?\"; }; f"},
		{"pipe-first", "%F | true"},
		{"pipe-last", "true | %F"},
		{"pipe-first-pf", "set -o pipefail; %F | true"},
		{"eval", "eval '%F; echo ineval'"},
	}
	if thorough {
		pos = append(pos,
			c26FuncNS{"and-mid", "st 0 && %F && echo no-and"},
			c26FuncNS{"or-and", "%F || st 5 && echo no"},
			c26FuncNS{"and-or-last", "st 0 && %F || st 6"},
			c26FuncNS{"elif-cond", "if st 1; then echo T1; elif %F; then echo T2; fi"},
			c26FuncNS{"else-body", "if st 1; then echo T1; else %F; fi"},
			c26FuncNS{"while-body", "while true; do %F; echo inw; break; done"},
			c26FuncNS{"not-group", "! { %F; echo ing; }"},
			c26FuncNS{"fn-not", "f() { %F; echo inf; }; ! f"},
			c26FuncNS{"fn-return", "f() { return 3; }; f"},
			c26FuncNS{"fn-in-fn-cond", "f() { %F; echo inf; }; h() { f; echo inh; }; if h; then echo T; fi"},
			c26FuncNS{"fn-while-cond", "f() { %F; echo inf; }; while f; do break; done"},
			c26FuncNS{"subshell-cond", "if ( %F; echo insub ); then echo T; fi"},
			c26FuncNS{"subshell-not", "! ( %F; echo insub )"},
			c26FuncNS{"subshell-last", "( echo insub; %F )"},
			c26FuncNS{"cs-arg", "echo \"a$( %F; echo b)\""},
			c26FuncNS{"cs-only", "x=$( %F)"},
			c26FuncNS{"cs-cond", "if x=$( %F; echo a); then echo \"T$x\"; fi"},
			c26FuncNS{"export-cs", "export x=$( %F); echo \"e:$?\""},
			c26FuncNS{"declare-cs", "declare x=$( %F); echo \"d:$?\""},
			c26FuncNS{"readonly-cs", "readonly x=$( %F); echo \"r:$?\""},
			c26FuncNS{"pipe-last-pf", "set -o pipefail; true | %F"},
			c26FuncNS{"pipe-mid-pf", "set -o pipefail; true | %F | true"},
			c26FuncNS{"pipe-not", "! %F | true"},
			c26FuncNS{"pipe-cond", "if %F | %F; then echo T; fi"},
			c26FuncNS{"bg", "%F & wait"},
			c26FuncNS{"bg-wait", "%F & wait $!"},
			c26FuncNS{"group-and", "{ %F; echo ing; } && echo T"},
			c26FuncNS{"group-cond", "if { %F; echo ing; }; then echo T; fi"},
			c26FuncNS{"eval-or", "eval '%F; echo ineval' || echo alt"},
			c26FuncNS{"set+e", "set +e; %F; echo \"off:$?\"; set -e; %F; echo no"},
			c26FuncNS{"sete-in-fn", "set +e; f() { set -e; %F; echo inf; }; f; echo no"},
			c26FuncNS{"sete-in-sub", "set +e; ( set -e; %F; echo insub ); echo \"sub:$?\""},
			c26FuncNS{"sete-in-cond-fn", "set +e; f() { set -e; %F; echo inf; }; if f; then echo T; fi; %F; echo no"},
			c26FuncNS{"case-cond-fn", "f() { %F; echo inf; }; case $(f) in inf) echo m;; *) echo n;; esac"},
			c26FuncNS{"trap-exit", "trap 'echo \"T:$?\"' EXIT; %F"},
			c26FuncNS{"heredoc-cs", "read x <<EOF\n$( %F; echo a)\nEOF\necho \"x=$x\""},
		)
	}
	return pos
}

func c26FuncErrexit(thorough bool, emit c26EmitFn) {
	fails := []c26FuncNS{{"st3", "st 3"}}
	if thorough {
		fails = append(fails,
			c26FuncNS{"false", "false"},
			c26FuncNS{"dbr", "[[ a == b ]]"},
			c26FuncNS{"arith", "(( 0 ))"},
			c26FuncNS{"test", "[ a = b ]"},
			c26FuncNS{"assign-cs", "z=$(st 3)"},
			c26FuncNS{"let", "let 0"},
		)
	}
	// %B = marker; body; marker
	wraps := []c26FuncNS{
		{"top", "%B"},
		{"fn", "w() { %B; }; w; echo \"w:$?\""},
		{"fn-cond", "w() { %B; }; if w; then echo wT; else echo wF; fi"},
	}
	if thorough {
		wraps = append(wraps,
			c26FuncNS{"fn-or", "w() { %B; }; w || echo \"walt:$?\""},
			c26FuncNS{"subshell", "( %B ); echo \"sub:$?\""},
			c26FuncNS{"cmdsubst", "v=$( %B ); echo \"cs:$? [$v]\""},
			c26FuncNS{"loop", "for k in 1 2; do %B; done"},
		)
	}
	quickFnCond := map[string]bool{"plain": true, "and-last": true, "group": true, "fn-plain": true, "fn-last": true, "subshell": true, "cs-assign": true, "local-then-cs": true, "pipe-last": true, "eval": true, "for-body": true, "if-body": true}
	quickFn := map[string]bool{"plain": true, "and-last": true, "or-last": true, "fn-last": true, "subshell": true, "not": true}
	for _, w := range wraps {
		for _, p := range c26FuncFailPos(thorough) {
			if !thorough && w.name == "fn-cond" && !quickFnCond[p.name] {
				continue
			}
			if !thorough && w.name == "fn" && !quickFn[p.name] {
				continue
			}
			for _, f := range fails {
				if strings.Contains(p.src, "\n") && w.name != "top" {
					continue // here-document: only as a statement list of its own
				}
				if p.name == "readonly-cs" && w.name == "loop" {
					continue // the second iteration assigns a readonly variable: an error path
				}
				if w.name != "top" && f.name != "st3" {
					continue // the kinds of failing command: at top level only
				}
				body := "echo before; " + c26FuncSub(p.src, "%F", f.src) + "; echo \"after:$?\""
				src := "set -e\n" + c26FuncSt + c26FuncSub(w.src, "%B", body) + "\necho \"end:$?\"\n"
				emit("fxerrexit-pos["+w.name+" "+p.name+" fail="+f.name+"]", src)
			}
		}
	}
}

// ---------------------------------------------------------------- EXIT trap

func c26FuncExitTrap(thorough bool, emit c26EmitFn) {
	// %H = handler text (inside single quotes)
	setups := []c26FuncNS{
		{"top", "trap '%H' EXIT"},
		{"in-fn", "t() { trap '%H' EXIT; }; t"},
		{"replaced", "trap 'echo old' EXIT; trap '%H' EXIT"},
		{"reset", "trap '%H' EXIT; trap - EXIT"},
		{"ignored", "trap '%H' EXIT; trap '' EXIT"},
		{"handler-fn", "h() { %H; }; trap h EXIT"},
	}
	if thorough {
		setups = append(setups,
			c26FuncNS{"sig-0", "trap '%H' 0"},
			c26FuncNS{"in-group", "{ trap '%H' EXIT; }"},
			c26FuncNS{"in-subshell-only", "( trap '%H' EXIT ); echo \"par:$?\""},
			c26FuncNS{"in-cmdsubst-only", "x=$(trap '%H' EXIT); echo \"par:$? [$x]\""},
			c26FuncNS{"in-eval", "eval \"trap '%H' EXIT\""},
			c26FuncNS{"set-in-trap", "trap 'trap - EXIT; %H' EXIT"},
			c26FuncNS{"reset-then-set", "trap 'echo old' EXIT; trap - EXIT; trap '%H' EXIT"},
		)
	}
	handlers := []c26FuncNS{
		{"echo", "echo \"T:$? v=$v\""},
		{"fail-last", "echo \"T:$?\"; st 6"},
		{"exit-7", "echo \"T:$?\"; exit 7"},
		{"exit-noarg", "echo \"T:$?\"; st 6; exit"},
		{"status-inside", "false; echo \"T:$? v=$v\"; v=t"},
	}
	if thorough {
		handlers = append(handlers,
			c26FuncNS{"exit-0", "echo \"T:$?\"; exit 0"},
			c26FuncNS{"subshell-exit", "echo \"T:$?\"; ( exit 8 )"},
			c26FuncNS{"errexit-in-trap", "echo \"T:$?\"; set -e; st 6; echo no-trap"},
			c26FuncNS{"two-echo", "echo \"T1:$?\"; echo \"T2:$?\""},
			c26FuncNS{"cmdsubst", "s=$?; y=$(echo in-trap); echo \"T:$s $y\""},
		)
	}
	ends := []c26FuncNS{
		{"fall-0", "st 0"},
		{"fall-3", "st 3"},
		{"exit-5", "exit 5; echo no"},
		{"exit-noarg", "st 3; exit; echo no"},
		{"errexit", "set -e; st 3; echo no"},
		{"fn-return", "f() { return 3; }; f"},
		{"fn-exit", "f() { exit 4; }; f; echo no"},
		{"sub-exit", "( exit 4 ); echo \"s:$?\""},
		{"sub-last", "( echo insub; exit 4 )"},
		{"cs-exit", "x=$(echo incs; exit 4); echo \"c:$? [$x]\""},
		{"eval-exit", "eval 'exit 5'; echo no"},
	}
	if thorough {
		ends = append(ends,
			c26FuncNS{"exit-256", "exit 256"},
			c26FuncNS{"exit-in-loop", "for i in 1 2; do echo $i; exit 5; done"},
			c26FuncNS{"exit-in-cond", "if exit 5; then echo no; fi"},
			c26FuncNS{"exit-in-and", "st 0 && exit 5; echo no"},
			c26FuncNS{"exit-in-group", "{ exit 5; echo no; }; echo no"},
			c26FuncNS{"exit-in-pipe-first", "exit 5 | true; echo \"p:$?\""},
			c26FuncNS{"exit-in-pipe-last", "true | exit 5; echo \"p:$?\""},
			c26FuncNS{"exit-in-bg", "exit 5 & wait $!; echo \"b:$?\""},
			c26FuncNS{"errexit-in-fn", "set -e; f() { st 3; echo no; }; f; echo no"},
			c26FuncNS{"errexit-in-sub", "set -e; ( st 3; echo no ); echo no"},
			c26FuncNS{"nounset", "set -u; echo \"$nope\"; echo no"},
			c26FuncNS{"cs-last", "x=$(exit 4)"},
			c26FuncNS{"fn-in-sub", "f() { exit 4; }; ( f ); echo \"s:$?\""},
			c26FuncNS{"sub-own-trap", "( trap 'echo \"S:$?\"' EXIT; exit 4 ); echo \"s:$?\""},
			c26FuncNS{"sub-reset-trap", "( trap - EXIT; exit 4 ); echo \"s:$?\""},
			c26FuncNS{"sub-fall", "( st 4 ); echo \"s:$?\""},
			c26FuncNS{"exit-var", "s=9; exit $s"},
			c26FuncNS{"exit-status", "st 3; exit $?"},
		)
	}
	gen := func(s, h, e c26FuncNS) {
		src := c26FuncSt + "v=1\n" + c26FuncSub(s.src, "%H", h.src) + "\nv=2\necho body\n" + e.src + "\n"
		emit("fxexittrap-end[set="+s.name+" handler="+h.name+" end="+e.name+"]", src)
	}
	if thorough {
		for _, s := range setups {
			for _, h := range handlers {
				if s.name != "top" && h.name != "echo" {
					continue
				}
				for _, e := range ends {
					gen(s, h, e)
				}
			}
		}
		return
	}
	for _, e := range ends {
		gen(setups[0], handlers[0], e)
	}
	q3 := []c26FuncNS{ends[1], ends[2], ends[4]}
	for _, s := range setups[1:] {
		for _, e := range q3 {
			gen(s, handlers[0], e)
		}
	}
	for _, h := range handlers[1:] {
		for _, e := range q3 {
			gen(setups[0], h, e)
		}
	}
}

// ---------------------------------------------------------------- ERR trap

func c26FuncErrTrap(thorough bool, emit c26EmitFn) {
	// positions without any function or subshell: the failing command is `false`
	flat := []c26FuncNS{
		{"plain", "%F"},
		{"and-left", "%F && echo no-and"},
		{"or-left", "%F || echo alt"},
		{"and-last", "true && %F"},
		{"or-last", "%F || %F"},
		{"if-cond", "if %F; then echo T; fi"},
		{"if-body", "if true; then %F; fi"},
		{"while-cond", "while %F; do echo no-while; done"},
		{"until-cond", "until %F; do echo body; break; done"},
		{"not", "! %F"},
		{"not-true", "! true"},
		{"group", "{ %F; echo ing; }"},
		{"group-last", "{ echo ing; %F; }"},
		{"group-or", "{ %F; echo ing; } || echo alt"},
		{"for-body", "for i in 1 2; do %F; echo i$i; done"},
		{"case-body", "case a in a) %F; echo inc;; esac"},
		{"cs-assign", "x=$( %F; echo a); echo \"x=$x\""},
		{"cs-assign-last", "x=$(echo a; %F); echo \"x=$x\""},
		{"pipe-first", "%F | true"},
		{"pipe-last", "true | %F"},
		{"pipe-first-pf", "set -o pipefail; %F | true"},
		{"eval", "eval '%F; echo ineval'"},
		{"twice", "%F; %F"},
	}
	// positions with functions / subshells
	deep := []c26FuncNS{
		{"fn-plain", "f() { %F; echo inf; }; f"},
		{"fn-last", "f() { echo inf; %F; }; f"},
		{"fn-cond", "f() { %F; echo inf; }; if f; then echo T; fi"},
		{"subshell", "( %F; echo insub )"},
		{"subshell-last", "( echo insub; %F )"},
		{"fn-return", "f() { return 3; }; f"},
		{"trap-in-fn", "f() { trap 'echo \"ERR-F:$?\"' ERR; }; f; %F"},
		{"fn-or", "f() { %F; echo inf; }; f || echo alt"},
	}
	opts := []c26FuncNS{
		{"none", ""},
		{"e", "set -e\n"},
	}
	// (set -E / set -o errtrace is rejected by the interpreter as an invalid
	// option: an unsupported feature, shown once by fxerrtrap-errtrace)
	deepOpts := []c26FuncNS{
		{"none", ""},
	}
	if thorough {
		deepOpts = append(deepOpts, c26FuncNS{"e", "set -e\n"})
		emit("fxerrtrap-errtrace[set -E]", "set -E; echo \"E:$?\"; set -o errtrace; echo \"o:$?\"\n")
	}
	traps := []c26FuncNS{
		{"echo", "trap 'echo \"ERR:$?\"' ERR"},
	}
	if thorough {
		traps = append(traps,
			c26FuncNS{"reset", "trap 'echo \"ERR:$?\"' ERR; trap - ERR"},
			c26FuncNS{"ignored", "trap '' ERR"},
			c26FuncNS{"replaced", "trap 'echo old' ERR; trap 'echo \"ERR:$?\"' ERR"},
			c26FuncNS{"setvar", "trap 'n=x$n; echo \"ERR:$? n=$n\"' ERR"},
			c26FuncNS{"failing-handler", "trap 'echo \"ERR:$?\"; false' ERR"},
			c26FuncNS{"with-exit-trap", "trap 'echo \"X:$?\"' EXIT; trap 'echo \"ERR:$?\"' ERR"},
			c26FuncNS{"exit-in-handler", "trap 'echo \"ERR:$?\"; exit 9' ERR"},
		)
	}
	gen := func(o, t, p c26FuncNS, fail string) {
		src := o.src + "n=0\n" + t.src + "\necho before\n" + c26FuncSub(p.src, "%F", fail) + "\necho \"after:$? n=$n\"\n"
		emit("fxerrtrap-pos[opt="+o.name+" trap="+t.name+" "+p.name+"]", src)
	}
	for _, t := range traps {
		for _, o := range opts {
			for _, p := range flat {
				if t.name == "setvar" {
					// the handler's output differs from run to run, so the recorded
					// repetition of the ERR trap would not be recognised: only
					// positions where the trap runs once
					switch p.name {
					case "plain", "and-left", "and-last", "or-left", "or-last", "not", "not-true", "twice", "cs-assign", "if-cond", "while-cond":
					default:
						continue
					}
				}
				if !thorough && o.name == "e" {
					switch p.name {
					case "plain", "and-last", "or-left", "if-body", "group", "cs-assign", "pipe-last", "not", "twice":
					default:
						continue
					}
				}
				gen(o, t, p, "false")
			}
		}
		for _, o := range deepOpts {
			if t.name == "setvar" {
				continue
			}
			for _, p := range deep {
				if !thorough && (p.name == "subshell-last" || p.name == "fn-or" || p.name == "fn-return") {
					continue
				}
				gen(o, t, p, "false")
			}
		}
	}
}
