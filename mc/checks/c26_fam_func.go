package checks

// Family group "Func" of C26 (see C26_FAMILY_BRIEF.md). Emits programs through
// emit(desc, src); desc starts with the family name and a dash.
func c26GenFunc(thorough bool, emit c26EmitFn) {
}
