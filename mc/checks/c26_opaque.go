package checks

import (
	"regexp"
	"strconv"
	"strings"

	"mvdan.cc/sh/v3/syntax"
)

// Opaque families: a narrow syntactic trigger (the construct the interpreter
// is known to treat differently from bash). They are consulted only for a
// program that disagrees with bash and that no set of transparent repairs
// explains; the first family in this order whose trigger occurs names the
// class.

func c26HasErrexit(f *syntax.File, src string) bool {
	on := false
	c26WalkStmts(f, func(st *syntax.Stmt, _ []syntax.Node) {
		ce, ok := st.Cmd.(*syntax.CallExpr)
		if !ok || c26CallName(st) != "set" {
			return
		}
		for _, a := range ce.Args[1:] {
			if l := a.Lit(); strings.HasPrefix(l, "-") && !strings.HasPrefix(l, "--") && strings.Contains(l, "e") {
				on = true
			}
		}
	})
	return on
}

func c26TrapText(f *syntax.File, sig string) []string {
	var out []string
	c26WalkStmts(f, func(st *syntax.Stmt, _ []syntax.Node) {
		ce, ok := st.Cmd.(*syntax.CallExpr)
		if !ok || c26CallName(st) != "trap" || len(ce.Args) < 3 || ce.Args[len(ce.Args)-1].Lit() != sig {
			return
		}
		out = append(out, c26Print(ce.Args[1]))
	})
	return out
}

// loopDepth counts the loops enclosing a statement inside its function (or
// the whole program).
func c26LoopDepth(stack []syntax.Node) (depth int, inFunc bool) {
	for _, n := range stack {
		switch n.(type) {
		case *syntax.FuncDecl:
			depth, inFunc = 0, true
		case *syntax.WhileClause, *syntax.ForClause:
			depth++
		}
	}
	return depth, inFunc
}

var c26ArithElemRx = regexp.MustCompile(`\(\([^)]*[A-Za-z_]\w*\[[^\]]*\]\s*(\+\+|--|[-+*/%]?=[^=])`)

// c26Direction holds the observed results for families whose predicate
// includes the direction of the divergence; set by c26Classify.
type c26Observed struct {
	iout, bout string
	ist, bst   int
}

var c26OpaqueDirected = []struct {
	name    string
	trigger func(f *syntax.File, src string, o c26Observed) bool
}{
	{
		// both shells fail with the same output but a different non-zero
		// status (usage errors of builtins: test, getopts, shift, ...)
		"error-status-value-differs",
		func(f *syntax.File, src string, o c26Observed) bool {
			return o.iout == o.bout && o.ist != 0 && o.bst != 0 && o.ist != o.bst
		},
	},
	{
		// arithmetic evaluation differences belong to C20 (division by zero in
		// a short-circuited operand, negative exponent, ...): same stdout,
		// bash fails, the interpreter does not
		"arithmetic-error-not-reported-see-C20",
		func(f *syntax.File, src string, o c26Observed) bool {
			return (strings.Contains(src, "$((") || strings.Contains(src, "((") || strings.Contains(src, "let ")) && o.bst != 0 && o.ist == 0
		},
	},
	{
		// printf/echo option and format details belong to C24
		"printf-echo-details-see-C24",
		func(f *syntax.File, src string, o c26Observed) bool {
			found := false
			c26WalkStmts(f, func(st *syntax.Stmt, _ []syntax.Node) {
				ce, ok := st.Cmd.(*syntax.CallExpr)
				if !ok || (c26CallName(st) != "printf" && c26CallName(st) != "echo") || len(ce.Args) < 2 {
					return
				}
				if a := c26Print(ce.Args[1]); strings.HasPrefix(a, "-") || strings.Contains(a, "\\") || strings.Contains(a, "%") {
					found = true
				}
			})
			return found
		},
	},
}

var c26Opaque = []struct {
	name    string
	trigger func(f *syntax.File, src string) bool
}{
	{
		// unset 'name[sub]' run by a function on an array that is local to one
		// of its callers removes the element from a copy that is local to the
		// callee: the caller still sees the element (Runner.unsetElem passes
		// the variable on with its Local flag, unlike a naked assignment)
		"unset-element-of-callers-local-array-stays-in-callee",
		func(f *syntax.File, src string) bool {
			// names declared local per function, names whose element is unset per function
			locals := map[*syntax.FuncDecl]map[string]bool{}
			unsets := map[*syntax.FuncDecl]map[string]bool{}
			add := func(m map[*syntax.FuncDecl]map[string]bool, fn *syntax.FuncDecl, name string) {
				if m[fn] == nil {
					m[fn] = map[string]bool{}
				}
				m[fn][name] = true
			}
			c26WalkStmts(f, func(st *syntax.Stmt, stack []syntax.Node) {
				var fn *syntax.FuncDecl
				for _, n := range stack {
					if d, ok := n.(*syntax.FuncDecl); ok {
						fn = d // innermost
					}
				}
				if fn == nil {
					return
				}
				switch cm := st.Cmd.(type) {
				case *syntax.DeclClause:
					if cm.Variant.Value == "local" || cm.Variant.Value == "declare" {
						for _, a := range cm.Args {
							if a.Name != nil {
								add(locals, fn, a.Name.Value)
							}
						}
					}
				case *syntax.CallExpr:
					if c26CallName(st) != "unset" {
						return
					}
					for _, a := range cm.Args[1:] {
						w := strings.Trim(c26Print(a), "'\"")
						if name, _, ok := strings.Cut(w, "["); ok && strings.HasSuffix(w, "]") {
							add(unsets, fn, name)
						}
					}
				}
			})
			for fn, names := range unsets {
				for name := range names {
					if locals[fn][name] {
						continue
					}
					for other, l := range locals {
						if other != fn && l[name] {
							return true
						}
					}
				}
			}
			return false
		},
	},
	{
		// $PIPESTATUS is not implemented (expands to nothing)
		"pipestatus-unsupported",
		func(f *syntax.File, src string) bool { return strings.Contains(src, "PIPESTATUS") },
	},
	{
		// `! { ...; exit N; }`: the interpreter applies the negation to the
		// status the shell exits with (exit 0 becomes 1)
		"negation-applied-to-status-of-exit-inside",
		func(f *syntax.File, src string) bool {
			found := false
			c26WalkStmts(f, func(st *syntax.Stmt, stack []syntax.Node) {
				if n := c26CallName(st); n != "exit" && n != "return" {
					return
				}
				neg := false
				for _, n := range stack {
					switch n := n.(type) {
					case *syntax.Stmt:
						if n.Negated {
							neg = true
						}
					case *syntax.Subshell, *syntax.CmdSubst, *syntax.FuncDecl:
						neg = false // the exit/return ends that subshell or function, not the negated command
					}
				}
				if neg {
					found = true
				}
			})
			return found
		},
	},
	{
		// break/continue in the condition list of a while/until loop is
		// ignored by the interpreter (bash leaves / restarts that loop)
		"break-continue-in-loop-condition-ignored",
		func(f *syntax.File, src string) bool {
			found := false
			syntax.Walk(f, func(n syntax.Node) bool {
				w, ok := n.(*syntax.WhileClause)
				if !ok {
					return true
				}
				for _, st := range w.Cond {
					syntax.Walk(st, func(m syntax.Node) bool {
						if ce, ok := m.(*syntax.CallExpr); ok && len(ce.Args) > 0 {
							if l := ce.Args[0].Lit(); l == "break" || l == "continue" {
								found = true
							}
						}
						return true
					})
				}
				return true
			})
			return found
		},
	},
	{
		// `break 0`, `continue 0`, non-numeric and negative counts: bash reports
		// an error (status 1 or 128, leaving the loop / the shell); the
		// interpreter treats them as a no-op or a different status
		"break-continue-invalid-count",
		func(f *syntax.File, src string) bool {
			found := false
			c26WalkStmts(f, func(st *syntax.Stmt, _ []syntax.Node) {
				ce, ok := st.Cmd.(*syntax.CallExpr)
				if n := c26CallName(st); !ok || (n != "break" && n != "continue") || len(ce.Args) < 2 {
					return
				}
				if v, err := strconv.Atoi(ce.Args[1].Lit()); err != nil || v <= 0 {
					found = true
				}
			})
			return found
		},
	},
	{
		// break/continue in a function body without a loop of its own: bash 5.2
		// does not let it act on the caller's loop (error message, status 0);
		// the interpreter breaks/continues the caller's loop
		"break-continue-in-function-acts-on-callers-loop",
		func(f *syntax.File, src string) bool {
			found := false
			c26WalkStmts(f, func(st *syntax.Stmt, stack []syntax.Node) {
				if n := c26CallName(st); n != "break" && n != "continue" {
					return
				}
				if d, inFn := c26LoopDepth(stack); inFn && d == 0 {
					found = true
				}
			})
			return found
		},
	},
	{
		// `continue N` / `break N` inside a loop with N larger than the number
		// of enclosing loops: bash acts on the outermost loop; the
		// interpreter's `continue N` leaves all loops, and the unused count
		// leaks into the next loop
		"break-continue-count-beyond-loop-depth",
		func(f *syntax.File, src string) bool {
			found := false
			c26WalkStmts(f, func(st *syntax.Stmt, stack []syntax.Node) {
				ce, ok := st.Cmd.(*syntax.CallExpr)
				if n := c26CallName(st); !ok || (n != "break" && n != "continue") {
					return
				}
				cnt := 1
				if len(ce.Args) > 1 {
					cnt, _ = strconv.Atoi(ce.Args[1].Lit())
				}
				if d, _ := c26LoopDepth(stack); d >= 1 && cnt > d {
					found = true
				}
			})
			return found
		},
	},
	{
		// `return` without argument does not return the status of the last
		// command; `return N` inside a subshell inside a function does not make
		// the subshell exit with N
		"return-without-argument-or-in-subshell-status",
		func(f *syntax.File, src string) bool {
			found := false
			c26WalkStmts(f, func(st *syntax.Stmt, stack []syntax.Node) {
				ce, ok := st.Cmd.(*syntax.CallExpr)
				if !ok || c26CallName(st) != "return" {
					return
				}
				if len(ce.Args) == 1 {
					found = true
				}
				inFn := false
				for _, n := range stack {
					switch n.(type) {
					case *syntax.FuncDecl:
						inFn = true
					case *syntax.Subshell, *syntax.CmdSubst:
						if inFn {
							found = true
						}
					}
				}
			})
			return found
		},
	},
	{
		// `local x` (no value) inside a function keeps showing the outer
		// variable's value instead of being unset
		"local-without-value-keeps-outer-value",
		func(f *syntax.File, src string) bool {
			found := false
			syntax.Walk(f, func(n syntax.Node) bool {
				if d, ok := n.(*syntax.DeclClause); ok && d.Variant.Value == "local" {
					for _, a := range d.Args {
						if a.Name != nil && a.Naked {
							found = true
						}
					}
				}
				return true
			})
			return found
		},
	},
	{
		// file descriptors >= 3 in redirections are not supported
		"redirection-fd-3-or-higher-unsupported",
		func(f *syntax.File, src string) bool {
			found := false
			syntax.Walk(f, func(n syntax.Node) bool {
				if r, ok := n.(*syntax.Redirect); ok {
					if r.N != nil && r.N.Value >= "3" && len(r.N.Value) == 1 {
						found = true
					}
					if (r.Op == syntax.DplOut || r.Op == syntax.DplIn) && r.Word != nil && r.Word.Lit() >= "3" && len(r.Word.Lit()) == 1 && r.Word.Lit() <= "9" {
						found = true
					}
				}
				return true
			})
			return found
		},
	},
	{
		// [[ s =~ "quoted" ]]: bash matches quoted parts literally; the
		// interpreter treats them as regex syntax
		"dbr-regex-quoted-part-not-literal",
		func(f *syntax.File, src string) bool {
			found := false
			syntax.Walk(f, func(n syntax.Node) bool {
				if b, ok := n.(*syntax.BinaryTest); ok && b.Op == syntax.TsReMatch {
					if w, ok := b.Y.(*syntax.Word); ok {
						for _, p := range w.Parts {
							switch p.(type) {
							case *syntax.DblQuoted, *syntax.SglQuoted:
								found = true
							}
						}
					}
				}
				return true
			})
			return found
		},
	},
	{
		// [[ x -eq 3 ]], [[ 1+2 -eq 3 ]]: bash evaluates the operands as
		// arithmetic expressions; the interpreter only accepts integers
		"dbr-arithmetic-operands-not-evaluated",
		func(f *syntax.File, src string) bool {
			found := false
			syntax.Walk(f, func(n syntax.Node) bool {
				if b, ok := n.(*syntax.BinaryTest); ok {
					switch b.Op {
					case syntax.TsEql, syntax.TsNeq, syntax.TsLeq, syntax.TsGeq, syntax.TsLss, syntax.TsGtr:
						for _, x := range []syntax.TestExpr{b.X, b.Y} {
							if w, ok := x.(*syntax.Word); ok {
								if _, err := strconv.Atoi(w.Lit()); err != nil && len(w.Parts) == 1 {
									if _, isLit := w.Parts[0].(*syntax.Lit); isLit {
										found = true
									}
								}
							}
						}
					}
				}
				return true
			})
			return found
		},
	},
	{
		// [[ -v arr[key] ]] is not supported
		"dbr-v-array-element-unsupported",
		func(f *syntax.File, src string) bool {
			found := false
			syntax.Walk(f, func(n syntax.Node) bool {
				if u, ok := n.(*syntax.UnaryTest); ok && u.Op == syntax.TsVarSet {
					if w, ok := u.X.(*syntax.Word); ok && strings.Contains(c26Print(w), "[") {
						found = true
					}
				}
				return true
			})
			return found
		},
	},
	{
		// ${a[-N]} with N beyond the array: bash reports a bad subscript, expands
		// to nothing and goes on; the interpreter drops the whole command
		"negative-array-index-beyond-start",
		func(f *syntax.File, src string) bool {
			found := false
			syntax.Walk(f, func(n syntax.Node) bool {
				if pe, ok := n.(*syntax.ParamExp); ok && pe.Index != nil {
					if u, ok := pe.Index.(*syntax.UnaryArithm); ok && u.Op == syntax.Minus {
						found = true
					}
				}
				return true
			})
			return found
		},
	},
	{
		// getopts: a missing option argument is reported as ":" (the silent-mode
		// answer) where bash, not in silent mode, reports "?"
		"getopts-missing-argument-reported-as-colon",
		func(f *syntax.File, src string) bool {
			found := false
			c26WalkStmts(f, func(st *syntax.Stmt, _ []syntax.Node) {
				if c26CallName(st) == "getopts" {
					found = true
				}
			})
			return found
		},
	},
	{
		// let "a = 5 + 4": an expression containing spaces does not assign
		"let-expression-with-spaces-does-not-assign",
		func(f *syntax.File, src string) bool {
			found := false
			syntax.Walk(f, func(n syntax.Node) bool {
				if l, ok := n.(*syntax.LetClause); ok {
					for _, e := range l.Exprs {
						if strings.Contains(c26Print(e), " ") {
							found = true
						}
					}
				}
				return true
			})
			if strings.Contains(src, "let \"") {
				found = true
			}
			return found
		},
	},
	{
		// a[i]+=v (append to one element) loses or misplaces elements
		"array-element-append",
		func(f *syntax.File, src string) bool {
			found := false
			syntax.Walk(f, func(n syntax.Node) bool {
				if a, ok := n.(*syntax.Assign); ok && a.Append && a.Index != nil {
					found = true
				}
				return true
			})
			return found
		},
	},
	{
		// (( a[i]++ )), (( a[i] += n )): arithmetic assignment to an array
		// element is not supported (documented limitation)
		"arithmetic-assignment-to-array-element-unsupported",
		func(f *syntax.File, src string) bool { return c26ArithElemRx.MatchString(src) },
	},
	{
		// `exit N` inside the EXIT trap, or set -e tripping inside it, does not
		// replace the shell's exit status
		"exit-trap-cannot-change-exit-status",
		func(f *syntax.File, src string) bool {
			for _, t := range c26TrapText(f, "EXIT") {
				if strings.Contains(t, "exit") || strings.Contains(t, "false") {
					return true
				}
			}
			return false
		},
	},
	{
		// an EXIT trap set inside a subshell, command substitution or pipeline
		// stage does not run when that subshell ends
		"exit-trap-set-in-subshell-never-runs",
		func(f *syntax.File, src string) bool {
			found := false
			c26WalkStmts(f, func(st *syntax.Stmt, stack []syntax.Node) {
				ce, ok := st.Cmd.(*syntax.CallExpr)
				if !ok || c26CallName(st) != "trap" || ce.Args[len(ce.Args)-1].Lit() != "EXIT" {
					return
				}
				if c26Inside[*syntax.Subshell](stack) || c26Inside[*syntax.CmdSubst](stack) {
					found = true
				}
				for _, n := range stack {
					if b, ok := n.(*syntax.BinaryCmd); ok && (b.Op == syntax.Pipe || b.Op == syntax.PipeAll) {
						found = true
					}
				}
			})
			return found
		},
	},
	{
		// ERR trap: fires inside function bodies (bash without errtrace does
		// not), for a non-zero `exit`, inside negated commands and inside
		// subshells of exempt contexts, where bash stays silent
		"err-trap-fires-where-bash-exempts",
		func(f *syntax.File, src string) bool {
			if len(c26TrapText(f, "ERR")) == 0 {
				return false
			}
			found := false
			c26WalkStmts(f, func(st *syntax.Stmt, _ []syntax.Node) {
				if st.Negated || c26CallName(st) == "exit" {
					found = true
				}
			})
			syntax.Walk(f, func(n syntax.Node) bool {
				switch n.(type) {
				case *syntax.FuncDecl, *syntax.Subshell:
					found = true
				}
				return true
			})
			return found
		},
	},
	{
		// bash runs the EXIT trap while the redirections of the command that
		// made the shell exit are still in effect (its output lands in the
		// file); the interpreter runs it with the shell's own stdout
		"exit-trap-runs-after-redirections-are-undone",
		func(f *syntax.File, src string) bool {
			if len(c26TrapText(f, "EXIT")) == 0 {
				return false
			}
			found := false
			c26WalkStmts(f, func(st *syntax.Stmt, _ []syntax.Node) {
				if _, ok := st.Cmd.(*syntax.Block); ok && len(st.Redirs) > 0 {
					found = true
				}
			})
			return found
		},
	},
	{
		// set -e: a failure inside `! cmd` (function body, brace group) exits
		// although the negated context exempts it
		"errexit-not-ignored-inside-negated-command",
		func(f *syntax.File, src string) bool {
			if !c26HasErrexit(f, src) {
				return false
			}
			found := false
			c26WalkStmts(f, func(st *syntax.Stmt, _ []syntax.Node) {
				if st.Negated {
					found = true
				}
			})
			return found
		},
	},
	{
		// set -e: a subshell in a condition / && || / ! context must ignore -e
		// inside as well; the interpreter's subshell forgets the exemption
		"errexit-exemption-not-inherited-by-subshell",
		func(f *syntax.File, src string) bool {
			if !c26HasErrexit(f, src) {
				return false
			}
			found := false
			syntax.Walk(f, func(n syntax.Node) bool {
				switch n.(type) {
				case *syntax.Subshell, *syntax.CmdSubst:
					found = true
				}
				if b, ok := n.(*syntax.BinaryCmd); ok && (b.Op == syntax.Pipe || b.Op == syntax.PipeAll) {
					found = true
				}
				return true
			})
			return found
		},
	},
}
