package checks

import (
	"errors"
	"fmt"
	"strings"
	"sync/atomic"

	"mvdan.cc/sh/v3/syntax"

	"verif/mc/synt"
	"verif/mc/vc"
)

// c08FailReader delivers data[:n] and then fails with a non-EOF error, either
// together with the last bytes (same=true) or on the following Read.
type c08FailReader struct {
	data string
	same bool
	done bool
}

var errC08Boom = errors.New("c08 read failure")

func (r *c08FailReader) Read(p []byte) (int, error) {
	if r.done {
		return 0, errC08Boom
	}
	r.done = true
	n := copy(p, r.data)
	if r.same {
		return n, errC08Boom
	}
	return n, nil
}

type c08POp struct {
	Name string
	// Run performs the call; with quiet it skips building the result text
	// (used when replaying a history), but still reports "PANIC ...".
	Run func(p *syntax.Parser, quiet bool) string
	// Stop is set for operations that leave an iterator's loop early.
	Stop string
}

// c08Recover turns a panic of an operation into a result text ("PANIC ...").
func c08Recover(res *string) {
	if r := recover(); r != nil {
		*res = fmt.Sprintf("PANIC %v", r)
	}
}

const c08CoreHist = 17

type c08POpt struct {
	Name string
	New  func() *syntax.Parser
}

type c08ParserReuse struct {
	opts  []c08POpt
	ops   []c08POp // history operations first, then the probes
	hist  []int    // indexes into ops usable inside histories
	fresh [][]string
	// stream is the round-3 sub-part: line-by-line sessions on reused parsers
	stream *c08ReuseStream
}

func c08ErrStr(err error) string {
	if err == nil {
		return "<nil>"
	}
	return fmt.Sprintf("%T:%s incomplete=%v", err, err.Error(), syntax.IsIncomplete(err))
}

func c08OpParse(src string) c08POp {
	return c08POp{Name: fmt.Sprintf("Parse(%q)", src), Run: func(p *syntax.Parser, quiet bool) (res string) {
		defer c08Recover(&res)
		f, err := p.Parse(strings.NewReader(src), "name")
		if quiet {
			return ""
		}
		return synt.Dump(f, c08DumpOpts) + " err=" + c08ErrStr(err)
	}}
}

func c08OpParseFail(src string, same bool) c08POp {
	return c08POp{Name: fmt.Sprintf("Parse(failing reader after %q, error with data=%v)", src, same), Run: func(p *syntax.Parser, quiet bool) (res string) {
		defer c08Recover(&res)
		f, err := p.Parse(&c08FailReader{data: src, same: same}, "name")
		if quiet {
			return ""
		}
		return synt.Dump(f, c08DumpOpts) + " err=" + c08ErrStr(err)
	}}
}

func c08OpStmtsSeq(src string, stopAfter int) c08POp {
	stop := ""
	if stopAfter > 0 {
		stop = "StmtsSeq"
	}
	return c08POp{Stop: stop, Name: fmt.Sprintf("StmtsSeq(%q) stop after %d", src, stopAfter), Run: func(p *syntax.Parser, quiet bool) (res string) {
		defer c08Recover(&res)
		var sb strings.Builder
		n := 0
		for s, err := range p.StmtsSeq(strings.NewReader(src)) {
			if !quiet {
				sb.WriteString(synt.Dump(s, c08DumpOpts) + " err=" + c08ErrStr(err) + "\n")
			}
			n++
			if n == stopAfter {
				break
			}
		}
		return sb.String()
	}}
}

func c08OpWordsSeq(src string, stopAfter int) c08POp {
	stop := ""
	if stopAfter > 0 {
		stop = "WordsSeq"
	}
	return c08POp{Stop: stop, Name: fmt.Sprintf("WordsSeq(%q) stop after %d", src, stopAfter), Run: func(p *syntax.Parser, quiet bool) (res string) {
		defer c08Recover(&res)
		var sb strings.Builder
		n := 0
		for w, err := range p.WordsSeq(strings.NewReader(src)) {
			if !quiet {
				sb.WriteString(synt.Dump(w, c08DumpOpts) + " err=" + c08ErrStr(err) + "\n")
			}
			n++
			if n == stopAfter {
				break
			}
		}
		return sb.String()
	}}
}

func c08OpInteractive(src string, stopAt int) c08POp {
	stop := ""
	if stopAt >= 0 {
		stop = "InteractiveSeq"
	}
	return c08POp{Stop: stop, Name: fmt.Sprintf("InteractiveSeq(%q by lines) stop at callback %d", src, stopAt), Run: func(p *syntax.Parser, quiet bool) (res string) {
		defer c08Recover(&res)
		cbs := c08RunInteractive(p, c08Lines(src), stopAt, quiet)
		if quiet {
			return ""
		}
		return fmt.Sprintf("%+v", cbs)
	}}
}

func c08OpDocument(src string) c08POp {
	return c08POp{Name: fmt.Sprintf("Document(%q)", src), Run: func(p *syntax.Parser, quiet bool) (res string) {
		defer c08Recover(&res)
		w, err := p.Document(strings.NewReader(src))
		if quiet {
			return ""
		}
		return synt.Dump(w, c08DumpOpts) + " err=" + c08ErrStr(err)
	}}
}

func c08OpArithmetic(src string) c08POp {
	return c08POp{Name: fmt.Sprintf("Arithmetic(%q)", src), Run: func(p *syntax.Parser, quiet bool) (res string) {
		defer c08Recover(&res)
		x, err := p.Arithmetic(strings.NewReader(src))
		if quiet {
			return ""
		}
		return synt.Dump(x, c08DumpOpts) + " err=" + c08ErrStr(err)
	}}
}

func c08NewParserReuse() *c08ParserReuse {
	r := &c08ParserReuse{}
	r.opts = []c08POpt{
		{"bash,KeepComments", func() *syntax.Parser { return syntax.NewParser(syntax.KeepComments(true)) }},
		{"bash,StopAt($$)", func() *syntax.Parser { return syntax.NewParser(syntax.StopAt("$$")) }},
		{"posix", func() *syntax.Parser { return syntax.NewParser(syntax.Variant(syntax.LangPOSIX)) }},
		{"bash,RecoverErrors(5),KeepComments", func() *syntax.Parser {
			return syntax.NewParser(syntax.RecoverErrors(5), syntax.KeepComments(true))
		}},
		{"zsh,KeepComments", func() *syntax.Parser {
			return syntax.NewParser(syntax.Variant(syntax.LangZsh), syntax.KeepComments(true))
		}},
		{"mksh", func() *syntax.Parser { return syntax.NewParser(syntax.Variant(syntax.LangMirBSDKorn)) }},
	}
	long := strings.Repeat("echo 0123456789 'abc' \"$x\" # c\n", 36) // 1.1 KiB: more than one read buffer
	// operations that leave a distinct residue in the private state
	// the first c08CoreHist operations are the "core" alphabet used for the
	// deepest histories
	hist := []c08POp{
		c08OpParse("echo 'unclosed"),
		c08OpParse("echo `unclosed \\`x"),
		c08OpParse("echo \"`unclosed \\\"x"),
		c08OpParse("echo $(( 1 + (2"),
		c08OpParse("cat <<EOF; cat <<-'E2'\nbody $x"),
		c08OpParse("cat <<EOF 'unclosed"), // fails with a here-document still pending
		c08OpParse("[[ x =~ (a (b"),
		c08OpParse("echo a; $$ rest 'x"), // a StopAt hit when the option is set
		c08OpParseFail("echo \"abc", false),
		c08OpParse("function f { a; }; a=(1 2); [[ x ]]; echo ${x/a/b} <(c)"), // LangError in POSIX, valid in bash
		c08OpParse("# c1\nif a; then b <<E # c2\nbody\nE\nfi # c3\nc &\n# last\n"),
		c08OpParse(long + "echo 'open"),
		c08OpDocument("doc $x `a \\`b"),
		c08OpArithmetic("1 + (2 ? a["),
		c08OpInteractive("a 'x\ny'\nb\n", 0), // stops inside an Incomplete callback
		c08OpStmtsSeq("a <<E; b `c`\nbody\nE\nd 'x", 1),
		c08OpStmtsSeq("a <<E; b `c\nbody\nE\n", 1), // stops with a here-document that cannot be completed
		// --- end of the core alphabet
		c08OpParse("echo \"unclosed $(a 'b"),
		c08OpParseFail("x=(a b\\", true),
		c08OpParse("(foo |"), // recovered when RecoverErrors is set
		c08OpParse("echo \xff${"),
		c08OpWordsSeq("a 'b c' \"d\n e", 1),
		c08OpInteractive("a; b 'x\ny' c\nd <<E\nbody\n", -1),
		c08OpInteractive("a\nb 'x\ny'\n", 0),
		// round 3: the other places where the input can end inside a literal
		c08OpParse("echo $'unclosed"),
		c08OpParse("echo ${a:-'b"),
		c08OpInteractive("a\n# c \\\n", -1),   // ends right after a comment whose line ends in a backslash
		c08OpStmtsSeq("a <<'E'\nbody \\", -1), // ends inside a quoted here-document body, after a backslash
	}
	probes := []c08POp{
		c08OpParse(""),
		c08OpParse("a"),
		c08OpParse("a\nb # c\n# d\n"),
		c08OpParse("echo `a \\`b\\``"),
		c08OpParse("echo \"`a \\\"b\\\"`\""),
		c08OpParse("[[ x =~ (a|b) && y =~ a\\ b ]]"),
		c08OpParse("[[ x =~ a) ]]"),
		c08OpParse("cat <<EOF\nbody $x\nEOF\n"),
		c08OpParse("cat <<-EOF\n\tbody\n\tEOF\nb"),
		c08OpParse("echo $$ $$x"),
		c08OpParse("$$"),
		c08OpParse("echo $((1+2)) $(a) ${x:-y}; x=1 y z"),
		c08OpParse("echo )"),
		c08OpParse("if a; then b; fi; for i in 1; do c; done; a=(1 2) b[1]=c"),
		c08OpParse("echo 'a\nb' \"c\nd\""),
		c08OpParse("\\"),
		c08OpParse("echo ${x"),
		c08OpParseFail("echo ok\necho 'abc", false),
		c08OpDocument("a $b \"c\" `d`\n"),
		c08OpArithmetic("1 + 2 * x"),
		c08OpArithmetic(""),
		c08OpWordsSeq("a 'b' \"c\"\nd", -1),
		c08OpStmtsSeq("a; b\nc <<E\nx\nE\n", -1),
		c08OpInteractive("a\nb 'x\ny'\n\nc <<E\nbody\nE\nif a\nthen b\nfi; c \\\nd\n", -1),
		// round 3: inputs whose first callbacks come before the first word
		// (the full space of such inputs is run per state by runStream)
		c08OpInteractive("\n  \n\t\n# c\na 'x\ny'\n", -1),
		c08OpInteractive("# c \\\n\n \nb\n", -1),
		c08OpInteractive(" \\\n\n# c\n\n", -1),
	}
	r.ops = append(append([]c08POp{}, hist...), probes...)
	for i := range hist {
		r.hist = append(r.hist, i)
	}
	r.stream = c08NewReuseStream(len(r.opts))
	r.fresh = make([][]string, len(r.opts))
	for oi, o := range r.opts {
		r.fresh[oi] = make([]string, len(r.ops))
		for i, op := range r.ops {
			r.fresh[oi][i] = op.Run(o.New(), false)
		}
	}
	return r
}

// runOp checks one operation on a fresh Parser: it must not panic. Leaving
// an iterator's loop early is an ordinary use ("if the callback returns false,
// parsing is stopped and the function is not called again").
func (r *c08ParserReuse) runOp(c *vc.Ctx, t c08Case) *vc.Fail {
	op, opt := r.ops[t.Kind], r.opts[t.Opt]
	res := r.fresh[t.Opt][t.Kind]
	if !strings.HasPrefix(res, "PANIC") {
		return nil
	}
	class := ""
	if op.Stop != "" && strings.Contains(res, "range function continued iteration") {
		class = strings.ToLower(op.Stop) + "-early-stop-calls-yield-again"
	}
	return &vc.Fail{Key: fmt.Sprintf("parser[%s] fresh: %s: %s", opt.Name, op.Name, res), Class: class,
		Msg: fmt.Sprintf("fresh Parser(%s): %s: %s", opt.Name, op.Name, res)}
}

func (r *c08ParserReuse) gen(depth int, emit func(c08Case)) {
	for oi := range r.opts {
		for i := range r.ops {
			emit(c08Case{Part: "parserop", Opt: oi, Kind: i})
		}
	}
	for oi := range r.opts {
		switch {
		case depth <= 3 && oi == 0:
			c08Seqs(c08CoreHist, 3, func(h []int) { emit(c08Case{Part: "parser", Opt: oi, Hist: h}) })
			c08SeqsExtra(len(r.hist), c08CoreHist, 2, func(h []int) { emit(c08Case{Part: "parser", Opt: oi, Hist: h}) })
		case depth <= 3:
			c08Seqs(len(r.hist), 2, func(h []int) { emit(c08Case{Part: "parser", Opt: oi, Hist: h}) })
		case oi == 0:
			c08Seqs(c08CoreHist, 4, func(h []int) { emit(c08Case{Part: "parser", Opt: oi, Hist: h}) })
			c08SeqsExtra(len(r.hist), c08CoreHist, 3, func(h []int) { emit(c08Case{Part: "parser", Opt: oi, Hist: h}) })
		default:
			c08Seqs(len(r.hist), 3, func(h []int) { emit(c08Case{Part: "parser", Opt: oi, Hist: h}) })
		}
	}
}

// bounds describes gen's bounds for the evidence.
func (r *c08ParserReuse) bounds(depth int) string {
	if depth <= 3 {
		return fmt.Sprintf("option set 0: all sequences of length <=3 over the %d core operations and of length <=2 over all %d; other option sets: length <=2 over all %d", c08CoreHist, len(r.hist), len(r.hist))
	}
	return fmt.Sprintf("option set 0: all sequences of length <=4 over the %d core operations and of length <=3 over all %d; other option sets: length <=3 over all %d", c08CoreHist, len(r.hist), len(r.hist))
}

var c08PanickedHistories atomic.Int64

func (r *c08ParserReuse) run(c *vc.Ctx, st *c08States, t c08Case) *vc.Fail {
	opt := r.opts[t.Opt]
	var names []string
	for _, h := range t.Hist {
		names = append(names, r.ops[r.hist[h]].Name)
	}
	replay := func() *syntax.Parser {
		p := opt.New()
		for _, h := range t.Hist {
			if res := r.ops[r.hist[h]].Run(p, true); strings.HasPrefix(res, "PANIC") {
				return nil
			}
		}
		return p
	}
	p := replay()
	if p == nil {
		// the history itself cannot be completed (an operation panics: that
		// is reported by the streaming part); nothing to compare
		c.Count("parser_histories_skipped_operation_panics", 1)
		return nil
	}
	state := "Parser[" + opt.Name + "] " + c08StateKey(p)
	c.Distinct(state)
	opNames := make([]string, len(r.ops))
	var fail *vc.Fail
	for i, op := range r.ops {
		opNames[i] = op.Name
		if i > 0 {
			p = replay()
		}
		var got string
		if fl := guard(fmt.Sprintf("parser[%s] %v then %s", opt.Name, names, op.Name), func() { got = op.Run(p, false) }); fl != nil {
			return fl
		}
		if got != r.fresh[t.Opt][i] && fail == nil {
			fail = &vc.Fail{Key: fmt.Sprintf("parser[%s] after %q: %s", opt.Name, names, op.Name),
				Msg:    fmt.Sprintf("Parser(%s) used for %q then %s gives a result different from a fresh Parser", opt.Name, names, op.Name),
				Detail: map[string]string{"reused": got, "fresh": r.fresh[t.Opt][i], "state_after_history": state}}
		}
	}
	st.add(state, opNames)
	atomic.AddInt64(&st.execs, int64(len(r.ops)*(len(t.Hist)+1)))
	if len(t.Hist) == 2 {
		c.Sample(map[string]any{"part": "parser", "options": opt.Name, "history": names})
	}
	return fail
}
