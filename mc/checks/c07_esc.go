package checks

import (
	"fmt"
	"strings"
)

// Escape-dense inputs (round 3). The lexer removes, inside backquotes, one
// backslash per open backquote level in front of $ ` \ (and " when the
// backquotes began inside double quotes), looking one byte ahead for each
// backslash of a run; whether that byte has been read yet depends on what the
// lookahead of the earlier backslashes of the same run happened to buffer
// (peek: one byte, peekTwo: two bytes, nothing at all when the previous rune
// was a backslash). The programs, metacharacter strings and hand-written
// shapes of the other input sets hold at most four backslashes in a row and at
// most one escaped character per backquote level, so a run long enough to
// outlast the earlier lookahead never occurred. This set enumerates
//
//	context.Pre + u + backslash^n + v + context.Post
//
// for every context (quoting state around the run), every run length n, every
// follower v (each byte the lexer treats specially after a backslash, alone
// and followed by one more symbol, and nothing), so that every (state, length
// of run, next byte) combination exists, and every read schedule of the check
// puts a read boundary at every offset of every run.

type c07EscCtx struct {
	Name      string
	Pre, Post string
}

// the quoting states a run of backslashes can be in: zero, one and two levels
// of backquotes, each bare / begun inside double quotes / holding double or
// single quotes, and the neighbouring constructs with their own lexer modes
var c07EscCtxs = []c07EscCtx{
	{"bare", "", ""},
	{"dq", "\"", "\""},
	{"bq", "`", "`"},
	{"bq-cmd", "`a ", " b`"},
	{"dq-bq", "\"`", "`\""},
	{"bq-dq", "`\"", "\"`"},
	{"bq-sq", "`'", "'`"},
	{"bq-bq", "`a \\`", "\\``"},
	{"dq-bq-bq", "\"`a \\`", "\\``\""},
	{"bq-bq-dq", "`a \\`\"", "\"\\``"},
	{"bq-dq-bq", "`\"\\`", "\\`\"`"},
	{"cmdsubst-bq", "$(`", "`)"},
	{"bq-cmdsubst", "`$(", ")`"},
	{"paramexp-bq", "${a:-`", "`}"},
	{"bq-paramexp", "`${a:-", "}`"},
	{"hdoc-bq", "a <<E\n`", "`\nE\n"},
	{"bq-hdoc", "`a <<E\n", "\nE\n`"},
	{"bq-comment", "`#", "\n`"},
	{"bq-arithm", "`$((", "))`"},
}

// what follows the run: the bytes the lexer looks for after a backslash
// (backquote escapes $ ` \ ", line continuation \n and \r\n) and bytes it
// does not (a letter, a single quote)
var c07EscFirst = []string{"$", "`", "\"", "\n", "\r", "a", "'"}

// an optional second symbol: a name character (so that $ starts an
// expansion), another backslash (a second, one-byte run), and the bytes that
// open or close the constructs again
var c07EscSecond = []string{"", "x", "\\", "`", "$", "\n", "\""}

type c07EscBounds struct {
	MaxRun    int      // runs of 1..MaxRun backslashes
	Before    []string // what precedes the run inside the context
	Second    int      // how many of c07EscSecond are used
	PadSecond bool     // inputs with a second follower symbol are also moved across the buffer boundary
}

// c07EscInputs enumerates the escape-dense inputs; pad tells whether the
// input also goes through the buffer-boundary family.
func c07EscInputs(b c07EscBounds, f func(src string, pad bool)) {
	for _, cx := range c07EscCtxs {
		for _, u := range b.Before {
			for n := 1; n <= b.MaxRun; n++ {
				run := strings.Repeat("\\", n)
				f(cx.Pre+u+run+cx.Post, true)
				for _, t := range c07EscFirst {
					for _, s := range c07EscSecond[:b.Second] {
						f(cx.Pre+u+run+t+s+cx.Post, s == "" || b.PadSecond)
					}
				}
			}
		}
	}
}

func c07EscDescribe(b c07EscBounds) string {
	var names []string
	for _, cx := range c07EscCtxs {
		names = append(names, cx.Pre+"…"+cx.Post)
	}
	return fmt.Sprintf("escape-dense inputs Pre+u+backslash^n+v+Post for the %d contexts %q, u in %q, n=1..%d, v = nothing or one of %q optionally followed by one of %q",
		len(c07EscCtxs), names, b.Before, b.MaxRun, c07EscFirst, c07EscSecond[1:b.Second])
}
