package checks

import (
	"strings"
	"unicode/utf8"
)

// c22Toggles switches off individual rules of the reference model of bash's
// field splitting below. A divergence is classified by the smallest set of
// switched-off rules under which the model reproduces what mvdan/sh printed:
// "sh behaves exactly like bash without rule X" is the class predicate.
type c22Toggles struct {
	// A non-whitespace IFS character always terminates the current field,
	// even when that field is empty (":a" -> <><a>, "a::b" -> <a><><b>).
	// Off: it behaves like IFS whitespace (empty fields never appear).
	noEmptyFromNonWS bool
	// An empty pair of double quotes marks the field it belongs to as
	// quoted, so the field survives although it is empty (""$v with v=" a"
	// -> <><a>). Off: `""` contributes nothing, except that a word which
	// produced no field at all still yields one empty field.
	emptyDQIgnored bool
}

// c22Model computes the fields of the word of t the way bash 5.2 does
// (validated against bash on every reported difference), with the rules in
// tog switched off.
func c22Model(t c22Case, tog c22Toggles) []string {
	ifsv := c22IFS[t.IFS]
	ifs := ifsv.Val
	if ifsv.Unset {
		ifs = " \t\n"
	}
	sep := ""
	if ifs != "" {
		_, n := utf8.DecodeRuneInString(ifs)
		sep = ifs[:n]
	}
	isIFS := func(r rune) bool { return strings.ContainsRune(ifs, r) }
	isWS := func(r rune) bool { return r == ' ' || r == '\t' || r == '\n' }

	var fields []string
	cur := ""
	curQuoted := false
	sawEmptyDQ := false
	terminate := func(force bool) {
		if cur != "" || curQuoted || force {
			fields = append(fields, cur)
		}
		cur, curQuoted = "", false
	}
	addQuoted := func(s string) { cur += s; curQuoted = true }
	split := func(s string) {
		if ifs == "" {
			cur += s
			return
		}
		rs := []rune(s)
		for i := 0; i < len(rs); {
			j := i
			nonWS := false
			for j < len(rs) && isIFS(rs[j]) {
				if !isWS(rs[j]) {
					if nonWS {
						break // a second non-whitespace character starts the next delimiter
					}
					nonWS = true
				}
				j++
			}
			if j > i {
				terminate(nonWS && !tog.noEmptyFromNonWS)
				i = j
				continue
			}
			for j < len(rs) && !isIFS(rs[j]) {
				j++
			}
			cur += string(rs[i:j])
			i = j
		}
	}
	splitList := func(elems []string) {
		for k, e := range elems {
			if k > 0 {
				terminate(false)
			}
			split(e)
		}
	}
	quotedList := func(elems []string) {
		for k, e := range elems {
			if k > 0 {
				terminate(false)
			}
			addQuoted(e)
		}
	}
	params := []string{"1 2", "3"}
	arr := []string{"p q", "r", ""}
	for _, p := range t.Parts {
		switch c22Parts[p].Text {
		case "L":
			cur += "L"
		case "'q r'", `"q r"`:
			addQuoted("q r")
		case "${v}":
			split(t.V)
		case `"${v}"`:
			addQuoted(t.V)
		case "$@", "$*":
			splitList(params)
		case `"$@"`:
			quotedList(params)
		case `"$*"`:
			addQuoted(strings.Join(params, sep))
		case "${a[@]}":
			splitList(arr)
		case `"${a[@]}"`:
			quotedList(arr)
		case `"${a[*]}"`:
			addQuoted(strings.Join(arr, sep))
		case "${e}":
			split("")
		case `""`:
			sawEmptyDQ = true
			if !tog.emptyDQIgnored {
				addQuoted("")
			}
		case `$(printf %s "$v")`:
			split(strings.TrimRight(t.V, "\n"))
		case `"$(printf %s "$v")"`:
			addQuoted(strings.TrimRight(t.V, "\n"))
		default:
			panic("c22Model: unknown part " + c22Parts[p].Text)
		}
	}
	terminate(false)
	if tog.emptyDQIgnored && sawEmptyDQ && len(fields) == 0 {
		fields = []string{""}
	}
	return fields
}

// c22Class names the narrow divergence families recorded as known findings:
// sh is the "<status>:<count><fields>" text mvdan/sh produced, and ref the
// reference model's fields without toggles (equal to bash's).
func c22Class(t c22Case, sh string) string {
	for _, c := range []struct {
		name string
		tog  c22Toggles
	}{
		{"nonws-ifs-delimiter-yields-no-empty-field", c22Toggles{noEmptyFromNonWS: true}},
		{"empty-dquotes-next-to-split-yield-no-empty-field", c22Toggles{emptyDQIgnored: true}},
		{"nonws-ifs-delimiter-and-empty-dquotes-yield-no-empty-field", c22Toggles{noEmptyFromNonWS: true, emptyDQIgnored: true}},
	} {
		if sh == "0:"+c22Render(c22Model(t, c.tog)) {
			return c.name
		}
	}
	return ""
}
