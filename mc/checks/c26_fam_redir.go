package checks

import (
	"strconv"
	"strings"
)

// Family group "Redir" of C26 (see C26_FAMILY_BRIEF.md). Emits programs through
// emit(desc, src); desc starts with the family name and a dash.
//
// One family name, "redir", with these sub-families (every one a cross
// product; there are no external commands, so files are read back by a
// `read` loop and stdin consumers are `read` and functions):
//
//	redir-out      output redirection operator(s) x where they are attached
//	               (function call, builtin, group, subshell, if/for/while/case,
//	               function definition, [[ ]], (( )), assignment, bare, eval,
//	               $( ), pipeline stage, background, negation, nested group,
//	               exec in a subshell) x target file absent / holding two lines
//	redir-in       input operator (<, 0<, <>, <<<, <<, two of them, <&-, <&0,
//	               missing file) x consumer (read, two reads in a group, read
//	               loop function, while/if/for, subshell, function definition,
//	               nested input, subshell sharing the offset, pipeline stage,
//	               $( ), exec in a subshell)
//	redir-exec     `exec` + redirection: how it is reached (direct, function,
//	               group, redirected group, if, eval, &&, loop, pipeline stage,
//	               $( ), nested subshell) x operator, inside a subshell
//	redir-target   form of the target word (quoted, variable with blanks, unset,
//	               glob, brace, tilde, $( ), mixed quoting) x operator
//	redir-clobber  noclobber: how it is set x operator x target state
//	redir-werr     a builtin writing to a closed / full standard output
//	redir-hdoc     here-document: delimiter quoting x << / <<- x body x consumer
//	redir-hstr     here-string: word form x consumer
//	redir-pipe     pipelines of functions: 2..3 stages x status vector x pipefail
//	               x negation x | / |& x context; stage kinds; stage redirections
//
// Left out on purpose: file descriptors 3..9 and {fd}> (recorded class
// redirection-fd-3-or-higher-unsupported), PIPESTATUS (class
// pipestatus-unsupported), anything that shows whether the last pipeline
// stage runs in a subshell (class last-pipeline-stage-runs-in-parent-shell:
// every non-first stage here only reads all of its input and prints), a
// non-first stage that does not read its input (SIGPIPE makes the writer's
// status a race under pipefail), a pipeline under `set -e; ! ...` or an ERR
// trap (recorded classes errexit-not-ignored-inside-negated-command,
// err-trap-runs-again-for-each-enclosing-statement), `read -n` (not
// supported by the interpreter's read: a matter of the builtin family), the
// empty here-document delimiter <<"".

const c26RedirShow = `show() { if [[ -e $1 ]]; then while IFS= read -r l || [[ -n $l ]]; do echo "$1<$l>"; done <"$1"; else echo "$1:absent"; fi; }` + "\n"
const c26RedirP = "p() { echo out; echo err >&2; return 3; }\n"
const c26RedirRd = `rd() { while IFS= read -r l || [[ -n $l ]]; do echo "<$l>"; done; }` + "\n"

type c26RedirItem struct {
	name, src string
	core      bool
}

// c26RedirPrelude returns the helper functions body uses.
func c26RedirPrelude(body string) string {
	s := ""
	if strings.Contains(body, "show ") {
		s += c26RedirShow
	}
	if strings.Contains(body, "p;") || strings.Contains(body, "p ") || strings.Contains(body, " p\n") {
		s += c26RedirP
	}
	if strings.Contains(body, "rd") {
		s += c26RedirRd
	}
	return s
}

// c26RedirFill puts the redirection text op in place of %R; hbody (the lines
// of a here-document including the delimiter line, or "") goes after the
// line that holds %R, or replaces a line "%B" of the template.
func c26RedirFill(tmpl, op, hbody string) string {
	lines := strings.Split(tmpl, "\n")
	explicit := strings.Contains(tmpl, "%B") // the body goes where %B stands
	var out []string
	for _, ln := range lines {
		if ln == "%B" {
			if hbody != "" {
				out = append(out, hbody)
			}
			continue
		}
		has := strings.Contains(ln, "%R")
		out = append(out, strings.ReplaceAll(ln, "%R", op))
		if has && hbody != "" && !explicit {
			out = append(out, hbody)
		}
	}
	return strings.Join(out, "\n")
}

func c26GenRedir(thorough bool, emit c26EmitFn) {
	c26RedirOut(thorough, emit)
	c26RedirIn(thorough, emit)
	c26RedirExec(thorough, emit)
	c26RedirTarget(thorough, emit)
	c26RedirClobber(thorough, emit)
	c26RedirHdoc(thorough, emit)
	c26RedirHstr(thorough, emit)
	c26RedirPipe(thorough, emit)
}

// ---------------------------------------------------------------- output

var c26RedirOutOps = []c26RedirItem{
	{"gt", ">o", true},
	{"app", ">>o", true},
	{"clob", ">|o", true},
	{"all", "&>o", true},
	{"allapp", "&>>o", false},
	{"dupfile", ">&o", true},
	{"gt,2>&1", ">o 2>&1", true},
	{"2>&1,gt", "2>&1 >o", true},
	{"err", "2>o", false},
	{"errapp", "2>>o", false},
	{"1gt", "1>o", false},
	{"rw1", "1<>o", true},
	{"rw0", "<>o", false},
	{"to-err", ">&2", false},
	{"1to-err", "1>&2", false},
	{"err-to-out", "2>&1", false},
	{"cross", "2>&1 >&2", false},
	{"close", ">&-", false},
	{"errclose", "2>&-", false},
	{"two", ">o >q", false},
	{"out,err", ">o 2>q", false},
	{"err,dup", "2>o >&2", false},
	{"app,2>&1", ">>o 2>&1", false},
	{"gt,app-same", ">o 2>>o", false},
}

var c26RedirOutSites = []c26RedirItem{
	{"fn", "p %R", true},
	{"builtin", "echo out %R", false},
	{"group", "{ p; } %R", true},
	{"subshell", "( p ) %R", false},
	{"if", "if true; then p; fi %R", false},
	{"for", "for i in 1 2; do p; done %R", true},
	{"while", "i=; while [[ $i != xx ]]; do i=x$i; p; done %R", false},
	{"case", "case x in x) p;; esac %R", false},
	{"fndef", "f() { p; } %R; f; f", true},
	{"fndef-sub", "f() ( p ) %R; f", false},
	{"dbr", "[[ -n x ]] %R", false},
	{"arith", "(( 1 )) %R", false},
	{"assign", "x=1 %R", false},
	{"bare", "%R", false},
	{"eval", "eval p %R", false},
	{"builtin-kw", "builtin echo out %R", false},
	{"command-kw", "command echo out %R", false},
	{"cmdsubst", "x=$(p %R); echo \"x=$x\"", false},
	{"pipe-first", "p %R | rd", false},
	{"pipe-last", "echo in | { rd; p; } %R", false},
	{"bg", "p %R & wait", false},
	{"negated", "! p %R", false},
	{"andor", "p %R && echo y || echo n", false},
	{"nested", "{ p; { p; } %R; p; } >r 2>&1", true},
	{"exec-sub", "( exec %R; p; p )", true},
	{"redir-first", "%R p", false},
	{"redir-mid", "echo %R out", false},
}

func c26RedirOut(thorough bool, emit c26EmitFn) {
	pres := []c26RedirItem{{"existing", "echo old1 >o; echo old2 >>o\n", true}, {"absent", "", false}}
	for _, op := range c26RedirOutOps {
		for _, site := range c26RedirOutSites {
			for _, pre := range pres {
				if !thorough {
					// quick: core x core on an existing file; every operator at the
					// function-call site; absent file for the core operators at the
					// function-call site
					ok := op.core && site.core && pre.core ||
						site.name == "fn" && (pre.core || op.core)
					if !ok {
						continue
					}
				}
				if (op.name == "clob" || op.name == "rw1" || op.name == "rw0") && !(site.name == "fn" && pre.core) {
					// ">|" and "<>" are rejected as unhandled, and the repository's
					// own tests pin that (recorded as findings): one program each
					continue
				}
				if op.name == "rw1" && site.name == "cmdsubst" {
					// bash 5.2 re-reads the text of a command substitution and
					// takes `1<>o` in it as `1 <>o`
					continue
				}
				if op.name == "close" && (site.name == "nested" || strings.Contains(site.src, "echo out") || strings.Contains(site.src, "echo %R")) {
					// nested: bash's "write error" message would land in the file
					// read back; builtins writing to a closed stdout: sub-family werr
					continue
				}
				body := pre.src + c26RedirFill(site.src, op.src, "") + "\necho \"rc=$?\"\nshow o"
				if strings.Contains(op.src, "q") {
					body += "\nshow q"
				}
				if strings.Contains(site.src, ">r") {
					body += "\nshow r"
				}
				emit("redir-out["+site.name+" "+op.name+" "+pre.name+"]", c26RedirPrelude(body)+body+"\n")
			}
		}
	}
	// a builtin writing to a closed or full standard output / standard error
	for _, w := range []c26RedirItem{{"echo", "echo a", true}, {"printf", "printf a", false}} {
		for _, t := range []c26RedirItem{{"closed", ">&-", true}, {"full", ">/dev/full", true}} {
			if !thorough && !(w.core && t.core) {
				continue
			}
			emit("redir-werr["+w.name+" "+t.name+"]", w.src+" "+t.src+" 2>/dev/null; echo \"rc=$?\"\n")
		}
	}
}

// ---------------------------------------------------------------- input

const c26RedirHbody = "h1\nh2\nh3\nE"

var c26RedirInOps = []struct {
	name, src, hbody string
	core             bool
}{
	{"lt", "<i", "", true},
	{"0lt", "0<i", "", false},
	{"rw", "<>i", "", true},
	{"hstr", "<<<\"h1\"", "", true},
	{"hdoc", "<<E", c26RedirHbody, true},
	{"two", "<j <i", "", true},
	{"close", "<&-", "", false},
	{"dup0", "<&0", "", false},
	{"devnull", "</dev/null", "", false},
	{"missing", "<nofile", "", true},
	{"lt,gt", "<i >o", "", false},
	{"gt,lt", ">o <i", "", false},
	{"hdoc,lt", "<<E <i", c26RedirHbody, false},
	{"lt,hdoc", "<i <<E", c26RedirHbody, false},
	{"hstr,hdoc", "<<<\"s1\" <<E", c26RedirHbody, false},
	{"lt,close", "<i <&-", "", false},
}

var c26RedirInSites = []c26RedirItem{
	{"read", "read a %R\necho \"rc=$? <$a>\"", false},
	{"read2", "{ read a; read b; } %R\necho \"rc=$? <$a><$b>\"", true},
	{"rdfn", "rd %R\necho \"rc=$?\"", false},
	{"while", "while read l; do echo \"[$l]\"; done %R\necho \"rc=$?\"", false},
	{"if", "if read a; then echo \"T<$a>\"; else echo F; fi %R\necho \"rc=$?\"", false},
	{"for", "for i in 1 2; do read a; echo \"$i<$a>\"; done %R\necho \"rc=$?\"", true},
	{"subshell", "( read a; echo \"<$a>\" ) %R\necho \"rc=$?\"", false},
	{"fndef", "f() { read a; echo \"$?<$a>\"; } %R\nf; f\necho \"rc=$?\"", true},
	{"nested", "{ read a; { read b; } <j; read c; } %R\necho \"rc=$? <$a><$b><$c>\"", true},
	{"nested-fn", "g() { read b; }; { read a; g <j; read c; } %R\necho \"rc=$? <$a><$b><$c>\"", false},
	{"sub-offset", "{ read a; ( read b; echo \"s<$b>\" ); read c; echo \"<$a><$c>\"; } %R\necho \"rc=$?\"", true},
	{"cs-offset", "{ read a; x=$(read b; echo \"s<$b>\"); read c; echo \"<$a>$x<$c>\"; } %R\necho \"rc=$?\"", false},
	{"pipe-stage", "echo x | { read a; echo \"<$a>\"; } %R\necho \"rc=$?\"", false},
	{"pipe-first", "{ read a; echo \"$a\"; read a; echo \"$a\"; } %R | rd\necho \"rc=$?\"", false},
	{"cmdsubst", "x=$(read a %R\necho \"<$a>\"); echo \"rc=$? $x\"", false},
	{"exec-sub", "( exec %R\nread a; read b; echo \"<$a><$b>\" )\necho \"rc=$?\"", true},
	{"andor", "read a %R && echo \"y<$a>\" || echo \"n<$a>\"", false},
	{"prefix-assign", "IFS=1 read a b %R\necho \"rc=$? <$a><$b>\"", false},
	{"bg", "{ read a; echo \"<$a>\"; } %R &\nwait\necho \"rc=$?\"", false},
}

func c26RedirIn(thorough bool, emit c26EmitFn) {
	const pre = "echo l1 >i; echo l2 >>i; echo l3 >>i; echo j1 >j\n"
	for _, op := range c26RedirInOps {
		for _, site := range c26RedirInSites {
			if !thorough && !(op.core && site.core) {
				continue
			}
			if op.name == "rw" && site.name != "read2" {
				continue // "<>" is rejected as unhandled (recorded as a finding): one program
			}
			if site.name == "cs-offset" && strings.Contains(op.src, "<&-") {
				continue // bash hangs: with fd 0 closed the command substitution's pipe becomes its stdin
			}
			body := pre + c26RedirFill(site.src, op.src, op.hbody)
			if strings.Contains(op.src, ">o") {
				body += "\nshow o"
			}
			emit("redir-in["+site.name+" "+op.name+"]", c26RedirPrelude(body)+body+"\n")
		}
	}
}

// ---------------------------------------------------------------- exec

func c26RedirExec(thorough bool, emit c26EmitFn) {
	wheres := []c26RedirItem{
		{"direct", "exec %R", true},
		{"fn", "f() { exec %R; }; f", true},
		{"group", "{ exec %R; }", false},
		{"group-redirected", "{ exec %R; } >q", true},
		{"group-redirected-in", "{ exec %R; } <j", true},
		{"if", "if true; then exec %R; fi", false},
		{"eval", "eval \"exec %R\"", true},
		{"andor", "true && exec %R", false},
		{"for", "for i in 1; do exec %R; done", false},
		{"pipe-stage", "exec %R | true", false},
		{"cmdsubst", "x=$(exec %R; echo in)", false},
		{"subshell", "( exec %R )", true},
		{"twice", "exec %R; exec %R", false},
		{"then-restore", "exec %R; exec >&2", false},
	}
	outOps := []c26RedirItem{{"gt", ">o", true}, {"app", ">>o", true}, {"err-to-out", "2>&1", false}, {"all", "&>o", false}, {"err", "2>o", true}}
	inOps := []c26RedirItem{{"lt", "<i", true}, {"hstr", "<<<\"h1\"", false}}
	for _, w := range wheres {
		for _, op := range outOps {
			if !thorough && !(w.core && op.core) {
				continue
			}
			body := "echo old >o\n( " + strings.ReplaceAll(w.src, "%R", op.src) + "; p; echo after )\necho \"rc=$?\"\nshow o"
			if strings.Contains(w.src, ">q") {
				body += "\nshow q"
			}
			emit("redir-exec[out "+w.name+" "+op.name+"]", c26RedirPrelude(body)+body+"\n")
		}
		for _, op := range inOps {
			if w.name == "then-restore" || !thorough && !(w.core && op.core) {
				continue
			}
			body := "echo l1 >i; echo l2 >>i; echo l3 >>i; echo j1 >j\n( read z; " + strings.ReplaceAll(w.src, "%R", op.src) + "; read a; read b; echo \"<$z><$a><$b>\" ) <<<\"s1\"\necho \"rc=$?\""
			if strings.Contains(w.src, ">q") {
				body += "\nshow q"
			}
			emit("redir-exec[in "+w.name+" "+op.name+"]", c26RedirPrelude(body)+body+"\n")
		}
	}
	// exec <file in the main shell: the offset is shared by every later reader
	readers := []c26RedirItem{
		{"plain", "read %V", true},
		{"fn", "g%V() { read %V; }; g%V", false},
		{"subshell", "( read x; echo \"s<$x>\" )", true},
		{"cmdsubst", "%V=$(read x; echo \"c$x\")", false},
		{"group", "{ read %V; }", false},
		{"while", "while read %V; do break; done", false},
		{"other-file", "read %V <j", true},
		{"pipe-first", "{ read x; echo \"$x\"; } | rd", false},
		{"bg", "{ read x; echo \"b<$x>\"; } & wait", false},
	}
	for _, r1 := range readers {
		for _, r2 := range readers {
			if !thorough && !(r1.core && r2.core) {
				continue
			}
			if (r1.name == "bg" || r2.name == "bg") && r1.name != "plain" && r2.name != "plain" {
				continue // a background job reads the shell's stdin (bash: /dev/null): a finding, two programs are enough
			}
			body := "echo l1 >i; echo l2 >>i; echo l3 >>i; echo l4 >>i; echo j1 >j\nexec <i\nread a\n" +
				strings.ReplaceAll(r1.src, "%V", "b") + "\n" + strings.ReplaceAll(r2.src, "%V", "c") + "\nread d\necho \"rc=$? <$a><$b><$c><$d>\""
			emit("redir-exec[main-in "+r1.name+" "+r2.name+"]", c26RedirPrelude(body)+body+"\n")
		}
	}
}

// ---------------------------------------------------------------- target word

func c26RedirTarget(thorough bool, emit c26EmitFn) {
	words := []c26RedirItem{
		{"dq", "\"o 1\"", true},
		{"sq", "'o 1'", false},
		{"escaped-blank", "o\\ 1", true},
		{"var", "$f", true},
		{"var-dq", "\"$f\"", true},
		{"var-blank", "$fb", true},
		{"var-blank-dq", "\"$fb\"", false},
		{"unset", "$u", true},
		{"empty-dq", "\"\"", false},
		{"glob-one", "o*", true},
		{"glob-none", "zz*", false},
		{"glob-two", "m*", false},
		{"glob-dq", "\"o*\"", false},
		{"brace", "{o,q}", false},
		{"tilde", "~", false},
		{"cmdsubst", "$(echo o)", true},
		{"cmdsubst-blank", "$(echo o 1)", false},
		{"arith", "$((1+1))", false},
		{"mixed", "\"o\"'1'$f", false},
		{"array-all", "${arr[@]}", false},
		{"array-one", "${arr[0]}", false},
		{"param-default", "${u:-o}", false},
		{"dir", ".", false},
		{"devnull", "/dev/null", false},
		{"dash-dq", "\"-\"", false},
		{"digit-dq", "\"1\"", false},
	}
	ops := []c26RedirItem{{"gt", ">", true}, {"app", ">>", false}, {"lt", "<", true}, {"all", "&>", false}, {"dup", ">&", false}}
	// what exists: o (one line), m1 m2, variables
	const pre = "echo old >o; echo old >m1; echo old >m2; f=o; fb='o 1'; arr=(o q)\n"
	const list = "for n in *; do show \"$n\"; done"
	for _, w := range words {
		for _, op := range ops {
			if !thorough && !(w.core && op.core) {
				continue
			}
			if op.name == "dup" && (w.name == "glob-dq" || w.name == "dash-dq") {
				// bash globs the quoted word after >& (a quirk); >&"-" closes
				// stdout and echo fails: sub-family werr
				continue
			}
			var body string
			if op.name == "lt" {
				body = pre + "echo two >'o 1'\nread a " + op.src + w.src + "\necho \"rc=$? <$a>\""
			} else {
				body = pre + "echo new " + op.src + w.src + "\necho \"rc=$?\"\n" + list
			}
			emit("redir-target["+op.name+" "+w.name+"]", c26RedirPrelude(body)+body+"\n")
		}
	}
}

// ---------------------------------------------------------------- noclobber

func c26RedirClobber(thorough bool, emit c26EmitFn) {
	sets := []c26RedirItem{{"set-C", "set -C", true}, {"set-o", "set -o noclobber", false}, {"set-C-off", "set -C; set +C", false}, {"in-subshell", "( set -C ); echo sub", false}}
	ops := []c26RedirItem{{"gt", ">o", true}, {"clob", ">|o", true}, {"app", ">>o", false}, {"all", "&>o", false}, {"dupfile", ">&o", false}, {"rw1", "1<>o", false}, {"err", "2>o", false}, {"devnull", ">/dev/null", false}, {"gt,gt", ">o >o", false}}
	pres := []c26RedirItem{{"existing", "echo old >o\n", true}, {"absent", "", false}, {"empty", ">o\n", false}}
	sites := []c26RedirItem{{"builtin", "echo new %R", true}, {"group", "{ echo new; } %R", false}, {"bare", "%R", false}}
	for _, s := range sets {
		for _, op := range ops {
			for _, pre := range pres {
				for _, site := range sites {
					// set -C is not supported by the interpreter (every program with
					// an existing target differs): kept to a handful of programs
					if !(s.core && op.core && pre.core && site.core) && !(thorough && pre.core && site.core && (s.name == "set-o" && op.name == "gt" || s.core && op.name == "app" || s.name == "set-C-off" && op.name == "gt")) {
						continue
					}
					body := pre.src + s.src + "\n" + strings.ReplaceAll(site.src, "%R", op.src) + "\necho \"rc=$?\"\ncase $- in *C*) echo C;; esac\nshow o"
					emit("redir-clobber["+s.name+" "+op.name+" "+pre.name+" "+site.name+"]", c26RedirPrelude(body)+body+"\n")
				}
			}
		}
	}
}

// ---------------------------------------------------------------- here-documents

type c26RedirBody struct {
	name  string
	lines []string
	core  bool
}

var c26RedirBodies = []c26RedirBody{
	{"plain", []string{"a b", "  c  "}, true},
	{"var", []string{"a $v ${v}x $u."}, true},
	{"cmdsubst", []string{"$(echo cs) `echo bq` $((1+2))"}, true},
	{"bs-newline", []string{"c\\", "d"}, true},
	{"bs-dollar", []string{"\\$v \\\\ \\x \\\" \\` \\$(echo no)"}, true},
	{"quotes", []string{"\"dq\" 'sq' \"$v\" '$v' $'x'"}, true},
	{"tabs", []string{"\ta\tb", "c\t", "$v\tx", "$v\\", "\ty"}, true},
	{"delim-trailing-space", []string{"E ", "x"}, true},
	{"delim-leading-space", []string{" E", "EE", "xE"}, false},
	{"empty", nil, true},
	{"empty-line", []string{"", "a", ""}, false},
	{"multiline-var", []string{"[$nl]"}, false},
	{"param-ops", []string{"${u:-def} ${v#V} ${#v} ${v:+alt}"}, false},
	{"param-quotes", []string{"${u:-\"x  y\"} ${u:-'x'} ${v:+\"$v\"}"}, false},
	{"no-glob-brace-tilde", []string{"* ~ {a,b} a#b # c"}, false},
	{"lone-dollar", []string{"a $ b$", "$"}, false},
	{"var-with-backslash", []string{"$w"}, false},
	{"bs-before-delim", []string{"a\\\\", "b"}, false},
	{"cmdsubst-multiline", []string{"$(echo x; echo y)z"}, false},
	{"nested-hdoc", []string{"$(rd <<F", "inner $v", "F", ")"}, false},
	{"positional", []string{"$1 $# \"$@\" $*"}, false},
	{"status", []string{"$? $(st 4; echo $?)"}, false},
	{"semicolon-etc", []string{"a; b | c & d > e < f ( g )"}, false},
	{"cr-bang", []string{"a!b !! !x"}, false},
}

var c26RedirHdocConsumers = []c26RedirItem{
	{"rd", "rd %R", true},
	{"read2", "read a b %R\necho \"<$a><$b>\"", true},
	{"while", "while IFS= read -r l; do echo \"[$l]\"; done %R", false},
	{"group", "{ rd; } %R", false},
	{"subshell", "( rd ) %R", true},
	{"if", "if read l; then echo \"T[$l]\"; fi %R", false},
	{"andor", "rd %R && echo y", false},
	{"same-line", "rd %R; echo same-line", true},
	{"with-gt", "rd %R >o\nshow o", false},
	{"gt-before", "rd >o %R\nshow o", false},
	{"pipe-first", "rd %R | rd", true},
	{"pipe-last", "echo z | rd %R", true},
	{"two-cmds", "rd %R; rd <<F\n@F", true},
	{"two-on-one", "rd <<F %R\n@F\n%B", true},
	{"two-on-one-rev", "rd %R <<F\n@F", false},
	{"fndef-redir", "f() { rd; } %R\nf; f", true},
	{"negated", "! rd %R", false},
	{"bg", "rd %R &\nwait", false},
	{"arg-after", "rd %R ignored-arg", false},
}

// consumers whose here-document sits inside another construct: %H is the
// whole "rd <<E\nbody\nE" text
var c26RedirHdocWrappers = []c26RedirItem{
	{"in-fn", "f() {\n%H\n}\nf x; f y", true},
	{"in-cmdsubst", "x=$(%H\n); echo \"x=$x\"", true},
	{"in-cmdsubst-dq", "x=\"$(%H\n)\"; echo \"x=$x\"", false},
	{"in-case", "case x in x)\n%H\n;; esac", false},
	{"in-for", "for i in 1 2; do\n%H\ndone", false},
	{"in-if", "if true; then\n%H\nfi", false},
	{"in-subshell", "(\n%H\n)", false},
	{"in-group-piped", "{\n%H\n} | rd", false},
	{"in-while-cond", "n=; while [[ $n != xx ]] && n=x$n &&\n%H\ndo echo body; done", false},
	{"in-backquotes", "x=`%H\n`; echo \"x=$x\"", false},
}

func c26RedirHdocText(delimWord string, dash bool, b c26RedirBody, delim string) (op, body string) {
	op = "<<" + delimWord
	tab := ""
	if dash {
		op = "<<-" + delimWord
		tab = "\t"
	}
	var ls []string
	for i, l := range b.lines {
		t := tab
		if dash && i%2 == 1 {
			t = "\t\t"
		}
		ls = append(ls, t+l)
	}
	ls = append(ls, tab+delim)
	return op, strings.Join(ls, "\n")
}

func c26RedirHdoc(thorough bool, emit c26EmitFn) {
	const pre = "v=V; nl=$'x\\ny'; w='a\\b\\\\c'; set -- p1 'p 2'; st() { return $1; }\n"
	delims := []c26RedirItem{{"E", "E", true}, {"'E'", "'E'", true}, {"\"E\"", "\"E\"", true}, {"\\E", "\\E", true}, {"E'x'", "E'x'", false}, {"E-F", "E-F", false}}
	second := func(s string) string { // the second here-document of the two-* consumers
		return strings.ReplaceAll(s, "@F", "second $v\nF")
	}
	for _, d := range delims {
		delim := strings.NewReplacer("'", "", "\"", "", "\\", "").Replace(d.src)
		for _, dash := range []bool{false, true} {
			dn := "<<"
			if dash {
				dn = "<<-"
			}
			for _, b := range c26RedirBodies {
				if delim != "E" && strings.HasPrefix(b.name, "delim-") {
					continue
				}
				if dash && b.name == "nested-hdoc" {
					continue // the parser does not find the tab-indented inner delimiter (a syntax matter)
				}
				for _, c := range c26RedirHdocConsumers {
					if !thorough {
						// quick: every delimiter form x dash x four bodies read by rd;
						// every core consumer with the var and bs-newline bodies, plain <<E
						qb := b.name == "var" || b.name == "bs-newline" || b.name == "bs-dollar" || b.name == "tabs"
						ok := d.core && qb && c.name == "rd" ||
							d.name == "E" && !dash && c.core && (b.name == "var" || b.name == "bs-newline")
						if !ok {
							continue
						}
					} else if !(c.name == "rd" || d.core && c.core && b.core || !dash && (d.name == "E" || d.name == "'E'")) {
						// thorough: all delimiters x dash x bodies read by rd; core
						// delimiters x dash x core consumers x core bodies; <<E and
						// <<'E' with every consumer and body
						continue
					}
					if b.name == "param-quotes" && (c.name != "rd" || dash) {
						continue // '…' inside ${…} keeps its quotes in bash: a finding, kept small
					}
					op, hb := c26RedirHdocText(d.src, dash, b, delim)
					body := pre + second(c26RedirFill(c.src, op, hb)) + "\necho \"rc=$?\""
					emit("redir-hdoc["+c.name+" "+dn+d.name+" "+b.name+"]", c26RedirPrelude(body)+body+"\n")
				}
				for _, wr := range c26RedirHdocWrappers {
					if !thorough && !(d.name == "E" && !dash && wr.core && (b.name == "var" || b.name == "bs-newline")) {
						continue
					}
					if thorough && (d.name != "E" && d.name != "'E'" || dash && !b.core) {
						continue
					}
					if b.name == "param-quotes" {
						continue
					}
					if wr.name == "in-backquotes" && strings.ContainsAny(strings.Join(b.lines, ""), "`\\") {
						continue // backquotes have an escaping level of their own
					}
					op, hb := c26RedirHdocText(d.src, dash, b, delim)
					body := pre + strings.ReplaceAll(wr.src, "%H", "rd "+op+"\n"+hb) + "\necho \"rc=$?\""
					emit("redir-hdoc["+wr.name+" "+dn+d.name+" "+b.name+"]", c26RedirPrelude(body)+body+"\n")
				}
			}
		}
	}
}

// ---------------------------------------------------------------- here-strings

func c26RedirHstr(thorough bool, emit c26EmitFn) {
	const pre = "v='a  b'; nl=$'x\\ny'; nl2=$'x\\n\\n'; set -- p1 'p  2'; arr=(e1 'e  2'); y=a:b\n"
	words := []c26RedirItem{
		{"lit", "a", true},
		{"dq", "\"a  b\"", true},
		{"sq", "'a  b'", false},
		{"escaped", "a\\ \\ b", true},
		{"var", "$v", true},
		{"var-dq", "\"$v\"", true},
		{"nl", "$nl", true},
		{"nl-dq", "\"$nl\"", true},
		{"trailing-nl", "\"$nl2\"", true},
		{"empty-dq", "\"\"", true},
		{"unset", "$u", true},
		{"cmdsubst", "$(echo c  s)", false},
		{"cmdsubst-dq", "\"$(echo a; echo b)\"", false},
		{"glob", "a*", false},
		{"tilde", "~", false},
		{"brace", "{a,b}", false},
		{"at", "$@", true},
		{"at-dq", "\"$@\"", true},
		{"star", "$*", false},
		{"star-dq", "\"$*\"", false},
		{"arr-at-dq", "\"${arr[@]}\"", false},
		{"arr-at", "${arr[@]}", false},
		{"mixed", "a\"b\"'c'$v", false},
		{"ansi-c", "$'t\\tb'", false},
		{"bs-in-dq", "\"a\\nb\"", false},
		{"ifs-colon", "$y", false},
		{"arith", "$((1+2))", false},
		{"dollar-dq", "\"a\\$v\"", false},
	}
	consumers := []c26RedirItem{
		{"rd", "rd <<<%W", true},
		{"read2", "read a b <<<%W\necho \"<$a><$b>\"", false},
		{"spaced", "rd <<< %W", false},
		{"group", "{ rd; } <<<%W", false},
		{"fndef", "f() { rd; } <<<%W\nf; f", false},
		{"pipe-last", "echo z | rd <<<%W", false},
		{"two", "rd <<<first <<<%W", false},
		{"while", "while read -r l; do echo \"[$l]\"; done <<<%W", false},
		{"in-cmdsubst", "x=$(rd <<<%W); echo \"x=$x\"", false},
		{"ifs", "IFS=:; rd <<<%W", false},
	}
	for _, w := range words {
		for _, c := range consumers {
			if !thorough && !(w.core && c.core) {
				continue
			}
			body := pre + strings.ReplaceAll(c.src, "%W", w.src) + "\necho \"rc=$?\""
			emit("redir-hstr["+c.name+" "+w.name+"]", c26RedirPrelude(body)+body+"\n")
		}
	}
}

// ---------------------------------------------------------------- pipelines

func c26RedirPipe(thorough bool, emit c26EmitFn) {
	// e TAG STATUS: prints TAG, also on stderr; m TAG STATUS: copies its
	// input, tagged, then the same. Every stage after the first reads all of
	// its input.
	const pre = "e() { echo $1; echo E$1 >&2; return $2; }\nm() { while IFS= read -r l; do echo \"$1<$l>\"; done; echo E$1 >&2; return $2; }\n"
	vectors := func(n int) []string {
		var out []string
		for mask := 0; mask < 1<<n; mask++ {
			s := ""
			for i := 0; i < n; i++ {
				if mask>>i&1 != 0 {
					s += strconv.Itoa(i + 2)
				} else {
					s += "0"
				}
			}
			out = append(out, s)
		}
		return out
	}
	pipeline := func(n int, bar string) string {
		s := "e a ${v:0:1}"
		for i := 1; i < n; i++ {
			s += " " + bar + " m " + string(rune('a'+i)) + " ${v:" + strconv.Itoa(i) + ":1}"
		}
		return s
	}
	fixed := func(n int, bar, v string) string {
		s := pipeline(n, bar)
		for i := 0; i < n; i++ {
			s = strings.ReplaceAll(s, "${v:"+strconv.Itoa(i)+":1}", v[i:i+1])
		}
		return s
	}
	const maxN = 3 // (4 stages x 16 vectors is 64 forks in one program: too slow for bash on a loaded machine)
	// (a) status of the pipeline: all status vectors in one program
	for n := 2; n <= maxN; n++ {
		for _, pf := range []string{"", "set -o pipefail\n"} {
			for _, neg := range []string{"", "! "} {
				for _, bar := range []string{"|", "|&"} {
					if !thorough && bar == "|&" && (n == 3 || neg != "") {
						continue
					}
					emit("redir-pipe[status n="+strconv.Itoa(n)+" pipefail="+strconv.Itoa(len(pf)/16)+" neg="+strconv.Itoa(len(neg)/2)+" "+bar+"]",
						pre+pf+"for v in "+strings.Join(vectors(n), " ")+"; do\n"+neg+pipeline(n, bar)+"\necho \"v$v:$?\"\ndone\n")
				}
			}
		}
	}
	// (b) the pipeline inside a context, one status vector per program
	ctxs := []c26RedirItem{
		{"errexit", "set -e\n%P\necho \"rc=$?\"", true},
		{"if", "if %P; then echo T; else echo \"F$?\"; fi\necho \"rc=$?\"", false},
		{"if-not", "if ! %P; then echo T; else echo \"F$?\"; fi\necho \"rc=$?\"", false},
		{"andor", "%P && echo y || echo \"n$?\"", false},
		{"errexit-andor", "set -e\n%P || echo \"n$?\"\necho \"rc=$?\"", false},
		{"fn", "f() { %P; }\nf\necho \"rc=$?\"", true},
		{"fn-errexit", "set -e\nf() { %P; echo \"in$?\"; }\nf\necho \"rc=$?\"", false},
		{"subshell", "( %P )\necho \"rc=$?\"", false},
		{"cmdsubst", "x=$(%P)\necho \"rc=$? $x\"", false},
		{"group-gt", "{ %P; } >o\necho \"rc=$?\"\nshow o", false},
		{"while-cond", "k=0; while %P; do k=x$k; [[ $k == xx0 ]] && break; done\necho \"rc=$? $k\"", false},
		{"until-cond", "k=0; until %P; do k=x$k; [[ $k == xx0 ]] && break; done\necho \"rc=$? $k\"", false},
		{"bg-wait", "%P &\nwait $!\necho \"rc=$?\"", false},
		{"nested-pipe", "{ %P; echo \"in$?\"; } | m z 0\necho \"rc=$?\"", true},
		{"last-of-list", "true; %P\necho \"rc=$?\"", false},
		{"exit-trap", "trap 'echo \"EXIT$?\"' EXIT\nset -e\n%P\necho \"rc=$?\"", false},
	}
	for _, cx := range ctxs {
		for n := 2; n <= 3; n++ {
			for _, pf := range []string{"", "set -o pipefail\n"} {
				for _, v := range vectors(n) {
					if !thorough && !(cx.core && n == 2) {
						continue
					}
					body := pf + strings.ReplaceAll(cx.src, "%P", fixed(n, "|", v))
					emit("redir-pipe[ctx "+cx.name+" pipefail="+strconv.Itoa(len(pf)/16)+" v="+v+"]", pre+c26RedirPrelude(body)+body+"\n")
				}
			}
		}
	}
	// (c) what a stage is: kind x position x failing or not, pipefail on
	kinds := []c26RedirItem{
		{"fn", "%F", true},
		{"group", "{ %F; }", true},
		{"subshell", "( %F )", false},
		{"group-exit", "{ %F; exit $?; }", false}, // not in the last position
		{"subshell-exit", "( %F; exit $? )", true},
		{"for", "for k in 1; do %F; done", false},
		{"if", "if true; then %F; fi", false},
		{"if-cond", "if %F; then true; else false; fi", false},
		{"case", "case x in x) %F;; esac", false},
		{"andor", "{ true && %F; }", true},
		{"negated-group", "{ ! %F; }", false},
		{"eval", "eval '%F'", false},
		{"cmdsubst-echo", "{ x=$(%F); s=$?; echo \"$x\"; st $s; }", false},
		{"redir-err", "%F 2>&1", true},
		{"redir-devnull", "%F >/dev/null", false},
		{"redir-file", "%F >o", false},
		{"nested", "{ %F | m n 0; }", false},
		{"bg-wait", "{ %F & wait $!; }", false},
	}
	for _, k := range kinds {
		for pos := 0; pos < 3; pos++ {
			for _, fail := range []bool{false, true} {
				if !thorough && !(k.core && (fail || pos == 1)) {
					continue
				}
				if k.name == "group-exit" && pos == 2 {
					continue // would show whether the last stage runs in a subshell
				}
				stg := []string{"e a 0", "m b 0", "m c 0"}
				if fail {
					stg[pos] = stg[pos][:4] + "5"
				}
				stg[pos] = strings.ReplaceAll(k.src, "%F", stg[pos])
				body := "st() { return $1; }\nset -o pipefail\n" + strings.Join(stg, " | ") + "\necho \"rc=$?\""
				if strings.Contains(k.src, ">o") {
					body += "\nshow o"
				}
				emit("redir-pipe[stage "+k.name+" pos="+strconv.Itoa(pos)+" fail="+strconv.FormatBool(fail)+"]", pre+c26RedirPrelude(body)+body+"\n")
			}
		}
	}
}
