package checks

import (
	"fmt"
	"os"
	"strings"

	"verif/mc/oracle"
	"verif/mc/vc"
)

func init() { Registry["C20"] = c20 }

// arCase is one C20 case: expression text Expr evaluated in context Ctx.
//
//	exp   echo $(( EXPR ))
//	cmd   (( EXPR ))
//	let   let EXPR            (blanks removed; only texts without shell metacharacters)
//	letq  let 'EXPR'
//	sub   echo "<${arr[EXPR]}>"
//	for   for ((i=0; i<EXPR; i++)); do n+=.; if [[ ${#n} -ge 6 ]]; then break; fi; done
type arCase struct {
	Ctx  string `json:"ctx"`
	Expr string `json:"expr"`
}

var (
	c20FullLeaves = []string{"0", "1", "2", "3", "7", "10", "010", "0x1F", "2#101", "16#ff", "36#z", "64#_", "08",
		"x", "y", "e", "u", "arr[0]", "arr[1]"}
	c20ParenLeaves   = []string{"(x)", "(7)"}
	c20ReducedLeaves = []string{"0", "3", "x", "y", "e", "u", "arr[1]"}
	c20MediumLeaves  = []string{"0", "1", "3", "010", "0x1F", "64#_", "08", "x", "y", "e", "u", "arr[0]", "arr[1]"}
	c20TinyLeaves    = []string{"2", "x", "y"}
	c20Contexts      = []string{"exp", "cmd", "let", "letq", "sub", "for"}
)

const (
	c20SetupE = "set -f; x=5; y=-3; e='1+2'; arr=(4 5 6)"
	c20Setup3 = "set -f; x=5; y=-3; e=3; arr=(4 5 6)" // only used to classify a divergence
	c20Dump   = `"|$?|$x|$y|$e|${u-U}|${arr[*]}|${!arr[*]}|${i-U}|${n-U}"`
	c20Init   = "5|-3|1+2|U|4 5 6|0 1 2|U|U" // the dump's variable part when nothing changed
	// the same for bash: reset before, post after each case
	c20Reset = "x=5; y=-3; e='1+2'; arr=(4 5 6); unset u i n; V=ERR"
	c20Post  = `R="$V|$__st|$x|$y|$e|${u-U}|${arr[*]}|${!arr[*]}|${i-U}|${n-U}"`
	// the loop body always succeeds: a C-style loop of the interpreter stops
	// after a body with non-zero status (seen while writing this check; that
	// is C26's business, not C20's)
	c20Loop = "do n+=.; if [[ ${#n} -ge 6 ]]; then break; fi; done"
)

// c20Text is the arithmetic text the shells see for a case.
func c20Text(t arCase) string {
	switch t.Ctx {
	case "let":
		return compactArith(t.Expr)
	case "for":
		return "i<" + t.Expr
	}
	return t.Expr
}

// c20LetWordOK reports whether the compact text can be written as an
// unquoted `let` argument with the same meaning in bash (no operator
// characters, blanks, or a `~` that bash could tilde-expand).
func c20LetWordOK(s string) bool { return !strings.ContainsAny(s, "<>&|();~ ") }

func c20Line(ctx, text string) string {
	switch ctx {
	case "exp":
		return "echo $(( " + text + " ))"
	case "cmd":
		return "(( " + text + " ))"
	case "let":
		return "let " + text
	case "letq":
		return "let '" + text + "'"
	case "sub":
		return `echo "<${arr[` + text + `]}>"`
	case "for":
		return "for ((i=0; " + text + "; i++)); " + c20Loop
	}
	panic("bad ctx")
}

func c20BashCode(t arCase) string {
	text := c20Text(t)
	switch t.Ctx {
	case "exp":
		return "printf -v V %s $(( " + text + " ))"
	case "sub":
		return `V="<${arr[` + text + `]}>"`
	}
	return "V=; " + c20Line(t.Ctx, text)
}

// arShRun is what the interpreter did with one program.
type arShRun struct {
	Kind   string // "" ran, "parse", "panic", "fatal"
	R      string // "value|status|x|y|e|u|arr|idx|i|n" like the bash side's R (Kind "")
	Stderr string
	Info   string // parse error / panic text
	Stdout string
}

// c20RunSh runs the interpreter on setup + line + dump and formats what it
// did like the bash side's R. For exp and sub the value is "ERR" when the
// echo command was not run.
func c20RunSh(ctx, setup, text string) arShRun {
	src := setup + "\n" + c20Line(ctx, text) + "\necho " + c20Dump + "\n"
	res := oracle.RunInterp(src, oracle.InterpOpts{NoExec: true})
	switch {
	case res.Panicked:
		return arShRun{Kind: "panic", Info: res.Fatal}
	case res.ParseErr != "":
		return arShRun{Kind: "parse", Info: res.ParseErr}
	case res.Fatal != "":
		return arShRun{Kind: "fatal", Info: res.Fatal, Stdout: res.Stdout}
	}
	// the dump is the last line; it starts with "|"
	body := strings.TrimSuffix(res.Stdout, "\n")
	nl := strings.LastIndexByte(body, '\n')
	dump := body[nl+1:]
	val := ""
	if nl >= 0 {
		val = body[:nl]
	}
	if !strings.HasPrefix(dump, "|") {
		return arShRun{Kind: "fatal", Info: "no dump line", Stdout: res.Stdout}
	}
	if (ctx == "exp" || ctx == "sub") && nl < 0 {
		val = "ERR" // the echo was not run
	}
	return arShRun{R: val + dump, Stderr: res.Stderr}
}

func c20(c *vc.Ctx) {
	quick := c.Quick()
	c.Rule = fmt.Sprintf("arithmetic texts E := O | O binop E | O ? E : E, O := pre* A post?, A := leaf | ( E ) (every rendering of every expression tree, with and without grouping parentheses; text-level so each text occurs once; a redundant outermost pair of parentheses is left out); cost = number of operators (20 binary, 11 assignment, ?:, 6 prefix incl. ++/--, 2 postfix); leaves full=%q (+%q for cost<=1), reduced=%q, medium=%q, tiny=%q. Enumerated: cost<=1 over the full leaves in all six contexts %q (`let` unquoted only for texts without shell metacharacters); all of cost 2 over %s in $(( )); %s. State x=5 y=-3 e='1+2' u unset arr=(4 5 6). Excluded (counted) by a big-integer reference evaluator: signed 64-bit overflow or shift count outside 0..63 reached before any error. distinct = distinct (value, status, variable state) outcomes of the interpreter",
		c20FullLeaves, c20ParenLeaves, c20ReducedLeaves, c20MediumLeaves, c20TinyLeaves, c20Contexts,
		vc.Pick(c, "the reduced leaves", "the medium leaves"), vc.Pick(c, "cost 3 not enumerated", "all of cost 3 over the tiny leaves in $(( ))"))
	c.Assumptions = []string{
		"bash 5.2.15 is the oracle; compared are the printed value (or that no value was produced = error), $? after the command, and x y e u arr (values and indices) i n afterwards; error message texts are not compared",
		"a program the interpreter rejects at parse time counts as an error; bash must then report an error for the same text, but side effects bash performs before reaching the syntax error are not compared",
		"the reference evaluator is used only to exclude overflow / out-of-range shift cases, never as an oracle",
	}
	c.Reruns = 1
	refcheck := os.Getenv("VERIF_C20_REFCHECK") != "" // development aid: compare the reference evaluator (not sh) with bash

	gen := func(emit func(arCase)) {
		full1 := newArGen(append(append([]string{}, c20FullLeaves...), c20ParenLeaves...))
		for k := 0; k <= 1; k++ {
			full1.each(k, true, func(s string) {
				for _, ctx := range c20Contexts {
					if ctx == "let" && !c20LetWordOK(compactArith(s)) {
						continue
					}
					emit(arCase{ctx, s})
				}
			})
		}
		g2 := newArGen(vc.Pick(c, c20ReducedLeaves, c20MediumLeaves))
		g2.each(2, true, func(s string) { emit(arCase{"exp", s}) })
		if !quick {
			g3 := newArGen(c20TinyLeaves)
			g3.each(3, true, func(s string) { emit(arCase{"exp", s}) })
		}
	}

	run := func(batch []arCase) []*vc.Fail {
		fails := make([]*vc.Fail, len(batch))
		var cases []oracle.EvalCase
		var idx []int
		var runs []arShRun
		for i, t := range batch {
			// exclusion by the reference evaluator
			st := newArRefState()
			if t.Ctx == "for" {
				st.vars["i"] = "0"
			}
			rv, outc, _ := arRefEval(st, c20Text(t))
			if outc == arRefExcluded {
				c.Count("excluded_overflow_or_shift", 1)
				continue
			}
			if refcheck {
				if t.Ctx == "exp" {
					a := func(k string) string { return st.vars[k] }
					u := "U"
					if v, ok := st.vars["u"]; ok {
						u = v
					}
					want := fmt.Sprintf("%d|0|%s|%s|%s|%s|%s %s %s|0 1 2|U|U", rv, a("x"), a("y"), a("e"), u, a("arr[0]"), a("arr[1]"), a("arr[2]"))
					if outc == arRefError {
						want = "ERR|1|*"
					}
					cases = append(cases, oracle.EvalCase{Code: c20BashCode(t), Want: want})
					idx = append(idx, i)
					runs = append(runs, arShRun{Kind: "ref"})
				}
				continue
			}
			r := c20RunSh(t.Ctx, c20SetupE, c20Text(t))
			key := fmt.Sprintf("%s %q", t.Ctx, t.Expr)
			switch r.Kind {
			case "panic":
				fails[i] = &vc.Fail{Key: key + " panic", Class: c20PanicClass(t, r.Info), Msg: fmt.Sprintf("%s: interpreter panicked on %q: %s", t.Ctx, c20Line(t.Ctx, c20Text(t)), firstLine(r.Info)), Detail: r.Info}
				continue
			case "fatal":
				fails[i] = &vc.Fail{Key: key + " fatal", Msg: fmt.Sprintf("%s: interpreter failed on %q: %s (stdout %q)", t.Ctx, c20Line(t.Ctx, c20Text(t)), r.Info, r.Stdout)}
				continue
			case "parse":
				// bash must report an error too; ask for the value in $(( ))
				// form, where an error is distinguishable from a zero value
				c.Count("sh_parse_error", 1)
				cases = append(cases, oracle.EvalCase{Code: "printf -v V %s $(( " + c20Text(t) + " ))", Want: "PARSE"})
			default:
				c.Distinct(r.R)
				if outc == arRefValue && strings.Count(t.Expr, " ") >= 4 {
					c.Sample(map[string]any{"ctx": t.Ctx, "expr": t.Expr, "sh": r.R})
				}
				cases = append(cases, oracle.EvalCase{Code: c20BashCode(t), Want: r.R})
			}
			idx = append(idx, i)
			runs = append(runs, r)
		}
		diffs, err := oracle.BashTopBatch("set -f", c20Reset, c20Post, cases, "")
		if err != nil {
			panic(err)
		}
		for _, d := range diffs {
			i := idx[d.Index]
			t := batch[i]
			r := runs[d.Index]
			key := fmt.Sprintf("%s %q", t.Ctx, t.Expr)
			line := c20Line(t.Ctx, c20Text(t))
			switch r.Kind {
			case "ref":
				want := cases[d.Index].Want
				if strings.HasSuffix(want, "*") && strings.HasPrefix(d.Got, strings.TrimSuffix(want, "*")) {
					continue
				}
				fails[i] = &vc.Fail{Key: key + " ref", Msg: fmt.Sprintf("REFCHECK %q: ref %s, bash %s", t.Expr, want, d.Got)}
			case "parse":
				if strings.HasPrefix(d.Got, "ERR|1|") {
					continue // error in both
				}
				fails[i] = &vc.Fail{Key: key + " sh=parse-error", Class: c20Class(t, r, d.Got),
					Msg: fmt.Sprintf("%s: %q is rejected by the parser (%s) but bash evaluates %q to %s", t.Ctx, line, oneLineErr(r.Info), c20Text(t), d.Got)}
			default:
				fails[i] = &vc.Fail{Key: key + " sh=" + r.R, Class: c20Class(t, r, d.Got),
					Msg: fmt.Sprintf("%s: %q gives value|status|x|y|e|u|arr|idx|i|n = %s, bash %s", t.Ctx, line, r.R, d.Got)}
			}
		}
		return fails
	}

	complete := vc.RunBatch(c, 1500, gen, run)
	c.Finish(complete)
}

func oneLineErr(s string) string { return strings.ReplaceAll(s, "\n", " ") }

func firstLine(s string) string {
	if i := strings.IndexByte(s, '\n'); i >= 0 {
		return s[:i]
	}
	return s
}
