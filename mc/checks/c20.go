package checks

import (
	"fmt"
	"os"
	"strconv"
	"strings"

	"verif/mc/oracle"
	"verif/mc/vc"
)

func init() { Registry["C20"] = c20 }

// arCase is one C20 case: expression text Expr evaluated in context Ctx.
//
//	exp   echo $(( EXPR ))
//	cmd   (( EXPR ))
//	let   let EXPR            (blanks removed; only texts without shell metacharacters)
//	letq  let 'EXPR'
//	sub   echo "<${arr[EXPR]}>"
//	for   for ((i=0; i<EXPR; i++)); do n+=.; if [[ ${#n} -ge 6 ]]; then break; fi; done
//	forc  for ((i=0; EXPR; i++)); do ...the same body...; done
//
// With HasV the variable v is set to the text V before (the value sweeps).
type arCase struct {
	Ctx  string `json:"ctx"`
	Expr string `json:"expr"`
	V    string `json:"v,omitempty"`
	HasV bool   `json:"hasv,omitempty"`
}

var (
	c20FullLeaves = []string{"0", "1", "2", "3", "7", "10", "010", "0x1F", "2#101", "16#ff", "36#z", "64#_", "08",
		"x", "y", "e", "u", "arr[0]", "arr[1]"}
	c20ParenLeaves   = []string{"(x)", "(7)"}
	c20ReducedLeaves = []string{"3", "x", "e", "u", "arr[1]"}
	// one operator of (nearly) every precedence level, for cost 3
	c20RepBinops  = []string{",", "=", "||", "&&", "|", "&", "==", "<", "<<", "-", "/", "**"}
	c20RepPreOps  = []string{"!", "-", "++"}
	c20RepPostOps = []string{"--"}
	c20TinyLeaves = []string{"2", "x", "y"}
	c20TwoLeaves  = []string{"2", "x"}
	c20Contexts   = []string{"exp", "cmd", "let", "letq", "sub", "for", "forc"}

	// literal sweep: every "0"+s, s of <= 3 characters of the first alphabet
	// (octal, hex, invalid digits), and every B#D with B of the list and D of
	// <= 2 characters of the second alphabet
	c20ZeroAlphabet  = []string{"0", "7", "8", "9", "x", "X", "a", "F", "g"}
	c20Bases         = []string{"0", "1", "2", "8", "10", "16", "36", "37", "62", "63", "64", "65", "010", "0x10"}
	c20DigitAlphabet = []string{"0", "1", "9", "a", "z", "A", "Z", "@", "_"}
	c20PlainLits     = []string{"9223372036854775807", "9223372036854775808", "00000000000000000000001", "1_0", "1@", "7a"}

	// value sweep: v holds one of these texts and is used in each of the
	// expressions
	c20Values = []string{"", " ", "7", " 7 ", "-7", "+7", "- 7", "010", "0x1F", "08", "2#101", "2#102", "3x", "1 2",
		"x", "y", "u", "e", "v", "1+2", "x+1", "x*2+1", "(1+2)", "x=9", "x++", "++x", "arr[1]", "arr[x-4]",
		"1/0", "2**-1", "1,2", "1?2:3", "x==5", "!x", "~x", "$x", "1+", "a b"}
	c20ValueExprs = []string{"v", "-v", "!v", "v + 1", "v * 2", "2 * v", "2 ** v", "v ? 1 : 2", "0 && v", "x = v", "x += v", "(v)", "v , 1", "arr[v]"}
	c20ValueCtxs  = []string{"exp", "cmd", "sub", "forc"}
)

const (
	c20SetupE = "set -f; x=5; y=-3; e='1+2'; arr=(4 5 6)"
	c20Setup3 = "set -f; x=5; y=-3; e=3; arr=(4 5 6)" // only used to classify a divergence
	c20Dump   = `"|$?|$x|$y|$e|${u-U}|${arr[*]}|${!arr[*]}|${i-U}|${n-U}"`
	// the same for bash: reset before, post after each case
	c20Reset = "x=5; y=-3; e='1+2'; arr=(4 5 6); unset u i n v; V=ERR"
	c20Post  = `R="$V|$__st|$x|$y|$e|${u-U}|${arr[*]}|${!arr[*]}|${i-U}|${n-U}|$__e"`
	// the loop body always succeeds: a C-style loop of the interpreter stops
	// after a body with non-zero status (seen while writing this check; that
	// is C26's business, not C20's)
	c20Loop = "do n+=.; if [[ ${#n} -ge 6 ]]; then break; fi; done"
	// number of fields of an observation: value status x y e u arr idx i n errflag
	c20NF = 11
)

// c20Text is the arithmetic text the shells see for a case.
func c20Text(t arCase) string {
	switch t.Ctx {
	case "let":
		return compactArith(t.Expr)
	case "for":
		return "i<" + t.Expr
	}
	return t.Expr
}

// c20LetWordOK reports whether the compact text can be written as an
// unquoted `let` argument with the same meaning in bash (no operator
// characters, blanks, or a `~` that bash could tilde-expand).
func c20LetWordOK(s string) bool { return !strings.ContainsAny(s, "<>&|();~ ") }

func c20Line(ctx, text string) string {
	switch ctx {
	case "exp":
		return "echo $(( " + text + " ))"
	case "cmd":
		return "(( " + text + " ))"
	case "let":
		return "let " + text
	case "letq":
		return "let '" + text + "'"
	case "sub":
		return `echo "<${arr[` + text + `]}>"`
	case "for", "forc":
		return "for ((i=0; " + text + "; i++)); " + c20Loop
	}
	panic("bad ctx")
}

func c20BashCode(t arCase) string {
	text := c20Text(t)
	pre := ""
	if t.HasV {
		pre = "v=" + oracle.ShQuote(t.V) + "; "
	}
	switch t.Ctx {
	case "exp":
		return pre + "printf -v V %s $(( " + text + " ))"
	case "sub":
		return pre + `V="<${arr[` + text + `]}>"`
	}
	return pre + "V=; " + c20Line(t.Ctx, text)
}

func c20Setup(setup string, t arCase) string {
	if t.HasV {
		return setup + "; v=" + oracle.ShQuote(t.V)
	}
	return setup
}

// arShRun is what the interpreter did with one program.
type arShRun struct {
	Kind   string // "" ran, "parse", "panic", "fatal"
	R      string // "value|status|x|y|e|u|arr|idx|i|n|errflag" like the bash side's R (Kind "")
	Stderr string
	Info   string // parse error / panic text
	Stdout string
}

// c20RunSh runs the interpreter on setup + line + dump and formats what it
// did like the bash side's R. For exp and sub the value is "ERR" when the
// echo command was not run. The error flag is "E" when the interpreter wrote
// a diagnostic.
func c20RunSh(ctx, setup, text string) arShRun {
	src := setup + "\n" + c20Line(ctx, text) + "\necho " + c20Dump + "\n"
	res := oracle.RunInterpNoStdin(src)
	switch {
	case res.Panicked:
		return arShRun{Kind: "panic", Info: res.Fatal}
	case res.ParseErr != "":
		return arShRun{Kind: "parse", Info: res.ParseErr}
	case res.Fatal != "":
		return arShRun{Kind: "fatal", Info: res.Fatal, Stdout: res.Stdout}
	}
	// the dump is the last line; it starts with "|"
	body := strings.TrimSuffix(res.Stdout, "\n")
	nl := strings.LastIndexByte(body, '\n')
	dump := body[nl+1:]
	val := ""
	if nl >= 0 {
		val = body[:nl]
	}
	if !strings.HasPrefix(dump, "|") {
		return arShRun{Kind: "fatal", Info: "no dump line", Stdout: res.Stdout}
	}
	if (ctx == "exp" || ctx == "sub") && nl < 0 {
		val = "ERR" // the echo was not run
	}
	flag := "-"
	if res.Stderr != "" {
		flag = "E"
	}
	return arShRun{R: val + dump + "|" + flag, Stderr: res.Stderr}
}

// c20RefRun asks the reference evaluator whether the case is outside the
// property's quantifier (overflow / shift count reached before any error in
// any evaluation the context performs). For $(( )) it also returns the
// observation the reference predicts, which is compared with bash (never with
// the interpreter) to validate the reference itself.
func c20RefRun(t arCase) (outc arRefOutcome, predicted string) {
	st := newArRefState()
	if t.HasV {
		st.vars["v"] = t.V
	}
	text := c20Text(t)
	switch t.Ctx {
	case "for", "forc":
		st.vars["i"] = "0"
		for n := 0; ; {
			v, o, _ := arRefEval(st, text)
			if o != arRefValue {
				return o, ""
			}
			if v == 0 {
				break
			}
			if n++; n >= 6 {
				break
			}
			if _, o, _ := arRefEval(st, "i++"); o != arRefValue {
				return o, ""
			}
		}
		return arRefValue, ""
	}
	rv, o, _ := arRefEval(st, text)
	if o != arRefValue || t.Ctx != "exp" || st.unpredicted {
		return o, ""
	}
	a := func(k string) string { return st.vars[k] }
	u := "U"
	if v, ok := st.vars["u"]; ok {
		u = v
	}
	for k := range st.vars {
		if strings.HasPrefix(k, "arr[") && k != "arr[0]" && k != "arr[1]" && k != "arr[2]" {
			return o, "" // an element outside 0..2 was created: not predicted
		}
	}
	return o, fmt.Sprintf("%d|0|%s|%s|%s|%s|%s %s %s|0 1 2|U|U|-", rv, a("x"), a("y"), a("e"), u, a("arr[0]"), a("arr[1]"), a("arr[2]"))
}

func c20Key(t arCase) string {
	if t.HasV {
		return fmt.Sprintf("%s %q v=%q", t.Ctx, t.Expr, t.V)
	}
	return fmt.Sprintf("%s %q", t.Ctx, t.Expr)
}

func c20Show(t arCase) string {
	line := c20Line(t.Ctx, c20Text(t))
	if t.HasV {
		return "v=" + oracle.ShQuote(t.V) + "; " + line
	}
	return line
}

func c20(c *vc.Ctx) {
	quick := c.Quick()
	c.Rule = fmt.Sprintf("arithmetic texts E := O | O binop E | O ? E : E, O := pre* A post?, A := leaf | ( E ) (every rendering of every expression tree, with and without grouping parentheses; text-level so each text occurs once; a redundant outermost pair of parentheses is left out); cost = number of operators (20 binary, 11 assignment, ?:, 6 prefix incl. ++/--, 2 postfix); leaves full=%q (+%q for cost<=1), reduced=%q, tiny=%q. Enumerated, in this order: (0) the precedence matrix in $(( )): `a op1 b op2 c` for every ordered pair of the 31 binary/assignment operators, `a op b ? c : d` and `a ? b : c op d` for every binary operator, `a ? b : c ? d : e`, `pre a op b` for every prefix and binary operator, each with the first %d leaf tuples over %q (in that order) for which the reference evaluator says that the two groupings are inside the quantifier and differ in value or variable state (tuples where both groupings are values first; the first tuple when no tuple tells them apart); (1) cost<=1 over the full leaves in all seven contexts %q (`let` unquoted only for texts without shell metacharacters); (2) all of cost 2 over %s in $(( )); (3) %s; (4) literal sweep in $(( )), as the text itself and as the value of a variable: \"0\"+s for every s of <=3 characters of %q, B#D for B in %q and every D of <=2 characters of %q, and %q; (5) value sweep: v holding each of %q, used in each of %q in contexts %q. State x=5 y=-3 e='1+2' u unset arr=(4 5 6). Excluded (counted) by a big-integer reference evaluator: signed 64-bit overflow or shift count outside 0..63 reached before any error. distinct = distinct (value, status, variable state) outcomes of the interpreter",
		c20FullLeaves, c20ParenLeaves, c20ReducedLeaves, c20TinyLeaves, c20PrecPerPair, c20PrecLeaves, c20Contexts,
		vc.Pick(c, "the tiny leaves", "the reduced leaves"), vc.Pick(c, "cost 3 not enumerated", fmt.Sprintf("all of cost 3 over the leaves 2 and x in $(( )) with the operators restricted to one of (nearly) every precedence level: binary %q, prefix %q, postfix %q", c20RepBinops, c20RepPreOps, c20RepPostOps)),
		c20ZeroAlphabet, c20Bases, c20DigitAlphabet, c20PlainLits, c20Values, c20ValueExprs, c20ValueCtxs)
	c.Assumptions = []string{
		"bash 5.2.15 is the oracle; compared are the printed value (or that no value was produced = error), $? after the command, whether a diagnostic was written (this tells an error from a zero value in (( )) and let), and x y e u arr (values and indices) i n afterwards; error message texts are not compared",
		"a program the interpreter rejects at parse time counts as an error; bash must then report an error for the same text, but side effects bash performs before reaching the syntax error are not compared",
		"the reference evaluator is used only to exclude overflow / out-of-range shift cases and to choose the operand values of the precedence matrix (inputs), never as an oracle; it is itself compared with bash on every $(( )) case it does not exclude (ref_checked), a disagreement is reported as a failure of the case. Besides, two class predicates ask it whether the error bash reported was raised inside an operand bash does not evaluate (this only names a failure, it never makes a case pass)",
	}
	c.Reruns = 1

	// development aid (makes the run non-exhaustive): VERIF_C20_ONLY=sweeps
	// keeps the literal and value sweeps, =exp1 the cost<=1 texts in $(( ))
	only := os.Getenv("VERIF_C20_ONLY")
	if only != "" {
		c.CapNote("VERIF_C20_ONLY=%s: part of the space only", only)
	}
	gen := func(emit0 func(arCase)) {
		emit := func(t arCase) {
			switch only {
			case "sweeps":
				if !t.HasV && strings.Contains(t.Expr, " ") || !t.HasV && t.Ctx != "exp" {
					return
				}
			case "exp1":
				if t.HasV || t.Ctx != "exp" || strings.Count(t.Expr, " ") > 4 {
					return
				}
			}
			emit0(t)
		}
		// (0) the precedence matrix first: a budget-limited run must decide
		// how every two operators group before it spends its time on the
		// (much larger) one-operator sweep
		inMatrix := map[string]bool{}
		c20PrecMatrix(func(s string) {
			inMatrix[s] = true
			c.Count("precedence_matrix_texts", 1)
			emit(arCase{Ctx: "exp", Expr: s})
		})
		full1 := newArGen(append(append([]string{}, c20FullLeaves...), c20ParenLeaves...))
		for k := 0; k <= 1; k++ {
			full1.each(k, true, func(s string) {
				for _, ctx := range c20Contexts {
					if ctx == "let" && !c20LetWordOK(compactArith(s)) {
						continue
					}
					emit(arCase{Ctx: ctx, Expr: s})
				}
			})
		}
		for _, l := range c20Literals() {
			emit(arCase{Ctx: "exp", Expr: l})
			emit(arCase{Ctx: "exp", Expr: "v", V: l, HasV: true})
		}
		for _, v := range c20Values {
			for _, e := range c20ValueExprs {
				for _, ctx := range c20ValueCtxs {
					emit(arCase{Ctx: ctx, Expr: e, V: v, HasV: true})
				}
			}
		}
		g2 := newArGen(vc.Pick(c, c20TinyLeaves, c20ReducedLeaves))
		g2.each(2, true, func(s string) {
			if !inMatrix[s] { // each text once
				emit(arCase{Ctx: "exp", Expr: s})
			}
		})
		if !quick {
			g3 := newArGen(c20TwoLeaves)
			g3.binops, g3.pre, g3.post = c20RepBinops, c20RepPreOps, c20RepPostOps
			g3.each(3, true, func(s string) { emit(arCase{Ctx: "exp", Expr: s}) })
		}
	}

	countOnly := os.Getenv("VERIF_C20_COUNT") != "" // development aid: size of the space per sweep
	run := func(batch []arCase) []*vc.Fail {
		fails := make([]*vc.Fail, len(batch))
		if countOnly {
			for _, t := range batch {
				c.Count(fmt.Sprintf("n_%s_cost%d_v%v", t.Ctx, strings.Count(t.Expr, " ")/2, t.HasV), 1)
			}
			return fails
		}
		var cases []oracle.EvalCase
		var idx []int
		var runs []arShRun
		var preds []string
		var outcs []arRefOutcome
		for i, t := range batch {
			// exclusion by the reference evaluator
			outc, pred := c20RefRun(t)
			if outc == arRefExcluded {
				c.Count("excluded_overflow_or_shift", 1)
				continue
			}
			r := c20RunSh(t.Ctx, c20Setup(c20SetupE, t), c20Text(t))
			key := c20Key(t)
			switch r.Kind {
			case "panic":
				fails[i] = &vc.Fail{Key: key + " panic", Msg: fmt.Sprintf("%s: interpreter panicked on %q: %s", t.Ctx, c20Show(t), firstLine(r.Info)), Detail: r.Info}
				continue
			case "fatal":
				fails[i] = &vc.Fail{Key: key + " fatal", Msg: fmt.Sprintf("%s: interpreter failed on %q: %s (stdout %q)", t.Ctx, c20Show(t), r.Info, r.Stdout)}
				continue
			case "parse":
				// bash must report an error too
				c.Count("sh_parse_error", 1)
				cases = append(cases, oracle.EvalCase{Code: c20BashCode(t), Want: "PARSE"})
			default:
				c.Distinct(r.R)
				if outc == arRefValue && strings.Count(t.Expr, " ") >= 4 {
					c.Sample(map[string]any{"ctx": t.Ctx, "expr": t.Expr, "sh": r.R})
				}
				cases = append(cases, oracle.EvalCase{Code: c20BashCode(t), Want: r.R})
			}
			idx = append(idx, i)
			runs = append(runs, r)
			preds = append(preds, pred)
			outcs = append(outcs, outc)
		}
		diffs, err := oracle.BashTopBatch("set -f", c20Reset, c20Post, cases, "")
		if err != nil {
			panic(err)
		}
		bashR := make([]string, len(cases))
		for j := range cases {
			bashR[j] = cases[j].Want
		}
		for _, d := range diffs {
			bashR[d.Index] = d.Got
		}
		for j := range cases {
			i := idx[j]
			t := batch[i]
			r := runs[j]
			bf := c20Fields(bashR[j])
			if len(bf) != c20NF {
				fails[i] = &vc.Fail{Key: c20Key(t) + " harness", Msg: fmt.Sprintf("%s: %q: unexpected observation from bash: %q", t.Ctx, c20Show(t), bashR[j])}
				continue
			}
			// validate the reference evaluator against bash
			if t.Ctx == "exp" {
				switch {
				case outcs[j] == arRefValue && preds[j] != "":
					c.Count("ref_checked", 1)
					if preds[j] != bashR[j] {
						fails[i] = &vc.Fail{Key: c20Key(t) + " ref", Msg: fmt.Sprintf("REFERENCE evaluator disagrees with bash on %q: ref %s, bash %s", c20Show(t), preds[j], bashR[j])}
						continue
					}
				case outcs[j] == arRefError:
					c.Count("ref_checked", 1)
					if bf[0] != "ERR" || bf[10] != "E" {
						fails[i] = &vc.Fail{Key: c20Key(t) + " ref", Msg: fmt.Sprintf("REFERENCE evaluator disagrees with bash on %q: ref error, bash %s", c20Show(t), bashR[j])}
						continue
					}
				}
			}
			if bf[10] == "E" {
				c.Count("bash_reports_error", 1)
			}
			switch {
			case r.Kind == "parse":
				if bf[10] == "E" {
					continue // error in both
				}
				cl, why := c20Classify(t, r, bf)
				fails[i] = &vc.Fail{Key: c20Key(t) + " sh=parse-error", Class: cl,
					Msg: fmt.Sprintf("%s: %q is rejected by the parser (%s) but bash gives value|status|x|y|e|u|arr|idx|i|n|err = %s%s", t.Ctx, c20Show(t), oneLineErr(r.Info), bashR[j], why)}
			case r.R != bashR[j]:
				cl, why := c20Classify(t, r, bf)
				fails[i] = &vc.Fail{Key: c20Key(t) + " sh=" + r.R, Class: cl,
					Msg: fmt.Sprintf("%s: %q gives value|status|x|y|e|u|arr|idx|i|n|err = %s, bash %s%s", t.Ctx, c20Show(t), r.R, bashR[j], why)}
			}
		}
		return fails
	}

	complete := vc.RunBatch(c, 1500, gen, run)
	c.Finish(complete)
}

// c20Literals is the literal sweep.
func c20Literals() []string {
	var out []string
	var rec func(prefix string, alphabet []string, n int)
	rec = func(prefix string, alphabet []string, n int) {
		out = append(out, prefix)
		if n == 0 {
			return
		}
		for _, a := range alphabet {
			rec(prefix+a, alphabet, n-1)
		}
	}
	rec("0", c20ZeroAlphabet, 3)
	for _, b := range c20Bases {
		rec(b+"#", c20DigitAlphabet, 2)
	}
	out = append(out, c20PlainLits...)
	for i := 0; i <= 66; i++ { // every base with one valid and one invalid digit
		out = append(out, strconv.Itoa(i)+"#1", strconv.Itoa(i)+"#"+string(c20DigitOf(i-1)), strconv.Itoa(i)+"#"+string(c20DigitOf(i)))
	}
	seen := map[string]bool{}
	uniq := out[:0]
	for _, l := range out {
		if !seen[l] {
			seen[l] = true
			uniq = append(uniq, l)
		}
	}
	return uniq
}

// c20DigitOf is bash's digit character for value d in bases > 36 (0-9 a-z A-Z @ _).
func c20DigitOf(d int) byte {
	const digits = "0123456789abcdefghijklmnopqrstuvwxyzABCDEFGHIJKLMNOPQRSTUVWXYZ@_"
	if d < 0 {
		return '0'
	}
	if d >= len(digits) {
		return '_'
	}
	return digits[d]
}

func oneLineErr(s string) string { return strings.ReplaceAll(s, "\n", " ") }

func firstLine(s string) string {
	if i := strings.IndexByte(s, '\n'); i >= 0 {
		return s[:i]
	}
	return s
}
