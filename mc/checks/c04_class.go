package checks

import (
	"strings"

	"mvdan.cc/sh/v3/syntax"

	"verif/mc/synt"
)

// Classes of known defect families. Each predicate looks at the ORIGINAL tree
// (which rewrite applies where) and, where needed, the tree after one
// Simplify pass, plus the clause that failed. Anything else stays an
// unclassified violation.

// c04Shape is what the classifier extracts from the pair of trees.
type c04Shape struct {
	// $"..." literal turned into $'...' whose value contains a backslash
	dollarDQToAnsiC bool
	// "..." literal turned into '...' in a place where single quotes are
	// literal: inside a double-quoted or here-document parameter expansion
	dqToSQInsideDQ, dqToSQInsideHeredoc bool
	// a subscript of an array the program declares associative was rewritten
	assocSubscriptRewritten bool
	// the simplified tree has a slice offset that prints starting with a
	// name (zsh reads ${s:name} as a modifier) / with ++ or -- (read as ${s:+..} / ${s:-..})
	sliceOffsetStartsWithName, sliceOffsetStartsWithIncDec bool
	// an arithmetic expression both assigns v and contains an inlined $v
	inlinedParamIsAssignedInSameExpr bool
	// $LINENO is inlined
	inlinedLINENO bool
}

// c04Leftmost tells how the printed form of x begins: "name" (a literal
// starting with a letter or underscore), "incdec" (prefix ++ or --) or "".
func c04Leftmost(x syntax.ArithmExpr) string {
	for {
		switch y := x.(type) {
		case *syntax.BinaryArithm:
			x = y.X
		case *syntax.UnaryArithm:
			if y.Post {
				x = y.X
				continue
			}
			if y.Op == syntax.Inc || y.Op == syntax.Dec {
				return "incdec"
			}
			return ""
		case *syntax.Word:
			if len(y.Parts) > 0 {
				if lit, ok := y.Parts[0].(*syntax.Lit); ok && lit.Value != "" {
					if c := lit.Value[0]; c == '_' || c >= 'a' && c <= 'z' || c >= 'A' && c <= 'Z' {
						return "name"
					}
				}
			}
			return ""
		default:
			return ""
		}
	}
}

// c04Inlinable reports the name if x is a word Simplify would turn from
// $name / ${name} into name.
func c04Inlinable(x syntax.ArithmExpr) string {
	w, _ := x.(*syntax.Word)
	if w == nil || len(w.Parts) != 1 {
		return ""
	}
	pe, _ := w.Parts[0].(*syntax.ParamExp)
	if pe == nil || pe.Param == nil || !syntax.ValidName(pe.Param.Value) {
		return ""
	}
	if pe.Excl || pe.Length || pe.Width || pe.IsSet || pe.Flags != nil || pe.NestedParam != nil || pe.Index != nil || len(pe.Modifiers) > 0 || pe.Slice != nil || pe.Repl != nil || pe.Names != 0 || pe.Exp != nil {
		return ""
	}
	return pe.Param.Value
}

func c04StripParens(x syntax.ArithmExpr) syntax.ArithmExpr {
	for {
		p, _ := x.(*syntax.ParenArithm)
		if p == nil {
			return x
		}
		x = p.X
	}
}

// c04ArithNames collects, for the arithmetic expression tree under root, the
// names written (assignment operators, ++, --) and the names of the $v words
// at the places where Simplify inlines them.
func c04ArithNames(root syntax.ArithmExpr, top bool, written, inlined map[string]bool) {
	nameOf := func(x syntax.ArithmExpr) string {
		x = c04StripParens(x)
		w, _ := x.(*syntax.Word)
		if w == nil || len(w.Parts) != 1 {
			return ""
		}
		switch p := w.Parts[0].(type) {
		case *syntax.Lit:
			return p.Value
		case *syntax.ParamExp:
			if p.Param != nil && p.Short && !p.Dollar.IsValid() { // arr[i]
				return p.Param.Value
			}
		}
		return ""
	}
	inl := func(x syntax.ArithmExpr, strip bool) {
		if strip {
			x = c04StripParens(x)
		}
		if n := c04Inlinable(x); n != "" {
			inlined[n] = true
		}
	}
	if top {
		inl(root, true)
	}
	switch x := root.(type) {
	case *syntax.BinaryArithm:
		switch x.Op {
		case syntax.Assgn, syntax.AddAssgn, syntax.SubAssgn, syntax.MulAssgn, syntax.QuoAssgn, syntax.RemAssgn, syntax.AndAssgn, syntax.OrAssgn, syntax.XorAssgn, syntax.ShlAssgn, syntax.ShrAssgn:
			if n := nameOf(x.X); n != "" {
				written[n] = true
			}
		}
		inl(x.X, false)
		inl(x.Y, false)
		c04ArithNames(x.X, false, written, inlined)
		c04ArithNames(x.Y, false, written, inlined)
	case *syntax.UnaryArithm:
		if x.Op == syntax.Inc || x.Op == syntax.Dec {
			if n := nameOf(x.X); n != "" {
				written[n] = true
			}
		}
		c04ArithNames(x.X, false, written, inlined)
	case *syntax.ParenArithm:
		inl(x.X, true)
		c04ArithNames(x.X, false, written, inlined)
	case *syntax.Word:
		// nested $(( )) and subscripts are expressions of their own but are
		// evaluated as part of this one
		syntax.Walk(x, func(n syntax.Node) bool {
			switch n := n.(type) {
			case *syntax.ArithmExp:
				c04ArithNames(n.X, true, written, inlined)
				return false
			case *syntax.ParamExp:
				if n.Index != nil {
					c04ArithNames(n.Index, false, written, inlined)
				}
			}
			return true
		})
	}
}

func c04Shapes(orig, simp *syntax.File, assoc map[string]bool) c04Shape {
	var sh c04Shape
	// --- quotes: where were the double-quoted literals of the original?
	type dqInfo struct {
		dollar        bool
		inDQ, inHdoc  bool
	}
	dqs := map[uint]dqInfo{}
	hdocs := map[*syntax.Word]bool{}
	syntax.Walk(orig, func(n syntax.Node) bool {
		if r, ok := n.(*syntax.Redirect); ok && r.Hdoc != nil {
			hdocs[r.Hdoc] = true
		}
		return true
	})
	var stack []syntax.Node
	syntax.Walk(orig, func(n syntax.Node) bool {
		if n == nil {
			stack = stack[:len(stack)-1]
			return true
		}
		if dq, ok := n.(*syntax.DblQuoted); ok {
			info := dqInfo{dollar: dq.Dollar}
			for _, a := range stack {
				switch a := a.(type) {
				case *syntax.DblQuoted:
					info.inDQ = true
				case *syntax.Word:
					if hdocs[a] {
						info.inHdoc = true
					}
				case *syntax.CmdSubst, *syntax.ProcSubst:
					info.inDQ, info.inHdoc = false, false // a new quoting context
				}
			}
			dqs[dq.Pos().Offset()] = info
		}
		stack = append(stack, n)
		return true
	})
	syntax.Walk(simp, func(n syntax.Node) bool {
		sq, ok := n.(*syntax.SglQuoted)
		if !ok {
			return true
		}
		info, was := dqs[sq.Pos().Offset()]
		if !was {
			return true
		}
		if info.dollar && sq.Dollar && strings.Contains(sq.Value, `\`) {
			sh.dollarDQToAnsiC = true
		}
		if info.inDQ {
			sh.dqToSQInsideDQ = true
		}
		if info.inHdoc {
			sh.dqToSQInsideHeredoc = true
		}
		return true
	})
	// --- subscripts of associative arrays
	subs := func(f *syntax.File) map[uint]string {
		m := map[uint]string{}
		syntax.Walk(f, func(n syntax.Node) bool {
			switch n := n.(type) {
			case *syntax.ParamExp:
				if n.Param != nil && assoc[n.Param.Value] && n.Index != nil {
					m[n.Param.Pos().Offset()] = synt.Dump(n.Index, synt.DumpOpts{})
				}
			case *syntax.Assign:
				if n.Name != nil && assoc[n.Name.Value] && n.Index != nil {
					m[n.Name.Pos().Offset()] = synt.Dump(n.Index, synt.DumpOpts{})
				}
			}
			return true
		})
		return m
	}
	s0, s1 := subs(orig), subs(simp)
	for k, v := range s0 {
		if s1[k] != v {
			sh.assocSubscriptRewritten = true
		}
	}
	// --- slice offsets of the simplified tree
	syntax.Walk(simp, func(n syntax.Node) bool {
		pe, ok := n.(*syntax.ParamExp)
		if !ok || pe.Slice == nil || pe.Slice.Offset == nil {
			return true
		}
		switch c04Leftmost(pe.Slice.Offset) {
		case "name":
			sh.sliceOffsetStartsWithName = true
		case "incdec":
			sh.sliceOffsetStartsWithIncDec = true
		}
		return true
	})
	// --- arithmetic expressions of the original
	root := func(x syntax.ArithmExpr) {
		if x == nil {
			return
		}
		written, inlined := map[string]bool{}, map[string]bool{}
		c04ArithNames(x, true, written, inlined)
		for n := range inlined {
			if written[n] {
				sh.inlinedParamIsAssignedInSameExpr = true
			}
			if n == "LINENO" {
				sh.inlinedLINENO = true
			}
		}
	}
	syntax.Walk(orig, func(n syntax.Node) bool {
		switch n := n.(type) {
		case *syntax.ArithmExp:
			root(n.X)
			return false
		case *syntax.ArithmCmd:
			root(n.X)
			return false
		case *syntax.LetClause:
			for _, x := range n.Exprs {
				root(x)
			}
			return false
		case *syntax.CStyleLoop:
			root(n.Init)
			root(n.Cond)
			root(n.Post)
			return false
		case *syntax.ParamExp:
			if n.Slice != nil {
				root(n.Slice.Offset)
				root(n.Slice.Length)
			}
			if n.Index != nil {
				// only binary operands are inlined below a subscript
				written, inlined := map[string]bool{}, map[string]bool{}
				c04ArithNames(n.Index, false, written, inlined)
				for v := range inlined {
					if written[v] {
						sh.inlinedParamIsAssignedInSameExpr = true
					}
				}
			}
		}
		return true
	})
	return sh
}

// c04AssocNames: arrays the program declares with `declare -A`.
func c04AssocNames(f *syntax.File) map[string]bool {
	m := map[string]bool{}
	syntax.Walk(f, func(n syntax.Node) bool {
		d, ok := n.(*syntax.DeclClause)
		if !ok {
			return true
		}
		isA := false
		for _, a := range d.Args {
			if a.Naked && a.Value != nil && strings.HasPrefix(a.Value.Lit(), "-") && strings.Contains(a.Value.Lit(), "A") {
				isA = true
			}
		}
		if isA {
			for _, a := range d.Args {
				if a.Name != nil {
					m[a.Name.Value] = true
				}
			}
		}
		return true
	})
	return m
}

// c04Classify assigns the narrow classes of known defect families.
func c04Classify(w *c04Work) {
	if w.fail == nil || w.fail.Class != "" || w.orig == nil || w.simp == nil || w.clause == "" {
		return
	}
	sh := c04Shapes(w.orig, w.simp, c04AssocNames(w.orig))
	clause := w.clause
	switch {
	case sh.dollarDQToAnsiC && (clause == "roundtrip" || clause == "interp" || clause == "bash"):
		w.fail.Class = "dollar-dq-literal-becomes-ansi-c-string"
	case (sh.dqToSQInsideDQ || sh.dqToSQInsideHeredoc) && clause == "bash":
		w.fail.Class = "dq-literal-to-single-quotes-where-quotes-are-literal"
	case sh.sliceOffsetStartsWithName && w.t.Variant == "zsh" && clause == "roundtrip":
		w.fail.Class = "zsh-slice-offset-inlined-name-reads-as-modifier"
	case sh.sliceOffsetStartsWithIncDec && (clause == "roundtrip" || clause == "bash"):
		w.fail.Class = "slice-offset-parens-removed-before-incdec"
	case sh.assocSubscriptRewritten && (clause == "bash" || clause == "interp"):
		w.fail.Class = "associative-array-subscript-rewritten"
	case sh.inlinedParamIsAssignedInSameExpr && (clause == "bash" || clause == "interp"):
		w.fail.Class = "inlined-param-assigned-in-same-expression"
	case sh.inlinedLINENO && clause == "interp":
		w.fail.Class = "interp-LINENO-not-resolved-by-name"
	}
}
