package checks

import (
	"regexp"
	"sort"
	"strings"

	"mvdan.cc/sh/v3/syntax"

	"verif/mc/synt"
)

// Class predicates of C05 for divergences that are defects of mvdan/sh on the
// unchanged tree (recorded per class in known_findings.txt). Each predicate
// looks at the parsed input (src), the comment sequences and the printer
// configuration; anything that does not match exactly stays unclassified.

func c05Trim(s string) string { return strings.TrimRight(s, " \t\r") }

// c05MissingFrom returns the elements of exp that are absent from got when
// got is a subsequence of exp, and ok=false when it is not.
func c05MissingFrom(got, exp []string) (missing []string, ok bool) {
	i := 0
	for _, e := range exp {
		if i < len(got) && got[i] == e {
			i++
			continue
		}
		missing = append(missing, e)
	}
	return missing, i == len(got)
}

func c05SameMultiset(a, b []string) bool {
	if len(a) != len(b) {
		return false
	}
	x := append([]string(nil), a...)
	y := append([]string(nil), b...)
	sort.Strings(x)
	sort.Strings(y)
	for i := range x {
		if x[i] != y[i] {
			return false
		}
	}
	return true
}

// c05BinaryRHSComments returns the texts of the comments the parser attached
// to the right-hand statement of a binary command (BinaryCmd.Y.Comments).
func c05BinaryRHSComments(f *syntax.File) map[string]bool {
	out := map[string]bool{}
	syntax.Walk(f, func(n syntax.Node) bool {
		if b, ok := n.(*syntax.BinaryCmd); ok && b.Y != nil {
			for _, cm := range b.Y.Comments {
				out[c05Trim(cm.Text)] = true
			}
		}
		return true
	})
	return out
}

// c05HdocBodyComments reports whether some comment of f lies inside the body
// of a here-document (i.e. in a command substitution there).
func c05HdocBodyComments(f *syntax.File) bool {
	type span struct{ from, to uint }
	var bodies []span
	var coms []uint
	syntax.Walk(f, func(n syntax.Node) bool {
		switch n := n.(type) {
		case *syntax.Redirect:
			if n.Hdoc != nil {
				bodies = append(bodies, span{n.Hdoc.Pos().Offset(), n.Hdoc.End().Offset()})
			}
		case *syntax.Comment:
			coms = append(coms, n.Hash.Offset())
		}
		return true
	})
	for _, c := range coms {
		for _, b := range bodies {
			if c >= b.from && c < b.to {
				return true
			}
		}
	}
	return false
}

// c05HasHdoc reports whether f has a here-document.
func c05HasHdoc(f *syntax.File) bool {
	found := false
	syntax.Walk(f, func(n syntax.Node) bool {
		if r, ok := n.(*syntax.Redirect); ok && (r.Op == syntax.Hdoc || r.Op == syntax.DashHdoc) {
			found = true
		}
		return !found
	})
	return found
}

// c05HdocLineShared reports whether f has a here-document whose operator
// line also holds, further right, the start of another statement and a
// comment, and a here-document body (of this or another here-document) holds
// a comment too.
func c05HdocLineShared(f *syntax.File) bool {
	type hd struct {
		line, end  uint // operator line, offset of the end of the delimiter word
		from, to   uint // body offsets
		inner, out bool
	}
	var hds []*hd
	var coms []syntax.Pos
	var stmts []syntax.Pos
	syntax.Walk(f, func(n syntax.Node) bool {
		switch n := n.(type) {
		case *syntax.Redirect:
			if n.Hdoc != nil {
				hds = append(hds, &hd{line: n.OpPos.Line(), end: n.Word.End().Offset(), from: n.Hdoc.Pos().Offset(), to: n.Hdoc.End().Offset()})
			}
		case *syntax.Comment:
			coms = append(coms, n.Hash)
		case *syntax.Stmt:
			stmts = append(stmts, n.Pos())
		}
		return true
	})
	anyInner, anyOut := false, false
	for _, h := range hds {
		var stmtAt uint
		for _, s := range stmts {
			if s.Line() == h.line && s.Offset() >= h.end && (stmtAt == 0 || s.Offset() < stmtAt) {
				stmtAt = s.Offset()
			}
		}
		for _, c := range coms {
			if c.Offset() >= h.from && c.Offset() < h.to {
				h.inner = true
			}
			if stmtAt > 0 && c.Line() == h.line && c.Offset() > stmtAt {
				h.out = true
			}
		}
		anyInner = anyInner || h.inner
		anyOut = anyOut || h.out
	}
	return anyInner && anyOut
}

// c05HdocBeforeBinaryRHS reports whether f has a binary command whose
// left-hand side has a here-document with a comment in its body and whose
// right-hand side starts on a later line than the operator.
func c05HdocBeforeBinaryRHS(f *syntax.File) bool {
	var coms []uint
	syntax.Walk(f, func(n syntax.Node) bool {
		if c, ok := n.(*syntax.Comment); ok {
			coms = append(coms, c.Hash.Offset())
		}
		return true
	})
	found := false
	syntax.Walk(f, func(n syntax.Node) bool {
		b, ok := n.(*syntax.BinaryCmd)
		if !ok || found {
			return !found
		}
		if b.Y.Pos().Line() <= b.OpPos.Line() {
			return true
		}
		syntax.Walk(b.X, func(m syntax.Node) bool {
			if r, ok := m.(*syntax.Redirect); ok && r.Hdoc != nil {
				from, to := r.Hdoc.Pos().Offset(), r.Hdoc.End().Offset()
				for _, c := range coms {
					if c >= from && c < to {
						found = true
					}
				}
			}
			return !found
		})
		return !found
	})
	return found
}

// c05TimeStmtComments returns the texts of the comments attached to the
// statement of a time or coproc clause.
func c05TimeStmtComments(f *syntax.File) map[string]bool {
	out := map[string]bool{}
	add := func(s *syntax.Stmt) {
		if s != nil {
			for _, cm := range s.Comments {
				out[c05Trim(cm.Text)] = true
			}
		}
	}
	syntax.Walk(f, func(n syntax.Node) bool {
		switch n := n.(type) {
		case *syntax.TimeClause:
			add(n.Stmt)
		case *syntax.CoprocClause:
			add(n.Stmt)
		}
		return true
	})
	return out
}

// c05AfterBareTimeCoproc reports whether the printed text out has the
// comment "#text" right after a bare "time" / "time -p" or after
// "coproc word" on the same line: the parser drops a comment there.
func c05AfterBareTimeCoproc(out, text string) bool {
	re := regexp.MustCompile("(?m)(^|[ \\t;&|(`])(time([ \\t]+-p)?|coproc[ \\t]+[^ \\t;&|()<>#]+)[ \\t]*#" + regexp.QuoteMeta(text) + "[ \\t]*$")
	return re.MatchString(out)
}

// c05HdocReadLate reports whether f has a here-document whose operator line
// ends in the "]]" of a test clause and whose body starts more than one line
// below the operator.
func c05HdocReadLate(f *syntax.File) bool {
	rbrack := map[uint]bool{}
	syntax.Walk(f, func(n syntax.Node) bool {
		if t, ok := n.(*syntax.TestClause); ok {
			rbrack[t.Right.Line()] = true
		}
		return true
	})
	if len(rbrack) == 0 {
		return false
	}
	found := false
	syntax.Walk(f, func(n syntax.Node) bool {
		if r, ok := n.(*syntax.Redirect); ok && r.Hdoc != nil && rbrack[r.OpPos.Line()] && r.Hdoc.Pos().Line() > r.OpPos.Line()+1 {
			found = true
		}
		return !found
	})
	return found
}

// c05HdocBodyTakesEarlierComment reports whether a node inside a
// here-document body (a statement of a substitution, or the substitution
// itself) has a comment attached that was written before the body.
func c05HdocBodyTakesEarlierComment(f *syntax.File) bool {
	found := false
	syntax.Walk(f, func(n syntax.Node) bool {
		r, ok := n.(*syntax.Redirect)
		if !ok || r.Hdoc == nil || found {
			return !found
		}
		from := r.Hdoc.Pos().Offset()
		syntax.Walk(r.Hdoc, func(m syntax.Node) bool {
			if c, ok := m.(*syntax.Comment); ok && c.Hash.Offset() < from {
				found = true
			}
			return !found
		})
		return !found
	})
	return found
}

// c05HdocStmtHoldsHdoc reports whether f has a statement with a
// here-document whose operator is followed by a comment on its line and
// whose command holds another here-document (so that the printer's line
// counter has passed the operator's line when the comment is due), while a
// here-document body holds a comment.
func c05HdocStmtHoldsHdoc(f *syntax.File) bool {
	var coms []syntax.Pos
	type span struct{ from, to uint }
	var bodies []span
	syntax.Walk(f, func(n syntax.Node) bool {
		switch n := n.(type) {
		case *syntax.Comment:
			coms = append(coms, n.Hash)
		case *syntax.Redirect:
			if n.Hdoc != nil {
				bodies = append(bodies, span{n.Hdoc.Pos().Offset(), n.Hdoc.End().Offset()})
			}
		}
		return true
	})
	inner := false
	for _, c := range coms {
		for _, b := range bodies {
			inner = inner || (c.Offset() >= b.from && c.Offset() < b.to)
		}
	}
	if !inner {
		return false
	}
	found := false
	syntax.Walk(f, func(n syntax.Node) bool {
		s, ok := n.(*syntax.Stmt)
		if !ok || found || s.Cmd == nil {
			return !found
		}
		for _, r := range s.Redirs {
			if r.Op != syntax.Hdoc && r.Op != syntax.DashHdoc {
				continue
			}
			after := false
			for _, c := range coms {
				after = after || (c.Line() == r.OpPos.Line() && c.Offset() >= r.Word.End().Offset())
			}
			if !after {
				continue
			}
			syntax.Walk(s.Cmd, func(m syntax.Node) bool {
				if r2, ok := m.(*syntax.Redirect); ok && (r2.Op == syntax.Hdoc || r2.Op == syntax.DashHdoc) {
					found = true
				}
				return !found
			})
		}
		return !found
	})
	return found
}

// c05BinaryRHSTrailingFirst reports whether the right-hand statement of a
// binary command has a comment attached (Y.Comments) that lies after a
// comment inside its command.
func c05BinaryRHSTrailingFirst(f *syntax.File) bool {
	found := false
	syntax.Walk(f, func(n syntax.Node) bool {
		b, ok := n.(*syntax.BinaryCmd)
		if !ok || found || b.Y == nil || b.Y.Cmd == nil || len(b.Y.Comments) == 0 {
			return !found
		}
		var first uint
		have := false
		syntax.Walk(b.Y.Cmd, func(m syntax.Node) bool {
			if c, ok := m.(*syntax.Comment); ok && (!have || c.Hash.Offset() < first) {
				first, have = c.Hash.Offset(), true
			}
			return true
		})
		for _, c := range b.Y.Comments {
			if have && c.Hash.Offset() > first {
				found = true
			}
		}
		return !found
	})
	return found
}

// c05BackquoteInlineComments returns the texts of the comments that are the
// whole content of a backquoted command substitution (`# text`).
func c05BackquoteInlineComments(f *syntax.File) map[string]bool {
	out := map[string]bool{}
	syntax.Walk(f, func(n syntax.Node) bool {
		if cs, ok := n.(*syntax.CmdSubst); ok && cs.Backquotes && len(cs.Stmts) == 0 && len(cs.Last) == 1 {
			out[c05Trim(cs.Last[0].Text)] = true
		}
		return true
	})
	return out
}

// c05Class names the known family a divergence belongs to, or "".
func c05Class(f *syntax.File, cfg synt.Config, out string, got, exp []string) string {
	switch {
	case cfg.Minify:
		// The printer keeps "`# text`" (a backquoted substitution holding
		// only a comment, closed on the comment's line) verbatim, also
		// when minifying.
		extra, ok := c05MissingFrom(exp, got) // comments kept beyond the expected ones
		if !ok || len(extra) == 0 {
			return ""
		}
		inl := c05BackquoteInlineComments(f)
		for _, e := range extra {
			if !inl[e] {
				return ""
			}
		}
		return "minify-keeps-comment-in-backquotes"
	case cfg.Single:
		if len(got) < len(exp) {
			// a comment cannot be kept inside a single line; the printer
			// silently drops it
			return "singleline-drops-comments"
		}
		// In a single line a here-document body follows everything else
		// that was joined into the line, so the comments of a substitution
		// in the body come after the trailing comment of the line.
		if c05SameMultiset(got, exp) && c05HasHdoc(f) {
			return "singleline-heredoc-comment-order"
		}
		return ""
	default:
		if cfg.BinNext && c05SameMultiset(got, exp) && c05HdocBeforeBinaryRHS(f) {
			// "a <<E |\n<body>\nE\nb # c": with BinaryNextLine the
			// operator goes with the right-hand side, which cannot move
			// to the next line while a here-document is pending, so
			// "| b # c" is printed before the body and its comments
			return "binnext-heredoc-comment-order"
		}
		if c05HdocReadLate(f) {
			// parser defect outside C05: the body of a here-document that
			// is pending when "]]" ends the line is read one line late,
			// so the printed program is a different one
			return "hdoc-after-test-clause-read-late"
		}
		if c05SameMultiset(got, exp) && c05HdocBodyTakesEarlierComment(f) {
			// parser: "a <<E; b # c" + body with $(stmt): the comment of
			// the first line is attached to the statement in the body
			return "hdoc-body-stmt-takes-line-comment"
		}
		if c05SameMultiset(got, exp) && c05BinaryRHSTrailingFirst(f) {
			// "a &&\n{ # k1\nb; } <<E # k5": Y.Comments holds k5, and
			// all of Y.Comments are printed before Y
			return "binary-rhs-trailing-comment-printed-first"
		}
		if c05SameMultiset(got, exp) && c05HdocStmtHoldsHdoc(f) {
			// "{ a <<E; } <<F # c" with the block printed on several
			// lines: the comment after "<<F" is no longer on the
			// printer's current line and is written after the body
			return "heredoc-line-comment-after-body"
		}
		if c05SameMultiset(got, exp) && c05HdocLineShared(f) {
			// "a <<E; b # c" + body with a comment: the printer puts
			// every statement on its own line, so the body (and its
			// comment) moves before the rest of the source line
			return "heredoc-line-comment-after-body"
		}
		missing, ok := c05MissingFrom(got, exp)
		if !ok || len(missing) == 0 {
			return ""
		}
		rhs, tc := c05BinaryRHSComments(f), c05TimeStmtComments(f)
		inNested, inBare := true, true
		for _, m := range missing {
			inNested = inNested && (rhs[m] || tc[m])
			inBare = inBare && c05AfterBareTimeCoproc(out, m)
		}
		switch {
		case inBare:
			// parser: "time # c" and "coproc a # c" lose the comment
			// (gotStmtPipe takes the accumulated comments and finds no
			// statement); the printer writes "time; # c" and
			// "time\n# c\n)" that way, so the comment is in the output
			// but not in its parse
			return "comment-after-bare-time-or-coproc-lost"
		case inNested:
			// BinaryCmd printing drops Y.Comments when Y starts on the
			// operator's line, and the statement after "time"/"coproc"
			// is printed without its Stmt.Comments. The parser puts
			// there the comments between "for/select ... [in words]" and
			// the first body statement and the comment after a
			// here-document operator.
			return "nested-stmt-comments-dropped"
		}
		return ""
	}
}
