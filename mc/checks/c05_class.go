package checks

import (
	"sort"
	"strings"

	"mvdan.cc/sh/v3/syntax"

	"verif/mc/synt"
)

// Class predicates of C05 for divergences that are defects of mvdan/sh on the
// unchanged tree (recorded per class in known_findings.txt). Each predicate
// looks at the parsed input (src), the comment sequences and the printer
// configuration; anything that does not match exactly stays unclassified.

func c05Trim(s string) string { return strings.TrimRight(s, " \t\r") }

// c05MissingFrom returns the elements of exp that are absent from got when
// got is a subsequence of exp, and ok=false when it is not.
func c05MissingFrom(got, exp []string) (missing []string, ok bool) {
	i := 0
	for _, e := range exp {
		if i < len(got) && got[i] == e {
			i++
			continue
		}
		missing = append(missing, e)
	}
	return missing, i == len(got)
}

func c05SameMultiset(a, b []string) bool {
	if len(a) != len(b) {
		return false
	}
	x := append([]string(nil), a...)
	y := append([]string(nil), b...)
	sort.Strings(x)
	sort.Strings(y)
	for i := range x {
		if x[i] != y[i] {
			return false
		}
	}
	return true
}

// c05BinaryRHSComments returns the texts of the comments the parser attached
// to the right-hand statement of a binary command (BinaryCmd.Y.Comments).
func c05BinaryRHSComments(f *syntax.File) map[string]bool {
	out := map[string]bool{}
	syntax.Walk(f, func(n syntax.Node) bool {
		if b, ok := n.(*syntax.BinaryCmd); ok && b.Y != nil {
			for _, cm := range b.Y.Comments {
				out[c05Trim(cm.Text)] = true
			}
		}
		return true
	})
	return out
}

// c05HdocBodyComments reports whether some comment of f lies inside the body
// of a here-document (i.e. in a command substitution there).
func c05HdocBodyComments(f *syntax.File) bool {
	type span struct{ from, to uint }
	var bodies []span
	var coms []uint
	syntax.Walk(f, func(n syntax.Node) bool {
		switch n := n.(type) {
		case *syntax.Redirect:
			if n.Hdoc != nil {
				bodies = append(bodies, span{n.Hdoc.Pos().Offset(), n.Hdoc.End().Offset()})
			}
		case *syntax.Comment:
			coms = append(coms, n.Hash.Offset())
		}
		return true
	})
	for _, c := range coms {
		for _, b := range bodies {
			if c >= b.from && c < b.to {
				return true
			}
		}
	}
	return false
}

// c05HasHdoc reports whether f has a here-document.
func c05HasHdoc(f *syntax.File) bool {
	found := false
	syntax.Walk(f, func(n syntax.Node) bool {
		if r, ok := n.(*syntax.Redirect); ok && (r.Op == syntax.Hdoc || r.Op == syntax.DashHdoc) {
			found = true
		}
		return !found
	})
	return found
}

// c05HdocLineShared reports whether f has a here-document whose operator
// line also holds, further right, the start of another statement and a
// comment, and a here-document body (of this or another here-document) holds
// a comment too.
func c05HdocLineShared(f *syntax.File) bool {
	type hd struct {
		line, end  uint // operator line, offset of the end of the delimiter word
		from, to   uint // body offsets
		inner, out bool
	}
	var hds []*hd
	var coms []syntax.Pos
	var stmts []syntax.Pos
	syntax.Walk(f, func(n syntax.Node) bool {
		switch n := n.(type) {
		case *syntax.Redirect:
			if n.Hdoc != nil {
				hds = append(hds, &hd{line: n.OpPos.Line(), end: n.Word.End().Offset(), from: n.Hdoc.Pos().Offset(), to: n.Hdoc.End().Offset()})
			}
		case *syntax.Comment:
			coms = append(coms, n.Hash)
		case *syntax.Stmt:
			stmts = append(stmts, n.Pos())
		}
		return true
	})
	anyInner, anyOut := false, false
	for _, h := range hds {
		var stmtAt uint
		for _, s := range stmts {
			if s.Line() == h.line && s.Offset() >= h.end && (stmtAt == 0 || s.Offset() < stmtAt) {
				stmtAt = s.Offset()
			}
		}
		for _, c := range coms {
			if c.Offset() >= h.from && c.Offset() < h.to {
				h.inner = true
			}
			if stmtAt > 0 && c.Line() == h.line && c.Offset() > stmtAt {
				h.out = true
			}
		}
		anyInner = anyInner || h.inner
		anyOut = anyOut || h.out
	}
	return anyInner && anyOut
}

// c05BackquoteInlineComments returns the texts of the comments that are the
// whole content of a backquoted command substitution (`# text`).
func c05BackquoteInlineComments(f *syntax.File) map[string]bool {
	out := map[string]bool{}
	syntax.Walk(f, func(n syntax.Node) bool {
		if cs, ok := n.(*syntax.CmdSubst); ok && cs.Backquotes && len(cs.Stmts) == 0 && len(cs.Last) == 1 {
			out[c05Trim(cs.Last[0].Text)] = true
		}
		return true
	})
	return out
}

// c05Class names the known family a divergence belongs to, or "".
func c05Class(f *syntax.File, cfg synt.Config, got, exp []string) string {
	switch {
	case cfg.Minify:
		// The printer keeps "`# text`" (a backquoted substitution holding
		// only a comment, closed on the comment's line) verbatim, also
		// when minifying.
		extra, ok := c05MissingFrom(exp, got) // comments kept beyond the expected ones
		if !ok || len(extra) == 0 {
			return ""
		}
		inl := c05BackquoteInlineComments(f)
		for _, e := range extra {
			if !inl[e] {
				return ""
			}
		}
		return "minify-keeps-comment-in-backquotes"
	case cfg.Single:
		if len(got) < len(exp) {
			// a comment cannot be kept inside a single line; the printer
			// silently drops it
			return "singleline-drops-comments"
		}
		// In a single line a here-document body follows everything else
		// that was joined into the line, so the comments of a substitution
		// in the body come after the trailing comment of the line.
		if c05SameMultiset(got, exp) && c05HasHdoc(f) {
			return "singleline-heredoc-comment-order"
		}
		return ""
	default:
		// BinaryCmd printing drops Y.Comments when Y starts on the
		// operator's line. The parser puts there the comments between
		// "for/select ... [in words]" and the first body statement and
		// the comment after a here-document operator.
		if c05SameMultiset(got, exp) && c05HdocLineShared(f) {
			// "a <<E; b # c" + body with a comment: the printer puts
			// every statement on its own line, so the body (and its
			// comment) moves before the rest of the source line
			return "heredoc-shared-line-comment-order"
		}
		missing, ok := c05MissingFrom(got, exp)
		if !ok || len(missing) == 0 {
			return ""
		}
		rhs := c05BinaryRHSComments(f)
		for _, m := range missing {
			if !rhs[m] {
				return ""
			}
		}
		return "binary-rhs-comments-dropped"
	}
}
