package checks

import (
	"errors"
	"fmt"
	"os"
	"runtime/debug"
	"sort"
	"strings"
	"sync"

	"mvdan.cc/sh/v3/syntax"

	"verif/mc/enum"
	"verif/mc/synt"
	"verif/mc/vc"
)

func init() { Registry["C10"] = c10 }

// c10Case is one (input, variant) pair. Mode "pos" exercises clause 1 (every
// parse error carries a position inside the input), mode "cut" clause 2
// (every line-boundary prefix of a valid program parses or is reported as
// incomplete).
type c10Case struct {
	Mode    string `json:"mode"`
	Src     string `json:"src"`
	Variant string `json:"variant"`
	Origin  string `json:"origin"`
	// Entries is a bit set over c10Entries (mode "pos").
	Entries int `json:"entries,omitempty"`
}

// c10Parser builds a fresh parser per call: whether a reused parser behaves
// like a fresh one is property C08's business, and outcomes here must not
// depend on which inputs a worker happened to see before.
func c10Parser(variant, flavour string) *syntax.Parser {
	opts := []syntax.ParserOption{syntax.Variant(synt.LangByName(variant))}
	switch flavour {
	case "comments":
		opts = append(opts, syntax.KeepComments(true))
	case "recover":
		opts = append(opts, syntax.RecoverErrors(3))
	}
	return syntax.NewParser(opts...)
}

// c10PosProblem is the independent position calculator: a position is inside
// src when it is valid, its offset lies in [0, len(src)], its line is one more
// than the number of newline bytes before the offset and its column is the
// 1-based byte distance from the start of that line. It returns "" or what is
// wrong.
func c10PosProblem(src string, pos syntax.Pos) string {
	if pos.IsRecovered() {
		return "recovered-pos"
	}
	if !pos.IsValid() {
		return "invalid-pos"
	}
	off := int(pos.Offset())
	if off > len(src) {
		return "offset-beyond-input"
	}
	line, col := c10LineCol(src, off)
	if int(pos.Line()) != line {
		return "line-mismatch"
	}
	if int(pos.Col()) != col {
		return "col-mismatch"
	}
	return ""
}

// c10LineCol recomputes line and column (1-based, bytes) of byte offset off.
func c10LineCol(src string, off int) (line, col int) {
	line = 1 + strings.Count(src[:off], "\n")
	col = off - strings.LastIndexByte(src[:off], '\n') // LastIndexByte is -1 on the first line
	return
}

// c10ErrPos extracts the position of a parse error; ok is false when the
// error is not (and does not wrap) a ParseError or LangError.
func c10ErrPos(err error) (pos syntax.Pos, kind, text string, ok bool) {
	var pe syntax.ParseError
	if errors.As(err, &pe) {
		return pe.Pos, "ParseError", pe.Text, true
	}
	var le syntax.LangError
	if errors.As(err, &le) {
		return le.Pos, "LangError", le.Feature, true
	}
	return syntax.Pos{}, "", "", false
}

var c10Entries = []string{"Parse", "ParseRecover", "StmtsSeq", "WordsSeq", "Document", "Arithmetic"}

const (
	c10AllEntries  = 1<<6 - 1
	c10ProgEntries = c10AllEntries &^ (1 << 2) // programs and mutants: StmtsSeq adds nothing over Parse there
	c10LongEntries = 1<<0 | 1<<1 | 1<<4 | 1<<5 // longest token sequences: Parse, ParseRecover, Document, Arithmetic
	c10DeepEntries = 1<<0 | 1<<1               // mutants of the depth-1 programs (thorough): Parse, ParseRecover
)

// c10Call runs one entry point and returns its (first) error.
func c10Call(entry, variant, src string) (err error) {
	switch entry {
	case "Parse":
		_, err = c10Parser(variant, "comments").Parse(strings.NewReader(src), "")
	case "ParseRecover":
		_, err = c10Parser(variant, "recover").Parse(strings.NewReader(src), "")
	case "StmtsSeq":
		for _, e := range c10Parser(variant, "plain").StmtsSeq(strings.NewReader(src)) {
			if e != nil && err == nil {
				err = e
			}
		}
	case "WordsSeq":
		for _, e := range c10Parser(variant, "plain").WordsSeq(strings.NewReader(src)) {
			if e != nil && err == nil {
				err = e
			}
		}
	case "Document":
		_, err = c10Parser(variant, "plain").Document(strings.NewReader(src))
	case "Arithmetic":
		_, err = c10Parser(variant, "plain").Arithmetic(strings.NewReader(src))
	}
	return err
}

func c10(c *vc.Ctx) {
	// every call allocates a fresh parser (two 1 KiB buffers): collect less often
	debug.SetGCPercent(400)
	byteLen := vc.Pick(c, 3, 4)
	tokLen := vc.Pick(c, 3, 4)
	byteCore := vc.Pick(c, len(c10Bytes), 30)
	padAlphabet := vc.Pick(c, c10CoreTokens, len(c10Tokens))
	mutSpace := synSpace{Depth: vc.Pick(c, 0, 1), LayoutDepth: -1, Corpus: true, AllVariantsDeep: true}
	mutCorpusMax := vc.Pick(c, 24, 60)
	longAlphabet := vc.Pick(c, c10CoreTokens, c10CoreTokens4)
	cutSpace := synSpace{Depth: 2, CoreOnly: true, LayoutDepth: 1, Corpus: true, AllVariantsDeep: true}
	insAlphabet := vc.Pick(c, c10InsertQuick, c10InsertThorough)
	c.Rule = fmt.Sprintf("clause 1 (error positions): all byte strings of length <=%d over a %d-byte alphabet and of length %d over its first %d bytes; all token sequences of length <=%d over a %d-token alphabet and of length %d over its %d-token core, joined with spaces and (up to length %d) without; all token sequences of length <=2 over the first %d tokens behind each of %d paddings of 1021..1102 bytes (so that positions cross the 1 KiB read buffer); every 1-token edit (delete each token; insert before/replace each token with each of %d tokens) of [%s; corpus entries up to %d bytes]; each input in the 5 variants through %v (StmtsSeq only for byte/token inputs; the longest token sequences and the padded inputs without the two Seq entry points; mutants of depth-1 programs through the two Parse flavours only and with the first %d insert/replace tokens); every returned ParseError/LangError (or error wrapping one) must carry a valid position with offset in [0,len(src)] whose line and column equal the ones recomputed from the offset by an independent calculator. clause 2 (incompleteness): every program of [%s] plus %d hand-written multi-line statements in %d contexts, %d multi-line words in %d contexts, %d whole-program newline layouts and all gap-alternative pairs of the grammar templates, and newline-joined pairs of the depth-0 templates, that parses in the variant and has a newline before its last byte; for every proper prefix ending right after a newline byte, Parse must succeed or return an error for which syntax.IsIncomplete is true; distinct = distinct (entry,error text) for clause 1 plus distinct (variant,prefix) for clause 2",
		byteLen-1, len(c10Bytes), byteLen, byteCore, tokLen-1, len(c10Tokens), tokLen, longAlphabet, tokLen-1, padAlphabet, len(c10Pads), len(insAlphabet), mutSpace.describe(), mutCorpusMax, c10Entries, c10InsertDeep,
		cutSpace.describe(), len(c10Stmts), len(c10StmtContexts), len(c10Words), len(c10Contexts), len(c10Layouts))
	c.Assumptions = []string{
		"a 'line boundary' is the point right after a newline byte (a POSIX line includes its terminator); prefixes that stop before the newline are counted (cut_before_newline_*) but not judged",
		"'parsing the prefix' in clause 2 means Parser.Parse with default options plus KeepComments",
		"columns count bytes (documented on Pos.Col); lines are separated by LF bytes only",
		"a panic of the parser is not a parse error: it is counted (skipped_target_panic) and left to C06",
		"every call uses a fresh Parser (parser reuse is C08's subject)",
	}
	// development aid: VERIF_C10_PART=pos|cut runs one clause only (recorded as a cap)
	part := os.Getenv("VERIF_C10_PART")
	if part != "" {
		c.CapNote("VERIF_C10_PART=%s: only one clause was run", part)
	}
	genCount := map[string]int{}
	gen := func(emit func(c10Case)) {
		each := func(mode, origin, src string, entries int) {
			if part == "count" { // development aid: sizes of the spaces only
				genCount[mode+"/"+origin]++
				for e := entries; e != 0; e &= e - 1 {
					genCount[mode+"/"+origin+"/calls"] += len(synt.Variants)
				}
				return
			}
			for _, v := range synt.Variants {
				emit(c10Case{mode, src, v.Name, origin, entries})
			}
		}
		// clause 2 first: it is the smaller part
		if part != "pos" {
			c10GenCuts(c, cutSpace, func(origin, src string) { each("cut", origin, src, 0) })
		}
		if part == "cut" {
			return
		}
		// clause 1
		enum.Strings(c10Bytes, byteLen-1, func(s string) { each("pos", "bytes", s, c10AllEntries) })
		enum.Strings(c10Bytes[:byteCore], byteLen, func(s string) {
			if len(s) == byteLen { // only the longest (all alphabet entries are single bytes)
				each("pos", "bytes", s, c10AllEntries)
			}
		})
		tokens := func(alphabet []string, minLen, maxLen int, unspacedMax int, entries int) {
			enum.Seqs(alphabet, maxLen, func(toks []string) {
				if len(toks) < minLen {
					return
				}
				each("pos", "tokens", strings.Join(toks, " "), entries)
				if len(toks) > 1 && len(toks) <= unspacedMax {
					each("pos", "tokens", strings.Join(toks, ""), entries)
				}
			})
		}
		tokens(c10Tokens, 1, tokLen-1, tokLen-1, c10AllEntries)
		tokens(c10Tokens[:longAlphabet], tokLen, tokLen, tokLen-1, c10LongEntries)
		// the same short erroring inputs behind >1 KiB of padding, so that the
		// position crosses the parser's 1024-byte read buffer
		enum.Seqs(c10Tokens[:padAlphabet], 2, func(toks []string) {
			if len(toks) == 0 {
				return
			}
			for _, pad := range c10Pads {
				each("pos", "padded", pad+strings.Join(toks, " "), c10LongEntries)
				if len(toks) > 1 {
					each("pos", "padded", pad+strings.Join(toks, ""), c10LongEntries)
				}
			}
		})
		depth0 := map[string]bool{}
		synt.Sources(0, false, -1, func(x synt.Source) { depth0[x.Text] = true })
		seenProg := map[string]bool{}
		genSyn(c, mutSpace, func(t synCase) {
			if seenProg[t.Src] || (t.Kind == 0 && len(t.Src) > mutCorpusMax) {
				return
			}
			seenProg[t.Src] = true
			entries, alphabet := c10ProgEntries, insAlphabet
			if t.Kind == 1 && !depth0[t.Src] {
				entries, alphabet = c10DeepEntries, insAlphabet[:c10InsertDeep]
			}
			each("pos", "program", t.Src, c10ProgEntries)
			c10Mutants(t.Src, alphabet, func(m string) { each("pos", "mutant", m, entries) })
		})
	}
	complete := vc.RunBatch(c, 1024, gen, func(ts []c10Case) []*vc.Fail {
		out := make([]*vc.Fail, len(ts))
		tl := &c10Tally{n: map[string]int{}, d: map[string]struct{}{}}
		for i, t := range ts {
			if t.Mode == "cut" {
				out[i] = c10Cut(c, tl, t)
			} else {
				out[i] = c10Pos(c, tl, t)
			}
		}
		if len(ts) > 1 {
			// single-case batches are re-executions of a reported failure
			// (or a one-case tail); not tallying them keeps the counters
			// independent of which failures happened to be re-executed
			tl.flush(c)
		}
		return out
	})
	if part == "count" {
		c.Extra["gen_count"] = genCount
		fmt.Println(genCount)
	}
	c10PanicMu.Lock()
	var ps []string
	for k := range c10Panics {
		ps = append(ps, k)
	}
	c10PanicMu.Unlock()
	sort.Strings(ps)
	if len(ps) > 40 {
		ps = ps[:40]
	}
	c.Extra["target_panics_not_judged"] = ps
	c.Finish(complete)
}

var (
	c10PanicMu sync.Mutex
	c10Panics  = map[string]bool{}
)

func c10NotePanic(s string) {
	c10PanicMu.Lock()
	if len(c10Panics) < 4000 {
		c10Panics[s] = true
	}
	c10PanicMu.Unlock()
}

// c10Tally collects counters and distinct keys of one batch (the shared
// counters take a lock per call).
type c10Tally struct {
	n map[string]int
	d map[string]struct{}
}

func (t *c10Tally) count(name string, n int) { t.n[name] += n }
func (t *c10Tally) distinct(key string)      { t.d[key] = struct{}{} }
func (t *c10Tally) flush(c *vc.Ctx) {
	for k, v := range t.n {
		c.Count(k, v)
	}
	for k := range t.d {
		c.Distinct(k)
	}
}

// c10Pos judges clause 1 for one (input, variant) pair over its entry points.
func c10Pos(c *vc.Ctx, tl *c10Tally, t c10Case) *vc.Fail {
	tl.count("pos_inputs_"+t.Origin, 1)
	var first *vc.Fail
	keep := func(fl *vc.Fail) {
		// prefer reporting an unclassified failure of the case
		if first == nil || (first.Class != "" && fl.Class == "") {
			first = fl
		}
	}
	for ei, entry := range c10Entries {
		if t.Entries&(1<<ei) == 0 {
			continue
		}
		var err error
		if pf := guard("", func() { err = c10Call(entry, t.Variant, t.Src) }); pf != nil {
			tl.count("skipped_target_panic", 1)
			c10NotePanic(fmt.Sprintf("[%s] %s(%q)%s", t.Variant, entry, t.Src, pf.Msg))
			continue
		}
		tl.count("parser_calls", 1)
		if err == nil {
			tl.count("pos_no_error", 1)
			continue
		}
		pos, kind, text, ok := c10ErrPos(err)
		if !ok {
			keep(&vc.Fail{Key: fmt.Sprintf("%s %s %q not-a-parse-error", t.Variant, entry, t.Src),
				Msg: fmt.Sprintf("[%s] %s(%s) returned an error that is neither ParseError nor LangError: %T %v", t.Variant, entry, shortSrc(t.Src), err, err)})
			continue
		}
		tl.count("pos_errors_"+kind, 1)
		tl.distinct(entry + "\x00" + text)
		prob := c10PosProblem(t.Src, pos)
		if prob == "" {
			continue
		}
		keep(&vc.Fail{
			Key:   fmt.Sprintf("%s %s %q %s %s@%d", t.Variant, entry, t.Src, prob, pos, pos.Offset()),
			Msg:   fmt.Sprintf("[%s] %s(%s): %s %q has position %s offset %d (%s; input has %d bytes)", t.Variant, entry, shortSrc(t.Src), kind, err.Error(), pos, pos.Offset(), prob, len(t.Src)),
			Class: c10PosClass(t.Src, entry, prob, text, pos),
		})
	}
	if first == nil && t.Origin == "mutant" {
		c.Sample(map[string]any{"mode": "pos", "src": t.Src, "variant": t.Variant})
	}
	return first
}

// c10Cut judges clause 2 for one (program, variant) pair.
func c10Cut(c *vc.Ctx, tl *c10Tally, t c10Case) *vc.Fail {
	parse := func(src string) (err error) {
		if pf := guard("", func() { _, err = c10Parser(t.Variant, "comments").Parse(strings.NewReader(src), "") }); pf != nil {
			tl.count("skipped_target_panic", 1)
			c10NotePanic(fmt.Sprintf("[%s] Parse(%q)%s", t.Variant, src, pf.Msg))
			return nil
		}
		tl.count("parser_calls", 1)
		return err
	}
	if err := parse(t.Src); err != nil {
		tl.count("cut_pairs_not_parsing", 1)
		return nil // not a valid program of this variant
	}
	if i := strings.IndexByte(t.Src, '\n'); i < 0 || i == len(t.Src)-1 {
		tl.count("cut_pairs_single_line", 1)
		return nil
	}
	tl.count("cut_pairs_multiline_"+t.Origin, 1)
	var first *vc.Fail
	for i := 0; i < len(t.Src); i++ {
		if t.Src[i] != '\n' {
			continue
		}
		// informational only: the prefix that stops before the newline
		if t.Origin == "layout" || t.Origin == "layout-pair" {
		} else if err := parse(t.Src[:i]); err != nil && !syntax.IsIncomplete(err) {
			tl.count("cut_before_newline_error_not_incomplete", 1)
		} else {
			tl.count("cut_before_newline_ok_or_incomplete", 1)
		}
		prefix := t.Src[:i+1]
		if len(prefix) == len(t.Src) {
			break // the whole program; known to parse
		}
		tl.distinct(t.Variant + "\x00" + prefix)
		err := parse(prefix)
		if err == nil {
			tl.count("cut_prefix_parses", 1)
			continue
		}
		if syntax.IsIncomplete(err) {
			tl.count("cut_prefix_incomplete", 1)
			continue
		}
		fl := &vc.Fail{
			Key:   fmt.Sprintf("%s %q cut@%d %s", t.Variant, t.Src, i+1, err.Error()),
			Msg:   fmt.Sprintf("[%s] valid program %s cut after the line ending at byte %d: Parse(%s) fails with %q and IsIncomplete is false", t.Variant, shortSrc(t.Src), i+1, shortSrc(prefix), err.Error()),
			Class: c10CutClass(prefix, err),
		}
		if first == nil || (first.Class != "" && fl.Class == "") {
			first = fl
		}
	}
	if first == nil {
		c.Sample(map[string]any{"mode": "cut", "src": t.Src, "variant": t.Variant})
	}
	return first
}
