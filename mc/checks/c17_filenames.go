package checks

import (
	"errors"
	"fmt"
	"os"
	"path/filepath"
	"regexp"
	"sort"
	"strings"
	"sync"
	"sync/atomic"
	"time"

	"mvdan.cc/sh/v3/pattern"
	"mvdan.cc/sh/v3/vbridge"

	"verif/mc/enum"
	"verif/mc/oracle"
	"verif/mc/vc"
)

// The Filenames dimension of C17. In Filenames mode the reference for "what
// bash matches" is bash's own pathname expansion (there is no `case` or
// `[[ ]]` form of pathname matching): the pattern is expanded, unquoted, by
// bash 5.2 inside a scratch directory tree that holds every subject as a
// path, with dotglob / nocaseglob / extglob / globstar set as the mode says,
// and the set of paths bash returns is compared with the set of subjects the
// expression returned by pattern.Regexp accepts.

const c17FE = pattern.Filenames | pattern.EntireString

// component names of the shared tree: level 1 and level 2
var (
	c17FnAlpha1 = []string{"a", "b", "B", ".", "[", "]", `\`, "-", "*"}
	c17FnAlpha2 = []string{"a", "b", "B", ".", "[", "]", "*"}
)

type c17FnTree struct {
	root string   // temporary directory holding everything
	cwd  string   // root/base/n/n/t: the directory bash expands in
	subj []string // every path below cwd, directories also with a trailing slash
	seq  atomic.Int64
	err  error
}

var (
	c17FnOnce sync.Once
	c17Fn     c17FnTree
)

func c17FnNames(alpha []string) []string {
	var out []string
	enum.Strings(alpha, 2, func(s string) {
		if s != "" && s != "." && s != ".." {
			out = append(out, s)
		}
	})
	return out
}

// c17FnParent: the level-1 names that get level-2 entries (matching is per
// path component, so the full cross product adds nothing): the one-character
// names, a hidden directory and the two-letter names spelled ab in any case.
func c17FnParent(name string) bool {
	return len(name) == 1 || name == ".a" || strings.EqualFold(name, "ab")
}

func c17FnSubjectCount() int {
	n := 0
	k2 := len(c17FnNames(c17FnAlpha2))
	for _, a := range c17FnNames(c17FnAlpha1) {
		n += 2
		if c17FnParent(a) {
			n += 2 * k2
		}
	}
	return n
}

// c17FnSetup builds the shared read-only tree once per process. Every entry
// is a directory, so that every subject exists both as "p" and as "p/".
func c17FnSetup() *c17FnTree {
	c17FnOnce.Do(func() {
		t := &c17Fn
		// a memory-backed directory when there is one: the check creates and
		// removes some ten directories per case
		dir := ""
		if st, err := os.Stat("/dev/shm"); err == nil && st.IsDir() {
			if d, err := os.MkdirTemp("/dev/shm", "c17fn-"); err == nil {
				os.Remove(d)
				dir = "/dev/shm"
			}
		}
		t.root, t.err = os.MkdirTemp(dir, "c17fn-")
		if t.err != nil {
			return
		}
		// two private levels above the working directory, so that a ".."
		// component in a pattern stays inside the scratch area and sees a
		// deterministic directory
		t.cwd = filepath.Join(t.root, "base", "n", "n", "t")
		k1, k2 := c17FnNames(c17FnAlpha1), c17FnNames(c17FnAlpha2)
		for _, a := range k1 {
			t.subj = append(t.subj, a, a+"/")
			if !c17FnParent(a) {
				if t.err = os.MkdirAll(filepath.Join(t.cwd, a), 0o755); t.err != nil {
					return
				}
				continue
			}
			for _, b := range k2 {
				if t.err = os.MkdirAll(filepath.Join(t.cwd, a, b), 0o755); t.err != nil {
					return
				}
				t.subj = append(t.subj, a+"/"+b, a+"/"+b+"/")
			}
		}
	})
	return &c17Fn
}

func c17FnCleanup() {
	if c17Fn.root != "" {
		os.RemoveAll(c17Fn.root)
	}
}

// c17FnValidPath: s can be created as a relative path of at most 3 plain
// components (one trailing slash allowed).
func c17FnValidPath(s string) (string, bool) {
	s = strings.TrimSuffix(s, "/")
	if s == "" || strings.ContainsAny(s, "\x00\n") {
		return "", false
	}
	parts := strings.Split(s, "/")
	if len(parts) > 3 {
		return "", false
	}
	for _, p := range parts {
		if p == "" || p == "." || p == ".." || len(p) > 100 {
			return "", false
		}
	}
	return s, true
}

// c17FnExtras gives the pattern-derived paths (closed under "parent of") to
// create in the pattern's private tree: the pattern text itself, the text
// with the backslashes before slashes removed, with one level of backslashes
// removed, doubled, prefixed, in upper and in lower case, whenever they are
// valid paths.
func c17FnExtras(p string) []string {
	seen := map[string]bool{}
	var out []string
	un := unescapePattern(p)
	for _, cand := range []string{p, c17FnBashPattern(p), un, "x" + p, p + p, strings.ToUpper(p), strings.ToUpper(un), strings.ToLower(un)} {
		s, ok := c17FnValidPath(cand)
		if !ok {
			continue
		}
		for {
			if !seen[s] {
				seen[s] = true
				out = append(out, s)
			}
			i := strings.LastIndexByte(s, '/')
			if i < 0 {
				break
			}
			s = s[:i]
		}
	}
	sort.Strings(out)
	return out
}

func c17FnOpts(mode pattern.Mode) string {
	onoff := func(b bool) string {
		if b {
			return "-s"
		}
		return "-u"
	}
	return fmt.Sprintf("shopt %s dotglob; shopt %s nocaseglob; shopt %s extglob; shopt %s globstar\n",
		onoff(mode&pattern.GlobLeadingDot != 0), onoff(mode&pattern.NoGlobCase != 0),
		onoff(mode&pattern.ExtendedOperators != 0), onoff(mode&pattern.NoGlobStar == 0))
}

func c17HasUnescapedStarOrQuestion(p string) bool {
	for i := 0; i < len(p); i++ {
		switch p[i] {
		case '\\':
			i++
		case '*', '?':
			return true
		}
	}
	return false
}

// c17FnModes lists the Filenames mode combinations a pattern is tried in:
// the combination expand.Config.glob uses (Filenames|EntireString|NoGlobStar)
// alone and with each of the flags glob adds to it, and Filenames|EntireString
// without NoGlobStar (the package's own "**") for patterns holding "**".
func c17FnModes(p string, more bool) []pattern.Mode {
	base := c17FE | pattern.NoGlobStar
	ms := []pattern.Mode{base, base | pattern.GlobLeadingDot}
	letters := strings.ContainsAny(p, "ab[")
	if letters {
		ms = append(ms, base|pattern.NoGlobCase)
	}
	if strings.Contains(p, "(") {
		ms = append(ms, base|pattern.ExtendedOperators)
		if more {
			ms = append(ms, base|pattern.ExtendedOperators|pattern.GlobLeadingDot)
		}
	}
	if strings.Contains(p, "**") {
		ms = append(ms, c17FE, c17FE|pattern.GlobLeadingDot)
	}
	if more && letters {
		ms = append(ms, base|pattern.NoGlobCase|pattern.GlobLeadingDot)
	}
	return ms
}

// c17FilenamesBatch judges the cases batch[idx...] (all in a Filenames mode).
func c17FilenamesBatch(c *vc.Ctx, batch []patCase, idx []int, fails []*vc.Fail) {
	t := c17FnSetup()
	if t.err != nil {
		panic(fmt.Sprintf("c17: cannot build the scratch tree: %v", t.err))
	}
	xroot := filepath.Join(t.root, "x", fmt.Sprint(t.seq.Add(1)))
	defer os.RemoveAll(xroot)
	tStart := time.Now()
	type pending struct {
		i      int
		match  func(string) bool
		extras []string // with and without trailing slash
		expr   string
	}
	var pend []pending
	var script strings.Builder
	fmt.Fprintf(&script, "B=%s\nX=%s\nshopt -s nullglob\nIFS=\n", oracle.ShQuote(t.cwd), oracle.ShQuote(xroot))
	script.WriteString(`g() { local p=$2 R E
  cd "$B" || exit 3; R=( $p )
  cd "$X/$1/n/t" || exit 3; E=( $p )
  printf '%s\0' "=P$1" "${R[@]}" "=E" "${E[@]}"
}
`)
	curOpts := ""
	for _, i := range idx {
		pc := batch[i]
		mode := pattern.Mode(pc.Mode)
		key := fmt.Sprintf("%q mode=%s", pc.Pat, modeString(mode))
		if strings.HasPrefix(pc.Pat, "/") {
			// would be expanded against the real root directory
			c.Count("filenames_skipped_absolute_pattern", 1)
			continue
		}
		if strings.Contains(strings.ReplaceAll(pc.Pat, `\/`, "/"), "//") {
			// an empty path component: bash's expansion normalises what it
			// returns ("a//" comes back as "a/"), which says nothing about matching
			c.Count("filenames_skipped_empty_component", 1)
			continue
		}
		var expr string
		var err error
		if f := guard(key, func() { expr, err = pattern.Regexp(pc.Pat, mode) }); f != nil {
			fails[i] = f
			continue
		}
		var match func(string) bool
		var neg *pattern.NegExtGlobError
		switch {
		case errors.As(err, &neg):
			if mode&pattern.ExtendedOperators == 0 || !strings.Contains(pc.Pat, "!(") {
				fails[i] = vc.Failf(key+" negerr", "Regexp(%q, %s) returned NegExtGlobError without a !( group in extended mode", pc.Pat, modeString(mode))
				continue
			}
			var m func(string) bool
			if f := guard(key, func() { m, err = vbridge.ExtendedPatternMatcher(pc.Pat, mode) }); f != nil {
				fails[i] = f
				continue
			}
			if err != nil {
				c.Count("negated_extglob_unsupported", 1)
				continue
			}
			match = m
		case err != nil:
			var se *pattern.SyntaxError
			if !errors.As(err, &se) {
				var sv pattern.SyntaxError
				if !errors.As(err, &sv) {
					fails[i] = vc.Failf(key+" errtype", "Regexp(%q, %s) returned a non-syntax error: %v", pc.Pat, modeString(mode), err)
					continue
				}
			}
			if !looseMalformed(pc.Pat) {
				fails[i] = vc.Failf(key+" err", "Regexp(%q, %s) reports %q for a pattern that is not malformed", pc.Pat, modeString(mode), err)
			}
			c.Count("syntax_errors", 1)
			continue
		default:
			rx, err := regexp.Compile(expr)
			if err != nil {
				fails[i] = vc.Failf(key+" compile", "Regexp(%q, %s) = %q does not compile: %v", pc.Pat, modeString(mode), expr, err)
				continue
			}
			match = rx.MatchString
		}
		id := len(pend)
		dir := filepath.Join(xroot, fmt.Sprint(id), "n", "t")
		if err := os.MkdirAll(dir, 0o755); err != nil {
			panic(err)
		}
		var extras []string
		for _, e := range c17FnExtras(pc.Pat) {
			if err := os.MkdirAll(filepath.Join(dir, e), 0o755); err != nil {
				panic(err)
			}
			extras = append(extras, e, e+"/")
		}
		if opts := c17FnOpts(mode); opts != curOpts {
			script.WriteString(opts)
			curOpts = opts
		}
		fmt.Fprintf(&script, "g %d %s\n", id, oracle.ShQuote(c17FnBashPattern(pc.Pat)))
		pend = append(pend, pending{i, match, extras, expr})
	}
	if len(pend) == 0 {
		return
	}
	c.Count("fn_ms_prepare", int(time.Since(tStart).Milliseconds()))
	script.WriteString("printf '%s\\0' =END\n")
	t0 := time.Now()
	out, _, err := oracle.ShellFile("bash", script.String(), "")
	c.Count("fn_ms_bash", int(time.Since(t0).Milliseconds()))
	t0 = time.Now()
	defer func() { c.Count("fn_ms_judge", int(time.Since(t0).Milliseconds())) }()
	toks := strings.Split(string(out), "\x00")
	if err != nil || len(toks) < 2 || toks[len(toks)-2] != "=END" {
		panic(fmt.Sprintf("bash glob batch did not complete: %v", err))
	}
	toks = toks[:len(toks)-2]
	// split the token stream per pattern
	res := make([][2][]string, len(pend))
	cur, part := -1, 0
	for _, tk := range toks {
		switch {
		case strings.HasPrefix(tk, "=P"):
			cur++
			part = 0
			if tk != fmt.Sprintf("=P%d", cur) {
				panic("unexpected bash output: " + tk)
			}
		case tk == "=E":
			part = 1
		default:
			if cur < 0 {
				panic("unexpected bash output: " + tk)
			}
			res[cur][part] = append(res[cur][part], tk)
		}
	}
	if cur != len(pend)-1 {
		panic("bash glob batch: missing results")
	}
	for id, p := range pend {
		pc := batch[p.i]
		mode := pattern.Mode(pc.Mode)
		R, E := res[id][0], res[id][1]
		expected := map[string]bool{}
		globbed := true
		bp := c17FnBashPattern(pc.Pat)
		if len(R) == 1 && R[0] == bp && len(E) == 1 && E[0] == bp && !c17HasUnescapedStarOrQuestion(pc.Pat) {
			// bash did not treat the word as a pattern at all (it hands it
			// back verbatim, backslashes included): nothing to learn from
			// bash; the documented rule for a pattern without active
			// metacharacters applies: it matches its own text, unescaped
			globbed = false
			c.Count("filenames_judged_by_literal_rule", 1)
		} else {
			for _, r := range R {
				expected[r] = true
			}
			for _, r := range E {
				expected[r] = true
			}
			c.Count("filenames_judged_by_bash_expansion", 1)
		}
		lit := unescapePattern(pc.Pat)
		want := func(u string) bool {
			if globbed {
				return expected[u]
			}
			if mode&pattern.NoGlobCase != 0 {
				return strings.EqualFold(u, lit)
			}
			return u == lit
		}
		var diffs []string
		first := ""
		var dsub []string
		var dsh []bool
		nm := 0
		inAll := map[string]bool{}
		endsInSlash := strings.HasSuffix(pc.Pat, "/")
		var foldExpected map[string]bool
		if globbed && mode&pattern.NoGlobCase != 0 {
			foldExpected = map[string]bool{}
			for r := range expected {
				foldExpected[strings.ToLower(r)] = true
			}
		}
		judge := func(u string) {
			inAll[u] = true
			sh := p.match(u)
			if sh {
				nm++
			}
			w := want(u)
			if globbed && !w && !endsInSlash && strings.HasSuffix(u, "/") {
				// "d/" stands for the directory d followed by an empty name.
				// Pathname expansion never produces an empty name for a
				// pattern that does not end in a slash, so bash says nothing
				// about whether e.g. "a/*" matches "a/" (as a string it does)
				return
			}
			if globbed && w && !sh && mode&pattern.NoGlobStar == 0 && strings.HasSuffix(pc.Pat, "/**") && !strings.HasSuffix(u, "/") && p.match(u+"/") {
				// globstar: for "d/**" bash also returns the directory itself;
				// it spells it "d/" when d is literal and "d" when d is a
				// pattern ("?/**" gives "a", "a/**" gives "a/"); the expression
				// accepts the spelling with the slash
				return
			}
			if foldExpected != nil && sh && !w && foldExpected[strings.ToLower(u)] {
				// nocaseglob: bash looks a path component without active
				// metacharacters up by name instead of matching it, so it
				// never returns the other spellings of that component; a
				// subject differing only in case from a returned path is
				// not judged when the expression accepts it
				return
			}
			if sh != w {
				if first == "" {
					first = fmt.Sprintf("%q", u)
				}
				if len(diffs) < 6 {
					diffs = append(diffs, fmt.Sprintf("%q: sh=%v bash=%v", u, sh, w))
				}
				dsub = append(dsub, u)
				dsh = append(dsh, sh)
			}
		}
		for _, u := range t.subj {
			judge(u)
		}
		for _, u := range p.extras {
			if !inAll[u] {
				judge(u)
			}
		}
		if globbed {
			// paths bash returned that are not among the subjects ("./a",
			// "a//b", ...): the expression must accept them too
			var outside []string
			for r := range expected {
				if !inAll[r] {
					outside = append(outside, r)
				}
			}
			sort.Strings(outside)
			for _, r := range outside {
				judge(r)
			}
		}
		c.Distinct(fmt.Sprintf("%s fn %d/%d %s", modeString(mode), nm, len(inAll), p.expr))
		if len(dsub) == 0 {
			continue
		}
		fails[p.i] = &vc.Fail{
			Class:  c17FnClass(pc.Pat, mode, dsub, dsh, p.expr),
			Key:    fmt.Sprintf("%q mode=%s subj=%s", pc.Pat, modeString(mode), first),
			Msg:    fmt.Sprintf("pattern %q mode %s (regexp %q): set of matching paths differs from bash pathname expansion: %s", pc.Pat, modeString(mode), p.expr, strings.Join(diffs, "; ")),
			Detail: diffs,
		}
	}
}

// c17FnClass names the narrow families of Filenames-mode divergence recorded
// as known findings. dsub are the subjects on which sh and bash differ, dsh[k]
// tells whether sh matched dsub[k] (bash then did not).
func c17FnClass(p string, mode pattern.Mode, dsub []string, dsh []bool, expr string) string {
	onlySh, onlyBash := true, true
	for _, sh := range dsh {
		if sh {
			onlyBash = false
		} else {
			onlySh = false
		}
	}
	fold := mode&pattern.NoGlobCase != 0
	contains := func(u, sub string) bool {
		if fold {
			return strings.Contains(strings.ToLower(u), strings.ToLower(sub))
		}
		return strings.Contains(u, sub)
	}
	if spans := c17FnBracketSpansWithSlash(p); len(spans) > 0 {
		// a closed bracket expression holding a slash is emitted as its own
		// text, verbatim (backslashes included, later metacharacters dead);
		// bash separates the path components first, which makes the "[" an
		// ordinary character and leaves the rest of the text a pattern
		emitted := false
		for _, sp := range spans {
			if strings.Contains(expr, regexp.QuoteMeta(sp)) {
				emitted = true
			}
		}
		verbatim := emitted
		for k, u := range dsub {
			if !dsh[k] {
				continue
			}
			has := false
			for _, sp := range spans {
				if contains(u, sp) {
					has = true
				}
			}
			if !has {
				verbatim = false
			}
		}
		if verbatim {
			return "filenames-bracket-holding-slash-taken-verbatim"
		}
	}
	if onlySh {
		// two ways for the expression to accept a path bash never returns:
		// a leading dot taken by something other than a literal dot, and a
		// slash taken by a bracket expression or a negated group
		dotOK := mode&pattern.GlobLeadingDot == 0
		slashClass := ""
		if c17FnBracketCanMatchSlash(p) {
			slashClass = "filenames-bracket-expression-matches-slash"
		} else if mode&pattern.ExtendedOperators != 0 && strings.Contains(p, "!(") {
			slashClass = "filenames-negated-extglob-matches-slash"
		}
		all, bySlash := true, false
		for _, u := range dsub {
			isDot := dotOK && (strings.HasPrefix(u, ".") || strings.Contains(u, "/."))
			isSlash := slashClass != "" && strings.Contains(strings.TrimSuffix(u, "/"), "/")
			if !isDot && !isSlash {
				all = false
			}
			if !isDot {
				bySlash = true
			}
		}
		if all && bySlash {
			return slashClass
		}
		if all {
			return "filenames-leading-dot-matched-without-literal-dot"
		}
	}
	dbash := make([]bool, len(dsh))
	for k, sh := range dsh {
		dbash[k] = !sh
	}
	for _, comp := range strings.Split(c17FnBashPattern(p), "/") {
		// bash reads each path component on its own
		if comp != p && c17Class(comp, mode, dsub, dsh, dbash) == "unterminated-bracket-with-trailing-range" {
			return "unterminated-bracket-with-trailing-range"
		}
	}
	if mode&pattern.NoGlobStar == 0 && strings.Contains(p, `**\/`) && onlyBash {
		return "filenames-globstar-before-escaped-slash"
	}
	// the families of the other modes (unterminated brackets and groups ...)
	return c17Class(p, mode, dsub, dsh, dbash)
}

// c17FnBashPattern is the pattern text handed to bash: a backslash-escaped
// slash is written as a plain slash. (An escaped slash is a slash; bash 5.2,
// though, splits the pattern at it and then keeps the backslash as part of the
// preceding component whenever that component has pattern characters, so that
// `echo ?\/a` matches nothing at all - a quirk of its expansion code that says
// nothing about matching.)
func c17FnBashPattern(p string) string {
	var sb strings.Builder
	for i := 0; i < len(p); i++ {
		if p[i] == '\\' && i+1 < len(p) {
			if p[i+1] != '/' {
				sb.WriteByte(p[i])
			}
			i++
		}
		sb.WriteByte(p[i])
	}
	return sb.String()
}

// c17FnBrackets returns the raw text of every bracket expression that closes,
// reading the pattern the way this package does.
func c17FnBrackets(p string) []string {
	var out []string
	for i := 0; i < len(p); i++ {
		switch p[i] {
		case '\\':
			i++
		case '[':
			j := i + 1
			if j < len(p) && (p[j] == '!' || p[j] == '^') {
				j++
			}
			if j < len(p) && p[j] == ']' {
				j++
			}
			closed := false
		span:
			for ; j < len(p); j++ {
				switch p[j] {
				case '\\':
					j++
				case '[':
					if j+1 < len(p) && p[j+1] == ':' {
						if e := strings.Index(p[j+2:], ":]"); e >= 0 {
							j += 2 + e + 1
						}
					}
				case ']':
					closed = true
					break span
				}
			}
			if closed {
				out = append(out, p[i:j+1])
				i = j
			}
		}
	}
	return out
}

// c17FnBracketSpansWithSlash: the closed bracket expressions holding a slash
// (plain or escaped).
func c17FnBracketSpansWithSlash(p string) []string {
	var out []string
	for _, b := range c17FnBrackets(p) {
		if strings.Contains(b, "/") {
			out = append(out, b)
		}
	}
	return out
}

// c17FnBracketCanMatchSlash: some closed bracket expression without a slash
// in its text accepts "/" when read without the Filenames flag (a negated
// one, a range such as .-a, a class such as [:punct:]).
func c17FnBracketCanMatchSlash(p string) bool {
	for _, b := range c17FnBrackets(p) {
		if strings.Contains(b, "/") {
			continue
		}
		expr, err := pattern.Regexp(b, pattern.EntireString)
		if err != nil {
			continue
		}
		if rx, err := regexp.Compile(expr); err == nil && rx.MatchString("/") {
			return true
		}
	}
	return false
}
