package checks

import (
	"fmt"
	"math"
	"strconv"
	"strings"
)

// A transliteration of bash 5.2's braces.c (brace_expand, brace_gobbler,
// expand_amble, expand_seqterm, mkseq) for words made of ordinary characters
// and backslashes only (no quotes, no "$", no blanks). It is NOT the oracle of
// C16 - real bash is. It is used only to name divergences: a failure gets a
// known class only when this model reproduces what real bash printed AND the
// model went through one of the two places where bash's scanner differs from
// a recursive-descent reading of the word (see c16Quirks).
type c16Quirks struct {
	// rescan: while looking for the "}" that ends a group, bash passed over a
	// "}" at nesting level 0 because no "," or ".." had been seen yet, and
	// ended the group at a later "}": {a},} is the group "a}" , "".
	rescan bool
	// flat: the group's text has no "," at its own level, only inside a nested
	// group (it was accepted as a group because of a ".."), yet bash's test
	// "does the text contain a comma" is not level-aware, so the text is
	// treated as a one-alternative list and the outer braces vanish:
	// {..{,}} gives ".." "..".
	flat bool
	// opaque: braces accepted as a group because of a ".." at their own level,
	// whose text is not a valid sequence and has no comma at any level, are
	// copied as one literal unit INCLUDING any valid sequence nested in them:
	// {..{0..1}} stays as it is.
	opaque bool
	// giveUp: the model met something it does not reproduce (huge sequences).
	giveUp bool
}

const c16RefLimit = 40000

func c16Gobbler(text string, indx *int, satisfy byte, q *c16Quirks) byte {
	level, passNext := 0, false
	commas := 1
	if satisfy == '}' {
		commas = 0
	}
	skipped := false
	i := *indx
	var c byte
	for ; i < len(text); i++ {
		c = text[i]
		if passNext {
			passNext = false
			continue
		}
		if c == '\\' {
			passNext = true
			continue
		}
		if c == satisfy && level == 0 && commas > 0 {
			if c == '{' {
				prevWS := i == 0
				nextWS := i+1 >= len(text) || text[i+1] == '}'
				if prevWS && nextWS {
					continue
				}
			}
			if skipped && q != nil {
				q.rescan = true
			}
			*indx = i
			return c
		}
		if c == satisfy && satisfy == '}' && level == 0 {
			skipped = true
		}
		if c == '{' {
			level++
		} else if c == '}' && level > 0 {
			level--
		} else if satisfy == '}' && c == ',' && level == 0 {
			commas++
		} else if satisfy == '}' && level == 0 && strings.HasPrefix(text[i:], "..") && (i+2 >= len(text) || text[i+2] != satisfy) {
			// STREQN (text+i, "..", 2) && text[i+2] != satisfy; at the end of
			// the text text[i+2] is NUL, which is != satisfy
			commas++
		}
	}
	*indx = i
	return 0
}

func c16Concat(a, b []string, q *c16Quirks) []string {
	if len(a)*len(b) > c16RefLimit {
		q.giveUp = true
		return nil
	}
	out := make([]string, 0, len(a)*len(b))
	for _, x := range a {
		for _, y := range b {
			out = append(out, x+y)
		}
	}
	return out
}

func c16BraceExpand(text string, q *c16Quirks) []string {
	if q.giveUp {
		return nil
	}
	i := 0
	var c byte
	for {
		c = c16Gobbler(text, &i, '{', nil)
		if c == 0 {
			break
		}
		j := i + 1
		if c16Gobbler(text, &j, '}', nil) == 0 {
			i++
			continue
		}
		break
	}
	preamble := text[:i]
	result := []string{preamble}
	if c != '{' {
		return result
	}
	i++
	start := i
	c = c16Gobbler(text, &i, '}', q)
	if c == 0 {
		return []string{text}
	}
	amble := text[start:i]
	flatComma := false
	for j := 0; j < len(amble); j++ {
		if amble[j] == '\\' {
			j++
			continue
		}
		if amble[j] == ',' {
			flatComma = true
			break
		}
	}
	var tack []string
	if !flatComma {
		tack = c16SeqTerm(amble, q)
		if q.giveUp {
			return nil
		}
		if tack == nil {
			var q2 c16Quirks
			if inner := c16BraceExpand(amble, &q2); q2.giveUp || q2.opaque || len(inner) != 1 || inner[0] != amble {
				q.opaque = true
			}
			if i+1 < len(text) {
				tack = []string{text[start-1 : i+1]}
			} else {
				return []string{text}
			}
		}
	} else {
		k := 0
		if c16Gobbler(amble, &k, ',', nil) == 0 {
			q.flat = true
		}
		tack = c16Amble(amble, q)
	}
	result = c16Concat(result, tack, q)
	if post := text[i+1:]; post != "" && !q.giveUp {
		result = c16Concat(result, c16BraceExpand(post, q), q)
	}
	return result
}

func c16Amble(text string, q *c16Quirks) []string {
	var result []string
	start, i := 0, 0
	c := byte(1)
	for c != 0 {
		c = c16Gobbler(text, &i, ',', nil)
		result = append(result, c16BraceExpand(text[start:i], q)...)
		if q.giveUp || len(result) > c16RefLimit {
			q.giveUp = true
			return nil
		}
		i++
		start = i
	}
	return result
}

func c16IsAlpha(b byte) bool { return b >= 'a' && b <= 'z' || b >= 'A' && b <= 'Z' }
func c16IsDigit(b byte) bool { return b >= '0' && b <= '9' }

// c16Strtoimax parses an optionally signed decimal prefix of s; n is the
// number of bytes consumed (0: no conversion), rng reports ERANGE.
func c16Strtoimax(s string) (v int64, n int, rng bool) {
	j := 0
	if j < len(s) && (s[j] == '+' || s[j] == '-') {
		j++
	}
	d := j
	for j < len(s) && c16IsDigit(s[j]) {
		j++
	}
	if j == d {
		return 0, 0, false
	}
	v, err := strconv.ParseInt(s[:j], 10, 64)
	return v, j, err != nil
}

func c16SeqTerm(text string, q *c16Quirks) []string {
	t := strings.Index(text, "..")
	if t < 0 {
		return nil
	}
	lhs, rhs := text[:t], text[t+2:]
	if lhs == "" || rhs == "" {
		return nil
	}
	const (
		bad = iota
		integer
		char
	)
	lhsT := bad
	tl, n, rng := c16Strtoimax(lhs)
	if n == len(lhs) && n > 0 && !rng {
		lhsT = integer
	} else if c16IsAlpha(lhs[0]) && len(lhs) == 1 {
		lhsT = char
	}
	rhsT := bad
	var tr int64
	ep := -1 // index into rhs
	if c16IsDigit(rhs[0]) || ((rhs[0] == '+' || rhs[0] == '-') && len(rhs) > 1 && c16IsDigit(rhs[1])) {
		rhsT = integer
		var m int
		var r bool
		tr, m, r = c16Strtoimax(rhs)
		ep = m
		if r || (ep < len(rhs) && rhs[ep] != '.') {
			rhsT = bad
		}
	} else if c16IsAlpha(rhs[0]) && (len(rhs) == 1 || rhs[1] == '.') {
		rhsT = char
		ep = 1
	}
	incr := int64(1)
	rhsL := len(rhs)
	if rhsT != bad {
		oep := ep
		if strings.HasPrefix(rhs[ep:], "..") && len(rhs) > ep+2 {
			v, m, r := c16Strtoimax(rhs[ep+2:])
			incr = v
			ep = ep + 2 + m
			if r {
				rhsT = bad
			}
		}
		if ep < len(rhs) {
			rhsT = bad
		}
		rhsL -= ep - oep
	}
	if lhsT != rhsT || lhsT == bad {
		return nil
	}
	var from, to int64
	width := 0
	if lhsT == char {
		from, to = int64(lhs[0]), int64(rhs[0])
	} else {
		from, to = tl, tr
		lhsL := len(lhs)
		zint := false
		if lhsL > 1 && lhs[0] == '0' {
			width, zint = lhsL, true
		}
		if lhsL > 2 && lhs[0] == '-' && lhs[1] == '0' {
			width, zint = lhsL, true
		}
		if rhsL > 1 && rhs[0] == '0' && width < rhsL {
			width, zint = rhsL, true
		}
		if rhsL > 2 && rhs[0] == '-' && rhs[1] == '0' && width < rhsL {
			width, zint = rhsL, true
		}
		if zint {
			width = max(width, lhsL, rhsL)
		}
	}
	// mkseq
	if incr == 0 {
		incr = 1
	}
	if from > to && incr > 0 {
		incr = -incr
	} else if from < to && incr < 0 {
		if incr == math.MinInt64 {
			q.giveUp = true
			return nil
		}
		incr = -incr
	}
	// the model does not follow bash's overflow rules: stay well inside int64
	const lim = math.MaxInt64 / 4
	if from > lim || from < -lim || to > lim || to < -lim || incr > lim || incr < -lim {
		q.giveUp = true
		return nil
	}
	d := to - from
	if d < 0 {
		d = -d
	}
	a := incr
	if a < 0 {
		a = -a
	}
	if d/a+1 > c16RefLimit {
		q.giveUp = true
		return nil
	}
	var out []string
	for n := from; ; {
		switch {
		case lhsT == char:
			out = append(out, string([]byte{byte(n)}))
		case width > 0:
			out = append(out, fmt.Sprintf("%0*d", width, n))
		default:
			out = append(out, strconv.FormatInt(n, 10))
		}
		n += incr
		if (incr < 0 && n < to) || (incr > 0 && n > to) {
			break
		}
	}
	return out
}

// c16BashModel gives the model's prediction of bash's `printf '<%s>' word`
// output in the "0:<..><..>" form used by the check, and the quirks it used.
func c16BashModel(word string) (string, c16Quirks) {
	var q c16Quirks
	words := c16BraceExpand(word, &q)
	if q.giveUp {
		return "", q
	}
	var kept []string
	for _, w := range words {
		if u := c16Unescape(w); u != "" {
			kept = append(kept, u)
		}
	}
	return "0:<" + strings.Join(kept, "><") + ">", q
}

// c16Unescape removes one level of backslash escapes (quote removal for a
// word of ordinary characters and backslashes); a trailing lone backslash
// stays. (Own copy, so that C16 builds without the other checks' files.)
func c16Unescape(p string) string {
	var sb strings.Builder
	for i := 0; i < len(p); i++ {
		if p[i] == '\\' && i+1 < len(p) {
			i++
		}
		sb.WriteByte(p[i])
	}
	return sb.String()
}
