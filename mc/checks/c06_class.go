package checks

import "strings"

// c06PanicClass names the narrow family of a panic, or "" when it matches
// no recorded family (then it stays a plain violation).
func c06PanicClass(stage, kind, site, msg string, g c06Cfg, src []byte) string {
	// An iterator entry point calls yield again after the consumer's loop
	// body returned false (the Go runtime turns that into a panic).
	if strings.Contains(msg, "range function continued iteration") && g.Early && stage == c06Entries[g.Entry] {
		return "yield-after-consumer-stopped-" + c06Entries[g.Entry]
	}
	return ""
}

func c06HangClass(where string, src []byte) string { return "" }

// c06CostClass names the family of a superlinear parse.
func c06CostClass(g c06Cfg, u, v, x []byte) string { return "" }
