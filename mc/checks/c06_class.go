package checks

import (
	"bytes"
	"strings"

	"verif/mc/synt"
)

// c06PanicClass names the narrow family of a panic, or "" when it matches
// no recorded family (then it stays a plain violation).
func c06PanicClass(stage, kind, site, msg string, g c06Cfg, src []byte) string {
	// An iterator entry point calls yield again after the consumer's loop
	// body returned false (the Go runtime turns that into a panic).
	if strings.Contains(msg, "range function continued iteration") && g.Early && stage == c06Entries[g.Entry] {
		return "yield-after-consumer-stopped-" + c06Entries[g.Entry]
	}
	consumer := stage != c06Entries[g.Entry]
	// RecoverErrors: "case x (" / "case x in (" at the end of input is
	// accepted with a CaseItem that has no pattern; CaseItem.Pos indexes
	// Patterns[0], so every consumer that asks for positions panics.
	if consumer && g.Rec > 0 && kind == "index" && site == "syntax.CaseItem.Pos" && bytes.Contains(src, []byte("case")) {
		return "recovered-case-item-without-patterns"
	}
	// zsh: a here-document word followed by "[" starts a subscript; lexing
	// it crosses the newline and reads here-document bodies while the
	// redirection's own Word is still nil.
	if !consumer && kind == "nil-deref" && site == "syntax.Parser.unquotedWordBytes" && synt.Variants[g.Lang].Name == "zsh" && c06HdocThenBracket(src) {
		return "zsh-heredoc-word-subscript-crosses-newline"
	}
	return ""
}

// c06HdocThenBracket: "<<" followed, before the next newline, by "[" and
// then a newline somewhere after it.
func c06HdocThenBracket(src []byte) bool {
	i := bytes.Index(src, []byte("<<"))
	if i < 0 {
		return false
	}
	rest := src[i+2:]
	j := bytes.IndexByte(rest, '[')
	nl := bytes.IndexByte(rest, '\n')
	return j >= 0 && nl > j
}

func c06HangClass(where string, src []byte) string { return "" }

// c06CostClass names the family of a superlinear parse.
func c06CostClass(g c06Cfg, u, v, x []byte) string { return "" }
