package checks

// C28 child process: every case of C28 is executed in a separate worker
// process (the vcheck binary re-executed with VERIF_C28_CHILD=1), because the
// interpreter runs pipelines, background jobs and process substitutions in
// goroutines of its own: a panic there cannot be recovered by the caller of
// Runner.Run and takes the whole process down. The parent observes either a
// reply line (recovered panic or normal return) or the death of the child
// (unrecoverable panic), and attributes it to the case in flight.

import (
	"bufio"
	"bytes"
	"context"
	"encoding/json"
	"fmt"
	"hash/fnv"
	"io"
	"io/fs"
	"os"
	"path/filepath"
	"regexp"
	"runtime"
	"runtime/debug"
	"runtime/pprof"
	"strings"
	"sync"
	"sync/atomic"
	"syscall"
	"time"

	"mvdan.cc/sh/v3/expand"
	"mvdan.cc/sh/v3/interp"
	"mvdan.cc/sh/v3/syntax"

	"verif/mc/synt"
)

func init() {
	if os.Getenv("VERIF_C28_CHILD") == "1" {
		c28ChildMain()
		os.Exit(0)
	}
}

// c28Case is one case of any of the three parts.
type c28Case struct {
	// Part: "prog" (grammar/corpus program), "blt" (one builtin call),
	// "pair" (two consecutive calls), "opts" (option vector), "params"
	// (Params argument vector), "arith" (operator x boundary operands,
	// c28_arith.go), "zoo" (state prelude x consulting call, c28_state.go).
	Part    string `json:"part"`
	Src     string `json:"src,omitempty"`
	Variant string `json:"variant,omitempty"`
	Kind    int    `json:"kind,omitempty"`
	// Mode selects the variable environment of a program run (c28Modes).
	Mode int `json:"mode,omitempty"`
	// Stdin: 0 = short strings.Reader (the runner copies it through a pipe),
	// 1 = no stdin (nil), 2 = empty reader, 3 = a regular file with the same
	// short text.
	Stdin int `json:"stdin,omitempty"`
	// Opts are indices into c28OptMenu (part "opts").
	Opts []int `json:"opts,omitempty"`
	// Args are the arguments of Params (part "params"); How: 0 = New(Params),
	// 1 = New(StdIO, Params), 2 = the option applied to an existing runner.
	Args []string `json:"args,omitempty"`
	How  int      `json:"how,omitempty"`
	// Inter: the runner is built with interp.Interactive(true) (part "zoo").
	Inter bool `json:"inter,omitempty"`
	// WallMS / Steps are the hang guards (not oracles).
	WallMS int `json:"wall_ms,omitempty"`
	Steps  int `json:"steps,omitempty"`
}

type c28Reply struct {
	ParseErr bool   `json:"parse_err,omitempty"`
	Panic    string `json:"panic,omitempty"` // recovered panic value
	Frame    string `json:"frame,omitempty"` // innermost mvdan.cc/sh function on the panicking stack
	Stack    string `json:"stack,omitempty"`
	Deadline bool   `json:"deadline,omitempty"`
	StepsHit bool   `json:"steps_hit,omitempty"`
	NewErr   string `json:"new_err,omitempty"`
	Status   int    `json:"status"`
	Outcome  string `json:"outcome,omitempty"` // hash of status/stdout/stderr
	Stderr   string `json:"stderr,omitempty"`  // first bytes of the standard error
	Linger   bool   `json:"linger,omitempty"`  // goroutines of the case did not end: the child retires
	// set by the parent
	Crash string `json:"crash,omitempty"` // the child died: first line of its panic / fatal error
	Hang  bool   `json:"hang,omitempty"`
}

// c28Modes: the variable environment a program is run in.
//
//	0: x, y, a unset, no positional parameters
//	1: x, y strings from Env, positional parameters p1 -b 3
//	2: x, a indexed arrays (prelude run by the same runner), parameters as 1
//	3: x, a associative arrays, parameters as 1
const c28NumModes = 4

var c28Preludes = [c28NumModes]string{
	"",
	"",
	"x=(p 'a b' '' 3 -n); a=(1 2 3); y=1",
	"declare -A x=([k]=v [1]=w [ab]=''); declare -A a=([1]=2 [j]=3); y=k",
}

type c28Env struct {
	root, wd, tmp string
	preludes      [c28NumModes]*syntax.File
	open          interp.OpenHandlerFunc
	// dirty is set when a case may have changed the scratch directory
	dirty    atomic.Bool
	tmpMtime time.Time
}

// limited, goroutine-safe output buffer.
type c28Buf struct {
	mu sync.Mutex
	b  bytes.Buffer
}

func (w *c28Buf) Write(p []byte) (int, error) {
	w.mu.Lock()
	if w.b.Len() < 1<<16 {
		w.b.Write(p)
	}
	w.mu.Unlock()
	return len(p), nil
}

func (w *c28Buf) String() string {
	w.mu.Lock()
	defer w.mu.Unlock()
	return w.b.String()
}

func c28ChildMain() {
	debug.SetMaxStack(256 << 20)
	if pf := os.Getenv("VERIF_C28_PROF"); pf != "" {
		f, _ := os.Create(pf)
		pprof.StartCPUProfile(f)
		defer pprof.StopCPUProfile()
	}
	root := os.Getenv("VERIF_C28_DIR")
	e := &c28Env{root: root, wd: filepath.Join(root, "wd"), tmp: filepath.Join(root, "tmp")}
	os.MkdirAll(e.tmp, 0o755)
	os.WriteFile(filepath.Join(root, "stdin.txt"), []byte(c28StdinText), 0o644)
	debug.SetGCPercent(400)
	e.resetWD(true)
	os.Chdir(e.wd)
	for i, p := range c28Preludes {
		if p != "" {
			f, err := syntax.NewParser().Parse(strings.NewReader(p), "prelude")
			if err != nil {
				fmt.Fprintln(os.Stderr, "c28 child: bad prelude:", err)
				os.Exit(3)
			}
			e.preludes[i] = f
		}
	}
	e.open = interp.DefaultOpenHandler()
	in := bufio.NewReaderSize(os.Stdin, 1<<20)
	out := bufio.NewWriterSize(os.Stdout, 1<<16)
	for {
		line, err := in.ReadBytes('\n')
		if len(line) == 0 && err != nil {
			return
		}
		var cs c28Case
		if err := json.Unmarshal(line, &cs); err != nil {
			fmt.Fprintln(os.Stderr, "c28 child: bad case:", err)
			os.Exit(3)
		}
		if cs.Part == "ping" {
			out.WriteString("{}\n")
			out.Flush()
			continue
		}
		base := runtime.NumGoroutine()
		if cs.Part == "opts" || cs.Part == "params" {
			e.dirty.Store(true) // these parts may use the default open handler
		}
		rep := e.run(cs)
		rep.Linger = !e.settle(base)
		if fi, err := os.Stat(e.tmp); err != nil || !fi.ModTime().Equal(e.tmpMtime) {
			e.dirty.Store(true)
		}
		if e.dirty.Load() {
			e.resetWD(false)
			e.dirty.Store(false)
			if fi, err := os.Stat(e.tmp); err == nil {
				e.tmpMtime = fi.ModTime()
			}
		}
		data, _ := json.Marshal(rep)
		out.Write(data)
		out.WriteByte('\n')
		out.Flush()
		if rep.Linger {
			return
		}
	}
}

// settle waits until the goroutines started by the case have ended, so that a
// late panic in one of them cannot be attributed to a later case. Process
// substitutions whose FIFO nobody opened are unblocked by opening the FIFO
// read-write (which never blocks on Linux).
func (e *c28Env) settle(base int) bool {
	deadline := time.Now().Add(2 * time.Second)
	for i := 0; ; i++ {
		if runtime.NumGoroutine() <= base {
			return true
		}
		if i%4 == 1 {
			ents, _ := os.ReadDir(e.tmp)
			for _, ent := range ents {
				p := filepath.Join(e.tmp, ent.Name())
				if fd, err := syscall.Open(p, syscall.O_RDWR|syscall.O_NONBLOCK, 0); err == nil {
					// drain whatever a writer manages to put in, then close
					time.Sleep(200 * time.Microsecond)
					var buf [4096]byte
					syscall.Read(fd, buf[:])
					syscall.Close(fd)
				}
				if i > 40 {
					os.Remove(p)
				}
			}
		}
		if time.Now().After(deadline) {
			return false
		}
		if i < 20 {
			runtime.Gosched()
		} else {
			time.Sleep(100 * time.Microsecond)
		}
	}
}

const c28FixtureF = "echo sourced $# \"$@\"\nline2 a\\\n b\nlast"

// resetWD restores the working directory fixture: file f (also a valid
// script), file g, directory d with d/e.
func (e *c28Env) resetWD(force bool) {
	if !force {
		ents, err := os.ReadDir(e.wd)
		if err == nil && len(ents) == 3 && ents[0].Name() == "d" && ents[1].Name() == "f" && ents[2].Name() == "g" {
			fi, err1 := os.Stat(filepath.Join(e.wd, "f"))
			gi, err2 := os.Stat(filepath.Join(e.wd, "g"))
			di, err3 := os.ReadDir(filepath.Join(e.wd, "d"))
			if err1 == nil && err2 == nil && err3 == nil && fi.Mode().IsRegular() && fi.Size() == int64(len(c28FixtureF)) && gi.Mode().IsRegular() && gi.Size() == 2 && len(di) == 1 {
				if ei, err := os.Stat(filepath.Join(e.wd, "d", "e")); err == nil && ei.Size() == 0 {
					tents, _ := os.ReadDir(e.tmp)
					for _, t := range tents {
						os.RemoveAll(filepath.Join(e.tmp, t.Name()))
					}
					return
				}
			}
		}
	}
	os.RemoveAll(e.wd)
	os.RemoveAll(e.tmp)
	os.MkdirAll(filepath.Join(e.wd, "d"), 0o755)
	os.MkdirAll(e.tmp, 0o755)
	os.WriteFile(filepath.Join(e.wd, "f"), []byte(c28FixtureF), 0o644)
	os.WriteFile(filepath.Join(e.wd, "g"), []byte("1\n"), 0o644)
	os.WriteFile(filepath.Join(e.wd, "d", "e"), nil, 0o644)
}

func (e *c28Env) inside(path string) bool {
	path = filepath.Clean(path)
	return path == e.root || strings.HasPrefix(path, e.root+"/")
}

// openHandler confines file access to the scratch directory and /dev/null.
func (e *c28Env) openHandler(ctx context.Context, path string, flag int, perm os.FileMode) (io.ReadWriteCloser, error) {
	hc := interp.HandlerCtx(ctx)
	if path != "" && !filepath.IsAbs(path) {
		path = filepath.Join(hc.Dir, path)
	}
	if path == "/dev/null" {
		return e.open(ctx, path, flag, perm)
	}
	if e.inside(path) {
		if flag&(os.O_WRONLY|os.O_RDWR|os.O_CREATE|os.O_TRUNC|os.O_APPEND) != 0 {
			e.dirty.Store(true)
		}
		return e.open(ctx, path, flag, perm)
	}
	return nil, &os.PathError{Op: "open", Path: path, Err: syscall.EACCES}
}

func (e *c28Env) readDirHandler(ctx context.Context, path string) ([]fs.DirEntry, error) {
	if e.inside(path) {
		return os.ReadDir(path)
	}
	return nil, &os.PathError{Op: "open", Path: path, Err: syscall.ENOENT}
}

// c28Exec is the exec handler middleware: no real process is ever started.
func c28Exec(next interp.ExecHandlerFunc) interp.ExecHandlerFunc {
	return func(ctx context.Context, args []string) error {
		hc := interp.HandlerCtx(ctx)
		switch args[0] {
		case "true", "sleep":
			return nil
		case "false":
			return interp.ExitStatus(1)
		case "echo":
			fmt.Fprintln(hc.Stdout, strings.Join(args[1:], " "))
			return nil
		case "cat":
			if len(args) == 1 && hc.Stdin != nil {
				io.Copy(hc.Stdout, io.LimitReader(hc.Stdin, 1<<16))
				return nil
			}
			return interp.ExitStatus(1)
		}
		fmt.Fprintf(hc.Stderr, "%q: executable file not found in $PATH\n", args[0])
		return interp.ExitStatus(127)
	}
}

var c28AddrRe = regexp.MustCompile(`0x[0-9a-f]+`)

// c28Frame returns the innermost function of mvdan.cc/sh on a stack trace that
// follows the panic call.
func c28Frame(stack string) string {
	lines := strings.Split(stack, "\n")
	start := 0
	for i, l := range lines {
		if strings.HasPrefix(l, "panic(") {
			start = i
		}
	}
	for _, l := range lines[start:] {
		if strings.HasPrefix(l, "mvdan.cc/sh/v3/") {
			l = strings.TrimPrefix(l, "mvdan.cc/sh/v3/")
			if i := strings.LastIndex(l, "("); i > 0 {
				l = l[:i]
			}
			// closures: keep the enclosing function
			l = regexp.MustCompile(`(\.func\d+)+(\.\d+)*$`).ReplaceAllString(l, "")
			return l
		}
	}
	return ""
}

func c28PanicText(r any) string {
	s := fmt.Sprint(r)
	if err, ok := r.(error); ok {
		s = err.Error()
	}
	s = c28AddrRe.ReplaceAllString(s, "0x?")
	if len(s) > 200 {
		s = s[:200]
	}
	return s
}

func (e *c28Env) run(cs c28Case) (rep c28Reply) {
	defer func() {
		if r := recover(); r != nil {
			st := string(debug.Stack())
			rep.Panic = c28PanicText(r)
			rep.Frame = c28Frame(st)
			if len(st) > 6000 {
				st = st[:6000]
			}
			rep.Stack = st
		}
	}()
	switch cs.Part {
	case "opts":
		e.runOpts(cs, &rep)
	case "params":
		e.runParams(cs, &rep)
	default:
		e.runProg(cs, &rep)
	}
	return rep
}

const c28StdinText = "2\nl2 a\\\n b  c\n\n-n\nlast"

// stdin returns the standard input of a run and a function that releases it.
func (e *c28Env) stdin(mode int) (io.Reader, func()) {
	switch mode {
	case 1:
		return nil, func() {}
	case 2:
		return strings.NewReader(""), func() {}
	case 3:
		f, err := os.Open(filepath.Join(e.root, "stdin.txt"))
		if err != nil {
			fmt.Fprintln(os.Stderr, "c28 child:", err)
			os.Exit(3)
		}
		return f, func() { f.Close() }
	}
	return strings.NewReader(c28StdinText), func() {}
}

func (e *c28Env) runProg(cs c28Case, rep *c28Reply) {
	lang := syntax.LangBash
	if cs.Variant != "" {
		lang = synt.LangByName(cs.Variant)
	}
	f, err := syntax.NewParser(syntax.Variant(lang)).Parse(strings.NewReader(cs.Src), "")
	if err != nil {
		rep.ParseErr = true
		return
	}
	var out, errb c28Buf
	wall := time.Duration(cs.WallMS) * time.Millisecond
	if wall == 0 {
		wall = 10 * time.Second
	}
	ctx, cancel := context.WithTimeout(context.Background(), wall)
	defer cancel()
	var steps atomic.Int64
	maxSteps := int64(cs.Steps)
	if maxSteps == 0 {
		maxSteps = 4000
	}
	var stepsHit atomic.Bool
	env := []string{"PATH=/nonexistent-bin", "HOME=" + e.wd, "TMPDIR=" + e.tmp, "E=1"}
	var params []string
	if cs.Mode >= 1 {
		params = []string{"--", "p1", "-b", "3"}
		if cs.Mode == 1 {
			env = append(env, "x=ap pb", "y=2")
		}
	}
	stdin, release := e.stdin(cs.Stdin)
	defer release()
	opts := []interp.RunnerOption{
		interp.Env(expand.ListEnviron(env...)),
		interp.Dir(e.wd),
		interp.StdIO(stdin, &out, &errb),
		interp.OpenHandler(e.openHandler),
		interp.ReadDirHandler2(e.readDirHandler),
		interp.ExecHandlers(c28Exec),
		interp.CallHandler(func(ctx context.Context, args []string) ([]string, error) {
			if steps.Add(1) > maxSteps {
				stepsHit.Store(true)
				cancel()
			}
			return args, nil
		}),
	}
	if params != nil {
		opts = append(opts, interp.Params(params...))
	}
	if cs.Inter {
		opts = append(opts, interp.Interactive(true))
	}
	r, err := interp.New(opts...)
	if err != nil {
		rep.NewErr = err.Error()
		return
	}
	if p := e.preludes[cs.Mode]; p != nil {
		r.Run(ctx, p)
	}
	err = r.Run(ctx, f)
	rep.StepsHit = stepsHit.Load()
	rep.Deadline = !rep.StepsHit && ctx.Err() != nil
	cancel()
	if cs.Part == "zoo" {
		// listings of aliases, variables and traps follow Go's map order
		e.outcome(rep, err, c28SortLines(out.String()), c28SortLines(errb.String()))
		return
	}
	e.outcome(rep, err, out.String(), errb.String())
}

func (e *c28Env) outcome(rep *c28Reply, err error, out, errs string) {
	out = strings.ReplaceAll(out, e.root, "$ROOT")
	errs = strings.ReplaceAll(errs, e.root, "$ROOT")
	if err != nil {
		if st, ok := interp.IsExitStatus(err); ok {
			rep.Status = int(st)
		} else {
			rep.Status = -1
		}
	}
	h := fnv.New64a()
	fmt.Fprintf(h, "%d\x00%s\x00%s", rep.Status, out, errs)
	rep.Outcome = fmt.Sprintf("%x", h.Sum64())
	if len(errs) > 160 {
		errs = errs[:160]
	}
	rep.Stderr = errs
}
