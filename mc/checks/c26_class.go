package checks

import "verif/mc/oracle"

func c26Classify(t c26Case, ir oracle.InterpResult, br c26Res, rerun func(string) oracle.InterpResult) string {
	return ""
}
