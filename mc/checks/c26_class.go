package checks

import (
	"bytes"
	"strings"

	"mvdan.cc/sh/v3/syntax"

	"verif/mc/oracle"
)

// Classification of interp-vs-bash disagreements.
//
// A "transparent" family is a source-level repair (a rewrite of the syntax
// tree that makes the interpreter behave the way bash does for one specific
// construct) or an output normaliser. A failure belongs to the smallest set of
// transparent families whose repairs, applied together, make the interpreter
// produce exactly bash's stdout and status: the divergence is then fully
// explained by those families and nothing else. The class is the first of
// them in the order of c26Families. An "opaque" family (c26_opaque.go) has
// only a narrow syntactic trigger; it is used when no set of repairs explains
// the failure and the trigger construct occurs in the program. Everything
// else stays unclassified.

type c26Family struct {
	name string
	// repair rewrites f in place and reports whether it changed anything.
	repair func(f *syntax.File) bool
	// norm, when set, is applied to both outputs before they are compared.
	norm func(string) string
}

func c26ParseCmd(src string) syntax.Command {
	f, err := syntax.NewParser(syntax.Variant(syntax.LangBash)).Parse(strings.NewReader(src), "")
	if err != nil || len(f.Stmts) != 1 {
		panic("c26ParseCmd: " + src)
	}
	return f.Stmts[0].Cmd
}

func c26Print(n syntax.Node) string {
	var b bytes.Buffer
	syntax.NewPrinter().Print(&b, n)
	return b.String()
}

// c26WalkStmts calls fn for every statement with the stack of enclosing nodes.
func c26WalkStmts(f *syntax.File, fn func(st *syntax.Stmt, stack []syntax.Node)) {
	var stack []syntax.Node
	syntax.Walk(f, func(n syntax.Node) bool {
		if n == nil {
			stack = stack[:len(stack)-1]
			return true
		}
		if st, ok := n.(*syntax.Stmt); ok {
			fn(st, stack)
		}
		stack = append(stack, n)
		return true
	})
}

func c26CallName(st *syntax.Stmt) string {
	if ce, ok := st.Cmd.(*syntax.CallExpr); ok && len(ce.Args) > 0 {
		return ce.Args[0].Lit()
	}
	return ""
}

func c26Inside[T syntax.Node](stack []syntax.Node) bool {
	for _, n := range stack {
		if _, ok := n.(T); ok {
			return true
		}
	}
	return false
}

// test invocations that are usage errors (bash: status 2) whatever the state
var c26TestErrors = map[string]bool{
	"[ x -eq 1 ]": true, "[ 1 -eq ]": true, "[ a = a": true,
}

// ... and those that are usage errors when x is unset / 'a b'
var c26TestErrorsState = map[string]bool{
	"[ $x = 'a b' ]": true, "[ $x = a ]": true,
}

var c26Families = []c26Family{
	{
		// bash runs every pipeline stage in a subshell; the interpreter runs the
		// last one in the calling shell (like `shopt -s lastpipe`)
		name: "last-pipeline-stage-runs-in-parent-shell",
		repair: func(f *syntax.File) bool {
			changed := false
			syntax.Walk(f, func(n syntax.Node) bool {
				b, ok := n.(*syntax.BinaryCmd)
				if !ok || (b.Op != syntax.Pipe && b.Op != syntax.PipeAll) {
					return true
				}
				if _, ok := b.Y.Cmd.(*syntax.Subshell); ok && !b.Y.Negated && len(b.Y.Redirs) == 0 {
					return true
				}
				b.Y = &syntax.Stmt{Cmd: &syntax.Subshell{Stmts: []*syntax.Stmt{b.Y}}}
				changed = true
				return true
			})
			return changed
		},
	},
	{
		// the ERR trap runs once per enclosing statement of the failed command
		// (function call, brace group, if, case, loop body, last pipeline stage)
		// instead of once
		name: "err-trap-runs-again-for-each-enclosing-statement",
		repair: func(f *syntax.File) bool {
			has := false
			c26WalkStmts(f, func(st *syntax.Stmt, _ []syntax.Node) {
				if ce, ok := st.Cmd.(*syntax.CallExpr); ok && c26CallName(st) == "trap" && ce.Args[len(ce.Args)-1].Lit() == "ERR" {
					has = true
				}
			})
			return has
		},
		norm: func(s string) string {
			lines := strings.SplitAfter(s, "\n")
			var out []string
			for i, l := range lines {
				if i > 0 && l == lines[i-1] && strings.Contains(l, "ERR") {
					continue
				}
				out = append(out, l)
			}
			return strings.Join(out, "")
		},
	},
	{
		// test/[ usage errors (missing operand, non-integer, missing ]) give
		// status 1 instead of 2
		name:   "test-usage-error-status-1-not-2",
		repair: func(f *syntax.File) bool { return c26ReplaceTests(f, c26TestErrors) },
	},
	{
		name:   "test-usage-error-status-1-not-2",
		repair: func(f *syntax.File) bool { return c26ReplaceTests(f, c26TestErrorsState) },
	},
	{
		// `return` outside a function: bash status 2, interp 1
		name: "return-outside-function-status-1-not-2",
		repair: func(f *syntax.File) bool {
			changed := false
			c26WalkStmts(f, func(st *syntax.Stmt, stack []syntax.Node) {
				if c26CallName(st) == "return" && !c26Inside[*syntax.FuncDecl](stack) {
					st.Cmd = c26ParseCmd("(exit 2)")
					changed = true
				}
			})
			return changed
		},
	},
	{
		// ${#m[@]} of an associative array is 1 instead of the number of keys
		name: "assoc-array-count-is-1",
		repair: func(f *syntax.File) bool {
			assoc := map[string]bool{}
			syntax.Walk(f, func(n syntax.Node) bool {
				if d, ok := n.(*syntax.DeclClause); ok {
					isA := false
					for _, a := range d.Args {
						if a.Name == nil && a.Value != nil && strings.HasPrefix(a.Value.Lit(), "-") && strings.Contains(a.Value.Lit(), "A") {
							isA = true
						}
					}
					for _, a := range d.Args {
						if isA && a.Name != nil {
							assoc[a.Name.Value] = true
						}
					}
				}
				return true
			})
			changed := false
			syntax.Walk(f, func(n syntax.Node) bool {
				w, ok := n.(*syntax.Word)
				if !ok {
					return true
				}
				for i, p := range w.Parts {
					pe, ok := p.(*syntax.ParamExp)
					if !ok || !pe.Length || pe.Index == nil || !assoc[pe.Param.Value] {
						continue
					}
					if ix, ok := pe.Index.(*syntax.Word); !ok || (ix.Lit() != "@" && ix.Lit() != "*") {
						continue
					}
					ce := c26ParseCmd("echo $(cnt=0; for key in \"${!" + pe.Param.Value + "[@]}\"; do cnt=$((cnt+1)); done; echo $cnt)").(*syntax.CallExpr)
					w.Parts[i] = ce.Args[1].Parts[0]
					changed = true
				}
				return true
			})
			return changed
		},
	},
	{
		// bash (not in posix mode) turns -e off inside command substitutions;
		// the interpreter's command substitution inherits it
		name: "errexit-inherited-by-command-substitution",
		repair: func(f *syntax.File) bool {
			changed := false
			syntax.Walk(f, func(n syntax.Node) bool {
				if cs, ok := n.(*syntax.CmdSubst); ok && len(cs.Stmts) > 0 {
					off := c26ParseCmd("{ set +e; }").(*syntax.Block).Stmts[0]
					cs.Stmts = append([]*syntax.Stmt{off}, cs.Stmts...)
					changed = true
				}
				return true
			})
			return changed
		},
	},
	{
		// a while/until loop that ends because its condition says so has status
		// 0 instead of the status of the last body command run
		name: "while-until-status-not-last-body-status",
		repair: func(f *syntax.File) bool {
			changed := false
			seq := 0
			var loops []*syntax.Stmt
			c26WalkStmts(f, func(st *syntax.Stmt, _ []syntax.Node) {
				if _, ok := st.Cmd.(*syntax.WhileClause); ok && !st.Negated {
					loops = append(loops, st)
				}
			})
			for _, st := range loops {
				w := st.Cmd.(*syntax.WhileClause)
				seq++
				v := "lst" + string(rune('a'+seq%26))
				pre := c26ParseCmd("{ " + v + "=0; }").(*syntax.Block).Stmts[0]
				save := c26ParseCmd("{ " + v + "=$?; }").(*syntax.Block).Stmts[0]
				done := c26ParseCmd("{ c26st() { return $1; }; c26st $" + v + "; }").(*syntax.Block).Stmts
				do := append([]*syntax.Stmt{pre}, w.Do...)
				do = append(do, save)
				inner := &syntax.Stmt{Cmd: &syntax.WhileClause{Until: w.Until, Cond: w.Cond, Do: do}}
				st.Cmd = &syntax.Block{Stmts: append([]*syntax.Stmt{pre, inner}, done...)}
				changed = true
			}
			return changed
		},
	},
	{
		// "${!a[@]}" / "${!a[*]}" of an unset variable is a fatal "invalid
		// indirect expansion" (bash: expands to nothing); C33 and C21 record it
		// (keys-of-valueless-var-is-fatal, keys-of-scalar). Repair: list the
		// keys only when the variable has a value.
		name: "keys-of-unset-variable-is-fatal-see-C33",
		repair: func(f *syntax.File) bool {
			type slot struct {
				parts []syntax.WordPart
				i     int
			}
			var slots []slot
			visit := func(parts []syntax.WordPart) {
				for i, p := range parts {
					pe, ok := p.(*syntax.ParamExp)
					if !ok || !pe.Excl || pe.Index == nil || pe.Param == nil || pe.Exp != nil || pe.Repl != nil || pe.Slice != nil {
						continue
					}
					if ix, ok := pe.Index.(*syntax.Word); !ok || (ix.Lit() != "@" && ix.Lit() != "*") {
						continue
					}
					slots = append(slots, slot{parts, i})
				}
			}
			syntax.Walk(f, func(n syntax.Node) bool {
				switch n := n.(type) {
				case *syntax.Word:
					visit(n.Parts)
				case *syntax.DblQuoted:
					visit(n.Parts)
				}
				return true
			})
			for _, s := range slots {
				pe := s.parts[s.i].(*syntax.ParamExp)
				nm, ix := pe.Param.Value, pe.Index.(*syntax.Word).Lit()
				ce := c26ParseCmd("echo $(if [ -n \"${" + nm + "[*]+s}\" ]; then echo \"${!" + nm + "[" + ix + "]}\"; fi)").(*syntax.CallExpr)
				s.parts[s.i] = ce.Args[1].Parts[0]
			}
			return len(slots) > 0
		},
	},
	{
		// name+=([k]=v ...) on an associative array is ignored (a TODO in
		// Runner.assignVal). Repair: one element assignment per pair, which
		// means the same in bash.
		name: "assoc-array-compound-append-ignored",
		repair: func(f *syntax.File) bool {
			// only names declared -A: the rewrite must not touch (and so cannot
			// explain away) a compound append to an indexed array
			assoc := map[string]bool{}
			syntax.Walk(f, func(n syntax.Node) bool {
				if d, ok := n.(*syntax.DeclClause); ok {
					isA := false
					for _, a := range d.Args {
						if a.Name == nil && a.Value != nil && strings.HasPrefix(a.Value.Lit(), "-") && strings.Contains(a.Value.Lit(), "A") {
							isA = true
						}
					}
					for _, a := range d.Args {
						if isA && a.Name != nil {
							assoc[a.Name.Value] = true
						}
					}
				}
				return true
			})
			changed := false
			syntax.Walk(f, func(n syntax.Node) bool {
				ce, ok := n.(*syntax.CallExpr)
				if !ok || len(ce.Args) > 0 {
					return true
				}
				var out []*syntax.Assign
				for _, as := range ce.Assigns {
					split := as.Append && as.Array != nil && as.Index == nil && len(as.Array.Elems) > 0 && assoc[as.Name.Value]
					if split {
						for _, el := range as.Array.Elems {
							if el.Index == nil || el.Value == nil {
								split = false
							}
						}
					}
					if !split {
						out = append(out, as)
						continue
					}
					for _, el := range as.Array.Elems {
						out = append(out, &syntax.Assign{Name: as.Name, Index: el.Index, Value: el.Value})
					}
					changed = true
				}
				ce.Assigns = out
				return true
			})
			return changed
		},
	},
}

func c26ReplaceTests(f *syntax.File, set map[string]bool) bool {
	changed := false
	c26WalkStmts(f, func(st *syntax.Stmt, _ []syntax.Node) {
		if n := c26CallName(st); n != "[" && n != "test" {
			return
		}
		if set[c26Print(st.Cmd)] {
			st.Cmd = c26ParseCmd("(exit 2)")
			changed = true
		}
	})
	return changed
}

func c26Classify(t c26Case, ir oracle.InterpResult, br c26Res, run func(f *syntax.File) oracle.InterpResult) string {
	parse := func() *syntax.File {
		f, err := syntax.NewParser(syntax.Variant(syntax.LangBash)).Parse(strings.NewReader(t.Src), "")
		if err != nil {
			return nil
		}
		return f
	}
	f0 := parse()
	if f0 == nil {
		return ""
	}
	// applicable transparent families
	var app []int
	for i, fam := range c26Families {
		if fam.repair(parse()) {
			app = append(app, i)
		}
	}
	if len(app) > 6 {
		app = app[:6]
	}
	best := -1
	bestN := 99
	for mask := 1; mask < 1<<len(app); mask++ {
		n := 0
		for b := range app {
			if mask&(1<<b) != 0 {
				n++
			}
		}
		if n >= bestN {
			continue
		}
		f := parse()
		norm := func(s string) string { return s }
		for b, i := range app {
			if mask&(1<<b) == 0 {
				continue
			}
			fam := c26Families[i]
			fam.repair(f)
			if fam.norm != nil {
				prev := norm
				norm = func(s string) string { return fam.norm(prev(s)) }
			}
		}
		r := run(f)
		if r.Panicked || r.Status != br.Status || norm(r.Stdout) != norm(br.Out) {
			continue
		}
		best, bestN = mask, n
	}
	if best > 0 {
		// several repairs needed together: the class is the first of them in
		// the order of c26Families (keeps the number of classes bounded)
		for b, i := range app {
			if best&(1<<b) != 0 {
				return c26Families[i].name
			}
		}
	}
	// no set of repairs explains it: the first opaque family (narrowest
	// first) whose trigger construct occurs in the program
	for _, o := range c26Opaque {
		if o.trigger(f0, t.Src) {
			return o.name
		}
	}
	obs := c26Observed{ir.Stdout, br.Out, ir.Status, br.Status}
	for _, o := range c26OpaqueDirected {
		if o.trigger(f0, t.Src, obs) {
			return o.name
		}
	}
	return ""
}
