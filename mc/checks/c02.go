package checks

import (
	"fmt"

	"mvdan.cc/sh/v3/syntax"

	"verif/mc/synt"
	"verif/mc/vc"
)

func init() { Registry["C02"] = c02 }

func c02(c *vc.Ctx) {
	space := synSpace{Depth: 2, CoreOnly: true, LayoutDepth: 1, Corpus: true, AllVariantsDeep: !c.Quick()}
	fullConfigs := synt.Configs(vc.Pick(c, []uint{0, 4}, []uint{0, 1, 2, 3, 4, 8}), false)
	var reduced []synt.Config
	for _, cfg := range reducedConfigs() {
		if !cfg.KeepPad {
			reduced = append(reduced, cfg)
		}
	}
	c.Rule = space.describe() + fmt.Sprintf("; configurations without KeepPadding: all %d for corpus and depth<=1 programs, %d representative ones for layout-deviation and depth-2 programs, each also with Simplify applied before printing (reduced set); oracle: Print(Parse(P1)) == P1 byte for byte where P1 = Print(Parse(src)); distinct = distinct P1 texts", len(fullConfigs), len(reduced))
	complete := vc.Run(c, func(emit func(synCase)) { genSyn(c, space, emit) }, func(t synCase) *vc.Fail {
		ws := synt.GetWorkspace()
		defer synt.PutWorkspace(ws)
		lang := synt.LangByName(t.Variant)
		key := t.Variant + " " + fmt.Sprintf("%q", t.Src)
		f, err := ws.Parse(t.Src, lang)
		if err != nil {
			c.Count("pairs_not_parsing", 1)
			return nil
		}
		c.Count("pairs_parsing", 1)
		cfgs := fullConfigs
		if t.Kind >= 2 {
			cfgs = reduced
		}
		checked := map[string]bool{}
		one := func(cfg synt.Config, simplify bool, f *syntax.File) *vc.Fail {
			if cfg.Minify && cfg.Single {
				return nil
			}
			tag := cfg.String()
			if simplify {
				tag += ",s"
			}
			var p1, p2 string
			var e1 error
			if fl := guard(key+" "+tag, func() { p1, e1 = ws.Print(cfg, f) }); fl != nil {
				ws.Drop()
				return fl
			}
			if e1 != nil {
				return nil // C01's business
			}
			ck := p1
			if cfg.Minify {
				ck = "M" + ck
			}
			ck = fmt.Sprintf("%d%v%v%v%v%v|%s", cfg.Indent, cfg.BinNext, cfg.CaseInd, cfg.SpaceRed, cfg.FuncNext, simplify, ck)
			if checked[ck] {
				return nil
			}
			checked[ck] = true
			c.Distinct(p1)
			f2, err := ws.Parse(p1, lang)
			if err != nil {
				return nil // C01's business
			}
			if simplify {
				syntax.Simplify(f2)
			}
			if fl := guard(key+" "+tag, func() { p2, e1 = ws.Print(cfg, f2) }); fl != nil {
				ws.Drop()
				return fl
			}
			if p2 != p1 {
				return &vc.Fail{Key: key + " idem", Msg: fmt.Sprintf("[%s] %s with %s: first format %s, second format %s", t.Variant, shortSrc(t.Src), tag, shortSrc(p1), shortSrc(p2))}
			}
			return nil
		}
		for _, cfg := range cfgs {
			if fl := one(cfg, false, f); fl != nil {
				return fl
			}
		}
		// with Simplify (shfmt -s); Simplify mutates, so parse afresh
		fs, err := ws.Parse(t.Src, lang)
		if err == nil {
			syntax.Simplify(fs)
			for _, cfg := range reduced {
				if fl := one(cfg, true, fs); fl != nil {
					return fl
				}
			}
		}
		if t.Kind == 2 {
			c.Sample(map[string]any{"src": t.Src, "variant": t.Variant})
		}
		return nil
	})
	c.Finish(complete)
}
