package checks

import (
	"encoding/json"
	"fmt"
	"os"
	"sync"

	"mvdan.cc/sh/v3/syntax"

	"verif/mc/synt"
	"verif/mc/vc"
)

func init() { Registry["C02"] = c02 }

// c02ReducedConfigs is the representative configuration set used for the
// larger program sets (layout deviations, depth-2 programs, Simplify): default,
// each option alone, all layout options together, and Minify combinations.
// KeepPadding is excluded by the property; Minify+SingleLine is refused by the
// printer (C01 checks that), so neither appears here.
func c02ReducedConfigs() []synt.Config {
	return []synt.Config{
		{}, {Indent: 4}, {Indent: 2, CaseInd: true, BinNext: true},
		{BinNext: true}, {CaseInd: true}, {SpaceRed: true}, {FuncNext: true}, {Minify: true}, {Single: true},
		{Indent: 2, BinNext: true, CaseInd: true, SpaceRed: true, FuncNext: true},
		{BinNext: true, CaseInd: true, SpaceRed: true, FuncNext: true, Single: true},
		{Minify: true, BinNext: true, SpaceRed: true}, {Minify: true, Indent: 4, CaseInd: true, FuncNext: true},
		{Single: true, Indent: 3, SpaceRed: true},
	}
}

// c02Diff is one non-idempotent (input, configuration) pair.
type c02Diff struct {
	Variant  string `json:"variant"`
	Src      string `json:"src"`
	Cfg      string `json:"cfg"`
	Simplify bool   `json:"simplify,omitempty"`
	P1       string `json:"p1"`
	P2       string `json:"p2"`
	Class    string `json:"class"`
}

// VERIF_C02_ALL=<file> (development aid) writes every non-idempotent
// (input, configuration) pair with its class as one JSON object per line.
var (
	c02Counted sync.Map // input key + class, so re-executions do not count twice
	c02AllMu   sync.Mutex
	c02AllF  *os.File
)

func c02DumpAll(d c02Diff) {
	path := os.Getenv("VERIF_C02_ALL")
	if path == "" {
		return
	}
	c02AllMu.Lock()
	defer c02AllMu.Unlock()
	if c02AllF == nil {
		c02AllF, _ = os.Create(path)
	}
	if c02AllF != nil {
		b, _ := json.Marshal(d)
		c02AllF.Write(append(b, '\n'))
	}
}

func c02(c *vc.Ctx) {
	space := synSpace{Depth: 2, CoreOnly: true, LayoutDepth: 1, Corpus: true, AllVariantsDeep: !c.Quick()}
	fullConfigs := synt.Configs(vc.Pick(c, []uint{0, 4}, []uint{0, 1, 2, 3, 4, 8}), false)
	for _, cfg := range fullConfigs {
		if cfg.KeepPad {
			panic("C02: KeepPadding is outside the property")
		}
	}
	reduced := c02ReducedConfigs()
	c.Rule = space.describe() + fmt.Sprintf(" + %d hand-written layout-sensitive programs (c02_extra.go) in every variant; configurations without KeepPadding (and without the refused Minify+SingleLine): all %d for corpus and depth<=1 programs, %d representative ones for layout-deviation and depth-2 programs, each also with Simplify applied before printing (reduced set); %s; oracle: Print(Parse(P1)) == P1 byte for byte where P1 = Print(Parse(src)) (with Simplify: P1 = Print(Simplify(Parse(src))), P2 = Print(Simplify(Parse(P1)))); every failing configuration of an input is classified, one failure is reported per (input, variant); distinct = distinct P1 texts", len(c02Extra)+len(synPairSignAtoms()), len(fullConfigs), len(reduced), synPairRule(c.Quick(), len(fullConfigs), len(reduced), 3))
	c.Assumptions = []string{"P1 not reparsing, or Print failing, is C01's business and not judged here"}
	gen := func(emit func(synCase)) {
		if os.Getenv("VERIF_C02_EXTRA_ONLY") == "" && os.Getenv("VERIF_C02_PAIRS_ONLY") == "" {
			genSyn(c, space, emit)
		} else {
			c.CapNote("VERIF_C02_EXTRA_ONLY / VERIF_C02_PAIRS_ONLY set: only the hand-written programs and the statement pairs were run (development aid)")
		}
		for _, src := range append(append([]string{}, c02Extra...), synPairSignAtoms()...) {
			for _, v := range synt.Variants {
				emit(synCase{src, v.Name, 0})
			}
		}
		genSynPairs(c.Quick(), emit)
	}
	// statement pairs (c01c02_pairs.go): core x core pairs get the larger
	// configuration set of the tier, all pairs the smaller one
	pairSmall := []synt.Config{{}, {Minify: true}, {Single: true}}
	pairCore, pairAll := vc.Pick(c, reduced, fullConfigs), vc.Pick(c, pairSmall, reduced)
	complete := vc.Run(c, gen, func(t synCase) *vc.Fail {
		ws := synt.GetWorkspace()
		defer synt.PutWorkspace(ws)
		lang := synt.LangByName(t.Variant)
		key := t.Variant + " " + fmt.Sprintf("%q", t.Src)
		f, err := ws.Parse(t.Src, lang)
		if err != nil {
			c.Count("pairs_not_parsing", 1)
			return nil
		}
		c.Count("pairs_parsing", 1)
		cfgs, simpCfgs := fullConfigs, reduced
		switch {
		case t.Kind == synKindPairCore:
			cfgs = pairCore
		case t.Kind == synKindPair:
			cfgs, simpCfgs = pairAll, pairAll
		case t.Kind == synKindPairCtx:
			cfgs, simpCfgs = pairSmall, pairSmall
		case t.Kind >= 2:
			cfgs = reduced
		}
		checked := map[string]bool{}
		// first unclassified failure wins; otherwise the first classified one
		var firstClassified, firstUnclassified *vc.Fail
		seenClass := map[string]bool{}
		one := func(cfg synt.Config, simplify bool, f *syntax.File) *vc.Fail {
			if cfg.Minify && cfg.Single {
				return nil
			}
			tag := cfg.String()
			if simplify {
				tag += ",s"
			}
			var p1, p2 string
			var e1 error
			if fl := guard(key+" "+tag, func() { p1, e1 = ws.Print(cfg, f) }); fl != nil {
				ws.Drop()
				return fl
			}
			if e1 != nil {
				return nil // C01's business
			}
			ck := p1
			if cfg.Minify {
				ck = "M" + ck
			}
			ck = fmt.Sprintf("%d%v%v%v%v%v|%s", cfg.Indent, cfg.BinNext, cfg.CaseInd, cfg.SpaceRed, cfg.FuncNext, simplify, ck)
			if checked[ck] {
				return nil
			}
			checked[ck] = true
			c.Distinct(p1)
			f2, err := ws.Parse(p1, lang)
			if err != nil {
				return nil // C01's business
			}
			if simplify {
				syntax.Simplify(f2)
			}
			if fl := guard(key+" "+tag, func() { p2, e1 = ws.Print(cfg, f2) }); fl != nil {
				ws.Drop()
				return fl
			}
			if p2 == p1 {
				return nil
			}
			class := c02Classify(t.Src, lang, cfg, simplify, p1, p2)
			if _, dup := c02Counted.LoadOrStore(key+"|"+tag, true); !dup {
				c.Count("failing_input_config_pairs", 1)
			}
			c02DumpAll(c02Diff{t.Variant, t.Src, cfg.String(), simplify, p1, p2, class})
			if !seenClass[class] {
				seenClass[class] = true
				if _, dup := c02Counted.LoadOrStore(key+"|"+class, true); dup {
					// a re-execution of a reported failure: already counted
				} else if class == "" {
					c.Count("inputs_failing_unclassified", 1)
				} else {
					c.Count("inputs_failing_"+class, 1)
				}
			}
			fl := &vc.Fail{Key: key + " refmt", Class: class, Msg: fmt.Sprintf("[%s] %s with %s: first format %s, second format %s", t.Variant, shortSrc(t.Src), tag, shortSrc(p1), shortSrc(p2))}
			if class == "" {
				if firstUnclassified == nil {
					firstUnclassified = fl
				}
			} else if firstClassified == nil {
				firstClassified = fl
			}
			return nil
		}
		for _, cfg := range cfgs {
			if fl := one(cfg, false, f); fl != nil {
				return fl
			}
		}
		// with Simplify (shfmt -s); Simplify mutates, so parse afresh
		fs, err := ws.Parse(t.Src, lang)
		if err == nil {
			syntax.Simplify(fs)
			for _, cfg := range simpCfgs {
				if fl := one(cfg, true, fs); fl != nil {
					return fl
				}
			}
		}
		if firstUnclassified != nil {
			return firstUnclassified
		}
		if firstClassified != nil {
			return firstClassified
		}
		if t.Kind == 2 {
			c.Sample(map[string]any{"src": t.Src, "variant": t.Variant})
		}
		return nil
	})
	c.Finish(complete)
}
