package checks

import (
	"fmt"
	"os"
	"regexp"
	"runtime"
	"strings"
	"sync"

	"mvdan.cc/sh/v3/syntax"

	"verif/mc/synt"
	"verif/mc/vc"
)

func init() { Registry["C03"] = c03 }

// c03Case is one (program, distinct printed text) pair. The printed text is
// not stored: it is re-derived by printing Src with Cfg, the first
// configuration (in enumeration order) that produces it.
type c03Case struct {
	Src    string      `json:"src"`
	Origin string      `json:"origin"` // "corpus" or "gexec"
	Cfg    synt.Config `json:"cfg"`
	NCfg   int         `json:"ncfg"`           // how many configurations give this same text
	Only   string      `json:"only,omitempty"` // options set in every configuration that gives this text, e.g. "mn" or "sl,kp"
	Tmpl   string      `json:"tmpl,omitempty"` // grammar template (generated programs)
}

// c03Configs: every printer configuration that Print accepts
// (Minify+SingleLine is refused by Print), or a representative subset.
func c03Configs(full bool) []synt.Config {
	var out []synt.Config
	if full {
		for _, cfg := range synt.Configs([]uint{0, 2, 4, 8}, true) {
			if !(cfg.Minify && cfg.Single) {
				out = append(out, cfg)
			}
		}
		return out
	}
	return []synt.Config{
		{}, {Indent: 2}, {Indent: 4}, {Indent: 8},
		{BinNext: true}, {CaseInd: true}, {SpaceRed: true}, {KeepPad: true}, {FuncNext: true},
		{Minify: true}, {Single: true},
		{Indent: 2, BinNext: true, CaseInd: true, SpaceRed: true, FuncNext: true},
		{Indent: 4, KeepPad: true, BinNext: true, CaseInd: true, SpaceRed: true, FuncNext: true},
		{Minify: true, BinNext: true, CaseInd: true, SpaceRed: true, FuncNext: true, KeepPad: true, Indent: 4},
		{Single: true, BinNext: true, CaseInd: true, SpaceRed: true, FuncNext: true, Indent: 2},
		{Single: true, KeepPad: true},
	}
}

type c03Prog struct {
	Src, Origin, Tmpl string
	Full              bool // print under the full configuration set
}

// c03Texts prints src under every configuration and returns one case per
// distinct output that differs from the source itself.
func c03Texts(c *vc.Ctx, ws *synt.Workspace, p c03Prog, cfgs []synt.Config) []c03Case {
	f, err := ws.Parse(p.Src, syntax.LangBash)
	if err != nil {
		c.Count("skipped_original_does_not_parse", 1)
		return nil
	}
	c.Count("programs_parsing", 1)
	type info struct {
		first synt.Config
		n     int
		only  [7]bool
	}
	seen := map[string]*info{}
	var order []string
	for _, cfg := range cfgs {
		var out string
		var perr error
		if fl := guard("print", func() { out, perr = ws.Print(cfg, f) }); fl != nil {
			ws.Drop()
			out, perr = "", fmt.Errorf("panic: %s", fl.Msg)
		}
		if perr != nil {
			out = "\x00print error: " + perr.Error()
		}
		flags := [7]bool{cfg.BinNext, cfg.CaseInd, cfg.SpaceRed, cfg.KeepPad, cfg.FuncNext, cfg.Minify, cfg.Single}
		in := seen[out]
		if in == nil {
			in = &info{first: cfg, only: flags}
			seen[out] = in
			order = append(order, out)
		} else {
			for i := range flags {
				in.only[i] = in.only[i] && flags[i]
			}
		}
		in.n++
	}
	c.Count("prints", len(cfgs))
	var cases []c03Case
	names := [7]string{"bn", "ci", "sr", "kp", "fn", "mn", "sl"}
	for _, out := range order {
		if out == p.Src {
			c.Count("texts_identical_to_source", 1)
			continue
		}
		in := seen[out]
		var only []string
		for i, on := range in.only {
			if on {
				only = append(only, names[i])
			}
		}
		cases = append(cases, c03Case{Src: p.Src, Origin: p.Origin, Cfg: in.first, NCfg: in.n, Only: strings.Join(only, ","), Tmpl: p.Tmpl})
	}
	c.Count("distinct_texts", len(cases))
	return cases
}

// c03Gen enumerates the programs, prints them in parallel chunks and emits
// the cases in enumeration order.
func c03Gen(c *vc.Ctx, emit func(c03Case)) {
	full := c03Configs(true)
	reduced := c03Configs(false)
	var chunk []c03Prog
	flush := func() {
		res := make([][]c03Case, len(chunk))
		var wg sync.WaitGroup
		nw := runtime.NumCPU()
		for w := 0; w < nw; w++ {
			wg.Add(1)
			go func(w int) {
				defer wg.Done()
				ws := synt.GetWorkspace()
				defer synt.PutWorkspace(ws)
				for i := w; i < len(chunk); i += nw {
					cfgs := reduced
					if chunk[i].Full {
						cfgs = full
					}
					res[i] = c03Texts(c, ws, chunk[i], cfgs)
				}
			}(w)
		}
		wg.Wait()
		for _, cs := range res {
			for _, cs1 := range cs {
				emit(cs1)
			}
		}
		chunk = chunk[:0]
	}
	seen := map[string]bool{}
	c03Programs(c, func(p c03Prog) {
		if seen[p.Src] {
			return
		}
		seen[p.Src] = true
		if strings.ContainsRune(p.Src, 0) {
			c.Count("skipped_source_contains_nul", 1) // bash refuses such a file as binary: not a runnable program
			return
		}
		if c03ExcludedSource(p.Src) {
			c.Count("excluded_lone_trailing_backslash", 1)
			return
		}
		c.Count("programs_"+p.Origin, 1)
		chunk = append(chunk, p)
		if len(chunk) >= 1024 {
			flush()
		}
	})
	flush()
}

// c03ExcludedSource: the property excludes inputs whose meaning is
// shell-defined at EOF: a lone trailing backslash (an odd number of
// backslashes ending the input).
func c03ExcludedSource(src string) bool {
	n := len(src) - len(strings.TrimRight(src, `\`))
	return n%2 == 1
}

func c03(c *vc.Ctx) {
	c03SetupTools()
	slots := c03GetSlots()
	c.Reruns = 2
	c.Rule = "programs = (a) every string literal of interp/interp_test.go (extracted from the working tree) that parses as bash, (b) the generated family G_exec (mc/checks/c03_gen.go: " + c03GenDescribe(c) + "); each program is printed under " +
		vc.Pick(c, fmt.Sprintf("%d representative printer configurations (default, each indent, each option alone incl. Minify alone and SingleLine alone, combinations)", len(c03Configs(false))), fmt.Sprintf("%d printer configurations (all option subsets x indents 0/2/4/8 that Print accepts) for the corpus and default-layout programs, %d representative ones (always Minify alone and SingleLine alone) for layout deviations", len(c03Configs(true)), len(c03Configs(false)))) +
		"; outputs are deduplicated by bytes; per distinct printed text: interp(stdout,status) = interp of the original and bash(stdout,status) = bash of the original (interp is never compared with bash); distinct = distinct (program, printed text) pairs"
	c.Assumptions = []string{
		"bash 5.2.15 run as `bash file` with stdin empty, PATH restricted (no external commands for generated programs; cat sed grep tr sort wc head tail seq mkdir touch ls for the interpreter's test programs), HOME=/nonexistent, LC_ALL=C.utf8, cwd a fresh empty directory",
		"a program whose original form does not parse, times out, or gives different results in repeated bash runs is skipped (counted); when the interpreter cannot run the original (fatal error) only the bash clause is judged",
		"results of generated programs are cached per text (they cannot observe the scratch path); a failing case is always re-executed without the cache",
	}
	skipN := 0 // development aid: skip the first N cases of the enumeration
	fmt.Sscan(os.Getenv("VERIF_C03_SKIP_CASES"), &skipN)
	dry := os.Getenv("VERIF_C03_DRY") != "" // development aid: enumerate and print only
	complete := vc.RunBatch(c, 8, func(emit func(c03Case)) {
		n := 0
		c03Gen(c, func(t c03Case) {
			if n++; n > skipN {
				emit(t)
			}
		})
	}, func(batch []c03Case) []*vc.Fail {
		slot := slots.get()
		defer slots.put(slot)
		out := make([]*vc.Fail, len(batch))
		if dry {
			return out
		}
		st := &c03OrigCache{}
		for i, t := range batch {
			out[i] = c03One(c, t, slot, st, len(batch) > 1)
		}
		return out
	})
	slots.cleanup()
	c.Finish(complete)
}

// c03Orig is the behaviour of an original program.
type c03Orig struct {
	bash, interp c03Res
	skip         string // non-empty: program not judged at all
	interpSkip   bool
}

type c03OrigCache struct {
	src  string
	orig *c03Orig
}

var c03BashSyntaxError = regexp.MustCompile(`syntax error near unexpected token|syntax error: unexpected end of file|unexpected EOF while looking for matching`)

// global caches for generated programs, keyed by text
var (
	c03BashCache   sync.Map // text -> c03Res
	c03InterpCache sync.Map
)

func c03Bash(text, slot string, tools, cache bool) c03Res {
	if tools {
		return c03RunBash(text, slot, true)
	}
	if cache {
		if v, ok := c03BashCache.Load(text); ok {
			return v.(c03Res)
		}
	}
	r := c03RunBash(text, slot, false)
	if r.Flag == "" {
		c03BashCache.Store(text, r)
	}
	return r
}

func c03Interp(text, slot string, tools, cache bool) c03Res {
	if tools {
		return c03RunInterp(text, slot, true)
	}
	if cache {
		if v, ok := c03InterpCache.Load(text); ok {
			return v.(c03Res)
		}
	}
	r := c03RunInterp(text, slot, false)
	c03InterpCache.Store(text, r)
	return r
}

func c03Original(c *vc.Ctx, t c03Case, slot string, cache bool) *c03Orig {
	tools := t.Origin == "corpus"
	o := &c03Orig{}
	o.bash = c03Bash(t.Src, slot, tools, cache)
	c.Count("bash_runs", 1)
	if o.bash.Flag != "" {
		o.skip = "skipped_original_bash_" + strings.SplitN(o.bash.Flag, ":", 2)[0]
		return o
	}
	if c03BashSyntaxError.MatchString(o.bash.errOut) {
		// bash itself cannot parse the original (e.g. a here-document inside
		// `$( ( … ); …)`, which bash 5.2 rejects): not a runnable program
		o.skip = "skipped_original_is_a_bash_syntax_error"
		return o
	}
	if tools {
		// the corpus is not deterministic by construction: run again (twice
		// more when there are background jobs)
		n := 1
		if strings.Contains(t.Src, "&") {
			n = 2
		}
		for i := 0; i < n; i++ {
			again := c03RunBash(t.Src, slot, true)
			c.Count("bash_runs", 1)
			if !again.same(o.bash) {
				o.skip = "skipped_original_nondeterministic_in_bash"
				return o
			}
		}
	}
	o.interp = c03Interp(t.Src, slot, tools, cache)
	if o.interp.Flag != "" {
		o.interpSkip = true
	} else if tools {
		again := c03RunInterp(t.Src, slot, true)
		if !again.same(o.interp) {
			o.interpSkip = true
		}
	}
	return o
}

func c03One(c *vc.Ctx, t c03Case, slot string, st *c03OrigCache, cache bool) *vc.Fail {
	tools := t.Origin == "corpus"
	ws := synt.GetWorkspace()
	defer synt.PutWorkspace(ws)
	f, err := ws.Parse(t.Src, syntax.LangBash)
	if err != nil {
		c.Count("skipped_original_does_not_parse", 1)
		return nil
	}
	var text string
	var perr error
	if fl := guard(fmt.Sprintf("%q cfg=%s", t.Src, t.Cfg), func() { text, perr = ws.Print(t.Cfg, f) }); fl != nil {
		ws.Drop()
		return fl
	}
	key := fmt.Sprintf("%q cfg=%s", t.Src, t.Cfg)
	if perr != nil {
		return vc.Failf(key+" print-error", "Print(%s) of %s fails: %v", t.Cfg, shortSrc(t.Src), perr)
	}
	if st.src != t.Src || st.orig == nil {
		st.src, st.orig = t.Src, c03Original(c, t, slot, cache)
		if st.orig.skip != "" {
			c.Count(st.orig.skip+"_programs", 1)
		} else if st.orig.interpSkip {
			c.Count("programs_interp_clause_not_judged", 1)
		}
	}
	o := st.orig
	if o.skip != "" {
		c.Count(o.skip, 1)
		return nil
	}
	c.Distinct(t.Src + "\x00" + text)
	var diffs []string
	detail := map[string]any{"printed": text, "configs_with_this_text": t.NCfg, "options_in_all_of_them": t.Only}
	var gotB, gotI c03Res
	gotB = c03Bash(text, slot, tools, cache)
	c.Count("bash_runs", 1)
	if !gotB.same(o.bash) {
		diffs = append(diffs, "bash")
		detail["bash_original"] = o.bash.String()
		detail["bash_printed"] = gotB.String()
		detail["bash_printed_stderr"] = gotB.errOut
	}
	if !o.interpSkip {
		gotI = c03Interp(text, slot, tools, cache)
		c.Count("interp_runs", 1)
		if !gotI.same(o.interp) {
			diffs = append(diffs, "interp")
			detail["interp_original"] = o.interp.String()
			detail["interp_printed"] = gotI.String()
			detail["interp_printed_stderr"] = gotI.errOut
		}
	} else {
		c.Count("texts_interp_clause_not_judged", 1)
	}
	if len(diffs) == 0 {
		if t.Origin != "corpus" {
			c.Sample(map[string]any{"src": t.Src, "cfg": t.Cfg.String(), "printed": text})
		}
		return nil
	}
	which := strings.Join(diffs, "+")
	fail := &vc.Fail{Key: key + " differs-in-" + which, Detail: detail}
	var sb strings.Builder
	fmt.Fprintf(&sb, "%s printed with %s gives %s which behaves differently", shortSrc(c03Display(t.Src)), t.Cfg, shortSrc(c03Display(text)))
	for _, d := range diffs {
		if d == "bash" {
			fmt.Fprintf(&sb, "; bash: %s -> %s", o.bash, gotB)
		} else {
			fmt.Fprintf(&sb, "; interp: %s -> %s", o.interp, gotI)
		}
	}
	fail.Msg = sb.String()
	fail.Class = c03Classify(t, f, text, diffs, o, gotB, gotI)
	return fail
}

// c03Display drops the fixed prelude of a generated program (and its printed
// form) for messages.
func c03Display(s string) string {
	const mark = "done; }'"
	if i := strings.Index(s, mark); i >= 0 && strings.HasPrefix(s, "x=1 y=ab z='c d'") {
		s = s[i+len(mark):]
		s = strings.TrimPrefix(s, ";")
		s = strings.TrimLeft(s, " \n")
	}
	return s
}
