package checks

import (
	"crypto/sha256"
	"encoding/hex"
	"fmt"
	"reflect"
	"sort"
	"strings"

	"mvdan.cc/sh/v3/expand"
	"mvdan.cc/sh/v3/interp"
	"mvdan.cc/sh/v3/syntax"
)

// c30Dumper writes a canonical, address-free text of a Go value reached by
// reflection, including unexported fields (which reflection may read but not
// hand out). It is used for the canonical state key of a Runner and for the
// dump of Runner.Vars. Pointers are followed once (cycles print "<seen>").
type c30Dumper struct {
	sb   strings.Builder
	seen map[uintptr]bool
}

// Fields of interp.Runner that are not shell state: the expansion config is
// rebuilt by every Run, handlers/Env/tempDir are constructor inputs that no
// program can change, bgProcs' contents are written by other goroutines (only
// its length is state a program can observe, through $! and wait).
var c30SkipRunnerFields = map[string]bool{
	"ecfg": true, "ectx": true, "Env": true, "tempDir": true,
	"callHandler": true, "execHandler": true, "execMiddlewares": true,
	"openHandler": true, "readDirHandler": true, "statHandler": true, "accessHandler": true,
}

func c30DumpRunner(r *interp.Runner) string {
	d := &c30Dumper{seen: map[uintptr]bool{}}
	v := reflect.ValueOf(r).Elem()
	t := v.Type()
	// ident gives the dynamic type and address of a stream field (an
	// interface, or a plain *os.File for stdin).
	ident := func(name string) (string, uintptr) {
		f := v.FieldByName(name)
		if !f.IsValid() {
			return "missing", 0
		}
		if f.Kind() == reflect.Interface {
			if f.IsNil() {
				return "nil", 0
			}
			f = f.Elem()
		}
		if f.Kind() == reflect.Pointer {
			if f.IsNil() {
				return "nil", 0
			}
			return f.Type().String(), f.Pointer()
		}
		return f.Type().String(), 0
	}
	for i := 0; i < t.NumField(); i++ {
		name := t.Field(i).Name
		if c30SkipRunnerFields[name] {
			continue
		}
		f := v.Field(i)
		d.sb.WriteString(name)
		d.sb.WriteString("=")
		switch name {
		case "stdin", "stdout", "stderr":
			// stream identity relative to the constructor's stream
			orig := "orig" + strings.ToUpper(name[:1]) + name[1:]
			ty, p := ident(name)
			oty, op := ident(orig)
			fmt.Fprintf(&d.sb, "%s same-as-%s=%v", ty, orig, ty == oty && p == op)
		case "origStdin", "origStdout", "origStderr":
			ty, _ := ident(name)
			d.sb.WriteString(ty)
		case "bgProcs":
			fmt.Fprintf(&d.sb, "len %d", f.Len())
		case "Funcs":
			names := make([]string, 0, len(r.Funcs))
			for k := range r.Funcs {
				names = append(names, k)
			}
			sort.Strings(names)
			pr := syntax.NewPrinter()
			for _, k := range names {
				var b strings.Builder
				pr.Print(&b, r.Funcs[k])
				fmt.Fprintf(&d.sb, "{%s: %q}", k, b.String())
			}
		default:
			d.val(f, 0)
		}
		d.sb.WriteString("\n")
	}
	return d.sb.String()
}

func (d *c30Dumper) val(v reflect.Value, depth int) {
	if depth > 40 {
		d.sb.WriteString("<deep>")
		return
	}
	switch v.Kind() {
	case reflect.Invalid:
		d.sb.WriteString("<invalid>")
	case reflect.Bool:
		fmt.Fprintf(&d.sb, "%v", v.Bool())
	case reflect.Int, reflect.Int8, reflect.Int16, reflect.Int32, reflect.Int64:
		fmt.Fprintf(&d.sb, "%d", v.Int())
	case reflect.Uint, reflect.Uint8, reflect.Uint16, reflect.Uint32, reflect.Uint64, reflect.Uintptr:
		fmt.Fprintf(&d.sb, "%d", v.Uint())
	case reflect.Float32, reflect.Float64:
		fmt.Fprintf(&d.sb, "%v", v.Float())
	case reflect.String:
		fmt.Fprintf(&d.sb, "%q", v.String())
	case reflect.Slice:
		if v.IsNil() {
			d.sb.WriteString("nil[]")
			return
		}
		fallthrough
	case reflect.Array:
		d.sb.WriteString("[")
		for i := 0; i < v.Len(); i++ {
			if i > 0 {
				d.sb.WriteString(" ")
			}
			d.val(v.Index(i), depth+1)
		}
		d.sb.WriteString("]")
	case reflect.Map:
		if v.IsNil() {
			d.sb.WriteString("nil-map")
			return
		}
		type kv struct {
			k string
			v reflect.Value
		}
		var kvs []kv
		it := v.MapRange()
		for it.Next() {
			var kd c30Dumper
			kd.seen = d.seen
			kd.val(it.Key(), depth+1)
			kvs = append(kvs, kv{kd.sb.String(), it.Value()})
		}
		sort.Slice(kvs, func(i, j int) bool { return kvs[i].k < kvs[j].k })
		d.sb.WriteString("map{")
		for i, e := range kvs {
			if i > 0 {
				d.sb.WriteString(", ")
			}
			d.sb.WriteString(e.k)
			d.sb.WriteString(": ")
			d.val(e.v, depth+1)
		}
		d.sb.WriteString("}")
	case reflect.Struct:
		t := v.Type()
		d.sb.WriteString("{")
		for i := 0; i < t.NumField(); i++ {
			if i > 0 {
				d.sb.WriteString(" ")
			}
			d.sb.WriteString(t.Field(i).Name)
			d.sb.WriteString(":")
			d.val(v.Field(i), depth+1)
		}
		d.sb.WriteString("}")
	case reflect.Pointer:
		if v.IsNil() {
			d.sb.WriteString("nil")
			return
		}
		if d.seen[v.Pointer()] {
			d.sb.WriteString("<seen>")
			return
		}
		d.seen[v.Pointer()] = true
		d.sb.WriteString("&")
		d.val(v.Elem(), depth+1)
	case reflect.Interface:
		if v.IsNil() {
			d.sb.WriteString("nil")
			return
		}
		d.sb.WriteString("(" + v.Elem().Type().String() + ")")
		d.val(v.Elem(), depth+1)
	case reflect.Func, reflect.Chan, reflect.UnsafePointer:
		if v.IsNil() {
			d.sb.WriteString("nil-" + v.Kind().String())
		} else {
			d.sb.WriteString("non-nil-" + v.Kind().String())
		}
	default:
		d.sb.WriteString("<" + v.Kind().String() + ">")
	}
}

// c30DumpVars is the sorted text of a Runner.Vars map.
func c30DumpVars(vars map[string]expand.Variable) string {
	names := make([]string, 0, len(vars))
	for k := range vars {
		names = append(names, k)
	}
	sort.Strings(names)
	d := &c30Dumper{seen: map[uintptr]bool{}}
	for _, k := range names {
		d.sb.WriteString(k)
		d.sb.WriteString("=")
		d.val(reflect.ValueOf(vars[k]), 0)
		d.sb.WriteString("\n")
	}
	return d.sb.String()
}

func c30Hash(s string) string {
	sum := sha256.Sum256([]byte(s))
	return hex.EncodeToString(sum[:10])
}
