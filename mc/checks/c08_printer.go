package checks

import (
	"bytes"
	"errors"
	"fmt"
	"strings"
	"sync"
	"sync/atomic"

	"mvdan.cc/sh/v3/syntax"

	"verif/mc/synt"
	"verif/mc/vc"
)

// c08FailWriter accepts n bytes and then fails every Write.
type c08FailWriter struct {
	n   int
	buf bytes.Buffer
}

var errC08Write = errors.New("c08 write failure")

func (w *c08FailWriter) Write(p []byte) (int, error) {
	if w.buf.Len()+len(p) > w.n {
		k := w.n - w.buf.Len()
		if k < 0 {
			k = 0
		}
		w.buf.Write(p[:k])
		return k, errC08Write
	}
	return w.buf.Write(p)
}

// c08NodeSources are parsed (bash, comments kept) into the nodes the Printer
// histories print; from each file also its first statement, that statement's
// command, and the first word, word part and assignment found.
var c08NodeSources = []string{
	"a b c\n",
	"# c1\na # c2\n\n\nb\n# c3\n",
	"if a; then\n\tb\nelse\n\tc\nfi\n",
	"a <<E\nbody $x\nE\nb\n",
	"{\n\ta <<-E\n\t\tbody\n\tE\n}\n",
	"a &\nb; c\n",
	"a && b || c | d\n",
	"a &&\n\tb |\n\tc\n",
	"case x in\na) b ;;\nc | d) ;;\nesac\n",
	"f() { a; }\nfunction g { b; }\n",
	"for i in 1 2; do a; done; while b; do c; done\n",
	"x=1 z+=d cmd >f 2>&1\ny=(a b [2]=c)\n",
	"echo \"a $b `c` $(d; e) ${f:-g} $((1 + 2))\" 'h' $'i'\n",
	"[[ a == b && -n c ]]\n((x + 1))\nlet x=1\n",
	"declare -a a=(1 2)\nexport b\n",
	"time a\ncoproc b\n! c\n",
	"(a; b) | { c; }\n",
	"a \\\n\tb \\\n\tc\n",
	"foo   bar  # pad\nbazzz x  # pad2\n",
	"a <<E; b\nx\nE\n",
	"$(a <<E\nx\nE\n)\n",
	"a=$(b\n\tc) d\n",
	"if a; then b; fi # c\n\n# d\nfoo() {\n\t# e\n\tbar\n}\n",
	"a | b &\n",
	"`a # c\n`\n",
}

type c08Node struct {
	Name string
	Node syntax.Node
}

func c08BuildNodes() []c08Node {
	var out []c08Node
	for i, src := range c08NodeSources {
		f, err := syntax.NewParser(syntax.KeepComments(true)).Parse(strings.NewReader(src), "")
		if err != nil {
			panic(fmt.Sprintf("c08 node source %q: %v", src, err))
		}
		name := fmt.Sprintf("src%d", i)
		out = append(out, c08Node{name + " File", f})
		if len(f.Stmts) == 0 {
			continue
		}
		out = append(out, c08Node{name + " Stmt", f.Stmts[0]})
		if f.Stmts[0].Cmd != nil && i%3 == 2 {
			out = append(out, c08Node{name + " Command", f.Stmts[0].Cmd})
		}
		var word *syntax.Word
		var assign *syntax.Assign
		var part syntax.WordPart
		syntax.Walk(f, func(n syntax.Node) bool {
			switch n := n.(type) {
			case *syntax.Word:
				if word == nil {
					word = n
				}
				for _, p := range n.Parts {
					if _, lit := p.(*syntax.Lit); !lit && part == nil {
						part = p
					}
				}
			case *syntax.Assign:
				if assign == nil {
					assign = n
				}
			}
			return true
		})
		if word != nil && i%2 == 0 {
			out = append(out, c08Node{name + " Word", word})
		}
		if part != nil && i%4 == 0 {
			out = append(out, c08Node{name + " WordPart", part})
		}
		if assign != nil {
			out = append(out, c08Node{name + " Assign", assign})
		}
	}
	return out
}

type c08TOp struct {
	Name string
	Run  func(p *syntax.Printer, base synt.Config, nodes []c08Node) string
}

type c08PrinterReuse struct {
	cfgs   []synt.Config
	ops    []c08TOp // history operations first, then the probes
	hist   []int
	probes []int
	fresh  [][]string
	pool   sync.Pool
}

func c08Print(p *syntax.Printer, n syntax.Node) string {
	var buf bytes.Buffer
	err := p.Print(&buf, n)
	return fmt.Sprintf("%q err=%v", buf.String(), err)
}

func c08NewPrinterReuse() *c08PrinterReuse {
	r := &c08PrinterReuse{}
	r.pool.New = func() any { return c08BuildNodes() }
	r.cfgs = []synt.Config{
		{}, {Minify: true}, {Single: true}, {KeepPad: true},
		{Indent: 2, BinNext: true, CaseInd: true, SpaceRed: true, FuncNext: true},
		{Minify: true, Single: true},
	}
	nodes := c08BuildNodes()
	idx := func(name string) int {
		for i, n := range nodes {
			if n.Name == name {
				return i
			}
		}
		panic("c08: no node " + name)
	}
	printNode := func(i int) c08TOp {
		return c08TOp{"Print(" + nodes[i].Name + ")", func(p *syntax.Printer, _ synt.Config, ns []c08Node) string {
			return c08Print(p, ns[i].Node)
		}}
	}
	failing := func(i, n int) c08TOp {
		return c08TOp{fmt.Sprintf("Print(%s) to a writer failing after %d bytes", nodes[i].Name, n), func(p *syntax.Printer, _ synt.Config, ns []c08Node) string {
			w := &c08FailWriter{n: n}
			err := p.Print(w, ns[i].Node)
			return fmt.Sprintf("%q err=%v", w.buf.String(), err)
		}}
	}
	toggle := func(name string, opt func(on bool) syntax.PrinterOption, get func(synt.Config) bool, i int) c08TOp {
		return c08TOp{fmt.Sprintf("toggle %s, Print(%s), toggle back", name, nodes[i].Name), func(p *syntax.Printer, base synt.Config, ns []c08Node) string {
			opt(!get(base))(p)
			res := c08Print(p, ns[i].Node)
			opt(get(base))(p)
			return res
		}}
	}
	hist := []c08TOp{
		printNode(idx("src1 File")),  // comments, blank lines
		printNode(idx("src3 File")),  // here-document
		printNode(idx("src4 File")),  // <<- inside a block: nested tabs printer
		printNode(idx("src7 File")),  // multi-line binary commands
		printNode(idx("src18 File")), // padding
		printNode(idx("src19 File")), // here-document followed by ;
		printNode(idx("src5 Stmt")),  // a &
		printNode(idx("src2 Command")),
		printNode(idx("src12 Word")),
		printNode(idx("src11 Assign")),
		{"Print(*Comment: unsupported node)", func(p *syntax.Printer, _ synt.Config, _ []c08Node) string {
			return c08Print(p, &syntax.Comment{Text: " x"})
		}},
		{"Print(*BinaryArithm: unsupported node)", func(p *syntax.Printer, _ synt.Config, _ []c08Node) string {
			return c08Print(p, &syntax.BinaryArithm{Op: syntax.Add, X: &syntax.Word{Parts: []syntax.WordPart{&syntax.Lit{Value: "1"}}}, Y: &syntax.Word{Parts: []syntax.WordPart{&syntax.Lit{Value: "2"}}}})
		}},
		failing(idx("src3 File"), 0),
		failing(idx("src22 File"), 7),
		toggle("Minify", syntax.Minify, func(c synt.Config) bool { return c.Minify }, idx("src22 File")),
		toggle("SingleLine", syntax.SingleLine, func(c synt.Config) bool { return c.Single }, idx("src2 File")),
		toggle("KeepPadding", syntax.KeepPadding, func(c synt.Config) bool { return c.KeepPad }, idx("src18 File")),
	}
	r.ops = append(r.ops, hist...)
	for i := range hist {
		r.hist = append(r.hist, i)
	}
	for i := range nodes {
		r.probes = append(r.probes, len(r.ops))
		r.ops = append(r.ops, printNode(i))
	}
	r.ops = append(r.ops, failing(idx("src1 File"), 3))
	r.fresh = make([][]string, len(r.cfgs))
	for ci, cfg := range r.cfgs {
		r.fresh[ci] = make([]string, len(r.ops))
		for i, op := range r.ops {
			r.fresh[ci][i] = op.Run(cfg.Printer(), cfg, nodes)
		}
	}
	return r
}

func (r *c08PrinterReuse) gen(depth int, emit func(c08Case)) {
	for ci := range r.cfgs {
		d := depth - 1
		if ci == 0 || (depth <= 3 && r.cfgs[ci].KeepPad) {
			d = depth // deepest bound for the default configuration (quick: also KeepPadding)
		}
		c08Seqs(len(r.hist), d, func(h []int) { emit(c08Case{Part: "printer", Opt: ci, Hist: h}) })
	}
}

func (r *c08PrinterReuse) bounds(depth int) string {
	if depth <= 3 {
		return fmt.Sprintf("all sequences over %d operations of length <=3 for the default and KeepPadding configurations, <=2 for the other %d", len(r.hist), len(r.cfgs)-2)
	}
	return fmt.Sprintf("all sequences over %d operations of length <=4 for the default configuration, <=3 for the other %d", len(r.hist), len(r.cfgs)-1)
}

func (r *c08PrinterReuse) run(c *vc.Ctx, st *c08States, t c08Case) *vc.Fail {
	cfg := r.cfgs[t.Opt]
	nodes := r.pool.Get().([]c08Node)
	defer r.pool.Put(nodes)
	var names []string
	for _, h := range t.Hist {
		names = append(names, r.ops[r.hist[h]].Name)
	}
	replay := func() *syntax.Printer {
		p := cfg.Printer()
		for _, h := range t.Hist {
			r.ops[r.hist[h]].Run(p, cfg, nodes)
		}
		return p
	}
	var p *syntax.Printer
	if fl := guard(fmt.Sprintf("printer[%s] %v", cfg, names), func() { p = replay() }); fl != nil {
		return fl
	}
	state := "Printer[" + cfg.String() + "] " + c08StateKey(p)
	c.Distinct(state)
	opNames := make([]string, len(r.ops))
	var fail *vc.Fail
	for i, op := range r.ops {
		opNames[i] = op.Name
		if i > 0 {
			p = replay()
		}
		var got string
		if fl := guard(fmt.Sprintf("printer[%s] %v then %s", cfg, names, op.Name), func() { got = op.Run(p, cfg, nodes) }); fl != nil {
			return fl
		}
		if got != r.fresh[t.Opt][i] && fail == nil {
			fail = &vc.Fail{Key: fmt.Sprintf("printer[%s] after %q: %s", cfg, names, op.Name),
				Msg:    fmt.Sprintf("Printer(%s) used for %q then %s gives a result different from a fresh Printer", cfg, names, op.Name),
				Detail: map[string]string{"reused": got, "fresh": r.fresh[t.Opt][i], "state_after_history": state}}
		}
	}
	st.add(state, opNames)
	atomic.AddInt64(&st.execs, int64(len(r.ops)*(len(t.Hist)+1)))
	if len(t.Hist) == 2 {
		c.Sample(map[string]any{"part": "printer", "config": cfg.String(), "history": names})
	}
	return fail
}
