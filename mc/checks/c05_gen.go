package checks

import (
	"fmt"
	"strings"

	"verif/mc/vc"
)

// Second generator of C05 ("w" cases, synCase.Kind 5): SETS of comment
// insertions in composed programs.
//
// The first generator (genSyn + the pair loop in c05.go) treats a comment as
// a property of ONE gap of ONE template, never looks inside a here-document
// body and enumerates pairs only for templates without holes. The printer,
// however, keeps comments in a queue (pendingComments) that is saved and
// restored around other queues (pending here-documents) and around nested
// printing (command substitutions inside here-document bodies, case items,
// binary commands); defects in that bookkeeping need comments on both sides
// of such a boundary at once. This generator therefore enumerates
//
//	outer template O (a compound command / list / substitution context with
//	{S} holes)  x  one hole of O explored with every inner template I (the
//	other holes hold the atom "a"; the holes of I hold "b")
//	x every subset of <= K comment-capable gaps of the composed template
//	(gaps of O and of I alike, INCLUDING gaps inside a command substitution
//	or backquotes in an unquoted here-document body)
//	x every comment alternative at each chosen gap
//	x 2 layout styles for the gaps not chosen (";"/space, newline)
//
// Comment texts are unique per gap ("k<gap>", "j<gap>"), so a reordering or a
// duplication of two comments of the same shape is visible to the oracle.
//
// Template notation as in mc/synt/gram.go: · token gap (always one space
// here), ¶ statement terminator, ¤ gap after an opening token, ⟦…⟧ pending
// here-document body (emitted after the next newline of the enclosing text),
// ↵ flush point. Unlike synt.Render, ¶ and ¤ markers inside a body are gaps
// too: the templates only put them inside $( ) or backquotes there.

// c05Tmpl is one template of the second generator.
type c05Tmpl struct {
	T string
	// Core templates form the quick tier's subset, both as outer context
	// and as inner fill.
	Core bool
}

// c05Outer are the contexts: everything that has a statement list, a
// condition, a branch or a body, plus the word-level constructs that hold
// statements or comments of their own (substitutions, array literals) and
// here-documents whose unquoted body holds a substitution.
var c05Outer = []c05Tmpl{
	// statement lists
	{"¤{S}¶{S}¶", true},
	{"{S}¶{S}¶{S}", false},
	{"{¤{S}¶}", true},
	{"{¤{S}¶{S}¶}", true},
	{"(¤{S}¶↵)", true},
	{"(¤{S}¶{S}¶↵)", false},
	// conditionals
	{"if¤{S}¶then¤{S}¶fi", false},
	{"if¤{S}¶then¤{S}¶else¤{S}¶fi", true},
	{"if¤{S}¶then¤{S}¶elif¤{S}¶then¤{S}¶fi", false},
	{"if¤{S}¶then¤{S}¶elif¤{S}¶then¤{S}¶else¤{S}¶fi", false},
	// loops
	{"while¤{S}¶do¤{S}¶done", true},
	{"until¤{S}¶do¤{S}¶done", false},
	{"for·i·in·a·b¶do¤{S}¶done", true},
	{"for·i¶do¤{S}¶done", false},
	{"for·((i=0;·i<3;·i++))¶do¤{S}¶done", false},
	{"select·i·in·w¶do¤{S}¶done", false},
	// case clauses: items with and without terminator, a last item without
	// one (with a statement, with two, empty), several patterns
	{"case·x·in¤a)¤{S}·;;¤esac", true},
	{"case·x·in¤a)¤{S}¶esac", true},
	{"case·x·in¤a)¤{S}¶{S}¶esac", false},
	{"case·x·in¤a)¤{S}·;;¤b)¤{S}¶esac", true},
	{"case·x·in¤a)¤{S}¶{S}·;;¤b)¤esac", false},
	{"case·x·in¤a)¤;;¤b)¤{S}·;;¤esac", false},
	{"case·x·in¤a|b)¤{S}·;&¤c)¤{S}·;;&¤*)¤{S}¤esac", false},
	{"case·x·in¤(a)¤{S}·;;¤(b)¤{S}¶esac", false},
	// functions
	{"f()·{¤{S}¶}", true},
	{"f()¤{¤{S}¶}", false},
	{"function·f·{¤{S}¶}", false},
	{"f()·(¤{S}¶↵)", false},
	{"f()·if¤{S}¶then¤{S}¶fi", false},
	// binary commands, negation, background, time, coproc
	{"{S}·&&¤{S}", true},
	{"{S}·||¤{S}", false},
	{"{S}·|¤{S}", true},
	{"{S}·|&¤{S}", false},
	{"{S}·&&¤{S}·||¤{S}", false},
	{"{S}·|¤{S}·|¤{S}", false},
	{"{S}·&&¤{S}¶{S}", false},
	{"!·{S}¶{S}", false},
	{"{S}·&¶{S}", false},
	{"time·{S}¶{S}", false},
	{"coproc·{¤{S}¶}", false},
	{"coproc·{S}¶{S}", false},
	// compound commands with redirections / in pipelines / in background
	{"{¤{S}¶}·>f¶{S}", false},
	{"if¤{S}¶then¤{S}¶fi·>f¶{S}", false},
	{"while¤{S}¶do¤{S}¶done·<f¶{S}", false},
	{"(¤{S}¶↵)·|¤{S}", false},
	{"{¤{S}¶}·&¶{S}", false},
	// command and process substitutions, backquotes
	{"echo·$(¤{S}¶↵)¶{S}", true},
	{"echo·$(¤{S}¶{S}¶↵)", false},
	{"echo·`{S}¶`¶{S}", true},
	{"echo·`¤{S}¶{S}¶`", false},
	{"echo·\"$(¤{S}¶↵)\"¶{S}", false},
	{"echo·\"`{S}¶`\"¶{S}", false},
	{"a=$(¤{S}¶↵)¶{S}", false},
	{"echo·<(¤{S}¶↵)¶{S}", false},
	{"echo·${x:-$(¤{S}¶↵)}¶{S}", false},
	{"echo·$((·$(¤{S}¶↵)·))¶{S}", false},
	// array literals
	{"a=(¤w¤x¤)¶{S}", true},
	{"a=(¤[k]=v¤[j]=w¤)¶{S}", false},
	{"declare·-a·a=(¤w¤$(¤{S}¶↵)¤)", false},
	// here-documents whose body holds a substitution, in all operator /
	// indentation forms; the gap after the statement takes the comment
	// after the operator (trailing alternative) or after the here-document
	// (comment line alternative)
	{"a·<<E⟦x·$(¤{S}¶↵)·y\nE\n⟧¶{S}", true},
	{"a·<<E⟦`{S}¶`\nE\n⟧¶{S}", true},
	{"a·<<-E⟦\tx·$(¤{S}¶↵)\n\tE\n⟧¶{S}", false},
	{"a·<<-E⟦··x·$(¤{S}¶↵)\nE\n⟧¶{S}", false},
	{"a·<<-E⟦\t`{S}¶`\n\tE\n⟧¶{S}", false},
	{"a·<<E⟦$(¤{S}¶{S}¶↵)\nE\n⟧¶{S}", false},
	{"a·<<E⟦\"$(¤{S}¶↵)\"·${x:-$(¤{S}¶↵)}\nE\n⟧¶{S}", false},
	{"a·<<E·b·<<F⟦$(¤{S}¶↵)\nE\n⟧⟦`{S}¶`\nF\n⟧¶{S}", false},
	{"a·<<E⟦x·$(¤{S}¶↵)\nE\n⟧·|¤{S}¶{S}", false},
	{"a·<<E⟦x·$(¤{S}¶↵)\nE\n⟧·&&¤{S}¶{S}", false},
	{"{¤{S}¶}·<<E⟦$(¤{S}¶↵)\nE\n⟧¶{S}", false},
	{"a·<<'E'⟦$(·b·#·no\n)\nE\n⟧¶{S}", false},
	// comment-only bodies (an empty list is valid in $( ), backquotes and,
	// for mksh and zsh, everywhere) and the "`# text`" idiom
	{"echo·$(¤)¶{S}", false},
	{"echo·`¤`¶{S}", false},
	{"{¤}¶{S}", false},
	{"(¤)¶{S}", false},
	{"f()·{¤}¶{S}", false},
	{"a·<<E⟦$(¤)·`¤`\nE\n⟧¶{S}", false},
	{"echo·`#·q`·x¶{S}", false},
	{"a·<<E⟦`#·q`\nE\n⟧¶{S}", false},
	// mksh / zsh / bats forms
	{"for·i·(a·b)·{¤{S}¶}", false},
	{"repeat·3·{¤{S}¶}", false},
	{"if·[[·a·]]·{¤{S}¶}", false},
	{"@test·\"d\"·{¤{S}¶}", false},
	// test clauses
	{"[[·a·&&¤b·]]¶{S}", false},
}

// c05Inner are the fills of the explored hole: leaf statements (plain,
// redirected, assignment, background, with here-documents) and every outer
// template that has a hole (its own holes then hold "b").
var c05Leaves = []c05Tmpl{
	{"a", true},
	{"a·b·>f", false},
	{"a=1", false},
	{"a·&", false},
	{"time", false},
	{"a·<<E⟦body\nE\n⟧", true},
	{"a·<<-E⟦\tbody\n\tE\n⟧", false},
	{"a·<<E·b·<<F⟦one\nE\n⟧⟦two\nF\n⟧", false},
	{"echo·$(b)·`c`", false},
}

// c05Fill replaces hole number hi (0-based, -1: none) of t by inner and every
// other {S} hole by def.
func c05Fill(t string, hi int, inner, def string) string {
	var sb strings.Builder
	n := 0
	for {
		i := strings.Index(t, "{S}")
		if i < 0 {
			break
		}
		sb.WriteString(t[:i])
		if n == hi {
			sb.WriteString(inner)
		} else {
			sb.WriteString(def)
		}
		n++
		t = t[i+3:]
	}
	sb.WriteString(t)
	return sb.String()
}

// c05GapKinds returns the marker of every comment-capable gap of t in
// template order (¶ and ¤ markers, also those inside here-document bodies).
func c05GapKinds(t string) []rune {
	var out []rune
	for _, r := range t {
		if r == '¶' || r == '¤' {
			out = append(out, r)
		}
	}
	return out
}

// c05Alts are the comment alternatives of gap g: trailing comment, comment
// line; with wide also two comment lines and a trailing comment followed by
// a comment line.
func c05Alts(g int, wide bool) []string {
	out := []string{
		fmt.Sprintf(" # k%d\n", g),
		fmt.Sprintf("\n# k%d\n", g),
	}
	if wide {
		out = append(out,
			fmt.Sprintf("\n# k%d\n# j%d\n", g, g),
			fmt.Sprintf(" # k%d\n# j%d\n", g, g))
	}
	return out
}

// c05Render renders t. dev maps gap indexes (as counted by c05GapKinds) to
// their text; the other gaps take the default of the style: style 0 is
// "; " / " ", style 1 is a newline.
func c05Render(t string, dev map[int]string, style int) string {
	n := 0
	var render func(rs []rune) string
	render = func(rs []rune) string {
		var sb strings.Builder
		var pending []string
		write := func(s string) {
			for len(s) > 0 {
				i := strings.IndexByte(s, '\n')
				if i < 0 || len(pending) == 0 {
					sb.WriteString(s)
					return
				}
				sb.WriteString(s[:i+1])
				for _, b := range pending {
					sb.WriteString(b)
				}
				pending = nil
				s = s[i+1:]
			}
		}
		for i := 0; i < len(rs); i++ {
			r := rs[i]
			switch r {
			case '·':
				write(" ")
			case '¶', '¤':
				s, ok := dev[n]
				n++
				if !ok {
					switch {
					case style == 1:
						s = "\n"
					case r == '¶':
						s = "; "
					default:
						s = " "
					}
				}
				// "a &; b" is not valid shell: a background statement is its own terminator
				if r == '¶' && strings.HasPrefix(s, ";") {
					cur := strings.TrimRight(sb.String(), " ")
					if strings.HasSuffix(cur, "&") && !strings.HasSuffix(cur, "&&") {
						s = " "
					}
				}
				write(s)
			case '⟦':
				j := i + 1
				for depth := 1; j < len(rs); j++ {
					if rs[j] == '⟦' {
						depth++
					} else if rs[j] == '⟧' {
						depth--
						if depth == 0 {
							break
						}
					}
				}
				pending = append(pending, render(rs[i+1:j]))
				i = j
			case '↵':
				if len(pending) > 0 {
					write("\n")
				}
			default:
				write(string(r))
			}
		}
		if len(pending) > 0 {
			write("\n")
		}
		return sb.String()
	}
	return render([]rune(t))
}

// c05Composites returns the composed templates of the tier: every outer
// template alone (holes = "a") and with each of its holes explored with every
// inner template. coreOnly restricts both sides to the core subset.
func c05Composites(coreOnly bool) []string {
	var inner []string
	for _, l := range c05Leaves {
		if l.Core || !coreOnly {
			inner = append(inner, l.T)
		}
	}
	for _, o := range c05Outer {
		if (o.Core || !coreOnly) && strings.Contains(o.T, "{S}") {
			inner = append(inner, c05Fill(o.T, -1, "", "b"))
		}
	}
	seen := map[string]bool{}
	var out []string
	add := func(s string) {
		if !seen[s] {
			seen[s] = true
			out = append(out, s)
		}
	}
	for _, o := range c05Outer {
		if !o.Core && coreOnly {
			continue
		}
		add(c05Fill(o.T, -1, "", "a"))
		nh := strings.Count(o.T, "{S}")
		for hi := 0; hi < nh; hi++ {
			for _, in := range inner {
				add(c05Fill(o.T, hi, in, "a"))
			}
		}
	}
	return out
}

// c05Sets calls f with every program of composed template t that has between
// 1 and maxK comment insertions.
func c05Sets(t string, maxK int, wide bool, styles int, f func(src string)) {
	kinds := c05GapKinds(t)
	alts := make([][]string, len(kinds))
	for g := range kinds {
		alts[g] = c05Alts(g, wide)
	}
	dev := map[int]string{}
	var rec func(from, left int)
	rec = func(from, left int) {
		if len(dev) > 0 {
			for st := 0; st < styles; st++ {
				f(c05Render(t, dev, st))
			}
		}
		if left == 0 {
			return
		}
		for g := from; g < len(kinds); g++ {
			for _, a := range alts[g] {
				dev[g] = a
				rec(g+1, left-1)
			}
			delete(dev, g)
		}
	}
	rec(0, maxK)
}

// c05Plan is one part of the second generator.
type c05Plan struct {
	CoreOnly bool     // composites of the core subset only
	MaxK     int      // up to this many comment insertions per program
	Wide     bool     // four comment alternatives per gap instead of two
	MaxGaps  int      // skip composed templates with more gaps (0: no limit)
	Variants []string // language variants the programs are taken in
}

func (p c05Plan) String() string {
	set, alts, lim := "all", 2, ""
	if p.CoreOnly {
		set = "core"
	}
	if p.Wide {
		alts = 4
	}
	if p.MaxGaps > 0 {
		lim = fmt.Sprintf(" with <=%d gaps", p.MaxGaps)
	}
	return fmt.Sprintf("%s composites%s: 1..%d insertions, %d alternatives per gap, variants %s", set, lim, p.MaxK, alts, strings.Join(p.Variants, "/"))
}

var c05AllVariants = []string{"bash", "posix", "mksh", "bats", "zsh"}

// c05Plans returns the parts run in a tier.
func c05Plans(quick bool) []c05Plan {
	if quick {
		return []c05Plan{{CoreOnly: true, MaxK: 2, Variants: []string{"bash", "zsh"}}}
	}
	return []c05Plan{
		{CoreOnly: true, MaxK: 2, Variants: c05AllVariants},
		{CoreOnly: true, MaxK: 3, Variants: []string{"bash", "zsh"}},
		{CoreOnly: true, MaxK: 2, Wide: true, Variants: []string{"bash", "zsh"}},
		{CoreOnly: false, MaxK: 2, MaxGaps: 10, Variants: []string{"bash", "zsh"}},
	}
}

// c05DescribeSets is the part of the rule text about the second generator.
func c05DescribeSets(quick bool) string {
	nOuter, nCore := len(c05Outer), 0
	for _, o := range c05Outer {
		if o.Core {
			nCore++
		}
	}
	var parts []string
	for _, p := range c05Plans(quick) {
		parts = append(parts, p.String())
	}
	return fmt.Sprintf("second generator (keys w:...): composed programs = each of %d outer templates (lists, if/else, loops, case items incl. a last item without ;;, functions, binary commands, $( ), backquotes, <( ), array literals, comment-only bodies, unquoted <</<<- here-documents whose body holds $( ) or backquotes; %d of them form the core subset) with one of its statement holes explored with %d leaf statements and every outer template, the other holes holding an atom; every set of comment insertions (trailing comment / comment line [wide: also two comment lines, trailing comment + comment line], texts unique per gap) at the comment-capable gaps of the composed program, INCLUDING gaps inside a substitution in a here-document body, x 2 layouts of the remaining gaps (;/space, newline): %s",
		nOuter, nCore, len(c05Leaves), strings.Join(parts, "; "))
}

// c05GenSets emits the cases of the second generator (Kind 5). Programs the
// first generator already produced (first) are skipped.
func c05GenSets(c *vc.Ctx, first map[string]bool, emit func(synCase)) {
	quick := c.Quick()
	done := map[string]uint8{} // program -> variants emitted
	vbit := map[string]uint8{}
	for i, v := range c05AllVariants {
		vbit[v] = 1 << i
	}
	for _, p := range c05Plans(quick) {
		for _, t := range c05Composites(p.CoreOnly) {
			if p.MaxGaps > 0 && len(c05GapKinds(t)) > p.MaxGaps {
				continue
			}
			c.Count("w_templates", 1)
			if c.Expired() {
				return
			}
			c05Sets(t, p.MaxK, p.Wide, 2, func(src string) {
				if first[src] {
					return
				}
				m := done[src]
				for _, v := range p.Variants {
					if m&vbit[v] == 0 {
						m |= vbit[v]
						emit(synCase{src, v, 5})
					}
				}
				done[src] = m
			})
		}
	}
}
