package checks

import (
	"fmt"
	"os"
	"runtime/debug"
	"strings"
	"sync"

	"mvdan.cc/sh/v3/syntax"

	"verif/mc/oracle"
	"verif/mc/synt"
	"verif/mc/vc"
)

func init() { Registry["C04"] = c04 }

// c04Case is one (program, variant) pair.
type c04Case struct {
	Src     string `json:"src"`
	Variant string `json:"variant"`
	// Kind: 0 = clauses (1)-(2) only; 1 = generated runnable program, all
	// clauses; 2 = program of the interpreter test corpus, clauses (1)-(3)
	// (interpreter with external commands disabled).
	Kind int    `json:"kind"`
	Fam  string `json:"fam"`
}

var (
	c04DirOnce sync.Once
	c04Dir     string
)

func c04WorkDir() string {
	c04DirOnce.Do(func() {
		d, err := os.MkdirTemp("", "c04-")
		if err != nil {
			panic(err)
		}
		c04Dir = d
	})
	return c04Dir
}

var c04Cfgs = []synt.Config{{}, {Minify: true}} // shfmt -s, shfmt -mn

// c04Work is the per-case state between the Go phase and the bash phase.
type c04Work struct {
	t       c04Case
	key     string
	fail    *vc.Fail
	changed bool
	simp    *syntax.File // after one Simplify pass
	orig    *syntax.File
	done0   [2]bool
	clause  string // which clause failed: roundtrip | interp | bash ("" for the others)
	// printed texts per configuration: of the original tree, of the simplified tree
	p0, p1   [2]string
	ok0, ok1 [2]bool
	needBash bool
}

func c04(c *vc.Ctx) {
	thorough := !c.Quick()
	c.Rule = "G_simp: program = fixed prelude (x=3 y=4 n=-2 i=1 j=2 arr=(5 6 7), associative m with integer values, strings s e p w, $1..$3) + ONE snippet + fixed epilogue printing the snippet's status and every variable and returning that status. Bounds are written quick | thorough. Snippets = (a) arithmetic expressions E over atoms {$x ${y} 2 ($x) arr[$i]} | {$x ${y} x 2 $n arr[$i] $((x+1)) ($x) ${arr[$i]} ${m[$i]}}: every atom; 11 unary/paren forms of it (- ! ~ + ++ -- prefix, ++ -- postfix, (a), ((a))); a op b over {+ - * < , =} | {+ - * / % ** < == && || , = += << &}; compact a+b forms and ternaries over 4 | 6 atoms; every two-operator tree in all 4 parenthesisations over 2 atoms x 2 ops | 3 atoms x 4 ops. Every E in $(( E )), (( E )), ${s:E}, ${arr[E]}, arr[E]=9, ${m[E]}; E with at most one binary operator also in ${s:$i:E}, ${s:(E):($j)}, m[E]=9, $(( $(( E )) * $x )), c-style for init and cond (side-effect-free E) | additionally let, arr[E] inside arithmetic, $((E)) compact, $[ E ], ${s:E:$j}, \"${arr[@]:E:2}\", r=$(( (E) )), if (( (E) )), arr+=([E]=8); (b) 57 nested-subshell / command-substitution wrappers (negation, background+wait, redirections, pipeline, comments, here-doc, function body, process substitution) x 2 | 14 bodies; (c) [[ ]]: 5 | 10 operands (quoted/unquoted params, empty, with space, glob chars, array elements, escaped literal) alone, under -n -z -e !, and joined by 6 | 11 binary operators, each in 6 | 11 paren/negation wrappers, plus 2 | 9 shapes of && / || combinations of 16 simple tests; (d) double-quoted literals over the tokens {\\\\ \\$ \\` \\\" ' \\n a n $ space x}: 1 token in 18 word contexts (plain, $\"\", inside a word, twice, after another, assignment, ${u:-..} unquoted / inside double quotes / in a here-document, case, [[ ]], associative key, command substitution, array, $\" inside a quoted ${..}, arithmetic, redirect target, for list), 2 tokens in 10 | 18, 3 tokens in none | the first 9, 4 tokens over {\\\\ \\$ \\\" ' \\n a $} in none | the two plain contexts; (e) ~270 hand-written edge shapes of each rewrite. Each program is taken as bash (all clauses), posix (own prelude; clauses 1-3) and zsh (bare snippet; clauses 1-2; hand-written and subshell ones also mksh and bats); plus every string of the syntax test tables in the variants bash posix zsh | all 5 (clauses 1-2) and of the interpreter test table (bash: clauses 1-3 with external commands disabled; posix: 1-2). Clauses: (1) Simplify's result == (dump with positions changed), for the first pass and each repeated pass until a fixpoint (must exist within 8 passes); (2) printed with the default (shfmt -s) and the Minify (shfmt -mn) printer the simplified tree reparses to itself whenever the unsimplified tree does; (3) interpreter stdout+status of the simplified tree == those of the original tree; (4) bash stdout+status of the printed simplified tree (both printers) == those of the original source, unless printing the UNSIMPLIFIED tree already changes them or bash cannot parse the original. distinct = distinct simplified trees that differ from their original"
	c.Assumptions = []string{
		"bash 5.2.15 is the oracle for clause (4); the texts of a batch are evaluated with eval one after the other in the main shell of one bash process (fork is very expensive on the machine), stderr discarded, stdin empty, with the variables/functions a program can leave behind unset in between; a text that terminates the shell is re-run alone in a subshell",
		"variables referenced in arithmetic hold plain integers (decimal, one negative) by construction of the prelude",
		"a round-trip or behaviour defect already present when printing the UNSIMPLIFIED tree is the printer's (C01/C02), not Simplify's, and is counted as skipped",
	}
	c.Reruns = 1
	debug.SetGCPercent(400) // the cases allocate many short-lived dumps
	size := vc.Pick(c, 100, 250)
	complete := vc.RunBatch(c, size, func(emit func(c04Case)) { c04Gen(thorough, emit) }, func(ts []c04Case) []*vc.Fail {
		return c04RunBatch(c, ts)
	})
	if c04Dir != "" {
		os.RemoveAll(c04Dir)
	}
	c.Finish(complete)
}

func c04Dump(n syntax.Node) string {
	return synt.Dump(n, synt.DumpOpts{Positions: true, Comments: true})
}

func c04RunBatch(c *vc.Ctx, ts []c04Case) []*vc.Fail {
	ws := synt.GetWorkspace()
	defer synt.PutWorkspace(ws)
	works := make([]*c04Work, len(ts))
	var texts []string
	for i, t := range ts {
		w := c04Go(c, ws, t)
		works[i] = w
		if w != nil && w.fail == nil && w.needBash {
			texts = append(texts, t.Src)
			for k := range c04Cfgs {
				if w.ok1[k] {
					texts = append(texts, w.p1[k])
				}
			}
		}
	}
	var bres map[string]c04Res
	if len(texts) > 0 {
		var err error
		bres, err = c04Bash(texts, c04WorkDir())
		if err != nil {
			panic("bash batch: " + err.Error())
		}
		// where the simplified program behaves differently, also run the
		// printed UNSIMPLIFIED tree to see whether printing alone is at fault
		var more []string
		for _, w := range works {
			if w == nil || w.fail != nil || !w.needBash {
				continue
			}
			for k := range c04Cfgs {
				if w.ok1[k] && bres[w.p1[k]] != bres[w.t.Src] {
					if w.printOrig(ws, k); w.ok0[k] {
						more = append(more, w.p0[k])
					}
				}
			}
		}
		if len(more) > 0 {
			mres, err := c04Bash(more, c04WorkDir())
			if err != nil {
				panic("bash batch: " + err.Error())
			}
			for k, v := range mres {
				bres[k] = v
			}
		}
	}
	out := make([]*vc.Fail, len(ts))
	for i, w := range works {
		if w == nil {
			continue
		}
		if w.fail == nil && w.needBash {
			if w.fail = c04JudgeBash(c, w, bres); w.fail != nil {
				w.clause = "bash"
			}
		}
		if w.fail != nil {
			c04Classify(w) // before the tree is simplified further
		} else if w.simp != nil {
			w.fail = c04MorePasses(c, w)
		}
		out[i] = w.fail
	}
	return out
}

// c04Go does everything that needs no external process.
func c04Go(c *vc.Ctx, ws *synt.Workspace, t c04Case) *c04Work {
	lang := synt.LangByName(t.Variant)
	w := &c04Work{t: t, key: t.Variant + " " + fmt.Sprintf("%q", c04Snippet(t))}
	f0, err := ws.Parse(t.Src, lang)
	if err != nil {
		c.Count("pairs_not_parsing", 1)
		return nil
	}
	f, _ := ws.Parse(t.Src, lang)
	c.Count("pairs_parsing", 1)
	d0 := c04Dump(f)
	var ret bool
	if fl := guard(w.key+" simplify", func() { ret = syntax.Simplify(f) }); fl != nil {
		w.fail = fl
		return w
	}
	d1 := c04Dump(f)
	w.changed = d0 != d1
	if ret != w.changed {
		w.fail = &vc.Fail{Key: w.key + " return-value", Msg: fmt.Sprintf("[%s] %s: Simplify returned %v but the tree (dump with positions) changed=%v", t.Variant, shortSrc(c04Snippet(t)), ret, w.changed)}
		return w
	}
	w.simp = f
	if !w.changed {
		c.Count("unchanged_by_simplify", 1)
		return w
	}
	c.Count("changed_by_simplify", 1)
	c.Distinct(d1)
	// clause (2)
	w.orig = f0
	for k, cfg := range c04Cfgs {
		var why string
		w.p1[k], w.ok1[k], why = c04RT(ws, lang, f, cfg)
		if !w.ok1[k] {
			// the printer's own business (C01) if the unsimplified tree fails too
			if w.printOrig(ws, k); !w.ok0[k] {
				c.Count("skipped_original_does_not_roundtrip", 1)
				continue
			}
			w.clause = "roundtrip"
			w.fail = &vc.Fail{Key: w.key + " roundtrip " + cfg.String(), Msg: fmt.Sprintf("[%s] %s: simplified tree printed with %s gives %s which %s", t.Variant, shortSrc(c04Snippet(t)), cfg, shortSrc(c04Body(w.p1[k])), why)}
			return w
		}
	}
	if t.Kind == 0 {
		return w
	}
	// clause (3)
	opts := oracle.InterpOpts{Dir: c04WorkDir(), Lang: lang, NoExec: t.Kind == 2}
	if t.Kind == 2 {
		d, err := os.MkdirTemp(c04WorkDir(), "ic-")
		if err != nil {
			panic(err)
		}
		defer os.RemoveAll(d)
		opts.Dir = d
	}
	r0 := oracle.RunInterpFile(f0, opts)
	r1 := oracle.RunInterpFile(f, opts)
	if r0.Panicked || r0.Fatal != "" {
		// the interpreter itself fails on the original program: nothing to compare
		c.Count("skipped_interpreter_fails_on_original", 1)
		if os.Getenv("C04_SNIP") != "" {
			fmt.Println(r0.Fatal)
		}
		r1 = r0
	}
	c.Count("interp_pairs_compared", 1)
	if os.Getenv("C04_SNIP") != "" {
		fmt.Printf("[%s] simplified: %q\n  interp orig: %d %q %s\n  interp simp: %d %q %s\n", t.Variant, c04Body(w.p1[0]), r0.Status, r0.Stdout, r0.Fatal, r1.Status, r1.Stdout, r1.Fatal)
	}
	if r0.Stdout != r1.Stdout || r0.Status != r1.Status || r0.Panicked != r1.Panicked || (r0.Fatal == "") != (r1.Fatal == "") {
		w.clause = "interp"
		w.fail = &vc.Fail{Key: w.key + " interp", Msg: fmt.Sprintf("[%s] %s: interpreter gives status=%d stdout=%q, after Simplify (%s) status=%d stdout=%q", t.Variant, shortSrc(c04Snippet(t)), r0.Status, c04Trim(r0.Stdout), shortSrc(c04Body(w.p1[0])), r1.Status, c04Trim(r1.Stdout)),
			Detail: map[string]any{"orig": r0, "simplified": r1, "printed": w.p1[0]}}
		return w
	}
	if t.Kind == 1 && t.Variant == "bash" {
		w.needBash = true
	}
	return w
}

func c04JudgeBash(c *vc.Ctx, w *c04Work, bres map[string]c04Res) *vc.Fail {
	t := w.t
	b0 := bres[t.Src]
	if os.Getenv("C04_SNIP") != "" {
		fmt.Printf("  bash orig: %v\n  bash simp: %v / %v\n  bash printed-orig: %v / %v\n", b0, bres[w.p1[0]], bres[w.p1[1]], bres[w.p0[0]], bres[w.p0[1]])
	}
	if !strings.HasPrefix(b0.Out, "start\n") {
		c.Count("skipped_bash_rejects_original", 1)
		return nil
	}
	for k, cfg := range c04Cfgs {
		if !w.ok1[k] {
			continue
		}
		c.Count("bash_pairs_compared", 1)
		if b1 := bres[w.p1[k]]; b1 != b0 {
			if bp := bres[w.p0[k]]; !w.ok0[k] || bp != b0 {
				c.Count("skipped_printing_alone_changes_bash_behaviour", 1)
				continue
			}
			return &vc.Fail{Key: w.key + " bash " + cfg.String(), Msg: fmt.Sprintf("[%s] %s: bash gives status=%d stdout=%q, after Simplify printed with %s (%s) status=%d stdout=%q", t.Variant, shortSrc(c04Snippet(t)), b0.Status, c04Trim(b0.Out), cfg, shortSrc(c04Body(w.p1[k])), b1.Status, c04Trim(b1.Out)),
				Detail: map[string]any{"orig": b0, "simplified": b1, "printed": w.p1[k]}}
		}
	}
	return nil
}

// c04MorePasses repeats Simplify on the result: each pass must again report
// true exactly when it changed the tree, and a fixpoint must be reached.
func c04MorePasses(c *vc.Ctx, w *c04Work) *vc.Fail {
	f := w.simp
	prev := c04Dump(f)
	for pass := 2; pass <= 8; pass++ {
		var ret bool
		if fl := guard(w.key+fmt.Sprintf(" simplify-pass%d", pass), func() { ret = syntax.Simplify(f) }); fl != nil {
			return fl
		}
		cur := c04Dump(f)
		if ret != (cur != prev) {
			return &vc.Fail{Key: w.key + fmt.Sprintf(" return-value pass%d", pass), Msg: fmt.Sprintf("[%s] %s: pass %d of Simplify returned %v but the tree changed=%v", w.t.Variant, shortSrc(c04Snippet(w.t)), pass, ret, cur != prev)}
		}
		if !ret {
			if pass > 2 {
				c.Count("fixpoint_needs_more_than_one_pass", 1)
			}
			return nil
		}
		prev = cur
	}
	return &vc.Fail{Key: w.key + " no-fixpoint", Msg: fmt.Sprintf("[%s] %s: Simplify still changes the tree after 8 passes", w.t.Variant, shortSrc(c04Snippet(w.t)))}
}

// c04Snippet strips the fixed prelude/epilogue of generated programs.
func c04Snippet(t c04Case) string {
	if t.Kind != 1 {
		return t.Src
	}
	return c04Body(t.Src)
}

func c04Body(s string) string {
	for _, pe := range [][2]string{{c04PreBash, c04EpiBash}, {c04PrePosix, c04EpiPosix}} {
		if strings.HasPrefix(s, pe[0]) && strings.HasSuffix(s, pe[1]) {
			return s[len(pe[0]) : len(s)-len(pe[1])]
		}
	}
	// printed forms: cut after the 'set -- 1 2 3' line and before 'st=$?'
	if i := strings.Index(s, "set -- 1 2 3\n"); i >= 0 {
		s = s[i+len("set -- 1 2 3\n"):]
		if j := strings.LastIndex(s, "st=$?"); j >= 0 {
			s = s[:j]
		}
		return strings.TrimRight(s, "\n")
	}
	return s
}

func c04Trim(s string) string {
	s = strings.TrimPrefix(s, "start\n")
	if len(s) > 200 {
		s = s[:200] + "…"
	}
	return s
}


// c04RT prints tree with cfg and reports whether the output reparses to the
// same tree (C01's notion: dump without positions, documented cosmetic
// rewrites normalised).
func c04RT(ws *synt.Workspace, lang syntax.LangVariant, tree *syntax.File, cfg synt.Config) (string, bool, string) {
	var out string
	var perr error
	if fl := guard("print", func() { out, perr = ws.Print(cfg, tree) }); fl != nil {
		ws.Drop()
		return "", false, "Print panics: " + fl.Msg
	}
	if perr != nil {
		return out, false, "Print fails: " + perr.Error()
	}
	f2, err := ws.Parse(out, lang)
	if err != nil {
		return out, false, "does not reparse: " + err.Error()
	}
	o := synt.DumpOpts{Cosmetic: true, Minify: cfg.Minify}
	if synt.Dump(f2, o) != synt.Dump(tree, o) {
		return out, false, "reparses to a different tree"
	}
	return out, true, ""
}

// printOrig prints (and round-trips) the unsimplified tree on demand.
func (w *c04Work) printOrig(ws *synt.Workspace, k int) {
	if w.done0[k] {
		return
	}
	w.done0[k] = true
	w.p0[k], w.ok0[k], _ = c04RT(ws, synt.LangByName(w.t.Variant), w.orig, c04Cfgs[k])
}
