package checks

import (
	"fmt"
	"strings"

	"verif/mc/enum"
)

// c24Space is the enumerated space of printf/echo invocations.
type c24Space struct {
	thorough bool

	convsOK, convsNo     []string // conversions inside / outside the interpreter's grammar
	flagsOK, flagsNo     []string
	flags2               []string
	widths, precsNo      []string
	argsFull, argsRed    []string
	argsMin              []string
	fmtItems, fmtDeep    []string
	escItems             []string
	echoOpts, echoTail   []string
	g1Args, escLen       int
	echoOptLen, deepArgs int
}

func c24NewSpace(thorough bool) *c24Space {
	sp := &c24Space{thorough: thorough}
	sp.convsOK = []string{"s", "b", "c", "d", "i", "u", "o", "x"}
	sp.convsNo = []string{"X", "q", "f"}
	sp.flagsOK = []string{"", "-", "+", " ", "0"}
	sp.flagsNo = []string{"#"}
	all := append(append([]string(nil), sp.flagsOK[1:]...), sp.flagsNo...)
	for _, a := range all {
		for _, b := range all {
			if a != b {
				sp.flags2 = append(sp.flags2, a+b)
			}
		}
	}
	sp.widths = []string{"", "3", "12"}
	sp.precsNo = []string{".0", ".2"}
	sp.argsFull = []string{"", "a", "7", "-3", "010", "0x1f", "3x", `\n`, "%s", "'A", "é", " 5", "+4", "99999999999999999999", "08", "0b11", `x\cy`}
	sp.argsRed = []string{"", "a", "-3", "3x", `\n`, "%s", "'A", `x\cy`}
	sp.argsMin = []string{"", "a", "3x", `x\cy`}
	sp.fmtItems = []string{"a", "s", "%%", "é", `\n`, `\t`, `\\`, `\0`, `\101`, `\x41`, `\e`, `\a`, `\c`,
		"%s", "%b", "%c", "%d", "%i", "%u", "%o", "%x", "%-3s", "%03d", "%"}
	sp.fmtDeep = []string{"a", "%%", "é", `\n`, `\\`, `\0`, `\101`, `\x41`, `\c`, "%s", "%b", "%c", "%d", "%x", "%-3s", "%"}
	sp.escItems = []string{"a", "1", "8", "é", `\n`, `\t`, `\\`, `\0`, `\101`, `\x41`, `\e`, `\a`, `\c`, `\0101`, `\1`, `\400`, `\x`, `\u00e9`, `\u`, `\'`, `\"`, `\?`, `\q`, `\`, "%s", "%%"}
	sp.echoOpts = []string{"-n", "-e", "-E", "-ne", "-en", "-nE", "-eE", "-Ee", "-nn", "--", "-", "-x", "-nx", "-ex", "", "a"}
	sp.echoTail = []string{"a", `a\nb`, `\c`, `\101`, `\0101`, "-n", "-e", "", `\\`}
	sp.g1Args, sp.escLen, sp.echoOptLen = 2, 3, 2
	if thorough {
		sp.g1Args, sp.escLen, sp.echoOptLen = 3, 4, 3
	}
	return sp
}

// fmtDeep4 is the item alphabet of the 4-item formats: D without \x41.
func (sp *c24Space) fmtDeep4() []string {
	var out []string
	for _, it := range sp.fmtDeep {
		if it != `\x41` {
			out = append(out, it)
		}
	}
	return out
}

func (sp *c24Space) rule() string {
	g2 := fmt.Sprintf("G2 format structure: every format of <=2 items over F=%q x argument lists of <=2 over R=%q; of 3 items over D=%q x lists of <=2 over M=%q (a format without a directive gets the lists [] and [a] only)", sp.fmtItems, sp.argsRed, sp.fmtDeep, sp.argsMin)
	if sp.thorough {
		g2 = fmt.Sprintf("G2 format structure: every format of <=2 items over F=%q x argument lists of <=3 over R=%q; of 3 items over F x lists of <=2 over R; of 3 items over D=%q x lists of exactly 3 over M=%q; of 4 items over D minus \\x41 x lists of <=2 over M (a format without a directive gets the lists [] and [a] only)", sp.fmtItems, sp.argsRed, sp.fmtDeep, sp.argsMin)
	}
	g3 := fmt.Sprintf("each string is used as printf format with 0 and 1 argument, as the argument of %%b, [%%b], %%5b| and %%s, and as operand of echo -e, echo, echo -n -e S z, echo -e -E, echo -ne (strings of exactly %d items: as %%b argument and echo -e operand only)", sp.escLen)
	return fmt.Sprintf("every case is one printf/echo command line, parsed and run by the real interp.Runner and by bash 5.2 (one bash process per batch, output framed by markers); exact stdout bytes (NUL included) and the exit status are compared. "+
		"G1 single directive: %%[flag][width]conv for conv in %q, flag in %q, width in %q, alone (lists of <=2) and as \"[spec]\", x every argument list of <=%d over A=%q; the same with flag %q, precision in %q or conv in %q (outside the interpreter's grammar) x lists of <=1; every ordered pair of two distinct flags x width x precision {none,.2} x all conv x lists of <=1. "+
		"%s. "+
		"G3 escapes: every string of <=%d items over E=%q; %s; every pair (string of <=2 items, string of <=1 item) over E as arguments of %%b%%b, %%b-%%d and echo -e. "+
		"G4 echo options: every prefix of <=%d words over %q followed by every list of <=2 words over %q. G5: printf without operands, with --, with an empty format. "+
		"Directives the interpreter supports (read off expand.formatInto): %%%% and %%[at most one of + - space][digits]{s b c d i u o x}; a directive outside this grammar that bash accepts (flag #, a precision, a flag after 0 or a second flag, %%X %%q %%f ...) is counted as skipped_unsupported_directive when the interpreter rejects the command (status 1, nothing written) and is compared like any other case otherwise. distinct = distinct (stdout, status) outcomes of bash",
		sp.convsOK, sp.flagsOK, sp.widths, sp.g1Args, sp.argsFull, sp.flagsNo, sp.precsNo, sp.convsNo,
		g2, sp.escLen, sp.escItems, g3, sp.echoOptLen, sp.echoOpts, sp.echoTail)
}

func (sp *c24Space) gen(emit func(c24Case)) {
	argLists := func(alpha []string, max int, f func([]string)) {
		enum.Seqs(alpha, max, func(s []string) { f(append([]string(nil), s...)) })
	}
	printf := func(grp, format string, args ...string) {
		emit(c24Case{grp, append([]string{"printf", format}, args...)})
	}
	echo := func(grp string, args ...string) {
		emit(c24Case{grp, append([]string{"echo"}, args...)})
	}
	// G5
	emit(c24Case{"misc", []string{"printf"}})
	printf("misc", "--")
	printf("misc", "--", "%s|", "a", "b")
	printf("misc", "--", "--")
	printf("misc", "", "a")
	printf("misc", "")
	echo("misc")
	// G4
	enum.Seqs(sp.echoOpts, sp.echoOptLen, func(opts []string) {
		pre := append([]string(nil), opts...)
		argLists(sp.echoTail, 2, func(t []string) {
			echo("echo-opts", append(append([]string(nil), pre...), t...)...)
		})
	})
	// G3
	var short []string
	enum.Strings(sp.escItems, 1, func(s string) { short = append(short, s) })
	n3 := enum.Count(len(sp.escItems), sp.escLen-1)
	k := 0
	enum.Strings(sp.escItems, sp.escLen, func(s string) {
		k++
		printf("esc-b", "%b", s)
		echo("esc-echo", "-e", s)
		if k > n3 {
			return // longest strings: the two main uses only
		}
		printf("esc-format", s)
		printf("esc-format", s, "a")
		printf("esc-b", "[%b]", s)
		printf("esc-b", "%5b|", s, "z")
		printf("esc-s", "%s", s)
		echo("esc-echo", s)
		echo("esc-echo", "-n", "-e", s, "z")
		echo("esc-echo", "-e", "-E", s)
		echo("esc-echo", "-ne", s)
	})
	enum.Strings(sp.escItems, 2, func(s string) {
		for _, t := range short {
			printf("esc-b2", "%b%b", s, t)
			printf("esc-b2", "%b-%d", s, t)
			echo("esc-echo2", "-e", s, t)
		}
	})
	// G1
	allConvs := append(append([]string(nil), sp.convsOK...), sp.convsNo...)
	for _, cv := range allConvs {
		okConv := len(cv) > 0 && strings.Contains(strings.Join(sp.convsOK, ""), cv)
		for _, fl := range append(append([]string(nil), sp.flagsOK...), sp.flagsNo...) {
			okFlag := fl != "#"
			for _, w := range sp.widths {
				for _, p := range append([]string{""}, sp.precsNo...) {
					spec := "%" + fl + w + p + cv
					max := 1
					if okConv && okFlag && p == "" {
						max = sp.g1Args
					}
					argLists(sp.argsFull, max, func(a []string) {
						if len(a) < 3 {
							printf("spec", spec, a...)
						}
						printf("spec", "["+spec+"]", a...)
					})
				}
			}
		}
		for _, fl := range sp.flags2 {
			for _, w := range sp.widths {
				for _, p := range []string{"", ".2"} {
					spec := "%" + fl + w + p + cv
					argLists(sp.argsFull, 1, func(a []string) { printf("spec2", "["+spec+"]", a...) })
				}
			}
		}
	}
	// G2
	hasDirective := func(items []string) bool {
		for _, it := range items {
			if it[0] == '%' && it != "%%" {
				return true
			}
		}
		return false
	}
	// lists of minArgs..maxArgs arguments
	g2 := func(items []string, alpha []string, minArgs, maxArgs int) {
		f := strings.Join(items, "")
		if !hasDirective(items) {
			if minArgs == 0 {
				printf("fmt", f)
				printf("fmt", f, "a")
			}
			return
		}
		argLists(alpha, maxArgs, func(a []string) {
			if len(a) >= minArgs {
				printf("fmt", f, a...)
			}
		})
	}
	short2 := 2
	enum.Seqs(sp.fmtItems, short2, func(items []string) {
		if sp.thorough {
			g2(items, sp.argsRed, 0, 3)
		} else {
			g2(items, sp.argsRed, 0, 2)
		}
	})
	if !sp.thorough {
		enum.Seqs(sp.fmtDeep, 3, func(items []string) {
			if len(items) == 3 {
				g2(items, sp.argsMin, 0, 2)
			}
		})
		return
	}
	enum.Seqs(sp.fmtItems, 3, func(items []string) {
		if len(items) == 3 {
			g2(items, sp.argsRed, 0, 2)
		}
	})
	enum.Seqs(sp.fmtDeep, 3, func(items []string) {
		if len(items) == 3 {
			g2(items, sp.argsMin, 3, 3)
		}
	})
	enum.Seqs(sp.fmtDeep4(), 4, func(items []string) {
		if len(items) == 4 {
			g2(items, sp.argsMin, 0, 2)
		}
	})
}
