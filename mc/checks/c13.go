package checks

import (
	"encoding/hex"
	"fmt"
	"os"
	"strings"
	"sync"
	"unicode"
	"unicode/utf8"

	"mvdan.cc/sh/v3/expand"
	"mvdan.cc/sh/v3/syntax"

	"verif/mc/enum"
	"verif/mc/oracle"
	"verif/mc/vc"
)

func init() { Registry["C13"] = c13 }

// c13Case is one (string, variant) pair. The string is stored in hex because
// it may be invalid UTF-8, which JSON cannot carry.
type c13Case struct {
	Hex  string `json:"hex"`
	Lang int    `json:"lang"`
}

var c13NilMu sync.Mutex

var c13Langs = []syntax.LangVariant{syntax.LangBash, syntax.LangPOSIX, syntax.LangMirBSDKorn, syntax.LangBats, syntax.LangZsh}

// c13Alphabet is biased to shell metacharacters, keywords and UTF-8 fragments.
var c13Alphabet = []string{
	"'", `"`, `\`, "$", "`", " ", "\t", "\n", "!", "#", "~", "=", "*", "{",
	"a", "é", "\xc3", "\xa9", "\x7f", "\x01", "\u00a0", "\ufffe", "\U00010000", "if", "-",
}

// c13Edge: every reserved word of every variant (Quote must quote them so
// that they can stand in command position), strings with NUL (must fail), and
// a few escapes whose following character could be swallowed.
var c13Edge = []string{
	"\x00", "a\x00", "\x00'", "é\x00\x01",
	"for", "while", "until", "case", "esac", "then", "else", "elif", "done", "do", "fi", "in", "if",
	"function", "select", "time", "coproc", "declare", "local", "export", "readonly", "typeset", "nameref", "let", "eval",
	"[[", "]]", "{", "}", "!", "@test", "foreach", "repeat", "always", "end",
	"\x01ab", "\x01ff", "\x7fA0", "\xc3\x41", "\ufffeabcd", "\U0010ffff", "\U0010ffff0", "\ufffd", "\xef\xbf\xbd\x01", "\xed\xa0\x80", "\xf4\x90\x80\x80", "\xc0\x80",
	"\u200b", "\u2028", "\u00ad", "\ue000", "\uffff", "\r", "\r\n", "\v\f\a\b", "\x1b[0m",
	"a=b", "=a", "a=", "a+=b", "a[1]=b", "~a", "a~", "a:~", "{a,b}", "a{1..2}", "[a]", "a?", "a b", "-n", "--", "-", "%s", `\n`, `\x41`, `\'`, `'\''`, `"'"`, `$'a'`, `$"a"`, "$(a)", "`a`", "${a}", "$((1))", "<(a)", "a;b", "a&b", "a|b", "a>b", "a<b", "(a)", "a#b", "#a",
}

func c13Printable(s string) bool {
	if !utf8.ValidString(s) {
		return false
	}
	for _, r := range s {
		if !unicode.IsPrint(r) {
			return false
		}
	}
	return true
}

// c13Unrepresentable is the predicate from the property statement: the only
// strings for which Quote may fail.
func c13Unrepresentable(s string, lang syntax.LangVariant) bool {
	if strings.IndexByte(s, 0) >= 0 {
		return true
	}
	switch lang {
	case syntax.LangPOSIX:
		return !c13Printable(s)
	case syntax.LangMirBSDKorn:
		for rem := s; len(rem) > 0; {
			r, size := utf8.DecodeRuneInString(rem)
			if !(r == utf8.RuneError && size == 1) && r > 0xFFFD {
				return true
			}
			rem = rem[size:]
		}
	}
	return false
}

// c13PartsOK reports whether the word is made only of literal and quoted
// parts: Lit, SglQuoted, and DblQuoted containing only Lit.
func c13PartsOK(w *syntax.Word) (bool, string) {
	for _, wp := range w.Parts {
		switch wp := wp.(type) {
		case *syntax.Lit, *syntax.SglQuoted:
		case *syntax.DblQuoted:
			for _, in := range wp.Parts {
				if _, ok := in.(*syntax.Lit); !ok {
					return false, fmt.Sprintf("DblQuoted contains %T", in)
				}
			}
		default:
			return false, fmt.Sprintf("%T", wp)
		}
	}
	return true, ""
}

// c13ParseWord parses `printf %s <q>` (argument position) and `<q>` alone
// (command position) in the variant and returns the word found in argument
// position. In both positions the text must form exactly one word.
func c13ParseWord(q string, lang syntax.LangVariant) (*syntax.Word, error) {
	p := syntax.NewParser(syntax.Variant(lang))
	f, err := p.Parse(strings.NewReader("printf %s "+q), "")
	if err != nil {
		return nil, fmt.Errorf("argument position: %v", err)
	}
	call, err := c13OnlyCall(f)
	if err != nil {
		return nil, fmt.Errorf("argument position: %v", err)
	}
	if len(call.Assigns) != 0 || len(call.Args) != 3 {
		return nil, fmt.Errorf("argument position: %d assignments, %d words instead of 3", len(call.Assigns), len(call.Args))
	}
	if call.Args[0].Lit() != "printf" || call.Args[1].Lit() != "%s" {
		return nil, fmt.Errorf("argument position: leading words changed")
	}
	word := call.Args[2]
	if int(word.End().Offset()) != len("printf %s "+q) || int(word.Pos().Offset()) != len("printf %s ") {
		return nil, fmt.Errorf("argument position: word spans %d..%d of %d", word.Pos().Offset(), word.End().Offset(), len("printf %s "+q))
	}
	// command position: reserved words, assignments, comments, negation
	f2, err := syntax.NewParser(syntax.Variant(lang)).Parse(strings.NewReader(q), "")
	if err != nil {
		return nil, fmt.Errorf("command position: %v", err)
	}
	if len(f2.Stmts) == 1 {
		// the parser represents declaration builtins (declare, export, local,
		// ...) as their own clause; a lone bare one is still one literal word
		if dc, ok := f2.Stmts[0].Cmd.(*syntax.DeclClause); ok && len(dc.Args) == 0 && dc.Variant != nil && dc.Variant.Value == q && len(f2.Stmts[0].Redirs) == 0 && !f2.Stmts[0].Negated && !f2.Stmts[0].Background {
			return word, c13WordsSeqOne(q, lang)
		}
	}
	call2, err := c13OnlyCall(f2)
	if err != nil {
		return nil, fmt.Errorf("command position: %v", err)
	}
	if len(call2.Assigns) != 0 || len(call2.Args) != 1 {
		return nil, fmt.Errorf("command position: %d assignments, %d words instead of 1", len(call2.Assigns), len(call2.Args))
	}
	return word, c13WordsSeqOne(q, lang)
}

// c13WordsSeqOne: as a free-standing word list the text must be one word.
func c13WordsSeqOne(q string, lang syntax.LangVariant) error {
	n := 0
	for _, err := range syntax.NewParser(syntax.Variant(lang)).WordsSeq(strings.NewReader(q)) {
		if err != nil {
			return fmt.Errorf("WordsSeq: %v", err)
		}
		n++
	}
	if n != 1 {
		return fmt.Errorf("WordsSeq: %d words", n)
	}
	return nil
}

func c13OnlyCall(f *syntax.File) (*syntax.CallExpr, error) {
	if len(f.Stmts) != 1 {
		return nil, fmt.Errorf("%d statements", len(f.Stmts))
	}
	st := f.Stmts[0]
	if st.Negated || st.Background || st.Coprocess || len(st.Redirs) != 0 || len(st.Comments) != 0 || len(f.Last) != 0 {
		return nil, fmt.Errorf("statement has negation/background/redirections/comments")
	}
	call, ok := st.Cmd.(*syntax.CallExpr)
	if !ok {
		return nil, fmt.Errorf("command is %T", st.Cmd)
	}
	return call, nil
}

func c13(c *vc.Ctx) {
	minLen, maxLen := 3, vc.Pick(c, 3, 4)
	c.Rule = fmt.Sprintf("every NUL-free byte string of length <=2 (1+255+65025) plus every sequence of %d..%d symbols over %q plus %d hand-listed strings (all reserved words, NUL-containing, escape-adjacent hex digits, surrogates/overlong encodings), each crossed with the 5 variants Bash, POSIX, MirBSDKorn, Bats, Zsh; one evaluation = one (string, variant); distinct = distinct (variant, quoting style) of successful results plus distinct error messages", minLen, maxLen, c13Alphabet, len(c13Edge))
	c.Assumptions = []string{
		"bash 5.2.15 (LC_ALL=C.utf8) is the real shell for LangBash and dash for LangPOSIX; mksh, bats and zsh are not installed, so for those variants only the parser and expand.Literal judge the result",
		"'non-printable' in the statement is taken as Go's unicode.IsPrint being false (so tab and newline may be refused for POSIX although dash can represent them; counted as posix_refused_tab_or_newline)",
		"'one word' is required in argument position (`printf %s <q>`), in command position (`<q>` alone: no reserved word, assignment, comment or negation) and through Parser.WordsSeq",
	}
	c.Reruns = 1
	tmp, err := os.MkdirTemp("", "c13-")
	if err != nil {
		panic(err)
	}
	complete := vc.RunBatch(c, 3000, func(emit func(c13Case)) {
		all := func(s string) {
			h := hex.EncodeToString([]byte(s))
			for _, l := range c13Langs {
				emit(c13Case{h, int(l)})
			}
		}
		for _, e := range c13Edge {
			all(e)
		}
		all("")
		for a := 1; a < 256; a++ {
			all(string([]byte{byte(a)}))
		}
		for a := 1; a < 256; a++ {
			for b := 1; b < 256; b++ {
				all(string([]byte{byte(a), byte(b)}))
			}
		}
		enum.Seqs(c13Alphabet, maxLen, func(seq []string) {
			if len(seq) >= minLen {
				all(strings.Join(seq, ""))
			}
		})
	}, func(batch []c13Case) []*vc.Fail {
		fails := make([]*vc.Fail, len(batch))
		type pend struct {
			idx int
			s   string
			q   string
		}
		shells := map[syntax.LangVariant]string{syntax.LangBash: "bash", syntax.LangPOSIX: "dash"}
		pending := map[syntax.LangVariant][]pend{}
		for i, t := range batch {
			raw, err := hex.DecodeString(t.Hex)
			if err != nil {
				panic(err)
			}
			s := string(raw)
			lang := syntax.LangVariant(t.Lang)
			key := fmt.Sprintf("%q lang=%s", s, lang)
			var q string
			var qerr error
			if f := guard(key, func() { q, qerr = syntax.Quote(s, lang) }); f != nil {
				fails[i] = f
				continue
			}
			if qerr != nil {
				c.Distinct(fmt.Sprintf("%s err %s", lang, c13ErrKind(qerr)))
				if _, ok := qerr.(*syntax.QuoteError); !ok {
					fails[i] = vc.Failf(key+" errtype", "Quote(%q, %s) returned a %T, not a *QuoteError", s, lang, qerr)
					continue
				}
				if !c13Unrepresentable(s, lang) {
					fails[i] = &vc.Fail{Key: key + " refused", Class: c13Class(s, lang, "refused"), Msg: fmt.Sprintf("Quote(%q, %s) fails (%v) although the variant can represent the string", s, lang, qerr)}
					continue
				}
				c.Count("quote_errors_justified", 1)
				if lang == syntax.LangPOSIX && strings.IndexByte(s, 0) < 0 && c13Printable(strings.NewReplacer("\t", "", "\n", "").Replace(s)) {
					c.Count("posix_refused_tab_or_newline", 1)
				}
				continue
			}
			if strings.IndexByte(s, 0) >= 0 {
				fails[i] = vc.Failf(key+" nul-accepted", "Quote(%q, %s) = %q succeeds for a string containing NUL", s, lang, q)
				continue
			}
			c.Distinct(fmt.Sprintf("%s ok %s", lang, c13Style(q, s)))
			var word *syntax.Word
			var perr error
			if f := guard(key, func() { word, perr = c13ParseWord(q, lang) }); f != nil {
				fails[i] = f
				continue
			}
			if perr != nil {
				fails[i] = &vc.Fail{Key: key + " parse", Class: c13Class(s, lang, "parse"), Msg: fmt.Sprintf("Quote(%q, %s) = %q is not one word: %v", s, lang, q, perr)}
				continue
			}
			if ok, what := c13PartsOK(word); !ok {
				fails[i] = &vc.Fail{Key: key + " parts", Class: c13Class(s, lang, "parts"), Msg: fmt.Sprintf("Quote(%q, %s) = %q parses to a word with a %s part", s, lang, q, what)}
				continue
			}
			var lit string
			var lerr error
			if f := guard(key, func() { lit, lerr = expand.Literal(&expand.Config{}, word) }); f != nil {
				fails[i] = f
				continue
			}
			if lerr == nil && lit == s {
				// the documented nil config too; serialised because all nil
				// configs share one mutable package-level Config in expand
				// (concurrent callers corrupt each other's results: reported
				// separately, it is not what this property is about)
				c13NilMu.Lock()
				f := guard(key, func() { lit, lerr = expand.Literal(nil, word) })
				c13NilMu.Unlock()
				if f != nil {
					fails[i] = f
					continue
				}
			}
			if lerr != nil || lit != s {
				fails[i] = &vc.Fail{Key: key + " literal", Class: c13Class(s, lang, "literal"), Msg: fmt.Sprintf("Quote(%q, %s) = %q; expand.Literal gives %q (err %v)", s, lang, q, lit, lerr)}
				continue
			}
			if len(s) > 3 && strings.HasPrefix(q, "$'") {
				c.Sample(map[string]any{"string": fmt.Sprintf("%q", s), "lang": lang.String(), "quoted": q})
			}
			if _, ok := shells[lang]; ok {
				pending[lang] = append(pending[lang], pend{i, s, q})
			}
		}
		for _, lang := range []syntax.LangVariant{syntax.LangBash, syntax.LangPOSIX} {
			ps := pending[lang]
			if len(ps) == 0 {
				continue
			}
			words := make([]string, len(ps))
			for k, p := range ps {
				words[k] = p.q
			}
			res, err := oracle.ShellArgsBatch(shells[lang], words, tmp)
			if err != nil {
				panic(err)
			}
			c.Count("real_shell_"+shells[lang], len(ps))
			for k, r := range res {
				p := ps[k]
				if r.Ran && r.Status == 0 && len(r.Args) == 1 && r.Args[0] == p.s {
					continue
				}
				obs := fmt.Sprintf("status %d, arguments %q", r.Status, r.Args)
				if !r.Ran {
					obs = "the shell terminated"
				}
				fails[p.idx] = &vc.Fail{
					Key:   fmt.Sprintf("%q lang=%s shell", p.s, lang),
					Class: c13Class(p.s, lang, "shell"),
					Msg:   fmt.Sprintf("Quote(%q, %s) = %q; %s `set -- <quoted>` gives %s", p.s, lang, p.q, shells[lang], obs),
				}
			}
		}
		return fails
	})
	os.RemoveAll(tmp)
	c.Finish(complete)
}

func c13ErrKind(err error) string {
	if qe, ok := err.(*syntax.QuoteError); ok {
		return qe.Message
	}
	return err.Error()
}

// c13Style names the quoting style of a successful result.
func c13Style(q, s string) string {
	switch {
	case q == s:
		return "bare"
	case strings.HasPrefix(q, "$'"):
		n := strings.Count(q, "'$'")
		return fmt.Sprintf("ansi-c requotes=%d x=%v u=%v U=%v", n, strings.Contains(q, `\x`), strings.Contains(q, `\u`), strings.Contains(q, `\U`))
	case strings.HasPrefix(q, "'"):
		return "single"
	case strings.HasPrefix(q, `"`):
		return fmt.Sprintf("double escapes=%d", strings.Count(q, `\`))
	}
	return "other"
}

// c13Class names the narrow families recorded as known findings; see
// c13_classes.go.
func c13Class(s string, lang syntax.LangVariant, stage string) string {
	return c13Classify(s, lang, stage)
}
