package checks

import (
	"crypto/sha256"
	"fmt"
	"os"
	"sort"
	"strings"
	"sync"

	"verif/mc/vc"
)

func init() { Registry["C33"] = c33 }

// c33Case is one transition of the explored graph run in one context: the
// operations (texts from c33Ops) applied in order to a fresh shell.
type c33Case struct {
	Ops []string `json:"ops"`
	Ctx string   `json:"ctx"`
}

func c33(c *vc.Ctx) {
	depth := vc.Pick(c, 3, 4)
	bashDepth := vc.Pick(c, 2, 4)                   // quick: the depth-3 histories are replayed in bash by the thorough tier only
	if s := os.Getenv("VERIF_C33_DEPTH"); s != "" { // development aid
		fmt.Sscan(s, &depth)
		bashDepth = depth
	}
	if os.Getenv("VERIF_C33_NOBASH") != "" { // development aid (timing only)
		bashDepth = -1
	}
	c.Level = "model_checking"
	c.Reruns = 1
	c.Rule = fmt.Sprintf("explicit-state breadth-first exploration to depth %d of the histories over %d array operations on one variable `a` (listed below), starting from an unset variable on a fresh interp.Runner. A state is a history; states are merged when the %d core observations made through the shell itself (\"${a[@]}\", \"${!a[@]}\", ${#a[@]}, \"${a[*]}\", ${a}, ${#a}, ${a[i]} and ${#a[i]} for i in -3..7, \"${a[@]:o}\" for o in -2..3 and \"${a[@]:o:l}\" for o in -2..3, l in 0..3; each a field list or a diagnostic) AND the representation of Runner.Vars[\"a\"] after the run (Set, Kind, len(List), List nil, spare capacity, Indexes contents and nil-ness; Indexes must be non-negative, strictly increasing and as long as List) are equal. Successors: the first (shortest, then smallest) history reaching the state is replayed on a fresh Runner plus one operation, in four contexts: top level; func = a=(G H); f() { local a=(); ops; observe; }; f; observe (the global must survive; histories that leave the local without a value before the last operation are skipped and counted); gfunc = last operation inside a function on the global, observed inside and after; sub = last operation inside a subshell, observed there and again in the parent (which must be as before the operation). Per discovered state three more observation families are run on its history: \"${a[@]:o:l}\" with l in -2..-1 (%d items), [[ -v a[i] ]] for i in -3..7, and \"${!a[@]}\" alone (it is not executed in the other contexts while the model's variable has no value, because it makes the interpreter exit). Every operation status (zero/non-zero) and observation must equal the Go map reference model (c33_model.go); the reference model must equal bash 5.2 on every explored history of length <= %d (all contexts except sub), run at the real top level of a bash script, one process per batch. A state reached by a transition that diverges at top level is not expanded. Operations: %s", depth, len(c33Ops), len(c33Items), len(c33NegLenItems), bashDepth, c33OpTexts())
	c.Assumptions = []string{
		"bash 5.2.15 is the oracle for the reference model; the subshell context is not replayed in bash (that a subshell sees the effect and its parent does not is taken from the definition of a subshell)",
		"a diagnostic on stderr is the only way bash shows a bad subscript in ${a[i]}: 'error' for an observation means 'printed a diagnostic' in both shells; for [[ -v a[i] ]] only the status is compared; for operations only zero/non-zero status",
		"negative subscripts applied to a variable that is not an indexed array (unset, declared only, scalar) are not compared (bash answers with a mix of diagnostics and zeros that has no map meaning)",
		"values contain no IFS or glob characters, so quoted observations are enough",
		"the three per-state observation families are assumed to depend only on the merged state (core observations + representation)",
	}

	type node struct{ hist []int }
	var (
		mu          sync.Mutex
		cand        map[string][]int // state key -> smallest history of this level reaching it
		transitions int
		stateObs    int
		validated   int
	)
	visited := map[string]bool{}
	opIndex := map[string]int{}
	for i, o := range c33Ops {
		opIndex[o.Text] = i
	}

	run := func(batch []c33Case) []*vc.Fail {
		fails := make([]*vc.Fail, len(batch))
		var bcases []c33BashCase
		var bidx []int
		shTokens := make([][]string, len(batch))
		wants := make([][]string, len(batch))
		for i, t := range batch {
			ops := make([]c33Op, len(t.Ops))
			hist := make([]int, len(t.Ops))
			ok := true
			for j, txt := range t.Ops {
				k, found := opIndex[txt]
				if !found {
					ok = false
					break
				}
				ops[j], hist[j] = c33Ops[k], k
			}
			if !ok || (len(ops) == 0 && (t.Ctx == "func" || t.Ctx == "gfunc" || t.Ctx == "sub")) {
				fails[i] = vc.Failf("bad-case", "unknown operation in %v", t.Ops)
				continue
			}
			if t.Ctx == "func" && c33LocalWithoutValue(ops) {
				// bash treats a local variable that lost its value (unset
				// inside the function) in ways of its own (a[-1]=v succeeds,
				// unset 'a[1]' fails); the same history is judged at top level
				c.Count("skipped_func_ctx_local_without_value", 1)
				continue
			}
			want, pts := c33Expect(ops, t.Ctx)
			wants[i] = want
			res := c33RunSh(ops, t.Ctx, pts, len(want))
			shTokens[i] = res.Tokens
			name := t.Ctx + ": " + strings.Join(t.Ops, "; ")
			switch {
			case res.Fatal != "":
				fails[i] = &vc.Fail{Key: name + " fatal", Msg: fmt.Sprintf("%s: interpreter failed: %s", name, res.Fatal), Class: c33FatalClass(res.Fatal)}
			case res.RepErr != "":
				fails[i] = &vc.Fail{Key: name + " rep", Msg: fmt.Sprintf("%s: representation invariant broken: %s", name, res.RepErr)}
			default:
				fails[i] = c33Compare(name, ops, t.Ctx, pts, want, res.Tokens)
			}
			mu.Lock()
			if t.Ctx == "neglen" || t.Ctx == "isset" || t.Ctx == "keys" || t.Ctx == "local" {
				stateObs++
			} else {
				transitions++
			}
			mu.Unlock()
			if t.Ctx == "top" && fails[i] == nil {
				sum := sha256.Sum256([]byte(strings.Join(res.Tokens[len(ops):], ";") + "|" + res.Rep))
				key := string(sum[:16])
				mu.Lock()
				if old, ok := cand[key]; !ok || c33Less(hist, old) {
					cand[key] = hist
				}
				mu.Unlock()
				c.Distinct(key)
			}
			// a lone failing case is the re-execution of a reported failure
			// (sh against the model): no need to start bash for it again
			rerun := len(batch) == 1 && c.Replay == "" && fails[i] != nil
			if t.Ctx != "sub" && len(ops) <= bashDepth && !rerun {
				bcases = append(bcases, c33BashCase{Ops: ops, Ctx: t.Ctx, Want: want})
				bidx = append(bidx, i)
			}
		}
		if len(bcases) > 0 {
			diffs, err := c33Bash(bcases)
			if err != nil {
				panic(err)
			}
			mu.Lock()
			validated += len(bcases)
			mu.Unlock()
			for bi, got := range diffs {
				i := bidx[bi]
				t := batch[i]
				name := t.Ctx + ": " + strings.Join(t.Ops, "; ")
				// the model is wrong about bash: a harness defect, reported
				// unclassified whatever the interpreter did
				pos, w, g := c33FirstDiff(wants[i], got)
				kind, obs, it := c33Desc(t.Ctx, len(t.Ops), pos)
				word := ""
				if it != nil {
					word = it.Word
				}
				fails[i] = &vc.Fail{
					Key: name + " model-vs-bash",
					Msg: fmt.Sprintf("%s: reference model disagrees with bash 5.2 at %s %s (observation point %d): model %q, bash %q, sh %q", name, kind, word, obs, w, g, c33At(shTokens[i], pos)),
				}
			}
		}
		return fails
	}

	complete := true
	frontier := []node{{}}
	states := 1 // the initial state (unset variable)
	// the initial state itself is observed too
	cand = map[string][]int{}
	vc.RunBatch(c, 1, func(emit func(c33Case)) {
		if c.Replay == "" {
			emit(c33Case{Ops: []string{}, Ctx: "top"})
			for _, ctx := range c33StateCtxs {
				emit(c33Case{Ops: []string{}, Ctx: ctx})
			}
			emit(c33Case{Ops: []string{}, Ctx: "local"})
		}
	}, run)
	if c.Replay != "" {
		c.Finish(true)
	}
	for d := 1; d <= depth && len(frontier) > 0; d++ {
		cand = map[string][]int{}
		ok := vc.RunBatch(c, 256, func(emit func(c33Case)) {
			for _, n := range frontier {
				for oi := range c33Ops {
					ops := make([]string, 0, len(n.hist)+1)
					for _, k := range n.hist {
						ops = append(ops, c33Ops[k].Text)
					}
					ops = append(ops, c33Ops[oi].Text)
					for _, ctx := range c33Ctxs {
						cs := c33Case{Ops: ops, Ctx: ctx}
						if d == depth && oi == 0 && ctx == "top" {
							c.Sample(cs)
						}
						emit(cs)
					}
				}
			}
		}, run)
		if !ok {
			complete = false
			break
		}
		var keys []string
		for k := range cand {
			if !visited[k] {
				keys = append(keys, k)
			}
		}
		sort.Slice(keys, func(i, j int) bool { return c33Less(cand[keys[i]], cand[keys[j]]) })
		frontier = frontier[:0]
		for _, k := range keys {
			visited[k] = true
			frontier = append(frontier, node{cand[k]})
		}
		states += len(frontier)
		// per-state observations of the families kept out of the state key
		if !vc.RunBatch(c, 256, func(emit func(c33Case)) {
			for _, n := range frontier {
				ops := make([]string, 0, len(n.hist))
				for _, k := range n.hist {
					ops = append(ops, c33Ops[k].Text)
				}
				for _, ctx := range c33StateCtxs {
					emit(c33Case{Ops: ops, Ctx: ctx})
				}
			}
		}, run) {
			complete = false
			break
		}
		c.Count(fmt.Sprintf("new_states_depth_%d", d), len(frontier))
	}
	c.Extra["states"] = states
	c.Extra["transitions"] = transitions
	c.Extra["traces_validated_against_impl"] = transitions
	c.Extra["model_traces_validated_against_bash"] = validated
	c.Extra["per_state_observation_runs"] = stateObs
	c.Extra["depth"] = depth
	c.Finish(complete)
}

// c33LocalWithoutValue reports whether, in the context func, an operation
// other than the first is applied to a variable without a value.
func c33LocalWithoutValue(ops []c33Op) bool {
	st := c33Initial("func")
	for _, op := range ops[:len(ops)-1] {
		st, _ = st.apply(op)
		if st.Kind == c33Unset || st.Kind == c33Declared {
			return true
		}
	}
	return false
}

func c33OpTexts() string {
	var ts []string
	for _, o := range c33Ops {
		ts = append(ts, "`"+o.Text+"`")
	}
	return strings.Join(ts, ", ")
}

func c33Less(a, b []int) bool {
	if len(a) != len(b) {
		return len(a) < len(b)
	}
	for i := range a {
		if a[i] != b[i] {
			return a[i] < b[i]
		}
	}
	return false
}

func c33At(ts []string, i int) string {
	if i < len(ts) {
		return ts[i]
	}
	return "(none)"
}

func c33FirstDiff(want, got []string) (int, string, string) {
	for i := range want {
		if want[i] == c33DontCare {
			continue
		}
		if i >= len(got) || got[i] != want[i] {
			return i, want[i], c33At(got, i)
		}
	}
	if len(got) > len(want) {
		return len(want), "(none)", got[len(want)]
	}
	return -1, "", ""
}

// c33Compare judges the interpreter's tokens against the model's.
func c33Compare(name string, ops []c33Op, ctx string, pts []c33State, want, got []string) *vc.Fail {
	var diffs []int
	for i := range want {
		if want[i] != c33DontCare && c33At(got, i) != want[i] {
			diffs = append(diffs, i)
		}
	}
	if len(diffs) == 0 {
		return nil
	}
	pos := diffs[0]
	kind, obs, it := c33Desc(ctx, len(ops), pos)
	word := ""
	if it != nil {
		word = it.Word
	}
	class := c33Class(ops, ctx, pts, want, got, diffs)
	return &vc.Fail{
		Key:    fmt.Sprintf("%s @%s%s#%d want=%s got=%s ndiff=%d", name, kind, word, obs, want[pos], c33At(got, pos), len(diffs)),
		Msg:    fmt.Sprintf("%s: %d of %d observations differ from the reference model (= bash); first: %s %s at observation point %d: model %q, sh %q", name, len(diffs), len(want), kind, word, obs, want[pos], c33At(got, pos)),
		Class:  class,
		Detail: map[string]any{"want": strings.Join(want, ";"), "got": strings.Join(got, ";")},
	}
}
