package checks

import (
	"bytes"
	"context"
	"fmt"
	"runtime/debug"
	"strings"

	"mvdan.cc/sh/v3/expand"
	"mvdan.cc/sh/v3/interp"
	"mvdan.cc/sh/v3/syntax"
)

// c24Shell runs one command line at a time through the real parser and a
// real interp.Runner. The parser and the Runner are reused for the cases of
// one batch (Runner.Reset before every case); printf and echo keep no state.
type c24Shell struct {
	p   *syntax.Parser
	r   *interp.Runner
	out bytes.Buffer
}

func newC24Shell() (*c24Shell, error) {
	s := &c24Shell{p: syntax.NewParser(syntax.Variant(syntax.LangBash))}
	r, err := interp.New(
		interp.Env(expand.ListEnviron()),
		interp.StdIO(strings.NewReader(""), &s.out, nil),
		interp.ExecHandlers(func(next interp.ExecHandlerFunc) interp.ExecHandlerFunc {
			return func(ctx context.Context, args []string) error { return interp.ExitStatus(127) }
		}),
	)
	if err != nil {
		return nil, err
	}
	s.r = r
	return s, nil
}

// run returns stdout, the exit status, and a non-empty fatal text for a
// parse error, a non-status error or a panic.
func (s *c24Shell) run(src string) (out []byte, status int, fatal string) {
	defer func() {
		if r := recover(); r != nil {
			fatal = fmt.Sprintf("panic: %v\n%s", r, debug.Stack())
		}
	}()
	f, err := s.p.Parse(strings.NewReader(src), "")
	if err != nil {
		return nil, 0, "parse: " + err.Error()
	}
	s.out.Reset()
	s.r.Reset()
	err = s.r.Run(context.Background(), f)
	out = append([]byte(nil), s.out.Bytes()...)
	if err != nil {
		st, ok := interp.IsExitStatus(err)
		if !ok {
			return out, 1, "run: " + err.Error()
		}
		status = int(st)
	}
	return out, status, ""
}
