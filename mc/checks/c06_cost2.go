package checks

// Pumped families whose repeated unit is longer than one token, and families
// with two repeated parts U V^k M W^k X. They exist because many lists the
// parser keeps grow by one element per OPERATOR + OPERAND (a redirection, a
// here-document, an assignment, an array element, a case item), which no
// single token and no byte string of length <= 2 can spell, and because some
// constructs are only complete when a second part repeats as often as the
// first (closers of a nest, bodies of the here-documents opened on one line).

// c06UnitOperands are the word-like tokens: in the quick tier every
// two-token unit has one of them on at least one side.
var c06UnitOperands = []string{"a", "1"}

// c06UnitFamilies enumerates, in a fixed order:
//
//	(n) balanced nests o^k core c^k for every pair of c06Nests, core in {"a", ""};
//	(p) units pre+t1+j+t2+term for token pairs (t1,t2), j in {"", " "},
//	    (term, pre) in {(" ",""), ("; ",""), ("; ","a "), ("\n","")}: k
//	    operator+operand groups in one command, k one-group commands on one
//	    line (bare and after a command word), k lines;
//	(q) the same units (j "", term != "\n") followed by a newline and k lines that
//	    consist of t2 (if t1 t2 opened a here-document with word t2, these
//	    are the k bodies' closing lines; otherwise k more commands).
//
// quick: the pairs where t1 or t2 (for q: t2) is one of c06UnitOperands;
// thorough: additionally (p) with pre "" for every ordered pair of c06Tokens.
func c06UnitFamilies(thorough bool, f func(c06Fam)) {
	seen := map[string]bool{}
	emit := func(fm c06Fam) {
		k := string(fm.U) + "\x01\x02" + string(fm.V) + "\x01\x02" + string(fm.M) + "\x01\x02" + string(fm.W) + "\x01\x02" + string(fm.X)
		if seen[k] {
			return
		}
		seen[k] = true
		f(fm)
	}
	for _, n := range c06Nests {
		for _, core := range []string{"a", ""} {
			emit(c06Fam{V: []byte(n[0]), M: []byte(core), W: []byte(n[1])})
		}
	}
	type shape struct{ term, pre string }
	shapes := []shape{{" ", ""}, {"; ", ""}, {"; ", "a "}, {"\n", ""}}
	isOperand := map[string]bool{}
	for _, o := range c06UnitOperands {
		isOperand[o] = true
	}
	pairs := func(all bool, g func(t1, t2 string)) {
		for _, t1 := range c06Tokens {
			for _, t2 := range c06Tokens {
				if all || isOperand[t1] || isOperand[t2] {
					g(t1, t2)
				}
			}
		}
	}
	pairs(false, func(t1, t2 string) {
		for _, j := range []string{"", " "} {
			for _, sh := range shapes {
				v := sh.pre + t1 + j + t2 + sh.term
				emit(c06Fam{V: []byte(v)})
				if sh.term != "\n" && isOperand[t2] && j == "" {
					emit(c06Fam{V: []byte(v), M: []byte("\n"), W: []byte(t2 + "\n")})
				}
			}
		}
	})
	if thorough {
		pairs(true, func(t1, t2 string) {
			for _, j := range []string{"", " "} {
				for _, sh := range shapes {
					if sh.pre == "" {
						emit(c06Fam{V: []byte(t1 + j + t2 + sh.term)})
					}
				}
			}
		})
	}
}
