package checks

import (
	"slices"
	"sort"
	"strings"

	"mvdan.cc/sh/v3/syntax"

	"verif/mc/synt"
)

// Classes found by the statement-pair family (round 3). Both are parser
// defects that make the parser misread a correct first formatting.
func init() {
	c02Classes = append(c02Classes,
		c02Class{
			// Parser: when the newline at which a pending here-document body
			// starts directly follows "]]" or the last expression of a let
			// clause, the body is not read (testClause/letClause lex that
			// newline while the here-documents are buried by preNested) and
			// its lines are parsed as commands. SingleLine puts the next
			// statement on the line of a pending here-document, so the first
			// formatting "a <<E; [[ b ]]\nx\nE\n" is read back as four
			// statements. Predicate: the input has a here-document; in the
			// parse of P1 a TestClause/LetClause statement ends directly in
			// front of a newline, and P1 with ";" inserted there parses to
			// the input's tree.
			name:  "heredoc-body-skipped-after-test-or-let-clause",
			shape: func(x *c02Input) bool { return c02HasHeredoc(x.f) },
			change: func(x *c02Input, p1, _ string) bool {
				f1, err := synt.Parse(p1, x.lang)
				if err != nil {
					return false
				}
				var offs []int
				syntax.Walk(f1, func(n syntax.Node) bool {
					st, ok := n.(*syntax.Stmt)
					if !ok {
						return true
					}
					switch st.Cmd.(type) {
					case *syntax.TestClause, *syntax.LetClause:
						if len(st.Redirs) > 0 || st.Background || st.Coprocess || st.Disown {
							return true
						}
						if o := int(st.Cmd.End().Offset()); o < len(p1) && p1[o] == '\n' {
							offs = append(offs, o)
						}
					}
					return true
				})
				if len(offs) == 0 {
					return false
				}
				sort.Sort(sort.Reverse(sort.IntSlice(offs)))
				text := p1
				for _, o := range offs {
					text = text[:o] + ";" + text[o:]
				}
				f2, err := synt.Parse(text, x.lang)
				if err != nil {
					return false
				}
				o := synt.DumpOpts{Cosmetic: true, Minify: x.cfg.Minify}
				return synt.Dump(f2, o) == synt.Dump(x.f, o)
			},
		},
		c02Class{
			// Parser (recorded for C09 as comment-text-holds-escaped-newline):
			// a backslash-newline ending a comment is taken as a line
			// continuation; Comment.Text holds it and, after a word, the
			// next line becomes arguments of that command. Predicate: the
			// input has a comment whose text ends in backslash-newline.
			name: "comment-ending-in-backslash-continues-line",
			shape: func(x *c02Input) bool {
				found := false
				syntax.Walk(x.f, func(n syntax.Node) bool {
					if c, ok := n.(*syntax.Comment); ok && strings.HasSuffix(c.Text, "\\\n") {
						found = true
					}
					return !found
				})
				return found
			},
			change: func(*c02Input, string, string) bool { return true },
		})
	c02Classes = append(c02Classes,
		c02Class{
			// Printer (Minify): like minify-dropped-comment-before-closing-paren
			// with the comment anywhere inside the subshell / command
			// substitution: "(\n# c\nfor i; do b; done\n)" gives "(for i\ndo
			// b;done)" and then "(for i;do b;done)". Predicate: Minify; a
			// comment lies inside a Subshell/CmdSubst; P1 and P2 have the same
			// non-blank characters (";" aside).
			name: "minify-dropped-comment-inside-parens-changes-layout",
			cfg:  func(cfg synt.Config, _ bool) bool { return cfg.Minify },
			shape: func(x *c02Input) bool {
				found := false
				syntax.Walk(x.f, func(n syntax.Node) bool {
					switch n.(type) {
					case *syntax.Subshell, *syntax.CmdSubst:
						pos, end := n.Pos(), n.End()
						syntax.Walk(n, func(m syntax.Node) bool {
							if c, ok := m.(*syntax.Comment); ok && c.Pos().After(pos) && end.After(c.Pos()) {
								found = true
							}
							return !found
						})
					}
					return !found
				})
				return found
			},
			change: c02SameNonBlank,
		},
		c02Class{
			// Printer: a here-document in the condition of if/while/until and a
			// comment inside the first statement of the body: the first pass
			// keeps the body on the line of then/do ("then a=(1) # c"), the
			// second breaks it. Predicate: a here-document redirect inside the
			// condition statements of an IfClause/WhileClause whose body holds a
			// comment; only whitespace changes.
			name: "heredoc-in-condition-body-comment-layout",
			shape: func(x *c02Input) bool {
				found := false
				hasComment := func(stmts []*syntax.Stmt) bool {
					r := false
					for _, st := range stmts {
						syntax.Walk(st, func(m syntax.Node) bool {
							if _, ok := m.(*syntax.Comment); ok {
								r = true
							}
							return !r
						})
					}
					return r
				}
				hasHdoc := func(stmts []*syntax.Stmt) bool {
					for _, st := range stmts {
						if c02HasHeredoc(st) {
							return true
						}
					}
					return false
				}
				syntax.Walk(x.f, func(n syntax.Node) bool {
					switch n := n.(type) {
					case *syntax.IfClause:
						if hasHdoc(n.Cond) && hasComment(n.Then) {
							found = true
						}
					case *syntax.WhileClause:
						if hasHdoc(n.Cond) && hasComment(n.Do) {
							found = true
						}
					}
					return !found
				})
				return found
			},
			change: func(_ *c02Input, p1, p2 string) bool { return slices.Equal(c02Tokens(p1), c02Tokens(p2)) },
		},
		c02Class{
			// Printer (FunctionNextLine): a function declaration that follows a
			// pending here-document on the same line ("a <<E || f() { a; }"):
			// the opening brace and body are indented one level deeper on the
			// first pass only. Predicate: FunctionNextLine; a BinaryCmd whose
			// left side has a here-document and whose right side is a FuncDecl;
			// only whitespace changes.
			name: "funcnextline-after-pending-heredoc-indent",
			cfg:  func(cfg synt.Config, _ bool) bool { return cfg.FuncNext },
			shape: func(x *c02Input) bool {
				found := false
				syntax.Walk(x.f, func(n syntax.Node) bool {
					if b, ok := n.(*syntax.BinaryCmd); ok && b.Y != nil && c02HasHeredoc(b.X) {
						if _, ok := b.Y.Cmd.(*syntax.FuncDecl); ok {
							found = true
						}
					}
					return !found
				})
				return found
			},
			change: func(_ *c02Input, p1, p2 string) bool { return slices.Equal(c02Tokens(p1), c02Tokens(p2)) },
		})
	// in front of the older classes: the (fixed) class
	// nested-closing-parens-space-from-source-lines has a wider shape
	c02Classes = append([]c02Class{
		{
			// Printer (Minify): a comment that is the last thing inside a
			// subshell or command substitution is dropped by Minify but still
			// moves the printer's line bookkeeping, so the closing parenthesis
			// is laid out as if the comment were there ("(\n((x++))\n# c\n)"
			// gives "(\n((x++)))" and then "(\n((x++)) )"). Predicate: Minify;
			// the input has a Subshell/CmdSubst with a comment after the start
			// of its last statement; P1 and P2 differ only in whitespace and ";".
			name: "minify-dropped-comment-before-closing-paren",
			cfg:  func(cfg synt.Config, _ bool) bool { return cfg.Minify },
			shape: func(x *c02Input) bool {
				found := false
				syntax.Walk(x.f, func(n syntax.Node) bool {
					var stmts []*syntax.Stmt
					switch n := n.(type) {
					case *syntax.Subshell:
						stmts = n.Stmts
					case *syntax.CmdSubst:
						stmts = n.Stmts
					default:
						return !found
					}
					if len(stmts) == 0 {
						return true
					}
					last, end := stmts[len(stmts)-1].Pos(), n.End()
					syntax.Walk(n, func(m syntax.Node) bool {
						if c, ok := m.(*syntax.Comment); ok && c.Pos().After(last) && end.After(c.Pos()) {
							found = true
						}
						return !found
					})
					return !found
				})
				return found
			},
			change: func(_ *c02Input, p1, p2 string) bool {
				return c02SameNonBlank(nil, p1, p2)
			},
		}}, c02Classes...)
}


// c02SameNonBlank: the two texts have the same non-blank characters, ";"
// aside (a here-document body may change sides of a closing brace, so the
// characters are compared as a multiset).
func c02SameNonBlank(_ *c02Input, p1, p2 string) bool {
	strip := strings.NewReplacer(" ", "", "\n", "", "\t", "", ";", "")
	b1, b2 := []byte(strip.Replace(p1)), []byte(strip.Replace(p2))
	slices.Sort(b1)
	slices.Sort(b2)
	return string(b1) == string(b2)
}
