package checks

import (
	"bytes"
	"fmt"
	"hash/fnv"
	"os"
	"os/exec"
	"path/filepath"
	"strings"
	"sync"

	"verif/mc/oracle"
)

// c12Shell is one external shell judging acceptance of programs.
type c12Shell struct {
	name string // "bash" or "dash"
	dir  string // scratch directory (cwd of every process)
}

var (
	c12DirOnce sync.Once
	c12Dir     string
)

func c12ScratchDir() string {
	c12DirOnce.Do(func() {
		d, err := os.MkdirTemp("", "c12-")
		if err != nil {
			panic(err)
		}
		c12Dir = d
	})
	return c12Dir
}

// real judges src exactly as the repository's confirmParse (syntax/
// parser_test.go) does for an input expected to be accepted: `<shell> -n`
// with the program on stdin; rejected iff the exit status is non-zero or
// stderr has a non-empty line that does not contain "warning:".
// judged=false when the shell was killed by a signal or could not be started.
func (s c12Shell) real(src string) (accept bool, judged bool, stderr string) {
	cmd := exec.Command(s.name, "-n")
	cmd.Env = []string{"LC_ALL=C.utf8", "PATH=/usr/bin:/bin", "HOME=/nonexistent"}
	cmd.Dir = s.dir
	cmd.Stdin = strings.NewReader(src)
	var eb bytes.Buffer
	cmd.Stderr = &eb
	err := cmd.Run()
	if cmd.ProcessState == nil || cmd.ProcessState.ExitCode() == -1 {
		return false, false, fmt.Sprint(err)
	}
	bad := err != nil
	for _, ln := range strings.Split(eb.String(), "\n") {
		ln = strings.TrimSpace(ln)
		if ln == "" || strings.Contains(ln, "warning:") {
			continue
		}
		bad = true
	}
	return !bad, true, eb.String()
}

// c12Driver is the prelude of the batch script (POSIX sh, runs in bash and
// dash alike). Each case is parsed WITHOUT being executed: the text is
// placed inside a compound command that is the second command of a list
// whose first command is `return 0`. The shell parses the complete list
// (hence the whole case) before it executes `return 0`, which leaves the
// function; a syntax error makes eval fail instead, without executing
// anything. Two different enclosing commands are used (a function body in
// braces and a never-taken if branch): a case is accepted only when it is
// accepted inside both, because a case may close one kind of enclosure early
// ("a; }; {"), but not both.
const c12Driver = `exec 2>/dev/null
A() { command eval "return 0; __g() { $1
}"; return 1; }
B() { command eval "return 0; if false; then $1
fi"; return 1; }
R=
c() { if A "$1"; then if B "$1"; then R=${R}3; else R=${R}1; fi; else R=${R}0; fi; }
`

// batch returns for every source 3 (accepted in both enclosures), 1
// (accepted in the brace enclosure only) or 0 (rejected in the brace
// enclosure).
func (s c12Shell) batch(srcs []string) ([]byte, error) {
	var sb strings.Builder
	sb.WriteString(c12Driver)
	for i, src := range srcs {
		sb.WriteString("c ")
		sb.WriteString(oracle.ShQuote(src))
		sb.WriteByte('\n')
		if i%256 == 255 {
			sb.WriteString("echo \"$R\"; R=\n")
		}
	}
	sb.WriteString("echo \"$R\"\necho END\n")
	f, err := os.CreateTemp(s.dir, "drv-*.sh")
	if err != nil {
		return nil, err
	}
	defer os.Remove(f.Name())
	f.WriteString(sb.String())
	f.Close()
	cmd := exec.Command(s.name, f.Name())
	cmd.Env = []string{"LC_ALL=C.utf8", "PATH=/nonexistent", "HOME=/nonexistent"}
	cmd.Dir = s.dir
	var out bytes.Buffer
	cmd.Stdout = &out
	if err := cmd.Run(); err != nil {
		return nil, fmt.Errorf("%s driver: %v", s.name, err)
	}
	txt := out.String()
	if !strings.HasSuffix(txt, "END\n") {
		return nil, fmt.Errorf("%s driver did not reach END", s.name)
	}
	res := []byte(strings.ReplaceAll(strings.TrimSuffix(txt, "END\n"), "\n", ""))
	if len(res) != len(srcs) {
		return nil, fmt.Errorf("%s driver: %d verdicts for %d cases", s.name, len(res), len(srcs))
	}
	return res, nil
}

// rejectedAmong runs the real shell on the concatenation of the given
// programs (each followed by a newline) and bisects on rejection; it returns
// the indexes (into idx) of the programs the real shell rejects on their own.
// nproc counts the processes used.
func (s c12Shell) rejectedAmong(srcs []string, idx []int, nproc *int) []int {
	if len(idx) == 0 {
		return nil
	}
	if len(idx) == 1 {
		*nproc++
		ok, judged, _ := s.real(srcs[idx[0]])
		if judged && !ok {
			return idx
		}
		return nil
	}
	var sb strings.Builder
	for _, i := range idx {
		sb.WriteString(srcs[i])
		sb.WriteByte('\n')
	}
	*nproc++
	ok, judged, _ := s.real(sb.String())
	if judged && ok {
		return nil
	}
	h := len(idx) / 2
	return append(s.rejectedAmong(srcs, idx[:h], nproc), s.rejectedAmong(srcs, idx[h:], nproc)...)
}

func c12Hash(s string) uint32 {
	h := fnv.New32a()
	h.Write([]byte(s))
	return h.Sum32()
}

func c12Cleanup() {
	if c12Dir != "" && strings.HasPrefix(filepath.Base(c12Dir), "c12-") {
		os.RemoveAll(c12Dir)
	}
}
