package checks

import (
	"fmt"
	"os"
	"strings"

	"verif/mc/synt"
)

// Statement-pair family of C01 and C02 (round 3).
//
// The shared grammar explores one hole at a time, so two unrelated constructs
// in sequence only meet in a few depth-2 core contexts. A defect where printer
// state set by ONE statement leaks into a LATER statement of the same Print
// call (inLet, wroteSemi, wantSpace, pending comments / here-documents, line
// bookkeeping, indentation levels, nestedBinary) therefore needs its own
// family: every ordered pair (s1, s2) with s1 from a list of "state-setting"
// statements (one or more per printer mechanism) and s2 from a list of
// "state-sensitive" statements, joined by every joiner below, in every
// language variant in which the joint program parses.
//
// The file depends only on shared packages, so that it is available to both
// checks whichever of them is built.

// synPart is one statement of a pair: Head is the statement text, Body the
// here-document bodies that must follow the next newline after Head.
type synPart struct {
	Head, Body string
	Core       bool // member of the quick tier's core subset
	Amp        bool // Head ends in a terminator of its own (& |& &| &!): also joined by a plain space
}

const (
	synKindPair     = 4 // a statement pair
	synKindPairCore = 5 // a statement pair of the core subset (core x core)
	synKindPairCtx  = 6 // a statement pair inside a context template (smallest configuration set)
)

func sp(head string) synPart       { return synPart{Head: head} }
func spc(head string) synPart      { return synPart{Head: head, Core: true} }
func sph(head, body string) synPart { return synPart{Head: head, Body: body} }

// synPairFirst are the state-setting statements.
var synPairFirst = []synPart{
	// let clauses (inLet)
	spc("let i++"), sp("let n=1 m=2"), sp("let 'x = 1'"), sp("(let a)"), sp("let a || b"), {Head: "let a &", Amp: true},
	// here-documents, incl. <<-, several, quoted, and ones still pending at the end of the statement
	{Head: "a <<E", Body: "x\nE\n", Core: true}, {Head: "a <<-E", Body: "\tx\n\tE\n", Core: true}, sph("a <<E b <<F", "1\nE\n2\nF\n"), sph("a <<'E'", "$x\nE\n"),
	sph("a <<E | b", "x\nE\n"), sph("a <<E && b", "x\nE\n"), sp("echo $(a <<E\nx\nE\n)"), {Head: "{ a <<E; }", Body: "x\nE\n", Core: true}, sph("( a <<E )", "x\nE\n"),
	{Head: "a <<E &", Body: "x\nE\n", Amp: true}, sph("a <<E", "E\n"), sph("if a <<E; then b; fi", "x\nE\n"), sph("a <<-E", "\t$(b)\n\tE\n"), sph("f() { a <<E; }", "x\nE\n"),
	// statements ending in & |& &| &!, bare and as the last statement of a construct
	{Head: "a &", Core: true, Amp: true}, sp("a |& b"), {Head: "a |&", Amp: true}, {Head: "a &|", Amp: true}, {Head: "a &!", Amp: true}, {Head: "a && b &", Amp: true},
	spc("{ a & }"), sp("( a & )"), spc("echo $(a &)"), sp("echo `a &`"), spc("echo <(a &)"), sp("echo \"$(a &)\""), sp("a=$(b &)"),
	sp("if a; then b & fi"), sp("while a; do b & done"), sp("for i in $(a &) b; do c; done"), sp("case x in a) b & ;; esac"), sp("{ a |& }"), sp("( a &| )"), sp("f() { a & }"),
	// process substitutions as redirect targets / list words, with an inner terminator
	spc("a > >(b &)"), sp("a < <(b &)"), sp("a 2> >(b && c &)"), sp("a > >(b &|)"), sp("a > >(b)"), sp("{ a; } > >(b &)"), sp("while a; do b; done < <(c &)"),
	sp("select i in <(a &); do b; done"), sp("for i in <(a &); do b; done"), sp("a <(b &) >f"), sp("a=<(b &)"), sp(">(a &) b"),
	// case clauses with each terminator
	spc("case x in a) b ;; esac"), sp("case x in a) b ;& c) d ;;& *) e ;; esac"), sp("case x in a) b ;| c) d ;; esac"), sp("case x in esac"), sp("case x in a) ;; esac"),
	sp("case x in a) b ;; c) esac"), sp("case x in (a) b ;; esac"), sp("case x in a) b\nesac"), sp("case x { a) b ;; }"),
	// comments of each attachment kind
	spc("a # c"), spc("# c"), sp("a | # c\nb"), sp("a && # c\nb"), sp("{ # c\na; }"), sp("{ a # c\n}"), sp("if a # c\nthen b; fi"), sp("case x in # c\na) b ;; # d\nesac"), sp("case x in a) b ;;\n# c\nesac"),
	sp("a=( # c\n1 )"), spc("echo $(a # c\n)"), sp("echo `a # c`"), sp("echo `# c`"), sp("( # c\na )"), sp("# c1\n# c2"), sp("a # c1\n# c2"), sp("a \\\n# c\nb"), sp("f() { # c\na; }"), sp("a & # c"), sp("a; # c"),
	// backquotes
	spc("echo `a`"), sp("echo `a \\`b\\``"), sp("echo \"`a`\""), sp("echo `a; b`"), sp("echo `a <<E\nx\nE`"),
	// [[ ]], (( )), arithmetic expansions and slices
	spc("[[ a && b ]]"), sp("[[ a =~ (b|c) ]]"), sp("[[ ! a ]]"), sp("[[ a ||\nb ]]"), spc("((x++))"), sp("((x - -1))"), sp("(( x = (1) ))"), sp("echo $((x++))"), sp("echo $[x + 1]"),
	sp("for ((i = 0; i < 3; i++)); do a; done"), sp("echo ${s:a - --b}"), sp("echo ${s: -1}"), sp("echo ${a[x - -1]}"), sp("((x)) && a"),
	// arrays, declare clauses, test commands
	spc("a=(1 2)"), sp("a=([k]=v [j]=w)"), sp("a=(\n1\n2\n)"), sp("a[1 + 2]=x"), spc("declare -a a=(1 2)"), sp("export x=1"), sp("local x=$((1 - -1))"), sp("declare x"), sp("readonly x=(1)"),
	sp("[ a = b ]"), sp("test -n a"),
	// functions
	spc("f() { a; }"), sp("function f { a; }"), sp("f() ( a )"), sp("f() { a; } >f"), sp("f()\n{\na\n}"), sp("function f() ((1))"),
	// coproc, time, select, negation, lists and pipelines
	spc("coproc a"), sp("coproc n { a; }"), spc("time a"), sp("time -p a | b"), sp("time"), sp("select i in a b; do c; done"), sp("! a"), sp("a | b"), sp("a && b || c"), sp("a &&\nb"), sp("a |\nb"),
	sp("@test \"d\" { a; }"), sp("repeat 3 { a; }"), sp("for i (a b) { c; }"), sp("echo ${|a;}"), sp("echo ${ a;}"),
	// nested subshells and other parentheses
	spc("( (a) )"), sp("( (a); b )"), sp("echo $( (a) )"), sp("(a)"), sp("( ((1)) )"), sp("( (a) & )"), sp("echo <( (a) )"), sp("(\n(a)\n)"),
	// escaped newlines, multi-line words (line bookkeeping)
	spc("a \\\nb"), sp("a && \\\nb"), sp("a \\\n\tb \\\n\tc"), sp("a \\\n>f"), spc("echo 'a\nb'"), sp("echo \"a\nb\""), sp("echo \"a\\\nb\""), sp("echo $'a\nb'"),
	// plain commands, redirects, blocks, conditionals (indentation levels, wantSpace)
	spc("a"), sp("a=1"), sp(">f"), sp("a >f"), sp("{fd}>f a"), sp("a <<<w"), spc("{ a; }"), sp("{\na\n}"), spc("if a; then b; fi"), sp("if a; then b; else c; fi"), sp("while a; do b; done"), sp("until a; do b; done"),
	sp("for i in a; do b; done"), sp("echo ${x}y"), sp("echo \"${x}\""), sp("echo $(a)"), sp("echo $(a; b)"), sp("echo $(\na\n)"),
}

// synPairSecond are the state-sensitive statements.
var synPairSecond = func() []synPart {
	out := []synPart{
		// short-form hazards
		spc("echo ${x}y"), sp("echo ${x}1"), sp("echo \"${x}_\""), sp("echo ${x}[1]"), sp("echo ${#}a"), sp("a=${x}1"), sp("echo ${x}"),
		// statements needing separators / keywords / closers
		spc("a"), sp("a; b"), {Head: "a &", Amp: true}, spc("{ a; }"), sp("a | b"), sp("! a"), spc("if a; then b; fi"), sp("while a; do b; done"), sp("for i in a; do b; done"), sp("for i; do b; done"),
		spc("case x in a) b ;; esac"), sp("case x in a) ;; esac"), spc("f() { a; }"), sp("function f { a; }"), sp("f() ( a )"), sp("a && b"), sp("a || b"), sp("a=1"), sp("a=1 b"), sp(">f"), sp("a >f"), sp("a > >(b &)"),
		spc("[[ a ]]"), sp("[[ ! a ]]"), sp("[[ a =~ (b) ]]"), sp("[ a ]"), spc("let i++"), sp("let a=-1"), sp("let 'a - -b'"), sp("time a"), sp("time"), sp("time -p a"), sp("coproc a"), sp("coproc n { a; }"), sp("select i in a; do b; done"),
		sp("@test \"d\" { a; }"), sp("a |& b"), {Head: "a |&", Amp: true}, {Head: "a &|", Amp: true}, {Head: "a &!", Amp: true}, sp("declare -a a=(1 2)"), sp("export x=1"), sp("{ a & }"), sp("echo $(a &)"),
		sp("repeat 3 { a; }"), sp("for i (a b) { c; }"),
		// "( (" openers and other parentheses
		spc("( (a) )"), sp("( (a); b )"), spc("((1))"), sp("( ((1)) )"), spc("echo $( (a) )"), spc("(a)"), sp("echo $(a)"), sp("echo <( (a) )"), sp("(a) | (b)"), sp("( a; (b) )"), sp("for ((;;)); do a; done"),
		// here-documents
		{Head: "a <<E", Body: "x\nE\n", Core: true}, sph("a <<-E", "\tx\n\tE\n"), sph("a <<E && b", "x\nE\n"), sp("{ a <<E\nx\nE\n}"), sp("echo $(a <<E\nx\nE\n)"), sph("a <<E b <<F", "1\nE\n2\nF\n"), sph("{ a <<E; }", "x\nE\n"),
		// comments
		spc("# c"), spc("a # c"), sp("a | # c\nb"), sp("# c1\n# c2"), sp("\n# c"), sp("{ # c\na; }"), sp("echo `# c`"), sp("echo $(a # c\n)"), sp("a=( # c\n1 )"), sp("case x in # c\na) b ;; esac"), sp("if a; then # c\nb; fi"),
		// backquotes, escaped newlines, multi-line words, arrays
		sp("echo `a`"), sp("echo `a &`"), spc("a \\\nb"), sp("a \\\n&& b"), sp("a &&\nb"), sp("a |\nb"), spc("echo 'a\nb'"), sp("echo \"a\nb\""), sp("a=(1 2)"), sp("a=(\n1 # c\n2\n)"), sp("a[x - -1]=2"), sp("echo \"a b\""),
	}
	// compact arithmetic with adjacent signs: every context x every expression
	ctxs := []struct {
		pre, post string
		core      bool
	}{{"echo ${s:", "}", true}, {"echo $((", "))", true}, {"((", "))", true}, {"echo ${s:1:", "}", false}, {"echo ${a[", "]}", false}, {"echo $[", "]", false}}
	exprs := []struct {
		e    string
		core bool
	}{{"a - --b", true}, {"a - -b", true}, {"a + ++b", false}, {"a + +b", false}, {"- -a", true}, {"+ +a", false}, {"- --a", false}, {"+ ++a", false}, {"a-- - b", false}, {"a++ + b", false}, {"a - -1", true}, {"a - !b", false}}
	for _, cx := range ctxs {
		for _, e := range exprs {
			out = append(out, synPart{Head: cx.pre + e.e + cx.post, Core: cx.core && e.core})
		}
	}
	return out
}()

// synPairJoiners place the two statements at the top level: newline, "; ",
// blank line; a plain space only after a first statement that carries its own
// terminator. In a template \u00b9 and \u00b2 stand for the two heads and \u21b5 for a
// newline; the here-document bodies of the heads seen so far are written after
// each newline (and at the end).
var synPairJoiners = []string{"\u00b9\u21b5\u00b2", "\u00b9; \u00b2", "\u00b9\u21b5\u21b5\u00b2", "\u00b9 \u00b2"}

// synPairContexts place the pair inside a construct, so that what FOLLOWS
// each statement (a closing brace, parenthesis or keyword, an operator, a
// case terminator) varies as well. The last three are for a first statement
// with its own terminator.
var synPairContexts = []string{
	"{ \u00b9; \u00b2; }", "{\u21b5\u00b9\u21b5\u00b2\u21b5}", "( \u00b9; \u00b2 )", "(\u21b5\u00b9\u21b5\u00b2\u21b5)", "echo $(\u00b9; \u00b2)", "echo $(\u21b5\u00b9\u21b5\u00b2\u21b5)", "echo `\u00b9; \u00b2`",
	"f() { \u00b9; \u00b2; }", "if \u00b9; then \u00b2; fi", "if a; then \u00b9; \u00b2; fi", "if a; then \u00b9; else \u00b2; fi", "while \u00b9; do \u00b2; done", "for i in a; do \u00b9; \u00b2; done",
	"case x in a) \u00b9; \u00b2 ;; esac", "case x in a) \u00b9 ;; b) \u00b2 ;; esac", "\u00b9 && \u00b2", "\u00b9 | \u00b2", "\u00b9 ||\u21b5\u00b2", "{ \u00b9; } && \u00b2", "\u00b9; \u00b2; a", "a; \u00b9; \u00b2 &",
	"{ \u00b9 \u00b2; }", "( \u00b9 \u00b2 )", "if a; then \u00b9 \u00b2; fi",
}

// synAmpOnly reports whether the template joins the heads by a plain space.
func synAmpOnly(t string) bool { return strings.Contains(t, "\u00b9 \u00b2") }

func synJoin(a, b synPart, tmpl string) string {
	var sb strings.Builder
	pending := ""
	for _, r := range tmpl {
		switch r {
		case '\u00b9':
			sb.WriteString(a.Head)
			pending += a.Body
		case '\u00b2':
			sb.WriteString(b.Head)
			pending += b.Body
		case '\u21b5':
			sb.WriteByte('\n')
			sb.WriteString(pending)
			pending = ""
		default:
			sb.WriteRune(r)
		}
	}
	if pending != "" {
		sb.WriteByte('\n')
		sb.WriteString(pending)
	}
	return sb.String()
}

// synPairSignAtoms are single-statement programs with adjacent signs in
// arithmetic, for the extra-program lists of both checks: every binary +/-
// followed by a prefix operator, every pair of prefix operators, and postfix
// followed by binary, in every arithmetic context.
func synPairSignAtoms() []string {
	var exprs []string
	for _, bin := range []string{"+", "-"} {
		for _, un := range []string{"+", "-", "++", "--", "!", "~"} {
			exprs = append(exprs, "x "+bin+" "+un+"y")
		}
		for _, post := range []string{"++", "--"} {
			exprs = append(exprs, "x"+post+" "+bin+" 1", "x"+post+" "+bin+" y")
		}
	}
	for _, u1 := range []string{"+", "-", "!", "~"} {
		for _, u2 := range []string{"+", "-", "++", "--"} {
			exprs = append(exprs, u1+" "+u2+"x")
		}
	}
	exprs = append(exprs, "x - -1", "x - - -1", "x = - -1", "(x) - -y", "x ? - -y : + +z", "x, - -y", "x * -y", "x - -y - -z")
	ctxs := [][2]string{{"echo $((", "))"}, {"((", "))"}, {"echo ${s:", "}"}, {"echo ${s:1:", "}"}, {"echo ${a[", "]}"}, {"a[", "]=1"}, {"echo $[", "]"}, {"let '", "'"}, {"for ((", ";;)); do a; done"}, {"echo \"$((", "))\""}}
	var out []string
	for _, cx := range ctxs {
		for _, e := range exprs {
			out = append(out, cx[0]+e+cx[1])
		}
	}
	return out
}

// genSynPairs emits the pair family: each part alone with kind 1 (so that it
// gets the treatment of a shallow program), core x core pairs as
// synKindPairCore with every joiner in every variant, and all other pairs as
// synKindPair. When quick is set, a non-core pair is joined by newline and
// "; " (and a space after a terminator) only and is taken in ONE variant: the
// first of bash, zsh, mksh, bats, posix in which it parses. The caller maps
// kinds to configuration sets.
func genSynPairs(quick bool, emit func(synCase)) {
	seen := map[string]bool{}
	one := func(src string, kind int, firstOnly bool) {
		if seen[src] {
			return
		}
		seen[src] = true
		if firstOnly {
			for _, name := range []string{"bash", "zsh", "mksh", "bats", "posix"} {
				if _, err := synt.Parse(src, synt.LangByName(name)); err == nil {
					emit(synCase{Src: src, Variant: name, Kind: kind})
					return
				}
			}
			emit(synCase{Src: src, Variant: "bash", Kind: kind}) // counted as not parsing
			return
		}
		for _, v := range synt.Variants {
			emit(synCase{Src: src, Variant: v.Name, Kind: kind})
		}
	}
	only := os.Getenv("VERIF_PAIRS_FIRST") // development aid: restrict s1 to one head
	for _, l := range [][]synPart{synPairFirst, synPairSecond} {
		for _, p := range l {
			s := p.Head
			if p.Body != "" {
				s += "\n" + p.Body
			}
			one(s, 1, false)
		}
	}
	// core x core first, so that they get the larger configuration set
	for pass := 0; pass < 2; pass++ {
		for _, a := range synPairFirst {
			if only != "" && a.Head != only {
				continue
			}
			for _, b := range synPairSecond {
				core := a.Core && b.Core
				if core != (pass == 0) {
					continue
				}
				kind := synKindPair
				if core {
					kind = synKindPairCore
				}
				for ji, j := range synPairJoiners {
					if synAmpOnly(j) && !a.Amp || ji == 2 && quick && !core {
						continue
					}
					one(synJoin(a, b, j), kind, quick && !core)
				}
				// inside the context templates: quick core x core only; thorough
				// also the pairs with one core member. One variant, smallest
				// configuration set, except thorough core x core.
				if !core && (quick || !a.Core && !b.Core) {
					continue
				}
				for _, t := range synPairContexts {
					if synAmpOnly(t) && !a.Amp {
						continue
					}
					if core && !quick {
						one(synJoin(a, b, t), synKindPair, false)
					} else {
						one(synJoin(a, b, t), synKindPairCtx, true)
					}
				}
			}
		}
	}
}

// synPairCounts returns the sizes of the family for the rule text.
func synPairCounts() (first, second, coreFirst, coreSecond int) {
	for _, p := range synPairFirst {
		if p.Core {
			coreFirst++
		}
	}
	for _, p := range synPairSecond {
		if p.Core {
			coreSecond++
		}
	}
	return len(synPairFirst), len(synPairSecond), coreFirst, coreSecond
}

// synPairRule describes the family for the evidence rule text.
func synPairRule(quick bool, nFull, nReduced, nSmall int) string {
	f, s, cf, cs := synPairCounts()
	if quick {
		return fmt.Sprintf("statement-pair family (c01c02_pairs.go): every ordered pair (s1, s2) of %d state-setting x %d state-sensitive statements; the %d x %d core pairs joined by newline, \"; \", a blank line (and a space after a statement ending in & |& &| &!) in every variant under %d configurations, all other pairs joined by newline and \"; \" (and the space) in the first of bash/zsh/mksh/bats/posix in which they parse under default, Minify and SingleLine (%d configurations); the core pairs also inside %d context templates (blocks, subshells, command substitutions, function/if/while/for/case bodies and conditions, && | || lists, between other statements), first parsing variant, same %d configurations; each statement also alone as a shallow program", f, s, cf, cs, nReduced, nSmall, len(synPairContexts), nSmall)
	}
	return fmt.Sprintf("statement-pair family (c01c02_pairs.go): every ordered pair (s1, s2) of %d state-setting x %d state-sensitive statements joined by newline, \"; \", a blank line (and a space after a statement ending in & |& &| &!), in every variant in which the pair parses; the %d x %d core pairs under all %d configurations, the other pairs under %d representative ones; inside %d context templates (blocks, subshells, command substitutions, function/if/while/for/case bodies and conditions, && | || lists, between other statements): the core pairs in every variant under the %d configurations, the pairs with one core member in the first of bash/zsh/mksh/bats/posix in which they parse under default, Minify, SingleLine; each statement also alone as a shallow program", f, s, cf, cs, nFull, nReduced, len(synPairContexts), nReduced)
}
