package checks

import (
	"bytes"
	"context"
	"fmt"
	"os"
	"strconv"
	"strings"
	"time"

	"mvdan.cc/sh/v3/expand"
	"mvdan.cc/sh/v3/interp"
	"mvdan.cc/sh/v3/syntax"

	"verif/mc/oracle"
)

// Execution contexts of a history op1..opn:
//
//	top    op1..opn at top level, then the observations
//	func   a=(G H) at top level; f() { local a=(); op1..opn; observations; }; f;
//	       observations again (the global must still be (G H))
//	gfunc  op1..op(n-1) at top level; f() { opn; observations; }; f;
//	       observations again (the function changed the global)
//	sub    op1..op(n-1) at top level; ( opn; observations ); observations
//	       again (the parent must be as before opn)
//	neglen like top, observing only the slices with a negative length
//	isset  like top, observing only [[ -v a[i] ]]
//	keys   like top, observing only "${!a[@]}"
//	local  (no operations) a=(G H); f() { local a; observations; }; f
var c33Ctxs = []string{"top", "func", "gfunc", "sub"}

// c33StateCtxs are run once per discovered state (on the history that
// represents it) rather than once per transition.
var c33StateCtxs = []string{"neglen", "isset", "keys"}

// c33Initial is the variable before the first operation: unset, except in
// the context func where the function starts with `local a=()`.
func c33Initial(ctx string) c33State {
	if ctx == "func" {
		return c33State{Kind: c33Array, M: map[int]string{}}
	}
	return c33State{}
}

var c33Global = c33State{Kind: c33Array, M: map[int]string{0: "G", 1: "H"}}

// c33Expect is the model's token list for a case: one "s0"/"s1" per
// operation, then one token per observation item, for each observation point.
func c33Expect(ops []c33Op, ctx string) (tokens []string, pts []c33State) {
	return c33ExpectWith(ops, ctx, 0)
}

// c33ExpectWith is c33Expect for the model with the given known defects of
// the interpreter switched on (see c33BugApply); 0 is the reference model.
func c33ExpectWith(ops []c33Op, ctx string, bugs int) (tokens []string, pts []c33State) {
	st := c33Initial(ctx)
	var before c33State
	for i, op := range ops {
		if i == len(ops)-1 {
			before = st
		}
		var failed bool
		st, failed = c33BugApply(st, op, bugs)
		if failed {
			tokens = append(tokens, "s1")
		} else {
			tokens = append(tokens, "s0")
		}
	}
	pts = []c33State{st}
	switch ctx {
	case "func":
		pts = append(pts, c33Global)
	case "gfunc":
		if ops[len(ops)-1].K == "declare" && bugs&c33BugLocal != 0 {
			pts = []c33State{before, before}
		} else if ops[len(ops)-1].K == "declare" {
			// declare inside a function makes a new local variable
			pts = []c33State{{Kind: c33Declared}, before}
		} else {
			pts = append(pts, st)
		}
	case "sub":
		pts = append(pts, before)
	}
	items := c33ItemsFor(ctx)
	for _, p := range pts {
		tokens = append(tokens, p.observe(items, ctx)...)
	}
	return tokens, pts
}

// c33Desc names token position i of a case, for messages and classes.
func c33Desc(ctx string, nops int, i int) (kind string, obs int, item *c33Item) {
	if i < nops {
		return "status", 0, nil
	}
	i -= nops
	items := c33ItemsFor(ctx)
	it := &items[i%len(items)]
	return it.Kind, 1 + i/len(items), it
}

const c33Mark = "\x1e"

// c33ShScript is the program run by the interpreter: every step is preceded
// by a marker on both stdout and stderr so that output and diagnostics can be
// attributed to the step.
func c33ShScript(ops []c33Op, ctx string, pts []c33State) string {
	var sb strings.Builder
	sb.WriteString("m() { printf '\\036'; printf '\\036' >&2; }\n")
	sb.WriteString("o() { printf '%s' \"$#\"; for x; do printf '<%s>' \"$x\"; done; }\n")
	opStep := func(op c33Op) {
		sb.WriteString("m; " + op.Text + "\nprintf 's%s' $(($? != 0))\n")
	}
	pt := 0
	obs := func() {
		st := pts[pt]
		pt++
		for _, it := range c33ItemsFor(ctx) {
			if st.skipItem(it, ctx) {
				sb.WriteString("m; printf '~'\n")
			} else if it.Kind == "isset" {
				sb.WriteString("m; [[ -v " + it.Word + " ]]; printf '%s' $?\n")
			} else {
				sb.WriteString("m; o " + it.Word + "\n")
			}
		}
	}
	n := len(ops)
	switch ctx {
	case "top", "neglen", "isset", "keys":
		for _, op := range ops {
			opStep(op)
		}
		obs()
	case "local":
		sb.WriteString("a=(G H)\nf() {\nlocal a\n")
		obs()
		sb.WriteString("}\nf\n")
	case "func":
		sb.WriteString("a=(G H)\nf() {\nlocal a=()\n")
		for _, op := range ops {
			opStep(op)
		}
		obs()
		sb.WriteString("}\nf\n")
		obs()
	case "gfunc":
		for _, op := range ops[:n-1] {
			opStep(op)
		}
		sb.WriteString("f() {\n")
		opStep(ops[n-1])
		obs()
		sb.WriteString("}\nf\n")
		obs()
	case "sub":
		for _, op := range ops[:n-1] {
			opStep(op)
		}
		sb.WriteString("(\n")
		opStep(ops[n-1])
		obs()
		sb.WriteString(")\n")
		obs()
	}
	return sb.String()
}

type c33ShResult struct {
	Tokens []string
	Rep    string // representation of Runner.Vars["a"] after the run
	RepErr string // violated invariant of the representation, if any
	Fatal  string
}

// c33RunSh runs the case on a fresh Runner.
func c33RunSh(ops []c33Op, ctx string, pts []c33State, nsteps int) (res c33ShResult) {
	defer func() {
		if r := recover(); r != nil {
			res.Fatal = fmt.Sprintf("panic: %v", r)
		}
	}()
	src := c33ShScript(ops, ctx, pts)
	f, err := syntax.NewParser(syntax.Variant(syntax.LangBash)).Parse(strings.NewReader(src), "")
	if err != nil {
		res.Fatal = "parse: " + err.Error()
		return res
	}
	var out, errb bytes.Buffer
	r, err := interp.New(interp.Env(expand.ListEnviron()), interp.StdIO(strings.NewReader(""), &out, &errb))
	if err != nil {
		res.Fatal = "interp.New: " + err.Error()
		return res
	}
	cctx, cancel := context.WithTimeout(context.Background(), 20*time.Second)
	defer cancel()
	if err := r.Run(cctx, f); err != nil {
		if _, ok := interp.IsExitStatus(err); !ok {
			res.Fatal = err.Error()
		}
	}
	outs := strings.Split(out.String(), c33Mark)
	errs := strings.Split(errb.String(), c33Mark)
	nops := len(ops)
	for i := 0; i < nsteps; i++ {
		if i+1 >= len(outs) || i+1 >= len(errs) {
			res.Tokens = append(res.Tokens, "X") // the shell stopped before this step
			continue
		}
		o, e := outs[i+1], errs[i+1]
		kind, _, _ := c33Desc(ctx, nops, i)
		if kind != "status" && kind != "isset" && e != "" {
			res.Tokens = append(res.Tokens, c33Err)
			continue
		}
		res.Tokens = append(res.Tokens, o)
	}
	if vr, ok := r.Vars["a"]; ok {
		res.Rep = fmt.Sprintf("set=%v kind=%d len=%d listnil=%v spare=%v idx=%v idxnil=%v", vr.Set, vr.Kind, len(vr.List), vr.List == nil, cap(vr.List) > len(vr.List), vr.Indexes, vr.Indexes == nil)
		if vr.Kind == expand.Indexed && vr.Indexes != nil {
			if len(vr.Indexes) != len(vr.List) {
				res.RepErr = fmt.Sprintf("len(Indexes)=%d but len(List)=%d", len(vr.Indexes), len(vr.List))
			}
			for i, k := range vr.Indexes {
				if k < 0 || (i > 0 && k <= vr.Indexes[i-1]) {
					res.RepErr = fmt.Sprintf("Indexes %v is not non-negative and strictly increasing", vr.Indexes)
				}
			}
		}
	} else {
		res.Rep = "absent"
	}
	return res
}

// c33BashCase is one case for the bash batch.
type c33BashCase struct {
	Ops  []c33Op
	Ctx  string
	Want []string
}

// c33Bash runs the cases in one bash process at the real top level of a
// script (no enclosing function, so `declare` and `local` mean what they mean
// in a program) and returns, for the cases whose tokens differ from Want,
// bash's tokens.
func c33Bash(cases []c33BashCase) (map[int][]string, error) {
	ef, err := os.CreateTemp("", "c33-err-*")
	if err != nil {
		return nil, err
	}
	ef.Close()
	defer os.Remove(ef.Name())
	var sb strings.Builder
	sb.WriteString("E=" + oracle.ShQuote(ef.Name()) + "\n")
	// stderr goes to the file for the whole script (one redirection instead
	// of one per step); a step printed a diagnostic iff the file is non-empty
	sb.WriteString(`exec 2>>"$E"
__clr() { [[ -s $E ]] && : >"$E"; }
__it() { eval "set -- $1"; if [[ -s $E ]]; then R+="E;"; : >"$E"; else R+=$#; local __x; for __x; do R+="<$__x>"; done; R+=";"; fi; }
__r() { R+=$#; local __x; for __x; do R+="<$__x>"; done; R+=";"; }
__v() { eval "[[ -v $1 ]]"; R+="$?;"; __clr; }
__chk() { [[ $R == "$2" ]] || printf 'D %s %q\n' "$1" "$R"; }
`)
	for _, set := range []string{"top", "neglen", "isset", "keys"} {
		sb.WriteString("__obs_" + set + "() {\n")
		for _, it := range c33ItemsFor(set) {
			switch {
			case it.Kind == "isset":
				sb.WriteString("__v " + oracle.ShQuote(it.Word) + "\n")
			case (it.Kind == "elem" || it.Kind == "elemlen") && it.I < 0, it.Kind == "slice" && it.L < 0:
				// bash can print a diagnostic (or abort the command) here:
				// evaluated on its own, stderr checked
				sb.WriteString("__it " + oracle.ShQuote(it.Word) + "\n")
			default:
				// no diagnostic expected: expanded directly; a diagnostic
				// from any of these is noticed at the end of the function
				sb.WriteString("__r " + it.Word + "\n")
			}
		}
		sb.WriteString("if [[ -s $E ]]; then R+=\"!unexpected-stderr;\"; : >\"$E\"; fi\n}\n")
	}
	opStep := func(op c33Op) {
		sb.WriteString("eval " + oracle.ShQuote(op.Text) + "; R+=\"s$(($?!=0));\"; __clr\n")
	}
	for i, cs := range cases {
		n := len(cs.Ops)
		sb.WriteString("unset a b; unset -f f; R=\n")
		switch cs.Ctx {
		case "local":
			sb.WriteString("a=(G H)\nf() {\nlocal a\n__obs_top\n}\nf\n")
		case "top", "neglen", "isset", "keys":
			for _, op := range cs.Ops {
				opStep(op)
			}
			sb.WriteString("__obs_" + cs.Ctx + "\n")
		case "func":
			sb.WriteString("a=(G H)\nf() {\nlocal a=()\n")
			for _, op := range cs.Ops {
				opStep(op)
			}
			sb.WriteString("__obs_top\n}\nf\n__obs_top\n")
		case "gfunc":
			for _, op := range cs.Ops[:n-1] {
				opStep(op)
			}
			sb.WriteString("f() {\n")
			opStep(cs.Ops[n-1])
			sb.WriteString("__obs_top\n}\nf\n__obs_top\n")
		default:
			return nil, fmt.Errorf("context %q is not run in bash", cs.Ctx)
		}
		fmt.Fprintf(&sb, "__chk %d %s\n", i, oracle.ShQuote(strings.Join(cs.Want, ";")+";"))
	}
	sb.WriteString("echo END\n")
	if p := os.Getenv("VERIF_C33_KEEP"); p != "" { // development aid
		os.WriteFile(p, []byte(sb.String()), 0o644)
	}
	out, _, err := oracle.ShellFile("bash", sb.String(), "")
	if err != nil {
		return nil, err
	}
	lines := strings.Split(strings.TrimSuffix(string(out), "\n"), "\n")
	if len(lines) == 0 || lines[len(lines)-1] != "END" {
		return nil, fmt.Errorf("bash batch did not reach END (last line %q)", lines[len(lines)-1])
	}
	diffs := map[int][]string{}
	for _, ln := range lines[:len(lines)-1] {
		f := strings.SplitN(ln, " ", 3)
		if len(f) != 3 || f[0] != "D" {
			return nil, fmt.Errorf("unexpected bash output %q", ln)
		}
		idx, err := strconv.Atoi(f[1])
		if err != nil {
			return nil, fmt.Errorf("unexpected bash output %q", ln)
		}
		got, err := oracle.UnquoteBashQ(f[2])
		if err != nil {
			return nil, fmt.Errorf("cannot unquote %q: %v", f[2], err)
		}
		toks := strings.Split(strings.TrimSuffix(got, ";"), ";")
		if p, _, _ := c33FirstDiff(cases[idx].Want, toks); p >= 0 {
			diffs[idx] = toks
		}
	}
	return diffs, nil
}
