package checks

// C28 parent side: a pool of child processes that execute the cases.

import (
	"bufio"
	"encoding/json"
	"fmt"
	"os"
	"os/exec"
	"path/filepath"
	"strings"
	"sync"
	"sync/atomic"
	"time"
)

type c28Proc struct {
	cmd     *exec.Cmd
	in      *bufio.Writer
	out     *bufio.Reader
	dir     string
	errPath string
	closeFn func()
}

type c28Pool struct {
	mu    sync.Mutex
	free  []*c28Proc
	root  string
	seq   atomic.Int64
	spawn atomic.Int64
}

var c28ThePool = &c28Pool{}

func (p *c28Pool) rootDir() string {
	p.mu.Lock()
	defer p.mu.Unlock()
	if p.root == "" {
		d, err := os.MkdirTemp("", "c28-")
		if err != nil {
			fmt.Fprintln(os.Stderr, "c28: cannot create scratch dir:", err)
			os.Exit(2)
		}
		p.root = d
	}
	return p.root
}

func (p *c28Pool) get() *c28Proc {
	p.mu.Lock()
	if n := len(p.free); n > 0 {
		pr := p.free[n-1]
		p.free = p.free[:n-1]
		p.mu.Unlock()
		return pr
	}
	p.mu.Unlock()
	root := p.rootDir()
	dir := filepath.Join(root, fmt.Sprintf("w%d", p.seq.Add(1)))
	os.MkdirAll(dir, 0o755)
	exe, err := os.Executable()
	if err != nil {
		fmt.Fprintln(os.Stderr, "c28: os.Executable:", err)
		os.Exit(2)
	}
	cmd := exec.Command(exe)
	cmd.Env = append(os.Environ(), "VERIF_C28_CHILD=1", "VERIF_C28_DIR="+dir, "GOTRACEBACK=all", "GOMAXPROCS=2")
	cmd.Dir = dir
	errPath := filepath.Join(dir, "stderr.log")
	ef, err := os.Create(errPath)
	if err != nil {
		fmt.Fprintln(os.Stderr, "c28:", err)
		os.Exit(2)
	}
	cmd.Stderr = ef
	inw, err1 := cmd.StdinPipe()
	outr, err2 := cmd.StdoutPipe()
	if err1 != nil || err2 != nil {
		fmt.Fprintln(os.Stderr, "c28: pipes:", err1, err2)
		os.Exit(2)
	}
	if err := cmd.Start(); err != nil {
		fmt.Fprintln(os.Stderr, "c28: cannot start child:", err)
		os.Exit(2)
	}
	ef.Close()
	p.spawn.Add(1)
	pr := &c28Proc{cmd: cmd, in: bufio.NewWriterSize(inw, 1<<16), out: bufio.NewReaderSize(outr, 1<<16), dir: dir, errPath: errPath,
		closeFn: func() { inw.Close() }}
	// handshake: the start of the process (slow on a loaded machine) must not
	// count against the watchdog of the first case
	pr.in.WriteString("{\"part\":\"ping\"}\n")
	if err := pr.in.Flush(); err == nil {
		if _, err := pr.out.ReadBytes('\n'); err != nil {
			log, _ := os.ReadFile(errPath)
			fmt.Fprintf(os.Stderr, "c28: child did not start: %v\n%s\n", err, log)
			os.Exit(2)
		}
	}
	return pr
}

func (p *c28Pool) put(pr *c28Proc) {
	p.mu.Lock()
	p.free = append(p.free, pr)
	p.mu.Unlock()
}

func (pr *c28Proc) kill() {
	pr.closeFn()
	pr.cmd.Process.Kill()
	pr.cmd.Wait()
	os.RemoveAll(pr.dir)
}

// shutdown ends all idle children and removes the scratch directory.
func (p *c28Pool) shutdown() {
	p.mu.Lock()
	free := p.free
	p.free = nil
	root := p.root
	p.mu.Unlock()
	for _, pr := range free {
		pr.kill()
	}
	if root != "" {
		os.RemoveAll(root)
	}
}

// exec runs one case in a child and returns its reply. If the child dies, the
// reply carries the first line of the Go runtime's crash report.
func (p *c28Pool) exec(cs c28Case) c28Reply {
	data, err := json.Marshal(cs)
	if err != nil {
		panic(err)
	}
	pr := p.get()
	var hung atomic.Bool
	// a run is cancelled after WallMS; a worker that has not answered long
	// after that is stuck in a call that ignores the context
	watchdog := 90 * time.Second
	if cs.WallMS > 0 {
		watchdog = 6*time.Second + 3*time.Duration(cs.WallMS)*time.Millisecond
	}
	if s := os.Getenv("VERIF_C28_WATCHDOG_S"); s != "" {
		var n int
		fmt.Sscan(s, &n)
		watchdog = time.Duration(n) * time.Second
	}
	timer := time.AfterFunc(watchdog, func() {
		hung.Store(true)
		pr.cmd.Process.Kill()
	})
	pr.in.Write(data)
	pr.in.WriteByte('\n')
	werr := pr.in.Flush()
	var line []byte
	var rerr error
	if werr == nil {
		line, rerr = pr.out.ReadBytes('\n')
	}
	timer.Stop()
	var rep c28Reply
	if werr == nil && rerr == nil {
		if err := json.Unmarshal(line, &rep); err == nil {
			if rep.Linger {
				pr.kill()
			} else {
				p.put(pr)
			}
			return rep
		}
	}
	// the child died (or was killed by the watchdog)
	pr.closeFn()
	pr.cmd.Wait()
	log, _ := os.ReadFile(pr.errPath)
	os.RemoveAll(pr.dir)
	if hung.Load() {
		return c28Reply{Hang: true}
	}
	if strings.Contains(string(log), "c28 child:") {
		fmt.Fprintf(os.Stderr, "C28 harness failure: %s\n", log)
		os.Exit(2)
	}
	rep = c28Reply{}
	rep.Crash, rep.Frame, rep.Stack = c28ParseCrash(string(log))
	return rep
}

// c28ParseCrash extracts the message, the innermost mvdan.cc/sh frame of the
// crashing goroutine and a shortened trace from a Go crash report.
func c28ParseCrash(log string) (msg, frame, stack string) {
	lines := strings.Split(log, "\n")
	start := -1
	for i, l := range lines {
		if strings.HasPrefix(l, "panic: ") || strings.HasPrefix(l, "fatal error: ") {
			start = i
			break
		}
	}
	if start < 0 {
		if len(log) > 2000 {
			log = log[len(log)-2000:]
		}
		return "child died without a Go crash report", "", log
	}
	msg = c28AddrRe.ReplaceAllString(lines[start], "0x?")
	msg = strings.TrimSuffix(msg, " [recovered]")
	if len(msg) > 220 {
		msg = msg[:220]
	}
	// the first goroutine block after the message is the crashing one
	var blk []string
	in := false
	for _, l := range lines[start+1:] {
		if strings.HasPrefix(l, "goroutine ") {
			if in {
				break
			}
			in = true
			continue
		}
		if in {
			if l == "" {
				break
			}
			blk = append(blk, l)
		}
	}
	frame = c28Frame(strings.Join(blk, "\n"))
	stack = strings.Join(lines[start:], "\n")
	if len(stack) > 6000 {
		stack = stack[:6000]
	}
	return msg, frame, stack
}
