package checks

import (
	"fmt"
	"strings"

	"verif/mc/enum"
)

// The C21 space: (state, target, operator, quoted).
//
// A state assigns the variable the case is about (x: scalar, a: indexed
// array, A: associative array, or the positional parameters); every other
// variable of the fixed environment (c21Reset) is the same in all states.
// A target is the parameter text inside ${...}: a name, a name with a
// subscript, or a special parameter. An operator is the text before
// (Pre: "", "#", "!") and after (Op) the target.

type c21State struct {
	ID      string
	Kind    string // scalar | indexed | assoc | pos
	Setup   string // shell text, same for both shells
	Scalar  *string
	List    []string // indexed elements, or positional parameters
	Indexes []int    // sparse indexed
	Map     map[string]string
}

func c21Str(s string) *string { return &s }

var c21States = []c21State{
	{ID: "x:unset", Kind: "scalar", Setup: ""},
	{ID: "x:empty", Kind: "scalar", Setup: "x=''", Scalar: c21Str("")},
	{ID: "x:abc", Kind: "scalar", Setup: "x=abc", Scalar: c21Str("abc")},
	{ID: "x:a b", Kind: "scalar", Setup: "x='a b'", Scalar: c21Str("a b")},
	{ID: "x:a*b", Kind: "scalar", Setup: "x='a*b'", Scalar: c21Str("a*b")},
	{ID: "x: a ", Kind: "scalar", Setup: "x=' a '", Scalar: c21Str(" a ")},
	{ID: "x:aXbXc", Kind: "scalar", Setup: "x=aXbXc", Scalar: c21Str("aXbXc")},
	{ID: "x:é", Kind: "scalar", Setup: "x=é", Scalar: c21Str("é")},
	{ID: "x:-n", Kind: "scalar", Setup: "x=-n", Scalar: c21Str("-n")},
	{ID: "x:a/b/c", Kind: "scalar", Setup: "x=a/b/c", Scalar: c21Str("a/b/c")},
	{ID: "x:AbC", Kind: "scalar", Setup: "x=AbC", Scalar: c21Str("AbC")},

	{ID: "a:dense", Kind: "indexed", Setup: "a=(ab 'a b' bXa)", List: []string{"ab", "a b", "bXa"}},
	{ID: "a:sparse", Kind: "indexed", Setup: "a=([2]=ab [5]='b a')", List: []string{"ab", "b a"}, Indexes: []int{2, 5}},
	{ID: "a:withempty", Kind: "indexed", Setup: "a=(a '' 'b*')", List: []string{"a", "", "b*"}},
	{ID: "a:none", Kind: "indexed", Setup: "a=()", List: []string{}},

	{ID: "A:one", Kind: "assoc", Setup: "declare -A A=([k]='a b')", Map: map[string]string{"k": "a b"}},
	{ID: "A:two", Kind: "assoc", Setup: "declare -A A=([k]=ab [j]='b a')", Map: map[string]string{"k": "ab", "j": "b a"}},

	{ID: "@:none", Kind: "pos", Setup: "set --", List: []string{}},
	{ID: "@:a", Kind: "pos", Setup: "set -- a", List: []string{"a"}},
	{ID: "@:ab,bXa", Kind: "pos", Setup: "set -- ab bXa", List: []string{"ab", "bXa"}},
	{ID: "@:a b,c", Kind: "pos", Setup: "set -- 'a b' c", List: []string{"a b", "c"}},
}

var c21StateByID = func() map[string]*c21State {
	m := map[string]*c21State{}
	for i := range c21States {
		m[c21States[i].ID] = &c21States[i]
	}
	return m
}()

// c21Reset is evaluated before the state's Setup in both shells: the fixed
// part of the environment. The y* variables are the names used by the
// indirection forms; nothing else has a name starting with x, y or zz.
const c21Reset = `unset x a A nonexistent; set --; y=x; yu=nonexistent; ye=; ya='a[1]'; yat='a[@]'; y0=a; yA='A[k]'; yAt='A[@]'; yp=1; yq=@; w='?'`

// c21WordVar is the variable the argument words (c21ArgWords) expand: its
// value is one pattern character, so that the same words can be used as
// replacement, default and pattern words (as a pattern $w matches any one
// character, "$w" only a literal question mark).
var c21WordVar = [2]string{"w", "?"}

// c21ArgWord is an operator argument word and the text it expands to.
type c21ArgWord struct{ Src, Val string }

// c21ArgWords: the multi-part argument words (round 3). The argument of an
// operator is a word of its own, expanded through a path that depends on the
// operator (replacement, default/alternative word, pattern); the words below
// have one expansion, expansion+literal in both orders, two expansions, a
// double-quoted escape, a double-quoted expansion with a blank, and empty
// quotes. The one-literal words (d, Z) are in the operator lists already.
var c21ArgWords = []c21ArgWord{
	{`$w`, "?"}, {`$w-`, "?-"}, {`a$w`, "a?"}, {`$w$w`, "??"}, {`"\$w"`, "$w"}, {`"$w z"`, "? z"}, {`''`, ""},
}

func c21ArgWordSrcs() []string {
	var out []string
	for _, w := range c21ArgWords {
		out = append(out, w.Src)
	}
	return out
}

// c21ArgWordVal is the expansion of an argument word of c21ArgWords (ok
// false for any other text).
func c21ArgWordVal(src string) (string, bool) {
	for _, w := range c21ArgWords {
		if w.Src == src {
			return w.Val, true
		}
	}
	return "", false
}

// c21IndirVars: name -> value, as assigned by c21Reset.
var c21IndirVars = [][2]string{
	{"y", "x"}, {"yu", "nonexistent"}, {"ye", ""}, {"ya", "a[1]"}, {"yat", "a[@]"}, {"y0", "a"},
	{"yA", "A[k]"}, {"yAt", "A[@]"}, {"yp", "1"}, {"yq", "@"},
}

// primary targets get every operator, secondary ones the basic subset
func c21Targets(kind string) (primary, secondary []string) {
	switch kind {
	case "scalar":
		return []string{"x"}, []string{"x[0]", "x[@]", "x[*]", "x[1]"}
	case "indexed":
		return []string{"a[@]", "a[*]"}, []string{"a[1]", "a", "a[-1]", "a[9]"}
	case "assoc":
		return []string{"A[@]"}, []string{"A[*]", "A[k]", "A[z]", "A"}
	case "pos":
		return []string{"@", "*"}, []string{"1", "2"}
	}
	panic(kind)
}

// indirection names (${!name...}) relevant for a state kind
func c21IndirTargets(st c21State) []string {
	switch st.Kind {
	case "scalar":
		if st.ID == "x:abc" {
			// these do not involve x: one state is enough
			return []string{"y", "yu", "ye", "yn"}
		}
		return []string{"y"}
	case "indexed":
		return []string{"ya", "yat", "y0"}
	case "assoc":
		return []string{"yA", "yAt"}
	case "pos":
		return []string{"yp", "yq", "1", "#"}
	}
	panic(st.Kind)
}

// key/name listing forms (complete words inside ${}), by state kind
func c21ListingForms(kind string) []string {
	names := []string{"!y*", "!y@", "!x*", "!x@", "!zz*", "!zz@", "!ya*", "!ya@"}
	switch kind {
	case "scalar":
		return append(names, "!x[@]", "!x[*]")
	case "indexed":
		return append(names, "!a[@]", "!a[*]", "!a*", "!a@")
	case "assoc":
		return append(names, "!A[@]", "!A[*]", "!A*")
	}
	return names
}

type c21Op struct {
	Pre string // "", "#" (length) or "!" (indirection)
	Op  string // text after the target
}

var c21PatAlphabet = []string{"a", "b", "*", "?", "[ab]", "X", " "}

func c21Patterns(maxLen int, withEmpty bool) []string {
	var out []string
	enum.Seqs(c21PatAlphabet, maxLen, func(ps []string) {
		if len(ps) == 0 && !withEmpty {
			return
		}
		out = append(out, strings.Join(ps, ""))
	})
	return out
}

func c21SliceNum(n int) string {
	if n < 0 {
		return fmt.Sprintf(" %d", n)
	}
	return fmt.Sprint(n)
}

type c21Bounds struct {
	RemPat, ReplPat, CasePat int
	DefaultArgs              []string
	// the argument-word dimension (c21ArgWords)
	WordDefaultOps []string // default/assign/alternative operators taking every argument word
	WordReplOps    []string // replace operators x WordReplPats x every argument word as the replacement
	WordReplPats   []string
	WordPatOps     []string // operators taking every argument word as the pattern (replace forms: replacement Z)
	WordBoth       bool     // / and // with every (pattern word, replacement word) pair
	SliceFar       []int    // extra offsets beyond the length of every value
}

// c21FullOps is the operator list applied to primary targets.
func c21FullOps(b c21Bounds) []c21Op {
	var ops []c21Op
	add := func(pre, op string) { ops = append(ops, c21Op{pre, op}) }
	add("", "")
	add("#", "")
	for _, op := range []string{":-", "-", ":=", "=", ":+", "+"} {
		for _, arg := range b.DefaultArgs {
			add("", op+arg)
		}
	}
	for _, op := range []string{":?", "?"} {
		add("", op+"e")
		add("", op)
	}
	for o := -2; o <= 3; o++ {
		add("", ":"+c21SliceNum(o))
		for l := -2; l <= 3; l++ {
			add("", ":"+c21SliceNum(o)+":"+c21SliceNum(l))
		}
	}
	for _, o := range b.SliceFar {
		// offsets beyond either end of every value, with the three kinds of length
		add("", ":"+c21SliceNum(o))
		for _, l := range []int{-1, 0, 1, 3} {
			add("", ":"+c21SliceNum(o)+":"+c21SliceNum(l))
		}
	}
	for _, op := range []string{"#", "##", "%", "%%"} {
		for _, p := range c21Patterns(b.RemPat, true) {
			add("", op+p)
		}
	}
	words := c21ArgWordSrcs()
	for _, op := range b.WordDefaultOps {
		for _, w := range words {
			add("", op+w)
		}
	}
	for _, op := range b.WordReplOps {
		for _, p := range b.WordReplPats {
			for _, w := range words {
				add("", op+p+"/"+w)
			}
		}
	}
	for _, op := range b.WordPatOps {
		for _, w := range words {
			if strings.HasPrefix(op, "/") {
				add("", op+w+"/Z")
			} else {
				add("", op+w)
			}
		}
	}
	if b.WordBoth {
		for _, op := range []string{"/", "//"} {
			for _, p := range words {
				for _, w := range words {
					add("", op+p+"/"+w)
				}
			}
		}
	}
	for _, op := range []string{"/", "//", "/#", "/%"} {
		for _, p := range c21Patterns(b.ReplPat, false) {
			for _, r := range []string{"", "Z", "&"} {
				add("", op+p+"/"+r)
			}
			if len(p) <= 4 {
				add("", op+p) // no second slash
			}
		}
	}
	for _, op := range []string{"^", "^^", ",", ",,"} {
		for _, p := range c21Patterns(b.CasePat, true) {
			add("", op+p)
		}
	}
	for _, op := range []string{"Q", "U", "L", "u", "a", "E", "P"} {
		add("", "@"+op)
	}
	return ops
}

// c21BasicOps: one or two representatives of every operator kind, for
// secondary targets and for indirection.
func c21BasicOps() []c21Op {
	var ops []c21Op
	for _, op := range []string{"", ":-d", "-d", ":=d", "=d", ":+d", "+d", ":?e", "?e",
		":1", ": -1", ":0:1", ":1:-1", ":1:2",
		"#a", "##a*", "%a", "%%?", "#*", "%[ab]",
		"/a/Z", "//a/Z", "/#a/Z", "/%a/Z", "/?/&", "//b", "/*/Z",
		"^", "^^", ",", ",,", "^^a", "^[ab]",
		"@Q", "@U", "@L", "@u", "@a", "@E", "@P"} {
		ops = append(ops, c21Op{"", op})
	}
	ops = append(ops, c21Op{"#", ""})
	return ops
}

// c21AssignOp reports whether op is a ${p:=w} / ${p=w} form.
func c21AssignOp(op string) bool {
	return strings.HasPrefix(op, ":=") || strings.HasPrefix(op, "=")
}

// c21ErrorOp reports whether op is ${p:?w} / ${p?w}, which ends a
// non-interactive bash when it fires.
func c21ErrorOp(op string) bool {
	return strings.HasPrefix(op, ":?") || strings.HasPrefix(op, "?")
}

// c21OpKind names the operator family of (pre, op).
func c21OpKind(pre, op string) string {
	switch {
	case pre == "#":
		return "length"
	case op == "":
		return "plain"
	case strings.HasPrefix(op, ":-") || strings.HasPrefix(op, "-"):
		return "default"
	case c21AssignOp(op):
		return "assign"
	case c21ErrorOp(op):
		return "error"
	case strings.HasPrefix(op, ":+") || strings.HasPrefix(op, "+"):
		return "alternate"
	case strings.HasPrefix(op, ":"):
		return "slice"
	case strings.HasPrefix(op, "#") || strings.HasPrefix(op, "%"):
		return "remove"
	case strings.HasPrefix(op, "/"):
		return "replace"
	case strings.HasPrefix(op, "^") || strings.HasPrefix(op, ","):
		return "case"
	case strings.HasPrefix(op, "@"):
		return "at"
	}
	return "?"
}
