package checks

import (
	"strings"
)

// ---- token alphabet and rendering -----------------------------------------

// c12Alphabet is the shared core alphabet of space (a) and the insertion
// alphabet of space (b). "\n" is the newline token; "<<H" is a here-document
// whose body is supplied by the renderer.
var c12Alphabet = []string{
	"a", "b=c", ";", "\n", "&", "|", "&&", "||", "!", "(", ")", "{", "}",
	"if", "then", "elif", "else", "fi", "while", "do", "done", "for", "in",
	"case", "esac", ";;", ">f", "<<H",
}

// c12Alphabet5 is the sub-alphabet of the length-5 sequences (thorough tier).
var c12Alphabet5 = []string{"a", ";", "\n", "&", "|", "&&", "!", "(", ")", "{", "}", "else", "in", ";;", ">f", "<<H"}

// c12HeredocBody maps the here-document tokens to the body (including the
// delimiter line) the renderer emits after the next newline.
var c12HeredocBody = map[string]string{
	"<<H":   "h\nH\n",
	"<<J":   "j $x\nJ\n",
	"<<-T":  "\tt\n\tT\n",
	"<<'Q'": "$q\nQ\n",
}

// c12Render joins tokens with single spaces; the newline token is written as
// "\n" without surrounding blanks. Here-document bodies are emitted after the
// next newline token, or after an added newline at the end of the text. With
// noFlush no body is ever emitted (space (c): unclosed here-documents).
func c12Render(toks []string, noFlush bool) string {
	var sb strings.Builder
	var pending []string
	bol := true
	for _, t := range toks {
		if t == "\n" {
			sb.WriteByte('\n')
			for _, b := range pending {
				sb.WriteString(b)
			}
			pending = pending[:0]
			bol = true
			continue
		}
		if !bol {
			sb.WriteByte(' ')
		}
		sb.WriteString(t)
		bol = false
		if b, ok := c12HeredocBody[t]; ok && !noFlush {
			pending = append(pending, b)
		}
	}
	if len(pending) > 0 {
		sb.WriteByte('\n')
		for _, b := range pending {
			sb.WriteString(b)
		}
	}
	return sb.String()
}

// ---- the shared core grammar (token level) --------------------------------

// c12Templates are the statement templates of the shared core: the
// productions of mc/synt/gram.go that both bash and dash (and the parser's
// Bash and POSIX modes) have in common, restated at token level so that
// single-token mutations are well defined. "S" is a statement hole, "W" a
// word hole; every other element is a literal token. ";" and "\n"
// terminators both occur so that both layouts are mutated.
var c12Templates = [][]string{
	// simple commands, assignments, redirections, here-documents
	{"a"}, {"a", "W"}, {"b=c"}, {"b=c", "a", "W"}, {"b=W"}, {">f"}, {"a", ">f"}, {"a", "<f", ">>g"}, {"a", "2>&1", "W"},
	{"a", "<<H"}, {"a", "<<-T"}, {"a", "<<'Q'"}, {"a", "<<H", "|", "b"}, {"a", "<<H", "b", "<<J"}, {"a", "<<H", "\n", "b"},
	// groups
	{"{", "S", ";", "}"}, {"{", "S", "\n", "}"}, {"(", "S", ")"}, {"(", "S", ";", "S", ")"}, {"{", "S", ";", "S", ";", "}"}, {"(", "S", "\n", "S", "\n", ")"},
	// if
	{"if", "S", ";", "then", "S", ";", "fi"}, {"if", "S", "\n", "then", "S", "\n", "fi"},
	{"if", "S", ";", "then", "S", ";", "else", "S", ";", "fi"},
	{"if", "S", ";", "then", "S", ";", "elif", "S", ";", "then", "S", ";", "fi"},
	{"if", "S", ";", "then", "S", ";", "elif", "S", ";", "then", "S", ";", "else", "S", ";", "fi"},
	// loops
	{"while", "S", ";", "do", "S", ";", "done"}, {"until", "S", ";", "do", "S", ";", "done"}, {"while", "S", "\n", "do", "S", "\n", "done"},
	{"for", "i", "in", "W", "b", ";", "do", "S", ";", "done"}, {"for", "i", ";", "do", "S", ";", "done"}, {"for", "i", "in", ";", "do", "S", ";", "done"},
	{"for", "i", "\n", "do", "S", "\n", "done"}, {"for", "i", "in", "W", "\n", "do", "S", "\n", "done"}, {"for", "i", "do", "S", ";", "done"},
	// case
	{"case", "W", "in", "a", ")", "S", ";;", "esac"}, {"case", "x", "in", "a", "|", "b", ")", "S", ";;", "c", ")", "S", ";;", "esac"},
	{"case", "x", "in", "(", "a", ")", "S", ";;", "esac"}, {"case", "x", "in", "esac"}, {"case", "x", "in", "W", ")", ";;", "esac"},
	{"case", "x", "in", "a", ")", "S", "\n", "esac"}, {"case", "x", "in", "\n", "a", ")", "S", "\n", ";;", "\n", "esac"}, {"case", "x", "in", "a", ")", "S", ";", "S", ";;", "b", ")", "esac"},
	// function definitions
	{"f()", "{", "S", ";", "}"}, {"f", "(", ")", "{", "S", ";", "}"}, {"f()", "(", "S", ")"}, {"f()", "if", "S", ";", "then", "S", ";", "fi"}, {"f()", "{", "S", ";", "}", ">f"}, {"f()", "\n", "{", "S", ";", "}"},
	// lists and pipelines
	{"S", "&&", "S"}, {"S", "||", "S"}, {"S", "|", "S"}, {"!", "S"}, {"S", "&"}, {"S", ";", "S"}, {"S", "\n", "S"}, {"S", ";"}, {"S", "\n"},
	{"S", "&&", "\n", "S"}, {"S", "|", "\n", "S"}, {"S", "&", "S"}, {"S", "&&", "S", "||", "S"}, {"S", "|", "S", "|", "S"}, {"!", "S", "|", "S"}, {"S", "&&", "!", "S"},
	// redirections on compound commands
	{"{", "S", ";", "}", ">f", "2>&1"}, {"(", "S", ")", "<f"}, {"if", "S", ";", "then", "S", ";", "fi", ">f"}, {"while", "S", ";", "do", "S", ";", "done", "<f"}, {"{", "S", ";", "}", "&"}, {"(", "S", ")", "|", "a"},
	{"{", "S", ";", "}", "<<H"},
}

// c12Words are the word atoms (opaque tokens; mutations never look inside).
var c12Words = []string{"w", "'s q'", "\"d $x\"", "$x", "${x:-d}", "$(a b)", "x=1", "a*b?[c]", "~/x", "\\$x", "$1", "\"$@\""}

// c12CoreSubs are the statements placed in S holes at depth 2 in the quick
// tier (the thorough tier uses every depth-1 program).
var c12CoreSubs = map[string]bool{}

func init() {
	for _, s := range []string{
		"a w", "b=c", "a >f", "a <<H", "{ a ; }", "( a )", "if a ; then a ; fi", "while a ; do a ; done",
		"for i in w b ; do a ; done", "case w in a ) a ;; esac", "f() { a ; }", "a && a", "a | a", "! a", "a &", "a ; a", "a \n a",
	} {
		c12CoreSubs[s] = true
	}
}

// c12Expand fills the holes of one template: hole number hi takes sub, every
// other hole its default atom.
func c12Expand(t []string, hi int, sub []string) []string {
	var out []string
	n := 0
	for _, tok := range t {
		switch {
		case tok == "S" || tok == "W":
			if n == hi {
				out = append(out, sub...)
			} else if tok == "S" {
				out = append(out, "a")
			} else {
				out = append(out, "w")
			}
			n++
		case tok == "b=W":
			if n == hi {
				out = append(out, "b="+sub[0])
			} else {
				out = append(out, "b=w")
			}
			n++
		default:
			out = append(out, tok)
		}
	}
	return out
}

func c12HoleKinds(t []string) []byte {
	var out []byte
	for _, tok := range t {
		switch tok {
		case "S":
			out = append(out, 'S')
		case "W", "b=W":
			out = append(out, 'W')
		}
	}
	return out
}

// c12Programs returns the token lists of all programs of the core grammar up
// to the given depth (1 or 2): at each template one hole at a time is
// explored with every depth-1 expansion (words for W holes) while the other
// holes hold their default atom. subs selects the statements nested at depth
// 2: 0 = only c12CoreSubs, 1 = every depth-1 program whose word holes hold
// the default word, 2 = every depth-1 program.
func c12Programs(depth int, subs int) [][]string {
	seen := map[string]bool{}
	var out [][]string
	add := func(p []string) {
		k := strings.Join(p, "\x00")
		if !seen[k] {
			seen[k] = true
			out = append(out, p)
		}
	}
	// depth 1: S holes = "a", W holes explored with every word
	var d1 [][]string
	defaultWords := map[string]bool{}
	for _, t := range c12Templates {
		kinds := c12HoleKinds(t)
		p := c12Expand(t, -1, nil)
		add(p)
		defaultWords[strings.Join(p, " ")] = true
		for hi, k := range kinds {
			if k == 'W' {
				for _, w := range c12Words {
					add(c12Expand(t, hi, []string{w}))
				}
			}
		}
	}
	d1 = append(d1, out...)
	if depth < 2 {
		return out
	}
	for _, t := range c12Templates {
		kinds := c12HoleKinds(t)
		for hi, k := range kinds {
			if k != 'S' {
				continue
			}
			for _, sub := range d1 {
				if k := strings.Join(sub, " "); (subs == 0 && !c12CoreSubs[k]) || (subs == 1 && !defaultWords[k] && !c12CoreSubs[k]) {
					continue
				}
				add(c12Expand(t, hi, sub))
			}
		}
	}
	return out
}

// c12Mutants calls f with every single-token mutation of p: delete token i,
// duplicate token i, swap tokens i and i+1, insert each alphabet token at
// every position. note describes the edit.
func c12Mutants(p []string, f func(m []string, note string)) {
	n := len(p)
	for i := 0; i < n; i++ {
		m := make([]string, 0, n-1)
		m = append(m, p[:i]...)
		m = append(m, p[i+1:]...)
		f(m, "del")
	}
	for i := 0; i < n; i++ {
		m := make([]string, 0, n+1)
		m = append(m, p[:i+1]...)
		m = append(m, p[i:]...)
		f(m, "dup")
	}
	for i := 0; i+1 < n; i++ {
		if p[i] == p[i+1] {
			continue
		}
		m := append([]string(nil), p...)
		m[i], m[i+1] = m[i+1], m[i]
		f(m, "swap")
	}
	for i := 0; i <= n; i++ {
		for _, a := range c12Alphabet {
			m := make([]string, 0, n+1)
			m = append(m, p[:i]...)
			m = append(m, a)
			m = append(m, p[i:]...)
			f(m, "ins")
		}
	}
}
