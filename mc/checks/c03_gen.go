package checks

import (
	"fmt"
	"os"
	"strings"

	"verif/mc/synt"
	"verif/mc/vc"
)

// G_exec: runnable, deterministic, terminating programs over builtins only.
// The templates use the layout markers of mc/synt (Render): · inline gap,
// ¶ statement terminator, ¤ gap after an opener, ⟦…⟧ here-document body
// emitted after the next newline, ↵ flush point. Holes: {S} statement,
// {W} word, {A} arithmetic expression, {T} [[ ]] expression.
//
// Every generated program starts with c03Prelude (variables, positional
// parameters, the here-document reader c) and ends with `echo rc=$?`; the
// hole-free statements are additionally taken bare (alone in the file).

const c03Prelude = "x=1 y=ab z='c d' e= n=x a=(i j 'k l')\nset -- p1 'p 2'\n" +
	// the reader is defined through eval so that the prelude prints the same
	// under every configuration (it would otherwise multiply the distinct texts)
	"eval 'c() { while IFS= read -r l || [ -n \"$l\" ]; do printf \"[%s]\\n\" \"$l\"; done; }'\n"

var c03Prods = map[string][]string{
	"S": {
		// simple commands
		"echo·a", ":", "true", "false", "!·true", "!·false", "echo·$x·\"$z\"·'s  q'",
		"x=2·y=3¶echo·$x$y", "x=5·eval·'echo $x'¶echo·$x", "x=7·y=8", "a+=(m)¶echo·${#a[@]}·${a[3]}", "a[1]=q¶echo·${a[@]}",
		"declare·-A·m=([k]=v·[j]=w)¶echo·${m[k]}${m[j]}", "b=(1·2¤3)¶echo·${b[2]}", "b=()¶echo·${#b[@]}",
		"echo·a·#·c0", "echo·a·#·c0¶echo·b",
		// redirections
		"echo·a·>f¶read·r·<f¶echo·$r", "echo·a·>f¶echo·b·>>f¶c·<f", "echo·a·>/dev/null", "echo·a·>&2", "echo·a·2>&1",
		"{¤echo·a¶echo·b·>&2¶}·2>/dev/null", "echo·a·&>f¶c·<f", ">f·echo·a¶c·<f", "echo·>f·a·b¶c·<f", "echo·a·3>&1·>/dev/null·1>&3",
		"exec·3>f¶echo·a·>&3¶exec·3>&-¶c·<f", "echo·a·>|f¶c·<f", "c·<>f", "echo·a·>f·2>&1¶c·<f", "c·0<f", "echo·a·1>f¶c·<f",
		// here-documents and here-strings
		"c·<<E⟦body $x $(echo cs) `echo bq` \\$x $((x+1))\nE\n⟧", "c·<<-E⟦\tb1 $x\n\t\tb2\n\tE\n⟧", "c·<<'E'⟦raw $x \\n\nE\n⟧", "c·<<\"E\"⟦raw $x\nE\n⟧", "c·<<\\E⟦raw $x\nE\n⟧",
		"c·<<E·<<F⟦one\nE\ntwo\nF\n⟧", "c·<<E·|·c⟦body\nE\n⟧", "c·<<E·&&·echo·ok⟦body\nE\n⟧", "c·<<E·>f⟦body\nE\n⟧¶c·<f", "c·<<E⟦\n  lead\ntrail  \n\nE\n⟧", "c·<<E⟦a\\\nb\nE\n⟧",
		"c·<<-E⟦\t\tdeep\n\tshallow\nnone\n\tE\n⟧", "c·<<E⟦E \n E\nEE\nE\n⟧", "c·<<E⟦\"q\" 'r' $z \"$z\"\nE\n⟧", "c·<<E;·c·<<F⟦one\nE\ntwo\nF\n⟧", "c·<<E·#·cm⟦body\nE\n⟧",
		"c·<<<$z", "c·<<<\"$z\"", "c·<<<'s  q'", "read·r·<<<\"$y\"¶echo·$r", "c·<<<a·<<<b",
		"read·p·q·<<E⟦one two three\nE\n⟧¶echo·\"$q\"", "mapfile·-t·m·<<E⟦l1\nl2\nE\n⟧¶echo·${#m[@]}·${m[1]}", "read·r·<·<(echo·ps)¶echo·$r", "c·<·<(echo a; echo b)",
		"while·read·l¶do¤echo·\"<$l>\"¶done·<<E⟦l1\nl2\nE\n⟧", "if·c·<<E⟦in if\nE\n⟧¶then¤echo·T¶fi", "{¤c·<<E⟦in block\nE\n⟧¶}", "(¤c·<<E⟦in subshell\nE\n⟧↵)", "echo·$(c·<<E⟦in cs\nE\n⟧↵)", "echo·\"$(c·<<E⟦in dq cs\nE\n⟧↵)\"",
		"f()·{¤c·<<E⟦in func $1\nE\n⟧¶}¶f·arg", "case·$x·in¤1)¤c·<<E⟦in case\nE\n⟧·;;¤esac", "c·<<E·||·c·<<F⟦one\nE\ntwo\nF\n⟧", "{¤c¶}·<<E⟦outer\nE\n⟧", "c·<<E⟦$(c <<F\ninner\nF\n)\nE\n⟧",
		// arithmetic, tests, declarations
		"((·x·==·1·))", "((·x++·))¶echo·$x", "let·x=x+2·y=3¶echo·$x·$y", "let·'x = 4'¶echo·$x", "let·x++¶echo·$x",
		"[·$x·=·1·]", "[·!·-n·\"$e\"·]", "test·-n·\"$z\"·-a·-z·\"$e\"", "[·-f·f·]",
		"export·x¶declare·-i·k=1+2¶echo·$k", "readonly·r=1¶echo·$r", "unset·x¶echo·${x-unset}", "declare·-a·d=(1·2)·g¶echo·${d[1]}", "declare·-l·lo=AB¶echo·$lo",
		"set·-e¶false¶echo·no", "set·-o·pipefail¶false·|·true¶echo·$?", "set·-u¶echo·${u-d}", "shift¶echo·$#·$1", "set·--¶echo·$#",
		"while·getopts·ab:·o·-a·-b·v¶do¤echo·$o·$OPTARG¶done", "exit·3", "(¤exit·3↵)¶echo·$?", "f()·{¤return·2¶}¶f",
		"eval·'echo a; echo b'", "eval·\"echo $z\"", "trap·'echo bye $?'·EXIT¶exit·3", "trap·'echo bye'·EXIT",
		// loops and conditionals without holes
		"for·i¶do¤echo·\"<$i>\"¶done", "for·i·in¶do¤echo·never¶done", "for·i·in·1·2·3¶do¤[·$i·=·2·]·&&·continue¶echo·$i¶done",
		"for·i·in·1·2¶do¤for·j·in·a·b¶do¤echo·$i$j¶break·2¶done¶done", "for·((i=0;·i<2;·i++))¶do¤echo·$i¶done", "for·((;;))¶do¤echo·once¶break¶done", "for·((·i·=·0·;·i·<·2·;·i++·))¶do¤echo·$i¶done",
		"case·$y·in¤a*)¤echo·1·;&¤zz)¤echo·2·;;&¤*b)¤echo·3·;;¤*)¤echo·4¤esac", "case·$y·in¤ab)¤;;¤*)¤echo·no·;;¤esac", "case·$y·in¤esac", "case·$y·in¤a|ab|b)¤echo·m¤esac", "case·$z·in¤\"c d\")¤echo·q·;;¤esac",
		"function·f·{¤echo·\"$1\"¶return·3¶}¶f·arg¶echo·$?", "f()·{¤local·x=2¶echo·$x¶}¶f¶echo·$x", "f()·{¤echo·$#·\"$@\"¶shift¶echo·$1¶}¶f·1·'2 3'", "f()·{¤echo·one¶}¶f()·{¤echo·two¶}¶f",
		"select·i·in·a·b¶do¤echo·$i¶done", "time·echo·t", "time·-p·echo·t",
		// holes: words, arithmetic, tests
		"echo·{W}", "echo·{W}·{W}", "printf·'<%s>'·{W}¶echo", "v={W}¶echo·\"$v\"", "v={W}·eval·'echo \"$v\"'", "for·i·in·{W}·b¶do¤echo·\"<$i>\"¶done",
		"case·{W}·in¤w)¤echo·W·;;¤1|d*)¤echo·D·;;¤*)¤echo·other·;;¤esac", "case·$y·in¤{W})¤echo·m·;;¤*)¤echo·o·;;¤esac", "c·<<<{W}", "c·<<E⟦x {W} y\nE\n⟧", "a=({W}·[4]={W})¶echo·${#a[@]}·\"${a[4]}\"", "set·--·{W}·b¶echo·$#·\"$1\"",
		"[·{W}·=·w·]", "test·-n·{W}", "eval·echo·{W}", "f()·{¤echo·\"$1\"¶}¶f·{W}", "echo·{W}·>f¶c·<f", "echo·\"pre {W} post\"",
		"echo·$(({A}))¶echo·$x·${a[0]}", "((·{A}·))¶echo·$?·$x", "echo·${y:{A}}", "echo·${a[{A}]}", "a[{A}]=q¶echo·\"${a[@]}\"", "for·((i={A};·i<3;·i++))¶do¤echo·$i¶done", "echo·\"$(({A}))\"",
		"[[·{T}·]]", "[[·{T}·]]·&&·echo·T·||·echo·F", "if·[[·{T}·]]¶then¤echo·T¶fi", "!·[[·{T}·]]",
		// holes: statements
		"{¤{S}¶}", "(¤{S}↵)", "{¤{S}¶{S}¶}", "(¤{S}¶{S}↵)", "{S}¶{S}",
		"(¤(¤{S}↵)↵)", "(¤(¤{S}↵)¶{S}↵)", "(¤{S}¶(¤{S}↵)↵)", "(¤((·x·))↵)", "(¤((·x·))¶{S}↵)", "(¤(¤{S}↵)·|·c↵)", "(¤(¤{S}↵)·&&·{S}↵)", "(¤(¤{S}↵)·>f↵)¶c·<f", "(¤(¤{S}↵)·>/dev/null·2>&1·&↵)¶wait¶echo·z", "(¤(¤{S}↵)·&¶wait↵)",
		"echo·$(¤(¤{S}↵)↵)", "echo·$(¤(¤{S}↵)¶{S}↵)", "echo·$(¤((·x·))¶echo·$?↵)", "echo·$(¤(¤{S}↵)·|·c↵)", "echo·$(¤{S}↵)", "echo·\"$(¤{S}↵)\"", "echo·`{S}`", "v=$(¤{S}↵)¶echo·\"$v\"", "echo·$(¤{S}¶{S}↵)", "echo·<(¤{S}↵)·>/dev/null",
		"if¤{S}¶then¤echo·T¶else¤echo·F¶fi", "if¤{S}¶then¤{S}¶fi", "if¤false¶then¤echo·1¶elif¤{S}¶then¤echo·2¶else¤echo·3¶fi", "if¤true¶then¤{S}¶else¤echo·3¶fi", "if¤{S}¶{S}¶then¤echo·T¶fi",
		"i=0¶while¤[·$i·-lt·2·]¶do¤{S}¶i=$((i+1))¶done", "i=0¶until¤[·$i·-ge·2·]¶do¤i=$((i+1))¶{S}¶done", "while¤{S}¶do¤echo·body¶break¶done", "until¤{S}¶do¤echo·body¶break¶done",
		"for·i·in·1·2¶do¤{S}¶done", "for·((i=0;·i<2;·i++))¶do¤{S}¶done",
		"case·$y·in¤a)¤echo·A·;;¤ab|b*)¤{S}·;;¤*)¤echo·other·;;¤esac", "case·$y·in¤(ab)¤{S}¶{S}·;;¤esac", "case·$y·in¤a*)¤{S}·;&¤zz)¤{S}·;;&¤*)¤{S}¤esac", "case·$y·in¤ab)¤{S}¤esac",
		"f()·{¤{S}¶}¶f", "function·f()·{¤{S}¶}¶f", "function·f·{¤{S}¶}¶f", "f()·(¤{S}↵)¶f", "f()·{¤{S}¶}·>f¶f¶c·<f", "f()·if¤{S}¶then¤echo·T¶fi¶f", "f()·{¤{S}¶{S}¶}¶f·q",
		"{S}·&&·{S}", "{S}·||·{S}", "{S}·|·c", "{S}·|·{S}", "!·{S}", "!·{S}·&&·echo·N", "{S}·&&·{S}·||·{S}", "{S}·||·{S}·&&·{S}", "{S}·&&¤{S}", "{S}·||¤{S}", "{S}·|¤c", "{S}·|&·c", "{S}·|·c·|·c", "{S}·|·!·c", "{S}·&&·!·{S}",
		"{S}·&¶wait", "{¤{S}¶}·&¶wait¶echo·done", "{S}·&·wait",
		"{¤{S}¶}·>f¶c·<f", "(¤{S}↵)·>f¶c·<f", "if¤{S}¶then¤echo·T¶fi·>f¶c·<f", "{¤{S}¶}·2>&1·|·c", "while¤{S}¶do¤break¶done·>f¶c·<f",
		"time·{S}", "trap·'echo bye'·EXIT¶{S}", "eval·'{S}'",
	},
	"W": {
		"w", "'s  q'", "\"d  q\"", "''", "\"\"", "$x", "${x}", "\"$x\"", "${x}y", "\"${x}y\"", "${x}1", "${x}_", "$x-", "${x}[0]", "\"$x\"y", "$x$y", "${x}${y}", "${x}$y", "${x}\"y\"", "${x}'y'",
		"${a[1]}", "${a[@]}", "\"${a[@]}\"", "\"${a[*]}\"", "${#a[@]}", "${#x}", "${#y}", "${a}", "${a}b", "$a[1]",
		"${x:-d}", "${e:-d  e}", "${e:-\"d  e\"}", "\"${e:-d  e}\"", "${x:+alt}", "${u-d}", "${e:=as}$e", "${y#a}", "${y%b}", "${y/a/X}", "${y//b/Y}", "${y/#a/X}", "${z/ /_}", "${z// }",
		"${y:1}", "${y:0:1}", "${y: -1}", "${y:(-1)}", "${y^}", "${y^^}", "${y,,}", "${!n}", "${!a[@]}", "${a[@]:1:1}", "${a[-1]}", "${@:2}", "${y@Q}", "${y@U}",
		"$1", "${1}0", "$10", "${10}", "${1}", "$#", "$@", "\"$@\"", "\"$*\"", "$*", "$?", "${#}", "${#1}", "$-",
		"$'a\\nb'", "$'\\x41\\''", "$\"loc\"", "$'a\\tb'",
		"$(echo·a)", "`echo·a`", "$(echo a; echo b)", "\"$(echo 'a  b')\"", "\"`echo a`\"", "`echo \\`echo n\\``", "`echo \"a  b\"`", "`echo \\$x`", "`echo '\\$x'`", "`echo \\\\\\\\`", "`echo '\\\\\\\\'`",
		"\"`echo \"q  r\"`\"", "\"`echo \\\"q  r\\\"`\"", "$(echo \"a\" 'b')", "\"$(echo \")\")\"", "$(echo \\))", "`echo a # c`", "$(echo a # c\n)", "$(echo a\n)", "$(\necho a)", "$(echo a;)", "$(echo a &\nwait)",
		"`echo \\\"a\\\"`", "`echo \"\\$x\"`", "`echo \\\\$x`", "$(echo `echo n`)", "`echo $(echo n)`", "$(echo $(echo n))", "$(echo \"$(echo \"a  b\")\")",
		"$((1+2))", "$((x+1))", "$(( x ))", "$[1+2]",
		"{a,b}", "{1..3}", "x{a,b}y", "\"{a,b}\"", "{a,b}$x", "${x}{a,b}",
		"a\\ b", "a\\\\b", "\\$x", "\"\\$x\"", "\"a\\\"b\"", "a#b", "\"a # b\"", "\\#c", "'#c'", "~", "\"~\"", "a~", "*", "\"*\"", "\\*", "?", "[ab]", "\\\\",
		"\"a\\\nb\"", "a\\\nb", "'a\nb'", "\"a\nb\"", "'a\\\nb'", "$x\\\n$y", "\"$x\\\n$y\"", "\"$x\"\\\n\"$y\"",
		"$( (echo a) )", "$( (echo a); echo b)", "$(((1+2)*3))", "$(( (1+2)*3 ))", "$({ echo a; })", "$( ( (echo a) ) )", "$( (echo a) | c)", "$( (echo a)\n)", "$(\n(echo a)\n)", "$( ((x)) && echo t)",
		"${x:-$(echo d)}", "\"${e:-'q'}\"", "${e:-'q'}", "${y:+\"$z\"}", "${e:-$y}", "${e:-${u:-dd}}", "${e:-a\\}b}", "\"${e:-a\\}b}\"", "${e:-\"a}b\"}",
		"!", "a!", "\"!\"", "!x", "-n", "--", "=", "a=b", "[", "]]", "{", "}", "{}", "if", "then", "done", "esac", "in", "do", "fi", "time", "function", "elif",
		"é", "\\é", "a;b", "'a;b'", "a\\;b", "a\\&b", "a\\|b", "\\(a\\)", "\\<a\\>", "a\\'b", "a\\\"b", "\"a'b\"", "'a\"b'", "\"a`echo b`c\"", "\"a$(echo b)c\"", "\"$x$y\"", "\"$x\"\"$y\"", "\"$x\"'$y'", "$x'$y'",
		"{W}x", "x{W}", "\"{W}\"", "${e:-{W}}", "\"${e:-{W}}\"", "$(echo·{W})", "`echo·{W}`", "\"$(echo·{W})\"", "${y/b/{W}}", "${x:+{W}}",
	},
	"A": {
		"1", "x", "$x", "x+1", "x·+·1", "-x", "!x", "!·x", "~x", "x++", "++x", "x--", "--x", "x--·-·1", "x·-·-1", "x·-·-x", "x·+·+x", "x·+·++x", "x·-·--x", "1·-·-1", "x++·+·x", "x·+·-x", "x·-·+x", "x*-x", "x·*·-x",
		"x?1:2", "x·?·1·:·2", "x,3", "(x+1)*2", "x+1*2", "(x)", "((x))", "x<<2", "x<3·&&·x>0", "x=5", "x+=2", "x=x+1,x*2", "a[1]", "a[0]+1", "16#ff", "010", "0x1F", "x**2", "x%2", "7/2",
		"x==1", "x!=1", "x<=1", "x&1", "x|2", "x^3", "-(-x)", "-·-x", "-(x)", "!(x)", "!!x", "!·!x", "~~x", "~·~x", "+·+x", "$x+1", "${x}+1", "$((x+1))*2", "${#y}", "$#", "\"1\"", "x<1?x:1", "y", "x·-=·1", "x>>1", "x>1·||·x<1", "x·<·1",
		"-·x", "(·x·)", "x·*·(x·+·1)", "(x·,·2)", "x·=·(2)", "x=(x+1)",
		"{A}+{A}", "{A}·-·{A}", "({A})", "-{A}", "!{A}", "{A}?{A}:{A}", "x=({A})", "{A}*{A}",
	},
	"T": {
		"-n·$x", "-z·\"$e\"", "$y·==·a*", "$y·==·\"a*\"", "$y·!=·a*", "$y·=~·^a", "$y·=~·(a|b)", "$z·=~·\"c d\"", "$z·=~·c\\ d", "$y·=~·[[:alpha:]]+", "$y·=~·^(a|x)b$", "a·<·b", "b·>·a", "$x·-eq·1", "$x·-lt·2",
		"!·-n·$e", "-n·$x·&&·-z·$e", "-n·$e·||·$x·=·1", "(·-n·$x·)", "!·(·-n·$e·)", "(·(·-n·$x·)·)", "(·-n·$e·||·-n·$x·)·&&·-n·$y", "-n·$e·||·-n·$x·&&·-n·$e", "-v·x", "-f·f", "-d·.", "$x", "\"$e\"", "$z·=·\"c d\"", "-n·$x·&&¤-z·$e", "-n·$x·||¤-z·$e",
		"$y·==·@(ab|c)", "-o·errexit", "!·$e", "!·!·$x", "$y·==·a\\*", "$y·=·$n*", "\"$y\"·=·[a]b", "(·$y·==·ab·)", "-n·\"$(echo·q)\"",
		"{T}·&&·{T}", "{T}·||·{T}", "!·{T}", "(·{T}·)", "!·(·{T}·)",
	},
}

var c03Defaults = map[string]string{"S": "echo·s", "W": "w", "A": "1", "T": "-n·a"}

// c03Probes are the atoms that every context sees in the reduced (quick)
// space; the core contexts see every atom.
var c03Probes = map[string][]string{
	"S": {"echo·a", "false", "(¤exit·3↵)¶echo·$?", "((·x·==·1·))", "{¤echo·a¶echo·b·>&2¶}·2>/dev/null", "c·<<E⟦body $x $(echo cs) `echo bq` \\$x $((x+1))\nE\n⟧", "c·<<E·|·c⟦body\nE\n⟧",
		"!·true", "echo·a·#·c0", "for·i·in·1·2·3¶do¤[·$i·=·2·]·&&·continue¶echo·$i¶done", "case·$y·in¤ab)¤;;¤*)¤echo·no·;;¤esac", "exit·3", "x=7·y=8", "echo·a·>f¶read·r·<f¶echo·$r"},
	"W": {"w", "'s  q'", "$x", "${x}y", "\"${a[@]}\"", "${e:-d  e}", "$(echo·a)", "`echo \\`echo n\\``", "$((x+1))", "{a,b}", "a\\ b", "$( (echo a) )", "a\\\nb", "\"a\nb\"", "!", "\\#c", "if", "}"},
	"A": {"1", "x·-·-1", "x·+·++x", "-·-x", "!·x", "(x+1)*2", "x=5", "x++", "$x+1", "x?1:2"},
	"T": {"-n·$x", "!·-n·$e", "(·-n·$e·||·-n·$x·)·&&·-n·$y", "$y·=~·(a|b)", "$y·==·a*", "-n·$x·&&¤-z·$e"},
}

// c03QuickCore are the contexts whose holes see every atom in the reduced
// space.
var c03QuickCore = map[string]bool{
	"{¤{S}¶}": true, "(¤{S}↵)": true, "echo·$(¤{S}↵)": true, "if¤{S}¶then¤{S}¶fi": true, "{S}·&&·{S}": true, "{S}·|·c": true, "f()·{¤{S}¶}¶f": true,
	"echo·{W}": true, "v={W}¶echo·\"$v\"": true, "echo·$(({A}))¶echo·$x·${a[0]}": true, "[[·{T}·]]·&&·echo·T·||·echo·F": true,
}

// c03CoreS are the statement contexts through which depth-2 nesting goes.
var c03CoreS = map[string]bool{
	"{¤{S}¶}": true, "(¤{S}↵)": true, "(¤(¤{S}↵)↵)": true, "echo·$(¤{S}↵)": true, "echo·`{S}`": true, "if¤{S}¶then¤{S}¶fi": true,
	"i=0¶while¤[·$i·-lt·2·]¶do¤{S}¶i=$((i+1))¶done": true, "case·$y·in¤a)¤echo·A·;;¤ab|b*)¤{S}·;;¤*)¤echo·other·;;¤esac": true,
	"f()·{¤{S}¶}¶f": true, "{S}·&&·{S}": true, "{S}·|·c": true, "!·{S}": true, "{S}·&¶wait": true, "{¤{S}¶}·>f¶c·<f": true,
	"echo·{W}": true, "v={W}¶echo·\"$v\"": true, "\"{W}\"": true, "${e:-{W}}": true, "$(echo·{W})": true, "`echo·{W}`": true,
	"echo·$(({A}))¶echo·$x·${a[0]}": true, "({A})": true, "{A}·-·{A}": true, "-{A}": true,
	"[[·{T}·]]·&&·echo·T·||·echo·F": true, "!·{T}": true, "(·{T}·)": true, "{T}·&&·{T}": true,
}

func c03Holes(t string) []struct {
	start, end int
	nt         string
} {
	var out []struct {
		start, end int
		nt         string
	}
	for i := 0; i+2 < len(t); i++ {
		if t[i] == '{' && t[i+2] == '}' && strings.IndexByte("SWAT", t[i+1]) >= 0 {
			out = append(out, struct {
				start, end int
				nt         string
			}{i, i + 3, string(t[i+1])})
		}
	}
	return out
}

// c03Templates expands non-terminal nt to the given nesting depth: at each
// template one hole at a time ranges over all expansions one level shallower
// while the other holes hold their default atom. Below the top level, depth
// >= 2 only nests through the core contexts.
func c03Templates(nt string, depth int, probes bool) []string {
	probeSet := map[string]bool{}
	for _, l := range c03Probes {
		for _, a := range l {
			probeSet[a] = true
		}
	}
	memo := map[string][]string{}
	var gen func(nt string, d int, top bool) []string
	gen = func(nt string, d int, top bool) []string {
		key := fmt.Sprint(nt, d, top)
		if r, ok := memo[key]; ok {
			return r
		}
		seen := map[string]bool{}
		var out []string
		add := func(s string) {
			if !seen[s] {
				seen[s] = true
				out = append(out, s)
			}
		}
		for _, t := range c03Prods[nt] {
			hs := c03Holes(t)
			if len(hs) == 0 {
				add(t)
				continue
			}
			if d == 0 {
				continue
			}
			if !top && !c03CoreS[t] {
				continue // below the top level only core contexts nest further
			}
			for hi := range hs {
				for _, sub := range gen(hs[hi].nt, d-1, false) {
					if probes && top && !c03QuickCore[t] && !probeSet[sub] {
						continue // reduced space: non-core contexts only see the probe atoms
					}
					var sb strings.Builder
					last := 0
					for hj, h := range hs {
						sb.WriteString(t[last:h.start])
						if hj == hi {
							sb.WriteString(sub)
						} else {
							sb.WriteString(c03Defaults[h.nt])
						}
						last = h.end
					}
					sb.WriteString(t[last:])
					add(sb.String())
				}
			}
		}
		memo[key] = out
		return out
	}
	return gen(nt, depth, true)
}

type c03Bounds struct {
	probes      bool // reduced space (see c03Probes)
	depth       int  // nesting depth of default-layout programs
	layoutDepth int // single-gap layout deviations for templates up to this depth
	bareDepth   int // templates up to this depth are also taken without prelude/epilogue
}

func c03GetBounds(c *vc.Ctx) c03Bounds {
	return vc.Pick(c, c03Bounds{probes: true, depth: 1, layoutDepth: 0, bareDepth: 0}, c03Bounds{depth: 1, layoutDepth: 1, bareDepth: 0})
}

func c03GenDescribe(c *vc.Ctx) string {
	b := c03GetBounds(c)
	n := 0
	for _, p := range c03Prods {
		n += len(p)
	}
	space := "every atom in every hole"
	if b.probes {
		space = fmt.Sprintf("every atom in the holes of the %d core contexts, the %d probe atoms in the other holes", len(c03QuickCore), len(c03Probes["S"])+len(c03Probes["W"])+len(c03Probes["A"])+len(c03Probes["T"]))
	}
	return fmt.Sprintf("%d templates over builtins only; every expansion to nesting depth %d, one hole explored at a time (%s), in default layout wrapped in a fixed prelude and `echo rc=$?`; every single-gap layout deviation (double space, tab, escaped newline; newline, blank line, trailing comment, comment line, `;`+newline) of %s; the depth<=%d expansions also alone in the file", n, b.depth, space, vc.Pick(c, "the statement probe atoms", fmt.Sprintf("the reduced-space expansions of depth<=%d", b.layoutDepth)), b.bareDepth)
}

func c03Wrap(t string) string { return c03Prelude + t + "¶echo·rc=$?" }

// c03Programs enumerates all programs: corpus first, then G_exec.
func c03Programs(c *vc.Ctx, emit func(c03Prog)) {
	for nt, l := range c03Probes {
		for _, a := range l {
			found := false
			for _, t := range c03Prods[nt] {
				found = found || t == a
			}
			if !found {
				panic("c03: probe atom is not a production: " + a)
			}
		}
	}
	only := os.Getenv("VERIF_C03_ONLY") // development aid: "corpus" or "gexec"
	if only != "gexec" {
		for _, src := range synt.InterpCorpus() {
			emit(c03Prog{Src: src, Origin: "corpus", Full: !c.Quick()})
		}
	}
	if only == "corpus" {
		return
	}
	if m := os.Getenv("VERIF_C03_MATCH"); m != "" { // development aid: only templates containing m
		inner := emit
		emit = func(p c03Prog) {
			if strings.Contains(p.Tmpl, m) {
				inner(p)
			}
		}
	}
	b := c03GetBounds(c)
	layouts := func(t string, wrapped bool, full bool) {
		tt := t
		if wrapped {
			tt = c03Wrap(t)
		}
		for gi, na := range synt.GapAlts(tt) {
			for a := 0; a < na; a++ {
				text, _ := synt.Render(tt, gi, a)
				emit(c03Prog{Src: text, Origin: "gexec", Tmpl: t, Full: full})
			}
		}
	}
	layoutSet := map[string]bool{}
	if b.probes {
		// quick: layout deviations of the statement probe atoms only
		for _, t := range c03Probes["S"] {
			layoutSet[t] = true
		}
	} else {
		for _, t := range c03Templates("S", b.layoutDepth, true) {
			layoutSet[t] = true
		}
	}
	bareSet := map[string]bool{}
	for _, t := range c03Templates("S", b.bareDepth, b.probes) {
		bareSet[t] = true
	}
	done := map[string]bool{}
	for d := 0; d <= b.depth; d++ {
		for _, t := range c03Templates("S", d, b.probes) {
			if done[t] {
				continue
			}
			done[t] = true
			text, _ := synt.Render(c03Wrap(t), -1, 0)
			emit(c03Prog{Src: text, Origin: "gexec", Tmpl: t, Full: !c.Quick()})
			if bareSet[t] {
				text, _ := synt.Render(t, -1, 0)
				emit(c03Prog{Src: text, Origin: "gexec", Tmpl: t, Full: !c.Quick()})
			}
		}
	}
	for d := 0; d <= b.layoutDepth; d++ {
		for _, t := range c03Templates("S", d, true) {
			if !layoutSet[t] || done[t+"\x00L"] {
				continue
			}
			done[t+"\x00L"] = true
			layouts(t, true, false)
			if bareSet[t] {
				layouts(t, false, false)
			}
		}
	}
}
