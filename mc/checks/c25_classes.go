package checks

import (
	"fmt"
	"regexp"
	"strings"

	"mvdan.cc/sh/v3/shell"
)

var (
	c25BraceAfterName = regexp.MustCompile(`\$[A-Za-z_]([A-Za-z0-9_]|\\\n)*\{a,b\}`)
	c25EscParamBrace  = regexp.MustCompile(`(?s)\\\$\{[^{}]*\}.*\\\{a,b\}`)
	c25Count          = regexp.MustCompile(`^0:([0-9]+):`)
	// round 3 (composite items)
	c25PidBrace     = regexp.MustCompile(`\$\$\{[^{}]*,[^{}]*\}`)
	c25ReplStar     = regexp.MustCompile(`\$\{V//?\*/[^}]+\}`)
	c25ReplAnchored = regexp.MustCompile(`\$\{V/[#%][^}]*\}`)
	c25DefQuoteVar  = regexp.MustCompile(`\$\{V:?-"\$V"[a-z]+\}`)
)

// c25Sh is what the function under test gives for s, rendered like the
// check's own comparison text ("" on error).
func c25Sh(t c25Case, s string) string {
	envf := c25EnvFunc(t.Env)
	res := ""
	func() {
		defer func() { recover() }()
		if t.Fn == "Expand" {
			if out, err := shell.Expand(s, envf); err == nil {
				res = "0:" + out + "\n"
			}
		} else if out, err := shell.Fields(s, envf); err == nil {
			res = fmt.Sprintf("0:%d:<%s>", len(out), strings.Join(out, "><"))
		}
	}()
	return res
}

// c25Classify names the narrow divergence families recorded as known
// findings (syntactic shape of the input plus direction of the divergence).
func c25Classify(t c25Case, shErr error, shOut string, bashOK bool, bashGot string) string {
	s := t.S
	bothOK := shErr == nil && bashOK
	switch {
	case shErr == nil && strings.Contains(s, "$\\\n"):
		// a line continuation between "$" and what follows: bash joins the
		// lines first ("$\<nl>V" is $V), sh keeps a literal "$"
		return "dollar-then-line-continuation"
	case bothOK && strings.Contains(s, "\\\\\\\n"):
		// an escaped backslash followed by backslash-newline: sh does not
		// remove the line continuation
		return "escaped-backslash-then-line-continuation"
	case t.Fn == "Fields" && bothOK && c25BraceAfterName.MatchString(s):
		// bash brace-expands textually before parameter expansion, so
		// $V{a,b} becomes $Va $Vb; sh expands $V and then the braces
		return "brace-expansion-extends-parameter-name"
	case bothOK && t.Env != 2 && c25ReplStar.MatchString(s) && bashGot == c25Sh(t, c25ReplStar.ReplaceAllLiteralString(s, "${V}")):
		// same family as C21 replace-on-unset-inserts-replacement: ${V/*/r}
		// of an unset V yields r; for bash the whole expansion is empty
		// (bash's result is what sh gives for the string with ${V}, which is
		// empty here, in the item's place)
		return "replace-on-unset-inserts-replacement"
	case bothOK && t.Env == 2 && c25ReplAnchored.MatchString(s) && shOut == c25Sh(t, c25ReplAnchored.ReplaceAllLiteralString(s, "${V}")):
		// same family as C21 replace-anchor-unsupported: ${V/#p/r} ${V/%p/r}
		// leave the value as it is (sh's result is what it gives for ${V})
		return "replace-anchor-unsupported"
	case shErr != nil && bashOK && t.Env != 2 && strings.Contains(s, "${V:=") && shErr.Error() == "environment is read-only":
		// ${V:=w} with V unset: the func(string) string environment cannot
		// be assigned to, so the expansion fails; bash assigns and yields w
		return "assign-default-needs-writable-environment"
	case bothOK && t.Env != 2 && c25DefQuoteVar.MatchString(s) && (t.Fn == "Expand" || strings.Contains(s, `"${V`)) &&
		bashGot == c25Sh(t, c25DefQuoteVar.ReplaceAllLiteralString(s, "${V}")):
		// bash 5.2 quirk: inside double quotes (and here-documents) the
		// default word "$W"z - a quoted expansion directly followed by a
		// letter - expands to nothing even when W is set ("${V:-"$W"z}" gives
		// "", unquoted ${V:-"$W"z} gives wz, dash gives wz in both)
		return "bash-quoted-default-word-expansion-then-letter"
	case t.Fn == "Fields" && bothOK && (strings.Contains(s, "$${a,b}") || c25PidBrace.MatchString(s)):
		// bash's brace scanner skips "${", so $${a,b} stays unexpanded
		return "pid-then-brace-expansion"
	case t.Fn == "Fields" && shErr == nil && !bashOK && strings.Contains(s, `"`) && strings.Contains(s, "$$("):
		// bash 5.2 quirk: "$$(" inside double quotes is reported as an
		// unterminated command substitution ("$$(x)" is not); sh and dash
		// read $$ followed by a literal "("
		return "bash-pid-paren-in-double-quotes"
	case t.Fn == "Fields" && bothOK && c25EscParamBrace.MatchString(s):
		// same family as C16 close-brace-after-commaless-group: in
		// \${V}\{a,b} bash finds no comma in {V}, keeps scanning and
		// takes "V}\{a" and "b" as the alternatives
		return "close-brace-after-commaless-group"
	case t.Fn == "Fields" && bothOK && t.Env == 2 && c25HasLoneDollar(s) && (c25NFields(shOut) > c25NFields(bashGot) ||
		c25NFields(shOut) == c25NFields(bashGot) && strings.ReplaceAll(shOut, " ", "") == strings.ReplaceAll(bashGot, " ", "")):
		// bash quirk: a literal "$" in a word suppresses field splitting of
		// the whole word (dash splits like sh); with one field on both sides
		// the unsplit field keeps its leading/trailing blanks
		return "bash-literal-dollar-suppresses-splitting"
	}
	return ""
}

// c25HasLoneDollar: an unescaped "$" that starts no expansion (followed by
// the end of the string, blank, backslash, "~" or ")").
func c25HasLoneDollar(s string) bool {
	for i := 0; i < len(s); i++ {
		switch s[i] {
		case '\\':
			i++
		case '$':
			if i+1 < len(s) && s[i+1] == '$' {
				i++ // $$ is the pid
				continue
			}
			if i+1 == len(s) || strings.IndexByte(" \n\\~)", s[i+1]) >= 0 {
				return true
			}
		}
	}
	return false
}

func c25NFields(r string) int {
	m := c25Count.FindStringSubmatch(r)
	if m == nil {
		return -1
	}
	n := 0
	for _, ch := range m[1] {
		n = n*10 + int(ch-'0')
	}
	return n
}
