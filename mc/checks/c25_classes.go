package checks

import (
	"regexp"
	"strings"
)

var (
	c25BraceAfterName = regexp.MustCompile(`\$[A-Za-z_]([A-Za-z0-9_]|\\\n)*\{a,b\}`)
	c25EscParamBrace  = regexp.MustCompile(`(?s)\\\$\{[^{}]*\}.*\\\{a,b\}`)
	c25Count          = regexp.MustCompile(`^0:([0-9]+):`)
)

// c25Classify names the narrow divergence families recorded as known
// findings (syntactic shape of the input plus direction of the divergence).
func c25Classify(t c25Case, shErr error, shOut string, bashOK bool, bashGot string) string {
	s := t.S
	bothOK := shErr == nil && bashOK
	switch {
	case shErr == nil && strings.Contains(s, "$\\\n"):
		// a line continuation between "$" and what follows: bash joins the
		// lines first ("$\<nl>V" is $V), sh keeps a literal "$"
		return "dollar-then-line-continuation"
	case bothOK && strings.Contains(s, "\\\\\\\n"):
		// an escaped backslash followed by backslash-newline: sh does not
		// remove the line continuation
		return "escaped-backslash-then-line-continuation"
	case t.Fn == "Fields" && bothOK && c25BraceAfterName.MatchString(s):
		// bash brace-expands textually before parameter expansion, so
		// $V{a,b} becomes $Va $Vb; sh expands $V and then the braces
		return "brace-expansion-extends-parameter-name"
	case t.Fn == "Fields" && bothOK && strings.Contains(s, "$${a,b}"):
		// bash's brace scanner skips "${", so $${a,b} stays unexpanded
		return "pid-then-brace-expansion"
	case t.Fn == "Fields" && shErr == nil && !bashOK && strings.Contains(s, `"`) && strings.Contains(s, "$$("):
		// bash 5.2 quirk: "$$(" inside double quotes is reported as an
		// unterminated command substitution ("$$(x)" is not); sh and dash
		// read $$ followed by a literal "("
		return "bash-pid-paren-in-double-quotes"
	case t.Fn == "Fields" && bothOK && c25EscParamBrace.MatchString(s):
		// same family as C16 close-brace-after-commaless-group: in
		// \${V}\{a,b} bash finds no comma in {V}, keeps scanning and
		// takes "V}\{a" and "b" as the alternatives
		return "close-brace-after-commaless-group"
	case t.Fn == "Fields" && bothOK && t.Env == 2 && c25HasLoneDollar(s) && c25NFields(shOut) > c25NFields(bashGot):
		// bash quirk: a literal "$" in a word suppresses field splitting of
		// the whole word (dash splits like sh)
		return "bash-literal-dollar-suppresses-splitting"
	}
	return ""
}

// c25HasLoneDollar: an unescaped "$" that starts no expansion (followed by
// the end of the string, blank, backslash, "~" or ")").
func c25HasLoneDollar(s string) bool {
	for i := 0; i < len(s); i++ {
		switch s[i] {
		case '\\':
			i++
		case '$':
			if i+1 < len(s) && s[i+1] == '$' {
				i++ // $$ is the pid
				continue
			}
			if i+1 == len(s) || strings.IndexByte(" \n\\~)", s[i+1]) >= 0 {
				return true
			}
		}
	}
	return false
}

func c25NFields(r string) int {
	m := c25Count.FindStringSubmatch(r)
	if m == nil {
		return -1
	}
	n := 0
	for _, ch := range m[1] {
		n = n*10 + int(ch-'0')
	}
	return n
}
