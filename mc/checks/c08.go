package checks

import (
	"fmt"
	"os"
	"strings"
	"sync"

	"verif/mc/vc"
)

func init() { Registry["C08"] = c08 }

// c08Case is one unit of work of any of the parts of C08.
type c08Case struct {
	// Part: "stream" (StmtsSeq + InteractiveSeq of one program), "parser"
	// (one reuse history of a Parser), "printer" (one reuse history of a
	// Printer).
	Part    string `json:"part"`
	Src     string `json:"src,omitempty"`
	Variant string `json:"variant,omitempty"`
	Kind    int    `json:"kind,omitempty"`
	// Opt indexes the option set, Hist the operations applied before the
	// operation under test (indexes into the part's history alphabet).
	Opt  int   `json:"opt,omitempty"`
	Hist []int `json:"hist,omitempty"`
}

// c08States collects the distinct canonical states and (state, operation)
// pairs reached by the history search.
type c08States struct {
	mu     sync.Mutex
	states map[string]bool
	trans  map[string]bool
	traces int64
	execs  int64
	// streamTrans counts the (state, program) pairs of the reused-parser
	// streaming part: distinct by construction (one history per state)
	streamTrans int64
}

func (s *c08States) add(state string, ops []string) {
	s.mu.Lock()
	s.states[state] = true
	for _, op := range ops {
		s.trans[state+"\x00"+op] = true
	}
	s.traces += int64(len(ops))
	s.mu.Unlock()
}

func c08(c *vc.Ctx) {
	c.Level = "model_checking"
	depth := vc.Pick(c, 3, 4)
	pr := c08NewParserReuse()
	pt := c08NewPrinterReuse()
	st := &c08States{states: map[string]bool{}, trans: map[string]bool{}}
	c.Rule = fmt.Sprintf("(1,2) programs: the syntax checks' shared space (test-table corpus + grammar depth %d default layout + the single-gap layout deviations of depth<=%d templates that add a line), newline-terminated (corpus and depth<=1 programs also as they are); every depth<=1 template with all statement gaps on separate lines (5 newline styles: newline, blank line, comment, whitespace-only line, comment ending in a backslash); every sequence of 2 (thorough 3) of %d building blocks (words, comments incl. ones ending in a backslash, empty and whitespace-only lines, multi-line quotes, here-docs, continuations, compound commands, substitutions, and a line ending in a backslash inside each of those), terminated and unterminated; x up to 5 variants x %d parser option sets (KeepComments, default options). Per parseable (program, variant, options): StmtsSeq statements, dumped with positions+comments when handed over, = Parse's (same options); InteractiveSeq over a reader returning one line per Read: no error, statements of the callbacks with Incomplete()=false concatenate to Parse's statements, statements of Incomplete callbacks are the next Parse statements, Incomplete() at each callback = reference (fresh comment-keeping parse of the consumed lines is IsIncomplete, or they end in a line continuation directly after an unterminated statement; a continuation with no open statement accepts either answer), and leaving the loop at any callback does not panic. (3) explicit-state search on the real objects. Parser: %d residue-leaving history operations, %d option sets; %s; after each history each of %d operations (the history operations and %d probes) must give the result (tree dump with positions, error text, callback trace with Incomplete flags) of a fresh Parser with the same options; each operation alone on a fresh Parser must not panic. (3b) for every distinct (option set, Parser state) reached by those histories, the first history reaching it is replayed before each of the %d two-block programs of (2), which is then fed line by line through InteractiveSeq on the reused parser: the callback trace (lines consumed, Incomplete(), statement dumps, EOF, error) must equal a fresh parser's. Printer: %d history operations (nodes of all printable kinds, unsupported nodes, failing writers, option toggles), %d configurations; %s; then each of %d operations (%d probe nodes) vs a fresh Printer. state = reflection dump of the object's private fields after the history (byte-buffer contents and referenced trees excluded); no pruning on states except in (3b); distinct = distinct states + multi-line (program, variant, options)",
		vc.Pick(c, 1, 2), vc.Pick(c, 0, 1), len(c08Statements), len(c08StreamOpts), len(pr.hist), len(pr.opts), pr.bounds(depth), len(pr.ops), len(pr.ops)-len(pr.hist), len(c08Statements)*len(c08Statements), len(pt.hist), len(pt.cfgs), pt.bounds(depth), len(pt.ops), len(pt.probes))
	c.Assumptions = []string{
		"a reader that returns exactly one line per Read is, for the parser, indistinguishable from a blocking pipe fed line by line",
		"the state key omits byte-buffer contents and the previous call's trees; histories are NOT pruned on the key (every sequence up to the bound is executed), so the omission cannot hide a divergence within the bound",
		"histories are drawn from a fixed alphabet of residue-leaving operations, not from all inputs; the operations run after EVERY history are a fixed list too",
		"(3b) runs the space of next inputs once per distinct (option set, state key), on the first history in enumeration order that reaches the state: two histories that leave the same key are assumed to treat the next input alike as far as the excluded byte-buffer contents go (the buffer lengths and nil-ness are part of the key)",
		"parser options are a dimension of the streaming part with two values (KeepComments on, all defaults); StopAt and RecoverErrors are only explored by the reuse part",
	}
	parts := os.Getenv("VERIF_C08_PARTS") // development aid: "stream", "parser", "printer", "relines"
	on := func(p string) bool { return parts == "" || parts == "count" || strings.Contains(parts, p) }
	gen := func(emit func(c08Case)) {
		count := func(t c08Case) {
			c.Count("cases_"+t.Part, 1)
			if parts == "count" {
				c.Count(fmt.Sprintf("cases_%s_kind%d", t.Part, t.Kind), 1)
				return
			}
			emit(t)
		}
		if on("stream") {
			c08GenStream(c, count)
		}
		if on("parser") {
			pr.gen(depth, count)
		}
		if on("printer") {
			pt.gen(depth, count)
		}
		if on("relines") {
			pr.genStream(c, depth, count)
		}
		if parts != "" {
			c.CapNote("VERIF_C08_PARTS=%s: only some parts were run", parts)
		}
	}
	complete := vc.Run(c, gen, func(t c08Case) *vc.Fail {
		switch t.Part {
		case "stream":
			return c08Stream(c, t)
		case "parser":
			return pr.run(c, st, t)
		case "parserop":
			return pr.runOp(c, t)
		case "parserstream":
			return pr.runStream(c, st, t)
		case "printer":
			return pt.run(c, st, t)
		}
		return vc.Failf("bad case", "unknown part %q", t.Part)
	})
	c.Extra["states"] = len(st.states)
	c.Extra["transitions"] = int64(len(st.trans)) + st.streamTrans
	c.Extra["traces_validated_against_impl"] = st.traces + st.streamTrans
	c.Extra["operations_executed_on_impl"] = st.execs
	c.Finish(complete)
}

// c08SeqsExtra enumerates the sequences over n symbols of length <= depth
// that use at least one symbol >= core (the others are produced by a deeper
// c08Seqs(core, ...) call).
func c08SeqsExtra(n, core, depth int, f func([]int)) {
	c08Seqs(n, depth, func(h []int) {
		for _, x := range h {
			if x >= core {
				f(h)
				return
			}
		}
	})
}

// enumerate all sequences over n symbols of length <= depth
func c08Seqs(n, depth int, f func([]int)) {
	var rec func(cur []int)
	rec = func(cur []int) {
		f(append([]int(nil), cur...))
		if len(cur) == depth {
			return
		}
		for i := 0; i < n; i++ {
			rec(append(cur, i))
		}
	}
	rec(nil)
}
